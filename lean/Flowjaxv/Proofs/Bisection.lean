import Mathlib.Tactic
import Mathlib.Algebra.Order.Floor.Semiring
import Mathlib.Data.Nat.Log
import Flowjaxv.Proofs.RealInst
import Flowjaxv.Model.Bisection
/-!
# Proofs about the bisection search over ℝ (C10)

All statements are about the GENERATED loop pieces of `Gen/Bisection.lean` run by the hand-modelled
combinators of `Model/Bisection.lean`.
-/
set_option linter.unusedSectionVars false
set_option linter.unusedVariables false
open Gen Model RealInst

namespace Bisection

/-- equivalent ways of writing a midpoint, normalised to `(a + b) / 2` (robustness to how the source spells it) -/
theorem half_mul (x : ℝ) : (0.5 : ℝ) * x = x / 2 := by norm_num; ring
theorem mul_half (x : ℝ) : x * (0.5 : ℝ) = x / 2 := by norm_num; ring
theorem add_half_sub (a b : ℝ) : a + (b - a) / 2 = (a + b) / 2 := by ring


/-! ### `whileFuel` -/
section whileFuel
variable {σ : Type} (cond : σ → Bool) (body : σ → σ)

theorem whileFuel_of_false {s : σ} (h : cond s = false) (n : ℕ) : whileFuel cond body n s = some s := by
  cases n <;> simp [whileFuel, h]

theorem whileFuel_step {s : σ} (h : cond s = true) (n : ℕ) :
    whileFuel cond body (n + 1) s = whileFuel cond body n (body s) := by
  simp [whileFuel, h]

theorem whileFuel_cond_false : ∀ (n : ℕ) (s s' : σ), whileFuel cond body n s = some s' → cond s' = false := by
  intro n
  induction n with
  | zero =>
    intro s s' h
    by_cases hc : cond s = true
    · simp [whileFuel, hc] at h
    · simp [whileFuel, hc] at h; subst h; simpa using hc
  | succ n ih =>
    intro s s' h
    by_cases hc : cond s = true
    · rw [whileFuel_step cond body hc] at h; exact ih _ _ h
    · simp [whileFuel, hc] at h; subst h; simpa using hc

/-- more fuel does not change a result already obtained -/
theorem whileFuel_mono : ∀ (n : ℕ) (s s' : σ), whileFuel cond body n s = some s' →
    ∀ m, n ≤ m → whileFuel cond body m s = some s' := by
  intro n
  induction n with
  | zero =>
    intro s s' h m _
    by_cases hc : cond s = true
    · simp [whileFuel, hc] at h
    · have hc' : cond s = false := by simpa using hc
      simp [whileFuel, hc] at h; subst h; exact whileFuel_of_false cond body hc' m
  | succ n ih =>
    intro s s' h m hm
    by_cases hc : cond s = true
    · obtain ⟨m', rfl⟩ : ∃ m', m = m' + 1 := ⟨m - 1, by omega⟩
      rw [whileFuel_step cond body hc] at h ⊢
      exact ih _ _ h m' (by omega)
    · have hc' : cond s = false := by simpa using hc
      simp [whileFuel, hc] at h; subst h; exact whileFuel_of_false cond body hc' m

end whileFuel

/-! ### `jnp.sign` over ℝ -/
theorem sign_cases (v : ℝ) :
    (v < 0 ∧ Jnp.sign v = -1) ∨ (v = 0 ∧ Jnp.sign v = 0) ∨ (0 < v ∧ Jnp.sign v = 1) := by
  rcases lt_trichotomy v 0 with h | h | h
  · exact Or.inl ⟨h, jsign_neg h⟩
  · exact Or.inr (Or.inl ⟨h, by rw [h]; exact jsign_zero⟩)
  · exact Or.inr (Or.inr ⟨h, jsign_pos h⟩)

theorem sign_beq_one (v : ℝ) : (Jnp.sign v == (1 : ℝ)) = decide (0 < v) := by
  rcases sign_cases v with ⟨h, e⟩ | ⟨h, e⟩ | ⟨h, e⟩
  · rw [e]; simp [not_lt.mpr h.le]; norm_num
  · rw [e]; simp [h]
  · rw [e]; simp [h]

theorem sign_beq_zero (v : ℝ) : (Jnp.sign v == (0 : ℝ)) = decide (v = 0) := by
  rcases sign_cases v with ⟨h, e⟩ | ⟨h, e⟩ | ⟨h, e⟩
  · rw [e]; simp [h.ne]
  · rw [e]; simp [h]
  · rw [e]; simp [h.ne']

theorem bisCond_false_of_iter {tol : ℝ} {max_iter : Int} {s : ℝ × ℝ × Int} (h : max_iter ≤ s.2.2) :
    bisCond tol max_iter s = false := by
  obtain ⟨lo, hi, it⟩ := s
  simp only at h
  simp [bisCond, Jnp.logicalAnd, not_lt.mpr h]

theorem bisCond_true_iff {tol : ℝ} {max_iter : Int} {s : ℝ × ℝ × Int} :
    bisCond tol max_iter s = true ↔ 2 * tol < s.2.1 - s.1 ∧ s.2.2 < max_iter := by
  obtain ⟨lo, hi, it⟩ := s
  simp [bisCond, Jnp.logicalAnd]

section root
variable (f : ℝ → ℝ) (hf : StrictMono f) (r : ℝ) (hr : f r = 0)
include hf hr

theorem f_neg_iff (x : ℝ) : f x < 0 ↔ x < r := by rw [← hr]; exact hf.lt_iff_lt
theorem f_pos_iff (x : ℝ) : 0 < f x ↔ r < x := by rw [← hr]; exact hf.lt_iff_lt
theorem f_zero_iff (x : ℝ) : f x = 0 ↔ x = r := by rw [← hr]; exact hf.injective.eq_iff

theorem sign_f_eq_one_iff (x : ℝ) : Jnp.sign (f x) = 1 ↔ r < x := by
  rw [← f_pos_iff f hf r hr]
  rcases sign_cases (f x) with ⟨h, e⟩ | ⟨h, e⟩ | ⟨h, e⟩ <;> rw [e]
  · constructor
    · intro h'; norm_num at h'
    · intro h'; linarith
  · constructor
    · intro h'; norm_num at h'
    · intro h'; linarith
  · simp [h]

theorem sign_f_eq_zero_iff (x : ℝ) : Jnp.sign (f x) = 0 ↔ x = r := by
  rw [← f_zero_iff f hf r hr]
  rcases sign_cases (f x) with ⟨h, e⟩ | ⟨h, e⟩ | ⟨h, e⟩ <;> rw [e]
  · constructor
    · intro h'; norm_num at h'
    · intro h'; linarith
  · simp [h]
  · constructor
    · intro h'; norm_num at h'
    · intro h'; linarith

theorem sign_f_eq_neg_one_iff (x : ℝ) : Jnp.sign (f x) = -1 ↔ x < r := by
  rw [← f_neg_iff f hf r hr]
  rcases sign_cases (f x) with ⟨h, e⟩ | ⟨h, e⟩ | ⟨h, e⟩ <;> rw [e]
  · simp [h]
  · constructor
    · intro h'; norm_num at h'
    · intro h'; linarith
  · constructor
    · intro h'; norm_num at h'
    · intro h'; linarith

/-! ### the bisection loop -/

/-- one generated bisection step keeps the root bracketed, at least halves the width (collapsing onto
the root on an exact hit) and increments the counter -/
theorem bisBody_inv (s : ℝ × ℝ × Int) (h : s.1 ≤ r ∧ r ≤ s.2.1) :
    ((bisBody f s).1 ≤ r ∧ r ≤ (bisBody f s).2.1) ∧
      (bisBody f s).2.1 - (bisBody f s).1 ≤ (s.2.1 - s.1) / 2 ∧
      (bisBody f s).2.2 = s.2.2 + 1 ∧
      (f ((s.1 + s.2.1) / 2) = 0 → (bisBody f s).1 = r ∧ (bisBody f s).2.1 = r) := by
  obtain ⟨lo, hi, it⟩ := s
  obtain ⟨h1, h2⟩ := h
  simp only at h1 h2
  simp only [bisBody, half_mul, mul_half, add_half_sub, sign_beq_one, sign_beq_zero, f_pos_iff f hf r hr, f_zero_iff f hf r hr]
  set m := (lo + hi) / 2 with hm
  rcases lt_trichotomy r m with hlt | heq | hgt
  · have : ¬ m = r := hlt.ne'
    simp [hlt, this]
    refine ⟨⟨h1, hlt.le⟩, by rw [hm]; linarith⟩
  · simp [← heq]; linarith
  · have h3 : ¬ r < m := not_lt.mpr hgt.le
    have : ¬ m = r := hgt.ne
    simp [h3, this]
    refine ⟨⟨hgt.le, h2⟩, by rw [hm]; linarith⟩

/-- the bisection loop with enough fuel returns; the root stays bracketed; the width is at most
`w₀ / 2^k` after `k` steps; the counter never exceeds `max_iter` -/
theorem bis_loop (tol : ℝ) (max_iter : Int) :
    ∀ (fuel : ℕ) (s : ℝ × ℝ × Int), s.1 ≤ r ∧ r ≤ s.2.1 → (max_iter - s.2.2).toNat ≤ fuel →
    ∃ s', whileFuel (bisCond tol max_iter) (bisBody f) fuel s = some s' ∧
      (s'.1 ≤ r ∧ r ≤ s'.2.1) ∧ bisCond tol max_iter s' = false ∧
      s.2.2 ≤ s'.2.2 ∧ s'.2.2 ≤ max s.2.2 max_iter ∧
      s'.2.1 - s'.1 ≤ (s.2.1 - s.1) / 2 ^ (s'.2.2 - s.2.2).toNat := by
  intro fuel
  induction fuel with
  | zero =>
    intro s hs hfuel
    have hc : bisCond tol max_iter s = false := bisCond_false_of_iter (by omega)
    exact ⟨s, whileFuel_of_false _ _ hc 0, hs, hc, le_refl _, le_max_left _ _, by simp⟩
  | succ n ih =>
    intro s hs hfuel
    by_cases hc : bisCond tol max_iter s = true
    · have hlt : s.2.2 < max_iter := (bisCond_true_iff.mp hc).2
      obtain ⟨hinv, hw, hit, _⟩ := bisBody_inv f hf r hr s hs
      obtain ⟨s', e, hb, hcf, hit', hmax, hw'⟩ := ih (bisBody f s) hinv (by rw [hit]; omega)
      refine ⟨s', by rw [whileFuel_step _ _ hc]; exact e, hb, hcf, by omega, by rw [hit] at hmax; omega, ?_⟩
      have hk : (s'.2.2 - s.2.2).toNat = (s'.2.2 - (bisBody f s).2.2).toNat + 1 := by omega
      rw [hk, pow_succ]
      have hpos : (0 : ℝ) < 2 ^ (s'.2.2 - (bisBody f s).2.2).toNat := by positivity
      calc s'.2.1 - s'.1 ≤ ((bisBody f s).2.1 - (bisBody f s).1) / 2 ^ (s'.2.2 - (bisBody f s).2.2).toNat := hw'
        _ ≤ ((s.2.1 - s.1) / 2) / 2 ^ (s'.2.2 - (bisBody f s).2.2).toNat :=
              div_le_div_of_nonneg_right hw hpos.le
        _ = (s.2.1 - s.1) / (2 ^ (s'.2.2 - (bisBody f s).2.2).toNat * 2) := by field_simp
    · have hc' : bisCond tol max_iter s = false := by simpa using hc
      exact ⟨s, whileFuel_of_false _ _ hc' _, hs, hc', le_refl _, le_max_left _ _, by simp⟩

/-- `bisect_result` core: from any bracket of the root, `max_iter.toNat` fuel suffices, at most
`max_iter` iterations are made and the returned midpoint is within
`max tol ((hi − lo) / 2^(max_iter+1))` of the root. -/
theorem bis_result (tol : ℝ) (max_iter : Int) (hmi : 0 ≤ max_iter) (lo hi : ℝ) (h : lo ≤ r ∧ r ≤ hi)
    (fuel : ℕ) (hfuel : max_iter.toNat ≤ fuel) :
    ∃ lo' hi' it, bisectLoop f tol max_iter fuel lo hi = some (lo', hi', it) ∧
      lo' ≤ r ∧ r ≤ hi' ∧ 0 ≤ it ∧ it ≤ max_iter ∧
      (hi' - lo' ≤ 2 * tol ∨ it = max_iter) ∧
      hi' - lo' ≤ (hi - lo) / 2 ^ it.toNat ∧
      |bisExit lo' hi' - r| ≤ max tol ((hi - lo) / 2 ^ (max_iter.toNat + 1)) := by
  obtain ⟨⟨lo', hi', it⟩, e, hb, hcf, hit0, hmax, hw⟩ :=
    bis_loop f hf r hr tol max_iter fuel (lo, hi, 0) h (by simpa using hfuel)
  simp only at hb hit0 hmax hw
  have hitle : it ≤ max_iter := by rw [max_eq_right hmi] at hmax; exact hmax
  have hdist : |bisExit lo' hi' - r| ≤ (hi' - lo') / 2 := by
    simp only [bisExit, half_mul, mul_half, add_half_sub]; rw [abs_le]; constructor <;> linarith [hb.1, hb.2]
  have hcases : hi' - lo' ≤ 2 * tol ∨ it = max_iter := by
    by_contra hcon
    push Not at hcon
    have : bisCond tol max_iter (lo', hi', it) = true :=
      bisCond_true_iff.mpr ⟨hcon.1, lt_of_le_of_ne hitle hcon.2⟩
    rw [hcf] at this; exact Bool.false_ne_true this
  rw [sub_zero] at hw
  refine ⟨lo', hi', it, e, hb.1, hb.2, hit0, hitle, hcases, hw, ?_⟩
  rcases hcases with h1 | h2
  · exact le_trans hdist (le_trans (by linarith) (le_max_left _ _))
  · rw [h2] at hw
    refine le_trans hdist (le_trans ?_ (le_max_right _ _))
    rw [pow_succ, div_le_iff₀ (by norm_num : (0 : ℝ) < 2)]
    calc hi' - lo' ≤ (hi - lo) / 2 ^ max_iter.toNat := hw
      _ = (hi - lo) / (2 ^ max_iter.toNat * 2) * 2 := by field_simp

end root

/-! ### the interval-adaptation loop -/

/-- invariant of the adaptation loop: a proper interval, a positive step, and the two cached signs are
the signs of `f` at the two ends -/
def AInv (f : ℝ → ℝ) (s : AdaptState ℝ) : Prop :=
  s.lower < s.upper ∧ 0 < s.expand_by ∧ s.lower_fn_sign = Jnp.sign (f s.lower) ∧
    s.upper_fn_sign = Jnp.sign (f s.upper)

/-- distance still to travel while both ends are on the same side of the root -/
noncomputable def adist (r : ℝ) (s : AdaptState ℝ) : ℝ :=
  if s.lower_fn_sign = 1 then s.lower - r else r - s.upper

/-- while searching, the step equals the length of the hull of everything visited so far -/
def ADir (l0 u0 : ℝ) (s : AdaptState ℝ) : Prop :=
  if s.lower_fn_sign = 1 then s.expand_by = u0 - s.lower else s.expand_by = s.upper - l0

theorem adaptCond_iff (s : AdaptState ℝ) : adaptCond s = true ↔ s.lower_fn_sign = s.upper_fn_sign := by
  simp [adaptCond]

theorem adaptCond_false_iff (s : AdaptState ℝ) : adaptCond s = false ↔ s.lower_fn_sign ≠ s.upper_fn_sign := by
  simp [adaptCond]

theorem adaptBody_of_one (f : ℝ → ℝ) (c : ℝ) (s : AdaptState ℝ) (h : s.lower_fn_sign = 1) :
    adaptBody f c s = ⟨s.lower - s.expand_by, s.lower, s.expand_by * c,
      Jnp.sign (f (s.lower - s.expand_by)), Jnp.sign (f s.lower), s.iteration + 1⟩ := by
  simp [adaptBody, h]

theorem adaptBody_of_ne_one (f : ℝ → ℝ) (c : ℝ) (s : AdaptState ℝ) (h : s.lower_fn_sign ≠ 1) :
    adaptBody f c s = ⟨s.upper, s.upper + s.expand_by, s.expand_by * c,
      Jnp.sign (f s.upper), Jnp.sign (f (s.upper + s.expand_by)), s.iteration + 1⟩ := by
  have hb : (s.lower_fn_sign == (1 : ℝ)) = false := by simpa using h
  simp [adaptBody, hb]

theorem adaptInit_eq (f : ℝ → ℝ) (lower upper : ℝ) :
    adaptInit f lower upper =
      ⟨lower, upper, upper - lower, Jnp.sign (f lower), Jnp.sign (f upper), 0⟩ := rfl

theorem adaptInit_inv (f : ℝ → ℝ) {lower upper : ℝ} (h : lower < upper) : AInv f (adaptInit f lower upper) :=
  ⟨h, by rw [adaptInit_eq]; simp only; linarith, rfl, rfl⟩

section root
variable (f : ℝ → ℝ) (hf : StrictMono f) (r : ℝ) (hr : f r = 0)
include hf hr

/-- while the loop condition holds both ends are strictly on the same side of the root -/
theorem same_side (s : AdaptState ℝ) (hi : AInv f s) (hc : adaptCond s = true) :
    (s.lower_fn_sign = 1 ∧ r < s.lower) ∨ (s.lower_fn_sign = -1 ∧ s.upper_fn_sign = -1 ∧ s.upper < r) := by
  obtain ⟨hlt, _, hl, hu⟩ := hi
  have heq : s.lower_fn_sign = s.upper_fn_sign := (adaptCond_iff s).mp hc
  rcases sign_cases (f s.lower) with ⟨a, sa⟩ | ⟨a, sa⟩ | ⟨a, sa⟩
  · right
    have hu' : Jnp.sign (f s.upper) = -1 := by rw [← hu, ← heq, hl, sa]
    exact ⟨by rw [hl, sa], by rw [hu, hu'], (sign_f_eq_neg_one_iff f hf r hr _).mp hu'⟩
  · exfalso
    have hu' : Jnp.sign (f s.upper) = 0 := by rw [← hu, ← heq, hl, sa]
    have h1 := (f_zero_iff f hf r hr _).mp a
    have h2 := (sign_f_eq_zero_iff f hf r hr _).mp hu'
    linarith
  · left
    exact ⟨by rw [hl, sa], (f_pos_iff f hf r hr _).mp a⟩

/-- when the loop condition is false the root is bracketed -/
theorem bracket_of_exit (s : AdaptState ℝ) (hi : AInv f s) (hc : adaptCond s = false) :
    s.lower ≤ r ∧ r ≤ s.upper := by
  obtain ⟨hlt, _, hl, hu⟩ := hi
  have hne : s.lower_fn_sign ≠ s.upper_fn_sign := (adaptCond_false_iff s).mp hc
  rw [hl, hu] at hne
  have hmono : f s.lower < f s.upper := hf hlt
  rcases sign_cases (f s.lower) with ⟨a, sa⟩ | ⟨a, sa⟩ | ⟨a, sa⟩ <;>
  rcases sign_cases (f s.upper) with ⟨b, sb⟩ | ⟨b, sb⟩ | ⟨b, sb⟩ <;>
  simp only [sa, sb] at hne <;> first
    | exact absurd rfl hne
    | (exfalso; linarith)
    | (constructor
       · first | exact ((f_neg_iff f hf r hr _).mp a).le | exact ((f_zero_iff f hf r hr _).mp a).le
       · first | exact ((f_pos_iff f hf r hr _).mp b).le | exact ((f_zero_iff f hf r hr _).mp b).ge)

/-- the generated epilogue: unchanged strict bracket, or both ends collapsed onto the root when one
end hit it exactly -/
theorem adaptExit_spec (s : AdaptState ℝ) (hi : AInv f s) (hc : adaptCond s = false) :
    (adaptExit s).2.2 = s.iteration ∧
    (((adaptExit s).1 = s.lower ∧ (adaptExit s).2.1 = s.upper ∧ s.lower < r ∧ r < s.upper) ∨
     ((adaptExit s).1 = r ∧ (adaptExit s).2.1 = r ∧ (s.lower = r ∨ s.upper = r))) := by
  obtain ⟨hb1, hb2⟩ := bracket_of_exit f hf r hr s hi hc
  obtain ⟨hlt, _, hl, hu⟩ := hi
  refine ⟨rfl, ?_⟩
  simp only [adaptExit, hl, hu, sign_beq_zero, f_zero_iff f hf r hr]
  by_cases h1 : s.upper = r
  · have h2 : ¬ s.lower = r := by intro h; linarith
    right; simp [h1, h2]
  · by_cases h2 : s.lower = r
    · right; simp [h1, h2]
    · left; simp [h1, h2]
      exact ⟨lt_of_le_of_ne hb1 h2, lt_of_le_of_ne hb2 (Ne.symm h1)⟩

/-- the adaptation loop: with `(2^fuel − 1)·expand_by` at least the distance to the root the loop
returns within `fuel` iterations in a state whose ends bracket the root, and the bracket is never
wider than `B` = initial width + initial distance to the root -/
theorem adapt_loop (l0 u0 B : ℝ) (hB : u0 - l0 + max (l0 - r) (r - u0) ≤ B) :
    ∀ (fuel : ℕ) (s : AdaptState ℝ), AInv f s → s.upper - s.lower ≤ B →
      (adaptCond s = true → ADir l0 u0 s ∧ adist r s ≤ (2 ^ fuel - 1) * s.expand_by) →
      ∃ s', whileFuel adaptCond (adaptBody f 2) fuel s = some s' ∧ AInv f s' ∧ adaptCond s' = false ∧
        s'.upper - s'.lower ≤ B ∧ s.iteration ≤ s'.iteration ∧ s'.iteration ≤ s.iteration + fuel := by
  intro fuel
  induction fuel with
  | zero =>
    intro s hi hw hd
    by_cases hc : adaptCond s = true
    · exfalso
      have hd := (hd hc).2
      simp only [pow_zero, sub_self, zero_mul] at hd
      unfold adist at hd
      rcases same_side f hf r hr s hi hc with ⟨h1, h2⟩ | ⟨h1, _, h2⟩
      · rw [if_pos h1] at hd; linarith
      · rw [if_neg (by rw [h1]; norm_num)] at hd; linarith
    · have hc' : adaptCond s = false := by simpa using hc
      exact ⟨s, whileFuel_of_false _ _ hc' _, hi, hc', hw, le_refl _, by simp⟩
  | succ n ih =>
    intro s hi hw hd
    by_cases hc : adaptCond s = true
    · obtain ⟨hdir, hd⟩ := hd hc
      have hside := same_side f hf r hr s hi hc
      obtain ⟨hlt, hepos, hl, hu⟩ := hi
      rw [whileFuel_step _ _ hc]
      have hB1 : u0 - l0 + (l0 - r) ≤ B := le_trans (by linarith [le_max_left (l0 - r) (r - u0)]) hB
      have hB2 : u0 - l0 + (r - u0) ≤ B := le_trans (by linarith [le_max_right (l0 - r) (r - u0)]) hB
      rcases hside with ⟨h1, hr1⟩ | ⟨h1, hu1, hr1⟩
      · -- root below: (lo, hi) ↦ (lo − e, lo)
        have hbody := adaptBody_of_one f 2 s h1
        have hdir' : s.expand_by = u0 - s.lower := by unfold ADir at hdir; rwa [if_pos h1] at hdir
        have hd0 : adist r s = s.lower - r := by simp [adist, h1]
        obtain ⟨s', e, hi', hc', hw', hit1, hit2⟩ := ih (adaptBody f 2 s)
          (by rw [hbody]; exact ⟨by simp only; linarith, by simp only; linarith, rfl, rfl⟩)
          (by rw [hbody]; simp only; linarith)
          (by
            intro hc2
            have hs2 := same_side f hf r hr (adaptBody f 2 s)
              (by rw [hbody]; exact ⟨by simp only; linarith, by simp only; linarith, rfl, rfl⟩) hc2
            rw [hbody] at hs2 ⊢
            simp only at hs2
            rcases hs2 with ⟨g1, g2⟩ | ⟨_, g2, _⟩
            · refine ⟨by unfold ADir; simp only; rw [if_pos g1]; linarith, ?_⟩
              unfold adist; simp only; rw [if_pos g1]
              rw [hd0, pow_succ] at hd; nlinarith
            · exfalso
              have := (sign_f_eq_neg_one_iff f hf r hr _).mp g2
              linarith)
        refine ⟨s', e, hi', hc', hw', ?_, ?_⟩
        · rw [hbody] at hit1; simp only at hit1; omega
        · rw [hbody] at hit2; simp only at hit2; omega
      · -- root above: (lo, hi) ↦ (hi, hi + e)
        have hne : s.lower_fn_sign ≠ 1 := by rw [h1]; norm_num
        have hbody := adaptBody_of_ne_one f 2 s hne
        have hdir' : s.expand_by = s.upper - l0 := by unfold ADir at hdir; rwa [if_neg hne] at hdir
        have hd0 : adist r s = r - s.upper := by simp [adist, hne]
        obtain ⟨s', e, hi', hc', hw', hit1, hit2⟩ := ih (adaptBody f 2 s)
          (by rw [hbody]; exact ⟨by simp only; linarith, by simp only; linarith, rfl, rfl⟩)
          (by rw [hbody]; simp only; linarith)
          (by
            intro hc2
            have hs2 := same_side f hf r hr (adaptBody f 2 s)
              (by rw [hbody]; exact ⟨by simp only; linarith, by simp only; linarith, rfl, rfl⟩) hc2
            rw [hbody] at hs2 ⊢
            simp only at hs2
            rcases hs2 with ⟨g1, g2⟩ | ⟨g1, _, g2⟩
            · exfalso; linarith
            · have gne : ¬ Jnp.sign (f s.upper) = 1 := by rw [g1]; norm_num
              refine ⟨by unfold ADir; simp only; rw [if_neg gne]; linarith, ?_⟩
              unfold adist; simp only; rw [if_neg gne]
              rw [hd0, pow_succ] at hd; nlinarith)
        refine ⟨s', e, hi', hc', hw', ?_, ?_⟩
        · rw [hbody] at hit1; simp only at hit1; omega
        · rw [hbody] at hit2; simp only at hit2; omega
    · have hc' : adaptCond s = false := by simpa using hc
      exact ⟨s, whileFuel_of_false _ _ hc' _, hi, hc', hw, le_refl _, by omega⟩

end root

/-! ### `_adapt_interval_to_include_root` and `_bisection_search` as wholes -/

/-- distance from the root to the initial interval, in units of the initial width, rounded up -/
noncomputable def adaptUnits (r lower upper : ℝ) : ℕ := ⌈max (lower - r) (r - upper) / (upper - lower)⌉₊

/-- explicit fuel bound for the adaptation loop: the least `N` with `2^N − 1 ≥ ⌈distance / width⌉` -/
noncomputable def adaptFuel (r lower upper : ℝ) : ℕ := Nat.clog 2 (adaptUnits r lower upper + 1)

/-- bound on the width of the adapted bracket: initial width + initial distance to the root -/
noncomputable def adaptWidth (r lower upper : ℝ) : ℝ := upper - lower + max 0 (max (lower - r) (r - upper))

theorem adaptFuel_spec {r lower upper : ℝ} (h : lower < upper) :
    max (lower - r) (r - upper) ≤ (2 ^ adaptFuel r lower upper - 1) * (upper - lower) := by
  have he : 0 < upper - lower := by linarith
  have h1 : adaptUnits r lower upper + 1 ≤ 2 ^ adaptFuel r lower upper := Nat.le_pow_clog (by norm_num) _
  have h2 : ((adaptUnits r lower upper + 1 : ℕ) : ℝ) ≤ ((2 ^ adaptFuel r lower upper : ℕ) : ℝ) := by exact_mod_cast h1
  push_cast at h2
  have h3 : max (lower - r) (r - upper) / (upper - lower) ≤ (adaptUnits r lower upper : ℝ) := Nat.le_ceil _
  rw [div_le_iff₀ he] at h3
  nlinarith

theorem adaptFuel_of_mem {r lower upper : ℝ} (h : lower < upper) (h1 : lower ≤ r) (h2 : r ≤ upper) :
    adaptFuel r lower upper = 0 := by
  have : adaptUnits r lower upper = 0 := by
    unfold adaptUnits
    rw [Nat.ceil_eq_zero]
    apply div_nonpos_of_nonpos_of_nonneg
    · exact max_le (by linarith) (by linarith)
    · linarith
  simp [adaptFuel, this]

theorem adaptFuel_mono {r r' lower upper : ℝ} (h : lower < upper)
    (hd : max (lower - r) (r - upper) ≤ max (lower - r') (r' - upper)) :
    adaptFuel r lower upper ≤ adaptFuel r' lower upper := by
  unfold adaptFuel adaptUnits
  apply Nat.clog_mono_right
  apply Nat.succ_le_succ
  apply Nat.ceil_mono
  exact div_le_div_of_nonneg_right hd (by linarith)

section root
variable (f : ℝ → ℝ) (hf : StrictMono f) (r : ℝ) (hr : f r = 0)
include hf hr

/-- if the initial interval contains the root the loop condition is false at once -/
theorem adaptCond_init_false {lower upper : ℝ} (h : lower < upper) (h1 : lower ≤ r) (h2 : r ≤ upper) :
    adaptCond (adaptInit f lower upper) = false := by
  by_contra hc
  have hc' : adaptCond (adaptInit f lower upper) = true := by simpa using hc
  rcases same_side f hf r hr _ (adaptInit_inv f h) hc' with ⟨_, g⟩ | ⟨_, _, g⟩
  · rw [adaptInit_eq] at g; simp only at g; linarith
  · rw [adaptInit_eq] at g; simp only at g; linarith

theorem adapt_noop {lower upper : ℝ} (h : lower < upper) (h1 : lower ≤ r) (h2 : r ≤ upper) (fuel : ℕ) :
    adaptInterval f lower upper fuel =
      some (if upper = r then r else lower, if lower = r then r else upper, 0) := by
  have hc := adaptCond_init_false f hf r hr h h1 h2
  unfold adaptInterval
  rw [whileFuel_of_false _ _ hc]
  simp only [Option.map_some, adaptInit_eq, adaptExit, sign_beq_zero, f_zero_iff f hf r hr]
  by_cases e1 : upper = r
  · have e2 : ¬ lower = r := by intro e; linarith
    simp [e1, e2]
  · by_cases e2 : lower = r
    · simp [e1, e2]
    · simp [e1, e2]

/-- `_adapt_interval_to_include_root` on any proper interval: terminates within `adaptFuel` iterations,
returns a bracket of the root (collapsed onto the root when an end hit it exactly) no wider than
`adaptWidth` -/
theorem adapt_main {lower upper : ℝ} (h : lower < upper) (fuel : ℕ) (hfuel : adaptFuel r lower upper ≤ fuel) :
    ∃ lo hi it, adaptInterval f lower upper fuel = some (lo, hi, it) ∧
      lo ≤ r ∧ r ≤ hi ∧ ((lo = r ∨ hi = r) → lo = r ∧ hi = r) ∧
      0 ≤ it ∧ it ≤ adaptFuel r lower upper ∧ hi - lo ≤ adaptWidth r lower upper := by
  have hB : upper - lower + max (lower - r) (r - upper) ≤ adaptWidth r lower upper := by
    unfold adaptWidth; linarith [le_max_right 0 (max (lower - r) (r - upper))]
  have hinit := adaptInit_inv f h
  obtain ⟨s', e, hi', hc', hw', hit1, hit2⟩ := adapt_loop f hf r hr lower upper _ hB
    (adaptFuel r lower upper) (adaptInit f lower upper) hinit
    (by rw [adaptInit_eq]; simp only; unfold adaptWidth; linarith [le_max_left 0 (max (lower - r) (r - upper))])
    (by
      intro _
      constructor
      · unfold ADir; rw [adaptInit_eq]; simp
      · have := adaptFuel_spec (r := r) h
        refine le_trans ?_ this
        unfold adist; rw [adaptInit_eq]; simp only
        split
        · exact le_max_left _ _
        · exact le_max_right _ _)
  have e' := whileFuel_mono _ _ _ _ _ e fuel hfuel
  obtain ⟨hit, hspec⟩ := adaptExit_spec f hf r hr s' hi' hc'
  refine ⟨(adaptExit s').1, (adaptExit s').2.1, (adaptExit s').2.2, ?_, ?_⟩
  · unfold adaptInterval; rw [e']; rfl
  · have hi0 : (adaptInit f lower upper).iteration = 0 := rfl
    rw [hi0] at hit1 hit2
    rcases hspec with ⟨a1, a2, a3, a4⟩ | ⟨a1, a2, _⟩
    · rw [a1, a2, hit]
      refine ⟨a3.le, a4.le, ?_, hit1, by omega, hw'⟩
      rintro (g | g)
      · exact absurd g a3.ne
      · exact absurd g a4.ne'
    · rw [a1, a2, hit]
      refine ⟨le_refl _, le_refl _, fun _ => ⟨rfl, rfl⟩, hit1, by omega, ?_⟩
      rw [sub_self]; unfold adaptWidth
      have : (0 : ℝ) ≤ max 0 (max (lower - r) (r - upper)) := le_max_left _ _
      linarith

/-- `_bisection_search` on any proper interval, any `tol`, any `max_iter ≥ 0`: with fuel at least
`max (adaptFuel …) max_iter` it returns `(root, adapt_iterations, iterations)` with the stated bounds -/
theorem search_main {lower upper : ℝ} (h : lower < upper) (tol : ℝ) (max_iter : Int) (hmi : 0 ≤ max_iter)
    (fuel : ℕ) (hf1 : adaptFuel r lower upper ≤ fuel) (hf2 : max_iter.toNat ≤ fuel) :
    ∃ root ai it lo hi, bisectionSearch f lower upper tol max_iter fuel = some (root, ai, it) ∧
      adaptInterval f lower upper fuel = some (lo, hi, ai) ∧ lo ≤ r ∧ r ≤ hi ∧
      0 ≤ ai ∧ ai ≤ adaptFuel r lower upper ∧ 0 ≤ it ∧ it ≤ max_iter ∧
      hi - lo ≤ adaptWidth r lower upper ∧
      |root - r| ≤ max tol ((hi - lo) / 2 ^ (max_iter.toNat + 1)) ∧
      |root - r| ≤ (hi - lo) / 2 ^ (it.toNat + 1) := by
  obtain ⟨lo, hi, ai, ea, b1, b2, _, a0, a1, hw⟩ := adapt_main f hf r hr h fuel hf1
  obtain ⟨lo', hi', it, eb, c1, c2, i0, i1, _, hw', hres⟩ :=
    bis_result f hf r hr tol max_iter hmi lo hi ⟨b1, b2⟩ fuel hf2
  refine ⟨bisExit lo' hi', ai, it, lo, hi, ?_, ea, b1, b2, a0, a1, i0, i1, hw, hres, ?_⟩
  · unfold bisectionSearch; rw [ea]; simp only [bisInit]; rw [eb]
  · have hdist : |bisExit lo' hi' - r| ≤ (hi' - lo') / 2 := by
      simp only [bisExit, half_mul, mul_half, add_half_sub]; rw [abs_le]; constructor <;> linarith
    refine le_trans hdist ?_
    rw [pow_succ, div_le_iff₀ (by norm_num : (0 : ℝ) < 2)]
    calc hi' - lo' ≤ (hi - lo) / 2 ^ it.toNat := hw'
      _ = (hi - lo) / (2 ^ it.toNat * 2) * 2 := by field_simp

end root

/-! ### guards, exact hits, fuel independence -/

theorem searchArgsOk_iff (tol : ℝ) (max_iter : Int) :
    searchArgsOk tol max_iter = true ↔ 0 ≤ max_iter ∧ 0 < tol := by
  simp [searchArgsOk]

theorem inverterArgsOk_iff (lower upper tol : ℝ) (max_iter : Int) :
    inverterArgsOk lower upper tol max_iter = true ↔ lower < upper ∧ 0 < tol ∧ 0 ≤ max_iter := by
  simp [inverterArgsOk, and_assoc]

theorem adaptInterval_mono (f : ℝ → ℝ) (lower upper : ℝ) (n m : ℕ) (h : n ≤ m) (res : ℝ × ℝ × Int)
    (e : adaptInterval f lower upper n = some res) : adaptInterval f lower upper m = some res := by
  unfold adaptInterval at e ⊢
  cases e1 : whileFuel adaptCond (adaptBody f 2) n (adaptInit f lower upper) with
  | none => rw [e1] at e; simp at e
  | some s' =>
    rw [e1] at e
    rw [whileFuel_mono _ _ _ _ _ e1 m h]; exact e

theorem bisectLoop_collapsed (f : ℝ → ℝ) (r tol : ℝ) (htol : 0 < tol) (max_iter : Int) (fuel : ℕ) :
    bisectLoop f tol max_iter fuel r r = some (r, r, 0) := by
  unfold bisectLoop
  apply whileFuel_of_false
  simp [bisCond, Jnp.logicalAnd, htol.le]

section root
variable (f : ℝ → ℝ) (hf : StrictMono f) (r : ℝ) (hr : f r = 0)
include hf hr

/-- an end of the initial interval exactly on the root: no iteration of either loop, the exact root -/
theorem search_root_on_end {lower upper : ℝ} (h : lower < upper) (hend : lower = r ∨ upper = r)
    (tol : ℝ) (htol : 0 < tol) (max_iter : Int) (fuel : ℕ) :
    bisectionSearch f lower upper tol max_iter fuel = some (r, 0, 0) := by
  have hno : adaptInterval f lower upper fuel = some (r, r, 0) := by
    rcases hend with e | e
    · rw [adapt_noop f hf r hr h (by linarith) (by linarith)]
      have : ¬ upper = r := by intro e'; linarith
      simp [e, this]
    · rw [adapt_noop f hf r hr h (by linarith) (by linarith)]
      have : ¬ lower = r := by intro e'; linarith
      simp [e, this]
  unfold bisectionSearch
  rw [hno]; simp only [bisInit]
  rw [bisectLoop_collapsed f r tol htol]
  simp [bisExit, half_mul, mul_half, add_half_sub]

end root

/-! ### the autoregressive scan -/

theorem getItem_eq_getD (xs : List ℝ) (i : ℕ) (h : i < xs.length) (d : ℝ) :
    Jnp.getItem xs (i : Int) = xs.getD i d := by
  unfold Jnp.getItem
  have h0 : ¬ ((i : Int) < 0) := by omega
  have h1 : ¬ ((i : Int) ≥ (xs.length : Int)) := by omega
  simp only [h0, h1, if_false, Int.toNat_natCast]
  rw [List.getD_eq_getElem?_getD, List.getD_eq_getElem?_getD, List.getElem?_eq_getElem h]
  rfl

/-- `fn` maps length-`n` vectors to length-`n` vectors, output `i` depends only on inputs `0..i`
(triangular) and is strictly increasing in input `i` -/
structure Triangular (fn : List ℝ → List ℝ) (n : ℕ) : Prop where
  length_eq : ∀ x : List ℝ, x.length = n → (fn x).length = n
  dep : ∀ (x x' : List ℝ) (i : ℕ), x.length = n → x'.length = n → i < n →
    (∀ j, j ≤ i → x.getD j 0 = x'.getD j 0) → (fn x).getD i 0 = (fn x').getD i 0
  mono : ∀ (x : List ℝ) (i : ℕ), x.length = n → i < n →
    StrictMono (fun t => (fn (x.set i t)).getD i 0)

theorem scalarFn_eq {fn : List ℝ → List ℝ} {n : ℕ} (ht : Triangular fn n) (y : List ℝ) (hy : y.length = n)
    (i : ℕ) (hi : i < n) : scalarFn fn y i = fun t => (fn (y.set i t)).getD i 0 := by
  funext t
  unfold scalarFn
  apply getItem_eq_getD
  rw [ht.length_eq _ (by simp [hy])]; exact hi

theorem getD_set_self (y : List ℝ) (i : ℕ) (h : i < y.length) (v : ℝ) : (y.set i v).getD i 0 = v := by
  simp [List.getD_eq_getElem?_getD, h]

theorem getD_set_ne (y : List ℝ) (i j : ℕ) (h : i ≠ j) (v : ℝ) : (y.set i v).getD j 0 = y.getD j 0 := by
  simp [List.getD_eq_getElem?_getD, List.getElem?_set_ne h]

theorem list_eq_of_getD {a b : List ℝ} (hl : a.length = b.length)
    (h : ∀ j, j < a.length → a.getD j 0 = b.getD j 0) : a = b := by
  apply List.ext_getElem hl
  intro j h1 h2
  have := h j h1
  rw [List.getD_eq_getElem?_getD, List.getD_eq_getElem?_getD, List.getElem?_eq_getElem h1,
    List.getElem?_eq_getElem h2] at this
  simpa using this

/-- in coordinate `i`, with the earlier coordinates already equal to the preimage's, the scalar
function has the preimage's coordinate `i` as its root -/
theorem scalar_root {fn : List ℝ → List ℝ} {n : ℕ} (ht : Triangular fn n) (xs y : List ℝ)
    (hxs : xs.length = n) (hy : y.length = n) (i : ℕ) (hi : i < n)
    (hpre : ∀ j, j < i → y.getD j 0 = xs.getD j 0) :
    (fn (y.set i (xs.getD i 0))).getD i 0 = (fn xs).getD i 0 := by
  apply ht.dep _ _ i (by simp [hy]) hxs hi
  intro j hj
  by_cases e : j = i
  · subst e; exact getD_set_self y j (by omega) _
  · rw [getD_set_ne y i j (Ne.symm e)]; exact hpre j (by omega)

/-- the scan over coordinates with an exact scalar solver recovers the preimage -/
theorem scan_exact {fn : List ℝ → List ℝ} {n : ℕ} (ht : Triangular fn n) (xs : List ℝ) (hxs : xs.length = n)
    (hroot : ∀ i, i < n → (fn xs).getD i 0 = 0)
    (solve : (ℝ → ℝ) → Option ℝ)
    (hsolve : ∀ (g : ℝ → ℝ) (r : ℝ), StrictMono g → g r = 0 → solve g = some r) :
    ∀ (k i : ℕ) (y : List ℝ), i + k = n → y.length = n → (∀ j, j < i → y.getD j 0 = xs.getD j 0) →
      autoregressiveScan solve fn k i y = some xs := by
  intro k
  induction k with
  | zero =>
    intro i y hik hy hpre
    have : y = xs := list_eq_of_getD (by rw [hy, hxs]) (fun j hj => hpre j (by omega))
    simp [autoregressiveScan, this]
  | succ k ih =>
    intro i y hik hy hpre
    have hi : i < n := by omega
    have hs : solve (scalarFn fn y i) = some (xs.getD i 0) := by
      rw [scalarFn_eq ht y hy i hi]
      apply hsolve _ _ (ht.mono y i hy hi)
      rw [scalar_root ht xs y hxs hy i hi hpre]; exact hroot i hi
    unfold autoregressiveScan
    rw [hs]
    apply ih (i + 1) _ (by omega) (by simp [hy])
    intro j hj
    by_cases e : j = i
    · subst e; exact getD_set_self y j (by omega) _
    · rw [getD_set_ne y i j (Ne.symm e)]; exact hpre j (by omega)

/-! ### the adaptation never runs longer than needed -/

section root
variable (f : ℝ → ℝ) (hf : StrictMono f) (r : ℝ) (hr : f r = 0)
include hf hr

/-- if the adaptation loop returns after `k` iterations, the distance to the root was at most
`(2^k − 1)` steps: the loop never runs longer than needed -/
theorem adapt_loop_lower :
    ∀ (fuel : ℕ) (s s' : AdaptState ℝ), AInv f s →
      whileFuel adaptCond (adaptBody f 2) fuel s = some s' → adaptCond s = true →
      s.iteration < s'.iteration ∧
      adist r s ≤ (2 ^ (s'.iteration - s.iteration).toNat - 1) * s.expand_by := by
  intro fuel
  induction fuel with
  | zero => intro s s' _ e hc; simp [whileFuel, hc] at e
  | succ n ih =>
    intro s s' hi e hc
    rw [whileFuel_step _ _ hc] at e
    have hside := same_side f hf r hr s hi hc
    obtain ⟨hlt, hepos, hl, hu⟩ := hi
    rcases hside with ⟨h1, hr1⟩ | ⟨h1, hu1, hr1⟩
    · have hbody := adaptBody_of_one f 2 s h1
      have hi1 : AInv f (adaptBody f 2 s) := by
        rw [hbody]; exact ⟨by simp only; linarith, by simp only; linarith, rfl, rfl⟩
      have hd0 : adist r s = s.lower - r := by simp [adist, h1]
      by_cases hc1 : adaptCond (adaptBody f 2 s) = true
      · obtain ⟨hit, hd⟩ := ih _ _ hi1 e hc1
        rcases same_side f hf r hr _ hi1 hc1 with ⟨g1, g2⟩ | ⟨_, g2, _⟩
        · have hd1 : adist r (adaptBody f 2 s) = s.lower - s.expand_by - r := by
            unfold adist; rw [if_pos g1, hbody]
          rw [hbody] at hit hd; simp only at hit hd
          rw [hbody] at hd1
          rw [hd1] at hd
          have hk : (s'.iteration - s.iteration).toNat = (s'.iteration - (s.iteration + 1)).toNat + 1 := by omega
          refine ⟨by omega, ?_⟩
          rw [hd0, hk, pow_succ]; nlinarith
        · exfalso
          rw [hbody] at g2; simp only at g2
          have := (sign_f_eq_neg_one_iff f hf r hr _).mp g2
          linarith
      · have hc1' : adaptCond (adaptBody f 2 s) = false := by simpa using hc1
        rw [whileFuel_of_false _ _ hc1'] at e
        have e' : adaptBody f 2 s = s' := by simpa using e
        have hb := bracket_of_exit f hf r hr _ hi1 hc1'
        rw [← e', hbody]; simp only
        rw [hbody] at hb; simp only at hb
        refine ⟨by omega, ?_⟩
        have : (s.iteration + 1 - s.iteration).toNat = 1 := by omega
        rw [this, hd0]; norm_num; linarith [hb.1]
    · have hne : s.lower_fn_sign ≠ 1 := by rw [h1]; norm_num
      have hbody := adaptBody_of_ne_one f 2 s hne
      have hi1 : AInv f (adaptBody f 2 s) := by
        rw [hbody]; exact ⟨by simp only; linarith, by simp only; linarith, rfl, rfl⟩
      have hd0 : adist r s = r - s.upper := by simp [adist, hne]
      by_cases hc1 : adaptCond (adaptBody f 2 s) = true
      · obtain ⟨hit, hd⟩ := ih _ _ hi1 e hc1
        rcases same_side f hf r hr _ hi1 hc1 with ⟨g1, g2⟩ | ⟨g1, _, g2⟩
        · exfalso
          rw [hbody] at g2; simp only at g2; linarith
        · have gne : ¬ (adaptBody f 2 s).lower_fn_sign = 1 := by rw [g1]; norm_num
          have hd1 : adist r (adaptBody f 2 s) = r - (s.upper + s.expand_by) := by
            unfold adist; rw [if_neg gne, hbody]
          rw [hbody] at hit hd; simp only at hit hd
          rw [hbody] at hd1
          rw [hd1] at hd
          have hk : (s'.iteration - s.iteration).toNat = (s'.iteration - (s.iteration + 1)).toNat + 1 := by omega
          refine ⟨by omega, ?_⟩
          rw [hd0, hk, pow_succ]; nlinarith
      · have hc1' : adaptCond (adaptBody f 2 s) = false := by simpa using hc1
        rw [whileFuel_of_false _ _ hc1'] at e
        have e' : adaptBody f 2 s = s' := by simpa using e
        have hb := bracket_of_exit f hf r hr _ hi1 hc1'
        rw [← e', hbody]; simp only
        rw [hbody] at hb; simp only at hb
        refine ⟨by omega, ?_⟩
        have : (s.iteration + 1 - s.iteration).toNat = 1 := by omega
        rw [this, hd0]; norm_num; linarith [hb.2]

/-- the number of adaptation iterations is EXACTLY `adaptFuel` -/
theorem adapt_iterations_eq {lower upper : ℝ} (h : lower < upper) (fuel : ℕ) (lo hi : ℝ) (it : Int)
    (e : adaptInterval f lower upper fuel = some (lo, hi, it)) : it = adaptFuel r lower upper := by
  obtain ⟨lo', hi', it', e', _, _, _, h0, h1, _⟩ :=
    adapt_main f hf r hr h (max fuel (adaptFuel r lower upper)) (le_max_right _ _)
  have := adaptInterval_mono f lower upper fuel (max fuel (adaptFuel r lower upper)) (le_max_left _ _) _ e
  rw [e'] at this
  simp only [Option.some.injEq, Prod.mk.injEq] at this
  obtain ⟨rfl, rfl, rfl⟩ := this
  apply le_antisymm h1
  -- lower bound
  unfold adaptInterval at e
  cases e1 : whileFuel adaptCond (adaptBody f 2) fuel (adaptInit f lower upper) with
  | none => rw [e1] at e; simp at e
  | some s' =>
    rw [e1] at e
    have hit : s'.iteration = it' := by
      have : adaptExit s' = (lo', hi', it') := by simpa using e
      have h2 : (adaptExit s').2.2 = s'.iteration := rfl
      rw [this] at h2; exact h2.symm
    by_cases hc : adaptCond (adaptInit f lower upper) = true
    · obtain ⟨hlt, hd⟩ := adapt_loop_lower f hf r hr fuel _ _ (adaptInit_inv f h) e1 hc
      have hi0 : (adaptInit f lower upper).iteration = 0 := rfl
      have he0 : (adaptInit f lower upper).expand_by = upper - lower := rfl
      rw [hi0, sub_zero, hit] at hd
      rw [he0] at hd
      have hpos : 0 < upper - lower := by linarith
      -- adist init = max (lower - r) (r - upper)
      have hside := same_side f hf r hr _ (adaptInit_inv f h) hc
      have hmax : max (lower - r) (r - upper) ≤ (2 ^ it'.toNat - 1) * (upper - lower) := by
        rcases hside with ⟨g1, g2⟩ | ⟨g1, _, g2⟩
        · have : adist r (adaptInit f lower upper) = lower - r := by unfold adist; rw [if_pos g1]; rfl
          rw [this] at hd
          have g2' : r < lower := g2
          exact max_le hd (by nlinarith [hd])
        · have gne : ¬ (adaptInit f lower upper).lower_fn_sign = 1 := by rw [g1]; norm_num
          have : adist r (adaptInit f lower upper) = r - upper := by unfold adist; rw [if_neg gne]; rfl
          rw [this] at hd
          have g2' : upper < r := g2
          exact max_le (by nlinarith [hd]) hd
      have hunits : adaptUnits r lower upper + 1 ≤ 2 ^ it'.toNat := by
        have h3 : max (lower - r) (r - upper) / (upper - lower) ≤ ((2 ^ it'.toNat - 1 : ℕ) : ℝ) := by
          rw [div_le_iff₀ hpos]
          have : ((2 ^ it'.toNat - 1 : ℕ) : ℝ) = 2 ^ it'.toNat - 1 := by
            rw [Nat.cast_sub Nat.one_le_two_pow]; simp
          rw [this]; exact hmax
        have := Nat.ceil_le.mpr h3
        have h4 : 1 ≤ 2 ^ it'.toNat := Nat.one_le_two_pow
        unfold adaptUnits; omega
      have := Nat.clog_le_of_le_pow hunits
      unfold adaptFuel; omega
    · have hc' : adaptCond (adaptInit f lower upper) = false := by simpa using hc
      -- no iteration: the root is inside, adaptFuel = 0
      have hb := bracket_of_exit f hf r hr _ (adaptInit_inv f h) hc'
      have : adaptFuel r lower upper = 0 := adaptFuel_of_mem h hb.1 hb.2
      rw [this]; exact h0
end root

end Bisection
