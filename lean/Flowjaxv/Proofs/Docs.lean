import Flowjaxv.Proofs.Leaves
import Flowjaxv.Proofs.Perm
import Flowjaxv.Model.Ctors
import Flowjaxv.Gen.Misc
/-! Lemmas behind C07: the generated leaves compute their documented functions. -/
open Gen RealInst Set

namespace Docs

theorem one_sub_tanh_sq (x : ℝ) :
    1 - Real.tanh x ^ 2 = 4 / (Real.exp x + Real.exp (-x)) ^ 2 := by
  have hp : 0 < Real.exp x + Real.exp (-x) := by positivity
  have e5 : Real.exp x * Real.exp (-x) = 1 := by rw [← Real.exp_add]; simp
  rw [Real.tanh_eq]; field_simp; nlinarith [e5]

/-- `exp(_tanh_log_grad x) = 1 − tanh² x`: the generated log-gradient really is `log tanh'`. -/
theorem exp_tanhLogGrad (x : ℝ) : Real.exp (tanhLogGrad x) = 1 - Real.tanh x ^ 2 := by
  have hp : 0 < 1 + Real.exp (-2 * x) := by positivity
  have h2 : (0 : ℝ) < 2 := by norm_num
  unfold tanhLogGrad
  simp only [softplus_eq, log_eq]
  have e1 : (-2 : ℝ) * (x + Real.log (1 + Real.exp (-2 * x)) - Real.log 2)
      = -2 * x + (-2) * Real.log (1 + Real.exp (-2 * x)) + 2 * Real.log 2 := by ring
  rw [e1, Real.exp_add, Real.exp_add]
  have e2 : Real.exp (-2 * Real.log (1 + Real.exp (-2 * x))) = ((1 + Real.exp (-2 * x)) ^ 2)⁻¹ := by
    rw [show (-2 : ℝ) * Real.log (1 + Real.exp (-2 * x)) = -(2 * Real.log (1 + Real.exp (-2 * x))) by ring,
      Real.exp_neg, show (2 : ℝ) * Real.log (1 + Real.exp (-2 * x)) = Real.log (1 + Real.exp (-2 * x)) * (2 : ℕ) by push_cast; ring,
      Real.exp_mul, Real.exp_log hp]; norm_cast
  have e3 : Real.exp (2 * Real.log 2) = 4 := by
    rw [show (2 : ℝ) * Real.log 2 = Real.log 2 * (2 : ℕ) by push_cast; ring, Real.exp_mul, Real.exp_log h2]; norm_num
  rw [e2, e3, one_sub_tanh_sq]
  have e4 : Real.exp (-2 * x) = Real.exp (-x) * Real.exp (-x) := by rw [← Real.exp_add]; ring_nf
  have e5 : Real.exp x * Real.exp (-x) = 1 := by rw [← Real.exp_add]; simp
  have hq : 0 < Real.exp x + Real.exp (-x) := by positivity
  rw [e4]
  field_simp
  have : Real.exp x * (1 + Real.exp (-x) * Real.exp (-x)) = Real.exp x + Real.exp (-x) := by
    calc Real.exp x * (1 + Real.exp (-x) * Real.exp (-x))
        = Real.exp x + (Real.exp x * Real.exp (-x)) * Real.exp (-x) := by ring
      _ = Real.exp x + Real.exp (-x) := by rw [e5, one_mul]
  nlinarith [this, sq_nonneg (Real.exp x), Real.exp_pos x, Real.exp_pos (-x)]

theorem leaky_linear_grad_eq (m : ℝ) :
    (LeakyTanh.init m : LeakyTanh ℝ).linear_grad = 1 - Real.tanh m ^ 2 := by
  simp only [LeakyTanh.init, exp_eq]; exact exp_tanhLogGrad m

theorem leaky_intercept_eq (m : ℝ) :
    (LeakyTanh.init m : LeakyTanh ℝ).intercept = Real.tanh m - (1 - Real.tanh m ^ 2) * m := by
  have := leaky_linear_grad_eq m
  simp only [LeakyTanh.init, exp_eq, tanh_eq] at this ⊢
  rw [this]

end Docs
