import Flowjaxv.Proofs.Families
import Flowjaxv.Proofs.MassLeaves
/-!
# Sample laws of the parametric families (C05): "samples follow that density"

Every `_Standard…._sample` of `flowjax/distributions.py` is ONE call of a `jax.random` primitive
(`jr.normal`, `jr.uniform`, `jr.gumbel`, `jr.cauchy`, `jr.t`, `jr.laplace`, `jr.exponential`, `jr.logistic`):
that the primitive's output has the standard density is trusted.  What is proved here is everything the
flowjax code adds: pushing a base sample with density `p` through the constructor's bijection (the GENERATED
`Transformed._sample` over the generated `Affine`/`Scale`/`Chain [Affine, Exp]` with the SoftPlus-reparameterised
scale) gives a law whose density is `(1/scale)·p((x − loc)/scale)` — and that this is `exp ∘ log_prob` of the same
object (on the support; `0` outside it).
-/
open Gen RealInst ProbabilityTheory MeasureTheory Families

namespace FamiliesLaw

/-! ### the generic location–scale push-forward -/

/-- **loc-scale law**: if the base sample has density `p` w.r.t. Lebesgue measure, the model's sampler
`scale·z + loc` (`scale > 0`) has density `x ↦ p((x − loc)/scale) / scale` -/
theorem locScale_law (lp : ℝ → ℝ) (loc scale : ℝ) (h : 0 < scale) (p : ℝ → ℝ) :
    Measure.map (fun z => (locScale lp loc scale).sample z ())
        (volume.withDensity fun z => ENNReal.ofReal (p z))
      = volume.withDensity fun x => ENNReal.ofReal (p ((x - loc) / scale) / scale) := by
  have hs := FamiliesPf.affine_scale_eq loc scale h
  have hJ := (Mass.affine_invJac (C := Unit) (Ctors.affine loc scale) (by rw [hs]; exact h.ne') ()).lawOK
  have e := hJ.law p
  have hf : (fun z => (locScale lp loc scale).sample z ())
      = fun x => ((Ctors.affine loc scale).toBij : Bij ℝ Unit ℝ).fwd x () := rfl
  rw [hf, e]
  congr 1
  funext x
  congr 1
  simp only [Affine.toBij, Affine.inverse, Affine.inverse_and_log_det, hs, FamiliesPf.affine_loc_eq, sumElem_eq,
    jabs_eq, log_eq, abs_of_pos h, Real.exp_neg, Real.exp_log h]
  rfl

/-- … in particular, if the base density is `exp ∘ lp` (the standard `_log_prob`), the law of the sampler
has density `exp ∘ log_prob` of the location–scale family -/
theorem locScale_law_exp (lp : ℝ → ℝ) (loc scale : ℝ) (h : 0 < scale) :
    Measure.map (fun z => (locScale lp loc scale).sample z ())
        (volume.withDensity fun z => ENNReal.ofReal (Real.exp (lp z)))
      = volume.withDensity fun x => ENNReal.ofReal (Real.exp ((locScale lp loc scale).logProb x ())) := by
  rw [locScale_law lp loc scale h]
  congr 1
  funext x
  rw [FamiliesPf.locScale_logProb lp loc scale x h, Real.exp_sub, Real.exp_log h]

/-- the scale-only push-forward (`Exponential`: `Scale(1/rate)`) -/
theorem scale_law (s : ℝ) (h : 0 < s) (p : ℝ → ℝ) :
    Measure.map (fun z => ((Ctors.scale s).toBij : Bij ℝ Unit ℝ).fwd z ())
        (volume.withDensity fun z => ENNReal.ofReal (p z))
      = volume.withDensity fun x => ENNReal.ofReal (p (x / s) / s) := by
  have hs := FamiliesPf.scale_scale_eq s h
  have hJ := (Mass.scale_invJac (C := Unit) (Ctors.scale s) (by rw [hs]; exact h.ne') ()).lawOK
  rw [hJ.law p]
  congr 1
  funext x
  congr 1
  simp only [Scale.toBij, Scale.inverse, Scale.inverse_and_log_det, hs, sumElem_eq,
    jabs_eq, log_eq, abs_of_pos h, Real.exp_neg, Real.exp_log h]
  rfl

/-- the `Exp` push-forward (`LogNormal`): if `z` has density `p` then `exp z` has density `p(log y)/y` on
`(0, ∞)` and `0` elsewhere -/
theorem exp_law (p : ℝ → ℝ) :
    Measure.map Real.exp (volume.withDensity fun z => ENNReal.ofReal (p z))
      = volume.withDensity fun y => if 0 < y then ENNReal.ofReal (p (Real.log y) / y) else 0 := by
  have hmeas : Measurable Real.exp := Real.measurable_exp
  ext A hA
  rw [Measure.map_apply hmeas hA, withDensity_apply _ (hmeas hA), withDensity_apply _ hA]
  have himg : Real.exp '' (Real.exp ⁻¹' A) = A ∩ Set.Ioi 0 := by
    rw [Set.image_preimage_eq_inter_range, Real.range_exp]
  have h := lintegral_image_eq_lintegral_abs_deriv_mul (hmeas hA)
    (fun x _ => (Real.hasDerivAt_exp x).hasDerivWithinAt) (Real.exp_injective.injOn)
    (fun y => if 0 < y then ENNReal.ofReal (p (Real.log y) / y) else 0)
  rw [himg] at h
  have hsplit : ∫⁻ y in A, (if 0 < y then ENNReal.ofReal (p (Real.log y) / y) else 0)
      = ∫⁻ y in A ∩ Set.Ioi 0, (if 0 < y then ENNReal.ofReal (p (Real.log y) / y) else 0) := by
    rw [← lintegral_indicator hA, ← lintegral_indicator (hA.inter measurableSet_Ioi)]
    congr 1
    funext y
    by_cases hy : 0 < y
    · by_cases hyA : y ∈ A
      · simp [Set.indicator, hy, hyA]
      · simp [Set.indicator, hyA]
    · simp [Set.indicator, hy]
  rw [hsplit, h]
  refine setLIntegral_congr_fun (hmeas hA) (fun x _ => ?_)
  simp only [Real.exp_pos, if_true, Real.log_exp]
  rw [abs_of_pos (Real.exp_pos x), ← ENNReal.ofReal_mul (Real.exp_pos x).le]
  congr 1
  field_simp

/-! ### the families -/

/-- Normal, against Lebesgue densities: base density `exp(−z²/2)/√(2π)` (= `exp ∘ StandardNormal._log_prob`) -/
theorem normal_law (μ σ : ℝ) (h : 0 < σ) :
    Measure.map (fun z => (normal μ σ).sample z ())
        (volume.withDensity fun z => ENNReal.ofReal (Real.exp (-(z * z) / 2 - Real.log (Real.sqrt (2 * Real.pi)))))
      = volume.withDensity fun x => ENNReal.ofReal (Real.exp ((normal μ σ).logProb x ())) :=
  locScale_law_exp StandardNormal.logProb μ σ h

/-- Gumbel: base density `exp(−(z + e^{−z}))` -/
theorem gumbel_law (μ β : ℝ) (h : 0 < β) :
    Measure.map (fun z => (gumbel μ β).sample z ())
        (volume.withDensity fun z => ENNReal.ofReal (Real.exp (-(z + Real.exp (-z)))))
      = volume.withDensity fun x => ENNReal.ofReal (Real.exp ((gumbel μ β).logProb x ())) :=
  locScale_law_exp StandardGumbel.logProb μ β h

/-- Laplace: base density `exp(−|z|)/2` -/
theorem laplace_law (μ b : ℝ) (h : 0 < b) :
    Measure.map (fun z => (laplace μ b).sample z ())
        (volume.withDensity fun z => ENNReal.ofReal (Real.exp (-|z| - Real.log 2)))
      = volume.withDensity fun x => ENNReal.ofReal (Real.exp ((laplace μ b).logProb x ())) := by
  have := locScale_law_exp StandardLaplace.logProb μ b h
  simp only [StandardLaplace.logProb, Stats.laplaceLogpdf, sumElem_eq, jabs_eq, log_eq] at this
  exact this

/-- Logistic: base density `e^{−z}/(1 + e^{−z})²` (as `exp(−z − 2·log(1 + e^{−z}))`) -/
theorem logistic_law (μ s : ℝ) (h : 0 < s) :
    Measure.map (fun z => (logistic μ s).sample z ())
        (volume.withDensity fun z => ENNReal.ofReal (Real.exp (-z - 2 * Real.log (1 + Real.exp (-z)))))
      = volume.withDensity fun x => ENNReal.ofReal (Real.exp ((logistic μ s).logProb x ())) :=
  locScale_law_exp StandardLogistic.logProb μ s h

/-- Cauchy: base density `1/(π(1 + z²))` -/
theorem cauchy_law (x₀ γ : ℝ) (h : 0 < γ) :
    Measure.map (fun z => (cauchy x₀ γ).sample z ())
        (volume.withDensity fun z => ENNReal.ofReal (Real.exp (-Real.log Real.pi - Real.log (1 + z * z))))
      = volume.withDensity fun x => ENNReal.ofReal (Real.exp ((cauchy x₀ γ).logProb x ())) :=
  locScale_law_exp StandardCauchy.logProb x₀ γ h

/-- … with Mathlib's Cauchy measures: a standard Cauchy base sample is mapped to `Cauchy(x₀, γ)` -/
theorem cauchy_law_mathlib (x₀ γ : ℝ) (h : 0 < γ) :
    Measure.map (fun z => (cauchy x₀ γ).sample z ()) (cauchyMeasure 0 1)
      = cauchyMeasure x₀ (NNReal.mk γ h.le) := by
  have hγ : NNReal.mk γ h.le ≠ 0 := fun e => h.ne' (congrArg NNReal.toReal e)
  rw [cauchyMeasure_of_scale_ne_zero 0 one_ne_zero, cauchyMeasure_of_scale_ne_zero x₀ hγ]
  have hb : cauchyPDF 0 1 = fun z => ENNReal.ofReal (Real.exp (StandardCauchy.logProb z)) := by
    funext z
    have := FamiliesPf.cauchy_eq_log_cauchyPDF 0 1 z one_pos
    unfold cauchy at this
    rw [FamiliesPf.locScale_logProb _ _ _ _ one_pos] at this
    simp only [sub_zero, div_one, Real.log_one] at this
    rw [cauchyPDF_def, this, Real.exp_log]
    · rfl
    · exact cauchyPDF_pos 0 (by simp) z
  have ht : cauchyPDF x₀ (NNReal.mk γ h.le)
      = fun x => ENNReal.ofReal (Real.exp ((cauchy x₀ γ).logProb x ())) := by
    funext x
    rw [cauchyPDF_def, FamiliesPf.cauchy_eq_log_cauchyPDF x₀ γ x h, Real.exp_log (cauchyPDF_pos x₀ hγ x)]
  rw [hb, ht]
  exact locScale_law_exp StandardCauchy.logProb x₀ γ h

/-- StudentT: base density the textbook t density with `ν` degrees of freedom
`Γ((ν+1)/2) / (√(νπ) Γ(ν/2)) · (1 + z²/ν)^{−(ν+1)/2}`, written as the exponential of its logarithm -/
theorem studentT_law (ν μ σ : ℝ) (hν : 0 < ν) (h : 0 < σ) :
    Measure.map (fun z => (studentT ν μ σ).sample z ())
        (volume.withDensity fun z => ENNReal.ofReal (Real.exp
          (Real.log (Real.Gamma ((ν + 1) / 2)) - Real.log (Real.Gamma (ν / 2)) - Real.log (ν * Real.pi) / 2
            - (ν + 1) / 2 * Real.log (1 + z * z / ν))))
      = volume.withDensity fun x => ENNReal.ofReal (Real.exp ((studentT ν μ σ).logProb x ())) := by
  have := locScale_law_exp (StdStudentT.mk ν).logProb μ σ h
  have e : studentT ν μ σ = locScale (StdStudentT.mk ν).logProb μ σ := by
    unfold studentT; rw [FamiliesPf.studentDf_eq ν hν]
  rw [e]
  simp only [StdStudentT.logProb, Stats.tLogpdf, sumElem_eq, log_eq, FamiliesPf.pi_eq, FamiliesPf.lgamma_eq] at this
  exact this

/-- Uniform: a base sample uniform on `[0, 1]` (`jr.uniform` draws from `[0, 1)`, the same law) is mapped to
the law with density `exp ∘ log_prob = 1/(b − a)` on `[a, b]` and `0` outside -/
theorem uniform_law (a b : ℝ) (h : a < b) :
    Measure.map (fun z => (uniform a b).sample z ()) (volume.restrict (Set.Icc 0 1))
      = volume.withDensity fun x =>
          if a ≤ x ∧ x ≤ b then ENNReal.ofReal (Real.exp ((uniform a b).logProb x ())) else 0 := by
  have hpos : 0 < b - a := sub_pos.mpr h
  have hbase : volume.restrict (Set.Icc (0 : ℝ) 1)
      = volume.withDensity fun z => ENNReal.ofReal ((Set.Icc (0 : ℝ) 1).indicator 1 z) := by
    rw [← withDensity_indicator_one measurableSet_Icc]
    congr 1
    funext z
    by_cases hz : z ∈ Set.Icc (0 : ℝ) 1 <;> simp [Set.indicator, hz]
  have hf : (fun z => (uniform a b).sample z ())
      = fun z => (locScale StandardUniform.logProb a (b - a)).sample z () := rfl
  rw [hbase, hf, locScale_law _ a (b - a) hpos]
  congr 1
  funext x
  by_cases hx : a ≤ x ∧ x ≤ b
  · rw [if_pos hx, FamiliesPf.uniform_lp a b x h hx.1 hx.2, Real.exp_neg, Real.exp_log hpos]
    have hm : (x - a) / (b - a) ∈ Set.Icc (0 : ℝ) 1 :=
      ⟨div_nonneg (by linarith) hpos.le, (div_le_one hpos).mpr (by linarith)⟩
    simp [Set.indicator, hm]
  · rw [if_neg hx]
    have hm : (x - a) / (b - a) ∉ Set.Icc (0 : ℝ) 1 := by
      rintro ⟨h0, h1⟩
      apply hx
      rw [div_le_one hpos] at h1
      have := (div_nonneg_iff.mp h0)
      constructor
      · rcases this with ⟨h2, _⟩ | ⟨_, h3⟩ <;> linarith
      · linarith
    simp [Set.indicator, hm]

/-- Exponential: a standard exponential base sample (Mathlib's `expMeasure 1`) is mapped to
Mathlib's exponential law with rate `λ` -/
theorem exponential_law (lam : ℝ) (h : 0 < lam) :
    Measure.map (fun z => (exponential lam).sample z ()) (expMeasure 1) = expMeasure lam := by
  have hpos : 0 < 1 / lam := by positivity
  have hb : ∀ r : ℝ, expMeasure r = volume.withDensity fun z => ENNReal.ofReal (exponentialPDFReal r z) := by
    intro r; rfl
  have hf : (fun z => (exponential lam).sample z ())
      = fun z => ((Ctors.scale (1 / lam)).toBij : Bij ℝ Unit ℝ).fwd z () := rfl
  rw [hb 1, hb lam, hf, scale_law (1 / lam) hpos]
  congr 1
  funext x
  congr 1
  simp only [exponentialPDFReal, gammaPDFReal, Real.rpow_one, Real.Gamma_one, div_one, sub_self, Real.rpow_zero,
    mul_one, one_mul]
  have e : x / (1 / lam) = x * lam := by field_simp
  rw [e]
  by_cases hx : 0 ≤ x
  · rw [if_pos hx, if_pos (mul_nonneg hx h.le)]
    field_simp
  · rw [if_neg hx, if_neg (by intro h0; exact hx (nonneg_of_mul_nonneg_left h0 h))]
    simp

/-- … and `exp ∘ log_prob` is that law's density on the support `[0, ∞)` (it is `0` outside) -/
theorem exponential_law_density (lam : ℝ) (h : 0 < lam) :
    Measure.map (fun z => (exponential lam).sample z ()) (expMeasure 1)
      = volume.withDensity fun x =>
          if 0 ≤ x then ENNReal.ofReal (Real.exp ((exponential lam).logProb x ())) else 0 := by
  rw [exponential_law lam h]
  show volume.withDensity (fun z => ENNReal.ofReal (exponentialPDFReal lam z)) = _
  congr 1
  funext x
  by_cases hx : 0 ≤ x
  · rw [if_pos hx, FamiliesPf.exponential_eq_log_exponentialPDF lam x h hx, Real.exp_log]
    rw [exponentialPDFReal, gammaPDFReal, if_pos hx]
    have : 0 < Real.exp (-(lam * x)) := Real.exp_pos _
    simp only [Real.rpow_one, Real.Gamma_one, div_one, sub_self, Real.rpow_zero, mul_one]
    positivity
  · rw [if_neg hx, exponentialPDFReal, gammaPDFReal, if_neg hx, ENNReal.ofReal_zero]

/-- LogNormal: a standard Gaussian base sample is mapped to the law with density
`exp ∘ log_prob` on `(0, ∞)` and `0` elsewhere -/
theorem logNormal_law (μ σ : ℝ) (h : 0 < σ) :
    Measure.map (fun z => (logNormal μ σ).sample z ()) (gaussianReal 0 1)
      = volume.withDensity fun x =>
          if 0 < x then ENNReal.ofReal (Real.exp ((logNormal μ σ).logProb x ())) else 0 := by
  have hv : NNReal.mk (σ ^ 2) (sq_nonneg σ) ≠ 0 := fun e => (pow_pos h 2).ne' (congrArg NNReal.toReal e)
  have hf : (fun z => (logNormal μ σ).sample z ()) = Real.exp ∘ (fun z => (normal μ σ).sample z ()) := by
    funext z
    rw [Function.comp, FamiliesPf.logNormal_sample μ σ z h,
      show (normal μ σ).sample z () = σ * z + μ from FamiliesPf.locScale_sample _ μ σ z h]
  have hm : Measurable (fun z => (normal μ σ).sample z ()) := by
    have : (fun z => (normal μ σ).sample z ()) = fun z => σ * z + μ := by
      funext z; exact FamiliesPf.locScale_sample _ μ σ z h
    rw [this]; fun_prop
  rw [hf, ← Measure.map_map Real.measurable_exp hm, FamiliesPf.normal_sample_law μ σ h,
    gaussianReal_of_var_ne_zero μ hv, gaussianPDF_def, exp_law]
  congr 1
  funext x
  by_cases hx : 0 < x
  · rw [if_pos hx, if_pos hx]
    congr 1
    rw [FamiliesPf.logNormal_lp μ σ x h hx, gaussianPDFReal_def]
    have hsq : Real.sqrt (2 * Real.pi * ((NNReal.mk (σ ^ 2) (sq_nonneg σ)) : ℝ)) = σ * Real.sqrt (2 * Real.pi) := by
      show Real.sqrt (2 * Real.pi * σ ^ 2) = _
      rw [Real.sqrt_mul (by positivity), Real.sqrt_sq h.le]; ring
    have hp : 0 < Real.sqrt (2 * Real.pi) := Real.sqrt_pos.mpr (by positivity)
    rw [hsq, Real.exp_sub, Real.exp_log (by positivity)]
    show (σ * √(2 * Real.pi))⁻¹ * Real.exp (-(Real.log x - μ) ^ 2 / (2 * σ ^ 2)) / x = _
    field_simp
  · rw [if_neg hx, if_neg hx]

end FamiliesLaw
