import Flowjaxv.Gen.TrainGen
import Flowjaxv.Proofs.Train
/-!
# The regenerated training loops (`Gen/TrainGen.lean`) are the hand model (`Model/Train.lean`)

Core Lean only.  `Gen/TrainGen.lean` is what `tools/py2lean/py2loop.py` makes of
`flowjax/train/{train_utils,data_fit,variational_fit}.py` on every run: `count_fruitless`, `_add_batch`, `get_batches`,
`train_val_split`, `step`, and the two loops as state-transition functions (`…_loop<k>` = one iteration, `…_exit` = what
follows the loop) over the library primitives of `Model/TrainWorld.lean`.  Here they are proved equal — for every world
(permutations, loss function, optimiser), every data set, key, batch size, patience, loss history — to the hand model the
C15 / C16 theorems are about, so that those theorems are statements about the code as it is now.

* Part 1: the straight-line functions.
* Part 2: the batch loops and ONE epoch of `fit_to_data` in closed form over hand-model pieces (`loop1_eq`).
* Part 3: the whole `fit_to_data` run = `Train.fitToData` on the loss scripts the run produces (`fitToData_eq`).
* Part 4: `fit_to_variational_target` (`vi_loop1_eq`, `fitToVariationalTarget_eq`).
* Part 5: data flow — the generated run seen from each array of `data` is `Train.fitDataCore` on that array (`genRun_eq`).
-/
open Train

namespace TrainGen

/-! ## Part 1 — Python primitives at non-negative arguments; the straight-line functions -/
theorem sliceTo_natCast {β : Type} (l : List β) (k : Nat) : Py.sliceTo l (k : Int) = l.take k := by
  simp [Py.sliceTo]

theorem sliceFrom_natCast {β : Type} (l : List β) (k : Nat) : Py.sliceFrom l (k : Int) = l.drop k := by
  simp [Py.sliceFrom]

theorem reshape2_natCast {β : Type} (l : List β) (nb b : Nat) : Py.reshape2 l (nb : Int) (b : Int) = chunks b nb l := by
  simp [Py.reshape2]

theorem fdiv_natCast (m n : Nat) : Int.fdiv (m : Int) (n : Int) = ((m / n : Nat) : Int) := (Int.ofNat_fdiv m n).symm

theorem min_natCast (m n : Nat) : min (m : Int) (n : Int) = ((min m n : Nat) : Int) := by omega

/-! ## `count_fruitless` -/

theorem argmin_lt_length (l : List Loss) (hne : l ≠ []) : argmin l < l.length := (argmin_spec l hne).1

/-- the generated `count_fruitless` is the hand model's on every non-empty list (`jnp.argmin` raises on `[]`:
`countFruitless_raises`) -/
theorem countFruitless_eq (l : List Loss) (hne : l ≠ []) :
    GenTrain.countFruitless l = ((countFruitless l : Nat) : Int) := by
  have h := argmin_lt_length l hne
  simp only [GenTrain.countFruitless, Py.argmin, countFruitless]
  omega

theorem countFruitless_raises_iff (l : List Loss) : GenTrain.countFruitless_raises l = true ↔ l = [] := by
  simp [GenTrain.countFruitless_raises]

/-- the stopping comparison `count_fruitless(losses) > max_patience` -/
theorem countFruitless_gt_iff (l : List Loss) (hne : l ≠ []) (p : Nat) :
    GenTrain.countFruitless l > (p : Int) ↔ countFruitless l > p := by
  rw [countFruitless_eq l hne]; omega

/-! ## `_add_batch`, `get_batches` -/

theorem addBatch_eq {α : Type} (a : List α) (b : Nat) : GenTrain.addBatch a (b : Int) = addBatch b a := by
  simp only [GenTrain.addBatch, addBatch, min_natCast, fdiv_natCast, ← Int.natCast_mul, sliceTo_natCast, reshape2_natCast]

theorem addBatch_raises_iff {α : Type} (a : List α) (b : Nat) :
    GenTrain.addBatch_raises a (b : Int) = true ↔ min b a.length = 0 := by
  simp only [GenTrain.addBatch_raises, min_natCast, Bool.false_or, beq_iff_eq]
  omega

theorem getBatches_eq {α : Type} (as : List (List α)) (b : Nat) :
    GenTrain.getBatches as (b : Int) = as.map (addBatch b) := by
  simp only [GenTrain.getBatches, addBatch_eq]

section
variable {α π ω γ υ : Type} (W : World α π ω γ υ)

/-! ## `train_val_split` -/

theorem idx_zero_length (as : List (List α)) (n : Nat) (hne : as ≠ []) (hlen : ∀ a ∈ as, a.length = n) :
    (Py.idx as 0).length = n := by
  cases as with
  | nil => exact absurd rfl hne
  | cons a rest => simpa [Py.idx] using hlen a List.mem_cons_self

/-- The generated `train_val_split` applied to arrays of one length `n`, when `round(val_prop * n) = r ≤ n`, splits
every array exactly as the hand model does with `nVal = r` and the permutation drawn for `key`. -/
theorem trainValSplit_eq (key : Path) (as : List (List α)) (vp : Float) (n r : Nat)
    (hne : as ≠ []) (hlen : ∀ a ∈ as, a.length = n) (hr : Py.round (Py.fmul vp (n : Int)) = (r : Int)) (hrn : r ≤ n) :
    GenTrain.trainValSplit W key as vp =
      (as.map (fun a => (trainValSplit (W.perm key n) r a).1), as.map (fun a => (trainValSplit (W.perm key n) r a).2)) := by
  have h0 := idx_zero_length as n hne hlen
  have hsub : ((n : Int) - (r : Int)) = ((n - r : Nat) : Int) := by omega
  simp only [GenTrain.trainValSplit, h0, hr, hsub, sliceTo_natCast, sliceFrom_natCast, List.map_map, Prod.mk.injEq]
  constructor <;>
  · apply List.map_congr_left
    intro a ha
    simp only [Function.comp, Py.permutation, trainValSplit, nTrain, hlen a ha]

/-! ## `step` -/

theorem step_eq (params : π) (args : LossArgs α) (o : ω) :
    GenTrain.step W params () args o =
      (W.applyUpdates params (W.optUpdate (W.valueAndGrad params args).2 o params).1,
       (W.optUpdate (W.valueAndGrad params args).2 o params).2,
       (W.valueAndGrad params args).1) := rfl

/-! ## the batch loops of `fit_to_data` -/

/-- the arguments `loss_fn` receives for a call of the hand model: the batch (one block of rows per array) and the key -/
def callArgs (c : Call (List α)) : LossArgs α := ⟨c.rows, some c.key⟩

/-- parameters, optimiser state and recorded batch losses after one more `step` on the batch / key of call `c` -/
def trainFold (st : π × ω × List Loss) (c : Call (List α)) : π × ω × List Loss :=
  ((GenTrain.step W st.1 () (callArgs c) st.2.1).1, (GenTrain.step W st.1 () (callArgs c) st.2.1).2.1,
   st.2.2 ++ [(GenTrain.step W st.1 () (callArgs c) st.2.1).2.2])

/-- The generated train-batch loop (`for batch in zip(*get_batches(train_data, batch_size))`) run over the batches `bs`:
the keys it hands to `step` are those of the hand model's `lossCalls` (`key, subkey = jr.split(key)` per batch), in order, and
the key it leaves is `advance key (len bs)`. -/
theorem loop2_foldl : ∀ (bs : List (List (List α))) (s : GenTrain.FitToDataSt2 π ω),
    List.foldl (GenTrain.fitToData_loop2 W ()) s bs =
      ⟨advance s.key bs.length,
       ((lossCalls s.key bs).foldl (trainFold W) (s.params, s.opt_state, s.batch_losses)).1,
       ((lossCalls s.key bs).foldl (trainFold W) (s.params, s.opt_state, s.batch_losses)).2.1,
       ((lossCalls s.key bs).foldl (trainFold W) (s.params, s.opt_state, s.batch_losses)).2.2⟩ := by
  intro bs
  induction bs with
  | nil => intro s; rfl
  | cons bt rest ih =>
    intro s
    simp only [List.foldl_cons, ih, lossCalls, List.length_cons, advance]
    rfl

/-- The generated validation loop: plain `loss_fn` calls at the (unchanged) parameters on the hand model's `lossCalls`. -/
theorem loop3_foldl (params : π) : ∀ (bs : List (List (List α))) (s : GenTrain.FitToDataSt3),
    List.foldl (GenTrain.fitToData_loop3 W params ()) s bs =
      ⟨advance s.key bs.length, s.batch_losses ++ (lossCalls s.key bs).map (fun c => W.lossFn params (callArgs c))⟩ := by
  intro bs
  induction bs with
  | nil => intro s; simp [lossCalls, advance]
  | cons bt rest ih =>
    intro s
    simp only [List.foldl_cons, ih, lossCalls, List.length_cons, advance, List.map_cons]
    simp [GenTrain.fitToData_loop3, callArgs]

theorem pick {β : Type} (c d : Bool) (a b : β) :
    (if c then (a, false) else if d then (b, true) else (b, false)) = (if c then a else b, !c && d) := by
  cases c <;> cases d <;> rfl

/-! ## one epoch of `fit_to_data` -/

/-- `zip(*get_batches(data, b))`: element `j` is `[batch j of data[0], batch j of data[1], …]` -/
def batchesOf (b : Nat) (data : List (List α)) : List (List (List α)) := Py.zipStar (data.map (addBatch b))

/-- the `step` calls and the validation calls of the epoch that starts with key `key` and data `tr`, `va` (hand-model
pieces only: `applyPerm` through `Py.permutation`, `addBatch`, `lossCalls`, `advance`) -/
def epochCalls (b : Nat) (key : Path) (tr va : List (List α)) : List (Call (List α)) × List (Call (List α)) :=
  (lossCalls (child key 3 0) (batchesOf b (tr.map (Py.permutation W (child key 3 1)))),
   lossCalls (advance (child key 3 0) (batchesOf b (tr.map (Py.permutation W (child key 3 1)))).length)
     (batchesOf b (va.map (Py.permutation W (child key 3 2)))))

/-- everything an epoch produces -/
structure EpochOut (α π ω : Type) where
  key : Path
  params : π
  opt_state : ω
  train_data : List (List α)
  val_data : List (List α)
  tloss : Loss
  vloss : Loss

def meanLoss (ls : List Loss) : Loss := W.ldiv (W.lsum ls) (ls.length : Int)

def epochOut (b : Nat) (key : Path) (params : π) (o : ω) (tr va : List (List α)) : EpochOut α π ω :=
  let cs := epochCalls W b key tr va
  let r := cs.1.foldl (trainFold W) (params, o, [])
  { key := advance (advance (child key 3 0) cs.1.length) cs.2.length
    params := r.1
    opt_state := r.2.1
    train_data := tr.map (Py.permutation W (child key 3 1))
    val_data := va.map (Py.permutation W (child key 3 2))
    tloss := meanLoss W r.2.2
    vloss := meanLoss W (cs.2.map (fun c => W.lossFn r.1 (callArgs c))) }

/-- **One generated epoch** (`fitToData_loop1` on an unbroken state), in closed form over hand-model pieces: key schedule,
shuffles, batches, the `step` and validation calls, the two recorded means, the `best_params` bookkeeping
(`losses["val"][-1] == min(losses["val"])`) and the stopping test (`count_fruitless(losses["val"]) > max_patience`). -/
theorem loop1_eq' (p b : Nat) (s : GenTrain.FitToDataSt1 α π ω) (i : Int) (hs : s.brk = false) :
    GenTrain.fitToData_loop1 W (p : Int) (b : Int) () s i =
      let E := epochOut W b s.key s.params s.opt_state s.train_data s.val_data
      let vl := s.losses_val ++ [E.vloss]
      let isMin := (some E.vloss == listMin? vl)
      ⟨E.key, E.params, if isMin then E.params else s.best_params, E.opt_state, E.train_data, E.val_data,
       s.losses_train ++ [E.tloss], vl, !isMin && decide (countFruitless vl > p)⟩ := by
  have hne : ∀ v, s.losses_val ++ [v] ≠ [] := by intro v; simp
  simp only [GenTrain.fitToData_loop1, hs, Bool.false_eq_true, if_false, getBatches_eq, loop2_foldl, loop3_foldl,
    List.getLast?_concat, List.nil_append, countFruitless_gt_iff _ (hne _), pick]
  simp only [epochOut, epochCalls, batchesOf, meanLoss, lossCalls_length, List.length_map]


theorem loop1_eq (p b : Nat) (s : GenTrain.FitToDataSt1 α π ω) (i : Int) (hs : s.brk = false) :
    GenTrain.fitToData_loop1 W (p : Int) (b : Int) () s i =
      ⟨(epochOut W b s.key s.params s.opt_state s.train_data s.val_data).key,
       (epochOut W b s.key s.params s.opt_state s.train_data s.val_data).params,
       if (some (epochOut W b s.key s.params s.opt_state s.train_data s.val_data).vloss ==
            listMin? (s.losses_val ++ [(epochOut W b s.key s.params s.opt_state s.train_data s.val_data).vloss]))
         then (epochOut W b s.key s.params s.opt_state s.train_data s.val_data).params else s.best_params,
       (epochOut W b s.key s.params s.opt_state s.train_data s.val_data).opt_state,
       (epochOut W b s.key s.params s.opt_state s.train_data s.val_data).train_data,
       (epochOut W b s.key s.params s.opt_state s.train_data s.val_data).val_data,
       s.losses_train ++ [(epochOut W b s.key s.params s.opt_state s.train_data s.val_data).tloss],
       s.losses_val ++ [(epochOut W b s.key s.params s.opt_state s.train_data s.val_data).vloss],
       !(some (epochOut W b s.key s.params s.opt_state s.train_data s.val_data).vloss ==
            listMin? (s.losses_val ++ [(epochOut W b s.key s.params s.opt_state s.train_data s.val_data).vloss])) &&
         decide (countFruitless (s.losses_val ++ [(epochOut W b s.key s.params s.opt_state s.train_data s.val_data).vloss]) > p)⟩ :=
  loop1_eq' W p b s i hs

theorem loop1_broken (p b : Int) (s : GenTrain.FitToDataSt1 α π ω) (i : Int) (hs : s.brk = true) :
    GenTrain.fitToData_loop1 W p b () s i = s := by
  simp [GenTrain.fitToData_loop1, hs]

/-! ## the whole `fit_to_data` run -/

def iterN {σ : Type} (f : σ → σ) : Nat → σ → σ
  | 0, s => s
  | n + 1, s => iterN f n (f s)

theorem foldl_eq_iterN {σ ι : Type} (f : σ → ι → σ) (i0 : ι) (hf : ∀ s i, f s i = f s i0) :
    ∀ (l : List ι) (s : σ), l.foldl f s = iterN (fun s => f s i0) l.length s := by
  intro l; induction l with
  | nil => intro s; rfl
  | cons x xs ih => intro s; simp only [List.foldl_cons, List.length_cons, iterN, ih, hf s x]

theorem iterN_fixed {σ : Type} (f : σ → σ) (s : σ) (h : f s = s) : ∀ n, iterN f n s = s := by
  intro n; induction n with
  | zero => rfl
  | succ n ih => simp only [iterN, h, ih]

/-- what the epochs thread: key, parameters, optimiser state, the two data sets -/
structure DataSt (α π ω : Type) where
  key : Path
  params : π
  opt_state : ω
  train_data : List (List α)
  val_data : List (List α)

def DataSt.out (b : Nat) (d : DataSt α π ω) : EpochOut α π ω := epochOut W b d.key d.params d.opt_state d.train_data d.val_data

def dataNext (b : Nat) (d : DataSt α π ω) : DataSt α π ω :=
  ⟨(d.out W b).key, (d.out W b).params, (d.out W b).opt_state, (d.out W b).train_data, (d.out W b).val_data⟩

/-- the state at the start of epoch `e` (`e` epochs have been run, no early stop) -/
def dataAt (b : Nat) (d0 : DataSt α π ω) : Nat → DataSt α π ω
  | 0 => d0
  | e + 1 => dataNext W b (dataAt b d0 e)

/-- the loss scripts the run itself produces: the recorded train / validation loss of epoch `e` -/
def trnScript (b : Nat) (d0 : DataSt α π ω) (e : Nat) : Loss := ((dataAt W b d0 e).out W b).tloss
def valScript (b : Nat) (d0 : DataSt α π ω) (e : Nat) : Loss := ((dataAt W b d0 e).out W b).vloss

def dataOf (s : GenTrain.FitToDataSt1 α π ω) : DataSt α π ω := ⟨s.key, s.params, s.opt_state, s.train_data, s.val_data⟩

/-- generated loop state `s` and hand-model loop state `h` describe the same point of the run -/
structure Sim (b : Nat) (d0 : DataSt α π ω) (s : GenTrain.FitToDataSt1 α π ω) (h : FitState) : Prop where
  hdata : dataOf s = dataAt W b d0 h.epochs
  htrain : s.losses_train = h.train
  hval : s.losses_val = h.val
  hbest : s.best_params = (dataAt W b d0 h.best).params

/-- **Lock-step.**  From corresponding states, `fuel` iterations of the generated epoch function (with its `break` flag) and
the hand model's `fitLoop` on the loss scripts the run produces end in corresponding states. -/
theorem fit_lockstep (p b : Nat) (d0 : DataSt α π ω) : ∀ (fuel : Nat) (s : GenTrain.FitToDataSt1 α π ω) (h : FitState),
    s.brk = false → Sim W b d0 s h →
    Sim W b d0 (iterN (fun s => GenTrain.fitToData_loop1 W (p : Int) (b : Int) () s 0) fuel s)
      (fitLoop (trnScript W b d0) (valScript W b d0) p fuel h) := by
  intro fuel
  induction fuel with
  | zero => intro s h _ hsim; exact hsim
  | succ fuel ih =>
    intro s h hs hsim
    obtain ⟨hd, ht, hv, hb⟩ := hsim
    have hout : epochOut W b s.key s.params s.opt_state s.train_data s.val_data = (dataAt W b d0 h.epochs).out W b := by
      rw [← hd]; rfl
    simp only [iterN, fitLoop, loop1_eq W p b s 0 hs, hout, hv, ht]
    have hv' : ((dataAt W b d0 h.epochs).out W b).vloss = valScript W b d0 h.epochs := rfl
    have ht' : ((dataAt W b d0 h.epochs).out W b).tloss = trnScript W b d0 h.epochs := rfl
    rw [hv', ht']
    by_cases hmin : (some (valScript W b d0 h.epochs) == listMin? (h.val ++ [valScript W b d0 h.epochs])) = true
    · simp only [hmin, if_true, Bool.not_true, Bool.false_and]
      exact ih _ _ rfl ⟨rfl, rfl, rfl, rfl⟩
    · simp only [hmin, Bool.false_eq_true, if_false, Bool.not_false, Bool.true_and]
      by_cases hcf : countFruitless (h.val ++ [valScript W b d0 h.epochs]) > p
      · simp only [hcf, decide_true, if_true]
        rw [iterN_fixed _ _ (loop1_broken W _ _ _ 0 rfl)]
        exact ⟨rfl, rfl, rfl, hb⟩
      · simp only [hcf, decide_false, if_false]
        exact ih _ _ rfl ⟨rfl, rfl, rfl, hb⟩


theorem range_length (n : Nat) : (Py.range (n : Int)).length = n := by simp [Py.range]

/-- the final selection and the returned pair (`params = best_params if return_best else params`) -/
theorem fitToData_exit_eq (rb : Bool) (s : GenTrain.FitToDataSt1 α π ω) :
    GenTrain.fitToData_exit rb () s = (if rb then s.best_params else s.params, (s.losses_train, s.losses_val)) := rfl

/-- the state before the first epoch: `data = (x,)` or `(x, condition)`; `key, subkey = jr.split(key)`; the split -/
def fitData0 (key : Path) (dist : π) (x : List α) (condition : Option (List α)) (vp : Float) : DataSt α π ω :=
  ⟨child key 2 0, dist, W.optInit dist,
   (GenTrain.trainValSplit W (child key 2 1) (Option.elim condition [x] (fun c => [x, c])) vp).1,
   (GenTrain.trainValSplit W (child key 2 1) (Option.elim condition [x] (fun c => [x, c])) vp).2⟩

/-- **The generated `fit_to_data` is the hand model's `fitToData`** on the loss scripts the run produces: the same number
of epochs, the same recorded losses, and the returned parameters are those after `returned` epochs of updates. -/
theorem fitToData_eq (key : Path) (dist : π) (x : List α) (condition : Option (List α)) (maxE p b : Nat) (vp : Float) (rb : Bool) :
    GenTrain.fitToData W key dist x condition (maxE : Int) (p : Int) (b : Int) vp rb =
      ((dataAt W b (fitData0 W key dist x condition vp)
          (fitToData (trnScript W b (fitData0 W key dist x condition vp)) (valScript W b (fitData0 W key dist x condition vp)) maxE p rb).returned).params,
       ((fitToData (trnScript W b (fitData0 W key dist x condition vp)) (valScript W b (fitData0 W key dist x condition vp)) maxE p rb).train,
        (fitToData (trnScript W b (fitData0 W key dist x condition vp)) (valScript W b (fitData0 W key dist x condition vp)) maxE p rb).val)) := by
  have hl := fit_lockstep W p b (fitData0 W key dist x condition vp) maxE
    ⟨child key 2 0, dist, dist, W.optInit dist,
      (GenTrain.trainValSplit W (child key 2 1) (Option.elim condition [x] (fun c => [x, c])) vp).1,
      (GenTrain.trainValSplit W (child key 2 1) (Option.elim condition [x] (fun c => [x, c])) vp).2, [], [], false⟩
    ⟨0, [], [], 0⟩ rfl ⟨rfl, rfl, rfl, rfl⟩
  obtain ⟨hd, ht, hv, hb⟩ := hl
  have hp := congrArg DataSt.params hd
  simp only [dataOf] at hp
  simp only [GenTrain.fitToData, List.map_id', fitToData_exit_eq,
    foldl_eq_iterN (GenTrain.fitToData_loop1 W (p : Int) (b : Int) ()) 0 (fun _ _ => rfl), range_length]
  simp only [fitToData]
  cases rb
  · simp only [Bool.false_eq_true, if_false, ht, hv, hp]
  · simp only [if_true, ht, hv, hb]

/-! ## `fit_to_variational_target` -/

/-- what `loss_fn` receives in the variational loop: no arrays, the step's key -/
def viArgs (key : Path) : LossArgs α := ⟨[], some key⟩

/-- parameters and optimiser state after one more `step` with key `key` -/
def viNext (st : π × ω) (key : Path) : π × ω :=
  ((GenTrain.step W st.1 () (viArgs key) st.2).1, (GenTrain.step W st.1 () (viArgs key) st.2).2.1)

/-- parameters and optimiser state after the first `i` steps (keys `ks[0..i-1]`) -/
def viAt (ks : List Path) (d0 : π × ω) (i : Nat) : π × ω := (ks.take i).foldl (viNext W) d0

/-- the loss script the run itself produces: the loss of step `i`, evaluated at the parameters BEFORE update `i` -/
def viScript (ks : List Path) (d0 : π × ω) (i : Nat) : Loss :=
  (GenTrain.step W (viAt W ks d0 i).1 () (viArgs (ks.getD i [])) (viAt W ks d0 i).2).2.2

/-- **One generated step of the variational loop**: `best_params` receives the PRE-update parameters when the new loss is the
minimum of the recorded losses; then `params = new_params`. -/
theorem vi_loop1_eq (s : GenTrain.FitToVariationalTargetSt1 π ω) (key : Path) :
    GenTrain.fitToVariationalTarget_loop1 W () s key =
      ⟨(GenTrain.step W s.params () (viArgs key) s.opt_state).1,
       (GenTrain.step W s.params () (viArgs key) s.opt_state).2.1,
       s.losses ++ [(GenTrain.step W s.params () (viArgs key) s.opt_state).2.2],
       if (some (GenTrain.step W s.params () (viArgs key) s.opt_state).2.2 ==
            listMin? (s.losses ++ [(GenTrain.step W s.params () (viArgs key) s.opt_state).2.2]))
         then s.params else s.best_params⟩ := rfl

structure ViSim (ks : List Path) (d0 : π × ω) (s : GenTrain.FitToVariationalTargetSt1 π ω) (h : ViState) : Prop where
  hst : (s.params, s.opt_state) = viAt W ks d0 h.steps
  hlosses : s.losses = h.losses
  hbest : s.best_params = (viAt W ks d0 h.best).1

theorem drop_cons_getD {β : Type} (l : List β) (n : Nat) (x d : β) (r : List β) (h : l.drop n = x :: r) :
    l.getD n d = x ∧ l.drop (n + 1) = r ∧ l.take (n + 1) = l.take n ++ [x] := by
  have hlt : n < l.length := by
    apply Classical.byContradiction; intro hn
    rw [List.drop_eq_nil_of_le (by omega)] at h; cases h
  have hx : l[n] = x := by
    have := List.drop_eq_getElem_cons hlt
    rw [this] at h; exact (List.cons.inj h).1
  refine ⟨by simp [List.getD_eq_getElem?_getD, List.getElem?_eq_getElem hlt, hx], ?_, ?_⟩
  · have := List.drop_eq_getElem_cons hlt
    rw [this] at h; exact (List.cons.inj h).2
  · rw [List.take_add_one, List.getElem?_eq_getElem hlt, hx]; rfl

theorem vi_lockstep (ks : List Path) (d0 : π × ω) : ∀ (rest : List Path) (s : GenTrain.FitToVariationalTargetSt1 π ω)
    (h : ViState), ks.drop h.steps = rest → ViSim W ks d0 s h →
    ViSim W ks d0 (rest.foldl (GenTrain.fitToVariationalTarget_loop1 W ()) s) (viLoop (viScript W ks d0) rest.length h) := by
  intro rest
  induction rest with
  | nil => intro s h _ hsim; exact hsim
  | cons k rest ih =>
    intro s h hdrop hsim
    obtain ⟨hst, hl, hb⟩ := hsim
    obtain ⟨hk, hdrop', htake⟩ := drop_cons_getD ks h.steps k [] rest hdrop
    have hp : s.params = (viAt W ks d0 h.steps).1 := congrArg Prod.fst hst
    have ho : s.opt_state = (viAt W ks d0 h.steps).2 := congrArg Prod.snd hst
    have hscript : viScript W ks d0 h.steps = (GenTrain.step W s.params () (viArgs k) s.opt_state).2.2 := by
      simp only [viScript, hk, hp, ho]
    have hnext : viAt W ks d0 (h.steps + 1) = viNext W (s.params, s.opt_state) k := by
      simp only [viAt, htake, List.foldl_append, List.foldl_cons, List.foldl_nil, hst]
    simp only [List.foldl_cons, List.length_cons, viLoop, vi_loop1_eq]
    apply ih
    · exact hdrop'
    · refine ⟨?_, ?_, ?_⟩
      · simp only [hnext]; rfl
      · simp only [hl, hscript]
      · simp only [hscript, hl]
        split
        · exact hp
        · exact hb

theorem split_length (key : Path) (n : Nat) : (Py.split key (n : Int)).length = n := by simp [Py.split]

theorem fitToVariationalTarget_exit_eq (rb : Bool) (s : GenTrain.FitToVariationalTargetSt1 π ω) :
    GenTrain.fitToVariationalTarget_exit rb () s = (if rb then s.best_params else s.params, s.losses) := rfl

/-- **The generated `fit_to_variational_target` is the hand model's** on the loss script the run produces: `steps` steps, the
same recorded losses, and the returned parameters are those after `returned` updates (keys `jr.split(key, steps)`). -/
theorem fitToVariationalTarget_eq (key : Path) (dist : π) (steps : Nat) (rb : Bool) :
    GenTrain.fitToVariationalTarget W key dist (steps : Int) rb =
      ((viAt W (Py.split key steps) (dist, W.optInit dist)
          (fitToVariationalTarget (viScript W (Py.split key steps) (dist, W.optInit dist)) steps rb).returned).1,
       (fitToVariationalTarget (viScript W (Py.split key steps) (dist, W.optInit dist)) steps rb).losses) := by
  have hl := vi_lockstep W (Py.split key steps) (dist, W.optInit dist) (Py.split key steps)
    ⟨dist, W.optInit dist, [], dist⟩ ⟨0, [], 0⟩ rfl ⟨rfl, rfl, rfl⟩
  rw [split_length] at hl
  obtain ⟨hst, hls, hb⟩ := hl
  have hp := congrArg Prod.fst hst
  simp only at hp
  simp only [GenTrain.fitToVariationalTarget, fitToVariationalTarget_exit_eq, fitToVariationalTarget]
  cases rb
  · simp only [Bool.false_eq_true, if_false, hls, hp]
  · simp only [if_true, hls, hb]

/-! ## data flow: the generated epochs, array by array, are the hand model's `epochLoop` -/

theorem zipWith_fst {β γ' δ : Type} (f : β → δ) : ∀ (l : List β) (z : List γ'), l.length ≤ z.length →
    List.zipWith (fun a _ => f a) l z = l.map f := by
  intro l; induction l with
  | nil => intro z _; rfl
  | cons a l ih =>
    intro z h; cases z with
    | nil => simp at h
    | cons y z => simp only [List.zipWith_cons_cons, List.map_cons, ih z (by simpa using h)]

theorem zipWith_snd {β γ' δ : Type} (g : γ' → δ) : ∀ (l : List β) (z : List γ'), z.length ≤ l.length →
    List.zipWith (fun _ y => g y) l z = z.map g := by
  intro l; induction l with
  | nil => intro z h; cases z with
    | nil => rfl
    | cons y z => simp at h
  | cons a l ih =>
    intro z h; cases z with
    | nil => rfl
    | cons y z => simp only [List.zipWith_cons_cons, List.map_cons, ih z (by simpa using h)]

theorem zipStar_length {β : Type} (m : Nat) : ∀ (ls : List (List β)), ls ≠ [] → (∀ l ∈ ls, l.length = m) →
    (Py.zipStar ls).length = m := by
  intro ls; induction ls with
  | nil => intro h; exact absurd rfl h
  | cons l rest ih =>
    intro _ hlen
    cases rest with
    | nil => simp [Py.zipStar, hlen l List.mem_cons_self]
    | cons l' rest' =>
      have := ih (by simp) (fun x hx => hlen x (List.mem_cons_of_mem _ hx))
      simp only [Py.zipStar, List.length_zipWith, this, hlen l List.mem_cons_self, Nat.min_self]

/-- element `j` of `zip(*ls)` has `ls[i][j]` at position `i` -/
theorem zipStar_proj {β : Type} (d : β) (m : Nat) : ∀ (ls : List (List β)) (i : Nat), i < ls.length →
    (∀ l ∈ ls, l.length = m) → (Py.zipStar ls).map (fun r => r.getD i d) = ls.getD i [] := by
  intro ls; induction ls with
  | nil => intro i hi; simp at hi
  | cons l rest ih =>
    intro i hi hlen
    cases rest with
    | nil =>
      have : i = 0 := by simpa using hi
      subst this
      simp [Py.zipStar, Function.comp_def]
    | cons l' rest' =>
      have hz := zipStar_length m (l' :: rest') (by simp) (fun x hx => hlen x (List.mem_cons_of_mem _ hx))
      have hl := hlen l List.mem_cons_self
      cases i with
      | zero =>
        simp only [Py.zipStar, List.map_zipWith, List.getD_cons_zero]
        have := zipWith_fst (fun a : β => a) l (Py.zipStar (l' :: rest')) (by omega)
        simpa using this
      | succ i =>
        simp only [Py.zipStar, List.map_zipWith, List.getD_cons_succ]
        have h1 := zipWith_snd (fun r : List β => r.getD i d) l (Py.zipStar (l' :: rest')) (by omega)
        have h2 := ih i (by simpa using hi) (fun x hx => hlen x (List.mem_cons_of_mem _ hx))
        rw [h1, h2]


theorem applyPerm_length_congr {β β' : Type} (π₀ : List Nat) (a : List β) (a' : List β') (h : a.length = a'.length) :
    (applyPerm π₀ a).length = (applyPerm π₀ a').length := by
  induction π₀ with
  | nil => rfl
  | cons i rest ih =>
    simp only [applyPerm, List.filterMap_cons] at ih ⊢
    by_cases hi : i < a.length
    · have hi' : i < a'.length := h ▸ hi
      simp only [List.getElem?_eq_getElem hi, List.getElem?_eq_getElem hi', List.length_cons, ih]
    · have hi' : ¬ i < a'.length := h ▸ hi
      simp only [List.getElem?_eq_none (Nat.le_of_not_lt hi), List.getElem?_eq_none (Nat.le_of_not_lt hi'), ih]

theorem lossCalls_mapg {β δ : Type} (g : List β → List δ) : ∀ (key : Path) (bs : List (List β)),
    lossCalls key (bs.map g) = (lossCalls key bs).map (fun c => ⟨c.key, g c.rows⟩) := by
  intro key bs; induction bs generalizing key with
  | nil => rfl
  | cons bt rest ih => simp [lossCalls, ih]

/-- the part of a call that concerns array `i` of `data` -/
def projCall (i : Nat) (c : Call (List α)) : Call α := ⟨c.key, c.rows.getD i []⟩

theorem getD_map_of_lt {β δ : Type} (f : β → δ) (l : List β) (i : Nat) (d : β) (d' : δ) (h : i < l.length) :
    (l.map f).getD i d' = f (l.getD i d) := by
  simp [List.getD_eq_getElem?_getD, List.getElem?_eq_getElem h]

theorem getD_mem {β : Type} (l : List β) (i : Nat) (d : β) (h : i < l.length) : l.getD i d ∈ l := by
  simp [List.getD_eq_getElem?_getD, List.getElem?_eq_getElem h]

/-- batches of equally long arrays, seen from array `i`: the hand model's `addBatch` of that array -/
theorem batchesOf_proj (b n : Nat) (data : List (List α)) (i : Nat) (hi : i < data.length) (hlen : ∀ a ∈ data, a.length = n) :
    (batchesOf b data).map (fun r => r.getD i []) = addBatch b (data.getD i []) ∧
    (batchesOf b data).length = (addBatch b (data.getD i [])).length := by
  have hall : ∀ l ∈ data.map (addBatch b), l.length = n / min b n := by
    intro l hl
    obtain ⟨a, ha, rfl⟩ := List.mem_map.mp hl
    rw [addBatch_length, hlen a ha]
  have hne : data.map (addBatch b) ≠ [] := by
    intro h; rw [List.map_eq_nil_iff] at h; subst h; simp at hi
  have h1 := zipStar_proj ([] : List α) (n / min b n) (data.map (addBatch b)) i (by simpa using hi) hall
  rw [getD_map_of_lt (addBatch b) data i [] [] hi] at h1
  refine ⟨h1, ?_⟩
  rw [batchesOf, zipStar_length _ _ hne hall, addBatch_length, hlen _ (getD_mem data i [] hi)]

theorem permutation_length_congr (key : Path) (a a' : List α) (h : a.length = a'.length) :
    (Py.permutation W key a).length = (Py.permutation W key a').length := by
  simp only [Py.permutation, h]
  exact applyPerm_length_congr _ a a' h

/-- epoch record of the hand model (`Train.Epoch`) read off the generated epoch that starts in `d`, for array `i` of `data`:
the two shuffle keys, this epoch's order of the array's train / validation rows, and the array's rows in every `step` /
validation call with the call's key -/
def genEpochRec (b : Nat) (d : DataSt α π ω) (i : Nat) : Epoch α :=
  ⟨child d.key 3 1, child d.key 3 2, (dataNext W b d).train_data.getD i [], (dataNext W b d).val_data.getD i [],
   (epochCalls W b d.key d.train_data d.val_data).1.map (projCall i),
   (epochCalls W b d.key d.train_data d.val_data).2.map (projCall i)⟩

/-- the records of `E` consecutive generated epochs -/
def genEpochRecs (b i : Nat) : Nat → DataSt α π ω → List (Epoch α)
  | 0, _ => []
  | E + 1, d => genEpochRec W b d i :: genEpochRecs b i E (dataNext W b d)

theorem genEpochRec_eq (b n m i : Nat) (d : DataSt α π ω) (hT : ∀ a ∈ d.train_data, a.length = n)
    (hV : ∀ a ∈ d.val_data, a.length = m) (hiT : i < d.train_data.length) (hiV : i < d.val_data.length) :
    genEpochRec W b d i :: epochLoop W.perm b 0 d.key [] [] =
      epochLoop W.perm b 1 d.key (d.train_data.getD i []) (d.val_data.getD i []) ∧
    (dataNext W b d).key =
      advance (advance (child d.key 3 0)
        (addBatch b (applyPerm (W.perm (child d.key 3 1) (d.train_data.getD i []).length) (d.train_data.getD i []))).length)
        (addBatch b (applyPerm (W.perm (child d.key 3 2) (d.val_data.getD i []).length) (d.val_data.getD i []))).length := by
  have hT' : ∀ a ∈ d.train_data.map (Py.permutation W (child d.key 3 1)), a.length =
      (Py.permutation W (child d.key 3 1) (d.train_data.getD i [])).length := by
    intro a' ha'
    obtain ⟨a, ha, rfl⟩ := List.mem_map.mp ha'
    exact permutation_length_congr W _ _ _ (by rw [hT a ha, hT _ (getD_mem _ i [] hiT)])
  have hV' : ∀ a ∈ d.val_data.map (Py.permutation W (child d.key 3 2)), a.length =
      (Py.permutation W (child d.key 3 2) (d.val_data.getD i [])).length := by
    intro a' ha'
    obtain ⟨a, ha, rfl⟩ := List.mem_map.mp ha'
    exact permutation_length_congr W _ _ _ (by rw [hV a ha, hV _ (getD_mem _ i [] hiV)])
  obtain ⟨pT, lT⟩ := batchesOf_proj b _ (d.train_data.map (Py.permutation W (child d.key 3 1))) i (by simpa using hiT) hT'
  obtain ⟨pV, lV⟩ := batchesOf_proj b _ (d.val_data.map (Py.permutation W (child d.key 3 2))) i (by simpa using hiV) hV'
  rw [getD_map_of_lt _ _ i [] [] hiT] at pT lT
  rw [getD_map_of_lt _ _ i [] [] hiV] at pV lV
  have cT : (lossCalls (child d.key 3 0) (batchesOf b (d.train_data.map (Py.permutation W (child d.key 3 1))))).map (projCall i) =
      lossCalls (child d.key 3 0) (addBatch b (Py.permutation W (child d.key 3 1) (d.train_data.getD i []))) := by
    rw [← pT, lossCalls_mapg]; rfl
  have cV : ∀ k, (lossCalls k (batchesOf b (d.val_data.map (Py.permutation W (child d.key 3 2))))).map (projCall i) =
      lossCalls k (addBatch b (Py.permutation W (child d.key 3 2) (d.val_data.getD i []))) := by
    intro k; rw [← pV, lossCalls_mapg]; rfl
  constructor
  · simp only [genEpochRec, epochLoop, epochCalls, dataNext, DataSt.out, epochOut, cT, cV, lT,
      getD_map_of_lt _ _ i [] [] hiT, getD_map_of_lt _ _ i [] [] hiV]
    rfl
  · simp only [dataNext, DataSt.out, epochOut, epochCalls, lossCalls_length, lT, lV]
    rfl

theorem epochLoop_succ {β : Type} (perm : Path → Nat → List Nat) (b E : Nat) (key : Path) (tr va : List β) :
    epochLoop perm b (E + 1) key tr va =
      epochLoop perm b 1 key tr va ++
        epochLoop perm b E
          (advance (advance (child key 3 0) (addBatch b (applyPerm (perm (child key 3 1) tr.length) tr)).length)
            (addBatch b (applyPerm (perm (child key 3 2) va.length) va)).length)
          (applyPerm (perm (child key 3 1) tr.length) tr) (applyPerm (perm (child key 3 2) va.length) va) := by
  simp only [epochLoop, List.cons_append, List.nil_append]

/-- **Data flow of the generated epochs.**  For arrays of equal length, the generated epochs seen from array `i` of `data` are
exactly the hand model's `epochLoop` on that array — same shuffle keys, orders, batches, call keys — whatever the
permutations, the loss function and the optimiser do. -/
theorem genEpochRecs_eq (b i : Nat) : ∀ (E : Nat) (d : DataSt α π ω) (n m : Nat), (∀ a ∈ d.train_data, a.length = n) →
    (∀ a ∈ d.val_data, a.length = m) → i < d.train_data.length → i < d.val_data.length →
    genEpochRecs W b i E d = epochLoop W.perm b E d.key (d.train_data.getD i []) (d.val_data.getD i []) := by
  intro E
  induction E with
  | zero => intro d n m _ _ _ _; rfl
  | succ E ih =>
    intro d n m hT hV hiT hiV
    obtain ⟨h1, hk⟩ := genEpochRec_eq W b n m i d hT hV hiT hiV
    have hT' : ∀ a ∈ (dataNext W b d).train_data, a.length =
        (Py.permutation W (child d.key 3 1) (d.train_data.getD i [])).length := by
      intro a' ha'
      obtain ⟨a, ha, rfl⟩ := List.mem_map.mp ha'
      exact permutation_length_congr W _ _ _ (by rw [hT a ha, hT _ (getD_mem _ i [] hiT)])
    have hV' : ∀ a ∈ (dataNext W b d).val_data, a.length =
        (Py.permutation W (child d.key 3 2) (d.val_data.getD i [])).length := by
      intro a' ha'
      obtain ⟨a, ha, rfl⟩ := List.mem_map.mp ha'
      exact permutation_length_congr W _ _ _ (by rw [hV a ha, hV _ (getD_mem _ i [] hiV)])
    have hiT' : i < (dataNext W b d).train_data.length := by simpa [dataNext, DataSt.out, epochOut] using hiT
    have hiV' : i < (dataNext W b d).val_data.length := by simpa [dataNext, DataSt.out, epochOut] using hiV
    have hrec := ih (dataNext W b d) _ _ hT' hV' hiT' hiV'
    have e1 : (dataNext W b d).train_data.getD i [] =
        applyPerm (W.perm (child d.key 3 1) (d.train_data.getD i []).length) (d.train_data.getD i []) :=
      getD_map_of_lt _ _ i [] [] hiT
    have e2 : (dataNext W b d).val_data.getD i [] =
        applyPerm (W.perm (child d.key 3 2) (d.val_data.getD i []).length) (d.val_data.getD i []) :=
      getD_map_of_lt _ _ i [] [] hiV
    rw [epochLoop_succ, ← h1, genEpochRecs, hrec, hk, e1, e2]
    rfl

/-- `data = (x,) if condition is None else (x, condition)` -/
def dataArrays (x : List α) (condition : Option (List α)) : List (List α) := Option.elim condition [x] (fun c => [x, c])

/-- the hand model's `Run` read off the generated `fit_to_data` (root key, `E` epochs without early stop), for array `i` of
`data` (`0` = `x`, `1` = `condition`): the split key, the array's train / validation rows, the epoch records -/
def genRun (dist : π) (x : List α) (condition : Option (List α)) (vp : Float) (b i E : Nat) : Run α :=
  ⟨child [] 2 1, (fitData0 W [] dist x condition vp).train_data.getD i [],
   (fitData0 W [] dist x condition vp).val_data.getD i [], genEpochRecs W b i E (fitData0 W [] dist x condition vp)⟩

theorem trainValSplit_lengths {β β' : Type} (π₀ : List Nat) (r : Nat) (a : List β) (a' : List β') (h : a.length = a'.length) :
    (trainValSplit π₀ r a).1.length = (trainValSplit π₀ r a').1.length ∧
    (trainValSplit π₀ r a).2.length = (trainValSplit π₀ r a').2.length := by
  simp only [trainValSplit, List.length_take, List.length_drop, applyPerm_length_congr π₀ a a' h, h, and_self]

/-- **Data flow of the generated `fit_to_data`.**  For `x` (and `condition`) with `n` rows and `round(val_prop * n) = r ≤ n`,
the generated run seen from either array is the hand model's `fitDataCore` on that array, with the same permutations:
same split, same per-epoch orders, same batches, same keys.  So every C15 theorem about `fitDataCore` is a theorem about
the generated loops, and row `j` of a batch of `x` travels with row `j` of the same batch of `condition` (both are the
image of one index run: `Train.fitData_map`). -/
theorem genRun_eq (dist : π) (x : List α) (condition : Option (List α)) (vp : Float) (b i E n r : Nat)
    (hlen : ∀ a ∈ dataArrays x condition, a.length = n) (hi : i < (dataArrays x condition).length)
    (hr : Py.round (Py.fmul vp (n : Int)) = (r : Int)) (hrn : r ≤ n) :
    genRun W dist x condition vp b i E = fitDataCore W.perm r b E ((dataArrays x condition).getD i []) := by
  have hne : dataArrays x condition ≠ [] := by intro h; rw [h] at hi; simp at hi
  have hsp := trainValSplit_eq W (child [] 2 1) (dataArrays x condition) vp n r hne hlen hr hrn
  have hai : ((dataArrays x condition).getD i []).length = n := hlen _ (getD_mem _ i [] hi)
  have d0T : (fitData0 W [] dist x condition vp).train_data =
      (dataArrays x condition).map (fun a => (trainValSplit (W.perm (child [] 2 1) n) r a).1) := congrArg Prod.fst hsp
  have d0V : (fitData0 W [] dist x condition vp).val_data =
      (dataArrays x condition).map (fun a => (trainValSplit (W.perm (child [] 2 1) n) r a).2) := congrArg Prod.snd hsp
  have hT : ∀ a ∈ (fitData0 W [] dist x condition vp).train_data, a.length =
      (trainValSplit (W.perm (child [] 2 1) n) r ((dataArrays x condition).getD i [])).1.length := by
    rw [d0T]; intro a' ha'
    obtain ⟨a, ha, rfl⟩ := List.mem_map.mp ha'
    exact (trainValSplit_lengths _ r a _ (by rw [hlen a ha, hai])).1
  have hV : ∀ a ∈ (fitData0 W [] dist x condition vp).val_data, a.length =
      (trainValSplit (W.perm (child [] 2 1) n) r ((dataArrays x condition).getD i [])).2.length := by
    rw [d0V]; intro a' ha'
    obtain ⟨a, ha, rfl⟩ := List.mem_map.mp ha'
    exact (trainValSplit_lengths _ r a _ (by rw [hlen a ha, hai])).2
  have hiT : i < (fitData0 W [] dist x condition vp).train_data.length := by rw [d0T]; simpa using hi
  have hiV : i < (fitData0 W [] dist x condition vp).val_data.length := by rw [d0V]; simpa using hi
  have hE := genEpochRecs_eq W b i E (fitData0 W [] dist x condition vp) _ _ hT hV hiT hiV
  have gT : (fitData0 W [] dist x condition vp).train_data.getD i [] =
      (trainValSplit (W.perm (child [] 2 1) n) r ((dataArrays x condition).getD i [])).1 := by
    rw [d0T]; exact getD_map_of_lt _ _ i [] [] hi
  have gV : (fitData0 W [] dist x condition vp).val_data.getD i [] =
      (trainValSplit (W.perm (child [] 2 1) n) r ((dataArrays x condition).getD i [])).2 := by
    rw [d0V]; exact getD_map_of_lt _ _ i [] [] hi
  simp only [genRun, hE, gT, gV, fitDataCore, hai]
  rfl

theorem dataAt_succ' (b : Nat) (d0 : DataSt α π ω) : ∀ e, dataAt W b d0 (e + 1) = dataAt W b (dataNext W b d0) e := by
  intro e; induction e with
  | zero => rfl
  | succ e ih => rw [dataAt, ih]; rfl

/-- the records of the first `E` epochs are the records of the epochs starting in the states `dataAt 0 … dataAt (E-1)` — the
very states whose losses are the scripts `trnScript` / `valScript` of `fitToData_eq` -/
theorem genEpochRecs_eq_map (b i : Nat) : ∀ (E : Nat) (d0 : DataSt α π ω),
    genEpochRecs W b i E d0 = (List.range E).map (fun e => genEpochRec W b (dataAt W b d0 e) i) := by
  intro E; induction E with
  | zero => intro d0; rfl
  | succ E ih =>
    intro d0
    rw [genEpochRecs, ih, List.range_succ_eq_map, List.map_cons, List.map_map]
    congr 1
    apply List.map_congr_left
    intro e _
    simp only [Function.comp, dataAt_succ']

/-- **Early stopping does not change the data flow of the epochs that are run**: after the generated loop (with its `break`),
key, parameters, optimiser state and both data sets are those after `epochs` un-stopped epochs, where `epochs` is the number
of epochs the hand model runs on the scripts the run produces. -/
theorem fit_final_state (key : Path) (dist : π) (x : List α) (condition : Option (List α)) (maxE p b : Nat) (vp : Float) :
    dataOf (List.foldl (GenTrain.fitToData_loop1 W (p : Int) (b : Int) ())
        ⟨child key 2 0, dist, dist, W.optInit dist, (fitData0 W key dist x condition vp).train_data,
          (fitData0 W key dist x condition vp).val_data, [], [], false⟩ (Py.range (maxE : Int))) =
      dataAt W b (fitData0 W key dist x condition vp)
        (fitLoop (trnScript W b (fitData0 W key dist x condition vp)) (valScript W b (fitData0 W key dist x condition vp))
          p maxE ⟨0, [], [], 0⟩).epochs := by
  rw [foldl_eq_iterN (GenTrain.fitToData_loop1 W (p : Int) (b : Int) ()) 0 (fun _ _ => rfl), range_length]
  exact (fit_lockstep W p b (fitData0 W key dist x condition vp) maxE _ ⟨0, [], [], 0⟩ rfl ⟨rfl, rfl, rfl, rfl⟩).hdata

end
end TrainGen
