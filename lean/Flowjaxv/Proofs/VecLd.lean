import Flowjaxv.Proofs.LogDet
import Flowjaxv.Proofs.Params
import Mathlib.LinearAlgebra.Matrix.SchurComplement
import Mathlib.LinearAlgebra.Matrix.Block
/-!
# Vectors as lists vs. `Fin n → ℝ`, and the n-dimensional log-det oracle

The generated / hand-written vector code works on `List ℝ`; Mathlib's Fréchet derivative and
determinant live on `Fin n → ℝ`.  Every list of length `n` is `List.ofFn v` for a unique `v`.
-/
open Gen RealInst

namespace VecLd
variable {n : ℕ}

theorem exists_ofFn {l : List ℝ} (h : l.length = n) : ∃ v : Fin n → ℝ, l = List.ofFn v := by
  subst h
  exact ⟨fun i => l[i], (List.ofFn_getElem (xs := l)).symm⟩

/-- a list read as a vector of length `n` (entries beyond the list are 0; only used with `l.length = n`) -/
def toVec (n : ℕ) (l : List ℝ) : Fin n → ℝ := fun i => l.getD i 0

theorem ofFn_toVec {l : List ℝ} (h : l.length = n) : List.ofFn (toVec n l) = l := by
  subst h
  apply List.ext_getElem
  · simp
  · intro i h1 h2
    simp [toVec, List.getD_eq_getElem?_getD, List.getElem?_eq_getElem h2]

@[simp] theorem toVec_ofFn (v : Fin n → ℝ) : toVec n (List.ofFn v) = v := by
  funext i; simp [toVec]

theorem ofFn_injective' {a b : Fin n → ℝ} (h : List.ofFn a = List.ofFn b) : a = b :=
  List.ofFn_injective h

theorem dot_ofFn (a b : Fin n → ℝ) : Jnp.dot (List.ofFn a) (List.ofFn b) = a ⬝ᵥ b := by
  rw [ParamsPf.jdot_eq, LogDet.zipWith_ofFn, List.sum_ofFn]; rfl

theorem jsum_ofFn (a : Fin n → ℝ) : Jnp.sum (List.ofFn a) = ∑ i, a i := by
  rw [ParamsPf.jsum_eq, List.sum_ofFn]

/-- coordinate view of a function on lists: input `List.ofFn v`, output read back entry by entry -/
def coordMap (n : ℕ) (F : List ℝ → List ℝ) : (Fin n → ℝ) → (Fin n → ℝ) :=
  fun v i => (F (List.ofFn v)).getD i 0

theorem coordMap_eq {F : List ℝ → List ℝ} {g : (Fin n → ℝ) → (Fin n → ℝ)}
    (h : ∀ v, F (List.ofFn v) = List.ofFn (g v)) : coordMap n F = g := by
  funext v i
  simp [coordMap, h v]

/-- `x ↦ M x` as a continuous linear map -/
noncomputable abbrev matCLM (M : Matrix (Fin n) (Fin n) ℝ) : (Fin n → ℝ) →L[ℝ] (Fin n → ℝ) :=
  LinearMap.toContinuousLinearMap (Matrix.toLin' M)

theorem matCLM_det (M : Matrix (Fin n) (Fin n) ℝ) : (matCLM M).det = M.det := by
  rw [LinearMap.det_toContinuousLinearMap, LinearMap.det_toLin']

end VecLd

namespace Bij
variable {C : Type}

/-- The n-dimensional oracle of C02 for a bijection on vectors (lists of length `n`): at every `v ∈ D` the
forward map the bijection computes (in coordinates) has a Fréchet derivative `J` (Mathlib's
`HasFDerivAt`, unique) with `det J ≠ 0`, the forward map returns a list of length `n`, and the returned
log-det is `log |det J|`. -/
def LdCorrectVec (b : Bij (List ℝ) C ℝ) (n : ℕ) (D : Set (Fin n → ℝ)) : Prop :=
  ∀ v ∈ D, ∀ c, ∃ J : (Fin n → ℝ) →L[ℝ] (Fin n → ℝ),
    HasFDerivAt (VecLd.coordMap n (fun x => b.fwd x c)) J v ∧ (∀ v' : Fin n → ℝ, (b.fwd (List.ofFn v') c).length = n) ∧
      J.det ≠ 0 ∧ (b.fwdLd (List.ofFn v) c).2 = Real.log |J.det|

/-- … with the Jacobian matrix named: `M v` at `v`. -/
def LdCorrectVecWith (b : Bij (List ℝ) C ℝ) (n : ℕ) (D : Set (Fin n → ℝ))
    (M : (Fin n → ℝ) → Matrix (Fin n) (Fin n) ℝ) : Prop :=
  ∀ v ∈ D, ∀ c, HasFDerivAt (VecLd.coordMap n (fun x => b.fwd x c)) (VecLd.matCLM (M v)) v ∧
    (∀ v' : Fin n → ℝ, (b.fwd (List.ofFn v') c).length = n) ∧
      (M v).det ≠ 0 ∧ (b.fwdLd (List.ofFn v) c).2 = Real.log |(M v).det|

theorem LdCorrectVecWith.ldCorrectVec {b : Bij (List ℝ) C ℝ} {n : ℕ} {D : Set (Fin n → ℝ)}
    {M : (Fin n → ℝ) → Matrix (Fin n) (Fin n) ℝ} (h : b.LdCorrectVecWith n D M) : b.LdCorrectVec n D := by
  intro v hv c
  obtain ⟨h1, h2, h3, h4⟩ := h v hv c
  exact ⟨_, h1, h2, by rwa [VecLd.matCLM_det], by rwa [VecLd.matCLM_det]⟩

end Bij
