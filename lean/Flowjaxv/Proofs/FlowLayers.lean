import Flowjaxv.Proofs.NetMassMaf
import Flowjaxv.Proofs.PlanarMass
import Flowjaxv.Proofs.BnafMass
import Flowjaxv.Proofs.PermMass
/-!
# The layers of the flow architectures, as one predicate

`IsFlowLayer n b`: `b` is a layer on `ℝⁿ` (conditions are vectors) of one of the architectures for which the d-dimensional layer
hypotheses of `Proofs/MassFlow.lean` are DISCHARGED: affine coupling (`NetMass.coupling_affine_invJacN`), affine MAF, planar (tanh /
leaky relu; parameters fixed or computed from the condition), BNAF — each in either orientation where it has one — or one of the
coordinate permutations (`Flip`, `Permute`) the factories put between layers.
-/
set_option linter.unusedVariables false
open Masks MasksPf Gen Set

namespace FlowLayers

def IsFlowLayer (n : ℕ) (b : Bij (Fin n → ℝ) (List ℝ) ℝ) : Prop :=
  NetMass.IsMafLayer n b ∨ PlanarMass.IsPlanarLayer (List ℝ) n b ∨ BnafMass.IsBnafLayer n b ∨
  (∃ (d : ℕ) (cnd : List ℝ → List ℝ) (loc scale : List ℝ → ℝ), d ≤ n ∧ (∀ ps, scale ps ≠ 0) ∧
    (∀ c, NetLogDet.CondDiff d n cnd loc scale c) ∧
    b = NetMass.liftBij n (couplingBij d cnd (NetLogDet.affineFamily loc scale))) ∨
  b = NetMass.liftBij n PermMass.flipBij ∨ b = (Gen.Invert.mk (NetMass.liftBij n PermMass.flipBij)).toBij ∨
  (∃ (perm : List ℕ) (hd : perm.length = n), PermModel.valid perm = true ∧
    (b = hd ▸ NetMass.liftBij perm.length (PermMass.permuteBij perm) ∨
     b = hd ▸ (Gen.Invert.mk (NetMass.liftBij perm.length (PermMass.permuteBij perm))).toBij)) ∨
  (∃ cnd : List ℝ → List ℝ, (∀ c, (cnd c).length = 2 * n + 1 ∧ Jnp.dot ((cnd c).take n) ((cnd c).take n) ≠ 0) ∧
    (b = (Gen.Invert.mk (Bij.dep fun c' => PlanarMass.tanhBij n (Planar.getPlanar n (cnd c')))).toBij ∨
     b = Bij.dep fun c' => PlanarMass.tanhBij n (Planar.getPlanar n (cnd c'))))

/-- condition-dependent tanh planar layer, both orientations -/
theorem planar_conditional {C : Type} {n : ℕ} (cnd : C → List ℝ)
    (hcnd : ∀ c, (cnd c).length = 2 * n + 1 ∧ Jnp.dot ((cnd c).take n) ((cnd c).take n) ≠ 0) (c : C) :
    Mass.InvJacN (Gen.Invert.mk (Bij.dep fun c' => (PlanarMass.tanhBij n (Planar.getPlanar n (cnd c')) : Bij (Fin n → ℝ) C ℝ))).toBij c ∧
    Mass.FwdJacN (Bij.dep fun c' => (PlanarMass.tanhBij n (Planar.getPlanar n (cnd c')) : Bij (Fin n → ℝ) C ℝ)) c := by
  have hwf : ∀ c', PlanarPf.WF (Planar.getPlanar n (cnd c')) n := fun c' => PlanarPf.getPlanar_wf (hcnd c').1 (hcnd c').2
  have hL : ∀ c', (PlanarMass.tanhBij n (Planar.getPlanar n (cnd c')) : Bij (Fin n → ℝ) C ℝ).Lawful univ univ :=
    fun c' => PlanarMass.tanhBij_lawful (hwf c')
  exact ⟨Mass.InvJacN.dep_invert hL (PlanarMass.tanh_invert_invJacN (hwf c) c),
    Mass.FwdJacN.dep hL (PlanarMass.tanh_fwdJacN (hwf c) c)⟩

theorem IsFlowLayer.layer {n : ℕ} {b : Bij (Fin n → ℝ) (List ℝ) ℝ} (h : IsFlowLayer n b) (c : List ℝ) :
    Mass.InvJacN b c ∨ Mass.FwdJacN b c := by
  rcases h with h | h | h | ⟨d, cnd, loc, scale, hdn, hs, hc, rfl⟩ | rfl | rfl | ⟨perm, hd, hv, hb⟩ | ⟨cnd, hcnd, rfl | rfl⟩
  · exact h.layer c
  · exact h.layer c
  · exact h.layer c
  · exact Or.inl (NetMass.coupling_affine_invJacN d n cnd loc scale hdn hs c (hc c))
  · exact Or.inl (PermMass.flip_invJacN c)
  · exact Or.inl (PermMass.flip_invert_invJacN c)
  · subst hd
    rcases hb with rfl | rfl
    · exact Or.inl (PermMass.permute_invJacN perm ((PermModel.valid_iff perm).mp hv) c)
    · exact Or.inl (PermMass.permute_invert_invJacN perm ((PermModel.valid_iff perm).mp hv) c)
  · exact Or.inl (planar_conditional cnd hcnd c).1
  · exact Or.inr (planar_conditional cnd hcnd c).2

end FlowLayers
