import Flowjaxv.Proofs.AdVecTheory
import Flowjaxv.Proofs.AdMix
import Flowjaxv.Proofs.Params
import Flowjaxv.Model.AdSpline
/-!
# `VExpr` (kernels under bindings of scalars and whole vectors): safe ⇒ finite value and finite adjoints; evaluation and safety of
the array combinators of the spline parameterisation (`Vec.softmax`, `cumsum`, `setAt`, `pad1`, …), any length
-/
set_option linter.unusedSimpArgs false
set_option linter.unusedVariables false
noncomputable section
open Classical Ad EF AdT AdV

namespace AdX

/-- `Safe` lifted through the bindings: the definitions are safe where they are evaluated (outside the binding) and the body is
safe in the environment holding their values -/
def SafeX : Env EF → VExpr EF → Prop
  | env, .base e => Safe env e
  | env, .add a b => SafeX env a ∧ SafeX env b
  | env, .letS i v body => SafeX env v ∧ SafeX (env.set i (v.eval env)) body
  | env, .bindV vec defs body => (∀ d ∈ defs, Safe env d) ∧ SafeX (env.setV vec (defs.map (fun d => d.eval env))) body

theorem safeX_eval_fin : ∀ (e : VExpr EF) (env : Env EF), SafeX env e → isFin (e.eval env)
  | .base e, env, h => safe_eval_fin e env h
  | .add a b, env, h => by
      obtain ⟨x, hx⟩ := isFin_iff.mp (safeX_eval_fin a env h.1)
      obtain ⟨y, hy⟩ := isFin_iff.mp (safeX_eval_fin b env h.2)
      simp [VExpr.eval, hx, hy]
  | .letS i v body, env, h => safeX_eval_fin body _ h.2
  | .bindV vec defs body, env, h => safeX_eval_fin body _ h.2

theorem allFin_flatMap {α : Type} {l : List α} {f : α → Grad EF} (h : ∀ a ∈ l, AllFin (f a)) : AllFin (l.flatMap f) := by
  intro kv hkv
  obtain ⟨a, ha, hk⟩ := List.mem_flatMap.mp hkv
  exact h a ha kv hk

theorem safeX_vjp_fin : ∀ (e : VExpr EF) (env : Env EF), SafeX env e → ∀ ct, isFin ct → AllFin (e.vjp env ct)
  | .base e, env, h, ct, hct => safe_vjp_fin e env h ct hct
  | .add a b, env, h, ct, hct => allFin_append (safeX_vjp_fin a env h.1 ct hct) (safeX_vjp_fin b env h.2 ct hct)
  | .letS i v body, env, h, ct, hct => by
      simp only [VExpr.vjp]
      have hb := safeX_vjp_fin body _ h.2 ct hct
      exact allFin_append (fun kv hkv => hb kv (List.mem_filter.mp hkv).1) (safeX_vjp_fin v env h.1 _ (total_fin hb _))
  | .bindV vec defs body, env, h, ct, hct => by
      simp only [VExpr.vjp]
      have hb := safeX_vjp_fin body _ h.2 ct hct
      refine allFin_append (fun kv hkv => hb kv (List.mem_filter.mp hkv).1) (allFin_flatMap ?_)
      intro dp hdp
      exact safe_vjp_fin dp.1 env (h.1 dp.1 (List.fst_mem_of_mem_zipIdx hdp)) _ (total_fin hb _)

/-- the conclusion of C18 for a `VExpr`: finite value, and for every finite incoming cotangent only finite adjoints -/
def GradFinX (env : Env EF) (e : VExpr EF) : Prop := isFin (e.eval env) ∧ ∀ ct, isFin ct → AllFin (e.vjp env ct)

theorem gradFinX_of_safeX {env : Env EF} {e : VExpr EF} (h : SafeX env e) : GradFinX env e :=
  ⟨safeX_eval_fin e env h, safeX_vjp_fin e env h⟩

theorem safeX_letAll {env : Env EF} : ∀ {bs : List (Nat × Expr EF)} {body : VExpr EF},
    (∀ b ∈ bs, ∀ env' : Env EF, env'.v = env.v → Safe env' b.2) →
    (∀ env' : Env EF, env'.v = env.v → (∀ i, (∀ b ∈ bs, b.1 ≠ i) → env'.s i = env.s i) → (∀ b ∈ bs, isFin (env'.s b.1)) → SafeX env' body) →
    SafeX env (VExpr.letAll bs body) := by
  intro bs
  induction bs generalizing env with
  | nil => intro body _ hb; exact hb env rfl (fun _ _ => rfl) (by simp)
  | cons b bs ih =>
    intro body hd hb
    obtain ⟨i, v⟩ := b
    have hv : Safe env v := hd (i, v) (List.mem_cons_self ..) env rfl
    refine ⟨hv, ih (env := env.set i (v.eval env)) (fun b' hb' env' he' => hd b' (List.mem_cons_of_mem _ hb') env' he') ?_⟩
    intro env' hv' hs' hf'
    refine hb env' hv' ?_ ?_
    · intro j hj
      rw [hs' j (fun b' hb' => hj b' (List.mem_cons_of_mem _ hb'))]
      have : j ≠ i := fun e => hj (i, v) (List.mem_cons_self ..) e.symm
      simp [Env.set, this]
    · intro b' hb'
      rcases List.mem_cons.mp hb' with rfl | hb''
      · by_cases hin : ∀ b'' ∈ bs, b''.1 ≠ i
        · rw [hs' i hin]; simp only [Env.set, if_true]; exact safe_eval_fin v env hv
        · push Not at hin; obtain ⟨b'', hb'', he⟩ := hin; rw [← he]; exact hf' b'' hb''
      · exact hf' b' hb''

theorem safeX_sum {env : Env EF} {es : List (VExpr EF)} (h : ∀ e ∈ es, SafeX env e) : SafeX env (VExpr.sum es) := by
  cases es with
  | nil => simp [VExpr.sum, SafeX, Safe]
  | cons e es =>
    simp only [VExpr.sum]
    have : ∀ (es : List (VExpr EF)) (acc : VExpr EF), SafeX env acc → (∀ e ∈ es, SafeX env e) → SafeX env (es.foldl VExpr.add acc) := by
      intro es
      induction es with
      | nil => intro acc ha _; exact ha
      | cons e' es ih =>
        intro acc ha hh
        exact ih _ ⟨ha, hh e' (List.mem_cons_self ..)⟩ (fun e'' he'' => hh e'' (List.mem_cons_of_mem _ he''))
    exact this es e (h e (List.mem_cons_self ..)) (fun e' he' => h e' (List.mem_cons_of_mem _ he'))

/-! ### array combinators -/

theorem evalsTo_mapR {env : Env EF} {op : Expr EF → Expr EF → Expr EF} {f : ℝ → ℝ → ℝ} {s : Expr EF} {c : ℝ}
    (hop : ∀ a x, a.eval env = fin x → (op a s).eval env = fin (f x c)) {as : List (Expr EF)} {xs : List ℝ}
    (h : EvalsTo env as xs) : EvalsTo env (Vec.mapR op as s) (xs.map (fun x => f x c)) :=
  evalsTo_map (env' := env) (g := fun e => op e s) (f := fun x => f x c) hop h

theorem evalsTo_mapL {env : Env EF} {op : Expr EF → Expr EF → Expr EF} {f : ℝ → ℝ → ℝ} {s : Expr EF} {c : ℝ}
    (hop : ∀ a x, a.eval env = fin x → (op s a).eval env = fin (f c x)) {as : List (Expr EF)} {xs : List ℝ}
    (h : EvalsTo env as xs) : EvalsTo env (Vec.mapL op s as) (xs.map (fun x => f c x)) :=
  evalsTo_map (env' := env) (g := fun e => op s e) (f := fun x => f c x) hop h

theorem evalsTo_set {env : Env EF} {as : List (Expr EF)} {xs : List ℝ} (h : EvalsTo env as xs) (i : Nat) {v : Expr EF} {r : ℝ}
    (hv : v.eval env = fin r) : EvalsTo env (Vec.setAt as i v) (xs.set i r) := by
  unfold Vec.setAt
  induction h generalizing i with
  | nil => simp [EvalsTo]
  | cons ha hta ih =>
    cases i with
    | zero => exact List.Forall₂.cons hv hta
    | succ i => exact List.Forall₂.cons ha (ih i)

theorem safeVec_set {env : Env EF} {as : List (Expr EF)} (h : SafeVec env as) (i : Nat) {v : Expr EF} (hv : Safe env v) :
    SafeVec env (Vec.setAt as i v) := by
  intro e he
  rcases List.mem_or_eq_of_mem_set he with h1 | h1
  · exact h e h1
  · rw [h1]; exact hv

theorem getAt_zero_eval {env : Env EF} {a : Expr EF} {as : List (Expr EF)} {x : ℝ} {xs : List ℝ}
    (h : EvalsTo env (a :: as) (x :: xs)) : (Vec.getAt (a :: as) 0).eval env = fin x := by
  cases h with
  | cons ha _ => simpa [Vec.getAt] using ha

theorem evalsTo_cumsumFrom {env : Env EF} : ∀ {es : List (Expr EF)} {rs : List ℝ} (acc : Expr EF) (a : ℝ),
    acc.eval env = fin a → EvalsTo env es rs → EvalsTo env (Vec.cumsumFrom acc es) (ParamsPf.cumsumFrom a rs)
  | _, _, acc, a, hacc, .nil => by simp [Vec.cumsumFrom, ParamsPf.cumsumFrom, EvalsTo]
  | _, _, acc, a, hacc, .cons (a := e) (b := r) he hte => by
      have h1 : (Expr.add acc e).eval env = fin (a + r) := by simp [Expr.eval, hacc, he]
      exact List.Forall₂.cons h1 (evalsTo_cumsumFrom _ _ h1 hte)

theorem safeVec_cumsumFrom {env : Env EF} : ∀ {es : List (Expr EF)} (acc : Expr EF),
    Safe env acc → SafeVec env es → SafeVec env (Vec.cumsumFrom acc es)
  | [], _, _, _ => by intro e he; simp [Vec.cumsumFrom] at he
  | e :: es, acc, hacc, h => by
      have h1 : Safe env (Expr.add acc e) := ⟨hacc, h e (List.mem_cons_self ..)⟩
      intro e' he'
      simp only [Vec.cumsumFrom, List.mem_cons] at he'
      rcases he' with rfl | he'
      · exact h1
      · exact safeVec_cumsumFrom _ h1 (fun e'' he'' => h e'' (List.mem_cons_of_mem _ he'')) e' he'

theorem evalsTo_pad1 {env : Env EF} {as : List (Expr EF)} {xs : List ℝ} (h : EvalsTo env as xs) {lo hi : Expr EF} {l u : ℝ}
    (hl : lo.eval env = fin l) (hu : hi.eval env = fin u) : EvalsTo env (Vec.pad1 as lo hi) (Jnp.pad1 xs (l, u)) := by
  unfold Vec.pad1 Jnp.pad1 EvalsTo
  exact List.Forall₂.cons hl (List.rel_append h (List.Forall₂.cons hu List.Forall₂.nil))

theorem safeVec_pad1 {env : Env EF} {as : List (Expr EF)} (h : SafeVec env as) {lo hi : Expr EF} (hl : Safe env lo) (hu : Safe env hi) :
    SafeVec env (Vec.pad1 as lo hi) := by
  intro e he
  simp only [Vec.pad1, List.mem_cons, List.mem_append, List.not_mem_nil, or_false] at he
  rcases he with rfl | he | rfl
  · exact hl
  · exact h e he
  · exact hu

theorem sum_map_exp_sub (rs : List ℝ) (m : ℝ) :
    (rs.map (fun r => Real.exp (r - m))).sum = (rs.map Real.exp).sum * Real.exp (-m) := by
  induction rs with
  | nil => simp
  | cons r rs ih =>
    simp only [List.map_cons, List.sum_cons]
    rw [ih, sub_eq_add_neg, Real.exp_add]; ring

/-- `jax.nn.softmax` (`_softmax_deprecated`: maximum under `stop_gradient`) of a non-empty array of safe, finite expressions is safe
and evaluates to the softmax of the values -/
theorem softmax_safe {env : Env EF} {x : List (Expr EF)} {rs : List ℝ} (hs : SafeVec env x) (he : EvalsTo env x rs) (hne : rs ≠ []) :
    SafeVec env (Vec.softmax x) ∧ EvalsTo env (Vec.softmax x) (Jnp.softmax rs) := by
  obtain ⟨m, hm⟩ := AdM.maxE_fin he hne
  unfold Vec.softmax
  set xmax : Expr EF := Expr.stopGrad (Vec.maxE x) with hx
  have hae : xmax.eval env = fin m := by simp [hx, Expr.eval, hm]
  have haS : Safe env xmax := by show isFin (xmax.eval env); rw [hae]; trivial
  obtain ⟨hS, hE⟩ := AdM.expShift hs he haS hae
  have hpos : 0 < (rs.map (fun r => Real.exp (r - m))).sum := AdM.sum_pos_of AdM.map_exp_pos (by simpa using hne)
  have hsum := sum_eval hE
  have hsumS := sum_safe hS
  constructor
  · refine safeVec_map (env' := env) (g := fun e => Expr.div e (Vec.sum (List.map (fun e => Expr.prim Prim.exp (Expr.sub e xmax)) x))) ?_ hS
    intro a ha
    refine ⟨ha, hsumS, ?_⟩
    rw [hsum]; intro h; exact hpos.ne' (EF.fin.inj h)
  · rw [ParamsPf.softmax_eq]
    have h1 : EvalsTo env (List.map (fun e => Expr.div e (Vec.sum (List.map (fun e => Expr.prim Prim.exp (Expr.sub e xmax)) x)))
        (List.map (fun e => Expr.prim Prim.exp (Expr.sub e xmax)) x))
        ((rs.map (fun r => Real.exp (r - m))).map (fun v => v / (rs.map (fun r => Real.exp (r - m))).sum)) :=
      evalsTo_map (env' := env) (fun a v hv => by
        show Expr.eval env a / Expr.eval env _ = _
        rw [hv, hsum, EF.fin_div hpos.ne']) hE
    have h2 : (rs.map (fun r => Real.exp (r - m))).map (fun v => v / (rs.map (fun r => Real.exp (r - m))).sum)
        = rs.map (fun x => Real.exp x / (rs.map Real.exp).sum) := by
      rw [List.map_map]
      apply List.map_congr_left
      intro r _
      have hpe : 0 < (rs.map Real.exp).sum := ParamsPf.sum_exp_pos hne
      simp only [Function.comp, sum_map_exp_sub]
      rw [sub_eq_add_neg, Real.exp_add]
      field_simp
    rw [← h2]; exact h1

end AdX
end
