import Flowjaxv.Proofs.RealInst
import Flowjaxv.Proofs.BijTheory
/-!
# The generated `RationalQuadraticSpline` over ℝ is a lawful, strictly increasing bijection

Everything here is about the GENERATED definitions `Gen.RationalQuadraticSpline.{transform,
inverse, derivative, transform_and_log_det, inverse_and_log_det}` (`Gen/Leaves.lean`); nothing is
re-modelled.  Route:

* list layer: `searchsorted` on a strictly increasing list, `bin_unique` / `bin_exists` describe
  `clipInt (searchsorted xs v - 1) 0 (n-2)` through the predicate `IsBin xs k v`
  (half-open bins `(xs[k], xs[k+1]]`, the left end going to bin 0); `getItem` at in-range
  indices is plain indexing (`getItem_nat`), so the `getD … default` totalisation is never hit;
* one-bin algebra: `rqD_pos`, `rq_lt` (strict monotonicity by an explicit positive certificate),
  `rqs_root` (the root picked by `2c / (-b - sqrt(b²-4ac))`), `rq_hasDerivAt`;
* gluing: under `RqsWF p`, `transform_bin`, `inverse_bin_clip`, `derivative_bin` identify the
  generated methods with the bin formulas; `fwdK_isBin` shows the inverse looks up the same bin.

Main results: `rqs_identity_outside`, `rqs_knots`, `rqs_mem_interval`, `rqs_left`, `rqs_right`,
`rqs_lawful`, `rqs_derivative_pos`, `rqs_ldAntisym`, `rqs_strictMono`, `rqs_hasDerivAt_interior`,
`rqs_identity_at_init`, `rqs_derivative_knot`, `rqs_hasDerivAt_knot` (C¹ at interior knots),
`rqs_hasDerivAt`, `rqs_hasDerivAt_outside`, and the non-vacuity instance `rqsWF_instance`.
-/
open Gen RealInst Set

namespace Rqs

/-- total indexing used in the statements: `nth xs k = xs[k]` for `k < xs.length` -/
def nth (xs : List ℝ) (k : ℕ) : ℝ := xs.getD k 0

theorem nth_eq {xs : List ℝ} {k : ℕ} (h : k < xs.length) : nth xs k = xs[k] := by
  simp [nth, h]

theorem getItem_nat (xs : List ℝ) (k : ℕ) (h : k < xs.length) :
    Jnp.getItem xs (k : ℤ) = nth xs k := by
  unfold Jnp.getItem nth
  have h1 : ¬ ((k : ℤ) < 0) := by omega
  have h2 : ¬ ((k : ℤ) ≥ (xs.length : ℤ)) := by omega
  simp only [h1, h2, if_false, Int.toNat_natCast]
  simp [h]

theorem getItem_nat_succ (xs : List ℝ) (k : ℕ) (h : k + 1 < xs.length) :
    Jnp.getItem xs ((k : ℤ) + 1) = nth xs (k + 1) := by
  have := getItem_nat xs (k + 1) h
  rwa [Nat.cast_succ] at this

theorem nth_lt_nth {xs : List ℝ} (hs : xs.Pairwise (· < ·)) {i j : ℕ} (hij : i < j)
    (hj : j < xs.length) : nth xs i < nth xs j := by
  rw [nth_eq hj, nth_eq (lt_trans hij hj)]
  exact List.pairwise_iff_getElem.mp hs i j _ hj hij

theorem nth_le_nth {xs : List ℝ} (hs : xs.Pairwise (· < ·)) {i j : ℕ} (hij : i ≤ j)
    (hj : j < xs.length) : nth xs i ≤ nth xs j := by
  rcases Nat.eq_or_lt_of_le hij with h | h
  · subst h; exact le_refl _
  · exact (nth_lt_nth hs h hj).le

theorem searchsorted_eq_succ {xs : List ℝ} (hs : xs.Pairwise (· < ·)) {k : ℕ}
    (hk : k + 1 < xs.length) {v : ℝ} (h1 : nth xs k < v) (h2 : v ≤ nth xs (k + 1)) :
    Jnp.searchsorted xs v = (k : ℤ) + 1 := by
  unfold Jnp.searchsorted
  have hA : (xs.take (k + 1)).filter (fun a => decide (a < v)) = xs.take (k + 1) := by
    rw [List.filter_eq_self]
    intro a ha
    obtain ⟨i, hi, rfl⟩ := List.getElem_of_mem ha
    rw [List.length_take] at hi
    have hi' : i < xs.length := by omega
    rw [List.getElem_take]
    have := nth_le_nth hs (show i ≤ k by omega) (by omega)
    rw [nth_eq hi'] at this
    exact decide_eq_true (lt_of_le_of_lt this h1)
  have hB : (xs.drop (k + 1)).filter (fun a => decide (a < v)) = [] := by
    rw [List.filter_eq_nil_iff]
    intro a ha
    obtain ⟨i, hi, rfl⟩ := List.getElem_of_mem ha
    rw [List.length_drop] at hi
    rw [List.getElem_drop]
    have hi' : k + 1 + i < xs.length := by omega
    have := nth_le_nth hs (show k + 1 ≤ k + 1 + i by omega) hi'
    rw [nth_eq hi'] at this
    simp only [decide_eq_true_eq, not_lt]
    exact le_trans h2 this
  conv_lhs => rw [← List.take_append_drop (k + 1) xs]
  rw [List.filter_append, hA, hB, List.append_nil, List.length_take]
  have : min (k + 1) xs.length = k + 1 := by omega
  rw [this]; push_cast; ring

theorem searchsorted_eq_zero {xs : List ℝ} (hs : xs.Pairwise (· < ·)) {v : ℝ} (h2 : v ≤ nth xs 0) :
    Jnp.searchsorted xs v = 0 := by
  unfold Jnp.searchsorted
  have hB : xs.filter (fun a => decide (a < v)) = [] := by
    rw [List.filter_eq_nil_iff]
    intro a ha
    obtain ⟨i, hi, rfl⟩ := List.getElem_of_mem ha
    have := nth_le_nth hs (show 0 ≤ i by omega) hi
    rw [nth_eq hi] at this
    simp only [decide_eq_true_eq, not_lt]
    exact le_trans h2 this
  rw [hB]; rfl

/-- `v` lies in bin `k` of the knot list `xs` (the convention of `searchsorted(side=left) - 1`
clipped to `[0, n-2]`): half-open bins `(xs[k], xs[k+1]]`, the left end `xs[0]` going to bin 0. -/
def IsBin (xs : List ℝ) (k : ℕ) (v : ℝ) : Prop :=
  k + 1 < xs.length ∧ ((nth xs k < v ∧ v ≤ nth xs (k + 1)) ∨ (k = 0 ∧ v = nth xs 0))

theorem bin_unique {xs : List ℝ} (hs : xs.Pairwise (· < ·)) {k : ℕ} {v : ℝ} (h : IsBin xs k v) :
    Jnp.clipInt (Jnp.searchsorted xs v - 1) 0 ((xs.length : ℤ) - 2) = (k : ℤ) := by
  obtain ⟨hk, h | ⟨rfl, rfl⟩⟩ := h
  · rw [searchsorted_eq_succ hs hk h.1 h.2]
    unfold Jnp.clipInt
    have h1 : ¬ ((k : ℤ) + 1 - 1 < 0) := by omega
    have h2 : ¬ ((xs.length : ℤ) - 2 < (k : ℤ) + 1 - 1) := by omega
    simp only [h1, h2, if_false]; ring
  · rw [searchsorted_eq_zero hs (le_refl _)]
    unfold Jnp.clipInt; simp

theorem bin_exists {xs : List ℝ} (hn : 2 ≤ xs.length) {v : ℝ} (h0 : nth xs 0 ≤ v)
    (h1 : v ≤ nth xs (xs.length - 1)) : ∃ k, IsBin xs k v := by
  rcases eq_or_lt_of_le h0 with h | h
  · exact ⟨0, by omega, Or.inr ⟨rfl, h.symm⟩⟩
  · classical
    have hex : ∃ j, v ≤ nth xs j ∧ j < xs.length := ⟨xs.length - 1, h1, by omega⟩
    have hj := Nat.find_spec hex
    have hmin := fun m => Nat.find_min hex (m := m)
    generalize Nat.find hex = j at hj hmin
    have hj0 : j ≠ 0 := by
      intro hj0; rw [hj0] at hj; exact absurd hj.1 (not_le.mpr h)
    obtain ⟨k, rfl⟩ := Nat.exists_eq_succ_of_ne_zero hj0
    refine ⟨k, hj.2, Or.inl ⟨?_, hj.1⟩⟩
    by_contra hc
    exact hmin k (Nat.lt_succ_self k) ⟨not_lt.mp hc, by omega⟩

theorem IsBin.le {xs : List ℝ} {k : ℕ} {v : ℝ} (h : IsBin xs k v) : nth xs k ≤ v := by
  obtain ⟨_, h | ⟨rfl, rfl⟩⟩ := h
  · exact h.1.le
  · exact le_refl _

theorem IsBin.le' {xs : List ℝ} (hs : xs.Pairwise (· < ·)) {k : ℕ} {v : ℝ} (h : IsBin xs k v) : v ≤ nth xs (k + 1) := by
  obtain ⟨hk, h | ⟨rfl, rfl⟩⟩ := h
  · exact h.2
  · exact nth_le_nth hs (by omega) hk

/-! ### one bin: algebra in the normalised coordinate `t = ξ ∈ [0,1]` -/

/-- numerator of eq. (4) without the factor `y_{k+1}-y_k` -/
def rqN (s d0 t : ℝ) : ℝ := (s * (t * t)) + ((d0 * t) * (1 - t))
/-- denominator of eq. (4) -/
def rqD (s d0 d1 t : ℝ) : ℝ := s + ((((d1 + d0) - (2 * s)) * t) * (1 - t))

theorem rqD_pos {s d0 d1 t : ℝ} (hs : 0 < s) (h0 : 0 < d0) (h1 : 0 < d1) (ht0 : 0 ≤ t) (ht1 : t ≤ 1) :
    0 < rqD s d0 d1 t := by
  have e : rqD s d0 d1 t = s * (t ^ 2 + (1 - t) ^ 2) + (d1 + d0) * (t * (1 - t)) := by
    unfold rqD; ring
  rw [e]
  have h1x : 0 ≤ 1 - t := by linarith
  have : 0 < t ^ 2 + (1 - t) ^ 2 := by nlinarith [sq_nonneg t, sq_nonneg (1 - t)]
  have := mul_pos hs this
  have := mul_nonneg (by linarith : 0 ≤ d1 + d0) (mul_nonneg ht0 h1x)
  linarith

theorem rq_zero (s d0 d1 : ℝ) : rqN s d0 0 / rqD s d0 d1 0 = 0 := by
  simp [rqN]

theorem rq_one {s : ℝ} (hs : 0 < s) (d0 d1 : ℝ) : rqN s d0 1 / rqD s d0 d1 1 = 1 := by
  have : rqN s d0 1 = s := by simp [rqN]
  have h2 : rqD s d0 d1 1 = s := by simp [rqD]
  rw [this, h2, div_self hs.ne']

/-- the rational-quadratic fraction is strictly increasing on `[0,1]` -/
theorem rq_lt {s d0 d1 a b : ℝ} (hs : 0 < s) (h0 : 0 < d0) (h1 : 0 < d1)
    (ha : 0 ≤ a) (hab : a < b) (hb : b ≤ 1) :
    rqN s d0 a / rqD s d0 d1 a < rqN s d0 b / rqD s d0 d1 b := by
  have hDa := rqD_pos hs h0 h1 ha (by linarith : a ≤ 1)
  have hDb := rqD_pos hs h0 h1 (by linarith : 0 ≤ b) hb
  rw [div_lt_div_iff₀ hDa hDb]
  have key : rqN s d0 b * rqD s d0 d1 a - rqN s d0 a * rqD s d0 d1 b
      = s * (b - a) * (d0 * ((1 - a) * (1 - b)) + d1 * (a * b) + s * (a * (1 - b) + b * (1 - a))) := by
    unfold rqN rqD; ring
  have hb0 : 0 < b := by linarith
  have ha1 : 0 < 1 - a := by linarith
  have hb1 : 0 ≤ 1 - b := by linarith
  have q1 : 0 ≤ d0 * ((1 - a) * (1 - b)) := mul_nonneg h0.le (mul_nonneg ha1.le hb1)
  have q2 : 0 ≤ d1 * (a * b) := mul_nonneg h1.le (mul_nonneg ha hb0.le)
  have q3 : 0 < s * (a * (1 - b) + b * (1 - a)) := by
    apply mul_pos hs
    have := mul_nonneg ha hb1
    have := mul_pos hb0 ha1
    linarith
  have : 0 < s * (b - a) * (d0 * ((1 - a) * (1 - b)) + d1 * (a * b) + s * (a * (1 - b) + b * (1 - a))) :=
    mul_pos (mul_pos hs (by linarith)) (by linarith)
  linarith

/-- core algebra of the spline inverse inside one bin: the root selected by
`2c / (-b - sqrt(b² - 4ac))` is the `ξ` that produced `u = y - y_k` -/
theorem rqs_root (xi s d0 d1 D : ℝ) (hs : 0 < s) (h0 : 0 < d0) (h1 : 0 < d1) (hD : 0 < D)
    (hx0 : 0 ≤ xi) (hx1 : xi ≤ 1) :
    let u := (D * rqN s d0 xi) / rqD s d0 d1 xi
    let T := u * ((d1 + d0) - (2 * s))
    let a := (D * (s - d0)) + T
    let b := (D * d0) - T
    let c := (-s) * u
    (2 * c) / ((-b) - Real.sqrt ((b * b) - ((4 * a) * c))) = xi := by
  intro u T a b c
  have hden : 0 < rqD s d0 d1 xi := rqD_pos hs h0 h1 hx0 hx1
  have hu : u * rqD s d0 d1 xi = D * rqN s d0 xi := div_mul_cancel₀ _ hden.ne'
  clear_value u
  have hroot : a * xi^2 + b * xi + c = 0 := by
    simp only [a, b, c, T]; unfold rqD rqN at hu; linear_combination (-1 : ℝ) * hu
  have h2 : (2*a*xi + b) * rqD s d0 d1 xi = D * (s * (d0*(1-xi)^2 + d1*xi^2 + 2*s*xi*(1-xi))) := by
    simp only [a, b, T]; unfold rqD rqN at hu; unfold rqD
    linear_combination ((d1 + d0 - 2*s) * (2*xi - 1)) * hu
  have h3 : (a*xi + b) * rqD s d0 d1 xi = D * (s * (d0*(1-xi) + s*xi)) := by
    simp only [a, b, T]; unfold rqD rqN at hu; unfold rqD
    linear_combination ((d1 + d0 - 2*s) * (xi - 1)) * hu
  have h1x : 0 ≤ 1 - xi := by linarith
  have p2 : 0 < 2*a*xi + b := by
    have : 0 < (2*a*xi + b) * rqD s d0 d1 xi := by
      rw [h2]; apply mul_pos hD; apply mul_pos hs
      have := mul_nonneg h0.le (sq_nonneg (1-xi))
      have := mul_nonneg h1.le (sq_nonneg xi)
      have := mul_nonneg (mul_nonneg (by linarith : (0:ℝ) ≤ 2*s) hx0) h1x
      rcases eq_or_lt_of_le hx0 with h | h
      · subst h; simp; positivity
      · have := mul_pos h1 (pow_pos h 2); linarith
    exact (pos_iff_pos_of_mul_pos this).mpr hden
  have p3 : 0 < a*xi + b := by
    have : 0 < (a*xi + b) * rqD s d0 d1 xi := by
      rw [h3]; apply mul_pos hD; apply mul_pos hs
      rcases eq_or_lt_of_le hx0 with h | h
      · subst h; simp; exact h0
      · have := mul_pos hs h; have := mul_nonneg h0.le h1x; linarith
    exact (pos_iff_pos_of_mul_pos this).mpr hden
  have hdisc : (b * b) - ((4 * a) * c) = (2*a*xi + b)^2 := by
    have : c = -(a*xi^2 + b*xi) := by linarith
    rw [this]; ring
  rw [hdisc, Real.sqrt_sq p2.le]
  have hc : c = -(xi * (a*xi + b)) := by
    have h : c = -(a*xi^2 + b*xi) := by linarith
    rw [h]; ring
  have e : -b - (2*a*xi + b) = -2 * (a*xi + b) := by ring
  rw [e, hc]
  have hne' : xi * a + b ≠ 0 := by rw [mul_comm]; exact p3.ne'
  field_simp

theorem rq_hasDerivAt (s d0 d1 t : ℝ) (hne : rqD s d0 d1 t ≠ 0) :
    HasDerivAt (fun t => rqN s d0 t / rqD s d0 d1 t)
      ((s * (((d1 * (t * t)) + (((2 * s) * t) * (1 - t))) + (d0 * ((1 - t) * (1 - t)))))
        / (rqD s d0 d1 t * rqD s d0 d1 t)) t := by
  have hid := hasDerivAt_id' t
  have h1t : HasDerivAt (fun t : ℝ => 1 - t) (-1) t := by
    simpa using (hasDerivAt_id' t).const_sub 1
  have hN : HasDerivAt (fun t => rqN s d0 t)
      (s * (1 * t + t * 1) + ((d0 * 1) * (1 - t) + (d0 * t) * (-1))) t := by
    unfold rqN
    exact ((hid.fun_mul hid).const_mul s).fun_add ((hid.const_mul d0).fun_mul h1t)
  have hD : HasDerivAt (fun t => rqD s d0 d1 t)
      ((((d1 + d0) - (2 * s)) * 1) * (1 - t) + (((d1 + d0) - (2 * s)) * t) * (-1)) t := by
    unfold rqD
    exact ((hid.const_mul ((d1 + d0) - (2 * s))).fun_mul h1t).const_add s
  have h := hN.fun_div hD hne
  refine h.congr_deriv ?_
  rw [pow_two]
  congr 1
  unfold rqN rqD; ring


/-! ### one bin in the original coordinates -/

/-- eq. (4): the value the generated `transform` computes once the bin `k` is fixed
(`xk = x_pos[k]`, `xk1 = x_pos[k+1]`, …) -/
noncomputable def binFwd (xk xk1 yk yk1 dk dk1 x : ℝ) : ℝ :=
  yk + ((yk1 - yk) * rqN ((yk1 - yk) / (xk1 - xk)) dk ((x - xk) / (xk1 - xk))) /
    rqD ((yk1 - yk) / (xk1 - xk)) dk dk1 ((x - xk) / (xk1 - xk))

/-- the value the generated `inverse` computes (before `clip`) once the bin is fixed -/
noncomputable def binInv (xk xk1 yk yk1 dk dk1 y : ℝ) : ℝ :=
  let sk := ((yk1 - yk) / (xk1 - xk))
  let t := ((y - yk) * ((dk1 + dk) - (2 * sk)))
  let a := (((yk1 - yk) * (sk - dk)) + t)
  let b := (((yk1 - yk) * dk) - t)
  let c := ((-sk) * (y - yk))
  (((2 * c) / ((-b) - Real.sqrt ((b * b) - ((4 * a) * c)))) * (xk1 - xk)) + xk

/-- eq. (5): the value the generated `derivative` computes once the bin is fixed -/
noncomputable def binDer (xk xk1 yk yk1 dk dk1 x : ℝ) : ℝ :=
  let xi := ((x - xk) / (xk1 - xk))
  let sk := ((yk1 - yk) / (xk1 - xk))
  ((sk * sk) * (((dk1 * (xi * xi)) + (((2 * sk) * xi) * (1 - xi))) + (dk * ((1 - xi) * (1 - xi)))))
    / (rqD sk dk dk1 xi * rqD sk dk dk1 xi)

/-- the data of one bin is admissible -/
structure BinOK (xk xk1 yk yk1 dk dk1 : ℝ) : Prop where
  hx : xk < xk1
  hy : yk < yk1
  h0 : 0 < dk
  h1 : 0 < dk1

section bin
variable {xk xk1 yk yk1 dk dk1 : ℝ}

theorem BinOK.s_pos (h : BinOK xk xk1 yk yk1 dk dk1) : 0 < (yk1 - yk) / (xk1 - xk) :=
  div_pos (sub_pos.mpr h.hy) (sub_pos.mpr h.hx)

theorem BinOK.xi_nonneg (h : BinOK xk xk1 yk yk1 dk dk1) {x : ℝ} (hx : xk ≤ x) :
    0 ≤ (x - xk) / (xk1 - xk) := div_nonneg (sub_nonneg.mpr hx) (sub_pos.mpr h.hx).le

theorem BinOK.xi_le_one (h : BinOK xk xk1 yk yk1 dk dk1) {x : ℝ} (hx : x ≤ xk1) :
    (x - xk) / (xk1 - xk) ≤ 1 := by
  rw [div_le_one (sub_pos.mpr h.hx)]; linarith

theorem BinOK.den_pos (h : BinOK xk xk1 yk yk1 dk dk1) {x : ℝ} (hx : x ∈ Icc xk xk1) :
    0 < rqD ((yk1 - yk) / (xk1 - xk)) dk dk1 ((x - xk) / (xk1 - xk)) :=
  rqD_pos h.s_pos h.h0 h.h1 (h.xi_nonneg hx.1) (h.xi_le_one hx.2)

theorem binFwd_left (xk xk1 yk yk1 dk dk1 : ℝ) : binFwd xk xk1 yk yk1 dk dk1 xk = yk := by
  unfold binFwd
  rw [sub_self, zero_div, mul_div_assoc, rq_zero, mul_zero, add_zero]

theorem binFwd_right (h : BinOK xk xk1 yk yk1 dk dk1) : binFwd xk xk1 yk yk1 dk dk1 xk1 = yk1 := by
  unfold binFwd
  rw [div_self (sub_pos.mpr h.hx).ne', mul_div_assoc, rq_one h.s_pos, mul_one]; ring

/-- strictly increasing inside the bin (closed ends included) -/
theorem binFwd_lt (h : BinOK xk xk1 yk yk1 dk dk1) {a b : ℝ} (ha : xk ≤ a) (hab : a < b)
    (hb : b ≤ xk1) : binFwd xk xk1 yk yk1 dk dk1 a < binFwd xk xk1 yk yk1 dk dk1 b := by
  unfold binFwd
  rw [mul_div_assoc, mul_div_assoc]
  have hw := sub_pos.mpr h.hx
  have hξ : (a - xk) / (xk1 - xk) < (b - xk) / (xk1 - xk) :=
    div_lt_div_of_pos_right (by linarith) hw
  have := rq_lt h.s_pos h.h0 h.h1 (h.xi_nonneg ha) hξ (h.xi_le_one hb)
  have := mul_lt_mul_of_pos_left this (sub_pos.mpr h.hy)
  linarith

theorem binFwd_mem (h : BinOK xk xk1 yk yk1 dk dk1) {x : ℝ} (hx : x ∈ Icc xk xk1) :
    binFwd xk xk1 yk yk1 dk dk1 x ∈ Icc yk yk1 := by
  constructor
  · rcases eq_or_lt_of_le hx.1 with e | e
    · rw [← e, binFwd_left]
    · have := binFwd_lt h (le_refl _) e hx.2; rw [binFwd_left] at this; exact this.le
  · rcases eq_or_lt_of_le hx.2 with e | e
    · rw [e, binFwd_right h]
    · have := binFwd_lt h hx.1 e (le_refl _); rw [binFwd_right h] at this; exact this.le

theorem binFwd_gt_left (h : BinOK xk xk1 yk yk1 dk dk1) {x : ℝ} (hx0 : xk < x) (hx1 : x ≤ xk1) :
    yk < binFwd xk xk1 yk yk1 dk dk1 x := by
  have := binFwd_lt h (le_refl _) hx0 hx1; rwa [binFwd_left] at this

/-- the inverse formula undoes the forward formula on the whole closed bin -/
theorem binInv_binFwd (h : BinOK xk xk1 yk yk1 dk dk1) {x : ℝ} (hx : x ∈ Icc xk xk1) :
    binInv xk xk1 yk yk1 dk dk1 (binFwd xk xk1 yk yk1 dk dk1 x) = x := by
  have hroot := rqs_root ((x - xk) / (xk1 - xk)) ((yk1 - yk) / (xk1 - xk)) dk dk1 (yk1 - yk)
    h.s_pos h.h0 h.h1 (sub_pos.mpr h.hy) (h.xi_nonneg hx.1) (h.xi_le_one hx.2)
  dsimp only at hroot
  unfold binInv binFwd
  dsimp only
  rw [add_sub_cancel_left, hroot]
  have hw := (sub_pos.mpr h.hx).ne'
  field_simp; ring

theorem binDer_pos (h : BinOK xk xk1 yk yk1 dk dk1) {x : ℝ} (hx : x ∈ Icc xk xk1) :
    0 < binDer xk xk1 yk yk1 dk dk1 x := by
  unfold binDer
  dsimp only
  have hden := h.den_pos hx
  have hs := h.s_pos
  have hξ0 := h.xi_nonneg hx.1
  have hξ1 := h.xi_le_one hx.2
  set ξ := (x - xk) / (xk1 - xk)
  set s := (yk1 - yk) / (xk1 - xk)
  apply div_pos _ (mul_pos hden hden)
  apply mul_pos (mul_pos hs hs)
  have h1x : 0 ≤ 1 - ξ := by linarith
  have q1 := mul_nonneg h.h1.le (mul_nonneg hξ0 hξ0)
  have q2 := mul_nonneg (mul_nonneg (by linarith : (0:ℝ) ≤ 2 * s) hξ0) h1x
  have q3 := mul_nonneg h.h0.le (mul_nonneg h1x h1x)
  rcases eq_or_lt_of_le hξ0 with e | e
  · have : 0 < dk * ((1 - ξ) * (1 - ξ)) := by rw [← e]; simpa using h.h0
    linarith
  · have : 0 < dk1 * (ξ * ξ) := mul_pos h.h1 (mul_pos e e)
    linarith

theorem binFwd_hasDerivAt (h : BinOK xk xk1 yk yk1 dk dk1) {x : ℝ} (hx : x ∈ Icc xk xk1) :
    HasDerivAt (binFwd xk xk1 yk yk1 dk dk1) (binDer xk xk1 yk yk1 dk dk1 x) x := by
  have hden := (h.den_pos hx).ne'
  have hw := (sub_pos.mpr h.hx).ne'
  have hξ : HasDerivAt (fun x => (x - xk) / (xk1 - xk)) (1 / (xk1 - xk)) x :=
    ((hasDerivAt_id' x).sub_const xk).div_const _
  have hq := rq_hasDerivAt ((yk1 - yk) / (xk1 - xk)) dk dk1 ((x - xk) / (xk1 - xk)) hden
  have hc := HasDerivAt.comp x hq hξ
  have hf := ((hc.const_mul (yk1 - yk)).const_add yk)
  have e : binFwd xk xk1 yk yk1 dk dk1 = fun x => yk + (yk1 - yk) *
      ((fun t => rqN ((yk1 - yk) / (xk1 - xk)) dk t / rqD ((yk1 - yk) / (xk1 - xk)) dk dk1 t) ∘
        (fun x => (x - xk) / (xk1 - xk))) x := by
    funext x; unfold binFwd; simp only [Function.comp]; rw [mul_div_assoc]
  rw [e]
  refine hf.congr_deriv ?_
  unfold binDer
  dsimp only
  field_simp

theorem binFwd_continuousOn (h : BinOK xk xk1 yk yk1 dk dk1) :
    ContinuousOn (binFwd xk xk1 yk yk1 dk dk1) (Icc xk xk1) :=
  fun _ hx => (binFwd_hasDerivAt h hx).continuousAt.continuousWithinAt

/-- surjectivity of the bin map (intermediate value theorem), with the half-open bookkeeping -/
theorem binFwd_surj (h : BinOK xk xk1 yk yk1 dk dk1) {y : ℝ} (hy : y ∈ Icc yk yk1) :
    ∃ x ∈ Icc xk xk1, binFwd xk xk1 yk yk1 dk dk1 x = y := by
  have := intermediate_value_Icc h.hx.le (binFwd_continuousOn h)
  rw [binFwd_left, binFwd_right h] at this
  exact this hy

end bin

/-! ### well-formed parameter records and the bin-wise description of the generated methods -/

/-- What `RationalQuadraticSpline.__init__` (through `_real_to_increasing_on_interval`,
`jnp.pad(…, constant_values=interval)` and `softplus + min_derivative`) guarantees about the
unwrapped arrays: `n ≥ 2` strictly increasing knots in `x` and in `y`, padded with the interval
ends, and `n` strictly positive knot derivatives. -/
structure RqsWF (p : RationalQuadraticSpline ℝ) : Prop where
  two_le : 2 ≤ p.x_pos.length
  len_y : p.y_pos.length = p.x_pos.length
  len_d : p.derivatives.length = p.x_pos.length
  x_inc : p.x_pos.Pairwise (· < ·)
  y_inc : p.y_pos.Pairwise (· < ·)
  d_pos : ∀ d ∈ p.derivatives, 0 < d
  x_first : p.x_pos.head? = some p.interval.1
  x_last : p.x_pos.getLast? = some p.interval.2
  y_first : p.y_pos.head? = some p.interval.1
  y_last : p.y_pos.getLast? = some p.interval.2

theorem nth_zero_of_head? {xs : List ℝ} {a : ℝ} (h : xs.head? = some a) : nth xs 0 = a := by
  cases xs with
  | nil => simp at h
  | cons b t => simp at h; simp [nth, h]

theorem nth_last_of_getLast? {xs : List ℝ} {a : ℝ} (h : xs.getLast? = some a) :
    nth xs (xs.length - 1) = a := by
  rw [List.getLast?_eq_getElem?] at h
  simp [nth, h]

section wf
variable {p : RationalQuadraticSpline ℝ}

theorem RqsWF.x0 (h : RqsWF p) : nth p.x_pos 0 = p.interval.1 := nth_zero_of_head? h.x_first
theorem RqsWF.y0 (h : RqsWF p) : nth p.y_pos 0 = p.interval.1 := nth_zero_of_head? h.y_first
theorem RqsWF.xN (h : RqsWF p) : nth p.x_pos (p.x_pos.length - 1) = p.interval.2 :=
  nth_last_of_getLast? h.x_last
theorem RqsWF.yN (h : RqsWF p) : nth p.y_pos (p.x_pos.length - 1) = p.interval.2 := by
  rw [← h.len_y]; exact nth_last_of_getLast? h.y_last

theorem RqsWF.lo_lt_hi (h : RqsWF p) : p.interval.1 < p.interval.2 := by
  rw [← h.x0, ← h.xN]
  exact nth_lt_nth h.x_inc (by have := h.two_le; omega) (by have := h.two_le; omega)

theorem RqsWF.d_nth_pos (h : RqsWF p) {k : ℕ} (hk : k < p.x_pos.length) :
    0 < nth p.derivatives k := by
  have hk' : k < p.derivatives.length := by rw [h.len_d]; exact hk
  rw [nth_eq hk']; exact h.d_pos _ (List.getElem_mem hk')

/-- forward / inverse / derivative formulas of bin `k` of the record `p` -/
noncomputable def fwdK (p : RationalQuadraticSpline ℝ) (k : ℕ) : ℝ → ℝ :=
  binFwd (nth p.x_pos k) (nth p.x_pos (k + 1)) (nth p.y_pos k) (nth p.y_pos (k + 1))
    (nth p.derivatives k) (nth p.derivatives (k + 1))
noncomputable def invK (p : RationalQuadraticSpline ℝ) (k : ℕ) : ℝ → ℝ :=
  binInv (nth p.x_pos k) (nth p.x_pos (k + 1)) (nth p.y_pos k) (nth p.y_pos (k + 1))
    (nth p.derivatives k) (nth p.derivatives (k + 1))
noncomputable def derK (p : RationalQuadraticSpline ℝ) (k : ℕ) : ℝ → ℝ :=
  binDer (nth p.x_pos k) (nth p.x_pos (k + 1)) (nth p.y_pos k) (nth p.y_pos (k + 1))
    (nth p.derivatives k) (nth p.derivatives (k + 1))

theorem RqsWF.binOK (h : RqsWF p) {k : ℕ} (hk : k + 1 < p.x_pos.length) :
    BinOK (nth p.x_pos k) (nth p.x_pos (k + 1)) (nth p.y_pos k) (nth p.y_pos (k + 1))
      (nth p.derivatives k) (nth p.derivatives (k + 1)) :=
  ⟨nth_lt_nth h.x_inc (Nat.lt_succ_self k) hk,
   nth_lt_nth h.y_inc (Nat.lt_succ_self k) (by rw [h.len_y]; exact hk),
   h.d_nth_pos (by omega), h.d_nth_pos hk⟩

theorem IsBin.mem_range {xs : List ℝ} (hs : xs.Pairwise (· < ·)) {k : ℕ} {v : ℝ}
    (hb : IsBin xs k v) : nth xs 0 ≤ v ∧ v ≤ nth xs (xs.length - 1) :=
  ⟨le_trans (nth_le_nth hs (Nat.zero_le k) (by have := hb.1; omega)) hb.le,
   le_trans (hb.le' hs) (nth_le_nth hs (by have := hb.1; omega) (by have := hb.1; omega))⟩

theorem clip_of_mem {v lo hi : ℝ} (h1 : lo ≤ v) (h2 : v ≤ hi) : Jnp.clip v lo hi = v := by
  unfold Jnp.clip; simp [not_lt.mpr h1, not_lt.mpr h2]

theorem RqsWF.x_bin_bounds (h : RqsWF p) {k : ℕ} {x : ℝ} (hb : IsBin p.x_pos k x) :
    p.interval.1 ≤ x ∧ x ≤ p.interval.2 := by
  have := hb.mem_range h.x_inc; rwa [h.x0, h.xN] at this

theorem RqsWF.y_bin_bounds (h : RqsWF p) {k : ℕ} {y : ℝ} (hb : IsBin p.y_pos k y) :
    p.interval.1 ≤ y ∧ y ≤ p.interval.2 := by
  have := hb.mem_range h.y_inc; rwa [h.y0, h.len_y, h.yN] at this

/-- the generated `transform`, before `clip`, is the bin formula of the bin found by
`searchsorted - 1` clipped -/
theorem transform_bin_clip (h : RqsWF p) {k : ℕ} {x : ℝ} (hb : IsBin p.x_pos k x) :
    p.transform x = Jnp.clip (fwdK p k x) p.interval.1 p.interval.2 := by
  obtain ⟨hlo, hhi⟩ := h.x_bin_bounds hb
  have hk := hb.1
  have hky : k + 1 < p.y_pos.length := by rw [h.len_y]; exact hk
  have hkd : k + 1 < p.derivatives.length := by rw [h.len_d]; exact hk
  unfold RationalQuadraticSpline.transform
  simp only [ge_iff_le, hlo, hhi, decide_true, Jnp.logicalAnd, Bool.and_self, where_true,
    bin_unique h.x_inc hb,
    getItem_nat _ k (Nat.lt_of_succ_lt hk), getItem_nat_succ _ k hk,
    getItem_nat _ k (Nat.lt_of_succ_lt hky), getItem_nat_succ _ k hky,
    getItem_nat _ k (Nat.lt_of_succ_lt hkd), getItem_nat_succ _ k hkd]
  rfl

theorem derivative_bin (h : RqsWF p) {k : ℕ} {x : ℝ} (hb : IsBin p.x_pos k x) :
    p.derivative x = derK p k x := by
  obtain ⟨hlo, hhi⟩ := h.x_bin_bounds hb
  have hk := hb.1
  have hky : k + 1 < p.y_pos.length := by rw [h.len_y]; exact hk
  have hkd : k + 1 < p.derivatives.length := by rw [h.len_d]; exact hk
  unfold RationalQuadraticSpline.derivative
  simp only [ge_iff_le, hlo, hhi, decide_true, Jnp.logicalAnd, Bool.and_self, where_true,
    bin_unique h.x_inc hb,
    getItem_nat _ k (Nat.lt_of_succ_lt hk), getItem_nat_succ _ k hk,
    getItem_nat _ k (Nat.lt_of_succ_lt hky), getItem_nat_succ _ k hky,
    getItem_nat _ k (Nat.lt_of_succ_lt hkd), getItem_nat_succ _ k hkd]
  rfl

theorem inverse_bin_clip (h : RqsWF p) {k : ℕ} {y : ℝ} (hb : IsBin p.y_pos k y) :
    p.inverse y = Jnp.clip (invK p k y) p.interval.1 p.interval.2 := by
  obtain ⟨hlo, hhi⟩ := h.y_bin_bounds hb
  have hky := hb.1
  have hk : k + 1 < p.x_pos.length := by rw [← h.len_y]; exact hky
  have hkd : k + 1 < p.derivatives.length := by rw [h.len_d]; exact hk
  unfold RationalQuadraticSpline.inverse
  simp only [ge_iff_le, hlo, hhi, decide_true, Jnp.logicalAnd, Bool.and_self, where_true,
    bin_unique h.y_inc hb,
    getItem_nat _ k (Nat.lt_of_succ_lt hk), getItem_nat_succ _ k hk,
    getItem_nat _ k (Nat.lt_of_succ_lt hky), getItem_nat_succ _ k hky,
    getItem_nat _ k (Nat.lt_of_succ_lt hkd), getItem_nat_succ _ k hkd, sqrt_eq]
  rfl

theorem fwdK_mem (h : RqsWF p) {k : ℕ} {x : ℝ} (hb : IsBin p.x_pos k x) :
    fwdK p k x ∈ Icc (nth p.y_pos k) (nth p.y_pos (k + 1)) :=
  binFwd_mem (h.binOK hb.1) ⟨hb.le, hb.le' h.x_inc⟩

/-- the forward value lands in the *same* bin of `y_pos` (half-open convention included) -/
theorem fwdK_isBin (h : RqsWF p) {k : ℕ} {x : ℝ} (hb : IsBin p.x_pos k x) :
    IsBin p.y_pos k (fwdK p k x) := by
  have hk := hb.1
  refine ⟨by rw [h.len_y]; exact hk, ?_⟩
  rcases hb.2 with ⟨h1, h2⟩ | ⟨rfl, rfl⟩
  · exact Or.inl ⟨binFwd_gt_left (h.binOK hk) h1 h2, (fwdK_mem h hb).2⟩
  · exact Or.inr ⟨rfl, binFwd_left _ _ _ _ _ _⟩

theorem transform_bin (h : RqsWF p) {k : ℕ} {x : ℝ} (hb : IsBin p.x_pos k x) :
    p.transform x = fwdK p k x := by
  rw [transform_bin_clip h hb]
  obtain ⟨h1, h2⟩ := h.y_bin_bounds (fwdK_isBin h hb)
  exact clip_of_mem h1 h2

theorem in_bounds_bin (h : RqsWF p) {x : ℝ} (hlo : p.interval.1 ≤ x) (hhi : x ≤ p.interval.2) :
    ∃ k, IsBin p.x_pos k x :=
  bin_exists h.two_le (by rw [h.x0]; exact hlo) (by rw [h.xN]; exact hhi)

theorem in_bounds_bin_y (h : RqsWF p) {y : ℝ} (hlo : p.interval.1 ≤ y) (hhi : y ≤ p.interval.2) :
    ∃ k, IsBin p.y_pos k y :=
  bin_exists (by rw [h.len_y]; exact h.two_le) (by rw [h.y0]; exact hlo)
    (by rw [h.len_y, h.yN]; exact hhi)

end wf

/-! ### main theorems -/
section main
variable {p : RationalQuadraticSpline ℝ}

/-- outside the interval all three generated methods are the identity / 1 (no hypothesis on `p`
is needed for this, `RqsWF` is kept for uniformity) -/
theorem rqs_identity_outside (_h : RqsWF p) {x : ℝ} (hx : x < p.interval.1 ∨ p.interval.2 < x) :
    p.transform x = x ∧ p.inverse x = x ∧ p.derivative x = 1 := by
  have hb : (decide (x ≥ p.interval.1) && decide (x ≤ p.interval.2)) = false := by
    rcases hx with hx | hx
    · simp [not_le.mpr hx]
    · simp [not_le.mpr hx]
  refine ⟨?_, ?_, ?_⟩
  · unfold RationalQuadraticSpline.transform; simp only [Jnp.logicalAnd, hb, where_false]
  · unfold RationalQuadraticSpline.inverse; simp only [Jnp.logicalAnd, hb, where_false]
  · unfold RationalQuadraticSpline.derivative; simp only [Jnp.logicalAnd, hb, where_false]

/-- in-bounds inputs stay in bounds (so the final `clip` of `transform` is a no-op) -/
theorem rqs_mem_interval (h : RqsWF p) {x : ℝ} (hx : x ∈ Icc p.interval.1 p.interval.2) :
    p.transform x ∈ Icc p.interval.1 p.interval.2 := by
  obtain ⟨k, hb⟩ := in_bounds_bin h hx.1 hx.2
  rw [transform_bin h hb]
  exact h.y_bin_bounds (fwdK_isBin h hb)

/-- every knot (both interval ends included) is mapped to the corresponding knot; `nth` form -/
theorem rqs_knots_nth (h : RqsWF p) {j : ℕ} (hj : j < p.x_pos.length) :
    p.transform (nth p.x_pos j) = nth p.y_pos j := by
  have hn := h.two_le
  cases j with
  | zero =>
    have hb : IsBin p.x_pos 0 (nth p.x_pos 0) := ⟨by omega, Or.inr ⟨rfl, rfl⟩⟩
    rw [transform_bin h hb]; exact binFwd_left _ _ _ _ _ _
  | succ k =>
    have hb : IsBin p.x_pos k (nth p.x_pos (k + 1)) :=
      ⟨hj, Or.inl ⟨nth_lt_nth h.x_inc (Nat.lt_succ_self k) hj, le_refl _⟩⟩
    rw [transform_bin h hb]; exact binFwd_right (h.binOK hj)

/-- every knot (both interval ends included) is mapped to the corresponding knot -/
theorem rqs_knots (h : RqsWF p) (j : ℕ) (hj : j < p.x_pos.length) :
    p.transform (p.x_pos[j]) = p.y_pos[j]'(by rw [h.len_y]; exact hj) := by
  have := rqs_knots_nth h hj
  rwa [nth_eq hj, nth_eq (by rw [h.len_y]; exact hj)] at this

/-- `inverse ∘ transform = id` at EVERY real `x`: interior of a bin, exactly on a knot, exactly
on either end of the interval, and outside the interval -/
theorem rqs_left (h : RqsWF p) (x : ℝ) : p.inverse (p.transform x) = x := by
  by_cases hx : x < p.interval.1 ∨ p.interval.2 < x
  · obtain ⟨h1, h2, -⟩ := rqs_identity_outside h hx
    rw [h1, h2]
  · rw [not_or, not_lt, not_lt] at hx
    obtain ⟨k, hb⟩ := in_bounds_bin h hx.1 hx.2
    have hby := fwdK_isBin h hb
    rw [transform_bin h hb, inverse_bin_clip h hby]
    have : invK p k (fwdK p k x) = x := binInv_binFwd (h.binOK hb.1) ⟨hb.le, hb.le' h.x_inc⟩
    rw [this]
    exact clip_of_mem hx.1 hx.2

/-- `transform ∘ inverse = id` at EVERY real `y` -/
theorem rqs_right (h : RqsWF p) (y : ℝ) : p.transform (p.inverse y) = y := by
  by_cases hy : y < p.interval.1 ∨ p.interval.2 < y
  · obtain ⟨h1, h2, -⟩ := rqs_identity_outside h hy
    rw [h2, h1]
  · rw [not_or, not_lt, not_lt] at hy
    obtain ⟨k, hb⟩ := in_bounds_bin_y h hy.1 hy.2
    have hk : k + 1 < p.x_pos.length := by rw [← h.len_y]; exact hb.1
    have hok := h.binOK hk
    obtain ⟨x, hx, hxy⟩ := binFwd_surj hok ⟨hb.le, hb.le' h.y_inc⟩
    have hbx : IsBin p.x_pos k x := by
      refine ⟨hk, ?_⟩
      rcases hb.2 with ⟨h1, _⟩ | ⟨rfl, hy0⟩
      · refine Or.inl ⟨lt_of_le_of_ne hx.1 ?_, hx.2⟩
        intro e; rw [← e, binFwd_left] at hxy; exact absurd hxy h1.ne
      · refine Or.inr ⟨rfl, ?_⟩
        by_contra hne
        have hlt : nth p.x_pos 0 < x := lt_of_le_of_ne hx.1 (Ne.symm hne)
        have := binFwd_gt_left hok hlt hx.2
        rw [hxy, hy0] at this; exact lt_irrefl _ this
    have hT : p.transform x = y := by rw [transform_bin h hbx]; exact hxy
    rw [← hT, rqs_left h x]

/-- the generated class, packaged as a `Bij`, is a lawful bijection `ℝ → ℝ` -/
theorem rqs_lawful {C : Type} (h : RqsWF p) : (p.toBij : Bij ℝ C ℝ).Lawful Set.univ Set.univ :=
  ⟨fun _ _ _ => trivial, fun _ _ _ => trivial, fun x _ _ => rqs_left h x,
   fun y _ _ => rqs_right h y, fun _ _ => rfl, fun _ _ => rfl⟩

/-- the derivative used for the log-determinant is strictly positive everywhere -/
theorem rqs_derivative_pos (h : RqsWF p) (x : ℝ) : 0 < p.derivative x := by
  by_cases hx : x < p.interval.1 ∨ p.interval.2 < x
  · rw [(rqs_identity_outside h hx).2.2]; exact one_pos
  · rw [not_or, not_lt, not_lt] at hx
    obtain ⟨k, hb⟩ := in_bounds_bin h hx.1 hx.2
    rw [derivative_bin h hb]
    exact binDer_pos (h.binOK hb.1) ⟨hb.le, hb.le' h.x_inc⟩

/-- the log-determinant returned by `inverse_and_log_det` at `transform x` is minus the one
returned by `transform_and_log_det` at `x` -/
theorem rqs_ldAntisym {C : Type} (h : RqsWF p) : (p.toBij : Bij ℝ C ℝ).LdAntisym Set.univ := by
  intro x _ c
  simp only [RationalQuadraticSpline.toBij, RationalQuadraticSpline.inverse_and_log_det,
    RationalQuadraticSpline.transform_and_log_det, rqs_left h x]

theorem bin_index_mono {xs : List ℝ} (hs : xs.Pairwise (· < ·)) {k k' : ℕ} {v v' : ℝ}
    (hb : IsBin xs k v) (hb' : IsBin xs k' v') (hv : v < v') : k ≤ k' := by
  by_contra hc
  have h1 := hb'.le' hs
  have h2 := nth_le_nth hs (show k' + 1 ≤ k by omega) (by have := hb.1; omega)
  have h3 := hb.le
  linarith

theorem rqs_strictMono_in (h : RqsWF p) {x x' : ℝ} (hx : p.interval.1 ≤ x) (hxx : x < x')
    (hx' : x' ≤ p.interval.2) : p.transform x < p.transform x' := by
  obtain ⟨k, hb⟩ := in_bounds_bin h hx (by linarith)
  obtain ⟨k', hb'⟩ := in_bounds_bin h (by linarith) hx'
  have hkk := bin_index_mono h.x_inc hb hb' hxx
  rw [transform_bin h hb, transform_bin h hb']
  rcases Nat.eq_or_lt_of_le hkk with e | e
  · subst e
    exact binFwd_lt (h.binOK hb.1) hb.le hxx (hb'.le' h.x_inc)
  · have h1 := (fwdK_mem h hb).2
    have hk'y : k' < p.y_pos.length := by rw [h.len_y]; have := hb'.1; omega
    have h2 := nth_le_nth h.y_inc (show k + 1 ≤ k' by omega) hk'y
    have h3 : nth p.y_pos k' < fwdK p k' x' := by
      rcases hb'.2 with ⟨a, b⟩ | ⟨rfl, _⟩
      · exact binFwd_gt_left (h.binOK hb'.1) a b
      · omega
    linarith

/-- `transform` is strictly increasing on all of `ℝ` -/
theorem rqs_strictMono (h : RqsWF p) : StrictMono p.transform := by
  intro x x' hxx
  have hlh := h.lo_lt_hi
  by_cases hx : x < p.interval.1 ∨ p.interval.2 < x
  · rw [(rqs_identity_outside h hx).1]
    by_cases hx' : x' < p.interval.1 ∨ p.interval.2 < x'
    · rw [(rqs_identity_outside h hx').1]; exact hxx
    · rw [not_or, not_lt, not_lt] at hx'
      have := (rqs_mem_interval h ⟨hx'.1, hx'.2⟩).1
      rcases hx with hx | hx
      · linarith
      · linarith
  · rw [not_or, not_lt, not_lt] at hx
    by_cases hx' : x' < p.interval.1 ∨ p.interval.2 < x'
    · rw [(rqs_identity_outside h hx').1]
      have := (rqs_mem_interval h ⟨hx.1, hx.2⟩).2
      rcases hx' with hx' | hx'
      · linarith
      · linarith
    · rw [not_or, not_lt, not_lt] at hx'
      exact rqs_strictMono_in h hx.1 hxx hx'.2

/-- strictly inside a bin the generated `derivative` is the derivative of the generated
`transform`, and it is positive -/
theorem rqs_hasDerivAt_interior (h : RqsWF p) {k : ℕ} (hk : k + 1 < p.x_pos.length) {x : ℝ}
    (h1 : nth p.x_pos k < x) (h2 : x < nth p.x_pos (k + 1)) :
    HasDerivAt p.transform (p.derivative x) x ∧ 0 < p.derivative x := by
  refine ⟨?_, rqs_derivative_pos h x⟩
  have hb : IsBin p.x_pos k x := ⟨hk, Or.inl ⟨h1, h2.le⟩⟩
  rw [derivative_bin h hb]
  have hd : HasDerivAt (fwdK p k) (derK p k x) x :=
    binFwd_hasDerivAt (h.binOK hk) ⟨h1.le, h2.le⟩
  refine hd.congr_of_eventuallyEq ?_
  filter_upwards [Ioo_mem_nhds h1 h2] with z hz
  exact transform_bin h ⟨hk, Or.inl ⟨hz.1, hz.2.le⟩⟩

end main

/-! ### identity at initialisation, C¹ at interior knots, derivative at every point -/
section more
variable {p : RationalQuadraticSpline ℝ}

theorem binFwd_id {xk xk1 : ℝ} (hx : xk < xk1) (x : ℝ) : binFwd xk xk1 xk xk1 1 1 x = x := by
  have hw := (sub_pos.mpr hx).ne'
  have e : ∀ t : ℝ, rqD 1 1 1 t = 1 := fun t => by unfold rqD; ring
  have e' : ∀ t : ℝ, rqN 1 1 t = t := fun t => by unfold rqN; ring
  unfold binFwd
  rw [div_self hw, e, e', div_one, mul_div_cancel₀ _ hw]; ring

theorem binDer_id {xk xk1 : ℝ} (hx : xk < xk1) (x : ℝ) : binDer xk xk1 xk xk1 1 1 x = 1 := by
  have hw := (sub_pos.mpr hx).ne'
  have e : ∀ t : ℝ, rqD 1 1 1 t = 1 := fun t => by unfold rqD; ring
  unfold binDer
  dsimp only
  rw [div_self hw, e, mul_one, div_one]; ring

/-- the documented "identity at initialisation": with `y_pos = x_pos` and all knot derivatives
equal to 1 (what the constructor's initial parameters unwrap to) `transform` is the identity -/
theorem rqs_identity_at_init (h : RqsWF p) (hy : p.y_pos = p.x_pos)
    (hd : ∀ d ∈ p.derivatives, d = 1) (x : ℝ) : p.transform x = x := by
  by_cases hx : x < p.interval.1 ∨ p.interval.2 < x
  · exact (rqs_identity_outside h hx).1
  · rw [not_or, not_lt, not_lt] at hx
    obtain ⟨k, hb⟩ := in_bounds_bin h hx.1 hx.2
    have hk := hb.1
    have hkd : k + 1 < p.derivatives.length := by rw [h.len_d]; exact hk
    have d0 : nth p.derivatives k = 1 := by
      rw [nth_eq (Nat.lt_of_succ_lt hkd)]; exact hd _ (List.getElem_mem _)
    have d1 : nth p.derivatives (k + 1) = 1 := by
      rw [nth_eq hkd]; exact hd _ (List.getElem_mem _)
    rw [transform_bin h hb]
    unfold fwdK
    rw [hy, d0, d1]
    exact binFwd_id (h.binOK hk).hx x

theorem rqs_identity_at_init_inverse (h : RqsWF p) (hy : p.y_pos = p.x_pos)
    (hd : ∀ d ∈ p.derivatives, d = 1) (x : ℝ) : p.inverse x = x := by
  have := rqs_left h x
  rwa [rqs_identity_at_init h hy hd x] at this

theorem rqs_identity_at_init_derivative (h : RqsWF p) (hy : p.y_pos = p.x_pos)
    (hd : ∀ d ∈ p.derivatives, d = 1) (x : ℝ) : p.derivative x = 1 := by
  by_cases hx : x < p.interval.1 ∨ p.interval.2 < x
  · exact (rqs_identity_outside h hx).2.2
  · rw [not_or, not_lt, not_lt] at hx
    obtain ⟨k, hb⟩ := in_bounds_bin h hx.1 hx.2
    have hk := hb.1
    have hkd : k + 1 < p.derivatives.length := by rw [h.len_d]; exact hk
    have d0 : nth p.derivatives k = 1 := by
      rw [nth_eq (Nat.lt_of_succ_lt hkd)]; exact hd _ (List.getElem_mem _)
    have d1 : nth p.derivatives (k + 1) = 1 := by
      rw [nth_eq hkd]; exact hd _ (List.getElem_mem _)
    rw [derivative_bin h hb]
    unfold derK
    rw [hy, d0, d1]
    exact binDer_id (h.binOK hk).hx x

theorem binDer_left {xk xk1 yk yk1 dk dk1 : ℝ} (h : BinOK xk xk1 yk yk1 dk dk1) :
    binDer xk xk1 yk yk1 dk dk1 xk = dk := by
  have hy := (sub_pos.mpr h.hy).ne'
  have hw := (sub_pos.mpr h.hx).ne'
  unfold binDer rqD
  dsimp only
  rw [sub_self, zero_div]
  simp only [mul_zero, add_zero, sub_zero, mul_one, zero_add]
  field_simp

theorem binDer_right {xk xk1 yk yk1 dk dk1 : ℝ} (h : BinOK xk xk1 yk yk1 dk dk1) :
    binDer xk xk1 yk yk1 dk dk1 xk1 = dk1 := by
  have hy := (sub_pos.mpr h.hy).ne'
  have hw := (sub_pos.mpr h.hx).ne'
  unfold binDer rqD
  dsimp only
  rw [div_self hw]
  simp only [sub_self, mul_zero, add_zero, mul_one]
  field_simp

/-- at every knot the generated `derivative` reports the knot derivative parameter -/
theorem rqs_derivative_knot (h : RqsWF p) {j : ℕ} (hj : j < p.x_pos.length) :
    p.derivative (nth p.x_pos j) = nth p.derivatives j := by
  have hn := h.two_le
  cases j with
  | zero =>
    have hb : IsBin p.x_pos 0 (nth p.x_pos 0) := ⟨by omega, Or.inr ⟨rfl, rfl⟩⟩
    rw [derivative_bin h hb]; exact binDer_left (h.binOK (by omega))
  | succ k =>
    have hb : IsBin p.x_pos k (nth p.x_pos (k + 1)) :=
      ⟨hj, Or.inl ⟨nth_lt_nth h.x_inc (Nat.lt_succ_self k) hj, le_refl _⟩⟩
    rw [derivative_bin h hb]; exact binDer_right (h.binOK hj)

/-- **C¹ at interior knots**: the two neighbouring bin formulas have the same value `y_j` and the
same slope `d_j` at `x_j`, so `transform` is differentiable there with derivative `d_j` -/
theorem rqs_hasDerivAt_knot (h : RqsWF p) (j : ℕ) (hj0 : 0 < j) (hj : j + 1 < p.x_pos.length) :
    HasDerivAt p.transform (nth p.derivatives j) (nth p.x_pos j) := by
  obtain ⟨k, rfl⟩ := Nat.exists_eq_succ_of_ne_zero hj0.ne'
  have hk : k + 1 < p.x_pos.length := by omega
  have hokL := h.binOK hk
  have hokR := h.binOK hj
  have hTj : p.transform (nth p.x_pos (k + 1)) = nth p.y_pos (k + 1) := rqs_knots_nth h hk
  -- left: bin k, ξ = 1
  have hL : HasDerivWithinAt p.transform (nth p.derivatives (k + 1)) (Iic (nth p.x_pos (k + 1)))
      (nth p.x_pos (k + 1)) := by
    have hd := (binFwd_hasDerivAt hokL ⟨hokL.hx.le, le_refl _⟩).hasDerivWithinAt
      (s := Iic (nth p.x_pos (k + 1)))
    rw [binDer_right hokL] at hd
    refine hd.congr_of_eventuallyEq ?_ ?_
    · filter_upwards [self_mem_nhdsWithin, mem_nhdsWithin_of_mem_nhds (Ioi_mem_nhds hokL.hx)]
        with z hz1 hz2
      exact transform_bin h ⟨hk, Or.inl ⟨hz2, hz1⟩⟩
    · rw [hTj, binFwd_right hokL]
  -- right: bin k+1, ξ = 0
  have hR : HasDerivWithinAt p.transform (nth p.derivatives (k + 1)) (Ici (nth p.x_pos (k + 1)))
      (nth p.x_pos (k + 1)) := by
    have hd := (binFwd_hasDerivAt hokR ⟨le_refl _, hokR.hx.le⟩).hasDerivWithinAt
      (s := Ici (nth p.x_pos (k + 1)))
    rw [binDer_left hokR] at hd
    refine hd.congr_of_eventuallyEq ?_ ?_
    · filter_upwards [self_mem_nhdsWithin, mem_nhdsWithin_of_mem_nhds (Iio_mem_nhds hokR.hx)]
        with z hz1 hz2
      rcases eq_or_lt_of_le (show nth p.x_pos (k + 1) ≤ z from hz1) with e | e
      · rw [← e, hTj, binFwd_left]
      · exact transform_bin h ⟨hj, Or.inl ⟨e, (show z < _ from hz2).le⟩⟩
    · rw [hTj, binFwd_left]
  have := hL.union hR
  rwa [Iic_union_Ici, hasDerivWithinAt_univ] at this

/-- strictly outside the interval `transform` has derivative 1, which is what `derivative` reports -/
theorem rqs_hasDerivAt_outside (h : RqsWF p) {x : ℝ} (hx : x < p.interval.1 ∨ p.interval.2 < x) :
    HasDerivAt p.transform 1 x ∧ p.derivative x = 1 := by
  refine ⟨?_, (rqs_identity_outside h hx).2.2⟩
  refine (hasDerivAt_id' x).congr_of_eventuallyEq ?_
  rcases hx with hx | hx
  · filter_upwards [Iio_mem_nhds hx] with z hz
    exact (rqs_identity_outside h (Or.inl hz)).1
  · filter_upwards [Ioi_mem_nhds hx] with z hz
    exact (rqs_identity_outside h (Or.inr hz)).1

/-- **the generated `derivative` is the derivative of the generated `transform` at every point
strictly inside the interval**, interior knots included -/
theorem rqs_hasDerivAt (h : RqsWF p) (x : ℝ) (hlo : p.interval.1 < x) (hhi : x < p.interval.2) :
    HasDerivAt p.transform (p.derivative x) x := by
  obtain ⟨k, hb⟩ := in_bounds_bin h hlo.le hhi.le
  have hk := hb.1
  rcases hb.2 with ⟨h1, h2⟩ | ⟨_, e⟩
  · rcases eq_or_lt_of_le h2 with e | e
    · -- `x` is the knot `k+1`; it is not the last one because `x < hi`
      have hlast : k + 1 ≠ p.x_pos.length - 1 := by
        intro hc; rw [e, hc, h.xN] at hhi; exact lt_irrefl _ hhi
      have hj : k + 1 + 1 < p.x_pos.length := by omega
      rw [e, rqs_derivative_knot h hk]
      exact rqs_hasDerivAt_knot h (k + 1) (Nat.succ_pos k) hj
    · exact (rqs_hasDerivAt_interior h hk h1 e).1
  · rw [e, h.x0] at hlo; exact absurd hlo (lt_irrefl _)

/-- everywhere except at the two interval ends -/
theorem rqs_hasDerivAt_ne_ends (h : RqsWF p) (x : ℝ) (h1 : x ≠ p.interval.1)
    (h2 : x ≠ p.interval.2) : HasDerivAt p.transform (p.derivative x) x := by
  by_cases hx : x < p.interval.1 ∨ p.interval.2 < x
  · obtain ⟨hd, e⟩ := rqs_hasDerivAt_outside h hx
    rw [e]; exact hd
  · rw [not_or, not_lt, not_lt] at hx
    exact rqs_hasDerivAt h x (lt_of_le_of_ne hx.1 (Ne.symm h1)) (lt_of_le_of_ne hx.2 h2)

end more

/-! ### non-vacuity: a concrete 3-bin spline on `[-2,2]` -/

/-- knots `x = [-2,-1,1/2,2]`, `y = [-2,-1/2,1,2]`, derivatives `[2,3/2,7/10,3]` -/
noncomputable def exampleSpline : RationalQuadraticSpline ℝ where
  interval := (-2, 2)
  x_pos := [-2, -1, 1/2, 2]
  y_pos := [-2, -1/2, 1, 2]
  derivatives := [2, 3/2, 7/10, 3]

theorem rqsWF_instance : RqsWF exampleSpline := by
  refine ⟨?_, ?_, ?_, ?_, ?_, ?_, ?_, ?_, ?_, ?_⟩ <;>
    simp [exampleSpline] <;> norm_num

theorem rqs_lawful_instance : (exampleSpline.toBij : Bij ℝ Unit ℝ).Lawful Set.univ Set.univ :=
  rqs_lawful rqsWF_instance

end Rqs
