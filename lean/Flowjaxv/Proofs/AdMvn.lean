import Flowjaxv.Proofs.AdNet
import Flowjaxv.Proofs.AdDist
import Flowjaxv.Model.AdMvn
/-!
# C18 for `MultivariateNormal` / `TriangularAffine(lower=True)`: every dimension, every real leaf, every point

All leaves and the point are vector parameters holding arbitrary reals, so every expression here is safe whatever the scalar
variables hold (`AdN.VSafe`) as soon as its divisors and the arguments of `log` are non-zero: the only divisors are the diagonal
entries `softplus(raw_i) + 0 > 0` of the unwrapped triangular matrix (forward substitution of `solve_triangular`), and the log-det
takes `log |diag_i|`.
-/
set_option linter.unusedSimpArgs false
set_option linter.unusedVariables false
noncomputable section
open Classical Ad EF AdT AdV AdN GenAst

namespace AdMvnT

/-- evaluates to a strictly positive real whatever the scalars hold -/
def PosV (env : Env EF) (e : Expr EF) : Prop := ∀ env' : Env EF, env'.v = env.v → ∃ r : ℝ, 0 < r ∧ e.eval env' = fin r

theorem getD_range_map {α : Type} (n : Nat) (f : Nat → α) (i : Nat) (d : α) :
    ((List.range n).map f).getD i d = if i < n then f i else d := by
  rw [List.getD_eq_getElem?_getD, List.getElem?_map]
  by_cases h : i < n
  · simp [h, List.getElem?_range h]
  · simp [h, List.getElem?_eq_none (l := List.range n) (by simpa using h)]

theorem entry_ofFn (n : Nat) (f : Nat → Nat → Expr EF) (i j : Nat) :
    Mat.entry (Mat.ofFn n f) i j = if i < n ∧ j < n then f i j else Expr.const (Num.ofInt 0) := by
  unfold Mat.entry Mat.ofFn
  rw [getD_range_map]
  by_cases hi : i < n
  · simp only [hi, if_true, true_and]; rw [getD_range_map]
  · simp [hi]

theorem ofFn_length (n : Nat) (f : Nat → Nat → Expr EF) : (Mat.ofFn n f).length = n := by simp [Mat.ofFn]

theorem vsafe_getAt {env : Env EF} {es : List (Expr EF)} (h : VSafeVec env es) (i : Nat) : VSafe env (Vec.getAt es i) :=
  vsafeVec_getD h i

variable (vs : List (List ℝ))

/-- the softplus-reparameterised diagonal -/
def spDiag (n : Nat) : List (Expr EF) := Vec.mapE (fun e => SoftPlus.transform.ast e) (Vec.ofVec 2 n)

theorem spDiag_vsafe (n : Nat) : VSafeVec (envVecs vs) (spDiag n) := by
  intro e he
  obtain ⟨a, ha, rfl⟩ := List.mem_map.mp he
  exact fun env' hv => ⟨vsafeVec_ofVec vs 2 n a ha env' hv, fun _ _ => trivial⟩

theorem spDiag_length (n : Nat) : (spDiag n).length = n := by simp [spDiag, Vec.mapE, Vec.ofVec]

theorem spDiag_pos (n i : Nat) (hi : i < n) : PosV (envVecs vs) (Vec.getAt (spDiag n) i) := by
  intro env' hv
  have : Vec.getAt (spDiag n) i = SoftPlus.transform.ast (Expr.get 2 (fun _ => Int.ofNat i)) := by
    simp [Vec.getAt, spDiag, Vec.mapE, Vec.ofVec, List.getD_eq_getElem?_getD, hi]
  rw [this]
  obtain ⟨r, hr⟩ := isFin_iff.mp (safe_eval_fin _ _ (vsafe_param vs 2 (fun _ => Int.ofNat i) env' hv))
  refine ⟨Real.log (1 + Real.exp r), Real.log_pos (by linarith [Real.exp_pos r]), ?_⟩
  show Num.softplus (Expr.eval env' (Expr.get 2 fun _ => Int.ofNat i)) = _
  rw [hr]; rfl

/-- every entry of `unwrap(triangular)` is safe … -/
theorem tri_entry_vsafe (n i j : Nat) : VSafe (envVecs vs) (Mat.entry (AdMvn.triangular n) i j) := by
  unfold AdMvn.triangular TriangularAffine.to_triangular.ast Mat.add
  rw [entry_ofFn]
  split
  · intro env' hv
    refine ⟨?_, ?_⟩
    · unfold Mat.diagM; rw [entry_ofFn]; split
      · split
        · exact vsafe_getAt (spDiag_vsafe vs n) i env' hv
        · trivial
      · trivial
    · unfold Mat.tril; rw [entry_ofFn]; split
      · split
        · unfold Mat.ofVec; rw [entry_ofFn]; split
          · exact vsafe_param vs 3 _ env' hv
          · trivial
        · trivial
      · trivial
  · exact vsafe_zero

theorem tri_length (n : Nat) : (AdMvn.triangular (N := EF) n).length = n := by
  unfold AdMvn.triangular TriangularAffine.to_triangular.ast Mat.add
  rw [ofFn_length]; unfold Mat.diagM; rw [ofFn_length]; exact spDiag_length n

/-- … and the diagonal entries are strictly positive: `softplus(raw_i) + 0` -/
theorem tri_diag_pos (n i : Nat) (hi : i < n) : PosV (envVecs vs) (Mat.entry (AdMvn.triangular n) i i) := by
  intro env' hv
  obtain ⟨r, hr, he⟩ := spDiag_pos vs n i hi env' hv
  refine ⟨r, hr, ?_⟩
  have hl : (spDiag (n := n)).length = n := spDiag_length n
  have hlt : ¬ ((Int.ofNat i) ≤ (Int.ofNat i) + (-1)) := by simp
  unfold AdMvn.triangular TriangularAffine.to_triangular.ast Mat.add Mat.diagM Mat.tril
  simp only [entry_ofFn, ofFn_length]
  have e1 : (Vec.mapE (fun e => SoftPlus.transform.ast e) (Vec.ofVec 2 n) : List (Expr EF)) = spDiag n := rfl
  simp only [e1, hl, hi, and_self, if_true, hlt, if_false, Expr.eval, he]
  have : ∀ c : Prop, [Decidable c] → Expr.eval env' (if c then (Expr.const (Num.ofInt 0) : Expr EF) else Expr.const (Num.ofInt 0)) = fin 0 := by
    intro c _; split <;> simp [Expr.eval]
  rw [this]; simp

/-! ### forward substitution -/
theorem solveLowerGo_vsafe {env : Env EF} {m : List (List (Expr EF))} {b : List (Expr EF)} {n : Nat}
    (hm : ∀ i j, VSafe env (Mat.entry m i j)) (hb : VSafeVec env b) (hd : ∀ i, i < n → PosV env (Mat.entry m i i)) :
    ∀ (k : Nat) (acc : List (Expr EF)), acc.length + k = n → VSafeVec env acc → VSafeVec env (Mat.solveLowerGo m b k acc)
  | 0, acc, _, hacc => hacc
  | k + 1, acc, hlen, hacc => by
      simp only [Mat.solveLowerGo]
      refine solveLowerGo_vsafe hm hb hd k _ (by simp; omega) ?_
      intro e he
      rcases List.mem_append.mp he with h | h
      · exact hacc e h
      · simp only [List.mem_singleton] at h; subst h
        intro env' hv
        refine ⟨⟨vsafe_getAt hb _ env' hv, dot_safe (fun a ha => ?_) (hacc.at hv)⟩, hm _ _ env' hv, ?_⟩
        · obtain ⟨j, _, rfl⟩ := List.mem_map.mp ha; exact hm _ _ env' hv
        · obtain ⟨r, hr, he⟩ := hd acc.length (by omega) env' hv
          rw [he]; intro h0; exact hr.ne' (EF.fin.inj h0)

theorem solveLower_vsafe {env : Env EF} {m : List (List (Expr EF))} {b : List (Expr EF)}
    (hm : ∀ i j, VSafe env (Mat.entry m i j)) (hb : VSafeVec env b) (hd : ∀ i, i < m.length → PosV env (Mat.entry m i i)) :
    VSafeVec env (Mat.solveLower m b) :=
  solveLowerGo_vsafe hm hb hd m.length [] (by simp) (fun e he => by simp at he)

/-- `Σ log |diag_i|` is safe: every diagonal entry is non-zero -/
theorem logdet_vsafe {env : Env EF} {m : List (List (Expr EF))}
    (hm : ∀ i j, VSafe env (Mat.entry m i j)) (hd : ∀ i, i < m.length → PosV env (Mat.entry m i i)) :
    VSafe env (Vec.sum (Vec.mapE (fun e_ => Expr.prim Prim.log e_) (Vec.mapE (fun e_ => Expr.prim Prim.abs e_) (Mat.diag m)))) := by
  intro env' hv
  refine sum_safe ?_
  intro e he
  simp only [Vec.mapE, Mat.diag, List.map_map, List.mem_map, Function.comp] at he
  obtain ⟨i, hi, rfl⟩ := he
  have hi' : i < m.length := by simpa using hi
  obtain ⟨r, hr, hev⟩ := hd i hi' env' hv
  refine ⟨⟨hm _ _ env' hv, fun _ _ => trivial⟩, ?_⟩
  intro q hq
  simp only [Expr.eval, applyPrim, hev, EF.num_abs] at hq
  have := EF.fin.inj hq
  show 0 < q; rw [← this]; exact abs_pos.mpr hr.ne'

theorem zip_vsafe {env : Env EF} {op : Expr EF → Expr EF → Expr EF} (hop : ∀ env' a b, Safe env' a → Safe env' b → Safe env' (op a b))
    {as bs : List (Expr EF)} (ha : VSafeVec env as) (hb : VSafeVec env bs) : VSafeVec env (Vec.zip op as bs) :=
  fun e he env' hv => safeVec_zip (hop env') (ha.at hv) (hb.at hv) e he

/-- `TriangularAffine.inverse_and_log_det` and `transform_and_log_det` of the constructed object -/
theorem ild_vsafe (n : Nat) : VSafeVec (envVecs vs) (AdMvn.ild n).1 ∧ VSafe (envVecs vs) (AdMvn.ild n).2 := by
  have hm := tri_entry_vsafe vs n
  have hd : ∀ i, i < (AdMvn.triangular (N := EF) n).length → PosV (envVecs vs) (Mat.entry (AdMvn.triangular n) i i) :=
    fun i hi => tri_diag_pos vs n i (by rwa [tri_length] at hi)
  constructor
  · exact solveLower_vsafe hm (zip_vsafe (op := Expr.sub) (fun _ _ _ h1 h2 => ⟨h1, h2⟩) (vsafeVec_ofVec vs 0 n) (vsafeVec_ofVec vs 1 n)) hd
  · exact fun env' hv => logdet_vsafe hm hd env' hv

theorem tld_vsafe (n : Nat) : VSafeVec (envVecs vs) (AdMvn.tld n).1 ∧ VSafe (envVecs vs) (AdMvn.tld n).2 := by
  have hm := tri_entry_vsafe vs n
  have hd : ∀ i, i < (AdMvn.triangular (N := EF) n).length → PosV (envVecs vs) (Mat.entry (AdMvn.triangular n) i i) :=
    fun i hi => tri_diag_pos vs n i (by rwa [tri_length] at hi)
  refine ⟨zip_vsafe (op := Expr.add) (fun _ _ _ h1 h2 => ⟨h1, h2⟩) ?_ (vsafeVec_ofVec vs 1 n), logdet_vsafe hm hd⟩
  intro e he
  simp only [Mat.mulVec, List.mem_map] at he
  obtain ⟨row, hrow, rfl⟩ := he
  intro env' hv
  refine dot_safe ?_ ((vsafeVec_ofVec vs 0 n).at hv)
  intro a ha
  -- `a` is an entry of the matrix
  obtain ⟨i, hi⟩ := List.getElem_of_mem hrow
  obtain ⟨hi1, hi2⟩ := hi
  obtain ⟨j, hj1, hj2⟩ := List.getElem_of_mem ha
  have : a = Mat.entry (AdMvn.triangular n) i j := by
    unfold Mat.entry
    simp only [List.getD_eq_getElem?_getD, List.getElem?_eq_getElem hi1, Option.getD_some, hi2, List.getElem?_eq_getElem hj1, hj2]
  rw [this]; exact hm i j env' hv

/-- the log-density -/
theorem logProb_safe (n : Nat) : Safe (envVecs vs) (AdMvn.logProb n) := by
  obtain ⟨h1, h2⟩ := ild_vsafe vs n
  refine ⟨sum_safe ?_, h2.safe⟩
  intro e he
  obtain ⟨z, hz, rfl⟩ := List.mem_map.mp he
  have hzS := (h1 z hz).safe
  obtain ⟨r, hr⟩ := isFin_iff.mp (safe_eval_fin _ _ hzS)
  refine ⟨hzS, ?_⟩
  show Safe (Env.set (envVecs vs) 500000 (Expr.eval (envVecs vs) z)) (Jstats.norm.logpdf.ast (Expr.var 500000))
  exact AdD.jnorm_safe (r := r) (Or.inr (by norm_num)) (by rw [hr]; simp [Env.set])

end AdMvnT
end
