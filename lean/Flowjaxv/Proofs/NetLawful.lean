import Mathlib.Topology.Order.MonotoneContinuity
import Flowjaxv.Proofs.Masks
import Flowjaxv.Proofs.BisectionAR
import Flowjaxv.Proofs.BijTheory
import Flowjaxv.Proofs.Leaves
import Flowjaxv.Model.NetInverse
/-!
# C01 for the NETWORK bijections: Coupling, MaskedAutoregressive, BlockAutoregressiveNetwork

Helper lemmas for the section "network bijections" of `Props/C01.lean`.  Everything is about the hand-written
models `Model/Masks.lean` (forward passes, unchanged) and `Model/NetInverse.lean` (inverse passes), at `ℝ`.
-/
set_option linter.unusedSectionVars false
set_option linter.unusedVariables false
open Masks MasksPf

namespace NetLawful

/-! ## Coupling -/

theorem zipWith_cancel (T Tinv : List ℝ → ℝ → ℝ) (S : Set ℝ) (h : ∀ ps, ∀ t ∈ S, Tinv ps (T ps t) = t) :
    ∀ (ps : List (List ℝ)) (xs : List ℝ), xs.length ≤ ps.length → (∀ t ∈ xs, t ∈ S) →
      List.zipWith Tinv ps (List.zipWith T ps xs) = xs := by
  intro ps
  induction ps with
  | nil => intro xs hl _; simpa using hl
  | cons p ps ih =>
    intro xs hl hS
    cases xs with
    | nil => simp
    | cons t xs =>
      simp only [List.zipWith_cons_cons]
      rw [h p t (hS t (by simp)), ih xs (by simpa using hl) (fun t' ht' => hS t' (by simp [ht']))]

theorem coupling_length' (d : Nat) (cnd : List ℝ → List ℝ) (T : List ℝ → ℝ → ℝ) (x cond : List ℝ) :
    (couplingTransform d cnd T x cond).length = x.length := by
  simp only [couplingTransform, List.length_append, List.length_take, List.length_zipWith, reshapeRows_length,
    List.length_drop]
  omega

theorem coupling_drop (d : Nat) (cnd : List ℝ → List ℝ) (T : List ℝ → ℝ → ℝ) (x cond : List ℝ) :
    (couplingTransform d cnd T x cond).drop d =
      List.zipWith T (reshapeRows (x.length - d) (cnd (x.take d ++ cond))) (x.drop d) := by
  simp only [couplingTransform]
  by_cases hd : d ≤ x.length
  · rw [List.drop_append_of_le_length (by simp [hd])]
    have : (List.take d x).length = d := by simp [hd]
    rw [List.drop_of_length_le (by omega)]
    simp
  · have h1 : x.drop d = [] := List.drop_eq_nil_of_le (by omega)
    have h2 : x.take d = x := List.take_of_length_le (by omega)
    rw [h1, h2]
    simp
    omega

/-- `Coupling.inverse` is `Coupling.transform` with the inverse transformer: the SAME code path, hence the same
conditioner input whenever the first block is the same. -/
theorem couplingInverse_eq (d : Nat) (cnd : List ℝ → List ℝ) (Tinv : List ℝ → ℝ → ℝ) (y cond : List ℝ) :
    couplingInverse d cnd Tinv y cond = couplingTransform d cnd Tinv y cond := rfl

/-- the core of `coupling_lawful`: one direction undoes the other on every input whose transformed coordinates lie
in the set `S` on which the scalar maps cancel — EVERY conditioner function, first-block size, dimension, condition -/
theorem coupling_cancel (d : Nat) (cnd : List ℝ → List ℝ) (T Tinv : List ℝ → ℝ → ℝ) (S : Set ℝ)
    (h : ∀ ps, ∀ t ∈ S, Tinv ps (T ps t) = t) (x cond : List ℝ) (hx : ∀ t ∈ x.drop d, t ∈ S) :
    couplingTransform d cnd Tinv (couplingTransform d cnd T x cond) cond = x := by
  have e : couplingTransform d cnd Tinv (couplingTransform d cnd T x cond) cond
      = (couplingTransform d cnd T x cond).take d ++
        List.zipWith Tinv (reshapeRows ((couplingTransform d cnd T x cond).length - d)
          (cnd ((couplingTransform d cnd T x cond).take d ++ cond))) ((couplingTransform d cnd T x cond).drop d) := rfl
  rw [e, coupling_take, coupling_drop, coupling_length']
  rw [zipWith_cancel T Tinv S h _ _ (by simp [reshapeRows_length]) hx]
  exact List.take_append_drop d x

/-! ## `Vmap(...).transform_and_log_det` returns the plain values -/

theorem zipWith_map_fst (tf : List ℝ → Bij ℝ Unit ℝ) (h : ∀ ps t, ((tf ps).fwdLd t ()).1 = (tf ps).fwd t ())
    (P : List (List ℝ)) (x : List ℝ) :
    List.zipWith (fun (b : Bij ℝ Unit ℝ) t => (b.fwdLd t ()).1) (P.map tf) x
      = List.zipWith (fun ps t => (tf ps).fwd t ()) P x := by
  rw [List.zipWith_map_left]
  congr 1
  funext ps t
  exact h ps t

theorem zipWith_map_fst_inv (tf : List ℝ → Bij ℝ Unit ℝ) (h : ∀ ps t, ((tf ps).invLd t ()).1 = (tf ps).inv t ())
    (P : List (List ℝ)) (x : List ℝ) :
    List.zipWith (fun (b : Bij ℝ Unit ℝ) t => (b.invLd t ()).1) (P.map tf) x
      = List.zipWith (fun ps t => (tf ps).inv t ()) P x := by
  rw [List.zipWith_map_left]
  congr 1
  funext ps t
  exact h ps t

theorem mem_zipWith_of {T : List ℝ → ℝ → ℝ} {S S' : Set ℝ} (h : ∀ ps, ∀ t ∈ S, T ps t ∈ S')
    (P : List (List ℝ)) (xs : List ℝ) (hxs : ∀ t ∈ xs, t ∈ S) : ∀ u ∈ List.zipWith T P xs, u ∈ S' := by
  intro u hu
  obtain ⟨i, hi, rfl⟩ := List.getElem_of_mem hu
  simp only [List.getElem_zipWith]
  exact h _ _ (hxs _ (List.getElem_mem _))

/-- **`coupling_lawful`** as a `Bij.Lawful` statement, transformer family with scalar domain `D₁` and codomain `E₁` -/
theorem coupling_lawful (d : Nat) (cnd : List ℝ → List ℝ) (tf : List ℝ → Bij ℝ Unit ℝ) (D₁ E₁ : Set ℝ)
    (htf : ∀ ps, (tf ps).Lawful D₁ E₁) :
    (couplingBij d cnd tf).Lawful {x | ∀ t ∈ x.drop d, t ∈ D₁} {y | ∀ t ∈ y.drop d, t ∈ E₁} := by
  refine ⟨?_, ?_, ?_, ?_, ?_, ?_⟩
  · intro x hx c
    show ∀ t ∈ (couplingTransform d cnd _ x c).drop d, t ∈ E₁
    rw [coupling_drop]
    exact mem_zipWith_of (fun ps t ht => (htf ps).maps t ht ()) _ _ hx
  · intro y hy c
    show ∀ t ∈ (couplingTransform d cnd _ y c).drop d, t ∈ D₁
    rw [coupling_drop]
    exact mem_zipWith_of (fun ps t ht => (htf ps).mapsInv t ht ()) _ _ hy
  · intro x hx c
    exact coupling_cancel d cnd _ _ D₁ (fun ps t ht => (htf ps).left t ht ()) x c hx
  · intro y hy c
    exact coupling_cancel d cnd _ _ E₁ (fun ps t ht => (htf ps).right t ht ()) y c hy
  · intro x c
    simp only [couplingBij, vmapFwdLd, couplingTransform]
    rw [zipWith_map_fst tf (fun ps t => (htf ps).fwdLd_fst t ())]
  · intro y c
    simp only [couplingBij, vmapInvLd, couplingInverse]
    rw [zipWith_map_fst_inv tf (fun ps t => (htf ps).invLd_fst t ())]

/-! ## MaskedAutoregressive: the `dim`-pass inverse -/
section maf
variable (N : MafNet ℝ)

theorem params_length (x cond : List ℝ) : (N.params x cond).length = N.dim := by
  simp [MafNet.params, reshapeRows_length]

theorem getElem?_zipWith' {β γ δ : Type} (f : β → γ → δ) (l : List β) (l' : List γ) (i : Nat) (a : β) (b : γ)
    (ha : l[i]? = some a) (hb : l'[i]? = some b) : (List.zipWith f l l')[i]? = some (f a b) := by
  simp [List.getElem?_zipWith, ha, hb]

/-- one pass of `inv_scan_fn` on an in-range rank: coordinate `k` is replaced by the inverse transformer with the
parameters row `k` computed from the CURRENT vector -/
theorem invStep_spec (Tinv : List ℝ → ℝ → ℝ) (cond acc : List ℝ) (hacc : acc.length = N.dim) (k : Nat)
    (hk : k < N.dim) :
    ∃ ps, (N.params acc cond)[k]? = some ps ∧
      N.invStep Tinv cond acc k = acc.set k (Tinv ps (acc[k]'(by omega))) := by
  have hP : k < (N.params acc cond).length := by rw [params_length]; exact hk
  refine ⟨(N.params acc cond)[k], List.getElem?_eq_getElem hP, ?_⟩
  unfold MafNet.invStep
  rw [getElem?_zipWith' Tinv _ _ k _ _ (List.getElem?_eq_getElem hP) (List.getElem?_eq_getElem (by omega))]

/-- invariant after `k` passes started from `y`: coordinates `≥ k` are still `y`'s, every coordinate `j < k` is the
inverse transformer applied to `y_j` with the parameters row `j` of the CURRENT vector -/
structure MafInv (Tinv : List ℝ → ℝ → ℝ) (cond y : List ℝ) (k : Nat) (acc : List ℝ) : Prop where
  len : acc.length = N.dim
  rest : ∀ j, k ≤ j → acc[j]? = y[j]?
  done : ∀ j, j < k → ∃ ps, (N.params acc cond)[j]? = some ps ∧ acc[j]? = (y[j]?).map (Tinv ps)

theorem mafInv_step (hN : N.WellShaped) (Tinv : List ℝ → ℝ → ℝ) (cond y acc : List ℝ) (k : Nat) (hk : k < N.dim)
    (h : MafInv N Tinv cond y k acc) : MafInv N Tinv cond y (k + 1) (N.invStep Tinv cond acc k) := by
  obtain ⟨ps, hps, hstep⟩ := invStep_spec N Tinv cond acc h.len k hk
  rw [hstep]
  have hk' : k < acc.length := by rw [h.len]; exact hk
  have hlen' : (acc.set k (Tinv ps acc[k])).length = N.dim := by simp [h.len]
  -- rows `j ≤ k` of the parameters do not change: they only read coordinates `< j ≤ k`
  have hrow : ∀ j, j ≤ k → (N.params (acc.set k (Tinv ps acc[k])) cond)[j]? = (N.params acc cond)[j]? := by
    intro j hj
    apply maf_params_dep N hN _ _ cond hlen' h.len j (by omega)
    intro i hi hi' hij
    rw [List.getElem_set_ne (by omega)]
  refine ⟨hlen', ?_, ?_⟩
  · intro j hj
    rw [List.getElem?_set_ne (by omega)]
    exact h.rest j (by omega)
  · intro j hj
    rcases Nat.lt_succ_iff_lt_or_eq.mp hj with hlt | rfl
    · obtain ⟨ps', hps', hv⟩ := h.done j hlt
      refine ⟨ps', by rw [hrow j (by omega)]; exact hps', ?_⟩
      rw [List.getElem?_set_ne (by omega)]
      exact hv
    · refine ⟨ps, by rw [hrow j (le_refl _)]; exact hps, ?_⟩
      have hy : y[j]? = some acc[j] := by
        rw [← h.rest j (le_refl _)]; exact List.getElem?_eq_getElem hk'
      rw [hy]
      simp [hk']

theorem mafInv_fold (hN : N.WellShaped) (Tinv : List ℝ → ℝ → ℝ) (cond y : List ℝ) (hy : y.length = N.dim) :
    ∀ k, k ≤ N.dim → MafInv N Tinv cond y k ((List.range k).foldl (N.invStep Tinv cond) y) := by
  intro k
  induction k with
  | zero => intro _; exact ⟨hy, fun _ _ => rfl, fun j hj => absurd hj (by omega)⟩
  | succ k ih =>
    intro hk
    rw [List.range_succ, List.foldl_append]
    exact mafInv_step N hN Tinv cond y _ k (by omega) (ih (by omega))

/-- after the `dim` passes of `MaskedAutoregressive.inverse`: every coordinate `j` of the result `x` is
`Tinv ps_j y_j` with `ps_j` = row `j` of the parameters computed FROM `x` -/
theorem maf_inverse_spec (hN : N.WellShaped) (Tinv : List ℝ → ℝ → ℝ) (cond y : List ℝ) (hy : y.length = N.dim) :
    (N.inverse Tinv y cond).length = N.dim ∧
    ∀ j (hj : j < N.dim), ∃ ps, (N.params (N.inverse Tinv y cond) cond)[j]? = some ps ∧
      (N.inverse Tinv y cond)[j]? = some (Tinv ps (y[j]'(by omega))) := by
  have h := mafInv_fold N hN Tinv cond y hy N.dim (le_refl _)
  have e : N.inverse Tinv y cond = (List.range N.dim).foldl (N.invStep Tinv cond) y := by
    unfold MafNet.inverse; rw [hy]
  rw [e]
  refine ⟨h.len, fun j hj => ?_⟩
  obtain ⟨ps, hps, hv⟩ := h.done j hj
  refine ⟨ps, hps, ?_⟩
  rw [hv, List.getElem?_eq_getElem (by omega)]
  rfl

theorem transform_length (T : List ℝ → ℝ → ℝ) (x cond : List ℝ) (hx : x.length = N.dim) :
    (N.transform T x cond).length = N.dim := by
  simp [MafNet.transform, params_length, hx]

/-- `transform (inverse y) = y` wherever `T ps (Tinv ps t) = t` on the coordinates of `y` -/
theorem maf_right (hN : N.WellShaped) (T Tinv : List ℝ → ℝ → ℝ) (S : Set ℝ)
    (h : ∀ ps, ∀ t ∈ S, T ps (Tinv ps t) = t) (cond y : List ℝ) (hy : y.length = N.dim) (hS : ∀ t ∈ y, t ∈ S) :
    N.transform T (N.inverse Tinv y cond) cond = y := by
  obtain ⟨hlen, hspec⟩ := maf_inverse_spec N hN Tinv cond y hy
  apply List.ext_getElem?
  intro j
  by_cases hj : j < N.dim
  · obtain ⟨ps, hps, hv⟩ := hspec j hj
    unfold MafNet.transform
    rw [getElem?_zipWith' T _ _ j _ _ hps hv, h ps _ (hS _ (List.getElem_mem _)),
      List.getElem?_eq_getElem (by omega)]
  · rw [List.getElem?_eq_none (by rw [transform_length N T _ cond hlen]; omega),
      List.getElem?_eq_none (by omega)]

/-- `inverse (transform x) = x` wherever `Tinv ps (T ps t) = t` on the coordinates of `x`: by induction on the
coordinate, the parameters row `j` recomputed from the partially inverted vector are the forward pass's -/
theorem maf_left (hN : N.WellShaped) (T Tinv : List ℝ → ℝ → ℝ) (S : Set ℝ)
    (h : ∀ ps, ∀ t ∈ S, Tinv ps (T ps t) = t) (cond x : List ℝ) (hx : x.length = N.dim) (hS : ∀ t ∈ x, t ∈ S) :
    N.inverse Tinv (N.transform T x cond) cond = x := by
  have hy := transform_length N T x cond hx
  obtain ⟨hlen, hspec⟩ := maf_inverse_spec N hN Tinv cond _ hy
  set z := N.inverse Tinv (N.transform T x cond) cond with hz
  have key : ∀ j, j < N.dim → ∀ (h1 : j < z.length) (h2 : j < x.length), z[j] = x[j] := by
    intro j
    induction j using Nat.strong_induction_on with
    | _ j ih =>
      intro hj h1 h2
      obtain ⟨ps, hps, hv⟩ := hspec j hj
      have hrow : (N.params z cond)[j]? = (N.params x cond)[j]? :=
        maf_params_dep N hN z x cond hlen hx j hj (fun i hi hi' hij => ih i hij (by omega) hi hi')
      have hyj : (N.transform T x cond)[j]? = some (T ps x[j]) := by
        unfold MafNet.transform
        exact getElem?_zipWith' T _ _ j _ _ (hrow ▸ hps) (List.getElem?_eq_getElem h2)
      have hyj' : (N.transform T x cond)[j]'(by omega) = T ps x[j] := by
        rw [List.getElem?_eq_getElem (by omega)] at hyj; exact Option.some.inj hyj
      rw [List.getElem?_eq_getElem h1, hyj', h ps _ (hS _ (List.getElem_mem _))] at hv
      exact Option.some.inj hv
  apply List.ext_getElem (by omega)
  intro j h1 h2
  exact key j (by omega) h1 h2

/-- **after pass `k` the coordinates `0 … k-1` are the true preimage's** (and the others are still `y`'s): the
induction the sequential inverse rests on, for `y = transform x` -/
theorem maf_passes_prefix (hN : N.WellShaped) (T Tinv : List ℝ → ℝ → ℝ) (S : Set ℝ)
    (h : ∀ ps, ∀ t ∈ S, Tinv ps (T ps t) = t) (cond x : List ℝ) (hx : x.length = N.dim) (hS : ∀ t ∈ x, t ∈ S)
    (k : Nat) (hk : k ≤ N.dim) :
    (∀ j, j < k → ((List.range k).foldl (N.invStep Tinv cond) (N.transform T x cond))[j]? = x[j]?) ∧
    (∀ j, k ≤ j → ((List.range k).foldl (N.invStep Tinv cond) (N.transform T x cond))[j]?
      = (N.transform T x cond)[j]?) := by
  have hy := transform_length N T x cond hx
  have hinv := mafInv_fold N hN Tinv cond _ hy k hk
  set z := (List.range k).foldl (N.invStep Tinv cond) (N.transform T x cond) with hz
  refine ⟨?_, hinv.rest⟩
  intro j
  induction j using Nat.strong_induction_on with
  | _ j ih =>
    intro hj
    obtain ⟨ps, hps, hv⟩ := hinv.done j hj
    have hjd : j < N.dim := by omega
    have hrow : (N.params z cond)[j]? = (N.params x cond)[j]? :=
      maf_params_dep N hN z x cond hinv.len hx j hjd (fun i hi hi' hij => by
        have := ih i hij (by omega)
        rw [List.getElem?_eq_getElem hi, List.getElem?_eq_getElem hi'] at this
        exact Option.some.inj this)
    have hyj : (N.transform T x cond)[j]? = some (T ps (x[j]'(by omega))) := by
      unfold MafNet.transform
      exact getElem?_zipWith' T _ _ j _ _ (hrow ▸ hps) (List.getElem?_eq_getElem (by omega))
    rw [hv, hyj, List.getElem?_eq_getElem (by omega)]
    simp only [Option.map_some]
    rw [h ps _ (hS _ (List.getElem_mem _))]

/-- **`maf_inverse_correct`** as a `Bij.Lawful` statement -/
theorem maf_lawful (hN : N.WellShaped) (tf : List ℝ → Bij ℝ Unit ℝ) (D₁ E₁ : Set ℝ)
    (htf : ∀ ps, (tf ps).Lawful D₁ E₁) :
    (mafBij N tf).Lawful {x | x.length = N.dim ∧ ∀ t ∈ x, t ∈ D₁} {y | y.length = N.dim ∧ ∀ t ∈ y, t ∈ E₁} := by
  refine ⟨?_, ?_, ?_, ?_, ?_, ?_⟩
  · intro x hx c
    exact ⟨transform_length N _ x c hx.1, mem_zipWith_of (fun ps t ht => (htf ps).maps t ht ()) _ _ hx.2⟩
  · intro y hy c
    obtain ⟨hlen, hspec⟩ := maf_inverse_spec N hN (fun ps t => (tf ps).inv t ()) c y hy.1
    refine ⟨hlen, ?_⟩
    intro t ht
    obtain ⟨j, hj, rfl⟩ := List.getElem_of_mem ht
    obtain ⟨ps, _, hv⟩ := hspec j (Nat.lt_of_lt_of_eq hj hlen)
    have hj' : j < (N.inverse (fun ps t => (tf ps).inv t ()) y c).length := hj
    rw [List.getElem?_eq_getElem hj'] at hv
    have := Option.some.inj hv
    show (N.inverse (fun ps t => (tf ps).inv t ()) y c)[j] ∈ D₁
    rw [this]
    exact (htf ps).mapsInv _ (hy.2 _ (List.getElem_mem _)) ()
  · intro x hx c
    exact maf_left N hN _ _ D₁ (fun ps t ht => (htf ps).left t ht ()) c x hx.1 hx.2
  · intro y hy c
    exact maf_right N hN _ _ E₁ (fun ps t ht => (htf ps).right t ht ()) c y hy.1 hy.2
  · intro x c
    simp only [mafBij, vmapFwdLd, MafNet.transform]
    rw [zipWith_map_fst tf (fun ps t => (htf ps).fwdLd_fst t ())]
  · intro y c
    rfl

end maf

/-! ## BlockAutoregressiveNetwork: the bisection inverter applies (C10 instantiated) -/
section bnaf
open Bisection Model

theorem bnafForward_length {bin bout : Nat} {Ls : List (BnafLayer ℝ)} (h : BnafChain bin Ls bout) (act : ℝ → ℝ)
    (n : Nat) :
    (∀ L ∈ Ls, BnafWellShaped L ∧ L.n = n) →
    ∀ (first : Bool) (condTerm : Option (List ℝ)) (v : List ℝ),
      (bnafForward act first condTerm Ls v).length = bout * n := by
  induction h with
  | last L =>
    intro hall first ct v
    simp only [bnafForward]
    rw [bnafApply_length L (hall L (by simp)).1, (hall L (by simp)).2]
  | cons L rest bout hrest ih =>
    intro hall first ct v
    obtain ⟨L', Ls', rfl⟩ := List.exists_cons_of_ne_nil hrest.ne_nil
    simp only [bnafForward]
    exact ih (fun M hM => hall M (List.mem_cons_of_mem _ hM)) _ _ _

/-- the output of `BlockAutoregressiveNetwork.transform` has length `dim` — for ANY input length -/
theorem bnafTransform_length (act : ℝ → ℝ) (dim depth bd : Nat) (Ls : List (BnafLayer ℝ))
    (hshapes : Ls.map (fun L => (L.b0, L.b1)) = bnafBlockShapes depth bd)
    (hws : ∀ L ∈ Ls, BnafWellShaped L ∧ L.n = dim) (condLinear : Option (List (List ℝ))) (cond x : List ℝ) :
    (bnafTransform act Ls condLinear x cond).length = dim := by
  have := bnafForward_length (bnafChain_of_shapes depth bd Ls hshapes) act dim hws true
    (condLinear.map fun C => C.map fun row => Jnp.dot row cond) x
  simpa [bnafTransform] using this

theorem getD_eq_nth (l : List ℝ) (i : Nat) : l.getD i 0 = nth l i := by
  simp [nth, List.getD_eq_getElem?_getD]

theorem nth_zipWith_sub (a y : List ℝ) (i : Nat) (ha : i < a.length) (hy : i < y.length) :
    nth (List.zipWith (· - ·) a y) i = nth a i - nth y i := by
  rw [nth_of_lt (by simp; omega), nth_of_lt ha, nth_of_lt hy]
  simp

/-- hypotheses shared by the BNAF theorems: the layer stack `BlockAutoregressiveNetwork.__init__` builds
(block shapes of `bnafBlockShapes depth bd`, `bd ≥ 1`, every layer with the shapes `block_autoregressive_linear`
allocates and `n_blocks = dim`, `cond_linear` with `layer0.out_features` rows) -/
structure BnafOK (dim depth bd : Nat) (Ls : List (BnafLayer ℝ)) (condLinear : Option (List (List ℝ))) : Prop where
  hbd : 0 < bd
  hshapes : Ls.map (fun L => (L.b0, L.b1)) = bnafBlockShapes depth bd
  hws : ∀ L ∈ Ls, BnafWellShaped L ∧ L.n = dim
  hcl : ∀ C ∈ condLinear, ∀ L ∈ Ls.head?, C.length = L.b0 * dim

/-- **the BNAF forward map is `Bisection.Triangular`**: strictly increasing activation, all raw weights / biases /
raw scales, every depth, block_dim, condition, target `y` — so the function the inverter scans over,
`x ↦ transform(x, condition) - y`, satisfies the hypotheses of C10's autoregressive theorems. -/
theorem bnaf_triangular (act : ℝ → ℝ) (hact : StrictMono act) {dim depth bd : Nat} {Ls : List (BnafLayer ℝ)}
    {condLinear : Option (List (List ℝ))} (hok : BnafOK dim depth bd Ls condLinear) (cond y : List ℝ)
    (hy : y.length = dim) : Triangular (bnafInvFn act Ls condLinear cond y) dim where
  length_eq := by
    intro x _
    simp [bnafInvFn, bnafTransform_length act dim depth bd Ls hok.hshapes hok.hws, hy]
  dep := by
    intro x x' i hx hx' hi hj
    have hlenT := bnafTransform_length act dim depth bd Ls hok.hshapes hok.hws condLinear cond
    rw [getD_eq_nth, getD_eq_nth]
    unfold bnafInvFn
    rw [nth_zipWith_sub _ _ i (by rw [hlenT]; exact hi) (by omega),
      nth_zipWith_sub _ _ i (by rw [hlenT]; exact hi) (by omega)]
    congr 1
    have := bnaf_dep act depth bd Ls hok.hshapes condLinear cond x x' (by omega) i (by
      intro j h1 h2 hji
      have := hj j hji
      rwa [getD_eq_nth, getD_eq_nth, nth_of_lt h1, nth_of_lt h2] at this)
    simp only [nth, this]
  mono := by
    intro x i hx hi t t' htt
    have hlenT := bnafTransform_length act dim depth bd Ls hok.hshapes hok.hws condLinear cond
    simp only [getD_eq_nth]
    unfold bnafInvFn
    rw [nth_zipWith_sub _ _ i (by rw [hlenT]; exact hi) (by omega),
      nth_zipWith_sub _ _ i (by rw [hlenT]; exact hi) (by omega)]
    have := bnaf_strictMono act hact dim depth bd hok.hbd Ls hok.hshapes hok.hws condLinear cond hok.hcl x hx i hi
      t t' htt
    linarith

/-- a preimage is a root of the inverter's function in every coordinate -/
theorem bnaf_root (act : ℝ → ℝ) {dim depth bd : Nat} {Ls : List (BnafLayer ℝ)}
    {condLinear : Option (List (List ℝ))} (hok : BnafOK dim depth bd Ls condLinear) (cond xs : List ℝ) :
    ∀ i, i < dim → (bnafInvFn act Ls condLinear cond (bnafTransform act Ls condLinear xs cond) xs).getD i 0 = 0 := by
  intro i hi
  have hlenT := bnafTransform_length act dim depth bd Ls hok.hshapes hok.hws condLinear cond
  rw [getD_eq_nth]
  unfold bnafInvFn
  rw [nth_zipWith_sub _ _ i (by rw [hlenT]; exact hi) (by rw [hlenT]; exact hi)]
  ring

/-- the forward map is injective on vectors of length `dim` -/
theorem bnaf_injective (act : ℝ → ℝ) (hact : StrictMono act) {dim depth bd : Nat} {Ls : List (BnafLayer ℝ)}
    {condLinear : Option (List (List ℝ))} (hok : BnafOK dim depth bd Ls condLinear) (cond x x' : List ℝ)
    (hx : x.length = dim) (hx' : x'.length = dim)
    (h : bnafTransform act Ls condLinear x cond = bnafTransform act Ls condLinear x' cond) : x = x' := by
  classical
  have hlenT := bnafTransform_length act dim depth bd Ls hok.hshapes hok.hws condLinear cond
  have ht := bnaf_triangular act hact hok cond (bnafTransform act Ls condLinear x cond) (hlenT x)
  let solve : (ℝ → ℝ) → Option ℝ := fun g => if h : ∃ r, g r = 0 then some (Classical.choose h) else none
  have hsolve : ∀ (g : ℝ → ℝ) (r : ℝ), StrictMono g → g r = 0 → solve g = some r := by
    intro g r hg hr
    have h : ∃ r, g r = 0 := ⟨r, hr⟩
    simp only [solve, dif_pos h]
    have := Classical.choose_spec h
    rw [hg.injective (this.trans hr.symm)]
  have h1 := scan_exact ht x hx (bnaf_root act hok cond x) solve hsolve dim 0 x (by omega) hx
    (fun j hj => absurd hj (by omega))
  have h2 := scan_exact ht x' hx' (by rw [h]; exact bnaf_root act hok cond x') solve hsolve dim 0 x (by omega) hx
    (fun j hj => absurd hj (by omega))
  rw [h1] at h2
  exact Option.some.inj h2

/-- if every own-coordinate slice `t ↦ transform(x.at[i].set(t))[i]` is onto ℝ, every `y` of length `dim` has a
preimage (constructed coordinate by coordinate) -/
theorem bnaf_surjective_of_slices (act : ℝ → ℝ) {dim depth bd : Nat} {Ls : List (BnafLayer ℝ)}
    {condLinear : Option (List (List ℝ))} (hok : BnafOK dim depth bd Ls condLinear) (cond : List ℝ)
    (hsurj : ∀ (x : List ℝ) (i : Nat), x.length = dim → i < dim →
      Function.Surjective fun t => nth (bnafTransform act Ls condLinear (x.set i t) cond) i)
    (y : List ℝ) (hy : y.length = dim) :
    ∃ xs, xs.length = dim ∧ bnafTransform act Ls condLinear xs cond = y := by
  have hlenT := bnafTransform_length act dim depth bd Ls hok.hshapes hok.hws condLinear cond
  have key : ∀ k, k ≤ dim → ∃ x : List ℝ, x.length = dim ∧
      ∀ j, j < k → nth (bnafTransform act Ls condLinear x cond) j = nth y j := by
    intro k
    induction k with
    | zero => intro _; exact ⟨List.replicate dim 0, by simp, fun j hj => absurd hj (by omega)⟩
    | succ k ih =>
      intro hk
      obtain ⟨x, hx, hpre⟩ := ih (by omega)
      obtain ⟨t, ht⟩ := hsurj x k hx (by omega) (nth y k)
      refine ⟨x.set k t, by simp [hx], ?_⟩
      intro j hj
      rcases Nat.lt_succ_iff_lt_or_eq.mp hj with hlt | rfl
      · rw [← hpre j hlt]
        have := bnaf_dep act depth bd Ls hok.hshapes condLinear cond (x.set k t) x (by simp) j (by
          intro i h1 h2 hij
          rw [List.getElem_set_ne (by omega)])
        simp only [nth, this]
      · exact ht
  obtain ⟨x, hx, hall⟩ := key dim (le_refl _)
  refine ⟨x, hx, ?_⟩
  apply List.ext_getElem (by rw [hlenT, hy])
  intro j h1 h2
  have := hall j (by rw [hlenT] at h1; exact h1)
  rwa [nth_of_lt h1, nth_of_lt h2] at this

/-- subtracting the target `y` does not change slopes, continuity or Lipschitz constants: a `LipTriangular`
forward map gives a `LipTriangular` inverter function -/
theorem lipTriangular_sub {F : List ℝ → List ℝ} {n : ℕ} {m L : ℝ} (h : LipTriangular F n m L) (y : List ℝ)
    (hy : y.length = n) : LipTriangular (fun x => List.zipWith (· - ·) (F x) y) n m L where
  m_pos := h.m_pos
  L_nonneg := h.L_nonneg
  length_eq := by intro x hx; simp [h.length_eq x hx, hy]
  slope := by
    intro x i hx hi s t hst
    have := h.slope x i hx hi s t hst
    simp only [getD_eq_nth] at this ⊢
    rw [nth_zipWith_sub _ _ i (by rw [h.length_eq _ (by simp [hx])]; exact hi) (by omega),
      nth_zipWith_sub _ _ i (by rw [h.length_eq _ (by simp [hx])]; exact hi) (by omega)]
    linarith
  cont := by
    intro x i hx hi
    have := h.cont x i hx hi
    have e : (fun t => (List.zipWith (· - ·) (F (x.set i t)) y).getD i 0)
        = fun t => (F (x.set i t)).getD i 0 - nth y i := by
      funext t
      rw [getD_eq_nth, getD_eq_nth,
        nth_zipWith_sub _ _ i (by rw [h.length_eq _ (by simp [hx])]; exact hi) (by omega)]
    rw [e]
    exact this.sub continuous_const
  lip := by
    intro x x' i hx hx' hi he
    have := h.lip x x' i hx hx' hi he
    simp only [getD_eq_nth] at this ⊢
    rw [nth_zipWith_sub _ _ i (by rw [h.length_eq _ hx]; exact hi) (by omega),
      nth_zipWith_sub _ _ i (by rw [h.length_eq _ hx']; exact hi) (by omega)]
    have e : nth (F x) i - nth y i - (nth (F x') i - nth y i) = nth (F x) i - nth (F x') i := by ring
    rw [e]; exact this

end bnaf

/-! ## BlockAutoregressiveNetwork: a surjective activation makes every own-coordinate slice onto ℝ -/
section bnafSurj
open Filter

/-- a finite sum of functions each of which is constant or tends to `+∞`, at least one of the latter -/
theorem tendsto_sum_atTop_aux {ι α : Type} (l : Filter α) (f : ι → α → ℝ) (P : ι → Prop) (s : Finset ι) :
    (∀ c ∈ s, P c → Tendsto (f c) l atTop) → (∀ c ∈ s, ¬ P c → ∃ K, ∀ t, f c t = K) →
    ((∃ c ∈ s, P c) → Tendsto (fun t => ∑ c ∈ s, f c t) l atTop) ∧
    ((¬ ∃ c ∈ s, P c) → ∃ K, ∀ t, ∑ c ∈ s, f c t = K) := by
  classical
  induction s using Finset.induction_on with
  | empty => intro _ _; exact ⟨fun ⟨c, hc, _⟩ => absurd hc (by simp), fun _ => ⟨0, fun t => by simp⟩⟩
  | insert a s ha ih =>
    intro hP hc
    obtain ⟨ih1, ih2⟩ := ih (fun c hcs => hP c (Finset.mem_insert_of_mem hcs))
      (fun c hcs => hc c (Finset.mem_insert_of_mem hcs))
    have hsum : ∀ t, ∑ c ∈ insert a s, f c t = f a t + ∑ c ∈ s, f c t := fun t => Finset.sum_insert ha
    by_cases hPa : P a
    · have hfa := hP a (Finset.mem_insert_self a s) hPa
      refine ⟨fun _ => ?_, fun hno => absurd ⟨a, Finset.mem_insert_self a s, hPa⟩ hno⟩
      simp only [hsum]
      by_cases hex : ∃ c ∈ s, P c
      · exact hfa.atTop_add_atTop (ih1 hex)
      · obtain ⟨K, hK⟩ := ih2 hex
        simp only [hK]
        exact tendsto_atTop_add_const_right l K hfa
    · obtain ⟨Ka, hKa⟩ := hc a (Finset.mem_insert_self a s) hPa
      constructor
      · rintro ⟨c, hcs, hPc⟩
        have hex : ∃ c ∈ s, P c := by
          rcases Finset.mem_insert.mp hcs with rfl | h
          · exact absurd hPc hPa
          · exact ⟨c, h, hPc⟩
        simp only [hsum, hKa]
        exact tendsto_atTop_add_const_left l Ka (ih1 hex)
      · intro hno
        have hno' : ¬ ∃ c ∈ s, P c := fun ⟨c, h, hPc⟩ => hno ⟨c, Finset.mem_insert_of_mem h, hPc⟩
        obtain ⟨K, hK⟩ := ih2 hno'
        exact ⟨Ka + K, fun t => by rw [hsum, hKa, hK]⟩

theorem tendsto_sum_atTop {ι α : Type} (l : Filter α) (f : ι → α → ℝ) (P : ι → Prop) (s : Finset ι)
    (hP : ∀ c ∈ s, P c → Tendsto (f c) l atTop) (hc : ∀ c ∈ s, ¬ P c → ∃ K, ∀ t, f c t = K)
    (hex : ∃ c ∈ s, P c) : Tendsto (fun t => ∑ c ∈ s, f c t) l atTop :=
  (tendsto_sum_atTop_aux l f P s hP hc).1 hex

theorem tendsto_sum_atBot {ι α : Type} (l : Filter α) (f : ι → α → ℝ) (P : ι → Prop) (s : Finset ι)
    (hP : ∀ c ∈ s, P c → Tendsto (f c) l atBot) (hc : ∀ c ∈ s, ¬ P c → ∃ K, ∀ t, f c t = K)
    (hex : ∃ c ∈ s, P c) : Tendsto (fun t => ∑ c ∈ s, f c t) l atBot := by
  have := tendsto_sum_atTop l (fun c t => -f c t) P s
    (fun c hcs hPc => tendsto_neg_atTop_iff.mpr (hP c hcs hPc))
    (fun c hcs hPc => by obtain ⟨K, hK⟩ := hc c hcs hPc; exact ⟨-K, fun t => by rw [hK]⟩) hex
  simp only [Finset.sum_neg_distrib] at this
  exact tendsto_neg_atTop_iff.mp this

/-- continuous and unbounded in both directions (hence onto ℝ) -/
def Onto (g : ℝ → ℝ) : Prop := Continuous g ∧ Tendsto g atTop atTop ∧ Tendsto g atBot atBot

/-- invariant of a curve `t ↦ v t` through the layers: units in blocks `< i` do not move, every unit of block `i`
is a continuous function of `t` unbounded in both directions -/
structure SurjInv (bq i m : Nat) (v : ℝ → List ℝ) : Prop where
  len : ∀ t, (v t).length = m
  const : ∀ c, c < m → c / bq < i → ∀ t, nth (v t) c = nth (v 0) c
  onto : ∀ c, c < m → c / bq = i → Onto (fun t => nth (v t) c)

theorem surjInv_layer (L : BnafLayer ℝ) (hL : BnafWellShaped L) (hb1 : 0 < L.b1) (i : Nat) (hi : i < L.n)
    (v : ℝ → List ℝ) (hv : SurjInv L.b1 i (L.b1 * L.n) v) :
    SurjInv L.b0 i (L.b0 * L.n) (fun t => L.apply (v t)) := by
  have hsh := unwrapW_shape L hL
  refine ⟨fun t => bnafApply_length L hL _, ?_, ?_⟩
  · intro u hu hblk t
    have hA : AgreeOn (fun c => c / L.b1 ≤ u / L.b0) (v t) (v 0) := by
      refine ⟨by rw [hv.len, hv.len], ?_⟩
      intro c h h' hc
      have hcm : c < L.b1 * L.n := by rw [hv.len] at h; exact h
      have := hv.const c hcm (by omega) t
      rwa [nth_of_lt h, nth_of_lt h'] at this
    have := (linearApply_agree (sees_bnaf L (u / L.b0)) L.bias hA)
    have h2 := this.2 u (by rw [← BnafLayer.apply, bnafApply_length L hL]; exact hu)
      (by rw [← BnafLayer.apply, bnafApply_length L hL]; exact hu) (le_refl _)
    rw [nth_of_lt (by rw [bnafApply_length L hL]; exact hu), nth_of_lt (by rw [bnafApply_length L hL]; exact hu)]
    exact h2
  · intro u hu hblk
    have huW : u < L.unwrapW.length := by rw [hsh.1]; exact hu
    have hub : u < L.bias.length := by rw [hL.2.1]; exact hu
    have hrow : L.unwrapW[u].length = L.b1 * L.n := hsh.2 _ (List.getElem_mem huW)
    have hfun : (fun t => nth (L.apply (v t)) u) =
        fun t => (∑ c ∈ Finset.range (L.b1 * L.n), nth L.unwrapW[u] c * nth (v t) c) + L.bias[u] := by
      funext t
      rw [BnafLayer.apply, nth_linearApply _ _ _ u huW hub, hrow]
    -- classification of the terms
    have hconst : ∀ c ∈ Finset.range (L.b1 * L.n), ¬ c / L.b1 = i →
        ∃ K, ∀ t, nth L.unwrapW[u] c * nth (v t) c = K := by
      intro c hc hne
      have hcm : c < L.b1 * L.n := Finset.mem_range.mp hc
      have hcW : c < L.unwrapW[u].length := by rw [hrow]; exact hcm
      rcases lt_or_gt_of_ne hne with hlt | hgt
      · exact ⟨nth L.unwrapW[u] c * nth (v 0) c, fun t => by rw [hv.const c hcm hlt t]⟩
      · have hz : nth L.unwrapW[u] c = 0 := by
          rw [nth_of_lt hcW]
          apply (unwrapW_entry L u c huW hcW).1
          have hnot : ¬ entry (blockTrilMask L.b0 L.b1 L.n 0) u c = true := by
            rw [entry_blockTrilMask L.b0 L.b1 L.n 0 u c hu hcm]
            have : u / L.b0 < c / L.b1 := by omega
            simp only [sub_zero, not_le]; exact_mod_cast this
          simpa using hnot
        exact ⟨0, fun t => by rw [hz, zero_mul]⟩
    have hwpos : ∀ c ∈ Finset.range (L.b1 * L.n), c / L.b1 = i → 0 < nth L.unwrapW[u] c := by
      intro c hc heq
      have hcm : c < L.b1 * L.n := Finset.mem_range.mp hc
      have hcW : c < L.unwrapW[u].length := by rw [hrow]; exact hcm
      have hdiag : entry (blockDiagMask L.b0 L.b1 L.n) u c = true := by
        rw [entry_blockDiagMask L.b0 L.b1 L.n u c hu hcm]; simp [hblk, heq]
      rw [nth_of_lt hcW]
      exact (unwrapW_entry L u c huW hcW).2 hdiag
    have hex : ∃ c ∈ Finset.range (L.b1 * L.n), c / L.b1 = i := by
      have hc0 : i * L.b1 < L.b1 * L.n := by
        calc i * L.b1 < (i + 1) * L.b1 := by nlinarith
          _ ≤ L.n * L.b1 := Nat.mul_le_mul_right _ hi
          _ = L.b1 * L.n := Nat.mul_comm _ _
      exact ⟨i * L.b1, Finset.mem_range.mpr hc0, Nat.mul_div_cancel _ hb1⟩
    rw [hfun]
    refine ⟨?_, ?_, ?_⟩
    · refine (continuous_finsetSum _ fun c hc => ?_).add continuous_const
      by_cases heq : c / L.b1 = i
      · exact continuous_const.mul (hv.onto c (Finset.mem_range.mp hc) heq).1
      · obtain ⟨K, hK⟩ := hconst c hc heq
        simp only [hK]; exact continuous_const
    · apply tendsto_atTop_add_const_right
      exact tendsto_sum_atTop atTop _ (fun c => c / L.b1 = i) _
        (fun c hc heq => (hv.onto c (Finset.mem_range.mp hc) heq).2.1.const_mul_atTop (hwpos c hc heq)) hconst hex
    · apply tendsto_atBot_add_const_right
      exact tendsto_sum_atBot atBot _ (fun c => c / L.b1 = i) _
        (fun c hc heq => (hv.onto c (Finset.mem_range.mp hc) heq).2.2.const_mul_atBot (hwpos c hc heq)) hconst hex

theorem onto_comp (act : ℝ → ℝ) (hact : StrictMono act) (hsurj : Function.Surjective act) {g : ℝ → ℝ}
    (hg : Onto g) : Onto (fun t => act (g t)) := by
  have hc : Continuous act := hact.monotone.continuous_of_surjective hsurj
  have h1 : Tendsto act atTop atTop :=
    tendsto_atTop_atTop_of_monotone hact.monotone (fun b => by obtain ⟨a, ha⟩ := hsurj b; exact ⟨a, ha.ge⟩)
  have h2 : Tendsto act atBot atBot :=
    tendsto_atBot_atBot_of_monotone hact.monotone (fun b => by obtain ⟨a, ha⟩ := hsurj b; exact ⟨a, ha.le⟩)
  exact ⟨hc.comp hg.1, h1.comp hg.2.1, h2.comp hg.2.2⟩

theorem surjInv_map (act : ℝ → ℝ) (hact : StrictMono act) (hsurj : Function.Surjective act) (bq i m : Nat)
    (v : ℝ → List ℝ) (hv : SurjInv bq i m v) : SurjInv bq i m (fun t => (v t).map act) := by
  have hnth : ∀ c, c < m → ∀ t, nth ((v t).map act) c = act (nth (v t) c) := by
    intro c hc t
    rw [nth_of_lt (by simp [hv.len, hc]), nth_of_lt (by rw [hv.len]; exact hc)]; simp
  refine ⟨fun t => by simp [hv.len], ?_, ?_⟩
  · intro c hc hblk t
    rw [hnth c hc t, hnth c hc 0, hv.const c hc hblk t]
  · intro c hc hblk
    have hfun : (fun t => nth ((v t).map act) c) = fun t => act (nth (v t) c) := by funext t; exact hnth c hc t
    rw [hfun]
    exact onto_comp act hact hsurj (hv.onto c hc hblk)

theorem surjInv_add (cterm : List ℝ) (bq i m : Nat) (hc : cterm.length = m) (v : ℝ → List ℝ)
    (hv : SurjInv bq i m v) : SurjInv bq i m (fun t => List.zipWith (· + ·) (v t) cterm) := by
  have hnth : ∀ c, c < m → ∀ t, nth (List.zipWith (· + ·) (v t) cterm) c = nth (v t) c + nth cterm c := by
    intro c hcm t
    rw [nth_of_lt (by simp [hv.len, hc, hcm]), nth_of_lt (by rw [hv.len]; exact hcm), nth_of_lt (by rw [hc]; exact hcm)]
    simp
  refine ⟨fun t => by simp [hv.len, hc], ?_, ?_⟩
  · intro c hcm hblk t
    rw [hnth c hcm t, hnth c hcm 0, hv.const c hcm hblk t]
  · intro c hcm hblk
    have hfun : (fun t => nth (List.zipWith (· + ·) (v t) cterm) c) = fun t => nth (v t) c + nth cterm c := by
      funext t; exact hnth c hcm t
    obtain ⟨h1, h2, h3⟩ := hv.onto c hcm hblk
    rw [hfun]
    exact ⟨h1.add continuous_const, tendsto_atTop_add_const_right _ _ h2, tendsto_atBot_add_const_right _ _ h3⟩

theorem bnafChain_surj {bin bout : Nat} {Ls : List (BnafLayer ℝ)} (h : BnafChain bin Ls bout) (act : ℝ → ℝ)
    (hact : StrictMono act) (hsurj : Function.Surjective act) (n i : Nat) (hi : i < n) :
    (∀ L ∈ Ls, BnafWellShaped L ∧ L.n = n ∧ 0 < L.b1) →
    ∀ (first : Bool) (condTerm : Option (List ℝ)),
      (first = true → ∀ L ∈ Ls.head?, ∀ c ∈ condTerm, c.length = L.b0 * n) →
      ∀ (v : ℝ → List ℝ), SurjInv bin i (bin * n) v →
        SurjInv bout i (bout * n) (fun t => bnafForward act first condTerm Ls (v t)) := by
  induction h with
  | last L =>
    intro hall first condTerm _ v hv
    obtain ⟨hL, hn, hb1⟩ := hall L (by simp)
    have := surjInv_layer L hL hb1 i (by rw [hn]; exact hi) v (by rw [hn]; exact hv)
    rw [hn] at this
    simpa only [bnafForward] using this
  | cons L rest bout hrest ih =>
    intro hall first condTerm hcond v hv
    obtain ⟨hL, hn, hb1⟩ := hall L (by simp)
    obtain ⟨L', Ls', rfl⟩ := List.exists_cons_of_ne_nil hrest.ne_nil
    have h1 := surjInv_layer L hL hb1 i (by rw [hn]; exact hi) v (by rw [hn]; exact hv)
    rw [hn] at h1
    have hall' : ∀ M ∈ L' :: Ls', BnafWellShaped M ∧ M.n = n ∧ 0 < M.b1 := fun M hM => hall M (List.mem_cons_of_mem _ hM)
    simp only [bnafForward]
    apply ih hall' false condTerm (by intro hf; cases hf)
    apply surjInv_map act hact hsurj
    cases first with
    | false => exact h1
    | true =>
      cases condTerm with
      | none => exact h1
      | some c =>
        have hc : c.length = L.b0 * n := hcond rfl L (by simp) c (by simp)
        exact surjInv_add c L.b0 i (L.b0 * n) hc _ h1

/-- **own-coordinate slices are onto ℝ** when the activation is a strictly increasing bijection of ℝ
(e.g. `LeakyTanh`, the default; NOT plain `tanh`) -/
theorem bnaf_slice_surjective (act : ℝ → ℝ) (hact : StrictMono act) (hsurj : Function.Surjective act)
    {dim depth bd : Nat} {Ls : List (BnafLayer ℝ)} {condLinear : Option (List (List ℝ))}
    (hok : BnafOK dim depth bd Ls condLinear) (cond x : List ℝ) (hx : x.length = dim) (i : Nat) (hi : i < dim) :
    Continuous (fun t => nth (bnafTransform act Ls condLinear (x.set i t) cond) i) ∧
    Function.Surjective fun t => nth (bnafTransform act Ls condLinear (x.set i t) cond) i := by
  have hchain := bnafChain_of_shapes depth bd Ls hok.hshapes
  have hall : ∀ L ∈ Ls, BnafWellShaped L ∧ L.n = dim ∧ 0 < L.b1 := by
    intro L hL
    refine ⟨(hok.hws L hL).1, (hok.hws L hL).2, ?_⟩
    have : (L.b0, L.b1) ∈ bnafBlockShapes depth bd := by rw [← hok.hshapes]; exact List.mem_map.mpr ⟨L, hL, rfl⟩
    exact bnafBlockShapes_pos depth bd hok.hbd _ this
  have hv0 : SurjInv 1 i (1 * dim) (fun t => x.set i t) := by
    refine ⟨fun t => by simp [hx], ?_, ?_⟩
    · intro c _ hc t
      simp only [Nat.div_one] at hc
      rw [nth_set_ne x i c t (by omega), nth_set_ne x i c 0 (by omega)]
    · intro c _ hc
      simp only [Nat.div_one] at hc
      subst hc
      have hfun : (fun t => nth (x.set c t) c) = fun t => t := by
        funext t; exact nth_set_self x c t (by omega)
      rw [hfun]
      exact ⟨continuous_id, tendsto_id, tendsto_id⟩
  have hcond : (true = true → ∀ L ∈ Ls.head?, ∀ c ∈ (condLinear.map fun C => C.map fun row => Jnp.dot row cond),
      c.length = L.b0 * dim) := by
    intro _ L hL c hc
    simp only [Option.mem_def, Option.map_eq_some_iff] at hc
    obtain ⟨C, hC, rfl⟩ := hc
    simp only [List.length_map]
    exact hok.hcl C hC L hL
  have hout := bnafChain_surj hchain act hact hsurj dim i hi hall true _ hcond _ hv0
  obtain ⟨h1, h2, h3⟩ := hout.onto i (by omega) (Nat.div_one i)
  exact ⟨h1, h1.surjective h2 h3⟩

/-- a bounded activation (plain `tanh`) does NOT give onto slices: with `depth ≥ 1` output `i` is a fixed finite
combination of activation values plus a bias, so it stays in a bounded interval — stated for one layer pair:
`|Σ_c w_c · act(z_c) + b| ≤ Σ_c |w_c| · M + |b|` whenever `|act| ≤ M`. -/
theorem bounded_act_bounded_output (act : ℝ → ℝ) (M : ℝ) (hM : ∀ z, |act z| ≤ M) (w z : List ℝ) (b : ℝ) :
    |Jnp.dot w (z.map act) + b| ≤ (w.map fun a => |a|).sum * M + |b| := by
  have hM0 : 0 ≤ M := le_trans (abs_nonneg _) (hM 0)
  have hdot : ∀ (w z : List ℝ), |Jnp.dot w (z.map act)| ≤ (w.map fun a => |a|).sum * M := by
    intro w
    induction w with
    | nil => intro z; simp [Jnp.dot, jsum_eq_sum]
    | cons a w ih =>
      intro z
      cases z with
      | nil =>
        have hnn : 0 ≤ ((a :: w).map fun a => |a|).sum :=
          List.sum_nonneg (fun y hy => by obtain ⟨b', _, rfl⟩ := List.mem_map.mp hy; exact abs_nonneg b')
        simpa [Jnp.dot, jsum_eq_sum] using mul_nonneg hnn hM0
      | cons t z =>
        have h := ih z
        simp only [Jnp.dot, jsum_eq_sum, List.map_cons, List.zipWith_cons_cons, List.sum_cons] at h ⊢
        calc |a * act t + (List.zipWith (· * ·) w (z.map act)).sum|
            ≤ |a * act t| + |(List.zipWith (· * ·) w (z.map act)).sum| := abs_add_le _ _
          _ ≤ |a| * M + (w.map fun a => |a|).sum * M := by
              rw [abs_mul]
              exact add_le_add (mul_le_mul_of_nonneg_left (hM t) (abs_nonneg a)) h
          _ = (|a| + (w.map fun a => |a|).sum) * M := by ring
  calc |Jnp.dot w (z.map act) + b| ≤ |Jnp.dot w (z.map act)| + |b| := abs_add_le _ _
    _ ≤ (w.map fun a => |a|).sum * M + |b| := by linarith [hdot w z]

/-- with at least two layers the output is the LAST linear layer applied to activation values -/
theorem bnafForward_last_of_act (act : ℝ → ℝ) (condTerm : Option (List ℝ)) :
    ∀ (Ls : List (BnafLayer ℝ)) (hne : Ls ≠ []) (first : Bool) (v : List ℝ),
      ∃ z : List ℝ, bnafForward act first condTerm Ls (v.map act) = (Ls.getLast hne).apply (z.map act) := by
  intro Ls
  induction Ls with
  | nil => intro hne; exact absurd rfl hne
  | cons L rest ih =>
    intro hne first v
    cases rest with
    | nil => exact ⟨v, by simp [bnafForward]⟩
    | cons L' rest' =>
      rw [List.getLast_cons (by simp)]
      simp only [bnafForward]
      exact ih (by simp) false _

/-- **a bounded activation (plain `tanh`, `|tanh| ≤ 1`) makes every output coordinate bounded** as soon as there is a
hidden layer (`depth ≥ 1` ⇒ at least two linear layers) — all weights, no shape hypotheses.  So every `y` with
`|y_i|` beyond the bound has NO preimage: `inverse` is undefined there, and the root hypothesis of C10 fails. -/
theorem bnaf_bounded_act (act : ℝ → ℝ) (M : ℝ) (hM : ∀ z, |act z| ≤ M) (L L' : BnafLayer ℝ)
    (rest : List (BnafLayer ℝ)) (condLinear : Option (List (List ℝ))) (cond : List ℝ) (i : Nat) :
    ∃ B : ℝ, ∀ x : List ℝ, |nth (bnafTransform act (L :: L' :: rest) condLinear x cond) i| ≤ B := by
  set Llast := (L' :: rest).getLast (by simp) with hlast
  set ct := condLinear.map fun C => C.map fun row => Jnp.dot row cond with hct
  by_cases hi : i < Llast.unwrapW.length ∧ i < Llast.bias.length
  · refine ⟨((Llast.unwrapW[i]'hi.1).map fun a => |a|).sum * M + |Llast.bias[i]'hi.2|, ?_⟩
    have key : ∀ w : List ℝ, |nth (bnafForward act false ct (L' :: rest) (w.map act)) i|
        ≤ ((Llast.unwrapW[i]'hi.1).map fun a => |a|).sum * M + |Llast.bias[i]'hi.2| := by
      intro w
      obtain ⟨z, hz⟩ := bnafForward_last_of_act act ct (L' :: rest) (by simp) false w
      rw [hz]
      have hlen : i < (Llast.apply (z.map act)).length := by
        simp only [BnafLayer.apply, linearApply_length]; omega
      rw [nth_of_lt hlen]
      simp only [BnafLayer.apply]
      rw [linearApply_getElem]
      exact bounded_act_bounded_output act M hM _ z _
    intro x
    simp only [bnafTransform, bnafForward]
    exact key _
  · refine ⟨0, ?_⟩
    have key : ∀ w : List ℝ, |nth (bnafForward act false ct (L' :: rest) (w.map act)) i| ≤ 0 := by
      intro w
      obtain ⟨z, hz⟩ := bnafForward_last_of_act act ct (L' :: rest) (by simp) false w
      rw [hz]
      have hlen : ¬ i < (Llast.apply (z.map act)).length := by
        simp only [BnafLayer.apply, linearApply_length]; omega
      have e : (Llast.apply (z.map act))[i]? = none := List.getElem?_eq_none (not_lt.mp hlen)
      show |((Llast.apply (z.map act))[i]?).getD 0| ≤ 0
      rw [e]; simp
    intro x
    simp only [bnafTransform, bnafForward]
    exact key _

end bnafSurj

/-! ## concrete objects used by the non-vacuity instances of `Props/C01.lean`, `Props/C02.lean` -/

/-- a scalar transformer family: the GENERATED `Affine` with location = first parameter, scale `2` -/
noncomputable def exampleFamily (ps : List ℝ) : Bij ℝ Unit ℝ := (Gen.Affine.mk (ps.getD 0 0) 2 : Gen.Affine ℝ).toBij

theorem exampleFamily_lawful (ps : List ℝ) : (exampleFamily ps).Lawful Set.univ Set.univ :=
  Leaves.affine_lawful _ (by norm_num)

theorem bnafExample_ok : BnafOK 2 1 1 bnafExample none := by
  refine ⟨by norm_num, by decide, ?_, by simp⟩
  intro L hL
  simp only [bnafExample, List.mem_cons, List.not_mem_nil, or_false] at hL
  rcases hL with rfl | rfl
  · exact ⟨⟨⟨rfl, by intro row hrow; simp at hrow; rcases hrow with rfl | rfl <;> rfl⟩, rfl, rfl⟩, rfl⟩
  · exact ⟨⟨⟨rfl, by intro row hrow; simp at hrow; rcases hrow with rfl | rfl <;> rfl⟩, rfl, rfl⟩, rfl⟩

end NetLawful
