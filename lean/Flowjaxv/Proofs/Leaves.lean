import Flowjaxv.Proofs.RealInst
import Flowjaxv.Proofs.BijTheory
/-!
# Lawfulness of the generated elementary bijections over ℝ (C01 leaves)
-/
open Gen RealInst Set

namespace Leaves

/-! ### tanh facts missing from Mathlib -/
theorem tanh_lt_tanh {x y : ℝ} : Real.tanh x < Real.tanh y ↔ x < y := by
  have hx : Real.tanh x ∈ Ioo (-1 : ℝ) 1 := ⟨Real.neg_one_lt_tanh x, Real.tanh_lt_one x⟩
  have hy : Real.tanh y ∈ Ioo (-1 : ℝ) 1 := ⟨Real.neg_one_lt_tanh y, Real.tanh_lt_one y⟩
  have := Real.artanh_lt_artanh_iff hx hy
  rw [Real.artanh_tanh, Real.artanh_tanh] at this
  exact this.symm

theorem tanh_le_tanh {x y : ℝ} : Real.tanh x ≤ Real.tanh y ↔ x ≤ y := by
  rw [← not_lt, ← not_lt, tanh_lt_tanh]

theorem tanh_pos {x : ℝ} (h : 0 < x) : 0 < Real.tanh x := by
  have := tanh_lt_tanh.mpr h; simpa using this

theorem abs_tanh (x : ℝ) : |Real.tanh x| = Real.tanh |x| := by
  rcases le_total 0 x with h | h
  · rw [abs_of_nonneg h, abs_of_nonneg]; have := tanh_le_tanh.mpr h; simpa using this
  · rw [abs_of_nonpos h, abs_of_nonpos, Real.tanh_neg]; have := tanh_le_tanh.mpr h; simpa using this

theorem abs_artanh_lt {y m : ℝ} (hy : |y| < Real.tanh m) : |Real.artanh y| < m := by
  have hm1 := Real.tanh_lt_one m
  have hyI : y ∈ Ioo (-1 : ℝ) 1 := by constructor <;> [linarith [neg_abs_le y]; linarith [le_abs_self y]]
  have h1 : Real.tanh (Real.artanh y) = y := Real.tanh_artanh hyI
  have : Real.tanh |Real.artanh y| < Real.tanh m := by rw [← abs_tanh, h1]; exact hy
  exact tanh_lt_tanh.mp this

/-! ### Affine / Loc / Scale -/
theorem affine_lawful {C : Type} (p : Affine ℝ) (h : p.scale ≠ 0) :
    (p.toBij : Bij ℝ C ℝ).Lawful univ univ := by
  refine ⟨fun _ _ _ => trivial, fun _ _ _ => trivial, ?_, ?_, ?_, ?_⟩
  · intro x _ _; simp only [Affine.toBij, Affine.inverse, Affine.transform]; field_simp; ring
  · intro y _ _; simp only [Affine.toBij, Affine.inverse, Affine.transform]; field_simp; ring
  · intro x _; simp only [Affine.toBij, Affine.transform_and_log_det, Affine.transform] <;> ring
  · intro y _; simp only [Affine.toBij, Affine.inverse_and_log_det, Affine.inverse] <;> ring

theorem loc_lawful {C : Type} (p : Loc ℝ) : (p.toBij : Bij ℝ C ℝ).Lawful univ univ := by
  refine ⟨fun _ _ _ => trivial, fun _ _ _ => trivial, ?_, ?_, fun _ _ => rfl, fun _ _ => rfl⟩
  · intro x _ _; simp [Loc.toBij, Loc.inverse, Loc.transform]
  · intro y _ _; simp [Loc.toBij, Loc.inverse, Loc.transform]

theorem scale_lawful {C : Type} (p : Scale ℝ) (h : p.scale ≠ 0) :
    (p.toBij : Bij ℝ C ℝ).Lawful univ univ := by
  refine ⟨fun _ _ _ => trivial, fun _ _ _ => trivial, ?_, ?_, fun _ _ => rfl, fun _ _ => rfl⟩
  · intro x _ _; simp only [Scale.toBij, Scale.inverse, Scale.transform]; field_simp
  · intro y _ _; simp only [Scale.toBij, Scale.inverse, Scale.transform]; field_simp

/-! ### Exp : ℝ ↔ (0,∞) -/
theorem exp_lawful {C : Type} : (Exp.toBij : Bij ℝ C ℝ).Lawful univ (Ioi 0) := by
  refine ⟨?_, fun _ _ _ => trivial, ?_, ?_, fun _ _ => rfl, fun _ _ => rfl⟩
  · intro x _ _; simp only [Exp.toBij, Exp.transform, exp_eq]; exact Real.exp_pos x
  · intro x _ _; simp [Exp.toBij, Exp.transform, Exp.inverse]
  · intro y hy _; simp only [Exp.toBij, Exp.transform, Exp.inverse, exp_eq, log_eq]; exact Real.exp_log hy

/-! ### SoftPlus : ℝ ↔ (0,∞) -/
theorem softplus_pos (x : ℝ) : 0 < Real.log (1 + Real.exp x) :=
  Real.log_pos (by linarith [Real.exp_pos x])

theorem softplus_inv_softplus (x : ℝ) :
    SoftPlus.inverse ({} : NoParams ℝ) (SoftPlus.transform {} x) = x := by
  simp only [SoftPlus.inverse, SoftPlus.transform, softplus_eq, expm1_eq, log_eq]
  have hpos : 0 < 1 + Real.exp x := by linarith [Real.exp_pos x]
  rw [Real.exp_neg, Real.exp_log hpos]
  have : -((1 + Real.exp x)⁻¹ - 1) = Real.exp x / (1 + Real.exp x) := by field_simp; ring
  rw [this, Real.log_div (Real.exp_pos x).ne' hpos.ne', Real.log_exp]; ring

theorem softplus_softplus_inv {y : ℝ} (hy : 0 < y) :
    SoftPlus.transform ({} : NoParams ℝ) (SoftPlus.inverse {} y) = y := by
  -- whichever way the source orders the sum `log(−expm1(−y)) + y`
  have hinv : SoftPlus.inverse ({} : NoParams ℝ) y = Real.log (-(Real.exp (-y) - 1)) + y := by
    simp only [SoftPlus.inverse, expm1_eq, log_eq] <;> ring
  rw [hinv]
  simp only [SoftPlus.transform, softplus_eq]
  have h1 : Real.exp (-y) < 1 := by rw [Real.exp_lt_one_iff]; linarith
  have hpos : 0 < -(Real.exp (-y) - 1) := by linarith
  rw [Real.exp_add, Real.exp_log hpos]
  have : 1 + -(Real.exp (-y) - 1) * Real.exp y = Real.exp y := by
    have : Real.exp (-y) * Real.exp y = 1 := by rw [← Real.exp_add]; simp
    nlinarith
  rw [this, Real.log_exp]

theorem softplus_lawful {C : Type} : (SoftPlus.toBij : Bij ℝ C ℝ).Lawful univ (Ioi 0) := by
  refine ⟨?_, fun _ _ _ => trivial, ?_, ?_, fun _ _ => rfl, fun _ _ => rfl⟩
  · intro x _ _; simp only [SoftPlus.toBij, SoftPlus.transform, softplus_eq]; exact softplus_pos x
  · intro x _ _; exact softplus_inv_softplus x
  · intro y hy _; exact softplus_softplus_inv hy

/-! ### Tanh : ℝ ↔ (-1,1) -/
theorem tanh_lawful {C : Type} : (Tanh.toBij : Bij ℝ C ℝ).Lawful univ (Ioo (-1) 1) := by
  refine ⟨?_, fun _ _ _ => trivial, ?_, ?_, fun _ _ => rfl, fun _ _ => rfl⟩
  · intro x _ _; exact ⟨Real.neg_one_lt_tanh x, Real.tanh_lt_one x⟩
  · intro x _ _; simp [Tanh.toBij, Tanh.transform, Tanh.inverse, Real.artanh_tanh]
  · intro y hy _; simp only [Tanh.toBij, Tanh.transform, Tanh.inverse, tanh_eq, artanh_eq]
    exact Real.tanh_artanh hy

/-! ### LeakyTanh : ℝ ↔ ℝ, including the switch points `|x| = max_val` -/

/-- what the constructor establishes (see `leaky_init_wf`) -/
structure LeakyWF (p : LeakyTanh ℝ) : Prop where
  m_pos : 0 < p.max_val
  g_pos : 0 < p.linear_grad
  icpt : p.intercept = Real.tanh p.max_val - p.linear_grad * p.max_val

theorem leaky_init_wf {m : ℝ} (hm : 0 < m) : LeakyWF (LeakyTanh.init m) := by
  refine ⟨hm, ?_, rfl⟩
  simp only [LeakyTanh.init, exp_eq]; exact Real.exp_pos _

/-- CANONICAL FORM of the generated `LeakyTanh.transform` (all later proofs go through it, so they do not depend on how the
source spells the branch test, orders the two `where` branches or the sum) -/
theorem leaky_transform_def (p : LeakyTanh ℝ) (x : ℝ) :
    p.transform x = Jnp.where (decide (Jnp.abs x ≥ p.max_val)) (p.linear_grad * x + Jnp.sign x * p.intercept) (Transc.tanh x) := by
  unfold LeakyTanh.transform
  by_cases h : p.max_val ≤ |x| <;> simp [h, jabs_eq, where_true, where_false] <;> ring

/-- canonical form of the generated `LeakyTanh.transform_and_log_det` -/
theorem leaky_tld_def (p : LeakyTanh ℝ) (x : ℝ) :
    p.transform_and_log_det x = (p.transform x,
      Jnp.sumElem (Jnp.where (decide (Jnp.abs x ≥ p.max_val)) (Transc.log p.linear_grad) (tanhLogGrad x))) := by
  unfold LeakyTanh.transform_and_log_det
  by_cases h : p.max_val ≤ |x| <;> simp [h, jabs_eq, where_true, where_false]

/-- the forward and backward branch tests select the same piece — at `|x| = m` too -/
theorem leaky_branch_agree {p : LeakyTanh ℝ} (h : LeakyWF p) (x : ℝ) :
    (p.max_val ≤ |x|) ↔ (Real.tanh p.max_val ≤ |p.transform x|) := by
  have hm := h.m_pos; have hg := h.g_pos
  have htm := tanh_pos hm
  rw [leaky_transform_def]
  simp only [jabs_eq, ge_iff_le, tanh_eq]
  by_cases hx : p.max_val ≤ |x|
  · simp only [hx, decide_true, where_true, true_iff]
    rcases le_or_gt 0 x with h0 | h0
    · have hx' : p.max_val ≤ x := by rwa [abs_of_nonneg h0] at hx
      have hxp : 0 < x := lt_of_lt_of_le hm hx'
      rw [jsign_pos hxp, h.icpt]
      have : Real.tanh p.max_val ≤ p.linear_grad * x + 1 * (Real.tanh p.max_val - p.linear_grad * p.max_val) := by
        nlinarith [mul_nonneg hg.le (sub_nonneg.mpr hx')]
      exact le_trans this (le_abs_self _)
    · have hx' : p.max_val ≤ -x := by rwa [abs_of_neg h0] at hx
      rw [jsign_neg h0, h.icpt]
      have : p.linear_grad * x + -1 * (Real.tanh p.max_val - p.linear_grad * p.max_val) ≤ -Real.tanh p.max_val := by
        nlinarith [mul_nonneg hg.le (sub_nonneg.mpr hx')]
      have h2 := neg_abs_le (p.linear_grad * x + -1 * (Real.tanh p.max_val - p.linear_grad * p.max_val))
      have h3 := neg_le_abs (p.linear_grad * x + -1 * (Real.tanh p.max_val - p.linear_grad * p.max_val))
      linarith
  · simp only [hx, decide_false, where_false, false_iff, not_le]
    rw [abs_tanh]; exact tanh_lt_tanh.mpr (not_le.mp hx)

theorem leaky_left {p : LeakyTanh ℝ} (h : LeakyWF p) (x : ℝ) : p.inverse (p.transform x) = x := by
  have hm := h.m_pos; have hg := h.g_pos
  have htm := tanh_pos hm
  have hag := leaky_branch_agree h x
  by_cases hx : p.max_val ≤ |x|
  · have hy := hag.mp hx
    have hT : p.transform x = p.linear_grad * x + Jnp.sign x * p.intercept := by
      rw [leaky_transform_def]; simp [hx]
    unfold LeakyTanh.inverse
    simp only [jabs_eq, ge_iff_le, tanh_eq, hy, decide_true, where_true]
    rcases le_or_gt 0 x with h0 | h0
    · have hx' : p.max_val ≤ x := by rwa [abs_of_nonneg h0] at hx
      have hxp : 0 < x := lt_of_lt_of_le hm hx'
      have hyp : 0 < p.transform x := by
        rw [hT, jsign_pos hxp, h.icpt]; nlinarith [mul_nonneg hg.le (sub_nonneg.mpr hx')]
      rw [jsign_pos hyp, hT, jsign_pos hxp]; field_simp; ring
    · have hx' : p.max_val ≤ -x := by rwa [abs_of_neg h0] at hx
      have hyn : p.transform x < 0 := by
        rw [hT, jsign_neg h0, h.icpt]; nlinarith [mul_nonneg hg.le (sub_nonneg.mpr hx')]
      rw [jsign_neg hyn, hT, jsign_neg h0]; field_simp; ring
  · have hy : ¬ Real.tanh p.max_val ≤ |p.transform x| := fun hh => hx (hag.mpr hh)
    have hT : p.transform x = Real.tanh x := by
      rw [leaky_transform_def]; simp [hx]
    unfold LeakyTanh.inverse
    simp only [jabs_eq, ge_iff_le, tanh_eq, hy, decide_false, where_false, artanh_eq]
    rw [hT, Real.artanh_tanh]

theorem leaky_right {p : LeakyTanh ℝ} (h : LeakyWF p) (y : ℝ) : p.transform (p.inverse y) = y := by
  have hm := h.m_pos; have hg := h.g_pos
  have htm := tanh_pos hm
  have htm1 := Real.tanh_lt_one p.max_val
  by_cases hy : Real.tanh p.max_val ≤ |y|
  · have hI : p.inverse y = (y - Jnp.sign y * p.intercept) / p.linear_grad := by
      unfold LeakyTanh.inverse; simp [hy]
    rcases le_or_gt 0 y with h0 | h0
    · have hy' : Real.tanh p.max_val ≤ y := by rwa [abs_of_nonneg h0] at hy
      have hyp : 0 < y := lt_of_lt_of_le htm hy'
      have hxv : p.inverse y = (y - Real.tanh p.max_val) / p.linear_grad + p.max_val := by
        rw [hI, jsign_pos hyp, h.icpt]; field_simp; ring
      have hxge : p.max_val ≤ p.inverse y := by
        rw [hxv]; have := div_nonneg (sub_nonneg.mpr hy') hg.le; linarith
      have hxp : 0 < p.inverse y := lt_of_lt_of_le hm hxge
      have habs : p.max_val ≤ |p.inverse y| := by rw [abs_of_pos hxp]; exact hxge
      rw [leaky_transform_def]
      simp only [jabs_eq, ge_iff_le, habs, decide_true, where_true, jsign_pos hxp]
      rw [hxv, h.icpt]; field_simp; ring
    · have hy' : Real.tanh p.max_val ≤ -y := by rwa [abs_of_neg h0] at hy
      have hxv : p.inverse y = (y + Real.tanh p.max_val) / p.linear_grad - p.max_val := by
        rw [hI, jsign_neg h0, h.icpt]; field_simp; ring
      have hxle : p.inverse y ≤ -p.max_val := by
        rw [hxv]
        have : (y + Real.tanh p.max_val) / p.linear_grad ≤ 0 :=
          div_nonpos_of_nonpos_of_nonneg (by linarith) hg.le
        linarith
      have hxn : p.inverse y < 0 := by linarith
      have habs : p.max_val ≤ |p.inverse y| := by rw [abs_of_neg hxn]; linarith
      rw [leaky_transform_def]
      simp only [jabs_eq, ge_iff_le, habs, decide_true, where_true, jsign_neg hxn]
      rw [hxv, h.icpt]; field_simp; ring
  · have hylt : |y| < Real.tanh p.max_val := not_le.mp hy
    have hI : p.inverse y = Real.artanh y := by
      unfold LeakyTanh.inverse; simp [hy]
    have hxm : ¬ p.max_val ≤ |p.inverse y| := by rw [hI]; exact not_le.mpr (abs_artanh_lt hylt)
    have hyI : y ∈ Ioo (-1 : ℝ) 1 := by
      constructor <;> [linarith [neg_abs_le y]; linarith [le_abs_self y]]
    rw [leaky_transform_def]
    simp only [jabs_eq, ge_iff_le, hxm, decide_false, where_false, tanh_eq]
    rw [hI]; exact Real.tanh_artanh hyI

theorem leakytanh_lawful {C : Type} {p : LeakyTanh ℝ} (h : LeakyWF p) :
    (p.toBij : Bij ℝ C ℝ).Lawful univ univ :=
  ⟨fun _ _ _ => trivial, fun _ _ _ => trivial, fun x _ _ => leaky_left h x,
   fun y _ _ => leaky_right h y, fun _ _ => rfl, fun _ _ => rfl⟩

end Leaves
