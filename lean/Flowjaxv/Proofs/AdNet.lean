import Flowjaxv.Proofs.AdVecTheory
import Flowjaxv.Model.AdNet
/-!
# Conditioner MLPs and coupling / masked-autoregressive layers with the affine (`softplus + min_scale`) transformer are safe for
every value of every weight (C18)
-/
set_option linter.unusedSimpArgs false
set_option linter.unusedVariables false
noncomputable section
open Classical Ad EF AdT AdV GenAst Ad.Net

namespace AdN

/-- safe whatever the scalar variables hold: safe in every environment with the same VECTOR parameters (network weights,
biases and the input are vector parameters; the let-bound field ids of the generated kernels are scalars) -/
def VSafe (env : Env EF) (e : Expr EF) : Prop := ∀ env' : Env EF, env'.v = env.v → Safe env' e
def VSafeVec (env : Env EF) (es : List (Expr EF)) : Prop := ∀ e ∈ es, VSafe env e

theorem VSafe.safe {env : Env EF} {e : Expr EF} (h : VSafe env e) : Safe env e := h env rfl
theorem VSafeVec.at {env env' : Env EF} {es : List (Expr EF)} (h : VSafeVec env es) (hv : env'.v = env.v) : SafeVec env' es :=
  fun e he => h e he env' hv

theorem vsafe_get {env : Env EF} {j : Nat} (h : ∀ x ∈ env.v j, isFin x) (idx : Env EF → Int) : VSafe env (Expr.get j idx) := by
  intro env' hv; show ∀ x ∈ env'.v j, isFin x; rw [hv]; exact h
theorem vsafe_const (r : ℝ) {env : Env EF} : VSafe env (Expr.const (fin r)) := fun _ _ => trivial
theorem vsafe_zero {env : Env EF} : VSafe env (Expr.const (Num.ofInt 0)) := fun _ _ => trivial
theorem vsafe_masked {env : Env EF} {w : Expr EF} (m : Bool) (h : VSafe env w) : VSafe env (masked m w) :=
  fun env' hv => ⟨h env' hv, trivial⟩
theorem vsafe_prim {env : Env EF} {p : Prim} (hp : ∀ r, PrimSafe p r) {e : Expr EF} (h : VSafe env e) : VSafe env (Expr.prim p e) :=
  fun env' hv => ⟨h env' hv, fun r _ => hp r⟩

theorem vsafeVec_getD {env : Env EF} {es : List (Expr EF)} (h : VSafeVec env es) (i : Nat) :
    VSafe env (es.getD i (Expr.const (Num.ofInt 0))) := by
  rw [List.getD_eq_getElem?_getD]
  cases hi : es[i]? with
  | none => exact vsafe_zero
  | some e => exact h e (List.mem_of_getElem? hi)

/-- a linear layer with safe weights and biases on safe inputs -/
theorem linear_vsafe {env : Env EF} {rows : Rows EF} {x : List (Expr EF)}
    (hr : ∀ r ∈ rows, VSafeVec env r.1 ∧ VSafe env r.2) (hx : VSafeVec env x) : VSafeVec env (linear rows x) := by
  intro e he
  obtain ⟨r, hr', rfl⟩ := List.mem_map.mp he
  intro env' hv
  exact ⟨dot_safe ((hr r hr').1.at hv) (hx.at hv), (hr r hr').2 env' hv⟩

theorem hidden_vsafe {env : Env EF} {act : Prim} (hp : ∀ r, PrimSafe act r) :
    ∀ {hidden : List (Rows EF)} {x : List (Expr EF)},
      (∀ L ∈ hidden, ∀ r ∈ L, VSafeVec env r.1 ∧ VSafe env r.2) → VSafeVec env x →
      VSafeVec env (hidden.foldl (fun h L => (linear L h).map (Expr.prim act)) x)
  | [], _, _, hx => hx
  | L :: Ls, x, hh, hx => by
      simp only [List.foldl_cons]
      refine hidden_vsafe hp (fun L' hL' => hh L' (List.mem_cons_of_mem _ hL')) ?_
      intro e he
      obtain ⟨a, ha, rfl⟩ := List.mem_map.mp he
      exact vsafe_prim hp (linear_vsafe (hh L (List.mem_cons_self ..)) hx a ha)

/-- `eqx.nn.MLP`: for EVERY value of every weight and bias, any depth and widths, any activation whose primitive is total with a
finite derivative (relu — also at a pre-activation of exactly 0 — and tanh), every output is safe -/
theorem mlp_vsafe {env : Env EF} {act : Prim} (hp : ∀ r, PrimSafe act r) {hidden : List (Rows EF)} {last : Rows EF}
    {x : List (Expr EF)} (hh : ∀ L ∈ hidden, ∀ r ∈ L, VSafeVec env r.1 ∧ VSafe env r.2)
    (hl : ∀ r ∈ last, VSafeVec env r.1 ∧ VSafe env r.2) (hx : VSafeVec env x) : VSafeVec env (mlp act hidden last x) :=
  linear_vsafe hl (hidden_vsafe hp hh hx)

theorem relu_total (r : ℝ) : PrimSafe Prim.relu r := trivial
theorem tanh_total (r : ℝ) : PrimSafe Prim.tanh r := trivial

theorem set_v (env : Env EF) (i : Nat) (x : EF) : (env.set i x).v = env.v := rfl
theorem set_s_same (env : Env EF) (i : Nat) (v : EF) : (env.set i v).s i = v := by simp [Env.set]
theorem set_s_ne (env : Env EF) {i j : Nat} (v : EF) (h : j ≠ i) : (env.set i v).s j = env.s j := by simp [Env.set, h]

def spR (w : ℝ) : ℝ := Real.log (1 + Real.exp w)
theorem spR_pos (w : ℝ) : 0 < spR w := Real.log_pos (by linarith [Real.exp_pos w])

/-- the environment inside the two field bindings: `loc` finite, `scale = softplus(raw) + min_scale > 0`, same vectors -/
theorem withAffine_env {env : Env EF} {ms il ir : ℝ} (hms : 0 ≤ ms) {pl pr : Expr EF} (hpl : VSafe env pl) (hpr : VSafe env pr)
    {env' : Env EF} (hv : env'.v = env.v) (body : Expr EF)
    (hb : ∀ env'' : Env EF, env''.v = env.v → ∀ l sc : ℝ, env''.s 1 = fin l → env''.s 2 = fin sc → 0 < sc → Safe env'' body) :
    Safe env' (withAffineMinScale (Expr.const (fin ms)) pl pr (Expr.const (fin il)) (Expr.const (fin ir)) body) := by
  obtain ⟨a, ha⟩ := isFin_iff.mp (safe_eval_fin _ _ (hpl env' hv))
  have hlocE : (Expr.add pl (Expr.const (fin il))).eval env' = fin (a + il) := by simp [Expr.eval, ha]
  set env1 := env'.set 1 ((Expr.add pl (Expr.const (fin il))).eval env') with h1
  have hv1 : env1.v = env.v := hv
  set env1' := env1.set 1 ((Expr.const (fin ms) : Expr EF).eval env1) with h1'
  have hv1' : env1'.v = env.v := hv
  obtain ⟨r, hr⟩ := isFin_iff.mp (safe_eval_fin _ _ (hpr env1' hv1'))
  have hsE : (Loc.transform.ast (SoftPlus.transform.ast (Expr.add pr (Expr.const (fin ir))))).eval env1' = fin (spR (r + ir) + ms) := by
    have hr' : Expr.eval (env1.set 1 (fin ms)) pr = fin r := hr
    simp [Loc.transform.ast, SoftPlus.transform.ast, Expr.eval, applyPrim, hr', h1', set_s_same, spR]
  have hsS : Safe env1' (Loc.transform.ast (SoftPlus.transform.ast (Expr.add pr (Expr.const (fin ir))))) := by
    refine ⟨⟨⟨hpr env1' hv1', trivial⟩, fun _ _ => trivial⟩, ?_⟩
    show isFin (env1'.s 1); rw [h1', set_s_same]; trivial
  refine ⟨⟨hpl env' hv, trivial⟩, ⟨trivial, hsS⟩, ?_⟩
  refine hb _ hv (a + il) (spR (r + ir) + ms) ?_ ?_ (by linarith [spR_pos (r + ir)])
  · rw [set_s_ne _ _ (by decide), set_s_same, hlocE]
  · rw [set_s_same]; show Expr.eval env1' _ = _; exact hsE

/-- one dimension of the coupling transformer, forward and inverse, for every conditioner output -/
theorem affine_vsafe {env : Env EF} {ms il ir : ℝ} (hms : 0 ≤ ms) {pl pr x : Expr EF}
    (hpl : VSafe env pl) (hpr : VSafe env pr) (hx : VSafe env x) :
    VSafe env (affineTld (Expr.const (fin ms)) pl pr (Expr.const (fin il)) (Expr.const (fin ir)) x).1 ∧
    VSafe env (affineTld (Expr.const (fin ms)) pl pr (Expr.const (fin il)) (Expr.const (fin ir)) x).2 ∧
    VSafe env (affineIld (Expr.const (fin ms)) pl pr (Expr.const (fin il)) (Expr.const (fin ir)) x).1 ∧
    VSafe env (affineIld (Expr.const (fin ms)) pl pr (Expr.const (fin il)) (Expr.const (fin ir)) x).2 := by
  refine ⟨fun env' hv => ?_, fun env' hv => ?_, fun env' hv => ?_, fun env' hv => ?_⟩ <;>
    refine withAffine_env hms hpl hpr hv _ (fun env'' hv'' l sc h1 h2 hsc => ?_)
  · -- robust to the order in which the source writes `loc + scale * x`
    have hx' := hx env'' hv''
    simp [Affine.transform_and_log_det.ast, Safe, Expr.eval, hx', h1, h2]
  · have : 0 < |sc| := abs_pos.mpr hsc.ne'
    simp [Affine.transform_and_log_det.ast, Safe, Expr.eval, applyPrim, PrimSafe, h2, this, hsc.ne']
  · have hx' := hx env'' hv''
    simp [Affine.inverse_and_log_det.ast, Safe, Expr.eval, hx', h1, h2, hsc.ne']
  · have : 0 < |sc| := abs_pos.mpr hsc.ne'
    simp [Affine.inverse_and_log_det.ast, Safe, Expr.eval, applyPrim, PrimSafe, h2, this, hsc.ne']

/-- `parts`: every per-dimension transformer output is safe -/
theorem parts_vsafe {env : Env EF} {tf : Expr EF → Expr EF → Expr EF → Expr EF × Expr EF}
    (htf : ∀ pl pr x, VSafe env pl → VSafe env pr → VSafe env x → VSafe env (tf pl pr x).1 ∧ VSafe env (tf pl pr x).2)
    {params xs : List (Expr EF)} (hp : VSafeVec env params) (hx : VSafeVec env xs) :
    VSafeVec env ((parts tf params xs).map Prod.fst) ∧ VSafeVec env ((parts tf params xs).map Prod.snd) := by
  constructor <;> intro e he <;> simp only [parts, List.map_map, List.mem_map, Function.comp] at he <;>
    obtain ⟨xi, hxi, rfl⟩ := he
  · exact (htf _ _ _ (vsafeVec_getD hp _) (vsafeVec_getD hp _) (hx _ (List.fst_mem_of_mem_zipIdx hxi))).1
  · exact (htf _ _ _ (vsafeVec_getD hp _) (vsafeVec_getD hp _) (hx _ (List.fst_mem_of_mem_zipIdx hxi))).2

theorem vsafeVec_sum {env : Env EF} {es : List (Expr EF)} (h : VSafeVec env es) : VSafe env (Vec.sum es) :=
  fun env' hv => sum_safe (h.at hv)

/-- a coupling layer: pass-through elements, transformed elements and the log-det are safe for every network weight -/
theorem coupling_vsafe {env : Env EF} {tf : Expr EF → Expr EF → Expr EF → Expr EF × Expr EF}
    (htf : ∀ pl pr x, VSafe env pl → VSafe env pr → VSafe env x → VSafe env (tf pl pr x).1 ∧ VSafe env (tf pl pr x).2)
    {net : List (Expr EF) → List (Expr EF)} (hnet : ∀ xs, VSafeVec env xs → VSafeVec env (net xs))
    (u : Nat) {x : List (Expr EF)} (hx : VSafeVec env x) :
    VSafeVec env (coupling u net tf x).1 ∧ VSafe env (coupling u net tf x).2 := by
  have hxc : VSafeVec env (x.take u) := fun e he => hx e (List.mem_of_mem_take he)
  have hxt : VSafeVec env (x.drop u) := fun e he => hx e (List.mem_of_mem_drop he)
  obtain ⟨h1, h2⟩ := parts_vsafe htf (hnet _ hxc) hxt
  refine ⟨fun e he => ?_, vsafeVec_sum h2⟩
  rcases List.mem_append.mp he with h | h
  · exact hxc e h
  · exact h1 e h

theorem autoreg_vsafe {env : Env EF} {tf : Expr EF → Expr EF → Expr EF → Expr EF × Expr EF}
    (htf : ∀ pl pr x, VSafe env pl → VSafe env pr → VSafe env x → VSafe env (tf pl pr x).1 ∧ VSafe env (tf pl pr x).2)
    {net : List (Expr EF) → List (Expr EF)} (hnet : ∀ xs, VSafeVec env xs → VSafeVec env (net xs))
    {x : List (Expr EF)} (hx : VSafeVec env x) :
    VSafeVec env (autoreg net tf x).1 ∧ VSafe env (autoreg net tf x).2 := by
  obtain ⟨h1, h2⟩ := parts_vsafe htf (hnet _ hx) hx
  exact ⟨h1, vsafeVec_sum h2⟩

/-- every element read from a vector parameter is safe when all vector parameters hold finite numbers — i.e. for every real
value of every weight, bias and input -/
def envVecs (vs : List (List ℝ)) : Env EF := { s := fun _ => fin 0, v := fun j => (vs.getD j []).map fin }
theorem vsafe_param (vs : List (List ℝ)) (j : Nat) (idx : Env EF → Int) : VSafe (envVecs vs) (Expr.get j idx) :=
  vsafe_get (by intro x hx; obtain ⟨r, _, rfl⟩ := List.mem_map.mp hx; trivial) idx
theorem vsafeVec_ofVec (vs : List (List ℝ)) (j d : Nat) : VSafeVec (envVecs vs) (Vec.ofVec j d) := by
  intro e he; obtain ⟨i, _, rfl⟩ := List.mem_map.mp he; exact vsafe_param vs j _
end AdN
end
