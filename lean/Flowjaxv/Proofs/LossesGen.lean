import Flowjaxv.Proofs.Losses
import Flowjaxv.Gen.LossesGen
/-!
# The GENERATED losses (`Gen/LossesGen.lean`, regenerated from `flowjax/train/losses.py` on every run) equal the hand model

`Model/Losses.lean` is the hand model the value theorems of C17 are about; `Gen/LossesGen.lean` is the source translated statement
by statement over the world of `Model/LossWorld.lean`.  Here: each generated function equals the hand model's, for EVERY world,
every scalar type (so at `Float` and at `ℝ` alike), every input.  A change of the source changes the generated text and breaks
one of these proofs.
-/
set_option linter.unusedSectionVars false

namespace LossesGen
open Losses GenLosses Lw

section
variable {X C K P S D α : Type} [Add α] [Sub α] [Div α] [Neg α] [LT α] [DecidableLT α]
  [OfNat α 0] [OfNat α 1] [Transc α]

/-- the permutation family the world's `jr.choice` realises for `_get_contrastive_idxs(key, b, ·)`: row `i` uses key
`jr.split(key, b)[i]` on the candidates `delete(arange(b), i)` -/
def permOf (W : World X C K P S D α) (key : K) (b : Nat) : Nat → List Nat :=
  fun i => W.choicePerm (W.split key b i) (choices b i)

theorem prod_singleton (n : Nat) : Lw.prod [n] = n := by simp [Lw.prod]

/-- `MaximumLikelihoodLoss.__call__` as generated IS the hand model on the unwrapped combined distribution -/
theorem mle_eq (W : World X C K P S D α) (params : P) (static : S) (xs : List X) (cs : List C) :
    mleCall W params static xs cs = mleLoss (W.methods (W.unwrap (W.combine params static))) xs cs := rfl

theorem subV_map_map {β : Type} (f g : β → α) (l : List β) :
    subV (l.map f) (l.map g) = l.map fun x => f x - g x := by
  induction l with
  | nil => rfl
  | cons a l ih => simp only [subV, List.map_cons, List.zipWith_cons_cons] at ih ⊢; rw [ih]

theorem subV_map_right {β : Type} (g : β → α) (a : List α) (l : List β) :
    subV a (l.map g) = List.zipWith (fun lp x => lp - g x) a l := by
  induction l generalizing a with
  | nil => cases a <;> rfl
  | cons b l ih =>
    cases a with
    | nil => rfl
    | cons a0 a => simp only [subV, List.map_cons, List.zipWith_cons_cons] at ih ⊢; rw [ih]

/-- `ElboLoss.__call__` as generated IS the hand model, in BOTH `stick_the_landing` settings (the per-sample keys are
`jr.split(key, num_samples)`, the condition is `None`) -/
theorem elbo_eq (W : World X C K P S D α) (self : ElboLoss X α) (params : P) (static : S) (key : K) :
    elboCall W self params static key
      = elboLoss (W.methods (W.combine params static)) self.target self.stick_the_landing
          (Lw.keys W key self.num_samples) W.noCond := by
  unfold elboCall elboLoss
  cases self.stick_the_landing
  · simp only [Bool.false_eq_true, if_false, Lw.sampleLp, prod_singleton, subV_map_right]
  · simp only [if_true, Lw.sample, Lw.logProbB, Lw.logProbB1, Lw.stopGradient, prod_singleton, subV_map_right]

/-! ### contrastive indices -/

theorem sequence_map_some' {A B : Type} (f : A → B) (l : List A) :
    Losses.sequence (l.map fun a => some (f a)) = some (l.map f) := by
  induction l with
  | nil => rfl
  | cons a l ih => simp only [List.map_cons, Losses.sequence, ih]

theorem sequence_congr {A B : Type} (f g : A → Option B) (l : List A) (h : ∀ a ∈ l, f a = g a) :
    Losses.sequence (l.map f) = Losses.sequence (l.map g) := by
  rw [List.map_congr_left h]

theorem choices_length' {b i : ℕ} (hi : i < b) : (choices b i).length = b - 1 := by
  simp [choices, List.length_eraseIdx, hi]

theorem zip_range_self_map {β : Type} (f : Nat → β) (b : Nat) :
    ((List.range b).map f).zip (List.range b) = (List.range b).map fun i => (f i, i) := by
  apply List.ext_getElem
  · simp
  · intro i h1 h2; simp

/-- `_get_contrastive_idxs(key, b, n)` as generated: whenever `n < b` (the guard of the loss; or `b = 0`) it does not raise and
its rows are the hand model's `contrastiveIdxs` for the permutations the world's `jr.choice` draws -/
theorem contrastive_idxs_eq (W : World X C K P S D α) (key : K) (b n : Nat) (h : b = 0 ∨ n < b) :
    getContrastiveIdxs W key b n = some (contrastiveIdxs b n (permOf W key b)) := by
  unfold getContrastiveIdxs Lw.vmap2 Lw.keys Lw.arange
  simp only [List.length_map, List.length_range, ne_eq, not_true_eq_false, if_false, zip_range_self_map, List.map_map]
  have hrow : ∀ i ∈ List.range b,
      ((fun r : K × Nat => getContrastiveIdxs_getIdxs W r.1 r.2 b n) ∘ fun i => (W.split key b i, i)) i
        = some ((permOf W key b i).take n) := by
    intro i hi
    have hi' : i < b := List.mem_range.mp hi
    have hn : n < b := by rcases h with h | h <;> omega
    have hle : n ≤ ((List.range b).eraseIdx i).length := by
      have := choices_length' hi'; unfold choices at this; omega
    simp only [Function.comp, getContrastiveIdxs_getIdxs, Lw.choice, Lw.delete, Lw.arange, prod_singleton,
      Bool.false_eq_true, if_false, if_pos hle, permOf, choices]
  rw [List.map_congr_left hrow, sequence_map_some']
  rfl

/-- the excluded point: for a non-empty batch and `n ≥ b` the generated function raises (`jr.choice` cannot take `n` distinct
candidates out of `b − 1`) -/
theorem contrastive_idxs_raises (W : World X C K P S D α) (key : K) (b n : Nat) (hb : 0 < b) (hn : b ≤ n) :
    getContrastiveIdxs W key b n = none := by
  unfold getContrastiveIdxs Lw.vmap2 Lw.keys Lw.arange
  simp only [List.length_map, List.length_range, ne_eq, not_true_eq_false, if_false, zip_range_self_map, List.map_map]
  obtain ⟨m, rfl⟩ : ∃ m, b = m + 1 := ⟨b - 1, by omega⟩
  have h0 : getContrastiveIdxs_getIdxs W (W.split key (m + 1) 0) 0 (m + 1) n = none := by
    have hl : ((List.range (m + 1)).eraseIdx 0).length = m := by simp
    simp only [getContrastiveIdxs_getIdxs, Lw.choice, Lw.delete, Lw.arange, prod_singleton, Bool.false_eq_true, if_false, hl]
    rw [if_neg (by omega)]
  rw [List.range_succ_eq_map]
  simp only [List.map_cons, Function.comp, Losses.sequence, h0]

/-! ### the contrastive loss -/

/-- one row: the generated closure `single_x_loss` is the hand model's `rowLoss` -/
theorem single_x_loss_eq (W : World X C K P S D α) (self : ContrastiveLoss X α) (d : D) (xs : List X) (xi : X) (ci : C)
    (idxs : List Nat) :
    contrastiveCall_singleXLoss W xs self d xi ci idxs = rowLoss (W.methods d) self.prior xs xi ci idxs := by
  unfold contrastiveCall_singleXLoss rowLoss
  cases gather xs idxs with
  | none => rfl
  | some con =>
    simp only [Option.bind_some, Option.map_some, Lw.logProbB1, Lw.logProb11, subV_map_map, Lw.append, rowTerm, logit]

theorem contrastiveIdxs_length (b n : Nat) (π : Nat → List Nat) : (contrastiveIdxs b n π).length = b := by
  simp [contrastiveIdxs]

/-- `ContrastiveLoss.__call__` as generated IS the hand model for ALL inputs — accepted or rejected (guard
`x.shape[0] <= n_contrastive`, mismatched condition batch) — with the permutations the world's `jr.choice` draws -/
theorem contrastive_eq (W : World X C K P S D α) (self : ContrastiveLoss X α) (params : P) (static : S) (xs : List X)
    (cs : List C) (key : K) :
    contrastiveCall W self params static xs cs key
      = contrastiveLoss (W.methods (W.unwrap (W.combine params static))) self.prior self.n_contrastive xs cs
          (permOf W key xs.length) := by
  unfold contrastiveCall contrastiveLoss
  by_cases hg : xs.length ≤ self.n_contrastive
  · simp only [hg, decide_true, if_true]
  · simp only [hg, decide_false, Bool.false_eq_true, if_false]
    rw [contrastive_idxs_eq W key xs.length self.n_contrastive (Or.inr (by omega))]
    simp only [Option.bind_some, Lw.vmap3, contrastiveIdxs_length, ne_eq, not_true_eq_false, or_false]
    by_cases hc : cs.length = xs.length
    · simp only [hc, not_true_eq_false, if_false, single_x_loss_eq]
      cases Losses.sequence _ <;> rfl
    · simp only [hc, not_false_eq_true, if_true, Option.bind_none]

end
end LossesGen
