import Flowjaxv.Proofs.VecLd
import Flowjaxv.Model.Triangular
/-!
# TriangularAffine (C01, C02, C07): the hand model `Model/Triangular.lean` over ℝ

Forward / back substitution invert the matrix–vector product for every triangular matrix with
non-zero diagonal, in every dimension (induction on the dimension: first row and column split off);
the log-det is `log |det A|` (Mathlib's determinant of a triangular matrix).
-/
open Gen RealInst VecLd Matrix

namespace TriPf

/-- entry `(i, j)` of a list-of-rows matrix (0 outside) -/
def entry (A : List (List ℝ)) (i j : ℕ) : ℝ := (A.getD i []).getD j 0

/-- `n × n` -/
def Square (n : ℕ) (A : List (List ℝ)) : Prop := A.length = n ∧ ∀ r ∈ A, r.length = n

/-- lower triangular `n × n` with non-zero diagonal -/
structure LowerTri (n : ℕ) (A : List (List ℝ)) : Prop where
  sq : Square n A
  zero : ∀ i j, i < j → j < n → entry A i j = 0
  diag_ne : ∀ i, i < n → entry A i i ≠ 0

/-- upper triangular `n × n` with non-zero diagonal -/
structure UpperTri (n : ℕ) (A : List (List ℝ)) : Prop where
  sq : Square n A
  zero : ∀ i j, j < i → i < n → entry A i j = 0
  diag_ne : ∀ i, i < n → entry A i i ≠ 0

/-! ### entries of the pieces -/

@[simp] theorem entry_cons_zero (row : List ℝ) (rows : List (List ℝ)) (j : ℕ) :
    entry (row :: rows) 0 j = row.getD j 0 := by simp [entry]

@[simp] theorem entry_cons_succ (row : List ℝ) (rows : List (List ℝ)) (i j : ℕ) :
    entry (row :: rows) (i + 1) j = entry rows i j := by simp [entry]

theorem entry_map_tail (rows : List (List ℝ)) (i j : ℕ) :
    entry (rows.map List.tail) i j = entry rows i (j + 1) := by
  simp only [entry, List.getD_eq_getElem?_getD, List.getElem?_map]
  cases h : rows[i]? with
  | none => simp
  | some row => cases row <;> simp

theorem square_minor {n : ℕ} {row : List ℝ} {rows : List (List ℝ)} (h : Square (n + 1) (row :: rows)) :
    Square n (rows.map List.tail) := by
  obtain ⟨h1, h2⟩ := h
  refine ⟨by simpa using h1, ?_⟩
  intro r hr
  obtain ⟨r', hr', rfl⟩ := List.mem_map.mp hr
  have := h2 r' (by simp [hr'])
  simp [this]

/-! ### the matrix–vector product, first row and column split off -/

theorem jdot_cons (a x : ℝ) (r xs : List ℝ) : Jnp.dot (a :: r) (x :: xs) = a * x + Jnp.dot r xs := by
  simp [ParamsPf.jdot_eq]

theorem jdot_zero_left {r : List ℝ} (h : ∀ a ∈ r, a = 0) (xs : List ℝ) : Jnp.dot r xs = 0 := by
  rw [ParamsPf.jdot_eq]
  induction r generalizing xs with
  | nil => simp
  | cons a r ih => cases xs with
    | nil => simp
    | cons x xs =>
      have ha : a = 0 := h a (by simp)
      simp [ha, ih (fun b hb => h b (by simp [hb]))]

theorem matVec_rows_cons (rows : List (List ℝ)) (hne : ∀ row ∈ rows, row ≠ []) (x0 : ℝ) (xs : List ℝ) :
    rows.map (fun row => Jnp.dot row (x0 :: xs))
      = List.zipWith (fun row m => row.headD 0 * x0 + m) rows (Tri.matVec (rows.map List.tail) xs) := by
  induction rows with
  | nil => simp [Tri.matVec]
  | cons row rows ih =>
    obtain ⟨c, row', rfl⟩ := List.exists_cons_of_ne_nil (hne row (by simp))
    have := ih (fun r hr => hne r (by simp [hr]))
    simp only [Tri.matVec] at this ⊢
    simp [jdot_cons, this]

theorem matVec_cons_cons (a : ℝ) (r : List ℝ) (rows : List (List ℝ)) (hne : ∀ row ∈ rows, row ≠ [])
    (x0 : ℝ) (xs : List ℝ) :
    Tri.matVec ((a :: r) :: rows) (x0 :: xs)
      = (a * x0 + Jnp.dot r xs) ::
          List.zipWith (fun row m => row.headD 0 * x0 + m) rows (Tri.matVec (rows.map List.tail) xs) := by
  have := matVec_rows_cons rows hne x0 xs
  simp only [Tri.matVec] at this ⊢
  simp [jdot_cons, this]

theorem matVec_length (A : List (List ℝ)) (x : List ℝ) : (Tri.matVec A x).length = A.length := by
  simp [Tri.matVec]

theorem zipWith_cancel {β : Type} (f g : β → ℝ → ℝ) (hfg : ∀ r b, f r (g r b) = b) (rows : List β) (bs : List ℝ)
    (hl : rows.length = bs.length) : List.zipWith f rows (List.zipWith g rows bs) = bs := by
  induction rows generalizing bs with
  | nil => cases bs <;> simp at hl ⊢
  | cons r rows ih => cases bs with
    | nil => simp at hl
    | cons b bs => simp at hl; simp [hfg, ih bs hl]

/-! ### decomposition of a triangular matrix of dimension `n + 1` -/

theorem LowerTri.step {n : ℕ} {A : List (List ℝ)} (h : LowerTri (n + 1) A) :
    ∃ a r rows, A = (a :: r) :: rows ∧ a ≠ 0 ∧ (∀ x ∈ r, x = 0) ∧ rows.length = n ∧
      (∀ row ∈ rows, row ≠ []) ∧ LowerTri n (rows.map List.tail) := by
  obtain ⟨⟨hlen, hrow⟩, hz, hd⟩ := h
  match A, hlen with
  | row :: rows, hlen =>
    have hr0 : row.length = n + 1 := hrow row (by simp)
    match row, hr0 with
    | a :: r, hr0 =>
      refine ⟨a, r, rows, rfl, ?_, ?_, by simpa using hlen, ?_, ?_⟩
      · simpa using hd 0 (by omega)
      · intro x hx
        obtain ⟨j, hj, rfl⟩ := List.getElem_of_mem hx
        have := hz 0 (j + 1) (by omega) (by simp at hr0; omega)
        simpa [List.getD_eq_getElem?_getD, List.getElem?_eq_getElem hj] using this
      · intro row hr e
        have := hrow row (by simp [hr]); rw [e] at this; simp at this
      · refine ⟨square_minor ⟨hlen, hrow⟩, ?_, ?_⟩
        · intro i j hij hj
          rw [entry_map_tail]
          simpa using hz (i + 1) (j + 1) (by omega) (by omega)
        · intro i hi
          rw [entry_map_tail]
          simpa using hd (i + 1) (by omega)

theorem UpperTri.step {n : ℕ} {A : List (List ℝ)} (h : UpperTri (n + 1) A) :
    ∃ a r rows, A = (a :: r) :: rows ∧ a ≠ 0 ∧ r.length = n ∧ rows.length = n ∧
      (∀ row ∈ rows, row ≠ []) ∧ (∀ row ∈ rows, row.headD 0 = 0) ∧ UpperTri n (rows.map List.tail) := by
  obtain ⟨⟨hlen, hrow⟩, hz, hd⟩ := h
  match A, hlen with
  | row :: rows, hlen =>
    have hr0 : row.length = n + 1 := hrow row (by simp)
    match row, hr0 with
    | a :: r, hr0 =>
      refine ⟨a, r, rows, rfl, ?_, by simpa using hr0, by simpa using hlen, ?_, ?_, ?_⟩
      · simpa using hd 0 (by omega)
      · intro row hr e
        have := hrow row (by simp [hr]); rw [e] at this; simp at this
      · intro row hr
        obtain ⟨i, hi, rfl⟩ := List.getElem_of_mem hr
        have := hz (i + 1) 0 (by omega) (by simp at hlen; omega)
        rw [entry_cons_succ] at this
        unfold entry at this
        rw [List.getD_eq_getElem?_getD (l := rows), List.getElem?_eq_getElem hi, Option.getD_some] at this
        cases hrw : rows[i] with
        | nil => simp
        | cons c t => rw [hrw] at this; simpa using this
      · refine ⟨square_minor ⟨hlen, hrow⟩, ?_, ?_⟩
        · intro i j hij hi
          rw [entry_map_tail]
          simpa using hz (i + 1) (j + 1) (by omega) (by omega)
        · intro i hi
          rw [entry_map_tail]
          simpa using hd (i + 1) (by omega)


/-! ### forward substitution inverts the product with a lower-triangular matrix -/

theorem solveLower_cons (a : ℝ) (r : List ℝ) (rows : List (List ℝ)) (b0 : ℝ) (bs : List ℝ) :
    Tri.solveLower ((a :: r) :: rows) (b0 :: bs)
      = (b0 / a) :: Tri.solveLower (rows.map List.tail)
          (List.zipWith (fun row bi => bi - row.headD 0 * (b0 / a)) rows bs) := by
  rw [Tri.solveLower]

theorem solveLower_nil (b : List ℝ) : Tri.solveLower [] b = [] := by
  rw [Tri.solveLower]; intros; simp_all

theorem solveUpper_cons (a : ℝ) (r : List ℝ) (rows : List (List ℝ)) (b0 : ℝ) (bs : List ℝ) :
    Tri.solveUpper ((a :: r) :: rows) (b0 :: bs)
      = ((b0 - Jnp.dot r (Tri.solveUpper (rows.map List.tail) bs)) / a)
          :: Tri.solveUpper (rows.map List.tail) bs := by
  rw [Tri.solveUpper]

theorem solveUpper_nil (b : List ℝ) : Tri.solveUpper [] b = [] := by
  rw [Tri.solveUpper]; intros; simp_all

theorem LowerTri.nil_of_zero {A : List (List ℝ)} (h : LowerTri 0 A) : A = [] :=
  List.length_eq_zero_iff.mp h.sq.1
theorem UpperTri.nil_of_zero {A : List (List ℝ)} (h : UpperTri 0 A) : A = [] :=
  List.length_eq_zero_iff.mp h.sq.1

theorem solveLower_length {n : ℕ} {A : List (List ℝ)} (h : LowerTri n A) {b : List ℝ} (hb : b.length = n) :
    (Tri.solveLower A b).length = n := by
  induction n generalizing A b with
  | zero => rw [h.nil_of_zero, solveLower_nil]; rfl
  | succ n ih =>
    obtain ⟨a, r, rows, rfl, ha, hr, hlen, hne, hminor⟩ := h.step
    obtain ⟨b0, bs, rfl⟩ := List.exists_cons_of_length_eq_add_one hb
    rw [solveLower_cons, List.length_cons, ih hminor (by simp at hb; simp [hlen, hb])]

/-- `A · solveLower A b = b` -/
theorem matVec_solveLower {n : ℕ} {A : List (List ℝ)} (h : LowerTri n A) {b : List ℝ} (hb : b.length = n) :
    Tri.matVec A (Tri.solveLower A b) = b := by
  induction n generalizing A b with
  | zero =>
    rw [h.nil_of_zero, solveLower_nil]
    simp [Tri.matVec, List.length_eq_zero_iff.mp hb]
  | succ n ih =>
    obtain ⟨a, r, rows, rfl, ha, hr, hlen, hne, hminor⟩ := h.step
    obtain ⟨b0, bs, rfl⟩ := List.exists_cons_of_length_eq_add_one hb
    have hbs : bs.length = n := by simpa using hb
    rw [solveLower_cons, matVec_cons_cons a r rows hne, jdot_zero_left hr,
      ih hminor (by simp [hlen, hbs])]
    rw [zipWith_cancel _ _ (by intro r b; ring) rows bs (by omega)]
    congr 1
    field_simp
    ring

/-- `solveLower A (A · x) = x` -/
theorem solveLower_matVec {n : ℕ} {A : List (List ℝ)} (h : LowerTri n A) {x : List ℝ} (hx : x.length = n) :
    Tri.solveLower A (Tri.matVec A x) = x := by
  induction n generalizing A x with
  | zero =>
    rw [h.nil_of_zero]
    simp [Tri.matVec, solveLower_nil, List.length_eq_zero_iff.mp hx]
  | succ n ih =>
    obtain ⟨a, r, rows, rfl, ha, hr, hlen, hne, hminor⟩ := h.step
    obtain ⟨x0, xs, rfl⟩ := List.exists_cons_of_length_eq_add_one hx
    have hxs : xs.length = n := by simpa using hx
    rw [matVec_cons_cons a r rows hne, jdot_zero_left hr, solveLower_cons]
    have e0 : (a * x0 + 0) / a = x0 := by rw [add_zero]; field_simp
    rw [e0, zipWith_cancel _ _ (by intro r b; ring) rows _ (by simp [matVec_length]), ih hminor hxs]

/-! ### back substitution inverts the product with an upper-triangular matrix -/

theorem zipWith_head_zero (rows : List (List ℝ)) (h0 : ∀ row ∈ rows, row.headD 0 = 0) (x0 : ℝ) (M : List ℝ)
    (hl : rows.length = M.length) : List.zipWith (fun row m => row.headD 0 * x0 + m) rows M = M := by
  induction rows generalizing M with
  | nil => cases M <;> simp at hl ⊢
  | cons r rows ih => cases M with
    | nil => simp at hl
    | cons m M =>
      simp at hl
      have h1 : r.headD 0 = 0 := h0 r (by simp)
      rw [List.zipWith_cons_cons, ih (fun row hr => h0 row (by simp [hr])) M hl, h1]
      simp

theorem solveUpper_length {n : ℕ} {A : List (List ℝ)} (h : UpperTri n A) {b : List ℝ} (hb : b.length = n) :
    (Tri.solveUpper A b).length = n := by
  induction n generalizing A b with
  | zero => rw [h.nil_of_zero, solveUpper_nil]; rfl
  | succ n ih =>
    obtain ⟨a, r, rows, rfl, ha, hr, hlen, hne, h0, hminor⟩ := h.step
    obtain ⟨b0, bs, rfl⟩ := List.exists_cons_of_length_eq_add_one hb
    rw [solveUpper_cons, List.length_cons, ih hminor (by simpa using hb)]

/-- `A · solveUpper A b = b` -/
theorem matVec_solveUpper {n : ℕ} {A : List (List ℝ)} (h : UpperTri n A) {b : List ℝ} (hb : b.length = n) :
    Tri.matVec A (Tri.solveUpper A b) = b := by
  induction n generalizing A b with
  | zero =>
    rw [h.nil_of_zero, solveUpper_nil]
    simp [Tri.matVec, List.length_eq_zero_iff.mp hb]
  | succ n ih =>
    obtain ⟨a, r, rows, rfl, ha, hr, hlen, hne, h0, hminor⟩ := h.step
    obtain ⟨b0, bs, rfl⟩ := List.exists_cons_of_length_eq_add_one hb
    have hbs : bs.length = n := by simpa using hb
    rw [solveUpper_cons, matVec_cons_cons a r rows hne, ih hminor hbs,
      zipWith_head_zero rows h0 _ bs (by omega)]
    congr 1
    field_simp
    ring

/-- `solveUpper A (A · x) = x` -/
theorem solveUpper_matVec {n : ℕ} {A : List (List ℝ)} (h : UpperTri n A) {x : List ℝ} (hx : x.length = n) :
    Tri.solveUpper A (Tri.matVec A x) = x := by
  induction n generalizing A x with
  | zero =>
    rw [h.nil_of_zero]
    simp [Tri.matVec, solveUpper_nil, List.length_eq_zero_iff.mp hx]
  | succ n ih =>
    obtain ⟨a, r, rows, rfl, ha, hr, hlen, hne, h0, hminor⟩ := h.step
    obtain ⟨x0, xs, rfl⟩ := List.exists_cons_of_length_eq_add_one hx
    have hxs : xs.length = n := by simpa using hx
    rw [matVec_cons_cons a r rows hne, zipWith_head_zero rows h0 _ _ (by simp [matVec_length]),
      solveUpper_cons, ih hminor hxs]
    congr 1
    field_simp
    ring


/-! ### C01: the four methods of the model -/
section lawful
variable {C : Type} {n : ℕ}

theorem zipWith_sub_add {a b : List ℝ} (h : a.length = b.length) :
    List.zipWith (fun x y => x - y) (List.zipWith (fun x y => x + y) a b) b = a := by
  induction a generalizing b with
  | nil => simp
  | cons x a ih => cases b with
    | nil => simp at h
    | cons y b => simp at h; simp [ih h]

theorem zipWith_add_sub {a b : List ℝ} (h : a.length = b.length) :
    List.zipWith (fun x y => x + y) (List.zipWith (fun x y => x - y) a b) b = a := by
  induction a generalizing b with
  | nil => simp
  | cons x a ih => cases b with
    | nil => simp at h
    | cons y b => simp at h; simp [ih h]

/-- the triangle `lower` asks for, with non-zero diagonal -/
def TriWF (n : ℕ) (t : Tri.TriAffine ℝ) : Prop :=
  t.loc.length = n ∧ (if t.lower then LowerTri n t.triangular else UpperTri n t.triangular)

theorem TriWF.sq {t : Tri.TriAffine ℝ} (h : TriWF n t) : Square n t.triangular := by
  obtain ⟨_, h2⟩ := h
  split at h2
  · exact h2.sq
  · exact h2.sq

theorem triangular_lawful {t : Tri.TriAffine ℝ} (h : TriWF n t) :
    (t.toBij : Bij (List ℝ) C ℝ).Lawful {x | x.length = n} {y | y.length = n} := by
  obtain ⟨hloc, htri⟩ := h
  have hsq : t.triangular.length = n := (TriWF.sq ⟨hloc, htri⟩).1
  refine ⟨?_, ?_, ?_, ?_, fun _ _ => rfl, fun _ _ => rfl⟩
  · intro x hx c
    simp [Tri.TriAffine.toBij, Tri.TriAffine.transform, matVec_length, hsq, hloc]
  · intro y hy c
    have hr : (List.zipWith (fun a b => a - b) y t.loc).length = n := by
      simp [Set.mem_ofPred_eq.mp hy, hloc]
    simp only [Tri.TriAffine.toBij, Tri.TriAffine.inverse, Set.mem_ofPred_eq]
    cases hl : t.lower
    · rw [hl] at htri; simp only [Bool.false_eq_true, if_false] at htri ⊢
      exact solveUpper_length htri hr
    · rw [hl] at htri; simp only [if_true] at htri ⊢
      exact solveLower_length htri hr
  · intro x hx c
    have hm : (Tri.matVec t.triangular x).length = t.loc.length := by rw [matVec_length, hsq, hloc]
    simp only [Tri.TriAffine.toBij, Tri.TriAffine.inverse, Tri.TriAffine.transform, zipWith_sub_add hm]
    cases hl : t.lower
    · rw [hl] at htri; simp only [Bool.false_eq_true, if_false] at htri ⊢
      exact solveUpper_matVec htri hx
    · rw [hl] at htri; simp only [if_true] at htri ⊢
      exact solveLower_matVec htri hx
  · intro y hy c
    have hr : (List.zipWith (fun a b => a - b) y t.loc).length = n := by
      simp [Set.mem_ofPred_eq.mp hy, hloc]
    have hyl : y.length = t.loc.length := by rw [hloc]; exact hy
    simp only [Tri.TriAffine.toBij, Tri.TriAffine.inverse, Tri.TriAffine.transform]
    cases hl : t.lower
    · rw [hl] at htri; simp only [Bool.false_eq_true, if_false] at htri ⊢
      rw [matVec_solveUpper htri hr, zipWith_add_sub hyl]
    · rw [hl] at htri; simp only [if_true] at htri ⊢
      rw [matVec_solveLower htri hr, zipWith_add_sub hyl]

theorem triangular_ld_antisym (t : Tri.TriAffine ℝ) (D : Set (List ℝ)) :
    (t.toBij : Bij (List ℝ) C ℝ).LdAntisym D := fun _ _ _ => rfl

end lawful

/-! ### bridge to `Matrix (Fin n) (Fin n) ℝ`; C02 and C07 -/
section matrix
variable {C : Type} {n : ℕ}

/-- the list-of-rows matrix as a Mathlib matrix -/
def toMat (n : ℕ) (A : List (List ℝ)) : Matrix (Fin n) (Fin n) ℝ := fun i j => entry A i j

theorem square_eq_ofFn {A : List (List ℝ)} (h : Square n A) :
    A = List.ofFn (fun i : Fin n => List.ofFn (fun j : Fin n => toMat n A i j)) := by
  obtain ⟨h1, h2⟩ := h
  apply List.ext_getElem
  · simp [h1]
  · intro i hi _
    have hr : (A[i]).length = n := h2 _ (List.getElem_mem hi)
    rw [List.getElem_ofFn]
    have : (fun j : Fin n => toMat n A ⟨i, by omega⟩ j) = toVec n A[i] := by
      funext j
      simp [toMat, entry, toVec, List.getD_eq_getElem?_getD, List.getElem?_eq_getElem hi]
    rw [this, ofFn_toVec hr]

/-- `A @ x` is Mathlib's `mulVec` -/
theorem matVec_ofFn {A : List (List ℝ)} (h : Square n A) (v : Fin n → ℝ) :
    Tri.matVec A (List.ofFn v) = List.ofFn (toMat n A *ᵥ v) := by
  conv_lhs => rw [square_eq_ofFn h]
  simp only [Tri.matVec, List.map_ofFn]
  congr 1
  funext i
  simp only [Function.comp, dot_ofFn]
  rfl

theorem headD_eq_getD (row : List ℝ) : row.headD 0 = row.getD 0 0 := by cases row <;> simp

/-- `jnp.diag` reads the diagonal entries -/
theorem diag_eq_ofFn : ∀ (n : ℕ) (A : List (List ℝ)), A.length = n →
    Tri.diag A = List.ofFn (fun i : Fin n => entry A i i) := by
  intro n
  induction n with
  | zero => intro A h; rw [List.length_eq_zero_iff.mp h, Tri.diag]; simp
  | succ n ih =>
    intro A h
    obtain ⟨row, rows, rfl⟩ := List.exists_cons_of_length_eq_add_one h
    rw [Tri.diag, ih (rows.map List.tail) (by simpa using h), List.ofFn_succ]
    simp only [entry_map_tail, Fin.val_zero, entry_cons_zero, Fin.val_succ, entry_cons_succ, headD_eq_getD]

theorem logDet_eq {A : List (List ℝ)} (h : A.length = n) :
    Tri.logDet A = ∑ i : Fin n, Real.log |toMat n A i i| := by
  simp only [Tri.logDet, diag_eq_ofFn n A h, List.map_ofFn, jsum_ofFn, Function.comp, log_eq, jabs_eq]
  rfl

theorem lowerTri_det {A : List (List ℝ)} (h : LowerTri n A) : (toMat n A).det = ∏ i, toMat n A i i := by
  apply Matrix.det_of_isLowerTriangular
  intro i j hij
  exact h.zero i j (by simpa using hij) j.2

theorem upperTri_det {A : List (List ℝ)} (h : UpperTri n A) : (toMat n A).det = ∏ i, toMat n A i i := by
  apply Matrix.det_of_isUpperTriangular
  intro i j hij
  exact h.zero i j (by simpa using hij) i.2

theorem TriWF.det {t : Tri.TriAffine ℝ} (h : TriWF n t) :
    (toMat n t.triangular).det = ∏ i, toMat n t.triangular i i ∧ ∀ i : Fin n, toMat n t.triangular i i ≠ 0 := by
  obtain ⟨_, h2⟩ := h
  split at h2
  · exact ⟨lowerTri_det h2, fun i => h2.diag_ne i i.2⟩
  · exact ⟨upperTri_det h2, fun i => h2.diag_ne i i.2⟩

/-- the model's forward map in coordinates: `v ↦ A v + loc` -/
theorem transform_ofFn {t : Tri.TriAffine ℝ} (h : TriWF n t) (v : Fin n → ℝ) :
    t.transform (List.ofFn v) = List.ofFn (toMat n t.triangular *ᵥ v + toVec n t.loc) := by
  rw [Tri.TriAffine.transform, matVec_ofFn h.sq, ← ofFn_toVec h.1, LogDet.zipWith_ofFn, toVec_ofFn]
  rfl

/-- **C02 for TriangularAffine**: the forward map is differentiable everywhere with Jacobian `A`
(`toLin' A`), `det A = ∏ Aᵢᵢ ≠ 0`, and the returned log-det `Σ log|Aᵢᵢ|` is `log |det A|`. -/
theorem triangular_ld {t : Tri.TriAffine ℝ} (h : TriWF n t) :
    (t.toBij : Bij (List ℝ) C ℝ).LdCorrectVecWith n Set.univ (fun _ => toMat n t.triangular) := by
  intro v _ c
  obtain ⟨hdet, hne⟩ := h.det
  have hcm : coordMap n (fun x => (t.toBij : Bij (List ℝ) C ℝ).fwd x c)
      = fun v => toMat n t.triangular *ᵥ v + toVec n t.loc :=
    coordMap_eq (fun v => transform_ofFn h v)
  refine ⟨?_, ?_, ?_, ?_⟩
  · rw [hcm]
    exact ((matCLM (toMat n t.triangular)).hasFDerivAt).add_const _
  · intro v'
    show (t.transform (List.ofFn v')).length = n
    rw [transform_ofFn h]; simp
  · rw [hdet]; exact Finset.prod_ne_zero_iff.mpr (fun i _ => hne i)
  · show Tri.logDet t.triangular = _
    rw [logDet_eq h.sq.1, hdet, Finset.abs_prod, Real.log_prod (fun i _ => abs_ne_zero.mpr (hne i))]

end matrix

/-! ### the constructor's matrix is triangular with positive diagonal, for every raw parameter -/
section ctor
variable {n : ℕ}

theorem entry_toTriangular (lower : Bool) (diag : List ℝ) (arr : List (List ℝ)) (hsq : Square n arr)
    (hd : diag.length = n) {i j : ℕ} (hi : i < n) (hj : j < n) :
    entry (Params.toTriangular lower diag arr) i j
      = (if j = i then diag.getD i 0 else 0) + (if (if lower then j < i else i < j) then entry arr i j else 0) := by
  obtain ⟨h1, h2⟩ := hsq
  have hdi : diag[i]? = some diag[i] := List.getElem?_eq_getElem (by omega)
  have hai : arr[i]? = some arr[i] := List.getElem?_eq_getElem (by omega)
  have hr : (arr[i]'(by omega)).length = n := h2 _ (List.getElem_mem _)
  have haj : (arr[i]'(by omega))[j]? = some ((arr[i]'(by omega))[j]'(by omega)) := List.getElem?_eq_getElem (by omega)
  have h := ParamsPf.toTriangular_entry lower diag arr i j _ _ _ hdi hai haj
  simp only [entry, List.getD_eq_getElem?_getD]
  cases hrow : (Params.toTriangular lower diag arr)[i]? with
  | none => rw [hrow] at h; simp at h
  | some row =>
    rw [hrow] at h
    simp only [Option.bind_some] at h
    simp [h, hdi, hai, haj]

theorem toTriangular_square (lower : Bool) (diag : List ℝ) (arr : List (List ℝ)) (hsq : Square n arr)
    (hd : diag.length = n) : Square n (Params.toTriangular lower diag arr) := by
  obtain ⟨h1, h2⟩ := hsq
  refine ⟨by simp [Params.toTriangular, hd, h1], ?_⟩
  intro r hr
  obtain ⟨i, hi, rfl⟩ := List.getElem_of_mem hr
  have hlen : (Params.toTriangular lower diag arr).length = n := by simp [Params.toTriangular, hd, h1]
  have h := ParamsPf.toTriangular_getElem? lower diag arr i
  rw [List.getElem?_eq_getElem hi, List.getElem?_eq_getElem (show i < diag.length by omega),
    List.getElem?_eq_getElem (show i < arr.length by omega)] at h
  simp only [Option.some.injEq] at h
  rw [h, List.length_mapIdx]
  exact h2 _ (List.getElem_mem _)

/-- `TriangularAffine` for raw diagonal parameters `raw` (any reals), square `arr`, `loc` of matching
length: the unwrapped matrix is triangular in the requested orientation with diagonal `softplus rawᵢ > 0`. -/
theorem ofRaw_wf (lower : Bool) (raw : List ℝ) (arr : List (List ℝ)) (loc : List ℝ) (hsq : Square n arr)
    (hr : raw.length = n) (hl : loc.length = n) : TriWF n (Tri.ofRaw lower raw arr loc) := by
  have hd : (raw.map (fun r => (Params.softplusRaw r).unwrap)).length = n := by simpa using hr
  have hS := toTriangular_square lower _ arr hsq hd
  have hdiag : ∀ i, i < n →
      entry (Params.toTriangular lower (raw.map (fun r => (Params.softplusRaw r).unwrap)) arr) i i ≠ 0 := by
    intro i hi
    rw [entry_toTriangular lower _ arr hsq hd hi hi]
    have hpos : 0 < (raw.map (fun r => (Params.softplusRaw r).unwrap)).getD i 0 := by
      rw [List.getD_eq_getElem?_getD, List.getElem?_eq_getElem (by omega)]
      simp only [List.getElem_map, Option.getD_some]
      exact ParamsPf.softplusRaw_pos _
    have e : (if (if lower = true then i < i else i < i) then entry arr i i else 0) = 0 := by
      cases lower <;> simp
    rw [if_pos rfl, e, add_zero]
    exact hpos.ne'
  refine ⟨hl, ?_⟩
  cases lower
  · simp only [Tri.ofRaw, Params.triangularOfRaw, Bool.false_eq_true, if_false]
    refine ⟨hS, ?_, hdiag⟩
    intro i j hji hi
    rw [entry_toTriangular false _ arr hsq hd hi (by omega)]
    have h1 : j ≠ i := by omega
    have h2 : ¬ i < j := by omega
    simp [h1, h2]
  · simp only [Tri.ofRaw, Params.triangularOfRaw, if_true]
    refine ⟨hS, ?_, hdiag⟩
    intro i j hij hj
    rw [entry_toTriangular true _ arr hsq hd (by omega) hj]
    have h1 : j ≠ i := by omega
    have h2 : ¬ j < i := by omega
    simp [h1, h2]

/-- every entry of the constructor's matrix: `softplus rawᵢ` on the diagonal, `arr`'s entry strictly inside the
requested triangle, 0 in the other triangle (C11's `tri_entries`, as a Mathlib matrix) -/
theorem toMat_ofRaw (lower : Bool) (raw : List ℝ) (arr : List (List ℝ)) (hsq : Square n arr)
    (hr : raw.length = n) :
    toMat n (Params.triangularOfRaw lower raw arr) = fun (i j : Fin n) =>
      if j = i then Real.log (1 + Real.exp (raw.getD i 0))
      else if (if lower then j < i else i < j) then entry arr i j else 0 := by
  have hd : (raw.map (fun r => (Params.softplusRaw r).unwrap)).length = n := by simpa using hr
  funext i j
  simp only [toMat, Params.triangularOfRaw]
  rw [entry_toTriangular lower _ arr hsq hd i.2 j.2]
  by_cases hji : j = i
  · subst hji
    have e : (if (if lower = true then (j : ℕ) < j else (j : ℕ) < j) then entry arr j j else 0) = 0 := by
      cases lower <;> simp
    rw [if_pos rfl, if_pos rfl, e, add_zero, List.getD_eq_getElem?_getD, List.getD_eq_getElem?_getD,
      List.getElem?_eq_getElem (by omega), List.getElem?_eq_getElem (by omega)]
    simp only [List.getElem_map, Option.getD_some]
    rfl
  · have hji' : (j : ℕ) ≠ i := fun h => hji (Fin.ext h)
    simp [hji, hji']

end ctor
end TriPf
