import Flowjaxv.Gen.BnafGen
import Flowjaxv.Model.BnafLd
import Flowjaxv.Proofs.BnafLd
import Flowjaxv.Proofs.MasksGen
/-!
# The GENERATED `BlockAutoregressiveNetwork` (`Gen/BnafGen.lean`) equals the hand model (`Model/Masks.lean`, `Model/BnafLd.lean`)

`Gen/BnafGen.lean` is re-translated from `/repo/flowjax/bijections/block_autoregressive_network.py` on every run
(`tools/py2lean/py2meth.py`, sheet `targets_bnafnet.py`, world `Model/BnafWorld.lean`).  Here, for EVERY `dim`, depth, `block_dim`,
weights, condition and input:

* `gen_bnaf_transform_eq_model` (every scalar type, `Float` and `ℝ` alike, no shape hypothesis): the generated `transform`
  (the `enumerate(self.layers[:-1])` loop as a monadic fold, the `i == 0 and condition is not None` branch with its `assert`,
  `filter_vmap` of the activation, the last layer) returns `some (Masks.bnafTransform …)`;
* `gen_act_logjac_eq_model`: the generated `_activation_and_log_jacobian_3d` (`jnp.full(-inf)`, `.at[:, d, d].set`, `reshape`) is
  `Masks.actLogJac`;
* `gen_bnaf_fwdld_eq_model` (over `ℝ`, under the shape predicate `BnafOK` of the C01 / C02 theorems): the generated
  `transform_and_log_det` (list `log_dets_3ds`, `.append`, the `reversed(log_dets_3ds[:-1])` chain of `logmatmulexp`, `.sum()`) is
  `some (Masks.bnafTransformAndLogDet …)`;
* `gen_bnaf_inverse_eq_model`, `gen_bnaf_invld_eq_model`: `inverse` / `inverse_and_log_det` for an arbitrary inverter;
* `gen_block_linear_eq_model`: `unwrap` of the linear layer `block_autoregressive_linear` builds (generated masks, generated
  `.unwrap()` bodies) is `BnafLayer.unwrapW` / `bias`;
* `gen_block_logjac_eq_model` (over `ℝ`, well-shaped layer): the closure it returns, applied to that unwrapped layer, is `BnafLayer.logJac`.

The networks the statements range over are `netOf …`: `unwrap(self)` of a network whose layers are the hand model's `BnafLayer`s
(`linOf L` = unwrapped weight and bias) paired with ANY log-Jacobian closures `ljf L` that return `L.logJac` on the layer's own
linear map.
-/

namespace BnafGenPf
open Masks

/-! ## generic folds -/

/-- a left fold whose step sees whether it is the first one -/
def foldFirst {σ γ : Type} (g : Bool → σ → γ → σ) : Bool → σ → List γ → σ
  | _, s, [] => s
  | first, s, a :: l => foldFirst g false (g first s a) l

theorem foldlM_zipIdx_map {σ β γ : Type} (φ : γ → β) (f : σ → Nat × β → Option σ) (g : Bool → σ → γ → σ) :
    ∀ (l : List γ) (k : Nat) (s : σ),
      (∀ s i a, l[i]? = some a → f s (k + i, φ a) = some (g (k + i == 0) s a)) →
      List.foldlM f s (((l.map φ).zipIdx k).map fun p => (p.2, p.1)) = some (foldFirst g (k == 0) s l) := by
  intro l
  induction l with
  | nil => intro k s _; simp [foldFirst]
  | cons a l ih =>
    intro k s h
    have h0 := h s 0 a (by simp)
    simp only [Nat.add_zero] at h0
    simp only [List.map_cons, List.zipIdx_cons, List.foldlM_cons, h0, foldFirst]
    have := ih (k + 1) (g (k == 0) s a) (by
      intro s' i a' hi
      have := h s' (i + 1) a' (by simpa using hi)
      rw [show k + 1 + i = k + (i + 1) by omega]; exact this)
    simpa using this

/-- the loop `for i, … in enumerate(xs)` whose body always succeeds -/
theorem foldlM_enumerate_map {σ β γ : Type} (φ : γ → β) (f : σ → Nat × β → Option σ) (g : Bool → σ → γ → σ)
    (l : List γ) (s : σ) (h : ∀ s i a, l[i]? = some a → f s (i, φ a) = some (g (i == 0) s a)) :
    List.foldlM f s (Bw.enumerate (l.map φ)) = some (foldFirst g true s l) := by
  have := foldlM_zipIdx_map φ f g l 0 s (by intro s i a hi; simpa using h s i a hi)
  simpa [Bw.enumerate] using this


theorem mapIdx_replicate {β γ : Type} (f : Nat → β → γ) (m : Nat) (a : β) :
    (List.replicate m a).mapIdx f = (List.range m).map fun i => f i a := by
  apply List.ext_getElem <;> simp

theorem find_diag_aux (r c : Nat) : ∀ n, (List.range n).find? (fun t => t == r && t == c) = if r = c ∧ r < n then some r else none := by
  intro n
  induction n with
  | zero => simp
  | succ n ih =>
    rw [List.range_succ, List.find?_append, ih]
    by_cases h1 : r = c
    · subst h1
      by_cases h2 : r < n
      · simp [h2, Nat.lt_succ_of_lt h2]
      · by_cases h3 : r = n
        · subst h3; simp
        · have : ¬ r < n + 1 := by omega
          simp [h2, this, Ne.symm h3]
    · have : ∀ t : Nat, (t == r && t == c) = false := by
        intro t; by_cases ht : t = r <;> simp [ht]; intro h; exact h1 (by omega)
      simp [h1, this]

theorem find_diag (bd r c : Nat) :
    (List.range (Bw.arange bd).length).find? (fun t => (Bw.arange bd)[t]? == some r && (Bw.arange bd)[t]? == some c)
      = if r = c ∧ r < bd then some r else none := by
  rw [← find_diag_aux r c bd]
  simp only [Bw.arange, List.length_range]
  apply List.find?_congr
  intro t ht
  have : t < bd := List.mem_range.mp ht
  simp [this]


section generic
variable {α : Type} [Add α] [Sub α] [Mul α] [Div α] [Neg α] [LT α] [LE α] [BEq α]
  [OfNat α 0] [OfNat α 1] [OfNat α 2] [OfNat α 4] [OfScientific α]
  [DecidableLT α] [DecidableLE α] [Transc α] [Inhabited α]

/-- `unwrap(linear)` of a hand layer -/
def linOf (L : BnafLayer α) : Bw.Linear α := ⟨L.unwrapW, L.bias⟩

/-- `unwrap(self)` of the network with the hand model's layers -/
def netOf (A : α → α × α) (act : α → α) (dim bd : Nat) (Ls : List (BnafLayer α))
    (ljf : BnafLayer α → Bw.Linear α → Bw.Blocks α) (condLinear : Option (List (List α)))
    (inverter : List α → Option (List α) → List α) : Bw.Net α :=
  { shape := [dim], block_dim := bd, layers := Ls.map fun L => (linOf L, ljf L),
    cond_linear := condLinear.map fun C => ⟨C⟩, activation := ⟨act, A⟩, inverter := inverter }

theorem linOf_call (L : BnafLayer α) (x : List α) : Bw.Linear.call (linOf L) x = L.apply x := rfl

/-- one pass of the body of the `transform` loop in the hand model -/
def stepT (act : α → α) (ct : Option (List α)) (first : Bool) (x : List α) (L : BnafLayer α) : List α :=
  let h := L.apply x
  let h := match first, ct with
    | true, some c => List.zipWith (· + ·) h c
    | _, _ => h
  h.map act

theorem bnafForward_eq_fold (act : α → α) (ct : Option (List α)) :
    ∀ (Ls : List (BnafLayer α)) (hne : Ls ≠ []) (first : Bool) (x : List α),
      bnafForward act first ct Ls x = (Ls.getLast hne).apply (foldFirst (stepT act ct) first x Ls.dropLast) := by
  intro Ls
  induction Ls with
  | nil => intro h; exact absurd rfl h
  | cons L Ls ih =>
    intro _ first x
    cases Ls with
    | nil => simp [bnafForward, foldFirst]
    | cons L' Ls =>
      have := ih (by simp) false (stepT act ct first x L)
      rw [List.dropLast_cons_cons, foldFirst, List.getLast_cons (by simp), ← this]
      cases first <;> cases ct <;> simp [bnafForward, stepT]

/-- **generated `transform` = hand model**, every scalar type, every `dim`, depth, `block_dim`, weights, condition, input.
Guards (the real code's): there is a last layer (`self.layers[-1]`; the constructor always builds one) and a condition is
passed exactly when the network has a `cond_linear` (`_unwrap_check_and_cast` replaces the condition of an unconditional
network by `None` and raises when a conditional one gets none; with a condition but no `cond_linear` the `assert` fails: `none`). -/
theorem gen_bnaf_transform_eq_model (A : α → α × α) (act : α → α) (dim bd : Nat) (Ls : List (BnafLayer α)) (hne : Ls ≠ [])
    (ljf : BnafLayer α → Bw.Linear α → Bw.Blocks α) (condLinear : Option (List (List α)))
    (inverter : List α → Option (List α) → List α) (x : List α) (condition : Option (List α))
    (hc : condition.isSome = condLinear.isSome) :
    GenBnaf.transform (netOf A act dim bd Ls ljf condLinear inverter) x condition
      = some (bnafTransform act Ls condLinear x (condition.getD [])) := by
  unfold GenBnaf.transform bnafTransform
  simp only [netOf, ← List.map_dropLast, List.getLast?_map, List.getLast?_eq_some_getLast hne, Option.map_some,
    Option.bind_some]
  rw [bnafForward_eq_fold _ _ _ hne]
  cases condition with
  | none =>
    cases condLinear with
    | some C => simp at hc
    | none =>
      rw [foldlM_enumerate_map _ _ (stepT act none) _ _ (by intro s i a _; simp [stepT, linOf_call])]
      simp [linOf_call]
  | some c =>
    cases condLinear with
    | none => simp at hc
    | some C =>
      rw [foldlM_enumerate_map _ _ (stepT act (some (C.map fun row => Jnp.dot row c))) _ _ (by
        intro s i a _
        by_cases hi : i = 0 <;> simp [stepT, linOf_call, hi, Bw.addV, Bw.CondLinear.call])]
      simp [linOf_call]

theorem atSet_full_eq (n bd : Nat) (lag : List α) (hlen : lag.length = n * bd) :
    Bw.atSet3 (Bw.full3 [n, bd, bd] (none : Jnp.Ext α)) (Bw.arange bd) (Bw.arange bd) (Bw.reshape2 lag n bd)
      = actLogJac n bd lag := by
  unfold Bw.atSet3 Bw.full3 actLogJac reshapeRows Bw.reshape2
  simp only [mapIdx_replicate, find_diag, List.map_map]
  apply List.map_congr_left
  intro k hk
  have hk : k < n := List.mem_range.mp hk
  have hn : 0 < n := by omega
  have hp : lag.length / n = bd := by rw [hlen]; exact Nat.mul_div_cancel_left bd hn
  simp only [Function.comp, hp]
  apply List.map_congr_left
  intro r hr
  have hr : r < bd := List.mem_range.mp hr
  apply List.map_congr_left
  intro c hc
  have hrow : r < (List.take bd (List.drop (k * bd) lag)).length := by
    simp only [List.length_take, List.length_drop, hlen]
    have : (k + 1) * bd ≤ n * bd := Nat.mul_le_mul_right bd hk
    have h2 : (k + 1) * bd = k * bd + bd := by ring_nf
    omega
  by_cases h : r = c
  · subst h
    simp [hr, hk, List.getD_eq_getElem?_getD, List.getElem?_eq_getElem hrow]
  · simp [h]


/-- **generated `_activation_and_log_jacobian_3d` = hand model**: for a network of shape `(dim,)` and block dimension `bd`, on
a hidden vector of the length `dim * bd` the code reshapes it to: the activation applied to every unit, and `Masks.actLogJac`
(`full(-inf)` with the log-gradients on the block diagonals). -/
theorem gen_act_logjac_eq_model (N : Bw.Net α) (dim bd : Nat) (hs : N.shape = [dim]) (hb : N.block_dim = bd) (x : List α)
    (hx : x.length = dim * bd) :
    GenBnaf.activationAndLogJacobian3d N x
      = some (x.map (fun z => (N.activation.transform_and_log_det z).1),
          actLogJac dim bd (x.map fun z => (N.activation.transform_and_log_det z).2)) := by
  unfold GenBnaf.activationAndLogJacobian3d
  simp only [hs, hb, List.head?_cons, Option.bind_some, List.unzip_eq_map, List.map_map]
  rw [atSet_full_eq dim bd _ (by simpa using hx)]
  rfl

theorem gen_bnaf_inverse_eq_model (A : α → α × α) (act : α → α) (dim bd : Nat) (Ls : List (BnafLayer α))
    (ljf : BnafLayer α → Bw.Linear α → Bw.Blocks α) (condLinear : Option (List (List α)))
    (inverter : List α → Option (List α) → List α) (y : List α) (condition : Option (List α)) :
    GenBnaf.inverse (netOf A act dim bd Ls ljf condLinear inverter) y condition = inverter y condition := rfl


/-- one pass of the body of the `transform_and_log_det` loop in the hand model: state = (`x`, `log_dets_3ds`) -/
def stepL (A : α → α × α) (n bd : Nat) (ct : Option (List α)) (first : Bool) (s : List α × List (Blocks α)) (L : BnafLayer α) :
    List α × List (Blocks α) :=
  let h := L.apply s.1
  let h := match first, ct with
    | true, some c => List.zipWith (· + ·) h c
    | _, _ => h
  (h.map fun z => (A z).1, s.2 ++ [L.logJac, actLogJac n bd (h.map fun z => (A z).2)])

theorem bnafFwdLds_eq_fold (A : α → α × α) (n bd : Nat) (ct : Option (List α)) :
    ∀ (Ls : List (BnafLayer α)) (hne : Ls ≠ []) (first : Bool) (x : List α) (pre : List (Blocks α)),
      (((Ls.getLast hne).apply (foldFirst (stepL A n bd ct) first (x, pre) Ls.dropLast).1,
        (foldFirst (stepL A n bd ct) first (x, pre) Ls.dropLast).2 ++ [(Ls.getLast hne).logJac]) : List α × List (Blocks α))
      = ((bnafFwdLds A n bd first ct Ls x).1, pre ++ (bnafFwdLds A n bd first ct Ls x).2) := by
  intro Ls
  induction Ls with
  | nil => intro h; exact absurd rfl h
  | cons L Ls ih =>
    intro _ first x pre
    cases Ls with
    | nil => simp [bnafFwdLds, foldFirst]
    | cons L' Ls =>
      have := ih (by simp) false (stepL A n bd ct first (x, pre) L).1 (stepL A n bd ct first (x, pre) L).2
      rw [List.dropLast_cons_cons, foldFirst, List.getLast_cons (by simp), this]
      cases first <;> cases ct <;> simp [bnafFwdLds, stepL]

theorem zipWith_self' {β γ : Type} (f : β → β → γ) (l : List β) : List.zipWith f l l = l.map fun v => f v v := by
  induction l with
  | nil => rfl
  | cons a l ih => simp [*]

theorem wn_unwrap_eq (f : α → α) : ∀ (w : List (List α)) (s : List α),
    (⟨w, s.map f⟩ : Gen.Wr.WeightNormalization α).unwrap
      = List.zipWith (fun row s =>
          let nrm := Transc.sqrt (Jnp.sum (row.map fun v => v * v))
          row.map fun v => f s * v / nrm) w s := by
  intro w
  induction w with
  | nil => intro s; simp [Gen.Wr.WeightNormalization.unwrap]
  | cons r w ih =>
    intro s
    cases s with
    | nil => simp [Gen.Wr.WeightNormalization.unwrap]
    | cons a s =>
      have := ih s
      simp only [Gen.Wr.WeightNormalization.unwrap, Jnp.dot, zipWith_self'] at this ⊢
      simp only [List.map_cons, List.zipWith_cons_cons, this, List.map_map]
      rfl

/-- the hand layer whose raw arrays are the ones the world allocates for `block_autoregressive_linear(key, n_blocks, block_shape)` -/
def layerOfWorld {K : Type} (W : Bw.World K α) (key : K) (n b0 b1 : Nat) : BnafLayer α :=
  let lin := W.linearInit key (b1 * n) (b0 * n)
  { b0 := b0, b1 := b1, n := n, weight := lin.weight, bias := lin.bias,
    scaleRaw := W.wnScaleRaw
      (Bw.WNest.whereN (Gen.blockDiagMask (b0, b1) n)
        (Bw.WNest.reparam (Bw.WNest.whereZ (Gen.blockTrilMask (b0, b1) n 0) (Bw.WNest.raw lin.weight) 0) Bw.softplusBij)
        (Bw.WNest.whereZ (Gen.blockTrilMask (b0, b1) n 0) (Bw.WNest.raw lin.weight) 0)) }

/-- **generated `block_autoregressive_linear` = hand model (the linear layer)**: `unwrap` of the `eqx.nn.Linear` it returns —
the nest `WeightNormalization(Where(block_diag_mask, BijectionReparam(Where(block_tril_mask, W, 0), SoftPlus()),
Where(block_tril_mask, W, 0)))` evaluated node by node with the GENERATED `.unwrap()` bodies over the GENERATED masks — is the
hand model's `BnafLayer.unwrapW` with the same bias, for every key, world (= all weight / bias / raw scale values), `n_blocks` and
block shape, every scalar type. -/
theorem gen_block_linear_eq_model {K : Type} (W : Bw.World K α) (key : K) (n b0 b1 : Nat) :
    (GenBnaf.blockAutoregressiveLinear W key n (b0, b1)).1.unwrap = linOf (layerOfWorld W key n b0 b1) := by
  unfold GenBnaf.blockAutoregressiveLinear linOf layerOfWorld Bw.LinearW.unwrap BnafLayer.unwrapW BnafLayer.preNorm
  simp only [Bw.WNest.unwrap, wn_unwrap_eq, MasksGenPf.gen_blockDiagMask, MasksGenPf.gen_blockTrilMask]
  rfl

end generic

section real
open MasksPf NetLawful

theorem combineLds_concat (l : List (Blocks ℝ)) (z : Blocks ℝ) : combineLds (l ++ [z]) = l.reverse.foldl logmatmulexp3 z := by
  simp [combineLds, List.reverse_append]

theorem bnafOK_ne_nil {dim depth bd : ℕ} {Ls : List (BnafLayer ℝ)} {condLinear : Option (List (List ℝ))}
    (hok : BnafOK dim depth bd Ls condLinear) : Ls ≠ [] := by
  intro h
  have := hok.hshapes
  rw [h] at this
  unfold bnafBlockShapes at this
  split at this <;> simp at this

/-- the hidden vector after a non-last layer has the length `_activation_and_log_jacobian_3d` reshapes it to -/
theorem hidden_length {dim depth bd : ℕ} {Ls : List (BnafLayer ℝ)} {condLinear : Option (List (List ℝ))}
    (hok : BnafOK dim depth bd Ls condLinear) (L : BnafLayer ℝ) (hL : L ∈ Ls.dropLast) (v : List ℝ) :
    (L.apply v).length = dim * bd := by
  have hm : L ∈ Ls := List.mem_of_mem_dropLast hL
  rw [bnafApply_length L (hok.hws L hm).1 v, (hok.hws L hm).2, BnafLd.layers_dropLast depth bd Ls hok.hshapes L hL, Nat.mul_comm]

/-- **generated `transform_and_log_det` = hand model** (`Masks.bnafTransformAndLogDet`, the object of C02 `bnaf_logdet`), over `ℝ`,
for every `dim`, depth, `block_dim ≥ 1`, all well-shaped weights (`BnafOK`, the hypothesis of the C01 / C02 theorems — it supplies
the length `dim * block_dim` of every hidden vector, which `log_abs_grads.reshape(dim, block_dim)` needs), every condition and
input, every activation record and ANY log-Jacobian closures that return `L.logJac` on their own layer. -/
theorem gen_bnaf_fwdld_eq_model (A : ℝ → ℝ × ℝ) (act : ℝ → ℝ) {dim depth bd : ℕ} {Ls : List (BnafLayer ℝ)}
    {condLinear : Option (List (List ℝ))} (hok : BnafOK dim depth bd Ls condLinear)
    (ljf : BnafLayer ℝ → Bw.Linear ℝ → Bw.Blocks ℝ) (hljf : ∀ L ∈ Ls, ljf L (linOf L) = L.logJac)
    (inverter : List ℝ → Option (List ℝ) → List ℝ) (x : List ℝ) (condition : Option (List ℝ))
    (hc : condition.isSome = condLinear.isSome) :
    GenBnaf.transformAndLogDet (netOf A act dim bd Ls ljf condLinear inverter) x condition
      = some (bnafTransformAndLogDet A dim bd Ls condLinear x (condition.getD [])) := by
  have hne := bnafOK_ne_nil hok
  have hl : (netOf A act dim bd Ls ljf condLinear inverter).layers = Ls.map fun L => (linOf L, ljf L) := rfl
  have hcl : (netOf A act dim bd Ls ljf condLinear inverter).cond_linear = condLinear.map fun C => ⟨C⟩ := rfl
  have hA : (netOf A act dim bd Ls ljf condLinear inverter).activation.transform_and_log_det = A := rfl
  have hact := fun h (hh : h.length = dim * bd) =>
    gen_act_logjac_eq_model (netOf A act dim bd Ls ljf condLinear inverter) dim bd rfl rfl h hh
  rw [hA] at hact
  generalize netOf A act dim bd Ls ljf condLinear inverter = N at *
  unfold GenBnaf.transformAndLogDet bnafTransformAndLogDet
  simp only [hl, hcl, ← List.map_dropLast, List.getLast?_map, List.getLast?_eq_some_getLast hne, Option.map_some,
    Option.bind_some]
  have hlast := hljf _ (List.getLast_mem hne)
  cases condition with
  | none =>
    cases condLinear with
    | some C => simp at hc
    | none =>
      rw [foldlM_enumerate_map _ _ (stepL A dim bd none) _ _ (by
        intro s i L hi
        have hmem : L ∈ Ls.dropLast := List.mem_of_getElem? hi
        have hlen := hidden_length hok L hmem s.1
        simp [stepL, linOf_call, hljf L (List.mem_of_mem_dropLast hmem), hact _ hlen])]
      have hfold := bnafFwdLds_eq_fold A dim bd none Ls hne true x []
      simp only [List.nil_append, Prod.mk.injEq] at hfold
      simp only [Option.bind_some, linOf_call, hlast, List.getLast?_concat, List.dropLast_concat, Option.map_none,
        Option.getD_none]
      rw [← hfold.1, ← hfold.2, combineLds_concat]
      rfl
  | some c =>
    cases condLinear with
    | none => simp at hc
    | some C =>
      rw [foldlM_enumerate_map _ _ (stepL A dim bd (some (C.map fun row => Jnp.dot row c))) _ _ (by
        intro s i L hi
        have hmem : L ∈ Ls.dropLast := List.mem_of_getElem? hi
        have hlen := hidden_length hok L hmem s.1
        by_cases hi0 : i = 0
        · subst hi0
          have hhead : L ∈ Ls.head? := by
            have h1 : Ls.dropLast ++ [Ls.getLast hne] = Ls := List.dropLast_concat_getLast hne
            have h2 : 0 < Ls.dropLast.length := by
              rcases List.getElem?_eq_some_iff.mp hi with ⟨h, _⟩; exact h
            rw [List.head?_eq_getElem?, ← h1, List.getElem?_append_left h2]
            exact hi
          have hC : C.length = L.b0 * dim := hok.hcl C rfl L hhead
          have hb0 : L.b0 = bd := BnafLd.layers_dropLast depth bd Ls hok.hshapes L hmem
          have hlen' : (List.zipWith (· + ·) (L.apply s.1) (C.map fun row => Jnp.dot row c)).length = dim * bd := by
            rw [List.length_zipWith, hlen, List.length_map, hC, hb0, Nat.mul_comm bd dim, Nat.min_self]
          simp [stepL, linOf_call, hljf L (List.mem_of_mem_dropLast hmem), hact _ hlen', Bw.addV, Bw.CondLinear.call]
        · simp [stepL, linOf_call, hljf L (List.mem_of_mem_dropLast hmem), hact _ hlen, hi0])]
      have hfold := bnafFwdLds_eq_fold A dim bd (some (C.map fun row => Jnp.dot row c)) Ls hne true x []
      simp only [List.nil_append, Prod.mk.injEq] at hfold
      simp only [Option.bind_some, linOf_call, hlast, List.getLast?_concat, List.dropLast_concat, Option.map_some,
        Option.getD_some]
      rw [← hfold.1, ← hfold.2, combineLds_concat]
      rfl


/-- **generated `inverse_and_log_det` = hand model** for an ARBITRARY inverter: `x = inverter(self, y, condition)`, the forward
log-det at `x`, negated. -/
theorem gen_bnaf_invld_eq_model (A : ℝ → ℝ × ℝ) (act : ℝ → ℝ) {dim depth bd : ℕ} {Ls : List (BnafLayer ℝ)}
    {condLinear : Option (List (List ℝ))} (hok : BnafOK dim depth bd Ls condLinear)
    (ljf : BnafLayer ℝ → Bw.Linear ℝ → Bw.Blocks ℝ) (hljf : ∀ L ∈ Ls, ljf L (linOf L) = L.logJac)
    (inverter : List ℝ → Option (List ℝ) → List ℝ) (y : List ℝ) (condition : Option (List ℝ))
    (hc : condition.isSome = condLinear.isSome) :
    GenBnaf.inverseAndLogDet (netOf A act dim bd Ls ljf condLinear inverter) y condition
      = some (bnafInverseAndLogDet A dim bd Ls condLinear (fun y' _ => inverter y' condition) y (condition.getD [])) := by
  have h := gen_bnaf_fwdld_eq_model A act hok ljf hljf inverter (inverter y condition) condition hc
  unfold GenBnaf.inverseAndLogDet
  have hinv : (netOf A act dim bd Ls ljf condLinear inverter).inverter = inverter := rfl
  simp only [hinv, h, Option.bind_some]
  rfl


section closure
open BnafLd

/-! ## the closure `linear_to_log_block_diagonal` -/

theorem row_gather {β : Type} [Inhabited β] (r : Nat) (Wfull : List (List β)) :
    ∀ (m : List Bool) (w : List β) (c0 : Nat), m.length = w.length →
      (∀ j (hj : j < w.length), (Wfull.getD r []).getD (c0 + j) default = w[j]) →
      ((m.zipIdx c0).filterMap fun (bc : Bool × Nat) => if bc.1 then some (r, bc.2) else none).map
          (fun rc => (Wfull.getD rc.1 []).getD rc.2 default)
        = (List.zip m w).filterMap fun p => if p.1 then some p.2 else none := by
  intro m
  induction m with
  | nil => intro w c0 _ _; simp
  | cons b m ih =>
    intro w c0 hlen h
    cases w with
    | nil => simp at hlen
    | cons x w =>
      have h0 := h 0 (by simp)
      simp only [Nat.add_zero, List.getElem_cons_zero] at h0
      have ih' := ih w (c0 + 1) (by simpa using hlen) (by
        intro j hj
        have := h (j + 1) (by simpa using hj)
        simpa [Nat.add_assoc, Nat.add_comm 1 j] using this)
      cases b
      · simp only [List.zipIdx_cons, List.zip_cons_cons, List.filterMap_cons, Bool.false_eq_true, if_false]; exact ih'
      · simp only [List.zipIdx_cons, List.zip_cons_cons, List.filterMap_cons, if_true, List.map_cons, ih', h0]

theorem pos_gather {β : Type} [Inhabited β] (Wfull : List (List β)) :
    ∀ (mask : List (List Bool)) (Ws : List (List β)) (k : Nat), mask.length = Ws.length →
      (∀ i (hi : i < mask.length) (hi' : i < Ws.length), mask[i].length = Ws[i].length) →
      (∀ i (hi : i < Ws.length), Wfull.getD (k + i) [] = Ws[i]) →
      ((mask.zipIdx k).flatMap fun (rowr : List Bool × Nat) =>
          rowr.1.zipIdx.filterMap fun (bc : Bool × Nat) => if bc.1 then some (rowr.2, bc.2) else none).map
          (fun rc => (Wfull.getD rc.1 []).getD rc.2 default)
        = selectMask mask Ws := by
  intro mask
  induction mask with
  | nil => intro Ws k _ _ _; simp [selectMask]
  | cons m ms ih =>
    intro Ws k hlen hrows hW
    cases Ws with
    | nil => simp at hlen
    | cons w ws =>
      have hk := hW 0 (by simp)
      simp only [Nat.add_zero, List.getElem_cons_zero] at hk
      have hrow := row_gather k Wfull m w 0 (hrows 0 (by simp) (by simp)) (by
        intro j hj; rw [hk]; simp [hj])
      have ih' := ih ws (k + 1) (by simpa using hlen)
        (by intro i hi hi'; exact hrows (i + 1) (by simpa using hi) (by simpa using hi'))
        (by intro i hi
            have := hW (i + 1) (by simpa using hi)
            simpa [Nat.add_assoc, Nat.add_comm 1 i] using this)
      simp only [List.zipIdx_cons, List.flatMap_cons, List.map_append, hrow, ih', selectMask, List.zip_cons_cons]

theorem flatten_length_const {β : Type} (b : ℕ) : ∀ (L : List (List β)), (∀ l ∈ L, l.length = b) → L.flatten.length = L.length * b := by
  intro L
  induction L with
  | nil => simp
  | cons l L ih =>
    intro h
    rw [List.flatten_cons, List.length_append, ih (fun l' hl' => h l' (by simp [hl'])), h l (by simp), List.length_cons]
    ring


theorem selectMask_length (b0 b1 n : ℕ) (W : List (List ℝ)) (hW : HasShape W (b0 * n) (b1 * n)) :
    (selectMask (blockDiagMask b0 b1 n) W).length = b0 * b1 * n := by
  have hmask := blockDiagMask_shape b0 b1 n
  unfold selectMask
  rw [List.flatMap_def]
  set g : List Bool × List ℝ → List ℝ := fun mw => (List.zip mw.1 mw.2).filterMap fun p => if p.1 then some p.2 else none with hg
  have hlen : ((List.zip (blockDiagMask b0 b1 n) W).map g).length = b0 * n := by simp [hmask.1, hW.1]
  have hall : ∀ l ∈ (List.zip (blockDiagMask b0 b1 n) W).map g, l.length = b1 := by
    intro l hl
    obtain ⟨r, hr, rfl⟩ := List.getElem_of_mem hl
    rw [hlen] at hr
    have hrW : r < W.length := by rw [hW.1]; exact hr
    have hrl : W[r].length = b1 * n := hW.2 _ (List.getElem_mem hrW)
    have hrn : r / b0 < n := Nat.div_lt_of_lt_mul hr
    have hm := blockDiagMask_getElem? b0 b1 n r (by rw [Nat.mul_comm]; exact hr)
    have hm' : (blockDiagMask b0 b1 n)[r]'(by rw [hmask.1]; exact hr) = _ := Option.some.inj ((List.getElem?_eq_getElem _).symm.trans hm)
    simp only [List.getElem_map, List.getElem_zip, hg, hm']
    rw [filterMap_mask _ _ _ _ (by
      rw [hrl]
      have : n = r / b0 + 1 + (n - 1 - r / b0) := by omega
      conv_lhs => rw [this]
      ring)]
    simp only [List.length_take, List.length_drop, hrl]
    have : (r / b0 + 1) * b1 ≤ n * b1 := Nat.mul_le_mul_right _ hrn
    have h2 : (r / b0 + 1) * b1 = r / b0 * b1 + b1 := by ring
    have h3 : n * b1 = b1 * n := Nat.mul_comm _ _
    omega
  rw [flatten_length_const b1 _ hall, hlen]
  ring

/-- **generated closure `linear_to_log_block_diagonal` = hand model**: on the unwrapped linear map of a well-shaped layer the closure
the generated `block_autoregressive_linear` returns (`jnp.where(block_diag_mask, size=…)`, `weight[idxs].reshape(n_blocks, *block_shape)`,
`jnp.log`, over the GENERATED `block_diag_mask`) is `BnafLayer.logJac`. -/
theorem gen_block_logjac_eq_model {K : Type} (W : Bw.World K ℝ) (key : K) (L : BnafLayer ℝ) (hL : BnafWellShaped L) :
    (GenBnaf.blockAutoregressiveLinear W key L.n (L.b0, L.b1)).2 (linOf L) = L.logJac := by
  have hsh := unwrapW_shape L hL
  have hmask := blockDiagMask_shape L.b0 L.b1 L.n
  have hpos := pos_gather L.unwrapW (blockDiagMask L.b0 L.b1 L.n) L.unwrapW 0 (by rw [hmask.1, hsh.1])
    (by intro i hi hi'; rw [hmask.2 _ (List.getElem_mem hi), hsh.2 _ (List.getElem_mem hi')])
    (by intro i hi; simp [hi])
  have hlen := congrArg List.length hpos
  rw [List.length_map, selectMask_length _ _ _ _ hsh] at hlen
  unfold GenBnaf.blockAutoregressiveLinear GenBnaf.blockAutoregressiveLinear_linearToLogBlockDiagonal BnafLayer.logJac
  simp only [MasksGenPf.gen_blockDiagMask, linOf, Bw.whereIdx, Bw.gather2, hlen, Nat.sub_self, List.replicate_zero,
    List.append_nil]
  rw [List.take_of_length_le (by rw [hlen]), hpos]
  rfl


/-- the closures of a network whose layers are all built by the generated `block_autoregressive_linear` satisfy the hypothesis
`hljf` of the log-det theorems -/
theorem generated_closures_ok {K : Type} (W : Bw.World K ℝ) (key : BnafLayer ℝ → K) {dim depth bd : ℕ} {Ls : List (BnafLayer ℝ)}
    {condLinear : Option (List (List ℝ))} (hok : BnafOK dim depth bd Ls condLinear) :
    ∀ L ∈ Ls, (fun L => (GenBnaf.blockAutoregressiveLinear W (key L) L.n (L.b0, L.b1)).2) L (linOf L) = L.logJac :=
  fun L hL => gen_block_logjac_eq_model W (key L) L (hok.hws L hL).1
end closure

end real
end BnafGenPf
