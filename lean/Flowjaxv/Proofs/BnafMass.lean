import Flowjaxv.Proofs.NetMass
import Flowjaxv.Proofs.BnafLd
/-!
# C04 in `d` dimensions for `BlockAutoregressiveNetwork`

`bnafBij` packages the hand models `Masks.bnafTransform` (`Model/Masks.lean`) and `Masks.bnafTransformAndLogDet`
(`Model/BnafLd.lean`, the code's own log-space computation with the GENERATED `logmatmulexp`) read in coordinates on `ℝⁿ`.
The library has no analytic inverse (`inverse` calls the numerical `inverter`, C10); the record's `inv` is the EXACT inverse
(`Function.invFun`; it exists and is unique by C01 `bnaf_invertible`), `invLd = (x, −transform_and_log_det(x)[1])` as in the
source.  `Transformed(base, Invert(BNAF))` — what `block_neural_autoregressive_flow` builds by default — evaluates `log_prob` through
`transform_and_log_det` only, so its normalisation statement involves modelled code only.

Log-dets in the model are `Jnp.Ext ℝ = Option ℝ` (`none = −∞`); the record reads them with `.getD 0`.  C02 `bnaf_logdet` proves
the value is always `some (log |det J|)` under the hypotheses below, so the default is never used (`bnafBij_fwdLd_some`).
-/
set_option linter.unusedSectionVars false
set_option linter.unusedVariables false
open Masks MasksPf Gen Set MeasureTheory NetLogDet

namespace BnafMass

section
variable (A : ℝ → ℝ × ℝ) (act : ℝ → ℝ) (dim bd : ℕ) (Ls : List (BnafLayer ℝ)) (condLinear : Option (List (List ℝ)))

/-- the modelled forward map in coordinates -/
noncomputable def fwdC (c : List ℝ) : (Fin dim → ℝ) → Fin dim → ℝ :=
  coords dim fun x => bnafTransform act Ls condLinear x c

/-- the four methods of `BlockAutoregressiveNetwork` on `ℝ^dim`, with the exact inverse in place of the numerical inverter -/
noncomputable def bnafBij : Bij (Fin dim → ℝ) (List ℝ) ℝ where
  fwd x c := fwdC act dim Ls condLinear c x
  inv y c := Function.invFun (fwdC act dim Ls condLinear c) y
  fwdLd x c :=
    (fun i => nth (bnafTransformAndLogDet A dim bd Ls condLinear (List.ofFn x) c).1 i,
      (bnafTransformAndLogDet A dim bd Ls condLinear (List.ofFn x) c).2.getD 0)
  invLd y c :=
    (Function.invFun (fwdC act dim Ls condLinear c) y,
      (Jnp.Ext.neg (bnafTransformAndLogDet A dim bd Ls condLinear
        (List.ofFn (Function.invFun (fwdC act dim Ls condLinear c) y)) c).2).getD 0)

/-- the record's `inverse_and_log_det` IS the model's `bnafInverseAndLogDet` run with the exact inverter -/
theorem bnafBij_invLd_eq (y : Fin dim → ℝ) (c : List ℝ) :
    ((bnafBij A act dim bd Ls condLinear).invLd y c).2 =
      (bnafInverseAndLogDet A dim bd Ls condLinear
        (fun y c => List.ofFn (Function.invFun (fwdC act dim Ls condLinear c) (fun i : Fin dim => nth y i))) (List.ofFn y) c).2.getD 0 := by
  simp [bnafBij, bnafInverseAndLogDet, NetMass.nth_ofFn]

end

section
variable {A : ℝ → ℝ × ℝ} {act : ℝ → ℝ} {dim depth bd : ℕ} {Ls : List (BnafLayer ℝ)} {condLinear : Option (List (List ℝ))}

theorem actOK_strictMono (hA : BnafLd.ActOK A act) : StrictMono act :=
  strictMono_of_deriv_pos fun z => (hA.diff z).2

/-- **the modelled BNAF forward map is a bijection of `ℝ^dim`** — activation a strictly increasing bijection of ℝ, all
well-shaped raw weights, every depth / block_dim ≥ 1, every condition (C01 `bnaf_injective`, `bnaf_slice_surjective`) -/
theorem fwdC_bijective (hact : StrictMono act) (hsurj : Function.Surjective act)
    (hok : NetLawful.BnafOK dim depth bd Ls condLinear) (c : List ℝ) :
    Function.Bijective (fwdC act dim Ls condLinear c) := by
  have hlenT := NetLawful.bnafTransform_length act dim depth bd Ls hok.hshapes hok.hws condLinear c
  constructor
  · intro w w' h
    have h1 : List.ofFn (fwdC act dim Ls condLinear c w) = List.ofFn (fwdC act dim Ls condLinear c w') := by rw [h]
    have e : ∀ w : Fin dim → ℝ, List.ofFn (fwdC act dim Ls condLinear c w) = bnafTransform act Ls condLinear (List.ofFn w) c :=
      fun w => NetMass.ofFn_nth _ dim (hlenT _)
    rw [e, e] at h1
    have := NetLawful.bnaf_injective act hact hok c _ _ (by simp) (by simp) h1
    exact List.ofFn_injective this
  · intro v
    obtain ⟨xs, hxs, hT⟩ := NetLawful.bnaf_surjective_of_slices act hok c
      (fun x i hx hi => (NetLawful.bnaf_slice_surjective act hact hsurj hok c x hx i hi).2) (List.ofFn v) (by simp)
    refine ⟨fun i => nth xs i, ?_⟩
    funext i
    show nth (bnafTransform act Ls condLinear (List.ofFn fun i : Fin dim => nth xs i) c) i = v i
    rw [NetMass.ofFn_nth xs dim hxs, hT, NetMass.nth_ofFn]

/-- the Jacobian of the modelled forward map -/
noncomputable def bnafJac (act : ℝ → ℝ) (dim : ℕ) (Ls : List (BnafLayer ℝ)) (condLinear : Option (List (List ℝ)))
    (c : List ℝ) (v : Fin dim → ℝ) : (Fin dim → ℝ) →L[ℝ] (Fin dim → ℝ) :=
  fderiv ℝ (fwdC act dim Ls condLinear c) v

/-- C02 `bnaf_logdet` for the record: the forward map is differentiable at every point, `det J > 0`, and the model of the
code's `transform_and_log_det` returns `(transform v, some (log |det J|))` -/
theorem bnaf_jac (hA : BnafLd.ActOK A act) (hok : NetLawful.BnafOK dim depth bd Ls condLinear) (c : List ℝ) (v : Fin dim → ℝ) :
    HasFDerivAt (fwdC act dim Ls condLinear c) (bnafJac act dim Ls condLinear c v) v ∧
    0 < (bnafJac act dim Ls condLinear c v).det ∧
    bnafTransformAndLogDet A dim bd Ls condLinear (List.ofFn v) c
      = (bnafTransform act Ls condLinear (List.ofFn v) c, some (Real.log |(bnafJac act dim Ls condLinear c v).det|)) := by
  obtain ⟨J, hJ, hpos, hld⟩ := BnafLd.bnaf_logdet A act hA hok c v
  have hJ' : HasFDerivAt (fwdC act dim Ls condLinear c) J v := hJ
  have e : bnafJac act dim Ls condLinear c v = J := hJ'.fderiv
  rw [e]
  exact ⟨hJ', hpos, hld⟩

/-- the log-det the record reads with `.getD 0` is always finite (`some`): the default is never used -/
theorem bnafBij_fwdLd_some (hA : BnafLd.ActOK A act) (hok : NetLawful.BnafOK dim depth bd Ls condLinear) (c : List ℝ)
    (v : Fin dim → ℝ) :
    (bnafTransformAndLogDet A dim bd Ls condLinear (List.ofFn v) c).2
      = some (((bnafBij A act dim bd Ls condLinear).fwdLd v c).2) := by
  simp only [bnafBij, (bnaf_jac hA hok c v).2.2, Option.getD_some]

theorem bnafBij_lawful (hA : BnafLd.ActOK A act) (hsurj : Function.Surjective act)
    (hok : NetLawful.BnafOK dim depth bd Ls condLinear) :
    (bnafBij A act dim bd Ls condLinear).Lawful univ univ := by
  have hb := fun c => fwdC_bijective (actOK_strictMono hA) hsurj hok c
  refine ⟨fun _ _ _ => trivial, fun _ _ _ => trivial, ?_, ?_, ?_, fun _ _ => rfl⟩
  · intro x _ c
    exact Function.leftInverse_invFun (hb c).1 x
  · intro y _ c
    exact Function.rightInverse_invFun (hb c).2 y
  · intro x c
    funext i
    show nth (bnafTransformAndLogDet A dim bd Ls condLinear (List.ofFn x) c).1 i = _
    rw [(bnaf_jac hA hok c x).2.2]
    rfl

theorem bnafBij_fwdLd (hA : BnafLd.ActOK A act) (hok : NetLawful.BnafOK dim depth bd Ls condLinear) (c : List ℝ)
    (v : Fin dim → ℝ) :
    ((bnafBij A act dim bd Ls condLinear).fwdLd v c).2 = Real.log |(bnafJac act dim Ls condLinear c v).det| := by
  simp only [bnafBij, (bnaf_jac hA hok c v).2.2, Option.getD_some]

/-- `Transformed(base, BNAF)` (`invert=False`): `log_prob` needs the (numerical) inverse; stated for the exact one -/
theorem bnaf_fwdJacN (hA : BnafLd.ActOK A act) (hsurj : Function.Surjective act)
    (hok : NetLawful.BnafOK dim depth bd Ls condLinear) (c : List ℝ) :
    Mass.FwdJacN (bnafBij A act dim bd Ls condLinear) c := by
  refine Mass.FwdJacN.of_fwdLd (bnafBij_lawful hA hsurj hok) (bnafJac act dim Ls condLinear c)
    (Mass.PiecewiseFDeriv.of_hasFDerivAt fun v => (bnaf_jac hA hok c v).1)
    (fun v => ⟨(bnaf_jac hA hok c v).2.1.ne', bnafBij_fwdLd hA hok c v⟩) ?_
  intro x
  have hl := Function.leftInverse_invFun (fwdC_bijective (actOK_strictMono hA) hsurj hok c).1 x
  show (Jnp.Ext.neg (bnafTransformAndLogDet A dim bd Ls condLinear
      (List.ofFn (Function.invFun (fwdC act dim Ls condLinear c) (fwdC act dim Ls condLinear c x))) c).2).getD 0
    = -((bnafTransformAndLogDet A dim bd Ls condLinear (List.ofFn x) c).2.getD 0)
  rw [hl, (bnaf_jac hA hok c x).2.2]
  rfl

/-- **`Mass.InvJacN` for `Invert(BlockAutoregressiveNetwork)`** — the orientation whose density the code evaluates analytically -/
theorem bnaf_invert_invJacN (hA : BnafLd.ActOK A act) (hsurj : Function.Surjective act)
    (hok : NetLawful.BnafOK dim depth bd Ls condLinear) (c : List ℝ) :
    Mass.InvJacN (Gen.Invert.mk (bnafBij A act dim bd Ls condLinear)).toBij c :=
  Mass.InvJacN.invert (bnafBij_lawful hA hsurj hok) (bnafJac act dim Ls condLinear c)
    (Mass.PiecewiseFDeriv.of_hasFDerivAt fun v => (bnaf_jac hA hok c v).1)
    (fun v => ⟨(bnaf_jac hA hok c v).2.1.ne', bnafBij_fwdLd hA hok c v⟩)

end

/-- the default activation `LeakyTanh(max_val)` (generated) is onto ℝ -/
theorem leakyTanh_surjective {m : ℝ} (hm : 0 < m) :
    Function.Surjective (LeakyTanh.transform (LeakyTanh.init m : LeakyTanh ℝ)) :=
  fun y => ⟨_, Leaves.leaky_right (Leaves.leaky_init_wf hm) y⟩

/-! ## the layer predicate used by the stack theorems -/

/-- `b` is a BNAF layer on `ℝⁿ` with an admissible activation, either orientation -/
def IsBnafLayer (n : ℕ) (b : Bij (Fin n → ℝ) (List ℝ) ℝ) : Prop :=
  ∃ (A : ℝ → ℝ × ℝ) (act : ℝ → ℝ) (depth bd : ℕ) (Ls : List (BnafLayer ℝ)) (condLinear : Option (List (List ℝ))),
    BnafLd.ActOK A act ∧ Function.Surjective act ∧ NetLawful.BnafOK n depth bd Ls condLinear ∧
    (b = (Gen.Invert.mk (bnafBij A act n bd Ls condLinear)).toBij ∨ b = bnafBij A act n bd Ls condLinear)

theorem IsBnafLayer.layer {n : ℕ} {b : Bij (Fin n → ℝ) (List ℝ) ℝ} (h : IsBnafLayer n b) (c : List ℝ) :
    Mass.InvJacN b c ∨ Mass.FwdJacN b c := by
  obtain ⟨A, act, depth, bd, Ls, cl, hA, hsurj, hok, rfl | rfl⟩ := h
  · exact Or.inl (bnaf_invert_invJacN hA hsurj hok c)
  · exact Or.inr (bnaf_fwdJacN hA hsurj hok c)

end BnafMass
