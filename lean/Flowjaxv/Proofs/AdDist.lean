import Flowjaxv.Proofs.AdTheory
import Flowjaxv.Gen.DistAst
import Flowjaxv.Model.AdFamilies
/-!
# The distribution families' generated log-density ASTs are gradient-finite on their support (C18)

`Gen/DistAst.lean` holds the bodies of `jax.scipy.stats.*.logpdf` (read from the installed JAX) and of the flowjax
`_log_prob` methods as `Ad.Expr` ASTs; `Model/AdFamilies.lean` wires them as the constructors do.  Here: for every real
input in the support and every real value of every trainable leaf (the scale and degrees-of-freedom leaves are the RAW
softplus-reparameterised values) the AST is `Safe` / `GradFin`; outside a bounded support the value is exactly `−∞`.
-/
set_option linter.unusedSimpArgs false
set_option linter.unusedVariables false
noncomputable section
open Ad EF AdT GenAst

namespace AdD
def twoPi : ℝ := ((OfScientific.ofScientific 6283185307179586 true 15 : ℚ) : ℝ)
def piC : ℝ := ((OfScientific.ofScientific 3141592653589793 true 15 : ℚ) : ℝ)
theorem twoPi_pos : 0 < twoPi := by unfold twoPi; rw [Rat.cast_ofScientific]; norm_num
theorem piC_pos : 0 < piC := by unfold piC; rw [Rat.cast_ofScientific]; norm_num
@[simp] theorem ofSci_twoPi : (Num.ofSci 6283185307179586 true 15 : EF) = fin twoPi := rfl
@[simp] theorem ofSci_piC : (Num.ofSci 3141592653589793 true 15 : EF) = fin piC := rfl
@[simp] theorem ofSci_half : (Num.ofSci 5 true 1 : EF) = fin (1/2) := by
  show fin (((OfScientific.ofScientific 5 true 1 : ℚ)) : ℝ) = _
  rw [Rat.cast_ofScientific]; norm_num

@[simp] theorem set_s_same (env : Env EF) (i : Nat) (v : EF) : (env.set i v).s i = v := by simp [Env.set]
theorem set_s_ne (env : Env EF) {i j : Nat} (v : EF) (h : j ≠ i) : (env.set i v).s j = env.s j := by simp [Env.set, h]

@[simp] theorem fin_div_one (a : ℝ) : (fin a / fin 1 : EF) = fin a := by rw [EF.fin_div one_ne_zero]; simp
@[simp] theorem fin_div_two (a : ℝ) : (fin a / fin 2 : EF) = fin (a / 2) := EF.fin_div two_ne_zero
@[simp] theorem fin_div_neg_two (a : ℝ) : (fin a / fin (-2) : EF) = fin (a / -2) := EF.fin_div (by norm_num)

@[simp] theorem num_log_one : (Num.log (fin 1) : EF) = fin 0 := by rw [EF.num_log one_pos]; simp

@[simp] theorem neg_pinf : (-(pinf) : EF) = ninf := rfl
@[simp] theorem isNaN_nan : (Num.isNaN (nan : EF) : Bool) = true := rfl
@[simp] theorem isNaN_ninf : (Num.isNaN (ninf : EF) : Bool) = false := rfl
@[simp] theorem isNaN_pinf : (Num.isNaN (pinf : EF) : Bool) = false := rfl

/-- the argument of a base log-density is a variable outside the generated let-id range -/
def ArgId (i : Nat) : Prop := i < 101000 ∨ 116000 ≤ i

theorem jnorm_safe {env : Env EF} {i : Nat} (hi : ArgId i) {r : ℝ} (h : env.s i = fin r) :
    Safe env (Jstats.norm.logpdf.ast (Expr.var i)) := by
  unfold ArgId at hi
  have h2 := twoPi_pos
  simp (disch := omega) [Jstats.norm.logpdf.ast, Safe, Expr.eval, applyPrim, PrimSafe, set_s_ne, h, EF.num_log, h2]

theorem jcauchy_safe {env : Env EF} {i : Nat} (hi : ArgId i) {r : ℝ} (h : env.s i = fin r) :
    Safe env (Jstats.cauchy.logpdf.ast (Expr.var i)) := by
  unfold ArgId at hi
  have h2 := piC_pos
  have h3 : (-1:ℝ) < r * r := by nlinarith [mul_self_nonneg r]
  simp (disch := omega) [Jstats.cauchy.logpdf.ast, Safe, Expr.eval, applyPrim, PrimSafe, set_s_ne, h, EF.num_log, h2, h3]

theorem jlaplace_safe {env : Env EF} {i : Nat} (hi : ArgId i) {r : ℝ} (h : env.s i = fin r) :
    Safe env (Jstats.laplace.logpdf.ast (Expr.var i)) := by
  unfold ArgId at hi
  simp (disch := omega) [Jstats.laplace.logpdf.ast, Safe, Expr.eval, applyPrim, PrimSafe, set_s_ne, h]

theorem jlogistic_safe {env : Env EF} {i : Nat} (hi : ArgId i) {r : ℝ} (h : env.s i = fin r) :
    Safe env (Jstats.logistic.logpdf.ast (Expr.var i)) := by
  unfold ArgId at hi
  simp (disch := omega) [Jstats.logistic.logpdf.ast, Safe, Expr.eval, applyPrim, PrimSafe, set_s_ne, h]

theorem gumbel_safe {env : Env EF} {i : Nat} {r : ℝ} (h : env.s i = fin r) :
    Safe env (StandardGumbel.log_prob.ast (Expr.var i)) := by
  simp [StandardGumbel.log_prob.ast, Safe, Expr.eval, applyPrim, PrimSafe, h]

/-- softplus of a raw leaf: the unwrapped positive parameter -/
def sp (w : ℝ) : ℝ := Real.log (1 + Real.exp w)
theorem sp_pos (w : ℝ) : 0 < sp w := Real.log_pos (by linarith [Real.exp_pos w])

theorem jt_safe {env : Env EF} {i k : Nat} (hi : ArgId i) (hk : ArgId k) {r w : ℝ} (h : env.s i = fin r) (hw : env.s k = fin w) :
    Safe env (Jstats.t.logpdf.ast (Expr.var i) (AdFam.unwrapSoftplus (Expr.var k))) := by
  unfold ArgId at hi hk
  have hd := sp_pos w
  have hd' : sp w ≠ 0 := hd.ne'
  have h1 : 0 < piC * sp w := mul_pos piC_pos hd
  have h2 : 0 < sp w / 2 := by positivity
  have h3 : 0 < sp w / 2 + 2⁻¹ := by positivity
  have h4 : -1 < r * r / sp w := lt_of_lt_of_le (by norm_num) (div_nonneg (mul_self_nonneg r) hd.le)
  unfold sp at hd hd' h1 h2 h3 h4
  simp (disch := omega) [Jstats.t.logpdf.ast, AdFam.unwrapSoftplus, SoftPlus.transform.ast, Safe, Expr.eval, applyPrim, PrimSafe,
    set_s_ne, h, hw, EF.num_log, EF.fin_div hd', h1, h2, h3, h4, hd', EF.num_lgamma h2, EF.num_lgamma h3]

theorem gradFin_var {env : Env EF} {i : Nat} (h : isFin (env.s i)) : GradFin env (Expr.var i) :=
  gradFin_of_safe (e := Expr.var i) h

/-- `jstats.uniform.logpdf` on the closed support `[0, 1]` (both ends included) -/
theorem juniform_gradFin {env : Env EF} {i : Nat} (hi : ArgId i) {r : ℝ} (h : env.s i = fin r) (h0 : 0 ≤ r) (h1 : r ≤ 1) :
    GradFin env (Jstats.uniform.logpdf.ast (Expr.var i)) := by
  unfold ArgId at hi
  unfold Jstats.uniform.logpdf.ast
  refine gradFin_let (gradFin_of_safe ?_) (gradFin_sel_false ?_ (zeroCtFin_const _ _) (gradFin_var ?_))
  · simp [Safe, Expr.eval, applyPrim, PrimSafe]
  · simp (disch := omega) [Expr.eval, set_s_ne, h, not_lt.mpr h0, not_lt.mpr h1]
  · simp [Expr.eval, applyPrim, EF.num_log]

/-- … and `−∞` (not NaN) outside -/
theorem juniform_outside {env : Env EF} {i : Nat} (hi : ArgId i) {r : ℝ} (h : env.s i = fin r) (ho : r < 0 ∨ 1 < r) :
    (Jstats.uniform.logpdf.ast (Expr.var i)).eval env = ninf := by
  unfold ArgId at hi
  rcases ho with ho | ho
  · simp (disch := omega) [Jstats.uniform.logpdf.ast, Expr.eval, set_s_ne, h, ho]
  · simp (disch := omega) [Jstats.uniform.logpdf.ast, Expr.eval, set_s_ne, h, ho]

theorem jexpon_gradFin {env : Env EF} {i : Nat} (hi : ArgId i) {r : ℝ} (h : env.s i = fin r) (h0 : 0 ≤ r) :
    GradFin env (Jstats.expon.logpdf.ast (Expr.var i)) := by
  unfold ArgId at hi
  unfold Jstats.expon.logpdf.ast
  refine gradFin_let (gradFin_of_safe ?_) (gradFin_let (gradFin_of_safe ?_) (gradFin_let (gradFin_of_safe ?_)
    (gradFin_sel_false ?_ (zeroCtFin_const _ _) (gradFin_var ?_))))
  · simp [Safe, Expr.eval, applyPrim, PrimSafe]
  · simp (disch := omega) [Safe, Expr.eval, set_s_ne, h]
  · simp (disch := omega) [Safe, Expr.eval, set_s_ne, h, applyPrim, EF.num_log]
  · simp (disch := omega) [Expr.eval, set_s_ne, h, not_lt.mpr h0]
  · simp (disch := omega) [Expr.eval, set_s_ne, h, applyPrim, EF.num_log]

theorem jexpon_outside {env : Env EF} {i : Nat} (hi : ArgId i) {r : ℝ} (h : env.s i = fin r) (ho : r < 0) :
    (Jstats.expon.logpdf.ast (Expr.var i)).eval env = ninf := by
  unfold ArgId at hi
  simp (disch := omega) [Jstats.expon.logpdf.ast, Expr.eval, set_s_ne, h, ho]

/-! ### change of variables and the public post-processing -/

/-- `AbstractTransformed._log_prob`: inverse point, its log-det and the base log-density at the point, each gradient-finite
where it is evaluated -/
theorem transformed_gradFin {env : Env EF} {ild : Expr EF → Expr EF × Expr EF} {base : Expr EF → Expr EF} {x : Expr EF}
    (h1 : GradFin env (ild x).1)
    (h2 : GradFin (env.set 116001 ((ild x).1.eval env)) (ild x).2)
    (h3 : GradFin ((env.set 116001 ((ild x).1.eval env)).set 116002 ((ild x).2.eval (env.set 116001 ((ild x).1.eval env))))
      (base (Expr.var 116001))) :
    GradFin env (AbstractTransformed.log_prob.ast ild base x) := by
  unfold AbstractTransformed.log_prob.ast
  refine gradFin_let h1 (gradFin_let h2 (gradFin_let h3 (gradFin_add (gradFin_var ?_) (gradFin_var ?_))))
  · simpa using h3.1
  · rw [set_s_ne _ _ (by decide)]; simpa using h2.1

/-- the public `log_prob` is NEVER NaN — for every private value (finite, ±∞ or NaN), every distribution and flow -/
theorem pub_never_nan (env : Env EF) (lps : Expr EF) :
    ¬ EF.isNaN ((AbstractDistribution.log_prob_post.ast lps).eval env) := by
  simp only [AbstractDistribution.log_prob_post.ast, Expr.eval]
  cases h : lps.eval env <;> simp [EF.isNaN]

/-- … and it passes a gradient-finite private value through unchanged (the `-inf` branch is a constant) -/
theorem pub_gradFin {env : Env EF} {lps : Expr EF} (h : GradFin env lps) :
    GradFin env (AbstractDistribution.log_prob_post.ast lps) := by
  obtain ⟨r, hr⟩ := isFin_iff.mp h.1
  exact gradFin_sel_false (by simp [hr]) (zeroCtFin_const _ _) h

theorem pub_eval_of_fin {env : Env EF} {lps : Expr EF} {r : ℝ} (h : lps.eval env = fin r) :
    (AbstractDistribution.log_prob_post.ast lps).eval env = fin r := by
  simp [AbstractDistribution.log_prob_post.ast, Expr.eval, h]

theorem pub_eval_of_ninf {env : Env EF} {lps : Expr EF} (h : lps.eval env = ninf) :
    (AbstractDistribution.log_prob_post.ast lps).eval env = ninf := by
  simp [AbstractDistribution.log_prob_post.ast, Expr.eval, h]

/-! ### the bijections the constructors install, with their raw (softplus-reparameterised) leaves -/

/-- a family's environment: input, `loc`, raw scale, raw df (ids 0, 11, 12, 13) -/
structure FamEnv (env : Env EF) (x l w d : ℝ) : Prop where
  h0 : env.s 0 = fin x
  h11 : env.s 11 = fin l
  h12 : env.s 12 = fin w
  h13 : env.s 13 = fin d

def envF (x l w d : ℝ) : Env EF :=
  { s := fun i => if i = 0 then fin x else if i = 11 then fin l else if i = 12 then fin w else if i = 13 then fin d else fin 0,
    v := fun _ => [] }
theorem envF_fam (x l w d : ℝ) : FamEnv (envF x l w d) x l w d := ⟨rfl, rfl, rfl, rfl⟩

theorem FamEnv.set {env : Env EF} {x l w d : ℝ} (h : FamEnv env x l w d) {i : Nat} (hi : 100 ≤ i) (v : EF) :
    FamEnv (env.set i v) x l w d :=
  ⟨by rw [set_s_ne _ _ (by omega)]; exact h.h0, by rw [set_s_ne _ _ (by omega)]; exact h.h11,
   by rw [set_s_ne _ _ (by omega)]; exact h.h12, by rw [set_s_ne _ _ (by omega)]; exact h.h13⟩

open AdFam in
theorem affineIld_safe {env : Env EF} {x l w d : ℝ} (h : FamEnv env x l w d) :
    Safe env (affineIld locLeaf (unwrapSoftplus rawScaleLeaf) (Expr.var 0)).1 ∧
    Safe env (affineIld locLeaf (unwrapSoftplus rawScaleLeaf) (Expr.var 0)).2 ∧
    (affineIld locLeaf (unwrapSoftplus rawScaleLeaf) (Expr.var 0)).1.eval env = fin ((x - l) / sp w) := by
  have hd := sp_pos w
  have hd' : sp w ≠ 0 := hd.ne'
  have ha : 0 < |sp w| := abs_pos.mpr hd'
  unfold sp at hd hd' ha
  refine ⟨?_, ?_, ?_⟩ <;>
  simp (disch := omega) [affineIld, withAffine, locLeaf, rawScaleLeaf, unwrapSoftplus, SoftPlus.transform.ast,
    Affine.inverse_and_log_det.ast, Safe, Expr.eval, applyPrim, PrimSafe, set_s_ne, h.h0, h.h11, h.h12, hd', EF.fin_div hd', ha, sp]

open AdFam in
/-- `Transformed(base, Affine(loc, softplus raw))`: gradient-finite wherever the base is at the standardised point -/
theorem locScale_gradFin {env : Env EF} {x l w d : ℝ} (h : FamEnv env x l w d) {base : Expr EF → Expr EF}
    (hb : ∀ env' : Env EF, env'.s 116001 = fin ((x - l) / sp w) → FamEnv env' x l w d → GradFin env' (base (Expr.var 116001))) :
    GradFin env (locScale base (Expr.var 0)) := by
  unfold locScale
  refine transformed_gradFin (gradFin_of_safe (affineIld_safe h).1)
    (gradFin_of_safe (affineIld_safe (h.set (by norm_num) _)).2.1) (hb _ ?_ ((h.set (by norm_num) _).set (by norm_num) _))
  rw [set_s_ne _ _ (by decide), set_s_same]; exact (affineIld_safe h).2.2

open AdFam in
theorem scaleIld_safe {env : Env EF} {x l w d : ℝ} (h : FamEnv env x l w d) :
    Safe env (scaleIld (unwrapSoftplus rawScaleLeaf) (Expr.var 0)).1 ∧
    Safe env (scaleIld (unwrapSoftplus rawScaleLeaf) (Expr.var 0)).2 ∧
    (scaleIld (unwrapSoftplus rawScaleLeaf) (Expr.var 0)).1.eval env = fin (x / sp w) := by
  have hd := sp_pos w
  have hd' : sp w ≠ 0 := hd.ne'
  have ha : 0 < |sp w| := abs_pos.mpr hd'
  unfold sp at hd hd' ha
  refine ⟨?_, ?_, ?_⟩ <;>
  simp (disch := omega) [scaleIld, rawScaleLeaf, unwrapSoftplus, SoftPlus.transform.ast,
    Scale.inverse_and_log_det.ast, Safe, Expr.eval, applyPrim, PrimSafe, set_s_ne, h.h0, h.h12, hd', EF.fin_div hd', ha, sp]

open AdFam in
/-- `Chain([Affine(loc, scale), Exp()]).inverse_and_log_det` at `x > 0` -/
theorem logNormalIld_safe {env : Env EF} {x l w d : ℝ} (h : FamEnv env x l w d) (hx : 0 < x) :
    Safe env (chainIld [affineIld locLeaf (unwrapSoftplus rawScaleLeaf), Exp.inverse_and_log_det.ast] (Expr.var 0)).1 ∧
    Safe env (chainIld [affineIld locLeaf (unwrapSoftplus rawScaleLeaf), Exp.inverse_and_log_det.ast] (Expr.var 0)).2 ∧
    (chainIld [affineIld locLeaf (unwrapSoftplus rawScaleLeaf), Exp.inverse_and_log_det.ast] (Expr.var 0)).1.eval env
      = fin ((Real.log x - l) / sp w) := by
  have hd := sp_pos w
  have hd' : sp w ≠ 0 := hd.ne'
  have ha : 0 < |sp w| := abs_pos.mpr hd'
  unfold sp at hd hd' ha
  refine ⟨?_, ?_, ?_⟩ <;>
  simp (disch := omega) [chainIld, affineIld, withAffine, locLeaf, rawScaleLeaf, unwrapSoftplus, SoftPlus.transform.ast,
    Affine.inverse_and_log_det.ast, Exp.inverse_and_log_det.ast, Safe, Expr.eval, applyPrim, PrimSafe, set_s_ne, h.h0, h.h11, h.h12,
    hd', EF.fin_div hd', ha, sp, EF.num_log hx, hx]

theorem transformed_eval (env : Env EF) (ild : Expr EF → Expr EF × Expr EF) (base : Expr EF → Expr EF) (x : Expr EF) :
    (AbstractTransformed.log_prob.ast ild base x).eval env =
      (base (Expr.var 116001)).eval ((env.set 116001 ((ild x).1.eval env)).set 116002 ((ild x).2.eval (env.set 116001 ((ild x).1.eval env))))
      + (ild x).2.eval (env.set 116001 ((ild x).1.eval env)) := by
  simp [AbstractTransformed.log_prob.ast, Expr.eval, set_s_ne]

theorem ninf_add_fin (a : ℝ) : (ninf + fin a : EF) = ninf := rfl

open AdFam in
/-- outside `[loc, loc + scale]` the uniform's private and public values are `−∞` -/
theorem uniform_outside {env : Env EF} {x l w d : ℝ} (h : FamEnv env x l w d) (ho : x < l ∨ l + sp w < x) :
    (uniform (Expr.var 0)).eval env = ninf := by
  have hd := sp_pos w
  have hz : (x - l) / sp w < 0 ∨ 1 < (x - l) / sp w := by
    rcases ho with ho | ho
    · left; exact div_neg_of_neg_of_pos (by linarith) hd
    · right; rw [one_lt_div hd]; linarith
  unfold uniform locScale
  rw [transformed_eval]
  have h1 := h.set (i := 116001) (by norm_num) ((affineIld locLeaf (unwrapSoftplus rawScaleLeaf) (Expr.var 0)).1.eval env)
  obtain ⟨a, ha⟩ := isFin_iff.mp (safe_eval_fin _ _ (affineIld_safe h1).2.1)
  rw [ha, StandardUniform.log_prob.ast, juniform_outside (Or.inr (by norm_num)) ?_ hz, ninf_add_fin]
  rw [set_s_ne _ _ (by decide), set_s_same]; exact (affineIld_safe h).2.2
/-! ### the families: private `_log_prob`, every real input in the support, every real leaf value -/
section families
open AdFam
variable {env : Env EF} {x l w d : ℝ}

theorem normal_gradFin (h : FamEnv env x l w d) : GradFin env (normal (Expr.var 0)) :=
  locScale_gradFin h (fun _ h' _ => gradFin_of_safe (jnorm_safe (Or.inr (by norm_num)) h'))
theorem cauchy_gradFin (h : FamEnv env x l w d) : GradFin env (cauchy (Expr.var 0)) :=
  locScale_gradFin h (fun _ h' _ => gradFin_of_safe (jcauchy_safe (Or.inr (by norm_num)) h'))
/-- includes `x = loc`, where `|·|` is differentiated at `0` (JAX's rule gives `+1`, finite) -/
theorem laplace_gradFin (h : FamEnv env x l w d) : GradFin env (laplace (Expr.var 0)) :=
  locScale_gradFin h (fun _ h' _ => gradFin_of_safe (jlaplace_safe (Or.inr (by norm_num)) h'))
theorem logistic_gradFin (h : FamEnv env x l w d) : GradFin env (logistic (Expr.var 0)) :=
  locScale_gradFin h (fun _ h' _ => gradFin_of_safe (jlogistic_safe (Or.inr (by norm_num)) h'))
theorem gumbel_gradFin (h : FamEnv env x l w d) : GradFin env (gumbel (Expr.var 0)) :=
  locScale_gradFin h (fun _ h' _ => gradFin_of_safe (gumbel_safe h'))
/-- every real raw degrees-of-freedom leaf (`df = softplus raw > 0`), adjoint w.r.t. it included (through `lgamma`) -/
theorem studentT_gradFin (h : FamEnv env x l w d) : GradFin env (studentT (Expr.var 0)) :=
  locScale_gradFin h (fun _ h' hf => gradFin_of_safe
    (jt_safe (Or.inr (by norm_num)) (Or.inl (by norm_num)) h' hf.h13))
/-- the closed support, both ends included -/
theorem uniform_gradFin (h : FamEnv env x l w d) (h0 : l ≤ x) (h1 : x ≤ l + sp w) : GradFin env (uniform (Expr.var 0)) :=
  locScale_gradFin h (fun _ h' _ => juniform_gradFin (Or.inr (by norm_num)) h'
    (div_nonneg (by linarith) (sp_pos w).le) ((div_le_one (sp_pos w)).mpr (by linarith)))

theorem exponential_gradFin (h : FamEnv env x l w d) (h0 : 0 ≤ x) : GradFin env (exponential (Expr.var 0)) := by
  unfold exponential
  refine transformed_gradFin (gradFin_of_safe (scaleIld_safe h).1)
    (gradFin_of_safe (scaleIld_safe (h.set (by norm_num) _)).2.1)
    (jexpon_gradFin (Or.inr (by norm_num)) ?_ (div_nonneg h0 (sp_pos w).le))
  rw [set_s_ne _ _ (by decide), set_s_same]; exact (scaleIld_safe h).2.2

theorem exponential_outside (h : FamEnv env x l w d) (ho : x < 0) : (exponential (Expr.var 0)).eval env = ninf := by
  unfold exponential
  rw [transformed_eval]
  have h1 := h.set (i := 116001) (by norm_num) ((scaleIld (unwrapSoftplus rawScaleLeaf) (Expr.var 0)).1.eval env)
  obtain ⟨a, ha⟩ := isFin_iff.mp (safe_eval_fin _ _ (scaleIld_safe h1).2.1)
  rw [ha, StandardExponential.log_prob.ast, jexpon_outside (Or.inr (by norm_num)) ?_ (div_neg_of_neg_of_pos ho (sp_pos w)), ninf_add_fin]
  rw [set_s_ne _ _ (by decide), set_s_same]; exact (scaleIld_safe h).2.2

theorem logNormal_gradFin (h : FamEnv env x l w d) (hx : 0 < x) : GradFin env (logNormal (Expr.var 0)) := by
  unfold logNormal
  refine transformed_gradFin (gradFin_of_safe (logNormalIld_safe h hx).1)
    (gradFin_of_safe (logNormalIld_safe (h.set (by norm_num) _) hx).2.1)
    (gradFin_of_safe (jnorm_safe (r := (Real.log x - l) / sp w) (Or.inr (by norm_num)) ?_))
  rw [set_s_ne _ _ (by decide), set_s_same]; exact (logNormalIld_safe h hx).2.2

end families
end AdD
end
