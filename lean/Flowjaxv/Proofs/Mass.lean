import Mathlib.MeasureTheory.Function.JacobianOneDim
/-!
# Change of variables, globally: total mass and push-forward laws (pure Mathlib, no flowjax yet)

* `mass_preserved` / `pushforward_density` — finite-dimensional `E`, everywhere differentiable
  bijection with non-vanishing Jacobian determinant;
* `mass_preserved_1d` / `pushforward_density_1d` — the same on `ℝ` with `HasDerivAt`;
* `PiecewiseDeriv f f'` — `f` has derivative `f'` on finitely many measurable, pairwise disjoint
  pieces covering `ℝ` (one-sided at piece boundaries: this is what a spline with boundary
  derivative ≠ 1, or any other kinked monotone map, satisfies);
* `integral_range_eq_of_piecewise`, `lintegral_image_eq_of_piecewise` — change of variables for
  such maps (no integrability or measurability hypothesis on the integrand);
* `mass_preserved_pieces` (forward form), `mass_preserved_inv_pieces` (the Jacobian of the
  inverse map is what is known), `mass_preserved_piecewise` (three closed pieces
  `Iic a`, `Icc a b`, `Ici b`);
* `pushforward_density_pieces`, `pushforward_density_inv_pieces` — the push-forward of the
  measure with density `p` under `T` has density `p ∘ T⁻¹ · |det DT⁻¹|`.
-/
open MeasureTheory Set

namespace Mass

/-! ### finite-dimensional, everywhere differentiable -/
section generic
variable {E : Type*} [NormedAddCommGroup E] [NormedSpace ℝ E] [FiniteDimensional ℝ E]
  [MeasurableSpace E] [BorelSpace E] (μ : Measure E) [μ.IsAddHaarMeasure]

/-- total mass is preserved by the change-of-variables density -/
theorem mass_preserved (T Tinv : E → E) (T' : E → E →L[ℝ] E)
    (hT : ∀ x, HasFDerivAt T (T' x) x) (hdet : ∀ x, (T' x).det ≠ 0)
    (hl : Function.LeftInverse Tinv T) (hr : Function.RightInverse Tinv T) (p : E → ℝ) :
    ∫ y, p (Tinv y) * |(T' (Tinv y)).det|⁻¹ ∂μ = ∫ z, p z ∂μ := by
  have hinj : InjOn T univ := fun a _ b _ h => hl.injective h
  have himg : T '' univ = univ := by
    rw [image_univ]; exact hr.surjective.range_eq
  have h := integral_image_eq_integral_abs_det_fderiv_smul μ MeasurableSet.univ
    (fun x _ => (hT x).hasFDerivWithinAt) hinj (fun y => p (Tinv y) * |(T' (Tinv y)).det|⁻¹)
  rw [himg, setIntegral_univ, setIntegral_univ] at h
  rw [h]
  congr 1; funext x
  have : |(T' x).det| ≠ 0 := abs_ne_zero.mpr (hdet x)
  simp only [hl x, smul_eq_mul]; field_simp

/-- the same with the Jacobian of the INVERSE map (the form in which `inverse_and_log_det`
reports it); no non-vanishing hypothesis is needed in this direction -/
theorem mass_preserved_inv (T Tinv : E → E) (D : E → E →L[ℝ] E)
    (hD : ∀ y, HasFDerivAt Tinv (D y) y)
    (hl : Function.LeftInverse Tinv T) (hr : Function.RightInverse Tinv T) (p : E → ℝ) :
    ∫ y, p (Tinv y) * |(D y).det| ∂μ = ∫ z, p z ∂μ := by
  have hinj : InjOn Tinv univ := fun a _ b _ h => hr.injective h
  have himg : Tinv '' univ = univ := by
    rw [image_univ]; exact hl.surjective.range_eq
  have h := integral_image_eq_integral_abs_det_fderiv_smul μ MeasurableSet.univ
    (fun x _ => (hD x).hasFDerivWithinAt) hinj p
  rw [himg, setIntegral_univ, setIntegral_univ] at h
  rw [h]
  congr 1; funext x
  simp only [smul_eq_mul]; ring

/-- **sampler and density agree as distributions**: if `Z` has density `p` w.r.t. `μ` then
`T Z` has density `y ↦ p (T⁻¹ y) · |det DT (T⁻¹ y)|⁻¹` -/
theorem pushforward_density (T Tinv : E → E) (T' : E → E →L[ℝ] E)
    (hT : ∀ x, HasFDerivAt T (T' x) x) (hdet : ∀ x, (T' x).det ≠ 0)
    (hl : Function.LeftInverse Tinv T) (hr : Function.RightInverse Tinv T) (p : E → ℝ) :
    Measure.map T (μ.withDensity fun z => ENNReal.ofReal (p z))
      = μ.withDensity fun y => ENNReal.ofReal (p (Tinv y) * |(T' (Tinv y)).det|⁻¹) := by
  have hcont : Continuous T := continuous_iff_continuousAt.mpr fun x => (hT x).continuousAt
  have hmeas : Measurable T := hcont.measurable
  ext A hA
  rw [Measure.map_apply hmeas hA, withDensity_apply _ (hmeas hA), withDensity_apply _ hA]
  have hinj : InjOn T (T ⁻¹' A) := fun a _ b _ h => hl.injective h
  have himg : T '' (T ⁻¹' A) = A := image_preimage_eq A hr.surjective
  have h := lintegral_image_eq_lintegral_abs_det_fderiv_mul μ (hmeas hA)
    (fun x _ => (hT x).hasFDerivWithinAt) hinj
    (fun y => ENNReal.ofReal (p (Tinv y) * |(T' (Tinv y)).det|⁻¹))
  rw [himg] at h
  rw [h]
  refine setLIntegral_congr_fun (hmeas hA) (fun x _ => ?_)
  simp only [hl x]
  rw [← ENNReal.ofReal_mul (abs_nonneg _)]
  congr 1
  have : |(T' x).det| ≠ 0 := abs_ne_zero.mpr (hdet x)
  field_simp

/-- push-forward law with the Jacobian of the inverse map -/
theorem pushforward_density_inv (T Tinv : E → E) (D : E → E →L[ℝ] E)
    (hD : ∀ y, HasFDerivAt Tinv (D y) y)
    (hl : Function.LeftInverse Tinv T) (hr : Function.RightInverse Tinv T) (p : E → ℝ) :
    Measurable T ∧
    Measure.map T (μ.withDensity fun z => ENNReal.ofReal (p z))
      = μ.withDensity fun y => ENNReal.ofReal (p (Tinv y) * |(D y).det|) := by
  have hinj : Function.Injective Tinv := hr.injective
  have hpre : ∀ A : Set E, T ⁻¹' A = Tinv '' A := by
    intro A; ext x; constructor
    · intro hx; exact ⟨T x, hx, hl x⟩
    · rintro ⟨y, hy, rfl⟩; simpa [hr y] using hy
  have himgm : ∀ A : Set E, MeasurableSet A → MeasurableSet (Tinv '' A) := fun A hA =>
    measurable_image_of_fderivWithin hA (fun x _ => (hD x).hasFDerivWithinAt) hinj.injOn
  have hmeas : Measurable T := fun A hA => by rw [hpre]; exact himgm A hA
  refine ⟨hmeas, ?_⟩
  ext A hA
  rw [Measure.map_apply hmeas hA, withDensity_apply _ (hmeas hA), withDensity_apply _ hA, hpre]
  rw [lintegral_image_eq_lintegral_abs_det_fderiv_mul μ hA
    (fun x _ => (hD x).hasFDerivWithinAt) hinj.injOn]
  refine setLIntegral_congr_fun hA (fun x _ => ?_)
  rw [← ENNReal.ofReal_mul (abs_nonneg _), mul_comm]

end generic

/-! ### one real variable, everywhere differentiable -/

theorem mass_preserved_1d (T Tinv T' : ℝ → ℝ)
    (hT : ∀ x, HasDerivAt T (T' x) x) (hne : ∀ x, T' x ≠ 0)
    (hl : Function.LeftInverse Tinv T) (hr : Function.RightInverse Tinv T) (p : ℝ → ℝ) :
    ∫ y, p (Tinv y) * |T' (Tinv y)|⁻¹ = ∫ z, p z := by
  have hinj : InjOn T univ := fun a _ b _ h => hl.injective h
  have himg : T '' univ = univ := by
    rw [image_univ]; exact hr.surjective.range_eq
  have h := integral_image_eq_integral_abs_deriv_smul MeasurableSet.univ
    (fun x _ => (hT x).hasDerivWithinAt) hinj (fun y => p (Tinv y) * |T' (Tinv y)|⁻¹)
  rw [himg, setIntegral_univ, setIntegral_univ] at h
  rw [h]
  congr 1; funext x
  have : |T' x| ≠ 0 := abs_ne_zero.mpr (hne x)
  simp only [hl x, smul_eq_mul]; field_simp

theorem pushforward_density_1d (T Tinv T' : ℝ → ℝ)
    (hT : ∀ x, HasDerivAt T (T' x) x) (hne : ∀ x, T' x ≠ 0)
    (hl : Function.LeftInverse Tinv T) (hr : Function.RightInverse Tinv T) (p : ℝ → ℝ) :
    Measure.map T (volume.withDensity fun z => ENNReal.ofReal (p z))
      = volume.withDensity fun y => ENNReal.ofReal (p (Tinv y) * |T' (Tinv y)|⁻¹) := by
  have hcont : Continuous T := continuous_iff_continuousAt.mpr fun x => (hT x).continuousAt
  have hmeas : Measurable T := hcont.measurable
  ext A hA
  rw [Measure.map_apply hmeas hA, withDensity_apply _ (hmeas hA), withDensity_apply _ hA]
  have hinj : InjOn T (T ⁻¹' A) := fun a _ b _ h => hl.injective h
  have himg : T '' (T ⁻¹' A) = A := image_preimage_eq A hr.surjective
  have h := lintegral_image_eq_lintegral_abs_deriv_mul (hmeas hA)
    (fun x _ => (hT x).hasDerivWithinAt) hinj
    (fun y => ENNReal.ofReal (p (Tinv y) * |T' (Tinv y)|⁻¹))
  rw [himg] at h
  rw [h]
  refine setLIntegral_congr_fun (hmeas hA) (fun x _ => ?_)
  simp only [hl x]
  rw [← ENNReal.ofReal_mul (abs_nonneg _)]
  congr 1
  have : |T' x| ≠ 0 := abs_ne_zero.mpr (hne x)
  field_simp

/-! ### finitely many kinks -/

/-- `f` has derivative `f'` on each of finitely many measurable, pairwise disjoint pieces that
cover `ℝ`; at a boundary point of a piece the derivative is one-sided (within the piece). -/
def PiecewiseDeriv (f f' : ℝ → ℝ) : Prop :=
  ∃ (n : ℕ) (S : Fin n → Set ℝ), (∀ i, MeasurableSet (S i)) ∧ Pairwise (Function.onFun Disjoint S) ∧
    (⋃ i, S i) = univ ∧ ∀ i, ∀ x ∈ S i, HasDerivWithinAt f (f' x) (S i) x

theorem PiecewiseDeriv.of_hasDerivAt {f f' : ℝ → ℝ} (h : ∀ x, HasDerivAt f (f' x) x) :
    PiecewiseDeriv f f' := by
  refine ⟨1, fun _ => univ, fun _ => MeasurableSet.univ, ?_, ?_, fun _ x _ => (h x).hasDerivWithinAt⟩
  · intro i j hij; exact absurd (Subsingleton.elim i j) hij
  · exact iUnion_const _

/-- three pieces `(-∞,a)`, `[a,b]`, `(b,∞)` -/
theorem PiecewiseDeriv.of_three {f f' : ℝ → ℝ} {a b : ℝ} (hab : a ≤ b)
    (h1 : ∀ x ∈ Iio a, HasDerivWithinAt f (f' x) (Iio a) x)
    (h2 : ∀ x ∈ Icc a b, HasDerivWithinAt f (f' x) (Icc a b) x)
    (h3 : ∀ x ∈ Ioi b, HasDerivWithinAt f (f' x) (Ioi b) x) :
    PiecewiseDeriv f f' := by
  refine ⟨3, ![Iio a, Icc a b, Ioi b], ?_, ?_, ?_, ?_⟩
  · intro i; fin_cases i
    · exact measurableSet_Iio
    · exact measurableSet_Icc
    · exact measurableSet_Ioi
  · intro i j hij
    rw [Function.onFun, Set.disjoint_left]
    intro x hx hx'
    fin_cases i <;> fin_cases j <;> simp at hij hx hx' <;> linarith
  · ext x
    simp only [mem_iUnion, mem_univ, iff_true]
    rcases lt_or_ge x a with h | h
    · exact ⟨0, h⟩
    · rcases le_or_gt x b with h' | h'
      · exact ⟨1, ⟨h, h'⟩⟩
      · exact ⟨2, h'⟩
  · intro i; fin_cases i
    · exact h1
    · exact h2
    · exact h3

/-- change of variables for an injective piecewise differentiable map, Bochner integral; no
integrability hypothesis (both sides are 0 together when `g` is not integrable) -/
theorem integral_range_eq_of_piecewise {f f' : ℝ → ℝ} (hf : Function.Injective f)
    (hd : PiecewiseDeriv f f') (g : ℝ → ℝ) :
    ∫ x in range f, g x = ∫ x, |f' x| • g (f x) := by
  obtain ⟨n, S, hm, hdis, hc, hder⟩ := hd
  have hinjS : ∀ i, InjOn f (S i) := fun i => hf.injOn
  have himg_meas : ∀ i, MeasurableSet (f '' S i) := fun i =>
    (hm i).image_of_continuousOn_injOn (fun x hx => (hder i x hx).continuousWithinAt) (hinjS i)
  have himg_disj : Pairwise (Function.onFun Disjoint fun i => f '' S i) := fun i j hij =>
    (disjoint_image_iff hf).mpr (hdis hij)
  have hcover : (⋃ i, f '' S i) = range f := by rw [← image_iUnion, hc, image_univ]
  have key : ∀ i, ∫ x in f '' S i, g x = ∫ x in S i, |f' x| • g (f x) := fun i =>
    integral_image_eq_integral_abs_deriv_smul (hm i) (hder i) (hinjS i) g
  have keyI : ∀ i, IntegrableOn g (f '' S i) ↔ IntegrableOn (fun x => |f' x| • g (f x)) (S i) :=
    fun i => integrableOn_image_iff_integrableOn_abs_deriv_smul (hm i) (hder i) (hinjS i) g
  by_cases hI : ∀ i, IntegrableOn g (f '' S i)
  · rw [← hcover, integral_iUnion_fintype himg_meas himg_disj hI]
    have e : ∫ x, |f' x| • g (f x) = ∫ x in ⋃ i, S i, |f' x| • g (f x) := by
      rw [hc, setIntegral_univ]
    rw [e, integral_iUnion_fintype hm hdis (fun i => (keyI i).mp (hI i))]
    exact Finset.sum_congr rfl (fun i _ => key i)
  · have h1 : ¬ IntegrableOn g (range f) := by
      rw [← hcover, integrableOn_finite_iUnion]; exact hI
    have h2 : ¬ Integrable (fun x => |f' x| • g (f x)) := by
      rw [← integrableOn_univ, ← hc, integrableOn_finite_iUnion]
      intro hh; exact hI (fun i => (keyI i).mpr (hh i))
    rw [integral_undef h1, integral_undef h2]

/-- the same for the lower Lebesgue integral over the image of any measurable set -/
theorem lintegral_image_eq_of_piecewise {f f' : ℝ → ℝ} (hf : Function.Injective f)
    (hd : PiecewiseDeriv f f') {A : Set ℝ} (hA : MeasurableSet A) (g : ℝ → ENNReal) :
    MeasurableSet (f '' A) ∧
    ∫⁻ x in f '' A, g x = ∫⁻ x in A, ENNReal.ofReal |f' x| * g (f x) := by
  obtain ⟨n, S, hm, hdis, hc, hder⟩ := hd
  have hmA : ∀ i, MeasurableSet (A ∩ S i) := fun i => hA.inter (hm i)
  have hderA : ∀ i, ∀ x ∈ A ∩ S i, HasDerivWithinAt f (f' x) (A ∩ S i) x := fun i x hx =>
    (hder i x hx.2).mono inter_subset_right
  have hinjS : ∀ i, InjOn f (A ∩ S i) := fun i => hf.injOn
  have himg_meas : ∀ i, MeasurableSet (f '' (A ∩ S i)) := fun i =>
    (hmA i).image_of_continuousOn_injOn (fun x hx => (hderA i x hx).continuousWithinAt) (hinjS i)
  have hdisA : Pairwise (Function.onFun Disjoint fun i => A ∩ S i) := fun i j hij =>
    (hdis hij).mono inter_subset_right inter_subset_right
  have himg_disj : Pairwise (Function.onFun Disjoint fun i => f '' (A ∩ S i)) := fun i j hij =>
    (disjoint_image_iff hf).mpr (hdisA hij)
  have hA' : A = ⋃ i, A ∩ S i := by rw [← inter_iUnion, hc, inter_univ]
  have hcover : f '' A = ⋃ i, f '' (A ∩ S i) := by rw [← image_iUnion, ← hA']
  refine ⟨by rw [hcover]; exact MeasurableSet.iUnion himg_meas, ?_⟩
  rw [hcover, lintegral_iUnion himg_meas himg_disj]
  conv_rhs => rw [hA', lintegral_iUnion hmA hdisA]
  congr 1; funext i
  exact lintegral_image_eq_lintegral_abs_deriv_mul (hmA i) (hderA i) (hinjS i) g

/-- **mass is preserved, finitely many kinks allowed** (forward form) -/
theorem mass_preserved_pieces (T Tinv T' : ℝ → ℝ) (hd : PiecewiseDeriv T T')
    (hne : ∀ x, T' x ≠ 0)
    (hl : Function.LeftInverse Tinv T) (hr : Function.RightInverse Tinv T) (p : ℝ → ℝ) :
    ∫ y, p (Tinv y) * |T' (Tinv y)|⁻¹ = ∫ z, p z := by
  have h := integral_range_eq_of_piecewise hl.injective hd (fun y => p (Tinv y) * |T' (Tinv y)|⁻¹)
  rw [hr.surjective.range_eq, setIntegral_univ] at h
  rw [h]
  congr 1; funext x
  have : |T' x| ≠ 0 := abs_ne_zero.mpr (hne x)
  simp only [hl x, smul_eq_mul]; field_simp

/-- mass is preserved, with the (piecewise) derivative of the inverse map -/
theorem mass_preserved_inv_pieces (T Tinv d : ℝ → ℝ) (hd : PiecewiseDeriv Tinv d)
    (hl : Function.LeftInverse Tinv T) (hr : Function.RightInverse Tinv T) (p : ℝ → ℝ) :
    ∫ y, p (Tinv y) * |d y| = ∫ z, p z := by
  have h := integral_range_eq_of_piecewise hr.injective hd p
  rw [hl.surjective.range_eq, setIntegral_univ] at h
  rw [h]
  congr 1; funext x
  simp only [smul_eq_mul]; ring

/-- **the piecewise version asked for**: `ℝ = (-∞,a] ∪ [a,b] ∪ [b,∞)`, one-sided derivatives at
the two kinks `a`, `b` (the overlap points are null); `T' a`, `T' b` are the derivatives from
inside `[a,b]`. -/
theorem mass_preserved_piecewise (T Tinv T' : ℝ → ℝ) {a b : ℝ} (hab : a ≤ b)
    (h1 : ∀ x < a, HasDerivWithinAt T (T' x) (Iic a) x)
    (h2 : ∀ x ∈ Icc a b, HasDerivWithinAt T (T' x) (Icc a b) x)
    (h3 : ∀ x, b < x → HasDerivWithinAt T (T' x) (Ici b) x)
    (hne : ∀ x, T' x ≠ 0)
    (hl : Function.LeftInverse Tinv T) (hr : Function.RightInverse Tinv T) (p : ℝ → ℝ) :
    ∫ y, p (Tinv y) * |T' (Tinv y)|⁻¹ = ∫ z, p z :=
  mass_preserved_pieces T Tinv T'
    (PiecewiseDeriv.of_three hab (fun x hx => (h1 x hx).mono Iio_subset_Iic_self) h2
      (fun x hx => (h3 x hx).mono Ioi_subset_Ici_self)) hne hl hr p

/-- piecewise continuous on finitely many measurable pieces ⇒ measurable -/
theorem PiecewiseDeriv.measurable {f f' : ℝ → ℝ} (hd : PiecewiseDeriv f f') : Measurable f := by
  obtain ⟨n, S, hm, -, hc, hder⟩ := hd
  intro A hA
  have e : f ⁻¹' A = ⋃ i, S i ∩ f ⁻¹' A := by rw [← iUnion_inter, hc, univ_inter]
  rw [e]
  refine MeasurableSet.iUnion fun i => ?_
  have hcont : ContinuousOn f (S i) := fun x hx => (hder i x hx).continuousWithinAt
  have h1 : Measurable ((S i).domRestrict f) := (continuousOn_iff_continuous_domRestrict.mp hcont).measurable
  have h2 := (hm i).subtype_image (h1 hA)
  have e2 : (Subtype.val '' ((S i).domRestrict f ⁻¹' A)) = S i ∩ f ⁻¹' A := by
    ext x; constructor
    · rintro ⟨⟨y, hy⟩, hyA, rfl⟩; exact ⟨hy, hyA⟩
    · rintro ⟨hx, hxA⟩; exact ⟨⟨x, hx⟩, hxA, rfl⟩
  rwa [e2] at h2

/-- push-forward law, forward form, kinks allowed -/
theorem pushforward_density_pieces (T Tinv T' : ℝ → ℝ) (hd : PiecewiseDeriv T T')
    (hne : ∀ x, T' x ≠ 0)
    (hl : Function.LeftInverse Tinv T) (hr : Function.RightInverse Tinv T) (p : ℝ → ℝ) :
    Measurable T ∧
    Measure.map T (volume.withDensity fun z => ENNReal.ofReal (p z))
      = volume.withDensity fun y => ENNReal.ofReal (p (Tinv y) * |T' (Tinv y)|⁻¹) := by
  have hmeas := hd.measurable
  refine ⟨hmeas, ?_⟩
  ext A hA
  rw [Measure.map_apply hmeas hA, withDensity_apply _ (hmeas hA), withDensity_apply _ hA]
  have himg : T '' (T ⁻¹' A) = A := image_preimage_eq A hr.surjective
  have h := (lintegral_image_eq_of_piecewise hl.injective hd (hmeas hA)
    (fun y => ENNReal.ofReal (p (Tinv y) * |T' (Tinv y)|⁻¹))).2
  rw [himg] at h
  rw [h]
  refine setLIntegral_congr_fun (hmeas hA) (fun x _ => ?_)
  simp only [hl x]
  rw [← ENNReal.ofReal_mul (abs_nonneg _)]
  congr 1
  have : |T' x| ≠ 0 := abs_ne_zero.mpr (hne x)
  field_simp

/-- push-forward law with the (piecewise) derivative of the inverse map -/
theorem pushforward_density_inv_pieces (T Tinv d : ℝ → ℝ) (hd : PiecewiseDeriv Tinv d)
    (hl : Function.LeftInverse Tinv T) (hr : Function.RightInverse Tinv T) (p : ℝ → ℝ) :
    Measurable T ∧
    Measure.map T (volume.withDensity fun z => ENNReal.ofReal (p z))
      = volume.withDensity fun y => ENNReal.ofReal (p (Tinv y) * |d y|) := by
  have hpre : ∀ A : Set ℝ, T ⁻¹' A = Tinv '' A := by
    intro A; ext x; constructor
    · intro hx; exact ⟨T x, hx, hl x⟩
    · rintro ⟨y, hy, rfl⟩; simpa [hr y] using hy
  have hmeas : Measurable T := fun A hA => by
    rw [hpre]; exact (lintegral_image_eq_of_piecewise hr.injective hd hA (fun _ => 0)).1
  refine ⟨hmeas, ?_⟩
  ext A hA
  rw [Measure.map_apply hmeas hA, withDensity_apply _ (hmeas hA), withDensity_apply _ hA, hpre]
  rw [(lintegral_image_eq_of_piecewise hr.injective hd hA _).2]
  refine setLIntegral_congr_fun hA (fun x _ => ?_)
  rw [← ENNReal.ofReal_mul (abs_nonneg _), mul_comm]

/-! ### finite-dimensional, finitely many pieces (kinks on a null set, e.g. a hyperplane) -/
section piecesN
set_option linter.unusedSectionVars false
variable {E : Type*} [NormedAddCommGroup E] [NormedSpace ℝ E] [FiniteDimensional ℝ E]
  [MeasurableSpace E] [BorelSpace E] (μ : Measure E) [μ.IsAddHaarMeasure]

/-- `f` has Fréchet derivative `f'` on each of finitely many measurable, pairwise disjoint pieces that cover `E`;
at a boundary point of a piece the derivative is taken within the piece. -/
def PiecewiseFDeriv (f : E → E) (f' : E → E →L[ℝ] E) : Prop :=
  ∃ (n : ℕ) (S : Fin n → Set E), (∀ i, MeasurableSet (S i)) ∧ Pairwise (Function.onFun Disjoint S) ∧
    (⋃ i, S i) = univ ∧ ∀ i, ∀ x ∈ S i, HasFDerivWithinAt f (f' x) (S i) x

theorem PiecewiseFDeriv.of_hasFDerivAt {f : E → E} {f' : E → E →L[ℝ] E} (h : ∀ x, HasFDerivAt f (f' x) x) :
    PiecewiseFDeriv f f' := by
  refine ⟨1, fun _ => univ, fun _ => MeasurableSet.univ, ?_, ?_, fun _ x _ => (h x).hasFDerivWithinAt⟩
  · intro i j hij; exact absurd (Subsingleton.elim i j) hij
  · exact iUnion_const _

/-- two pieces: a measurable set and its complement -/
theorem PiecewiseFDeriv.of_two {f : E → E} {f' : E → E →L[ℝ] E} {A : Set E} (hA : MeasurableSet A)
    (h1 : ∀ x ∈ A, HasFDerivWithinAt f (f' x) A x) (h2 : ∀ x ∈ Aᶜ, HasFDerivWithinAt f (f' x) Aᶜ x) :
    PiecewiseFDeriv f f' := by
  refine ⟨2, ![A, Aᶜ], ?_, ?_, ?_, ?_⟩
  · intro i; fin_cases i
    · exact hA
    · exact hA.compl
  · intro i j hij
    rw [Function.onFun, Set.disjoint_left]
    intro x hx hx'
    fin_cases i <;> fin_cases j <;> simp at hij hx hx' <;> contradiction
  · ext x
    simp only [mem_iUnion, mem_univ, iff_true]
    by_cases hx : x ∈ A
    · exact ⟨0, hx⟩
    · exact ⟨1, hx⟩
  · intro i; fin_cases i
    · exact h1
    · exact h2

/-- change of variables for an injective piecewise differentiable map, Bochner integral, no integrability hypothesis -/
theorem integral_range_eq_of_piecewiseN {f : E → E} {f' : E → E →L[ℝ] E} (hf : Function.Injective f)
    (hd : PiecewiseFDeriv f f') (g : E → ℝ) :
    ∫ x in range f, g x ∂μ = ∫ x, |(f' x).det| • g (f x) ∂μ := by
  obtain ⟨n, S, hm, hdis, hc, hder⟩ := hd
  have hinjS : ∀ i, InjOn f (S i) := fun i => hf.injOn
  have himg_meas : ∀ i, MeasurableSet (f '' S i) := fun i =>
    measurable_image_of_fderivWithin (hm i) (hder i) (hinjS i)
  have himg_disj : Pairwise (Function.onFun Disjoint fun i => f '' S i) := fun i j hij =>
    (disjoint_image_iff hf).mpr (hdis hij)
  have hcover : (⋃ i, f '' S i) = range f := by rw [← image_iUnion, hc, image_univ]
  have key : ∀ i, ∫ x in f '' S i, g x ∂μ = ∫ x in S i, |(f' x).det| • g (f x) ∂μ := fun i =>
    integral_image_eq_integral_abs_det_fderiv_smul μ (hm i) (hder i) (hinjS i) g
  have keyI : ∀ i, IntegrableOn g (f '' S i) μ ↔ IntegrableOn (fun x => |(f' x).det| • g (f x)) (S i) μ :=
    fun i => integrableOn_image_iff_integrableOn_abs_det_fderiv_smul μ (hm i) (hder i) (hinjS i) g
  by_cases hI : ∀ i, IntegrableOn g (f '' S i) μ
  · rw [← hcover, integral_iUnion_fintype himg_meas himg_disj hI]
    have e : ∫ x, |(f' x).det| • g (f x) ∂μ = ∫ x in ⋃ i, S i, |(f' x).det| • g (f x) ∂μ := by
      rw [hc, setIntegral_univ]
    rw [e, integral_iUnion_fintype hm hdis (fun i => (keyI i).mp (hI i))]
    exact Finset.sum_congr rfl (fun i _ => key i)
  · have h1 : ¬ IntegrableOn g (range f) μ := by
      rw [← hcover, integrableOn_finite_iUnion]; exact hI
    have h2 : ¬ Integrable (fun x => |(f' x).det| • g (f x)) μ := by
      rw [← integrableOn_univ, ← hc, integrableOn_finite_iUnion]
      intro hh; exact hI (fun i => (keyI i).mpr (hh i))
    rw [integral_undef h1, integral_undef h2]

/-- the same for the lower Lebesgue integral over the image of any measurable set -/
theorem lintegral_image_eq_of_piecewiseN {f : E → E} {f' : E → E →L[ℝ] E} (hf : Function.Injective f)
    (hd : PiecewiseFDeriv f f') {A : Set E} (hA : MeasurableSet A) (g : E → ENNReal) :
    MeasurableSet (f '' A) ∧
    ∫⁻ x in f '' A, g x ∂μ = ∫⁻ x in A, ENNReal.ofReal |(f' x).det| * g (f x) ∂μ := by
  obtain ⟨n, S, hm, hdis, hc, hder⟩ := hd
  have hmA : ∀ i, MeasurableSet (A ∩ S i) := fun i => hA.inter (hm i)
  have hderA : ∀ i, ∀ x ∈ A ∩ S i, HasFDerivWithinAt f (f' x) (A ∩ S i) x := fun i x hx =>
    (hder i x hx.2).mono inter_subset_right
  have hinjS : ∀ i, InjOn f (A ∩ S i) := fun i => hf.injOn
  have himg_meas : ∀ i, MeasurableSet (f '' (A ∩ S i)) := fun i =>
    measurable_image_of_fderivWithin (hmA i) (hderA i) (hinjS i)
  have hdisA : Pairwise (Function.onFun Disjoint fun i => A ∩ S i) := fun i j hij =>
    (hdis hij).mono inter_subset_right inter_subset_right
  have himg_disj : Pairwise (Function.onFun Disjoint fun i => f '' (A ∩ S i)) := fun i j hij =>
    (disjoint_image_iff hf).mpr (hdisA hij)
  have hA' : A = ⋃ i, A ∩ S i := by rw [← inter_iUnion, hc, inter_univ]
  have hcover : f '' A = ⋃ i, f '' (A ∩ S i) := by rw [← image_iUnion, ← hA']
  refine ⟨by rw [hcover]; exact MeasurableSet.iUnion himg_meas, ?_⟩
  rw [hcover, lintegral_iUnion himg_meas himg_disj]
  conv_rhs => rw [hA', lintegral_iUnion hmA hdisA]
  congr 1; funext i
  exact lintegral_image_eq_lintegral_abs_det_fderiv_mul μ (hmA i) (hderA i) (hinjS i) g

/-- **mass is preserved, kinks on finitely many piece boundaries allowed** (forward form) -/
theorem mass_preserved_piecesN (T Tinv : E → E) (T' : E → E →L[ℝ] E) (hd : PiecewiseFDeriv T T')
    (hne : ∀ x, (T' x).det ≠ 0)
    (hl : Function.LeftInverse Tinv T) (hr : Function.RightInverse Tinv T) (p : E → ℝ) :
    ∫ y, p (Tinv y) * |(T' (Tinv y)).det|⁻¹ ∂μ = ∫ z, p z ∂μ := by
  have h := integral_range_eq_of_piecewiseN μ hl.injective hd (fun y => p (Tinv y) * |(T' (Tinv y)).det|⁻¹)
  rw [hr.surjective.range_eq, setIntegral_univ] at h
  rw [h]
  congr 1; funext x
  have : |(T' x).det| ≠ 0 := abs_ne_zero.mpr (hne x)
  simp only [hl x, smul_eq_mul]; field_simp

/-- mass is preserved, with the (piecewise) Jacobian of the inverse map -/
theorem mass_preserved_inv_piecesN (T Tinv : E → E) (D : E → E →L[ℝ] E) (hd : PiecewiseFDeriv Tinv D)
    (hl : Function.LeftInverse Tinv T) (hr : Function.RightInverse Tinv T) (p : E → ℝ) :
    ∫ y, p (Tinv y) * |(D y).det| ∂μ = ∫ z, p z ∂μ := by
  have h := integral_range_eq_of_piecewiseN μ hr.injective hd p
  rw [hl.surjective.range_eq, setIntegral_univ] at h
  rw [h]
  congr 1; funext x
  simp only [smul_eq_mul]; ring

/-- piecewise continuous on finitely many measurable pieces ⇒ measurable -/
theorem PiecewiseFDeriv.measurable {f : E → E} {f' : E → E →L[ℝ] E} (hd : PiecewiseFDeriv f f') : Measurable f := by
  obtain ⟨n, S, hm, -, hc, hder⟩ := hd
  intro A hA
  have e : f ⁻¹' A = ⋃ i, S i ∩ f ⁻¹' A := by rw [← iUnion_inter, hc, univ_inter]
  rw [e]
  refine MeasurableSet.iUnion fun i => ?_
  have hcont : ContinuousOn f (S i) := fun x hx => (hder i x hx).continuousWithinAt
  have h1 : Measurable ((S i).domRestrict f) := (continuousOn_iff_continuous_domRestrict.mp hcont).measurable
  have h2 := (hm i).subtype_image (h1 hA)
  have e2 : (Subtype.val '' ((S i).domRestrict f ⁻¹' A)) = S i ∩ f ⁻¹' A := by
    ext x; constructor
    · rintro ⟨⟨y, hy⟩, hyA, rfl⟩; exact ⟨hy, hyA⟩
    · rintro ⟨hx, hxA⟩; exact ⟨⟨x, hx⟩, hxA, rfl⟩
  rwa [e2] at h2

/-- push-forward law, forward form, kinks allowed -/
theorem pushforward_density_piecesN (T Tinv : E → E) (T' : E → E →L[ℝ] E) (hd : PiecewiseFDeriv T T')
    (hne : ∀ x, (T' x).det ≠ 0)
    (hl : Function.LeftInverse Tinv T) (hr : Function.RightInverse Tinv T) (p : E → ℝ) :
    Measurable T ∧
    Measure.map T (μ.withDensity fun z => ENNReal.ofReal (p z))
      = μ.withDensity fun y => ENNReal.ofReal (p (Tinv y) * |(T' (Tinv y)).det|⁻¹) := by
  have hmeas := hd.measurable
  refine ⟨hmeas, ?_⟩
  ext A hA
  rw [Measure.map_apply hmeas hA, withDensity_apply _ (hmeas hA), withDensity_apply _ hA]
  have himg : T '' (T ⁻¹' A) = A := image_preimage_eq A hr.surjective
  have h := (lintegral_image_eq_of_piecewiseN μ hl.injective hd (hmeas hA)
    (fun y => ENNReal.ofReal (p (Tinv y) * |(T' (Tinv y)).det|⁻¹))).2
  rw [himg] at h
  rw [h]
  refine setLIntegral_congr_fun (hmeas hA) (fun x _ => ?_)
  simp only [hl x]
  rw [← ENNReal.ofReal_mul (abs_nonneg _)]
  congr 1
  have : |(T' x).det| ≠ 0 := abs_ne_zero.mpr (hne x)
  field_simp

/-- push-forward law with the (piecewise) Jacobian of the inverse map -/
theorem pushforward_density_inv_piecesN (T Tinv : E → E) (D : E → E →L[ℝ] E) (hd : PiecewiseFDeriv Tinv D)
    (hl : Function.LeftInverse Tinv T) (hr : Function.RightInverse Tinv T) (p : E → ℝ) :
    Measurable T ∧
    Measure.map T (μ.withDensity fun z => ENNReal.ofReal (p z))
      = μ.withDensity fun y => ENNReal.ofReal (p (Tinv y) * |(D y).det|) := by
  have hpre : ∀ A : Set E, T ⁻¹' A = Tinv '' A := by
    intro A; ext x; constructor
    · intro hx; exact ⟨T x, hx, hl x⟩
    · rintro ⟨y, hy, rfl⟩; simpa [hr y] using hy
  have hmeas : Measurable T := fun A hA => by
    rw [hpre]; exact (lintegral_image_eq_of_piecewiseN μ hr.injective hd hA (fun _ => 0)).1
  refine ⟨hmeas, ?_⟩
  ext A hA
  rw [Measure.map_apply hmeas hA, withDensity_apply _ (hmeas hA), withDensity_apply _ hA, hpre]
  rw [(lintegral_image_eq_of_piecewiseN μ hr.injective hd hA _).2]
  refine setLIntegral_congr_fun hA (fun x _ => ?_)
  rw [← ENNReal.ofReal_mul (abs_nonneg _), mul_comm]

end piecesN

end Mass
