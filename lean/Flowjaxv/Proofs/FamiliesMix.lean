import Flowjaxv.Proofs.Families
import Mathlib.MeasureTheory.Measure.Prod
import Mathlib.MeasureTheory.Measure.WithDensity
/-!
# `VmapMixture`: the sampling side (C05)

`VmapMixture._sample` is formula-based: `key1, key2 = jr.split(key)`; `component = jr.categorical(key1,
log_normalized_weights)`; every array leaf of the vmapped components is indexed by `component`; that
component's `_sample(key2)` is returned.  `Families.vmapMixture` models this with the key being the pair
(categorical draw, second key).  What `jr.categorical` returns — index `i` with probability
`exp(log_normalized_weights[i]) = wᵢ / Σ w` — and the independence of the two halves of `jr.split` are the
trusted primitives; they appear as the product measure `catLaw ws ⊗ κ` below.
-/
open Gen RealInst MeasureTheory Families

namespace MixPf

/-! ### the `take` logic -/

theorem mixtureTake_lt {β : Type} (comps : List β) {i : ℕ} (h : i < comps.length) :
    mixtureTake comps i = some comps[i] := by
  unfold mixtureTake
  rw [Nat.min_eq_left (by omega), List.getElem?_eq_getElem h]

/-- an out-of-range (traced) index is clamped to the last component, never an error or a default -/
theorem mixtureTake_ge {β : Type} (comps : List β) {i : ℕ} (h : comps.length ≤ i) (hne : comps ≠ []) :
    mixtureTake comps i = some (comps[comps.length - 1]'(by
      have := List.length_pos_iff.mpr hne; omega)) := by
  have hpos := List.length_pos_iff.mpr hne
  unfold mixtureTake
  rw [Nat.min_eq_right (by omega), List.getElem?_eq_getElem (by omega)]

theorem mixtureSample_lt {X C K : Type} (comps : List (Distn X C K ℝ)) {i : ℕ} (h : i < comps.length)
    (key2 : K) (c : C) :
    mixtureSample comps (i, key2) c = some (comps[i].sample key2 c) := by
  simp only [mixtureSample, mixtureTake_lt comps h, Option.map_some]

theorem vmapMixture_sample {X C K : Type} [Inhabited X] (comps : List (Distn X C K ℝ)) (ws : List ℝ)
    {i : ℕ} (h : i < comps.length) (key2 : K) (c : C) :
    (vmapMixture comps ws).sample (i, key2) c = comps[i].sample key2 c := by
  simp only [vmapMixture, DistCore.toDist, mixtureSample_lt comps h, Option.getD_some]

theorem vmapMixture_logProb {X C K : Type} [Inhabited X] (comps : List (Distn X C K ℝ)) (ws : List ℝ)
    (x : X) (c : C) :
    (vmapMixture comps ws).logProb x c = mixtureLogProb (comps.map (fun d => d.logProb x c)) ws := rfl

/-- the inherited `_sample_and_log_prob`: the returned log-prob is the mixture's `_log_prob` at the sample -/
theorem vmapMixture_consistent {X C K : Type} [Inhabited X] (comps : List (Distn X C K ℝ)) (ws : List ℝ) :
    (vmapMixture comps ws).Consistent := fun _ _ => rfl

/-! ### list sums as `Finset.range` sums -/

theorem sum_zipWith_range (f : ℝ → ℝ → ℝ) :
    ∀ (ws lps : List ℝ), ws.length = lps.length →
      (List.zipWith f ws lps).sum = ∑ i ∈ Finset.range ws.length, f (ws.getD i 0) (lps.getD i 0)
  | [], [], _ => by simp
  | [], _ :: _, h => by simp at h
  | _ :: _, [], h => by simp at h
  | w :: ws, lp :: lps, h => by
    have ih := sum_zipWith_range f ws lps (by simpa using h)
    rw [List.zipWith_cons_cons, List.sum_cons, ih, List.length_cons, Finset.sum_range_succ']
    simp [add_comm]

theorem sum_map_div (ws : List ℝ) (c : ℝ) : (ws.map (fun w => w / c)).sum = ws.sum / c := by
  induction ws with
  | nil => simp
  | cons a l ih => simp [ih, add_div]

/-! ### the law of the mixture sampler -/

/-- the law of `jr.categorical(key, log_normalized_weights)` for weights `ws`: index `i` with probability
`wᵢ / Σ w` (trusted primitive) -/
noncomputable def catLaw (ws : List ℝ) : Measure ℕ :=
  ∑ i ∈ Finset.range ws.length, ENNReal.ofReal (ws.getD i 0 / ws.sum) • Measure.dirac i

section law
variable {X K : Type} [MeasurableSpace X] [MeasurableSpace K] [Inhabited X]

theorem vmapMixture_sample_measurable (comps : List (Distn X Unit K ℝ)) (ws : List ℝ)
    (hs : ∀ d ∈ comps, Measurable fun k => d.sample k ()) :
    Measurable fun key : ℕ × K => (vmapMixture comps ws).sample key () := by
  apply measurable_from_prod_countable_right
  intro i
  show Measurable fun k => ((mixtureTake comps i).map (fun d => d.sample k ())).getD default
  cases hti : mixtureTake comps i with
  | none => simp
  | some d =>
    have hd : d ∈ comps := by
      unfold mixtureTake at hti
      exact List.mem_of_getElem? hti
    simpa using hs d hd

/-- the mixture density the code computes, as a finite sum -/
theorem exp_mixtureLogProb {ws : List ℝ} (hw : ∀ w ∈ ws, 0 < w) (hne : ws ≠ []) (lps : List ℝ)
    (hl : ws.length = lps.length) :
    Real.exp (mixtureLogProb lps ws)
      = ∑ i ∈ Finset.range ws.length, ws.getD i 0 / ws.sum * Real.exp (lps.getD i 0) := by
  rw [FamiliesPf.mixture_density hw lps, sum_zipWith_range _ ws lps hl]
  have hsum := FamiliesPf.sum_pos_of_pos hw hne
  have hk : 0 < ws.length := List.length_pos_iff.mpr hne
  apply Real.exp_log
  apply Finset.sum_pos
  · intro i hi
    have hi' : i < ws.length := Finset.mem_range.mp hi
    have hwi : 0 < ws.getD i 0 := by
      rw [List.getD_eq_getElem?_getD, List.getElem?_eq_getElem hi', Option.getD_some]
      exact hw _ (List.getElem_mem hi')
    positivity
  · exact ⟨0, Finset.mem_range.mpr hk⟩

/-- **samples of the mixture follow the mixture density.**  Keys: the categorical draw (law `catLaw ws`) and,
independently, the second key (any law `κ`).  If every component's sampler has density `exp ∘ _log_prob`
w.r.t. `μ` under `κ`, then the mixture's `_sample` has density `exp ∘ _log_prob` of the mixture — i.e.
`Σᵢ (wᵢ/Σw)·exp(lpᵢ x)` (`mixture_density`). -/
theorem mixture_sample_law (μ : Measure X) (κ : Measure K) [SFinite κ]
    (comps : List (Distn X Unit K ℝ)) (ws : List ℝ) (hlen : comps.length = ws.length) (hne : ws ≠ [])
    (hw : ∀ w ∈ ws, 0 < w)
    (hs : ∀ d ∈ comps, Measurable fun k => d.sample k ())
    (hlp : ∀ d ∈ comps, Measurable fun x => d.logProb x ())
    (hlaw : ∀ d ∈ comps, Measure.map (fun k => d.sample k ()) κ
      = μ.withDensity fun x => ENNReal.ofReal (Real.exp (d.logProb x ()))) :
    Measure.map (fun key : ℕ × K => (vmapMixture comps ws).sample key ()) ((catLaw ws).prod κ)
      = μ.withDensity fun x => ENNReal.ofReal (Real.exp ((vmapMixture comps ws).logProb x ())) := by
  have hF := vmapMixture_sample_measurable comps ws hs
  have hsum := FamiliesPf.sum_pos_of_pos hw hne
  ext A hA
  rw [Measure.map_apply hF hA, Measure.prod_apply (hF hA), withDensity_apply _ hA]
  -- left: a finite weighted sum over the component index
  have hL : ∫⁻ i, κ (Prod.mk i ⁻¹' ((fun key : ℕ × K => (vmapMixture comps ws).sample key ()) ⁻¹' A)) ∂(catLaw ws)
      = ∑ i ∈ Finset.range ws.length, ENNReal.ofReal (ws.getD i 0 / ws.sum)
          * ∫⁻ x in A, ENNReal.ofReal (Real.exp ((comps.map (fun d => d.logProb x ())).getD i 0)) ∂μ := by
    unfold catLaw
    rw [lintegral_finsetSum_measure]
    refine Finset.sum_congr rfl (fun i hi => ?_)
    have hi' : i < comps.length := by rw [hlen]; exact Finset.mem_range.mp hi
    rw [lintegral_smul_measure, lintegral_dirac, smul_eq_mul]
    congr 1
    have hpre : Prod.mk i ⁻¹' ((fun key : ℕ × K => (vmapMixture comps ws).sample key ()) ⁻¹' A)
        = (fun k => comps[i].sample k ()) ⁻¹' A := by
      ext k
      simp only [Set.mem_preimage, vmapMixture_sample comps ws hi']
    have hd : comps[i] ∈ comps := List.getElem_mem hi'
    rw [hpre, ← Measure.map_apply (hs _ hd) hA, hlaw _ hd, withDensity_apply _ hA]
    refine lintegral_congr (fun x => ?_)
    simp [List.getD_eq_getElem?_getD, List.getElem?_map, List.getElem?_eq_getElem hi']
  rw [hL]
  -- right: the integrand is the same finite sum
  have hR : ∀ x, ENNReal.ofReal (Real.exp ((vmapMixture comps ws).logProb x ()))
      = ∑ i ∈ Finset.range ws.length, ENNReal.ofReal (ws.getD i 0 / ws.sum)
          * ENNReal.ofReal (Real.exp ((comps.map (fun d => d.logProb x ())).getD i 0)) := by
    intro x
    rw [vmapMixture_logProb, exp_mixtureLogProb hw hne _ (by simp [hlen]),
      ENNReal.ofReal_sum_of_nonneg]
    · refine Finset.sum_congr rfl (fun i hi => ?_)
      have hi' : i < ws.length := Finset.mem_range.mp hi
      have hwi : 0 < ws.getD i 0 := by
        rw [List.getD_eq_getElem?_getD, List.getElem?_eq_getElem hi', Option.getD_some]
        exact hw _ (List.getElem_mem hi')
      rw [ENNReal.ofReal_mul (by positivity)]
    · intro i hi
      have hi' : i < ws.length := Finset.mem_range.mp hi
      have hwi : 0 < ws.getD i 0 := by
        rw [List.getD_eq_getElem?_getD, List.getElem?_eq_getElem hi', Option.getD_some]
        exact hw _ (List.getElem_mem hi')
      positivity
  simp_rw [hR]
  have hmeas : ∀ i ∈ Finset.range ws.length, Measurable fun x =>
      ENNReal.ofReal (ws.getD i 0 / ws.sum)
        * ENNReal.ofReal (Real.exp ((comps.map (fun d => d.logProb x ())).getD i 0)) := by
    intro i hi
    have hi' : i < comps.length := by rw [hlen]; exact Finset.mem_range.mp hi
    have e : (fun x => (comps.map (fun d => d.logProb x ())).getD i 0) = fun x => comps[i].logProb x () := by
      funext x
      simp [List.getD_eq_getElem?_getD, List.getElem?_map, List.getElem?_eq_getElem hi']
    have hm : Measurable fun x => (comps.map (fun d => d.logProb x ())).getD i 0 := by
      rw [e]; exact hlp _ (List.getElem_mem hi')
    exact (ENNReal.measurable_ofReal.comp (Real.measurable_exp.comp hm)).const_mul _
  rw [lintegral_finsetSum _ hmeas]
  refine Finset.sum_congr rfl (fun i hi => ?_)
  have hi' : i < comps.length := by rw [hlen]; exact Finset.mem_range.mp hi
  have e : (fun x => (comps.map (fun d => d.logProb x ())).getD i 0) = fun x => comps[i].logProb x () := by
    funext x
    simp [List.getD_eq_getElem?_getD, List.getElem?_map, List.getElem?_eq_getElem hi']
  have hm0 : Measurable fun x => (comps.map (fun d => d.logProb x ())).getD i 0 := by
    rw [e]; exact hlp _ (List.getElem_mem hi')
  have hm : Measurable fun x => ENNReal.ofReal (Real.exp ((comps.map (fun d => d.logProb x ())).getD i 0)) :=
    ENNReal.measurable_ofReal.comp (Real.measurable_exp.comp hm0)
  rw [lintegral_const_mul _ hm]

/-- the categorical law is a probability law: the probabilities `wᵢ/Σw` sum to one -/
theorem catLaw_univ {ws : List ℝ} (hw : ∀ w ∈ ws, 0 < w) (hne : ws ≠ []) : catLaw ws Set.univ = 1 := by
  have hsum := FamiliesPf.sum_pos_of_pos hw hne
  unfold catLaw
  rw [Measure.coe_finsetSum, Finset.sum_apply]
  simp only [Measure.smul_apply, measure_univ, smul_eq_mul, mul_one]
  rw [← ENNReal.ofReal_sum_of_nonneg]
  · have h1 : ∑ i ∈ Finset.range ws.length, ws.getD i 0 / ws.sum = 1 := by
      have := sum_zipWith_range (fun w _ => w / ws.sum) ws ws rfl
      rw [← this]
      have e : List.zipWith (fun w _ => w / ws.sum) ws ws = ws.map (fun w => w / ws.sum) := by
        induction ws with
        | nil => rfl
        | cons a l _ => simp [List.zipWith_self]
      rw [e]
      rw [sum_map_div, div_self hsum.ne']
    rw [h1, ENNReal.ofReal_one]
  · intro i hi
    have hi' : i < ws.length := Finset.mem_range.mp hi
    have hwi : 0 < ws.getD i 0 := by
      rw [List.getD_eq_getElem?_getD, List.getElem?_eq_getElem hi', Option.getD_some]
      exact hw _ (List.getElem_mem hi')
    positivity

end law
end MixPf
