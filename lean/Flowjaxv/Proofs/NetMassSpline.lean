import Flowjaxv.Proofs.NetMassMeas
import Flowjaxv.Proofs.Params
import Flowjaxv.Proofs.Rqs
import Flowjaxv.Model.FlowsPre
import Flowjaxv.Proofs.Flows
/-!
# Joint measurability of the rational-quadratic-spline transformer family (C04, Coupling / MaskedAutoregressive)

`Proofs/NetMassMeas.lean` reduces the two layer facts of a Coupling / MaskedAutoregressive layer to the JOINT measurability
hypotheses `NetMass.CouplingMeas` / `NetMass.MafMeas`.  Here they are discharged for the spline family the premade flows use,
`Flows.rqsFamily cfg init` (`Model/FlowsPre.lean`): GENERATED `_real_to_increasing_on_interval` / derivative lambda
(`Gen/Params.lean`) followed by the GENERATED `RationalQuadraticSpline.transform / inverse / derivative` (`Gen/Leaves.lean`).

Route: a list-valued map `xs : A → List ℝ` on a measurable space `A` is `MeasL` when it is a FIXED list of measurable functions
evaluated pointwise.  `MeasL` is closed under every list operation the parameterisation uses (`take`, `drop`, `map` with a jointly
measurable function, `softmax`, `cumsum`, `setItem`, `pad1`), `searchsorted` of a `MeasL` list at a measurable point is a measurable
ℤ-valued map, `getItem` of a `MeasL` list at a measurable ℤ-valued index is measurable, and the three generated spline methods are
compositions of these with `+ − * /`, `sqrt`, `log`, `clip`, `where`.  No well-formedness of the spline is needed for
measurability (Lean's total division is measurable).
-/
set_option linter.unusedSectionVars false
set_option linter.unusedVariables false
open Masks MasksPf Gen Set MeasureTheory NetLogDet MassShear

namespace NetMass

/-! ## lists of measurable functions -/
section measL
variable {A : Type} [MeasurableSpace A]

/-- a list-valued map that is a fixed list of measurable functions evaluated pointwise -/
def MeasL (xs : A → List ℝ) : Prop :=
  ∃ fs : List (A → ℝ), (∀ f ∈ fs, Measurable f) ∧ ∀ a, xs a = fs.map (fun f => f a)

theorem MeasL.length {xs : A → List ℝ} (h : MeasL xs) : ∃ m, ∀ a, (xs a).length = m := by
  obtain ⟨fs, _, e⟩ := h
  exact ⟨fs.length, fun a => by rw [e]; simp⟩

theorem measL_const (l : List ℝ) : MeasL (fun _ : A => l) :=
  ⟨l.map (fun v _ => v), by
    intro f hf
    obtain ⟨v, _, rfl⟩ := List.mem_map.mp hf
    exact measurable_const, fun a => by simp [Function.comp_def]⟩

theorem MeasL.comp {B : Type} [MeasurableSpace B] {xs : A → List ℝ} (h : MeasL xs) (g : B → A) (hg : Measurable g) :
    MeasL (fun b => xs (g b)) := by
  obtain ⟨fs, hm, e⟩ := h
  refine ⟨fs.map (fun f => f ∘ g), ?_, fun b => by simp [e]⟩
  intro f hf
  obtain ⟨f', hf', rfl⟩ := List.mem_map.mp hf
  exact (hm f' hf').comp hg

theorem MeasL.take {xs : A → List ℝ} (h : MeasL xs) (k : ℕ) : MeasL (fun a => (xs a).take k) := by
  obtain ⟨fs, hm, e⟩ := h
  exact ⟨fs.take k, fun f hf => hm f (List.mem_of_mem_take hf), fun a => by simp only [e, List.map_take]⟩

theorem MeasL.drop {xs : A → List ℝ} (h : MeasL xs) (k : ℕ) : MeasL (fun a => (xs a).drop k) := by
  obtain ⟨fs, hm, e⟩ := h
  exact ⟨fs.drop k, fun f hf => hm f (List.mem_of_mem_drop hf), fun a => by simp only [e, List.map_drop]⟩

theorem MeasL.cons {xs : A → List ℝ} (h : MeasL xs) {v : A → ℝ} (hv : Measurable v) :
    MeasL (fun a => v a :: xs a) := by
  obtain ⟨fs, hm, e⟩ := h
  refine ⟨v :: fs, ?_, fun a => by simp [e]⟩
  intro f hf
  rcases List.mem_cons.mp hf with rfl | hf
  · exact hv
  · exact hm f hf

theorem MeasL.append {xs ys : A → List ℝ} (hx : MeasL xs) (hy : MeasL ys) : MeasL (fun a => xs a ++ ys a) := by
  obtain ⟨fs, hm, e⟩ := hx
  obtain ⟨gs, hm', e'⟩ := hy
  refine ⟨fs ++ gs, ?_, fun a => by simp [e, e']⟩
  intro f hf
  rcases List.mem_append.mp hf with hf | hf
  · exact hm f hf
  · exact hm' f hf

theorem MeasL.set {xs : A → List ℝ} (h : MeasL xs) (i : ℕ) {v : A → ℝ} (hv : Measurable v) :
    MeasL (fun a => (xs a).set i (v a)) := by
  obtain ⟨fs, hm, e⟩ := h
  refine ⟨fs.set i v, ?_, fun a => by simp only [e, List.map_set]⟩
  intro f hf
  rcases List.mem_or_eq_of_mem_set hf with hf | rfl
  · exact hm f hf
  · exact hv

/-- `map` with a function that may itself depend (jointly measurably) on the point -/
theorem MeasL.pmap {xs : A → List ℝ} (h : MeasL xs) (φ : A → ℝ → ℝ)
    (hφ : Measurable fun p : A × ℝ => φ p.1 p.2) : MeasL (fun a => (xs a).map (φ a)) := by
  obtain ⟨fs, hm, e⟩ := h
  refine ⟨fs.map (fun f a => φ a (f a)), ?_, fun a => by simp [e, Function.comp_def]⟩
  intro f hf
  obtain ⟨f', hf', rfl⟩ := List.mem_map.mp hf
  exact hφ.comp (measurable_id.prodMk (hm f' hf'))

theorem MeasL.map {xs : A → List ℝ} (h : MeasL xs) (φ : ℝ → ℝ) (hφ : Measurable φ) :
    MeasL (fun a => (xs a).map φ) :=
  h.pmap (fun _ => φ) (hφ.comp measurable_snd)

/-- every coordinate (`0` past the end) is measurable -/
theorem MeasL.nth {xs : A → List ℝ} (h : MeasL xs) (j : ℕ) : Measurable fun a => MasksPf.nth (xs a) j := by
  obtain ⟨fs, hm, e⟩ := h
  by_cases hj : j < fs.length
  · have : (fun a => MasksPf.nth (xs a) j) = fs[j] := by
      funext a; rw [e]; simp [MasksPf.nth, hj]
    rw [this]; exact hm _ (List.getElem_mem hj)
  · have : (fun a => MasksPf.nth (xs a) j) = fun _ => (0 : ℝ) := by
      funext a; rw [e]; exact nth_of_ge (by simp; omega)
    rw [this]; exact measurable_const

/-- conversely: constant length and measurable coordinates -/
theorem measL_of_nth {xs : A → List ℝ} (m : ℕ) (hl : ∀ a, (xs a).length = m)
    (hc : ∀ j, Measurable fun a => nth (xs a) j) : MeasL xs :=
  ⟨List.ofFn (fun j : Fin m => fun a => nth (xs a) j), by
    intro f hf
    obtain ⟨j, rfl⟩ := (List.mem_ofFn' _ _).mp hf
    exact hc j, fun a => by
    rw [List.map_ofFn]
    exact (ofFn_nth (xs a) m (hl a)).symm⟩

theorem ContC.measL {n : ℕ} {g : (Fin n → ℝ) → List ℝ} (h : ContC g) : MeasL g := by
  obtain ⟨m, hm⟩ := h.len
  exact measL_of_nth m hm fun j => (h.cont j).measurable

theorem MeasL.sum {xs : A → List ℝ} (h : MeasL xs) : Measurable fun a => (xs a).sum := by
  obtain ⟨fs, hm, e⟩ := h
  have : (fun a => (xs a).sum) = fun a => (fs.map (fun f => f a)).sum := by funext a; rw [e]
  rw [this]
  clear e this
  induction fs with
  | nil => simp
  | cons f fs ih =>
    simp only [List.map_cons, List.sum_cons]
    exact (hm f (by simp)).add (ih fun g hg => hm g (by simp [hg]))

theorem MeasL.cumsumFrom {xs : A → List ℝ} (h : MeasL xs) {s : A → ℝ} (hs : Measurable s) :
    MeasL (fun a => ParamsPf.cumsumFrom (s a) (xs a)) := by
  obtain ⟨fs, hm, e⟩ := h
  have : (fun a => ParamsPf.cumsumFrom (s a) (xs a)) = fun a => ParamsPf.cumsumFrom (s a) (fs.map (fun f => f a)) := by
    funext a; rw [e]
  rw [this]
  clear e this
  induction fs generalizing s with
  | nil => simpa [ParamsPf.cumsumFrom] using measL_const (A := A) []
  | cons f fs ih =>
    have hf := hm f (by simp)
    have hsf : Measurable fun a => s a + f a := hs.add hf
    have := ih hsf (fun g hg => hm g (by simp [hg]))
    simpa only [List.map_cons, ParamsPf.cumsumFrom] using this.cons hsf

end measL

/-! ## measurable indices: `searchsorted`, `getItem`, `where`, `clip` -/
section index
variable {A : Type} [MeasurableSpace A]

/-- `jnp.searchsorted` of a measurable list at a measurable point is a measurable integer -/
theorem measurable_searchsorted {xs : A → List ℝ} (h : MeasL xs) {v : A → ℝ} (hv : Measurable v) :
    Measurable fun a => Jnp.searchsorted (xs a) (v a) := by
  obtain ⟨fs, hm, e⟩ := h
  have : (fun a => Jnp.searchsorted (xs a) (v a))
      = fun a => (((fs.map (fun f => f a)).filter (fun x => decide (x < v a))).length : ℤ) := by
    funext a; rw [e]; rfl
  rw [this]
  clear e this
  induction fs with
  | nil => simp
  | cons f fs ih =>
    have hf := hm f (by simp)
    have ih' := ih fun g hg => hm g (by simp [hg])
    have : (fun a => ((((f :: fs).map (fun f => f a)).filter (fun x => decide (x < v a))).length : ℤ))
        = fun a => if f a < v a then (((fs.map (fun f => f a)).filter (fun x => decide (x < v a))).length : ℤ) + 1
            else (((fs.map (fun f => f a)).filter (fun x => decide (x < v a))).length : ℤ) := by
      funext a
      by_cases hlt : f a < v a <;> simp [hlt]
    rw [this]
    exact Measurable.ite (measurableSet_lt hf hv) (ih'.add measurable_const) ih'

/-- the in-range index `Jnp.getItem` reads (wrap a negative index once, then clamp) -/
def gidx (n : ℕ) (i : ℤ) : ℕ :=
  let m : ℤ := n
  let j := if i < 0 then i + m else i
  let j := if j < 0 then 0 else if j ≥ m then m - 1 else j
  j.toNat

theorem getItem_eq_nth (xs : List ℝ) (i : ℤ) : Jnp.getItem xs i = MasksPf.nth xs (gidx xs.length i) := by
  unfold Jnp.getItem gidx MasksPf.nth
  simp only [List.getD_eq_getElem?_getD]
  rfl

/-- `xs[k]` for a measurable list and a measurable (traced) integer index -/
theorem measurable_getItem {xs : A → List ℝ} (h : MeasL xs) {k : A → ℤ} (hk : Measurable k) :
    Measurable fun a => Jnp.getItem (xs a) (k a) := by
  obtain ⟨m, hm⟩ := h.length
  have e : (fun a => Jnp.getItem (xs a) (k a))
      = (fun p : A × ℤ => MasksPf.nth (xs p.1) (gidx m p.2)) ∘ fun a => (a, k a) := by
    funext a; simp only [Function.comp, getItem_eq_nth, hm]
  rw [e]
  exact (measurable_from_prod_countable_left fun i => h.nth (gidx m i)).comp (measurable_id.prodMk hk)

/-- every integer function of a measurable integer is measurable -/
theorem measurable_int_comp (φ : ℤ → ℤ) {k : A → ℤ} (hk : Measurable k) : Measurable fun a => φ (k a) :=
  (measurable_of_countable φ).comp hk

theorem measurable_int_add_const {k : A → ℤ} (hk : Measurable k) (c : ℤ) : Measurable fun a => k a + c :=
  measurable_int_comp (fun i => i + c) hk

theorem measurable_where {c : A → Bool} (hc : Measurable c) {f g : A → ℝ} (hf : Measurable f) (hg : Measurable g) :
    Measurable fun a => Jnp.where (c a) (f a) (g a) := by
  unfold Jnp.where
  exact Measurable.ite (hc (measurableSet_singleton true)) hf hg

theorem measurable_clip {f lo hi : A → ℝ} (hf : Measurable f) (hlo : Measurable lo) (hhi : Measurable hi) :
    Measurable fun a => Jnp.clip (f a) (lo a) (hi a) := by
  unfold Jnp.clip
  exact Measurable.ite (measurableSet_lt hf hlo) hlo (Measurable.ite (measurableSet_lt hhi hf) hhi hf)

/-- the `in_bounds` test of the spline methods -/
theorem measurable_inBounds {f lo hi : A → ℝ} (hf : Measurable f) (hlo : Measurable lo) (hhi : Measurable hi) :
    Measurable fun a => Jnp.logicalAnd (decide (f a ≥ lo a)) (decide (f a ≤ hi a)) := by
  refine measurable_to_bool ?_
  have : (fun a => Jnp.logicalAnd (decide (f a ≥ lo a)) (decide (f a ≤ hi a))) ⁻¹' {true}
      = {a | lo a ≤ f a} ∩ {a | f a ≤ hi a} := by
    ext a; simp [Jnp.logicalAnd]
  rw [this]
  exact (measurableSet_le hlo hf).inter (measurableSet_le hf hhi)

end index

/-! ## the generated parameterisation of the spline (`Gen/Params.lean`) preserves `MeasL` -/
section params
variable {A : Type} [MeasurableSpace A]

theorem MeasL.softmax {xs : A → List ℝ} (h : MeasL xs) : MeasL (fun a => Jnp.softmax (xs a)) := by
  have hs : Measurable fun a => ((xs a).map Real.exp).sum := (h.map Real.exp Real.measurable_exp).sum
  have := h.pmap (fun a x => Real.exp x / ((xs a).map Real.exp).sum)
    ((Real.measurable_exp.comp measurable_snd).div (hs.comp measurable_fst))
  simpa only [ParamsPf.softmax_eq] using this

theorem MeasL.cumsum {xs : A → List ℝ} (h : MeasL xs) : MeasL (fun a => Jnp.cumsum (xs a)) := by
  simpa only [ParamsPf.jcumsum_eq] using h.cumsumFrom (measurable_const (a := (0 : ℝ)))

/-- generated `_real_to_increasing_on_interval`: softmax, floor, halve the first width, cumulative sum, rescale, pad -/
theorem MeasL.realToIncreasing {xs : A → List ℝ} (h : MeasL xs) (interval : ℝ × ℝ) (adj : ℝ) :
    MeasL (fun a => realToIncreasingOnInterval (xs a) interval adj) := by
  have h1 := h.softmax
  obtain ⟨m, hm⟩ := h1.length
  have hc : Measurable fun a => adj / (((Jnp.softmax (xs a)).length : ℕ) : ℝ) := by
    have : (fun a => adj / (((Jnp.softmax (xs a)).length : ℕ) : ℝ)) = fun _ => adj / ((m : ℕ) : ℝ) := by
      funext a; rw [hm]
    rw [this]; exact measurable_const
  have h2 := h1.pmap (fun a v => v + adj / (((Jnp.softmax (xs a)).length : ℕ) : ℝ))
    (measurable_snd.add (hc.comp measurable_fst))
  have h3 := h2.map (fun v => v / (1 + adj)) (measurable_id.div_const _)
  have h4 := h3.set 0 ((measurable_getItem h3 (measurable_const (a := (0 : ℤ)))).div_const 2)
  have h5 := (h4.cumsum.map (fun b => (interval.2 - interval.1) * b) (measurable_id.const_mul _)).map
    (fun b => interval.1 + b) (measurable_id.const_add _)
  have h6 := (h5.append (measL_const [interval.2])).cons (measurable_const (a := interval.1))
  exact h6

/-- generated derivative lambda: `softplus(raw) + min_derivative` -/
theorem MeasL.rqsDerivatives {xs : A → List ℝ} (h : MeasL xs) (δ : ℝ) :
    MeasL (fun a => Gen.rqsDerivatives δ (xs a)) := by
  have hsp : Measurable fun v : ℝ => (Transc.softplus v : ℝ) :=
    (continuous_iff_continuousAt.mpr fun z => (LogDet.hasDerivAt_softplus z).continuousAt).measurable
  exact (h.map _ hsp).map (fun v => v + δ) (measurable_id.add_const _)

/-- `ravelled_params + init` of a `MeasL` row -/
theorem MeasL.addInit {xs : A → List ℝ} (h : MeasL xs) (init : List ℝ) :
    MeasL (fun a => Flows.addInit init (xs a)) := by
  refine ⟨init.mapIdx (fun i v => fun a => MasksPf.nth (xs a) i + v), ?_, fun a => ?_⟩
  · intro f hf
    obtain ⟨i, hi, rfl⟩ := List.mem_mapIdx.mp hf
    exact (h.nth i).add_const _
  · simp only [Flows.addInit, MasksPf.nth, List.getD_eq_getElem?_getD]
    apply List.ext_getElem? ; intro i
    simp only [List.getElem?_mapIdx, List.getElem?_map, Option.map_map]
    rfl

end params

/-! ## the three generated spline methods are measurable in (parameters, point) -/
section spline
variable {A : Type} [MeasurableSpace A]

/-- the bin index both `transform` and `derivative` (on `x_pos`) and `inverse` (on `y_pos`) look up -/
theorem measurable_binIndex {xs : A → List ℝ} (hx : MeasL xs) {v : A → ℝ} (hv : Measurable v) :
    Measurable fun a => Jnp.clipInt (Jnp.searchsorted (xs a) (v a) - 1) (0 : ℤ) ((((xs a).length : ℕ) : ℤ) - 2) := by
  obtain ⟨m, hm⟩ := hx.length
  simp only [hm]
  exact measurable_int_comp (fun i => Jnp.clipInt (i - 1) (0 : ℤ) (((m : ℕ) : ℤ) - 2)) (measurable_searchsorted hx hv)

/-- generated `RationalQuadraticSpline.transform`, jointly in the three parameter vectors and the point -/
theorem measurable_rqs_transform {xs ys ds : A → List ℝ} (hx : MeasL xs) (hy : MeasL ys) (hd : MeasL ds)
    (iv : ℝ × ℝ) {x : A → ℝ} (hxm : Measurable x) :
    Measurable fun a => (RationalQuadraticSpline.mk iv (xs a) (ys a) (ds a)).transform (x a) := by
  have hin := measurable_inBounds hxm (measurable_const (a := iv.1)) (measurable_const (a := iv.2))
  have hr := measurable_where hin hxm (measurable_const (a := iv.1))
  have hk := measurable_binIndex hx hr
  have hk1 := measurable_int_add_const hk 1
  have xk := measurable_getItem hx hk
  have xk1 := measurable_getItem hx hk1
  have yk := measurable_getItem hy hk
  have yk1 := measurable_getItem hy hk1
  have dk := measurable_getItem hd hk
  have dk1 := measurable_getItem hd hk1
  have xi := (hr.sub xk).div (xk1.sub xk)
  have sk := (yk1.sub yk).div (xk1.sub xk)
  have omx := (measurable_const (a := (1 : ℝ))).sub xi
  have num := (yk1.sub yk).mul ((sk.mul (xi.mul xi)).add ((dk.mul xi).mul omx))
  have den := sk.add ((((dk1.add dk).sub ((measurable_const (a := (2 : ℝ))).mul sk)).mul xi).mul omx)
  have y := measurable_clip (yk.add (num.div den)) (measurable_const (a := iv.1)) (measurable_const (a := iv.2))
  exact measurable_where hin y hxm

/-- generated `RationalQuadraticSpline.inverse` -/
theorem measurable_rqs_inverse {xs ys ds : A → List ℝ} (hx : MeasL xs) (hy : MeasL ys) (hd : MeasL ds)
    (iv : ℝ × ℝ) {y : A → ℝ} (hym : Measurable y) :
    Measurable fun a => (RationalQuadraticSpline.mk iv (xs a) (ys a) (ds a)).inverse (y a) := by
  have hin := measurable_inBounds hym (measurable_const (a := iv.1)) (measurable_const (a := iv.2))
  have hr := measurable_where hin hym (measurable_const (a := iv.1))
  have hk := measurable_binIndex hy hr
  have hk1 := measurable_int_add_const hk 1
  have xk := measurable_getItem hx hk
  have xk1 := measurable_getItem hx hk1
  have yk := measurable_getItem hy hk
  have yk1 := measurable_getItem hy hk1
  have dk := measurable_getItem hd hk
  have dk1 := measurable_getItem hd hk1
  have sk := (yk1.sub yk).div (xk1.sub xk)
  have yds := (hr.sub yk).mul ((dk1.add dk).sub ((measurable_const (a := (2 : ℝ))).mul sk))
  have ca := ((yk1.sub yk).mul (sk.sub dk)).add yds
  have cb := ((yk1.sub yk).mul dk).sub yds
  have cc := sk.neg.mul (hr.sub yk)
  have hsq : Measurable fun v : ℝ => (Transc.sqrt v : ℝ) := Real.continuous_sqrt.measurable
  have sq := hsq.comp ((cb.mul cb).sub (((measurable_const (a := (4 : ℝ))).mul ca).mul cc))
  have xi := ((measurable_const (a := (2 : ℝ))).mul cc).div (cb.neg.sub sq)
  have x := measurable_clip ((xi.mul (xk1.sub xk)).add xk) (measurable_const (a := iv.1)) (measurable_const (a := iv.2))
  exact measurable_where hin x hym

/-- generated `RationalQuadraticSpline.derivative` -/
theorem measurable_rqs_derivative {xs ys ds : A → List ℝ} (hx : MeasL xs) (hy : MeasL ys) (hd : MeasL ds)
    (iv : ℝ × ℝ) {x : A → ℝ} (hxm : Measurable x) :
    Measurable fun a => (RationalQuadraticSpline.mk iv (xs a) (ys a) (ds a)).derivative (x a) := by
  have hin := measurable_inBounds hxm (measurable_const (a := iv.1)) (measurable_const (a := iv.2))
  have hr := measurable_where hin hxm (measurable_const (a := iv.1))
  have hk := measurable_binIndex hx hr
  have hk1 := measurable_int_add_const hk 1
  have xk := measurable_getItem hx hk
  have xk1 := measurable_getItem hx hk1
  have yk := measurable_getItem hy hk
  have yk1 := measurable_getItem hy hk1
  have dk := measurable_getItem hd hk
  have dk1 := measurable_getItem hd hk1
  have xi := (hr.sub xk).div (xk1.sub xk)
  have sk := (yk1.sub yk).div (xk1.sub xk)
  have omx := (measurable_const (a := (1 : ℝ))).sub xi
  have two := (measurable_const (a := (2 : ℝ)) : Measurable fun _ : A => (2 : ℝ))
  have num := (sk.mul sk).mul (((dk1.mul (xi.mul xi)).add (((two.mul sk).mul xi).mul omx)).add (dk.mul (omx.mul omx)))
  have den1 := sk.add ((((dk1.add dk).sub (two.mul sk)).mul xi).mul omx)
  exact measurable_where hin (num.div (den1.mul den1)) (measurable_const (a := (1 : ℝ)))

/-- the log-det reported by the generated `inverse_and_log_det` -/
theorem measurable_rqs_invLd {xs ys ds : A → List ℝ} (hx : MeasL xs) (hy : MeasL ys) (hd : MeasL ds)
    (iv : ℝ × ℝ) {y : A → ℝ} (hym : Measurable y) :
    Measurable fun a => ((RationalQuadraticSpline.mk iv (xs a) (ys a) (ds a)).inverse_and_log_det (y a)).2 := by
  have hlog : Measurable fun v : ℝ => (Transc.log v : ℝ) := Real.measurable_log
  exact (hlog.comp (measurable_rqs_derivative hx hy hd iv (measurable_rqs_inverse hx hy hd iv hym))).neg

/-- … and by `transform_and_log_det` -/
theorem measurable_rqs_fwdLd {xs ys ds : A → List ℝ} (hx : MeasL xs) (hy : MeasL ys) (hd : MeasL ds)
    (iv : ℝ × ℝ) {x : A → ℝ} (hxm : Measurable x) :
    Measurable fun a => ((RationalQuadraticSpline.mk iv (xs a) (ys a) (ds a)).transform_and_log_det (x a)).2 := by
  have hlog : Measurable fun v : ℝ => (Transc.log v : ℝ) := Real.measurable_log
  exact hlog.comp (measurable_rqs_derivative hx hy hd iv hxm)

end spline

/-! ## the premade flows' spline family `Flows.rqsFamily cfg init` over a measurable parameter row -/
section family
variable {A : Type} [MeasurableSpace A]

/-- the three parameter vectors of `Flows.rqsSpline cfg init (row a)` are lists of measurable functions of `a` -/
theorem rqsSpline_measL (cfg : Flows.RqsCfg ℝ) (init : List ℝ) {row : A → List ℝ} (hrow : MeasL row) :
    MeasL (fun a => (Flows.rqsSpline cfg init (row a)).x_pos) ∧
    MeasL (fun a => (Flows.rqsSpline cfg init (row a)).y_pos) ∧
    MeasL (fun a => (Flows.rqsSpline cfg init (row a)).derivatives) := by
  have hraw := hrow.addInit init
  exact ⟨(hraw.take cfg.knots).realToIncreasing cfg.interval cfg.softmax_adjust,
    ((hraw.drop cfg.knots).take cfg.knots).realToIncreasing cfg.interval cfg.softmax_adjust,
    (hraw.drop (2 * cfg.knots)).rqsDerivatives cfg.min_derivative⟩

/-- **joint measurability of the spline family**: for every measurable parameter row `row : A → List ℝ` (a fixed list of
measurable functions), the forward map, the inverse map and the inverse log-det of `Flows.rqsFamily cfg init (row a)` at `t`
are measurable functions of `(a, t)` — every `cfg`, every `init`; no well-formedness needed -/
theorem rqsFamily_joint_meas (cfg : Flows.RqsCfg ℝ) (init : List ℝ) {row : A → List ℝ} (hrow : MeasL row) :
    (Measurable fun p : A × ℝ => (Flows.rqsFamily cfg init (row p.1)).fwd p.2 ()) ∧
    (Measurable fun p : A × ℝ => (Flows.rqsFamily cfg init (row p.1)).inv p.2 ()) ∧
    (Measurable fun p : A × ℝ => ((Flows.rqsFamily cfg init (row p.1)).invLd p.2 ()).2) := by
  obtain ⟨hx, hy, hd⟩ := rqsSpline_measL cfg init (hrow.comp (Prod.fst : A × ℝ → A) measurable_fst)
  exact ⟨measurable_rqs_transform hx hy hd cfg.interval measurable_snd,
    measurable_rqs_inverse hx hy hd cfg.interval measurable_snd,
    measurable_rqs_invLd hx hy hd cfg.interval measurable_snd⟩

end family

/-! ## `CouplingMeas` / `MafMeas` for the spline family, and the layers -/
section layers

/-- **`CouplingMeas` for the spline family**: every conditioner continuous in the first block with constant output length
`(n − d)·np`, every spline configuration, every `init`, every condition -/
theorem coupling_spline_meas (d n np : ℕ) (cnd : List ℝ → List ℝ) (cfg : Flows.RqsCfg ℝ) (init : List ℝ) (c : List ℝ)
    (hc : ContC (fun w : Fin n → ℝ => cnd ((List.ofFn w).take d ++ c)))
    (hlen : ∀ z, (cnd z).length = (n - d) * np) :
    CouplingMeas d n cnd (Flows.rqsFamily cfg init) c := by
  have h : ∀ k, k < n - d → _ := fun k hk =>
    rqsFamily_joint_meas cfg init (rowAt_contC d n np cnd c hc hlen k hk).measL
  exact ⟨fun k hk => (h k hk).1, fun k hk => (h k hk).2.1, fun k hk => (h k hk).2.2⟩

/-- **`MafMeas` for the spline family**: every well-shaped masked network with a continuous activation -/
theorem maf_spline_meas (N : MafNet ℝ) (hN : N.WellShaped) (hact : Continuous N.act) (cfg : Flows.RqsCfg ℝ)
    (init : List ℝ) (c : List ℝ) : MafMeas N (Flows.rqsFamily cfg init) c := by
  have h : ∀ i, i < N.dim → _ := fun i hi =>
    rqsFamily_joint_meas cfg init (mafRow_contC N hN hact c i hi).measL
  exact ⟨fun i hi => (h i hi).1, fun i hi => (h i hi).2.1, fun i hi => (h i hi).2.2⟩

/-- the one-dimensional layer fact for every member of the family (`FlowsPf.RqsCfgOK`: `knots ≥ 1`, `init` of length
`3·knots + 2`, `lo < hi`, `softmax_adjust ≥ 0`, `min_derivative ≥ 0`) -/
theorem rqsFamily_lawOK {cfg : Flows.RqsCfg ℝ} {init : List ℝ} (h : FlowsPf.RqsCfgOK cfg init) (ps : List ℝ) :
    Mass.LawOK volume (Flows.rqsFamily cfg init ps) () :=
  (Mass.rqs_fwdJac (FlowsPf.rqsFamily_wf h ps) ()).lawOK

/-- **the spline coupling layer preserves mass and its sampler follows its density, both orientations** -/
theorem coupling_spline_layer_meas (d n np : ℕ) (hdn : d ≤ n) (cnd : List ℝ → List ℝ) {cfg : Flows.RqsCfg ℝ}
    {init : List ℝ} (hcfg : FlowsPf.RqsCfgOK cfg init) (c : List ℝ)
    (hc : ContC (fun w : Fin n → ℝ => cnd ((List.ofFn w).take d ++ c)))
    (hlen : ∀ z, (cnd z).length = (n - d) * np) :
    LayerOK (liftBij n (couplingBij d cnd (Flows.rqsFamily cfg init))) c ∧
    LayerOK (Gen.Invert.mk (liftBij n (couplingBij d cnd (Flows.rqsFamily cfg init)))).toBij c :=
  coupling_layer_meas d n cnd (Flows.rqsFamily cfg init) hdn (FlowsPf.rqsFamily_lawful hcfg)
    (FlowsPf.rqsFamily_ldAntisym hcfg) (rqsFamily_lawOK hcfg) c (coupling_spline_meas d n np cnd cfg init c hc hlen)

/-- **the spline masked autoregressive layer**, both orientations -/
theorem maf_spline_layer_meas (N : MafNet ℝ) (hN : N.WellShaped) (hact : Continuous N.act) {cfg : Flows.RqsCfg ℝ}
    {init : List ℝ} (hcfg : FlowsPf.RqsCfgOK cfg init) (c : List ℝ) :
    LayerOK (liftBij N.dim (mafBij N (Flows.rqsFamily cfg init))) c ∧
    LayerOK (Gen.Invert.mk (liftBij N.dim (mafBij N (Flows.rqsFamily cfg init)))).toBij c :=
  maf_layer_meas N (Flows.rqsFamily cfg init) hN (FlowsPf.rqsFamily_lawful hcfg)
    (FlowsPf.rqsFamily_ldAntisym hcfg) (rqsFamily_lawOK hcfg) c (maf_spline_meas N hN hact cfg init c)

end layers

end NetMass
