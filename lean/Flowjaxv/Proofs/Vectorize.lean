import Flowjaxv.Model.Vectorize
/-!
# Lemmas about the batching model (`Model/Vectorize.lean`) — core Lean only

1. text of `_get_ufunc_signature` and its round trip through the gufunc-signature parser;
2. NumPy broadcasting (`bcast2`) and the index map `bIndex`;
3. row-major flat indices (`flatIndex` / `unflatten` are mutually inverse);
4. `jnp.vectorize` shape pipeline in closed form (`vectorizeLoop_one/two`);
5. the public methods in closed form (`logProbCond_eq`, `sampleWithCond_eq`, …).
-/
namespace Vec

theorem natChars_eq (n : Nat) : natChars n = Nat.toDigits 10 n := by
  simp [natChars, Nat.toString_eq_repr, Nat.toList_repr]

theorem natChars_ne_nil (n : Nat) : natChars n ≠ [] := by
  rw [natChars_eq]; exact Nat.toDigits_ne_nil

theorem natChars_isDigit {n : Nat} {c : Char} (h : c ∈ natChars n) : c.isDigit = true := by
  rw [natChars_eq] at h
  exact Nat.isDigit_of_mem_toDigits (by decide) (by decide) h

theorem nameToNat_natChars (n : Nat) : nameToNat (natChars n) = some n := by
  have h1 : (natChars n).all Char.isDigit = true := by
    rw [List.all_eq_true]; intro c hc; exact natChars_isDigit hc
  have h2 : (natChars n).isEmpty = false := by
    cases h : natChars n with
    | nil => exact absurd h (natChars_ne_nil n)
    | cons _ _ => rfl
  simp only [nameToNat, h1, h2, Bool.not_false, Bool.and_self, if_true]
  rw [natChars_eq, Nat.ofDigitChars_ten_toDigits]

/-- a digit is a word character and none of the punctuation characters of a signature -/
theorem digit_props {c : Char} (h : c.isDigit = true) :
    isWord c = true ∧ c ≠ ')' ∧ c ≠ ',' ∧ c ≠ ' ' ∧ c ≠ '(' := by
  refine ⟨by simp [isWord, Char.isAlphanum, h], ?_, ?_, ?_, ?_⟩ <;>
    (rintro rfl; revert h; decide)

/-- canonical text of one core shape: `(d1,d2,…)`, no spaces, no trailing comma -/
def canon (s : Shape) : List Char := '(' :: joinWith [','] (s.map natChars) ++ [')']

theorem removeChar_append (c : Char) (a b : List Char) :
    removeChar c (a ++ b) = removeChar c a ++ removeChar c b := by simp [removeChar]

theorem removeChar_of_not_mem {c : Char} {l : List Char} (h : c ∉ l) : removeChar c l = l := by
  simp only [removeChar, List.filter_eq_self]
  intro a ha; simp only [bne_iff_ne, ne_eq]; rintro rfl; exact h ha

theorem space_not_mem_natChars (n : Nat) : ' ' ∉ natChars n :=
  fun h => (digit_props (natChars_isDigit h)).2.2.2.1 rfl
theorem comma_not_mem_natChars (n : Nat) : ',' ∉ natChars n :=
  fun h => (digit_props (natChars_isDigit h)).2.2.1 rfl

theorem removeChar_space_join_commaspace (parts : List (List Char)) (h : ∀ p ∈ parts, ' ' ∉ p) :
    removeChar ' ' (joinWith [',', ' '] parts) = joinWith [','] parts := by
  induction parts with
  | nil => rfl
  | cons a r ih =>
    cases r with
    | nil => simpa [joinWith] using removeChar_of_not_mem (h a (by simp))
    | cons b r =>
      have ha := removeChar_of_not_mem (h a (by simp))
      have := ih (fun p hp => h p (List.mem_cons_of_mem _ hp))
      simp only [joinWith, removeChar_append, ha, this]
      rfl

theorem removeChar_space_join_comma (parts : List (List Char)) :
    removeChar ' ' (joinWith [','] parts) = joinWith [','] (parts.map (removeChar ' ')) := by
  induction parts with
  | nil => rfl
  | cons a r ih =>
    cases r with
    | nil => simp [joinWith]
    | cons b r =>
      simp only [joinWith, removeChar_append, List.map_cons] at ih ⊢
      rw [ih]; rfl

theorem removeChar_space_shapeStr (s : Shape) : removeChar ' ' (shapeStr s) = canon s := by
  match s with
  | [] => rfl
  | [a] =>
    have h1 : removeChar ',' (pyTupleStr [a]) = '(' :: natChars a ++ [')'] := by
      show removeChar ',' (['('] ++ (natChars a ++ ([','] ++ [')']))) = _
      simp only [removeChar_append, removeChar_of_not_mem (comma_not_mem_natChars a)]
      rfl
    have h2 : shapeStr [a] = '(' :: natChars a ++ [')'] := by
      simp [shapeStr, h1]
    rw [h2]
    show removeChar ' ' (['('] ++ (natChars a ++ [')'])) = _
    simp only [removeChar_append, removeChar_of_not_mem (space_not_mem_natChars a)]
    rfl
  | a :: b :: r =>
    have h2 : shapeStr (a :: b :: r) = '(' :: joinWith [',', ' '] ((a :: b :: r).map natChars) ++ [')'] := by
      simp [shapeStr, pyTupleStr]
    rw [h2]
    show removeChar ' ' (['('] ++ (joinWith [',', ' '] ((a :: b :: r).map natChars) ++ [')'])) = _
    rw [removeChar_append, removeChar_append, removeChar_space_join_commaspace]
    · rfl
    · intro p hp
      obtain ⟨n, _, rfl⟩ := List.mem_map.1 hp
      exact space_not_mem_natChars n

theorem shapesToStr_eq (ss : List Shape) : shapesToStr ss = joinWith [','] (ss.map canon) := by
  simp only [shapesToStr, removeChar_space_join_comma, List.map_map]
  congr 1
  apply List.map_congr_left
  intro s _
  exact removeChar_space_shapeStr s

/-- what `scan` returns for one core shape -/
def enc (s : Shape) : List (List Char) := if s = [] then [[]] else s.map natChars

theorem scan_inside_word (c : Char) (w cs : List Char) (hw : ∀ d ∈ c :: w, d.isDigit = true) :
    scan .inside (c :: w ++ cs) =
      match scan .inside cs with
      | some ((n :: ns) :: r) => some (((c :: w ++ n) :: ns) :: r)
      | _ => none := by
  induction w generalizing c with
  | nil =>
    obtain ⟨h1, h2, h3, _, _⟩ := digit_props (hw c (by simp))
    simp only [List.cons_append, List.nil_append, scan, h2, h3, h1, if_false, if_true]
    rcases scan .inside cs with _ | (_ | ⟨(_ | _), _⟩) <;> rfl
  | cons d w ih =>
    obtain ⟨h1, h2, h3, _, _⟩ := digit_props (hw c (by simp))
    have ih' := ih d (fun e he => hw e (List.mem_cons_of_mem _ he))
    rw [List.cons_append, scan]
    simp only [h2, h3, h1, if_false, if_true, ih']
    rcases scan .inside cs with _ | (_ | ⟨(_ | _), _⟩) <;> rfl

theorem scan_inside_natChars (a : Nat) (cs : List Char) :
    scan .inside (natChars a ++ cs) =
      match scan .inside cs with
      | some ((n :: ns) :: r) => some (((natChars a ++ n) :: ns) :: r)
      | _ => none := by
  cases h : natChars a with
  | nil => exact absurd h (natChars_ne_nil a)
  | cons c w => exact scan_inside_word c w cs (fun d hd => natChars_isDigit (h ▸ hd))

theorem scan_inside_body (s : Shape) (rest : List Char) :
    scan .inside (joinWith [','] (s.map natChars) ++ ')' :: rest)
      = (scan .after rest).map (enc s :: ·) := by
  induction s with
  | nil => simp [joinWith, scan, enc]
  | cons a r ih =>
    cases r with
    | nil =>
      simp only [List.map_cons, List.map_nil, joinWith]
      rw [scan_inside_natChars]
      simp only [scan, if_true]
      cases scan .after rest <;> simp [enc]
    | cons b r =>
      simp only [List.map_cons, joinWith, List.append_assoc] at ih ⊢
      rw [scan_inside_natChars]
      have hc : (')' : Char) ≠ ',' := by decide
      simp only [List.cons_append, List.nil_append, scan, if_true, ih, (by decide : (',' : Char) ≠ ')'), if_false]
      cases scan .after rest <;> simp [enc]

theorem scan_open_canon (s : Shape) (rest : List Char) :
    scan .open_ (canon s ++ rest) = (scan .after rest).map (enc s :: ·) := by
  simp only [canon, List.cons_append, scan, if_true, List.append_assoc]
  exact scan_inside_body s rest

theorem scan_open_join (ss : List Shape) (h : ss ≠ []) :
    scan .open_ (joinWith [','] (ss.map canon)) = some (ss.map enc) := by
  induction ss with
  | nil => exact absurd rfl h
  | cons s r ih =>
    cases r with
    | nil =>
      have := scan_open_canon s []
      simp only [List.append_nil] at this
      simp [joinWith, this, scan]
    | cons t r =>
      simp only [List.map_cons, joinWith, List.append_assoc] at ih ⊢
      rw [scan_open_canon]
      simp only [List.cons_append, List.nil_append, scan, if_true, ih (by simp)]
      rfl

theorem cleanArg_enc (s : Shape) : cleanArg (enc s) = some (s.map natChars) := by
  cases s with
  | nil => simp [enc, cleanArg]
  | cons a r =>
    have h1 : enc (a :: r) = natChars a :: r.map natChars := by simp [enc]
    have h2 : natChars a ≠ [] := natChars_ne_nil a
    rw [h1, cleanArg]
    have h3 : (natChars a :: r.map natChars) ≠ [[]] := by
      intro h; injection h with h _; exact h2 h
    have h4 : (natChars a :: r.map natChars).all (fun n => !n.isEmpty) = true := by
      rw [List.all_eq_true]
      intro n hn
      have : ∃ m, natChars m = n := by
        rcases List.mem_cons.1 hn with rfl | hn
        · exact ⟨a, rfl⟩
        · obtain ⟨m, _, rfl⟩ := List.mem_map.1 hn; exact ⟨m, rfl⟩
      obtain ⟨m, rfl⟩ := this
      have := natChars_ne_nil m
      cases h : natChars m with
      | nil => exact absurd h this
      | cons _ _ => rfl
    simp [h3, h4]

theorem mapM_cleanArg_enc (ss : List Shape) :
    (ss.map enc).mapM cleanArg = some (ss.map (·.map natChars)) := by
  induction ss with
  | nil => rfl
  | cons s r ih => simp [List.mapM_cons, cleanArg_enc, ih]

theorem parseArgList_join (ss : List Shape) (h : ss ≠ []) :
    parseArgList (joinWith [','] (ss.map canon)) = some (ss.map (·.map natChars)) := by
  simp only [parseArgList, scan_open_join ss h, Option.bind_some, mapM_cleanArg_enc]

theorem mapM_nameToNat (s : Shape) : (s.map natChars).mapM nameToNat = some s := by
  induction s with
  | nil => rfl
  | cons a r ih => simp [List.mapM_cons, nameToNat_natChars, ih]

theorem mapM_mapM_nameToNat (ss : List Shape) :
    (ss.map (·.map natChars)).mapM (·.mapM nameToNat) = some ss := by
  induction ss with
  | nil => rfl
  | cons a r ih =>
    simp only [List.map_cons, List.mapM_cons, mapM_nameToNat, ih]
    rfl

theorem mem_joinWith {c : Char} {sep : List Char} {parts : List (List Char)}
    (h : c ∈ joinWith sep parts) : c ∈ sep ∨ ∃ p ∈ parts, c ∈ p := by
  induction parts with
  | nil => simp [joinWith] at h
  | cons a r ih =>
    cases r with
    | nil => exact Or.inr ⟨a, by simp, by simpa [joinWith] using h⟩
    | cons b r =>
      simp only [joinWith, List.mem_append] at h
      rcases h with (h | h) | h
      · exact Or.inr ⟨a, by simp, h⟩
      · exact Or.inl h
      · rcases ih h with h | ⟨p, hp, hc⟩
        · exact Or.inl h
        · exact Or.inr ⟨p, List.mem_cons_of_mem _ hp, hc⟩

theorem mem_canon {c : Char} {s : Shape} (h : c ∈ canon s) :
    c = '(' ∨ c = ')' ∨ c = ',' ∨ c.isDigit = true := by
  have e : canon s = ['('] ++ (joinWith [','] (s.map natChars) ++ [')']) := rfl
  rw [e, List.mem_append, List.mem_append, List.mem_singleton, List.mem_singleton] at h
  rcases h with h | h | h
  · exact Or.inl h
  · rcases mem_joinWith h with h | ⟨q, hq, hc⟩
    · exact Or.inr (Or.inr (Or.inl (by simpa using h)))
    · obtain ⟨n, _, rfl⟩ := List.mem_map.1 hq
      exact Or.inr (Or.inr (Or.inr (natChars_isDigit hc)))
  · exact Or.inr (Or.inl h)

theorem dash_not_mem_join (ss : List Shape) : '-' ∉ joinWith [','] (ss.map canon) := by
  intro h
  rcases mem_joinWith h with h | ⟨p, hp, hc⟩
  · simp at h
  · obtain ⟨s, _, rfl⟩ := List.mem_map.1 hp
    rcases mem_canon hc with h | h | h | h <;> revert h <;> decide

theorem splitArrow_append (l r : List Char) (h : '-' ∉ l) :
    splitArrow (l ++ '-' :: '>' :: r) = some (l, r) := by
  induction l with
  | nil => simp [splitArrow]
  | cons c l ih =>
    have hc : c ≠ '-' := fun e => h (by simp [e])
    have := ih (fun hm => h (List.mem_cons_of_mem _ hm))
    simp [splitArrow, hc, this]

theorem parseSignatureChars_roundtrip (ins outs : List Shape) (hi : ins ≠ []) (ho : outs ≠ []) :
    parseSignatureChars (ufuncSignatureChars ins outs)
      = some (ins.map (·.map natChars), outs.map (·.map natChars)) := by
  simp only [ufuncSignatureChars, shapesToStr_eq, List.append_assoc, List.cons_append, List.nil_append,
    parseSignatureChars, splitArrow_append _ _ (dash_not_mem_join ins), parseArgList_join ins hi,
    parseArgList_join outs ho]

theorem parseSignature_roundtrip (ins outs : List Shape) (hi : ins ≠ []) (ho : outs ≠ []) :
    parseSignature (ufuncSignature ins outs) = some (ins, outs) := by
  simp only [parseSignature, ufuncSignature, String.toList_ofList, parseSignatureChars_roundtrip ins outs hi ho,
    mapM_mapM_nameToNat]

/-! ### broadcasting -/
theorem bdim_comm (x y : Nat) : bdim x y = bdim y x := by
  unfold bdim; split <;> split <;> (try split) <;> (try split) <;> simp_all <;> omega

theorem bdim_self (x : Nat) : bdim x x = some x := by simp [bdim]
theorem bdim_one_right (x : Nat) : bdim x 1 = some x := by
  unfold bdim; split <;> simp_all
theorem bdim_one_left (y : Nat) : bdim 1 y = some y := by rw [bdim_comm, bdim_one_right]

/-- the size-1 rule, and nothing else, lets two different sizes meet -/
theorem bdim_eq_some {x y d : Nat} : bdim x y = some d ↔ (x = y ∧ d = x) ∨ (x = 1 ∧ d = y) ∨ (y = 1 ∧ d = x) := by
  unfold bdim; split <;> (try split) <;> (try split) <;> simp_all <;> omega

theorem bdim_eq_none {x y : Nat} : bdim x y = none ↔ x ≠ y ∧ x ≠ 1 ∧ y ≠ 1 := by
  unfold bdim; split <;> (try split) <;> (try split) <;> simp_all

theorem bzip_comm (a b : Shape) : bzip a b = bzip b a := by
  induction a generalizing b with
  | nil => cases b <;> simp [bzip]
  | cons x xs ih => cases b with
    | nil => simp [bzip]
    | cons y ys => simp only [bzip, bdim_comm x y, ih ys]

theorem bcast2_comm (a b : Shape) : bcast2 a b = bcast2 b a := by
  simp only [bcast2, Nat.max_comm a.length b.length, bzip_comm]

theorem bzip_self (s : Shape) : bzip s s = some s := by
  induction s with
  | nil => rfl
  | cons x xs ih => simp [bzip, bdim_self, ih]

theorem bzip_length {a b r : Shape} (h : bzip a b = some r) : a.length = b.length ∧ r.length = a.length := by
  induction a generalizing b r with
  | nil => cases b <;> simp_all [bzip]
  | cons x xs ih => cases b with
    | nil => simp [bzip] at h
    | cons y ys =>
      simp only [bzip] at h
      cases hd : bdim x y <;> cases hr : bzip xs ys <;> simp_all
      have := ih hr; subst h; simp; omega

theorem bzip_append {a b a' b' : Shape} (h : a.length = b.length) :
    bzip (a ++ a') (b ++ b') =
      match bzip a b, bzip a' b' with
      | some r, some r' => some (r ++ r')
      | _, _ => none := by
  induction a generalizing b with
  | nil =>
    cases b with
    | nil => simp [bzip]; cases bzip a' b' <;> rfl
    | cons _ _ => simp at h
  | cons x xs ih =>
    cases b with
    | nil => simp at h
    | cons y ys =>
      have := ih (b := ys) (by simpa using h)
      simp only [List.cons_append, bzip, this]
      cases bdim x y <;> cases bzip xs ys <;> cases bzip a' b' <;> rfl

theorem bzip_ones_right (s : Shape) : bzip s (List.replicate s.length 1) = some s := by
  induction s with
  | nil => rfl
  | cons x xs ih => simp [List.replicate_succ, bzip, bdim_one_right, ih]

theorem padTo_self (s : Shape) : padTo s.length s = s := by simp [padTo]

theorem padTo_of_le {n : Nat} {s : Shape} (h : n ≤ s.length) : padTo n s = s := by
  simp [padTo, Nat.sub_eq_zero_of_le h]

theorem padTo_length {n : Nat} {s : Shape} (h : s.length ≤ n) : (padTo n s).length = n := by
  simp [padTo]; omega

theorem bcast2_self (s : Shape) : bcast2 s s = some s := by simp [bcast2, padTo_self, bzip_self]

/-- `sample_shape + batch` against `batch`: the keys' leading shape absorbs the condition's -/
theorem bcast2_prefix (p s : Shape) : bcast2 (p ++ s) s = some (p ++ s) := by
  have hm : max (p ++ s).length s.length = (p ++ s).length := by simp
  have hp : padTo (p ++ s).length s = List.replicate p.length 1 ++ s := by simp [padTo]
  rw [bcast2, hm, padTo_self, hp, bzip_append (by simp), bzip_ones_right, bzip_self]

theorem bcast2_nil_right (s : Shape) : bcast2 s [] = some s := by
  simpa using bcast2_prefix s []
theorem bcast2_nil_left (s : Shape) : bcast2 [] s = some s := by rw [bcast2_comm, bcast2_nil_right]

theorem padTo_snoc (n : Nat) (s : Shape) (x : Nat) : padTo (n + 1) (s ++ [x]) = padTo n s ++ [x] := by
  simp [padTo]

/-- NumPy's rule, one axis at a time from the right -/
theorem bcast2_snoc (a b : Shape) (x y : Nat) :
    bcast2 (a ++ [x]) (b ++ [y]) =
      match bcast2 a b, bdim x y with
      | some r, some d => some (r ++ [d])
      | _, _ => none := by
  have hm : max (a ++ [x]).length (b ++ [y]).length = max a.length b.length + 1 := by
    simp only [List.length_append, List.length_cons, List.length_nil]; omega
  rw [bcast2, hm, padTo_snoc, padTo_snoc, bzip_append, bcast2]
  · simp only [bzip]
    cases bzip _ _ <;> cases bdim x y <;> rfl
  · rw [padTo_length (Nat.le_max_left ..), padTo_length (Nat.le_max_right ..)]

theorem bcast2_length {a b r : Shape} (h : bcast2 a b = some r) : r.length = max a.length b.length := by
  have := (bzip_length h).2
  rw [this, padTo_length (Nat.le_max_left ..)]

/-! ### multi-indices -/
theorem validIdx_iff (s : Shape) (i : List Nat) : validIdx s i = true ↔ ValidIdx s i := by
  induction s generalizing i with
  | nil => cases i <;> simp [validIdx, ValidIdx]
  | cons d ds ih => cases i with
    | nil => simp [validIdx, ValidIdx]
    | cons k ks => simp [validIdx, ValidIdx, ih]

instance (s : Shape) (i : List Nat) : Decidable (ValidIdx s i) := decidable_of_iff _ (validIdx_iff s i)

theorem ValidIdx.length {s : Shape} {i : List Nat} (h : ValidIdx s i) : i.length = s.length := by
  induction s generalizing i with
  | nil => cases i <;> simp_all [ValidIdx]
  | cons d ds ih => cases i with
    | nil => simp [ValidIdx] at h
    | cons k ks => simp [ih h.2]

theorem validIdx_append {s t : Shape} {i j : List Nat} (hi : ValidIdx s i) (hj : ValidIdx t j) :
    ValidIdx (s ++ t) (i ++ j) := by
  induction s generalizing i with
  | nil => cases i <;> simp_all [ValidIdx]
  | cons d ds ih => cases i with
    | nil => simp [ValidIdx] at hi
    | cons k ks => exact ⟨hi.1, ih hi.2⟩

theorem validIdx_append_iff {s t : Shape} {i j : List Nat} (hl : i.length = s.length) :
    ValidIdx (s ++ t) (i ++ j) ↔ ValidIdx s i ∧ ValidIdx t j := by
  induction s generalizing i with
  | nil => cases i <;> simp_all [ValidIdx]
  | cons d ds ih => cases i with
    | nil => simp at hl
    | cons k ks =>
      have := ih (i := ks) (by simpa using hl)
      simp only [List.cons_append, ValidIdx, this, and_assoc]

def sel (d k : Nat) : Nat := if d = 1 then 0 else k

theorem bIndex_eq (lead : Shape) (i : List Nat) :
    bIndex lead i = List.zipWith sel lead (i.drop (i.length - lead.length)) := rfl

theorem valid_zipWith_sel {p q loop : Shape} {i : List Nat} (h : bzip p q = some loop) (hi : ValidIdx loop i) :
    ValidIdx p (List.zipWith sel p i) := by
  induction p generalizing q loop i with
  | nil =>
    cases q with
    | nil => simp [bzip] at h; subst h; cases i <;> simp_all [ValidIdx]
    | cons _ _ => simp [bzip] at h
  | cons x xs ih =>
    cases q with
    | nil => simp [bzip] at h
    | cons y ys =>
      simp only [bzip] at h
      cases hd : bdim x y with
      | none => simp [hd] at h
      | some d =>
        cases hr : bzip xs ys with
        | none => simp [hd, hr] at h
        | some r =>
          simp [hd, hr] at h; subst h
          cases i with
          | nil => simp [ValidIdx] at hi
          | cons k ks =>
            refine ⟨?_, ih hr hi.2⟩
            have hk := hi.1
            unfold sel; split
            · omega
            · rcases bdim_eq_some.1 hd with ⟨_, h2⟩ | ⟨h1, _⟩ | ⟨_, h2⟩ <;> omega

theorem valid_drop_ones {m : Nat} {a : Shape} {i : List Nat}
    (h : ValidIdx (List.replicate m 1 ++ a) (List.zipWith sel (List.replicate m 1 ++ a) i)) :
    ValidIdx a (List.zipWith sel a (i.drop m)) := by
  induction m generalizing i with
  | zero => simpa using h
  | succ m ih =>
    cases i with
    | nil => simp [List.replicate_succ, ValidIdx] at h
    | cons k ks =>
      simp only [List.replicate_succ, List.cons_append, List.zipWith_cons_cons, ValidIdx] at h
      simpa using ih h.2

/-- the index used for the first argument is in bounds -/
theorem bIndex_valid_left {a b loop : Shape} {i : List Nat} (h : bcast2 a b = some loop) (hi : ValidIdx loop i) :
    ValidIdx a (bIndex a i) := by
  have hl : i.length = max a.length b.length := by rw [hi.length, bcast2_length h]
  have := valid_zipWith_sel h hi
  rw [padTo] at this
  have := valid_drop_ones this
  rw [bIndex_eq, hl]
  exact this

theorem bIndex_valid_right {a b loop : Shape} {i : List Nat} (h : bcast2 a b = some loop) (hi : ValidIdx loop i) :
    ValidIdx b (bIndex b i) := bIndex_valid_left (by rwa [bcast2_comm]) hi

/-- an argument that already has the loop shape is read at the loop index itself -/
theorem bIndex_self {a : Shape} {i : List Nat} (h : ValidIdx a i) : bIndex a i = i := by
  rw [bIndex_eq, h.length, Nat.sub_self, List.drop_zero]
  induction a generalizing i with
  | nil => cases i <;> simp_all [ValidIdx]
  | cons d ds ih => cases i with
    | nil => simp [ValidIdx] at h
    | cons k ks =>
      simp only [List.zipWith_cons_cons, ih h.2, sel]
      have := h.1
      split
      · congr 1; omega
      · rfl

/-- right alignment: the extra leading loop axes are not seen by the shorter argument -/
theorem bIndex_append {cb : Shape} {s c : List Nat} (hc : ValidIdx cb c) : bIndex cb (s ++ c) = c := by
  have : (s ++ c).drop ((s ++ c).length - cb.length) = c := by
    rw [List.length_append, hc.length, Nat.add_sub_cancel, List.drop_left]
  rw [bIndex_eq, this]
  have := bIndex_self hc
  rwa [bIndex_eq, hc.length, Nat.sub_self, List.drop_zero] at this

/-- a size-1 axis of the argument is read at position 0 whatever the loop index is (stretching) -/
theorem bIndex_snoc (lead : Shape) (d : Nat) (i : List Nat) (k : Nat) (h : lead.length ≤ i.length) :
    bIndex (lead ++ [d]) (i ++ [k]) = bIndex lead i ++ [if d = 1 then 0 else k] := by
  rw [bIndex_eq, bIndex_eq]
  have e : (i ++ [k]).drop ((i ++ [k]).length - (lead ++ [d]).length) = i.drop (i.length - lead.length) ++ [k] := by
    simp only [List.length_append, List.length_cons, List.length_nil, Nat.zero_add, Nat.add_sub_add_right]
    rw [List.drop_append_of_le_length (by omega)]
  rw [e, List.zipWith_append (by simp; omega)]
  rfl

/-! ### flat indices -/
theorem sprod_append (a b : Shape) : sprod (a ++ b) = sprod a * sprod b := by
  induction a with
  | nil => simp [sprod]
  | cons d ds ih => simp [sprod, ih, Nat.mul_assoc]

theorem flatIndex_lt {s : Shape} {i : List Nat} (h : ValidIdx s i) : flatIndex s i < sprod s := by
  induction s generalizing i with
  | nil => cases i <;> simp_all [ValidIdx, flatIndex, sprod]
  | cons d ds ih => cases i with
    | nil => simp [ValidIdx] at h
    | cons k ks =>
      have h1 := ih h.2
      have h2 : (k + 1) * sprod ds ≤ d * sprod ds := Nat.mul_le_mul_right _ h.1
      rw [Nat.succ_mul] at h2
      simp only [flatIndex, sprod]; omega

theorem unflatten_flatIndex {s : Shape} {i : List Nat} (h : ValidIdx s i) : unflatten s (flatIndex s i) = i := by
  induction s generalizing i with
  | nil => cases i <;> simp_all [ValidIdx, unflatten]
  | cons d ds ih => cases i with
    | nil => simp [ValidIdx] at h
    | cons k ks =>
      have h1 := flatIndex_lt h.2
      have hp : 0 < sprod ds := by omega
      simp only [flatIndex, unflatten]
      rw [Nat.add_comm, Nat.add_mul_div_right _ _ hp, Nat.div_eq_of_lt h1, Nat.add_mul_mod_self_right,
        Nat.mod_eq_of_lt h1, ih h.2, Nat.zero_add]

theorem validIdx_unflatten {s : Shape} {k : Nat} (h : k < sprod s) : ValidIdx s (unflatten s k) := by
  induction s generalizing k with
  | nil => simp [unflatten, ValidIdx]
  | cons d ds ih =>
    simp only [sprod] at h
    have hp : 0 < sprod ds := by
      rcases Nat.eq_zero_or_pos (sprod ds) with h0 | h0
      · rw [h0] at h; omega
      · exact h0
    refine ⟨?_, ih (Nat.mod_lt _ hp)⟩
    exact Nat.div_lt_of_lt_mul (by rwa [Nat.mul_comm])

theorem flatIndex_unflatten {s : Shape} {k : Nat} (h : k < sprod s) : flatIndex s (unflatten s k) = k := by
  induction s generalizing k with
  | nil => simp [sprod] at h; simp [flatIndex, h]
  | cons d ds ih =>
    simp only [sprod] at h
    have hp : 0 < sprod ds := by
      rcases Nat.eq_zero_or_pos (sprod ds) with h0 | h0
      · rw [h0] at h; omega
      · exact h0
    simp only [unflatten, flatIndex, ih (Nat.mod_lt _ hp)]
    exact Nat.div_add_mod' k (sprod ds)

theorem flatIndex_inj {s : Shape} {i j : List Nat} (hi : ValidIdx s i) (hj : ValidIdx s j)
    (h : flatIndex s i = flatIndex s j) : i = j := by
  rw [← unflatten_flatIndex hi, ← unflatten_flatIndex hj, h]

theorem splitCore_append (l c : Shape) : splitCore (l ++ c) c.length = some (l, c) := by
  simp [splitCore]

theorem splitCore_eq_some {full l c : Shape} {n : Nat} :
    splitCore full n = some (l, c) ↔ full = l ++ c ∧ c.length = n := by
  constructor
  · intro h
    unfold splitCore at h
    split at h
    · simp only [Option.some.injEq, Prod.mk.injEq] at h
      obtain ⟨rfl, rfl⟩ := h
      refine ⟨(List.take_append_drop _ _).symm, ?_⟩
      simp; omega
    · simp at h
  · rintro ⟨rfl, rfl⟩; exact splitCore_append l c

theorem leadingShape_eq_some {full core l : Shape} : leadingShape full core = some l ↔ full = l ++ core := by
  unfold leadingShape
  constructor
  · intro h
    cases hs : splitCore full core.length with
    | none => simp [hs] at h
    | some p =>
      obtain ⟨l', c'⟩ := p
      simp only [hs] at h
      split at h
      · rename_i hc; subst hc
        simp only [Option.some.injEq] at h; subst h
        exact (splitCore_eq_some.1 hs).1
      · simp at h
  · rintro rfl; simp [splitCore_append]

theorem leadingShape_append (l c : Shape) : leadingShape (l ++ c) c = some l := leadingShape_eq_some.2 rfl

theorem leadingShape_eq_none {full core : Shape} : leadingShape full core = none ↔ ∀ l, full ≠ l ++ core := by
  constructor
  · intro h l hl
    rw [leadingShape_eq_some.2 hl] at h; simp at h
  · intro h
    cases hl : leadingShape full core with
    | none => rfl
    | some l => exact absurd (leadingShape_eq_some.1 hl) (h l)

theorem checkShapes_iff (declared elem : Shape) : checkShapes declared elem = true ↔ elem = declared := by
  simp [checkShapes]

/-- the `dim_sizes` dictionary maps every numeral name to the number it denotes -/
def Diag (sz : List (Nat × Nat)) : Prop := ∀ n s, sz.lookup n = some s → s = n

theorem updateDimSizes_diag (sz : List (Nat × Nat)) (hd : Diag sz) (c : Shape) :
    ∃ sz', updateDimSizes sz c c = some sz' ∧ Diag sz' := by
  induction c generalizing sz with
  | nil => exact ⟨sz, by simp [updateDimSizes], hd⟩
  | cons name names ih =>
    unfold updateDimSizes
    cases hl : sz.lookup name with
    | none =>
      simp only
      apply ih
      intro n s hn
      rw [List.lookup_append] at hn
      cases h1 : sz.lookup n with
      | some s' => rw [h1] at hn; simp at hn; subst hn; exact hd n s' h1
      | none =>
        rw [h1] at hn
        simp only [Option.none_or, List.lookup_cons, List.lookup_nil] at hn
        split at hn
        · rename_i hb; simp at hn; subst hn; simpa using (beq_iff_eq.1 hb).symm
        · simp at hn
    | some s =>
      have := hd name s hl
      subst this
      simp only [if_true]
      exact ih sz hd

theorem dimsAll_one (c l : Shape) : ∃ sz, dimsAll [] [c] [(l, c)] = some sz := by
  obtain ⟨sz, h, _⟩ := updateDimSizes_diag [] (by intro n s h; simp at h) c
  exact ⟨sz, by simp [dimsAll, h]⟩

theorem dimsAll_two (c1 c2 l1 l2 : Shape) : ∃ sz, dimsAll [] [c1, c2] [(l1, c1), (l2, c2)] = some sz := by
  obtain ⟨sz1, h1, d1⟩ := updateDimSizes_diag [] (by intro n s h; simp at h) c1
  obtain ⟨sz2, h2, _⟩ := updateDimSizes_diag sz1 d1 c2
  exact ⟨sz2, by simp [dimsAll, h1, h2]⟩

theorem vectorizeLoop_one (c a : Shape) :
    vectorizeLoop [c] [a] =
      match leadingShape a c with
      | some l => .ok ([l], l)
      | none => .error .valueError := by
  unfold vectorizeLoop leadingShape
  cases hs : splitCore a c.length with
  | none => simp [splitAll, hs]
  | some p =>
    obtain ⟨l, e⟩ := p
    simp only [splitAll, hs]
    by_cases he : e = c
    · subst he
      obtain ⟨sz, hsz⟩ := dimsAll_one e l
      simp [hsz, broadcastShapes, bcast2_nil_right, checkShapes]
    · have hc : checkShapes c e = false := by simpa [checkShapes] using he
      simp only [he, if_false]
      cases dimsAll [] [c] [(l, e)] <;> simp [broadcastShapes, bcast2_nil_right, hc]

theorem vectorizeLoop_two (c1 c2 a1 a2 : Shape) :
    vectorizeLoop [c1, c2] [a1, a2] =
      match leadingShape a1 c1, leadingShape a2 c2 with
      | some l1, some l2 =>
        (match bcast2 l1 l2 with
         | some loop => .ok ([l1, l2], loop)
         | none => .error .valueError)
      | _, _ => .error .valueError := by
  unfold vectorizeLoop leadingShape
  cases hs1 : splitCore a1 c1.length with
  | none => simp [splitAll, hs1]
  | some p1 =>
    obtain ⟨l1, e1⟩ := p1
    cases hs2 : splitCore a2 c2.length with
    | none => simp [splitAll, hs1, hs2]
    | some p2 =>
      obtain ⟨l2, e2⟩ := p2
      simp only [splitAll, hs1, hs2]
      have hb : broadcastShapes [l1, l2] = bcast2 l1 l2 := by simp [broadcastShapes, bcast2_nil_right]
      by_cases he : e1 = c1 ∧ e2 = c2
      · obtain ⟨rfl, rfl⟩ := he
        obtain ⟨sz, hsz⟩ := dimsAll_two e1 e2 l1 l2
        simp only [hsz, List.map_cons, List.map_nil, hb, if_true]
        cases bcast2 l1 l2 <;> simp [checkShapes]
      · have hc : (List.zipWith checkShapes [c1, c2] [e1, e2]).all id = false := by
          simp only [List.zipWith_cons_cons, List.zipWith_nil_right, List.all_cons, List.all_nil, id, checkShapes,
            Bool.and_true]
          by_cases h1 : e1 = c1
          · have h2 : e2 ≠ c2 := fun h2 => he ⟨h1, h2⟩
            simp [h2]
          · simp [h1]
        have hr : (match (if e1 = c1 then some l1 else none), (if e2 = c2 then some l2 else none) with
            | some l1, some l2 =>
              (match bcast2 l1 l2 with
               | some loop => (Except.ok ([l1, l2], loop) : Except PyErr (List Shape × Shape))
               | none => .error .valueError)
            | _, _ => .error .valueError) = .error .valueError := by
          by_cases h1 : e1 = c1
          · have h2 : e2 ≠ c2 := fun h2 => he ⟨h1, h2⟩
            simp only [h2, if_false]; split <;> simp_all
          · simp [h1]
        rw [hr]
        simp only [List.map_cons, List.map_nil, hb]
        cases dimsAll [] [c1, c2] [(l1, e1), (l2, e2)] <;> simp only []
        cases bcast2 l1 l2 <;> simp only [hc] <;> rfl

/-! ### `_get_sample_keys` -/
theorem leadingCondShape_append (lead cs : Shape) : leadingCondShape (lead ++ cs) cs.length = lead := by
  unfold leadingCondShape negOrNone
  by_cases h : cs.length = 0
  · have : cs = [] := List.eq_nil_of_length_eq_zero h
    subst this; simp [pySliceStop]
  · have hneg : (-(cs.length : Int)) < 0 := by omega
    simp only [h, if_false, pySliceStop, hneg, if_true, Int.natAbs_neg, Int.natAbs_natCast, List.length_append,
      Nat.add_sub_cancel]
    simp

/-- why the code needs `or None`: the plain slice `shape[:-0]` is `shape[:0]`, i.e. empty -/
theorem pySliceStop_neg_zero (len : Nat) : pySliceStop len (some (-(0 : Nat) : Int)) = 0 := by
  simp [pySliceStop]

/-- a condition of too small rank gives the empty leading shape (the later rank check raises) -/
theorem leadingCondShape_short (c : Shape) (n : Nat) (h : c.length ≤ n) (hn : n ≠ 0) : leadingCondShape c n = [] := by
  unfold leadingCondShape negOrNone
  have hneg : (-(n : Int)) < 0 := by omega
  simp only [hn, if_false, pySliceStop, hneg, if_true, Int.natAbs_neg, Int.natAbs_natCast]
  simp [Nat.sub_eq_zero_of_le h]

theorem keySize_eq (ks : Shape) : keySize ks = sprod ks := rfl

/-- the previous revision's rule agrees with the shape's size exactly on non-empty shapes -/
theorem keySizeMax1_eq_iff (ks : Shape) : keySizeMax1 ks = sprod ks ↔ sprod ks ≠ 0 := by
  unfold keySizeMax1; omega

theorem keyShape_cond (ss cb cs : Shape) : keyShape ss (some cs) (some (cb ++ cs)) = ss ++ cb := by
  simp [keyShape, leadingCondShape_append]

theorem keyShape_uncond (ss : Shape) (c : Option Shape) : keyShape ss none c = ss := by
  simp [keyShape]

theorem sampleKeys_eq {Key : Type} (split : Key → Nat → Nat → Key) (key : Key) (ks : Shape) :
    sampleKeys split key ks = .ok ⟨ks ++ [2], fun i => split key (sprod ks) (flatIndex ks i)⟩ := by
  simp only [sampleKeys, sampleKeysWith, keySize_eq, if_true]

/-- the previous revision (`max(1, prod)`): the reshape fails exactly on zero-sized key shapes -/
theorem sampleKeysWith_max1 {Key : Type} (split : Key → Nat → Nat → Key) (key : Key) (ks : Shape) :
    sampleKeysWith keySizeMax1 split key ks =
      if sprod ks ≠ 0 then .ok ⟨ks ++ [2], fun i => split key (sprod ks) (flatIndex ks i)⟩
      else .error .typeError := by
  unfold sampleKeysWith
  by_cases h : sprod ks ≠ 0
  · have := (keySizeMax1_eq_iff ks).2 h
    rw [if_pos this, if_pos h, this]
  · have : ¬ keySizeMax1 ks = sprod ks := fun e => h ((keySizeMax1_eq_iff ks).1 e)
    simp [this, h]

/-! ### `jnp.vectorize` on arrays, closed form -/
variable {A B R : Type}

theorem vectorize2_eq (cA cB : Shape) (f : A → B → R) (a : Arr A) (b : Arr B) :
    vectorize2 cA cB f a b =
      match leadingShape a.shape cA, leadingShape b.shape cB with
      | some la, some lb =>
        (match bcast2 la lb with
         | some loop => .ok ⟨loop, fun i => f (a.slice (bIndex la i)) (b.slice (bIndex lb i))⟩
         | none => .error .valueError)
      | _, _ => .error .valueError := by
  unfold vectorize2
  rw [vectorizeLoop_two]
  cases leadingShape a.shape cA <;> cases leadingShape b.shape cB <;> simp only []
  cases bcast2 _ _ <;> rfl

theorem vectorize1_eq (cA : Shape) (f : A → R) (a : Arr A) :
    vectorize1 cA f a =
      match leadingShape a.shape cA with
      | some la => .ok ⟨la, fun i => f (a.slice (bIndex la i))⟩
      | none => .error .valueError := by
  unfold vectorize1
  rw [vectorizeLoop_one]
  cases leadingShape a.shape cA <;> rfl

/-- accepted ⇒ shapes decompose and broadcast; the element function is the broadcast pairing -/
theorem vectorize2_ok {cA cB : Shape} {f : A → B → R} {a : Arr A} {b : Arr B} {out : Batched R}
    (h : vectorize2 cA cB f a b = .ok out) :
    ∃ la lb, a.shape = la ++ cA ∧ b.shape = lb ++ cB ∧ bcast2 la lb = some out.loop ∧
      out.elem = fun i => f (a.slice (bIndex la i)) (b.slice (bIndex lb i)) := by
  rw [vectorize2_eq] at h
  cases h1 : leadingShape a.shape cA with
  | none => simp [h1] at h
  | some la =>
    cases h2 : leadingShape b.shape cB with
    | none => simp [h1, h2] at h
    | some lb =>
      cases h3 : bcast2 la lb with
      | none => simp [h1, h2, h3] at h
      | some loop =>
        simp only [h1, h2, h3, Except.ok.injEq] at h
        subst h
        exact ⟨la, lb, leadingShape_eq_some.1 h1, leadingShape_eq_some.1 h2, h3, rfl⟩

theorem vectorize2_error {cA cB : Shape} {f : A → B → R} {a : Arr A} {b : Arr B} {e : PyErr}
    (h : vectorize2 cA cB f a b = .error e) : e = .valueError := by
  rw [vectorize2_eq] at h
  cases h1 : leadingShape a.shape cA <;> cases h2 : leadingShape b.shape cB <;> simp only [h1, h2] at h
  · cases h; rfl
  · cases h; rfl
  · cases h; rfl
  · rename_i la lb
    cases h3 : bcast2 la lb <;> simp only [h3] at h <;> cases h
    rfl

variable {X C K L : Type}

/-! ### the public methods, closed form on well-formed inputs -/

theorem logProbCond_eq (shape cs xb cb : Shape) (lp : X → C → L) (post : L → L) (x : Arr X) (c : Arr C)
    (hx : x.shape = xb ++ shape) (hc : c.shape = cb ++ cs) :
    logProbCond shape cs lp post x (some c) =
      match bcast2 xb cb with
      | some loop => .ok ⟨loop, fun i => post (lp (x.slice (bIndex xb i)) (c.slice (bIndex cb i)))⟩
      | none => .error .valueError := by
  simp only [logProbCond, vectorize2_eq, hx, hc, leadingShape_append]
  cases bcast2 xb cb <;> rfl

theorem logProbUncond_eq (shape xb : Shape) (lp : X → C → L) (post : L → L) (x : Arr X) (c : C)
    (hx : x.shape = xb ++ shape) :
    logProbUncond shape lp post x c = .ok ⟨xb, fun i => post (lp (x.slice (bIndex xb i)) c)⟩ := by
  simp only [logProbUncond, vectorize1_eq, hx, leadingShape_append]
  rfl

theorem sampleWithCond_eq (cs ss cb : Shape) (m : K → C → R) (split : K → Nat → Nat → K) (key : K) (c : Arr C)
    (hc : c.shape = cb ++ cs) :
    sampleWithCond cs m split key ss (some c) =
      .ok ⟨ss ++ cb, fun i => m (split key (sprod (ss ++ cb)) (flatIndex (ss ++ cb) (bIndex (ss ++ cb) i)))
                                 (c.slice (bIndex cb i))⟩ := by
  simp only [sampleWithCond, hc, keyShape_cond, sampleKeys_eq, vectorize2_eq, leadingShape_append, bcast2_prefix]

theorem sampleWithoutCond_eq (ss : Shape) (m : K → C → R) (split : K → Nat → Nat → K) (key : K) (c : C) :
    sampleWithoutCond m split key ss c =
      .ok ⟨ss, fun i => m (split key (sprod ss) (flatIndex ss (bIndex ss i))) c⟩ := by
  simp only [sampleWithoutCond, keyShape_uncond, sampleKeys_eq, vectorize1_eq, leadingShape_append]

/-! ### acceptance ⇔ trailing dimensions match (and the batch shapes broadcast) -/

theorem logProbCond_ok_iff (shape cs : Shape) (lp : X → C → L) (post : L → L) (x : Arr X) (c : Arr C) :
    (∃ out, logProbCond shape cs lp post x (some c) = .ok out) ↔
      ∃ xb cb loop, x.shape = xb ++ shape ∧ c.shape = cb ++ cs ∧ bcast2 xb cb = some loop := by
  constructor
  · rintro ⟨out, h⟩
    simp only [logProbCond, vectorize2_eq] at h
    cases h1 : leadingShape x.shape shape with
    | none => simp [h1, Except.map] at h
    | some xb =>
      cases h2 : leadingShape c.shape cs with
      | none => simp [h1, h2, Except.map] at h
      | some cb =>
        cases h3 : bcast2 xb cb with
        | none => simp [h1, h2, h3, Except.map] at h
        | some loop => exact ⟨xb, cb, loop, leadingShape_eq_some.1 h1, leadingShape_eq_some.1 h2, h3⟩
  · rintro ⟨xb, cb, loop, hx, hc, hb⟩
    rw [logProbCond_eq shape cs xb cb lp post x c hx hc, hb]
    exact ⟨_, rfl⟩

theorem logProbCond_error (shape cs : Shape) (lp : X → C → L) (post : L → L) (x : Arr X) (c : Arr C) (e : PyErr)
    (h : logProbCond shape cs lp post x (some c) = .error e) : e = .valueError := by
  simp only [logProbCond, vectorize2_eq] at h
  cases h1 : leadingShape x.shape shape <;> cases h2 : leadingShape c.shape cs <;>
    simp only [h1, h2, Except.map] at h
  · cases h; rfl
  · cases h; rfl
  · cases h; rfl
  · rename_i xb cb
    cases h3 : bcast2 xb cb <;> simp only [h3] at h <;> cases h
    rfl

theorem sampleWithCond_ok_iff (cs ss : Shape) (m : K → C → R) (split : K → Nat → Nat → K) (key : K) (c : Arr C) :
    (∃ out, sampleWithCond cs m split key ss (some c) = .ok out) ↔ ∃ cb, c.shape = cb ++ cs := by
  constructor
  · rintro ⟨out, h⟩
    simp only [sampleWithCond, sampleKeys_eq, vectorize2_eq] at h
    cases h2 : leadingShape c.shape cs with
    | none =>
      simp only [h2] at h
      split at h <;> simp_all
    | some cb => exact ⟨cb, leadingShape_eq_some.1 h2⟩
  · rintro ⟨cb, hc⟩
    rw [sampleWithCond_eq cs ss cb m split key c hc]
    exact ⟨_, rfl⟩

theorem sampleWithCond_error (cs ss : Shape) (m : K → C → R) (split : K → Nat → Nat → K) (key : K) (c : Arr C)
    (e : PyErr) (h : sampleWithCond cs m split key ss (some c) = .error e) : e = .valueError := by
  simp only [sampleWithCond, sampleKeys_eq] at h
  exact vectorize2_error h

/-! ### the shape-only `outShape` (what the driver prints) is the shape of the value-level model -/

/-- `jnp.vectorize` reads back from the flowjax signature exactly the declared input core shapes -/
theorem vectorizeLoopSig_ufunc (i : Shape) (is : List Shape) (o : Shape) (os : List Shape) (args : List Shape) :
    vectorizeLoopSig (ufuncSignature (i :: is) (o :: os)) args = vectorizeLoop (i :: is) args := by
  simp only [vectorizeLoopSig, parseSignature_roundtrip (i :: is) (o :: os) (by simp) (by simp)]

theorem outShape_logProb_cond_link (shape cs ss : Shape) (lp : X → C → L) (post : L → L) (x : Arr X) (c : Arr C) :
    outShape .logProb shape (some cs) ss x.shape (some c.shape)
      = (logProbCond shape cs lp post x (some c)).map (fun b => [b.loop]) := by
  simp only [outShape, methodShapes, vectorizeLoopSig_ufunc, logProbCond, vectorize2_eq, vectorizeLoop_two, if_true]
  cases leadingShape x.shape shape <;> cases leadingShape c.shape cs <;> simp only [] <;> try rfl
  cases bcast2 _ _ <;> simp [Except.map]

theorem outShape_logProb_uncond_link (shape ss : Shape) (lp : X → C → L) (post : L → L) (x : Arr X) (c : C)
    (cshape : Option Shape) :
    outShape .logProb shape none ss x.shape cshape
      = (logProbUncond shape lp post x c).map (fun b => [b.loop]) := by
  simp only [outShape, methodShapes, vectorizeLoopSig_ufunc, logProbUncond, vectorize1_eq, vectorizeLoop_one, if_true]
  cases leadingShape x.shape shape <;> simp [Except.map]

theorem outShape_sample_cond_link (shape cs ss xs : Shape) (smp : K → C → X) (split : K → Nat → Nat → K) (key : K)
    (c : Arr C) :
    outShape .sample shape (some cs) ss xs (some c.shape)
      = (sampleCond cs smp split key ss (some c)).map (fun b => [b.loop ++ shape]) := by
  simp only [outShape, methodShapes, vectorizeLoopSig_ufunc, sampleCond, sampleWithCond, sampleKeys, sampleKeysWith, vectorize2_eq,
    vectorizeLoop_two, (by decide : ¬ Method.sample = Method.logProb), if_false]
  simp only [keySize_eq, if_true, leadingShape_append]
  cases leadingShape c.shape cs <;> simp only [] <;> try rfl
  cases bcast2 _ _ <;> simp [Except.map]

theorem outShape_sampleLp_cond_link (shape cs ss xs : Shape) (slp : K → C → X × L) (split : K → Nat → Nat → K)
    (key : K) (c : Arr C) :
    outShape .sampleLp shape (some cs) ss xs (some c.shape)
      = (sampleLpCond cs slp split key ss (some c)).map (fun b => [b.loop ++ shape, b.loop]) := by
  simp only [outShape, methodShapes, vectorizeLoopSig_ufunc, sampleLpCond, sampleWithCond, sampleKeys, sampleKeysWith, vectorize2_eq,
    vectorizeLoop_two, (by decide : ¬ Method.sampleLp = Method.logProb), if_false]
  simp only [keySize_eq, if_true, leadingShape_append]
  cases leadingShape c.shape cs <;> simp only [] <;> try rfl
  cases bcast2 _ _ <;> simp [Except.map]

theorem outShape_sample_uncond_link (shape ss xs : Shape) (smp : K → C → X) (split : K → Nat → Nat → K) (key : K)
    (c : C) (cshape : Option Shape) :
    outShape .sample shape none ss xs cshape
      = (sampleUncond smp split key ss c).map (fun b => [b.loop ++ shape]) := by
  simp only [outShape, methodShapes, vectorizeLoopSig_ufunc, sampleUncond, sampleWithoutCond, sampleKeys, sampleKeysWith, vectorize1_eq,
    vectorizeLoop_one, (by decide : ¬ Method.sample = Method.logProb), if_false, keyShape_uncond]
  simp [keySize_eq, leadingShape_append, Except.map]

theorem outShape_sampleLp_uncond_link (shape ss xs : Shape) (slp : K → C → X × L) (split : K → Nat → Nat → K)
    (key : K) (c : C) (cshape : Option Shape) :
    outShape .sampleLp shape none ss xs cshape
      = (sampleLpUncond slp split key ss c).map (fun b => [b.loop ++ shape, b.loop]) := by
  simp only [outShape, methodShapes, vectorizeLoopSig_ufunc, sampleLpUncond, sampleWithoutCond, sampleKeys, sampleKeysWith,
    vectorize1_eq, vectorizeLoop_one, (by decide : ¬ Method.sampleLp = Method.logProb), if_false, keyShape_uncond]
  simp [keySize_eq, leadingShape_append, Except.map]

/-! ### closed forms of `outShape` -/
theorem outShape_logProb_cond (shape cs ss xb cb : Shape) :
    outShape .logProb shape (some cs) ss (xb ++ shape) (some (cb ++ cs)) =
      match bcast2 xb cb with
      | some l => .ok [l]
      | none => .error .valueError := by
  simp only [outShape, methodShapes, vectorizeLoopSig_ufunc, vectorizeLoop_two, leadingShape_append, if_true]
  cases bcast2 xb cb <;> simp [Except.map]

theorem outShape_logProb_uncond (shape ss xb : Shape) (c : Option Shape) :
    outShape .logProb shape none ss (xb ++ shape) c = .ok [xb] := by
  simp [outShape, methodShapes, vectorizeLoopSig_ufunc, vectorizeLoop_one, leadingShape_append, Except.map]

theorem outShape_sample_cond (shape cs ss xs cb : Shape) :
    outShape .sample shape (some cs) ss xs (some (cb ++ cs)) = .ok [ss ++ cb ++ shape] := by
  have hk := keySize_eq
  simp only [outShape, methodShapes, vectorizeLoopSig_ufunc, keyShape_cond, if_pos (hk _), vectorizeLoop_two,
    leadingShape_append, bcast2_prefix, (by decide : ¬ Method.sample = Method.logProb), if_false]
  rfl

theorem outShape_sampleLp_cond (shape cs ss xs cb : Shape) :
    outShape .sampleLp shape (some cs) ss xs (some (cb ++ cs)) = .ok [ss ++ cb ++ shape, ss ++ cb] := by
  have hk := keySize_eq
  simp only [outShape, methodShapes, vectorizeLoopSig_ufunc, keyShape_cond, if_pos (hk _), vectorizeLoop_two,
    leadingShape_append, bcast2_prefix, (by decide : ¬ Method.sampleLp = Method.logProb), if_false]
  simp [Except.map]

theorem outShape_sample_uncond (shape ss xs : Shape) (c : Option Shape) :
    outShape .sample shape none ss xs c = .ok [ss ++ shape] := by
  have hk := keySize_eq
  simp only [outShape, methodShapes, vectorizeLoopSig_ufunc, keyShape_uncond, if_pos (hk _), vectorizeLoop_one,
    leadingShape_append, (by decide : ¬ Method.sample = Method.logProb), if_false]
  rfl

theorem outShape_sampleLp_uncond (shape ss xs : Shape) (c : Option Shape) :
    outShape .sampleLp shape none ss xs c = .ok [ss ++ shape, ss] := by
  have hk := keySize_eq
  simp only [outShape, methodShapes, vectorizeLoopSig_ufunc, keyShape_uncond, if_pos (hk _), vectorizeLoop_one,
    leadingShape_append, (by decide : ¬ Method.sampleLp = Method.logProb), if_false]
  simp [Except.map]

/-! ### the driver's `pair` is the model's pairing -/
theorem pairFlat_two {la lb loop : Shape} {k : Nat} (h : bcast2 la lb = some loop) (hk : k < sprod loop) :
    pairFlat [la, lb] k
      = some (loop, [flatIndex la (bIndex la (unflatten loop k)), flatIndex lb (bIndex lb (unflatten loop k))]) ∧
    flatIndex la (bIndex la (unflatten loop k)) < sprod la ∧
    flatIndex lb (bIndex lb (unflatten loop k)) < sprod lb ∧
    unflatten la (flatIndex la (bIndex la (unflatten loop k))) = bIndex la (unflatten loop k) ∧
    unflatten lb (flatIndex lb (bIndex lb (unflatten loop k))) = bIndex lb (unflatten loop k) := by
  have hv := validIdx_unflatten hk
  have ha := bIndex_valid_left h hv
  have hb := bIndex_valid_right h hv
  refine ⟨?_, flatIndex_lt ha, flatIndex_lt hb, unflatten_flatIndex ha, unflatten_flatIndex hb⟩
  simp [pairFlat, broadcastShapes, bcast2_nil_right, h]

end Vec
