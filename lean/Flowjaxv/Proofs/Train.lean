import Flowjaxv.Model.Train
/-!
# Lemmas about `Model/Train.lean` (core Lean only)

Part 1: loop control (C16).  Part 2: data flow and key schedule (C15).
-/
namespace Train

/-! ## Part 1 — running minimum, argmin -/

theorem foldl_min_le_init (xs : List Loss) (a : Loss) : xs.foldl min a ≤ a := by
  induction xs generalizing a with
  | nil => exact Int.le_refl _
  | cons x xs ih => simp only [List.foldl]; exact Int.le_trans (ih _) (Int.min_le_left _ _)

theorem foldl_min_le_mem (xs : List Loss) (a : Loss) : ∀ y ∈ xs, xs.foldl min a ≤ y := by
  induction xs generalizing a with
  | nil => intro y hy; cases hy
  | cons x xs ih =>
    intro y hy; simp only [List.foldl]
    rcases List.mem_cons.mp hy with h | h
    · subst h; exact Int.le_trans (foldl_min_le_init _ _) (Int.min_le_right _ _)
    · exact ih _ y h

theorem foldl_min_mem (xs : List Loss) (a : Loss) : xs.foldl min a = a ∨ xs.foldl min a ∈ xs := by
  induction xs generalizing a with
  | nil => left; rfl
  | cons x xs ih =>
    simp only [List.foldl]
    rcases ih (min a x) with h | h
    · rw [h]; rcases Int.le_total a x with hle | hle
      · left; exact Int.min_eq_left hle
      · right; rw [Int.min_eq_right hle]; exact List.mem_cons_self
    · right; exact List.mem_cons_of_mem _ h

/-- `losses[-1] == min(losses)` holds exactly when the last loss is ≤ every earlier one -/
theorem last_is_min_iff (ls : List Loss) (l : Loss) :
    (some l == listMin? (ls ++ [l])) = true ↔ ∀ y ∈ ls, l ≤ y := by
  rw [beq_iff_eq]
  cases ls with
  | nil => simp [listMin?]
  | cons x xs =>
    simp only [List.cons_append, listMin?, Option.some.injEq]
    constructor
    · intro h y hy
      rw [h]
      rcases List.mem_cons.mp hy with e | e
      · subst e; exact foldl_min_le_init _ _
      · exact foldl_min_le_mem _ _ y (List.mem_append_left _ e)
    · intro h
      apply Int.le_antisymm
      · rcases foldl_min_mem (xs ++ [l]) x with e | e
        · rw [e]; exact h x List.mem_cons_self
        · rcases List.mem_append.mp e with e' | e'
          · exact h _ (List.mem_cons_of_mem _ e')
          · rw [List.mem_singleton.mp e']; exact Int.le_refl _
      · exact foldl_min_le_mem _ _ l (by simp)

/-- invariant of the `argmin` scan on a list given by an index function -/
theorem argminAux_map (f : Nat → Loss) : ∀ (k cur bi : Nat), bi < cur →
    (∀ j, j < cur → f bi ≤ f j) → (∀ j, j < bi → f bi < f j) →
    argminAux ((List.range' cur k).map f) (f bi) bi cur < cur + k ∧
    (∀ j, j < cur + k → f (argminAux ((List.range' cur k).map f) (f bi) bi cur) ≤ f j) ∧
    (∀ j, j < argminAux ((List.range' cur k).map f) (f bi) bi cur →
      f (argminAux ((List.range' cur k).map f) (f bi) bi cur) < f j) := by
  intro k
  induction k with
  | zero =>
    intro cur bi hbi hmin hfirst
    simp only [List.range'_zero, List.map_nil, argminAux, Nat.add_zero]
    exact ⟨hbi, hmin, hfirst⟩
  | succ k ih =>
    intro cur bi hbi hmin hfirst
    simp only [List.range'_succ, List.map_cons, argminAux]
    by_cases hlt : f cur < f bi
    · simp only [hlt, if_true]
      have := ih (cur + 1) cur (Nat.lt_succ_self _)
        (fun j hj => by
          rcases Nat.lt_succ_iff_lt_or_eq.mp hj with h | h
          · exact Int.le_of_lt (Int.lt_of_lt_of_le hlt (hmin j h))
          · rw [h]; exact Int.le_refl _)
        (fun j hj => Int.lt_of_lt_of_le hlt (hmin j hj))
      have e : cur + 1 + k = cur + (k + 1) := by omega
      rw [e] at this; exact this
    · simp only [hlt, if_false]
      have := ih (cur + 1) bi (Nat.lt_succ_of_lt hbi)
        (fun j hj => by
          rcases Nat.lt_succ_iff_lt_or_eq.mp hj with h | h
          · exact hmin j h
          · rw [h]; exact Int.not_lt.mp hlt)
        hfirst
      have e : cur + 1 + k = cur + (k + 1) := by omega
      rw [e] at this; exact this

/-- `argmin` of `[f 0, …, f n]` is the FIRST index of the minimum -/
theorem argmin_map (f : Nat → Loss) (n : Nat) :
    argmin ((List.range (n + 1)).map f) ≤ n ∧
    (∀ j, j ≤ n → f (argmin ((List.range (n + 1)).map f)) ≤ f j) ∧
    (∀ j, j < argmin ((List.range (n + 1)).map f) → f (argmin ((List.range (n + 1)).map f)) < f j) := by
  have h := argminAux_map f n 1 0 (by omega)
    (fun j hj => by have : j = 0 := by omega
                    rw [this]; exact Int.le_refl _)
    (fun j hj => absurd hj (Nat.not_lt_zero _))
  have e : (List.range (n + 1)).map f = f 0 :: (List.range' 1 n).map f := by
    rw [List.range_eq_range', List.range'_succ, List.map_cons]
  rw [e]
  simp only [argmin]
  refine ⟨by omega, fun j hj => h.2.1 j (by omega), h.2.2⟩

/-- the minimiser of pairwise-distinct values is unique, so it is `argmin` -/
theorem argmin_unique (f : Nat → Loss) (n m : Nat) (hm : m ≤ n)
    (hinj : ∀ i j, i ≤ n → j ≤ n → f i = f j → i = j) (hmin : ∀ j, j ≤ n → f m ≤ f j) :
    argmin ((List.range (n + 1)).map f) = m := by
  obtain ⟨h1, h2, _⟩ := argmin_map f n
  exact hinj _ _ h1 hm (Int.le_antisymm (h2 m hm) (hmin _ h1))

theorem list_eq_map_range (l : List Loss) : l = (List.range l.length).map (fun i => l.getD i 0) := by
  apply List.ext_getElem
  · simp
  · intro i h1 h2
    simp [List.getD_eq_getElem?_getD, List.getElem?_eq_getElem h1]

/-- `argmin` on an arbitrary non-empty list: in range, a minimum, and the first one -/
theorem argmin_spec (l : List Loss) (hne : l ≠ []) :
    ∃ h : argmin l < l.length, (∀ j (hj : j < l.length), l[argmin l] ≤ l[j]) ∧
      (∀ j (hj : j < argmin l), l[argmin l] < l[j]'(Nat.lt_trans hj h)) := by
  obtain ⟨n, hn⟩ : ∃ n, l.length = n + 1 := by
    cases l with
    | nil => exact absurd rfl hne
    | cons x xs => exact ⟨xs.length, rfl⟩
  have hl := list_eq_map_range l
  rw [hn] at hl
  obtain ⟨h1, h2, h3⟩ := argmin_map (fun i => l.getD i 0) n
  rw [← hl] at h1 h2 h3
  have hlt : argmin l < l.length := by omega
  have gd : ∀ j (hj : j < l.length), l.getD j 0 = l[j] := fun j hj => by
    simp [List.getD_eq_getElem?_getD, List.getElem?_eq_getElem hj]
  refine ⟨hlt, fun j hj => ?_, fun j hj => ?_⟩
  · have := h2 j (by omega); simp only [gd _ hlt, gd _ hj] at this; exact this
  · have := h3 j hj; simp only [gd _ hlt, gd _ (Nat.lt_trans hj hlt)] at this; exact this

/-! ## `fit_to_data` loop -/

/-- the test the code performs after epoch `e` (0-based) in its `elif`: the new validation loss is not
the running minimum and `count_fruitless(losses["val"]) > max_patience` -/
def StopTest (val : Nat → Loss) (p e : Nat) : Prop :=
  ¬ (∀ j, j < e → val e ≤ val j) ∧ p < e - argmin ((List.range (e + 1)).map val)

structure FitInv (trn val : Nat → Loss) (s : FitState) : Prop where
  hval : s.val = (List.range s.epochs).map val
  htrain : s.train = (List.range s.epochs).map trn
  hbest0 : s.epochs = 0 → s.best = 0
  hbest : 0 < s.epochs → ∃ m, m < s.epochs ∧ s.best = m + 1 ∧ (∀ j, j < s.epochs → val m ≤ val j) ∧
    (∀ j, m < j → j < s.epochs → val m < val j)

theorem mem_map_range_iff (val : Nat → Loss) (e : Nat) (P : Loss → Prop) :
    (∀ y ∈ (List.range e).map val, P y) ↔ ∀ j, j < e → P (val j) := by
  constructor
  · intro h j hj; exact h _ (List.mem_map.mpr ⟨j, List.mem_range.mpr hj, rfl⟩)
  · intro h y hy
    obtain ⟨j, hj, rfl⟩ := List.mem_map.mp hy
    exact h j (List.mem_range.mp hj)

theorem countFruitless_map (val : Nat → Loss) (e : Nat) :
    countFruitless ((List.range (e + 1)).map val) = e - argmin ((List.range (e + 1)).map val) := by
  simp only [countFruitless, List.length_map, List.length_range]; omega

/-- the invariant after one more epoch, when its validation loss is a new running minimum -/
theorem FitInv.step_min {trn val : Nat → Loss} {s : FitState} (h : FitInv trn val s)
    (hmin : ∀ j, j < s.epochs → val s.epochs ≤ val j) :
    FitInv trn val ⟨s.epochs + 1, s.train ++ [trn s.epochs], s.val ++ [val s.epochs], s.epochs + 1⟩ := by
  refine ⟨by simp [h.hval, List.range_succ], by simp [h.htrain, List.range_succ], fun h0 => by simp at h0,
    fun _ => ⟨s.epochs, Nat.lt_succ_self _, rfl, fun j hj => ?_, fun j h1 h2 => ?_⟩⟩
  · rcases Nat.lt_succ_iff_lt_or_eq.mp hj with h' | h'
    · exact hmin j h'
    · rw [h']; exact Int.le_refl _
  · simp only at h2; omega

/-- the invariant after one more epoch, when its validation loss is not a new running minimum -/
theorem FitInv.step_nomin {trn val : Nat → Loss} {s : FitState} (h : FitInv trn val s)
    (hnot : ¬ ∀ j, j < s.epochs → val s.epochs ≤ val j) :
    FitInv trn val ⟨s.epochs + 1, s.train ++ [trn s.epochs], s.val ++ [val s.epochs], s.best⟩ := by
  have hpos : 0 < s.epochs := by
    rcases Nat.eq_zero_or_pos s.epochs with hz | hp
    · exfalso; apply hnot; intro j hj; omega
    · exact hp
  obtain ⟨m, hm, hb, hle, hlast⟩ := h.hbest hpos
  have ⟨j0, hj0, hlt0⟩ : ∃ j, j < s.epochs ∧ val j < val s.epochs := by
    apply Classical.byContradiction; intro hne; apply hnot; intro j hj
    exact Int.not_lt.mp (fun hlt => hne ⟨j, hj, hlt⟩)
  have hme : val m < val s.epochs := Int.lt_of_le_of_lt (hle j0 hj0) hlt0
  refine ⟨by simp [h.hval, List.range_succ], by simp [h.htrain, List.range_succ], fun h0 => by simp at h0,
    fun _ => ⟨m, Nat.lt_succ_of_lt hm, hb, fun j hj => ?_, fun j h1 h2 => ?_⟩⟩
  · rcases Nat.lt_succ_iff_lt_or_eq.mp hj with h' | h'
    · exact hle j h'
    · rw [h']; exact Int.le_of_lt hme
  · rcases Nat.lt_succ_iff_lt_or_eq.mp h2 with h' | h'
    · exact hlast j h1 h'
    · rw [h']; exact hme

/-- what the loop does from an invariant state in which no epoch so far met the stop test -/
theorem fitLoop_spec (trn val : Nat → Loss) (p : Nat) : ∀ (fuel : Nat) (s : FitState),
    FitInv trn val s → (∀ e, e < s.epochs → ¬ StopTest val p e) →
    FitInv trn val (fitLoop trn val p fuel s) ∧
    s.epochs ≤ (fitLoop trn val p fuel s).epochs ∧
    (0 < fuel → s.epochs < (fitLoop trn val p fuel s).epochs) ∧
    (fitLoop trn val p fuel s).epochs ≤ s.epochs + fuel ∧
    (∀ e, e + 1 < (fitLoop trn val p fuel s).epochs → ¬ StopTest val p e) ∧
    ((fitLoop trn val p fuel s).epochs < s.epochs + fuel →
      StopTest val p ((fitLoop trn val p fuel s).epochs - 1)) := by
  intro fuel
  induction fuel with
  | zero =>
    intro s hinv hno
    simp only [fitLoop]
    exact ⟨hinv, Nat.le_refl _, fun h => absurd h (Nat.lt_irrefl 0), Nat.le_refl _,
      fun e he => hno e (by omega), fun h => absurd h (Nat.lt_irrefl _)⟩
  | succ fuel ih =>
    intro s hinv hno
    have hvl : s.val ++ [val s.epochs] = (List.range (s.epochs + 1)).map val := by
      simp [hinv.hval, List.range_succ]
    have hiff : (some (val s.epochs) == listMin? (s.val ++ [val s.epochs])) = true ↔
        ∀ j, j < s.epochs → val s.epochs ≤ val j := by
      rw [last_is_min_iff, hinv.hval]; exact mem_map_range_iff val s.epochs (fun y => val s.epochs ≤ y)
    by_cases hmin : (some (val s.epochs) == listMin? (s.val ++ [val s.epochs])) = true
    · -- new running minimum: best_params = params, continue
      have hno' : ∀ e, e < s.epochs + 1 → ¬ StopTest val p e := by
        intro e he
        rcases Nat.lt_succ_iff_lt_or_eq.mp he with h | h
        · exact hno e h
        · rw [h]; exact fun hs => hs.1 (hiff.mp hmin)
      obtain ⟨i1, i2, _, i4, i5, i6⟩ := ih _ (hinv.step_min (hiff.mp hmin)) hno'
      simp only [fitLoop, hmin, if_true]
      simp only at i2 i4 i6
      refine ⟨i1, by omega, fun _ => by omega, by omega, i5, fun h => i6 (by omega)⟩
    · have hnot : ¬ ∀ j, j < s.epochs → val s.epochs ≤ val j := fun h => hmin (hiff.mpr h)
      by_cases hcf : countFruitless (s.val ++ [val s.epochs]) > p
      · -- break
        simp only [fitLoop, hmin, hcf, if_true, Bool.false_eq_true, if_false]
        refine ⟨hinv.step_nomin hnot, by simp, fun _ => by simp, by simp, fun e he => hno e (by simpa using he),
          fun _ => ?_⟩
        simp only [Nat.add_sub_cancel]
        refine ⟨hnot, ?_⟩
        rw [hvl, countFruitless_map] at hcf; exact hcf
      · have hno' : ∀ e, e < s.epochs + 1 → ¬ StopTest val p e := by
          intro e he
          rcases Nat.lt_succ_iff_lt_or_eq.mp he with h | h
          · exact hno e h
          · rw [h]; intro hs; apply hcf; rw [hvl, countFruitless_map]; exact hs.2
        obtain ⟨i1, i2, _, i4, i5, i6⟩ := ih _ (hinv.step_nomin hnot) hno'
        simp only [fitLoop, hmin, hcf, if_false, Bool.false_eq_true]
        simp only at i2 i4 i6
        refine ⟨i1, by omega, fun _ => by omega, by omega, i5, fun h => i6 (by omega)⟩

theorem fitInv_init (trn val : Nat → Loss) : FitInv trn val ⟨0, [], [], 0⟩ :=
  ⟨rfl, rfl, fun _ => rfl, fun h => absurd h (Nat.lt_irrefl 0)⟩

/-- everything about `fitToData`'s final loop state -/
theorem fitToData_spec (trn val : Nat → Loss) (maxEpochs p : Nat) :
    let s := fitLoop trn val p maxEpochs ⟨0, [], [], 0⟩
    FitInv trn val s ∧ (0 < maxEpochs → 0 < s.epochs) ∧ s.epochs ≤ maxEpochs ∧
    (∀ e, e + 1 < s.epochs → ¬ StopTest val p e) ∧
    (s.epochs < maxEpochs → StopTest val p (s.epochs - 1)) := by
  obtain ⟨i1, _, i3, i4, i5, i6⟩ := fitLoop_spec trn val p maxEpochs ⟨0, [], [], 0⟩ (fitInv_init trn val)
    (fun e he => absurd he (Nat.not_lt_zero _))
  simp only [Nat.zero_add] at i4 i6
  exact ⟨i1, i3, i4, i5, i6⟩

/-- the documented stopping rule at (0-based) epoch `e`: more than `p` epochs have passed since the
epoch `m ≤ e` whose validation loss is the best among epochs `0..e` -/
def Stops (val : Nat → Loss) (p e : Nat) : Prop :=
  ∃ m, m ≤ e ∧ (∀ j, j ≤ e → val m ≤ val j) ∧ p < e - m

/-- for pairwise-distinct losses the code's test is the documented rule -/
theorem stopTest_iff_stops (val : Nat → Loss) (p e : Nat)
    (hinj : ∀ i j, i ≤ e → j ≤ e → val i = val j → i = j) : StopTest val p e ↔ Stops val p e := by
  obtain ⟨a1, a2, _⟩ := argmin_map val e
  constructor
  · intro ⟨_, h2⟩
    exact ⟨_, a1, a2, h2⟩
  · intro ⟨m, hm, hmin, hp⟩
    have hma := argmin_unique val e m hm hinj hmin
    refine ⟨fun hall => ?_, by rw [hma]; exact hp⟩
    have : val e = val m := Int.le_antisymm (hall m (by omega)) (hmin e (Nat.le_refl _))
    have := hinj e m (Nat.le_refl _) hm this
    omega

/-! ## variational loop -/

structure ViInv (loss : Nat → Loss) (s : ViState) : Prop where
  hlosses : s.losses = (List.range s.steps).map loss
  hbest0 : s.steps = 0 → s.best = 0
  hbest : 0 < s.steps → s.best < s.steps ∧ (∀ j, j < s.steps → loss s.best ≤ loss j) ∧
    (∀ j, s.best < j → j < s.steps → loss s.best < loss j)

theorem viLoop_spec (loss : Nat → Loss) : ∀ (fuel : Nat) (s : ViState), ViInv loss s →
    ViInv loss (viLoop loss fuel s) ∧ (viLoop loss fuel s).steps = s.steps + fuel := by
  intro fuel
  induction fuel with
  | zero => intro s h; exact ⟨h, rfl⟩
  | succ fuel ih =>
    intro s hinv
    have hiff : (some (loss s.steps) == listMin? (s.losses ++ [loss s.steps])) = true ↔
        ∀ j, j < s.steps → loss s.steps ≤ loss j := by
      rw [last_is_min_iff, hinv.hlosses]; exact mem_map_range_iff loss s.steps (fun y => loss s.steps ≤ y)
    have hstep : ViInv loss ⟨s.steps + 1, s.losses ++ [loss s.steps],
        if (some (loss s.steps) == listMin? (s.losses ++ [loss s.steps])) = true then s.steps else s.best⟩ := by
      refine ⟨by simp [hinv.hlosses, List.range_succ], fun h0 => by simp at h0, fun _ => ?_⟩
      by_cases hmin : (some (loss s.steps) == listMin? (s.losses ++ [loss s.steps])) = true
      · simp only [hmin, if_true]
        refine ⟨Nat.lt_succ_self _, fun j hj => ?_, fun j h1 h2 => by omega⟩
        rcases Nat.lt_succ_iff_lt_or_eq.mp hj with h | h
        · exact hiff.mp hmin j h
        · rw [h]; exact Int.le_refl _
      · simp only [hmin, Bool.false_eq_true, if_false]
        have hnot : ¬ ∀ j, j < s.steps → loss s.steps ≤ loss j := fun h => hmin (hiff.mpr h)
        have hpos : 0 < s.steps := by
          rcases Nat.eq_zero_or_pos s.steps with hz | hp
          · exfalso; apply hnot; intro j hj; omega
          · exact hp
        obtain ⟨hb, hle, hlast⟩ := hinv.hbest hpos
        have ⟨j0, hj0, hlt0⟩ : ∃ j, j < s.steps ∧ loss j < loss s.steps := by
          apply Classical.byContradiction; intro hne; apply hnot; intro j hj
          exact Int.not_lt.mp (fun hlt => hne ⟨j, hj, hlt⟩)
        have hme : loss s.best < loss s.steps := Int.lt_of_le_of_lt (hle j0 hj0) hlt0
        refine ⟨Nat.lt_succ_of_lt hb, fun j hj => ?_, fun j h1 h2 => ?_⟩
        · rcases Nat.lt_succ_iff_lt_or_eq.mp hj with h | h
          · exact hle j h
          · rw [h]; exact Int.le_of_lt hme
        · rcases Nat.lt_succ_iff_lt_or_eq.mp h2 with h | h
          · exact hlast j h1 h
          · rw [h]; exact hme
    obtain ⟨i1, i2⟩ := ih _ hstep
    simp only [viLoop]
    exact ⟨i1, by rw [i2]; simp only []; omega⟩

theorem viInv_init (loss : Nat → Loss) : ViInv loss ⟨0, [], 0⟩ :=
  ⟨rfl, fun _ => rfl, fun h => absurd h (Nat.lt_irrefl 0)⟩

/-! ## Part 2 — data flow (C15) -/
section DataFlow
variable {α β : Type}

theorem applyPerm_range_self (a : List α) : applyPerm (List.range a.length) a = a := by
  induction a with
  | nil => rfl
  | cons x xs ih =>
    simp only [applyPerm] at ih ⊢
    rw [List.length_cons, List.range_succ_eq_map, List.filterMap_cons]
    simp only [List.getElem?_cons_zero, List.filterMap_map]
    have : ((fun i => (x :: xs)[i]?) ∘ Nat.succ) = fun i => xs[i]? := by
      funext i; simp
    rw [this, ih]

theorem applyPerm_perm {π : List Nat} {a : List α} (h : π.Perm (List.range a.length)) :
    (applyPerm π a).Perm a := by
  have := h.filterMap (fun i => a[i]?)
  rw [show List.filterMap (fun i => a[i]?) (List.range a.length) = a from applyPerm_range_self a] at this
  exact this

theorem applyPerm_length {π : List Nat} {a : List α} (h : π.Perm (List.range a.length)) :
    (applyPerm π a).length = a.length := (applyPerm_perm h).length_eq

theorem applyPerm_map (f : α → β) (π : List Nat) (a : List α) :
    applyPerm π (a.map f) = (applyPerm π a).map f := by
  simp only [applyPerm, List.map_filterMap, List.getElem?_map]

/-! ### chunks / addBatch -/

theorem chunks_length (b : Nat) : ∀ (nb : Nat) (l : List α), (chunks b nb l).length = nb := by
  intro nb; induction nb with
  | zero => intro l; rfl
  | succ nb ih => intro l; simp [chunks, ih]

theorem chunks_flatten (b : Nat) : ∀ (nb : Nat) (l : List α), l.length = nb * b →
    (chunks b nb l).flatten = l := by
  intro nb; induction nb with
  | zero => intro l h; simp at h; simp [chunks, h]
  | succ nb ih =>
    intro l h
    simp only [chunks, List.flatten_cons]
    rw [ih (l.drop b) (by rw [List.length_drop, h, Nat.succ_mul]; omega), List.take_append_drop]

theorem chunks_row_length (b : Nat) : ∀ (nb : Nat) (l : List α), l.length = nb * b →
    ∀ r ∈ chunks b nb l, r.length = b := by
  intro nb; induction nb with
  | zero => intro l _ r hr; simp [chunks] at hr
  | succ nb ih =>
    intro l h r hr
    simp only [chunks, List.mem_cons] at hr
    rcases hr with e | e
    · rw [e, List.length_take, h, Nat.succ_mul]; omega
    · exact ih (l.drop b) (by rw [List.length_drop, h, Nat.succ_mul]; omega) r e

theorem chunks_map (f : α → β) (b : Nat) : ∀ (nb : Nat) (l : List α),
    chunks b nb (l.map f) = (chunks b nb l).map (List.map f) := by
  intro nb; induction nb with
  | zero => intro l; rfl
  | succ nb ih => intro l; simp only [chunks, List.map_cons, ← List.map_take, ← List.map_drop, ih]

theorem addBatch_take_length (b : Nat) (a : List α) :
    (a.take (a.length / min b a.length * min b a.length)).length =
      a.length / min b a.length * min b a.length := by
  rw [List.length_take]; exact Nat.min_eq_left (Nat.div_mul_le_self _ _)

theorem addBatch_length (b : Nat) (a : List α) : (addBatch b a).length = a.length / min b a.length := by
  simp only [addBatch, chunks_length]

/-- the rows of all batches, in order, are the leading `n_batches * b'` rows -/
theorem addBatch_flatten (b : Nat) (a : List α) :
    (addBatch b a).flatten = a.take (a.length / min b a.length * min b a.length) := by
  simp only [addBatch]
  exact chunks_flatten _ _ _ (addBatch_take_length b a)

theorem addBatch_row_length (b : Nat) (a : List α) : ∀ r ∈ addBatch b a, r.length = min b a.length := by
  simp only [addBatch]
  exact chunks_row_length _ _ _ (addBatch_take_length b a)

theorem addBatch_map (f : α → β) (b : Nat) (a : List α) :
    addBatch b (a.map f) = (addBatch b a).map (List.map f) := by
  simp only [addBatch, List.length_map, ← List.map_take, chunks_map]

/-- `n_batches * b' = len - len % b'` -/
theorem used_eq (n b' : Nat) : n / b' * b' = n - n % b' := by
  have := Nat.div_add_mod n b'
  rw [Nat.mul_comm] at this; omega

/-! ### loss calls -/

theorem lossCalls_rows : ∀ (key : Path) (bs : List (List α)), (lossCalls key bs).map (·.rows) = bs := by
  intro key bs; induction bs generalizing key with
  | nil => rfl
  | cons bt rest ih => simp [lossCalls, ih]

theorem lossCalls_length (key : Path) (bs : List (List α)) : (lossCalls key bs).length = bs.length := by
  have := congrArg List.length (lossCalls_rows key bs); simpa using this

theorem lossCalls_map (f : α → β) : ∀ (key : Path) (bs : List (List α)),
    lossCalls key (bs.map (List.map f)) = (lossCalls key bs).map (Call.map f) := by
  intro key bs; induction bs generalizing key with
  | nil => rfl
  | cons bt rest ih => simp [lossCalls, ih, Call.map]

theorem flatMap_rows (cs : List (Call α)) : cs.flatMap (·.rows) = (cs.map (·.rows)).flatten := rfl

/-! ### naturality in the rows (→ `rows_aligned`) -/

theorem epochLoop_map (f : α → β) (perm : Path → Nat → List Nat) (b : Nat) :
    ∀ (cnt : Nat) (key : Path) (tr va : List α),
    epochLoop perm b cnt key (tr.map f) (va.map f) = (epochLoop perm b cnt key tr va).map (Epoch.map f) := by
  intro cnt; induction cnt with
  | zero => intro key tr va; rfl
  | succ cnt ih =>
    intro key tr va
    simp only [epochLoop, List.length_map, applyPerm_map, addBatch_map, lossCalls_map, ih, List.map_cons,
      Epoch.map]

theorem fitDataCore_map (f : α → β) (perm : Path → Nat → List Nat) (nVal b epochs : Nat) (a : List α) :
    fitDataCore perm nVal b epochs (a.map f) = (fitDataCore perm nVal b epochs a).map f := by
  simp only [fitDataCore, trainValSplit, List.length_map, applyPerm_map, ← List.map_take, ← List.map_drop,
    epochLoop_map, Run.map]

theorem fitData_map (f : α → β) (perm : Path → Nat → List Nat) (nVal b epochs : Nat) (a : List α) :
    fitData perm nVal b epochs (a.map f) = (fitData perm nVal b epochs a).map (Run.map f) := by
  simp only [fitData, List.length_map, fitDataCore_map]
  split <;> rfl

/-! ### the split -/

theorem trainValSplit_spec {π₀ : List Nat} {a : List α} (nVal : Nat) (h : π₀.Perm (List.range a.length))
    (hv : nVal ≤ a.length) :
    ((trainValSplit π₀ nVal a).1 ++ (trainValSplit π₀ nVal a).2).Perm a ∧
    (trainValSplit π₀ nVal a).1.length = a.length - nVal ∧ (trainValSplit π₀ nVal a).2.length = nVal := by
  simp only [trainValSplit, nTrain, List.take_append_drop, List.length_take, List.length_drop,
    applyPerm_length h]
  exact ⟨applyPerm_perm h, by omega, by omega⟩

/-! ### the epoch loop -/

/-- every epoch's orders are permutations of the train / validation parts, and its calls are exactly
the batches of those orders -/
theorem epochLoop_spec (perm : Path → Nat → List Nat) (hperm : ∀ p m, (perm p m).Perm (List.range m))
    (b : Nat) : ∀ (cnt : Nat) (key : Path) (tr va : List α), ∀ ep ∈ epochLoop perm b cnt key tr va,
    ep.trainOrder.Perm tr ∧ ep.valOrder.Perm va ∧
    ep.trainCalls.map (·.rows) = addBatch b ep.trainOrder ∧
    ep.valCalls.map (·.rows) = addBatch b ep.valOrder := by
  intro cnt; induction cnt with
  | zero => intro key tr va ep h; simp [epochLoop] at h
  | succ cnt ih =>
    intro key tr va ep h
    simp only [epochLoop, List.mem_cons] at h
    have ptr := applyPerm_perm (a := tr) (hperm (child key 3 1) tr.length)
    have pva := applyPerm_perm (a := va) (hperm (child key 3 2) va.length)
    rcases h with e | e
    · subst e
      exact ⟨ptr, pva, lossCalls_rows _ _, lossCalls_rows _ _⟩
    · obtain ⟨h1, h2, h3, h4⟩ := ih _ _ _ ep e
      exact ⟨h1.trans ptr, h2.trans pva, h3, h4⟩

theorem epochLoop_length (perm : Path → Nat → List Nat) (b : Nat) : ∀ (cnt : Nat) (key : Path)
    (tr va : List α), (epochLoop perm b cnt key tr va).length = cnt := by
  intro cnt; induction cnt with
  | zero => intro key tr va; rfl
  | succ cnt ih => intro key tr va; simp [epochLoop, ih]

/-- re-running with a `perm'` that agrees with `perm` on the shuffle keys of the run gives the same run -/
theorem epochLoop_congr (perm perm' : Path → Nat → List Nat) (b : Nat) : ∀ (cnt : Nat) (key : Path)
    (tr va : List α),
    (∀ ep ∈ epochLoop perm b cnt key tr va,
      perm ep.trainShuffleKey = perm' ep.trainShuffleKey ∧ perm ep.valShuffleKey = perm' ep.valShuffleKey) →
    epochLoop perm' b cnt key tr va = epochLoop perm b cnt key tr va := by
  intro cnt; induction cnt with
  | zero => intro key tr va _; rfl
  | succ cnt ih =>
    intro key tr va h
    simp only [epochLoop] at h ⊢
    obtain ⟨e1, e2⟩ := h _ List.mem_cons_self
    simp only at e1 e2
    rw [← e1, ← e2]
    rw [ih _ _ _ (fun ep hep => h ep (List.mem_cons_of_mem _ hep))]

/-- the split, stated on the run -/
theorem fitDataCore_split (perm : Path → Nat → List Nat) (hperm : ∀ p m, (perm p m).Perm (List.range m))
    (nVal b E : Nat) (a : List α) (hv : nVal ≤ a.length) :
    ((fitDataCore perm nVal b E a).train ++ (fitDataCore perm nVal b E a).val).Perm a ∧
    (fitDataCore perm nVal b E a).train.length = a.length - nVal ∧
    (fitDataCore perm nVal b E a).val.length = nVal :=
  trainValSplit_spec nVal (hperm _ _) hv

/-- the epochs, stated on the run -/
theorem fitDataCore_epochs (perm : Path → Nat → List Nat) (hperm : ∀ p m, (perm p m).Perm (List.range m))
    (nVal b E : Nat) (a : List α) : ∀ ep ∈ (fitDataCore perm nVal b E a).epochs,
    ep.trainOrder.Perm (fitDataCore perm nVal b E a).train ∧ ep.valOrder.Perm (fitDataCore perm nVal b E a).val ∧
    ep.trainCalls.map (·.rows) = addBatch b ep.trainOrder ∧
    ep.valCalls.map (·.rows) = addBatch b ep.valOrder :=
  epochLoop_spec perm hperm b E _ _ _

theorem fitDataCore_epochs_length (perm : Path → Nat → List Nat) (nVal b E : Nat) (a : List α) :
    (fitDataCore perm nVal b E a).epochs.length = E := epochLoop_length perm b E _ _ _

/-- facts about one epoch of the run on index-tagged rows `0..n-1` -/
theorem index_epoch_facts (perm : Path → Nat → List Nat) (hperm : ∀ p m, (perm p m).Perm (List.range m))
    (n nVal b E : Nat) (hvn : nVal ≤ n) : ∀ ep ∈ (fitDataCore perm nVal b E (List.range n)).epochs,
    ep.trainOrder.Perm (fitDataCore perm nVal b E (List.range n)).train ∧
    ep.valOrder.Perm (fitDataCore perm nVal b E (List.range n)).val ∧
    ep.trainCalls.map (·.rows) = addBatch b ep.trainOrder ∧ ep.valCalls.map (·.rows) = addBatch b ep.valOrder ∧
    ep.trainOrder.length = n - nVal ∧ ep.valOrder.length = nVal := by
  intro ep hep
  obtain ⟨h1, h2, h3, h4⟩ := fitDataCore_epochs perm hperm nVal b E (List.range n) ep hep
  have hs := fitDataCore_split perm hperm nVal b E (List.range n) (by simp only [List.length_range]; exact hvn)
  simp only [List.length_range] at hs
  exact ⟨h1, h2, h3, h4, by rw [h1.length_eq, hs.2.1], by rw [h2.length_eq, hs.2.2]⟩

end DataFlow

/-! ## Part 3 — key schedule -/

/-- keys consumed along a spine whose successive splits have the given arities: the node reached by
always taking child 0 is split `a` ways and children `1..a-1` are consumed -/
def consumedFrom (s : Path) : List Nat → List Path
  | [] => []
  | a :: rest => (List.range (a - 1)).map (fun i => (a, i + 1) :: s) ++ consumedFrom ((a, 0) :: s) rest

def spineEnd (s : Path) : List Nat → Path
  | [] => s
  | a :: rest => spineEnd ((a, 0) :: s) rest

theorem consumedFrom_append (s : Path) (xs ys : List Nat) :
    consumedFrom s (xs ++ ys) = consumedFrom s xs ++ consumedFrom (spineEnd s xs) ys := by
  induction xs generalizing s with
  | nil => rfl
  | cons a rest ih => simp [consumedFrom, spineEnd, ih]

theorem spineEnd_append (s : Path) (xs ys : List Nat) :
    spineEnd s (xs ++ ys) = spineEnd (spineEnd s xs) ys := by
  induction xs generalizing s with
  | nil => rfl
  | cons a rest ih => simp [spineEnd, ih]

theorem lossCalls_keys {α : Type} : ∀ (key : Path) (bs : List (List α)),
    (lossCalls key bs).map (·.key) = consumedFrom key (List.replicate bs.length 2) := by
  intro key bs; induction bs generalizing key with
  | nil => rfl
  | cons bt rest ih =>
    simp only [lossCalls, List.map_cons, List.length_cons, List.replicate_succ, consumedFrom, ih, child]
    rfl

theorem advance_eq (key : Path) (m : Nat) : advance key m = spineEnd key (List.replicate m 2) := by
  induction m generalizing key with
  | zero => rfl
  | succ m ih => simp only [advance, List.replicate_succ, spineEnd, ih, child]

theorem epochLoop_keys {α : Type} (perm : Path → Nat → List Nat) (b : Nat) : ∀ (cnt : Nat) (key : Path)
    (tr va : List α), ∃ ars, (epochLoop perm b cnt key tr va).flatMap Epoch.consumedKeys = consumedFrom key ars := by
  intro cnt; induction cnt with
  | zero => intro key tr va; exact ⟨[], rfl⟩
  | succ cnt ih =>
    intro key tr va
    simp only [epochLoop, List.flatMap_cons, Epoch.consumedKeys]
    obtain ⟨ars, h⟩ := ih
      (advance (advance (child key 3 0) (addBatch b (applyPerm (perm (child key 3 1) tr.length) tr)).length)
        (addBatch b (applyPerm (perm (child key 3 2) va.length) va)).length)
      (applyPerm (perm (child key 3 1) tr.length) tr) (applyPerm (perm (child key 3 2) va.length) va)
    refine ⟨3 :: (List.replicate (addBatch b (applyPerm (perm (child key 3 1) tr.length) tr)).length 2 ++
      (List.replicate (addBatch b (applyPerm (perm (child key 3 2) va.length) va)).length 2 ++ ars)), ?_⟩
    rw [h, lossCalls_keys, lossCalls_keys]
    simp only [consumedFrom, consumedFrom_append, advance_eq, child]
    simp [List.range_succ]

theorem run_keys {α : Type} (perm : Path → Nat → List Nat) (nVal b epochs : Nat) (a : List α) :
    ∃ ars, (fitDataCore perm nVal b epochs a).consumedKeys = consumedFrom [] ars := by
  obtain ⟨ars, h⟩ := epochLoop_keys perm b epochs (child [] 2 0)
    (trainValSplit (perm (child [] 2 1) a.length) nVal a).1 (trainValSplit (perm (child [] 2 1) a.length) nVal a).2
  refine ⟨2 :: ars, ?_⟩
  simp only [Run.consumedKeys, fitDataCore, h, consumedFrom]
  simp [List.range_succ, child]

/-- shape of a consumed key: a non-zero child of a spine node -/
theorem consumedFrom_shape : ∀ (ars : List Nat) (s : Path), ∀ p ∈ consumedFrom s ars,
    ∃ a i z, p = (a, i + 1) :: (z ++ s) ∧ ∀ t ∈ z, t.2 = 0 := by
  intro ars; induction ars with
  | nil => intro s p h; simp [consumedFrom] at h
  | cons a rest ih =>
    intro s p h
    simp only [consumedFrom, List.mem_append, List.mem_map, List.mem_range] at h
    rcases h with ⟨i, _, rfl⟩ | h
    · exact ⟨a, i, [], rfl, fun t ht => by cases ht⟩
    · obtain ⟨a', i, z, rfl, hz⟩ := ih _ p h
      refine ⟨a', i, z ++ [(a, 0)], by simp, fun t ht => ?_⟩
      rcases List.mem_append.mp ht with h' | h'
      · exact hz t h'
      · rw [List.mem_singleton.mp h']

theorem consumedFrom_length_ge (ars : List Nat) (s : Path) : ∀ p ∈ consumedFrom s ars, s.length + 1 ≤ p.length := by
  intro p h
  obtain ⟨a, i, z, rfl, _⟩ := consumedFrom_shape ars s p h
  simp only [List.length_cons, List.length_append]; omega

theorem idx_length (p : Path) : (idx p).length = p.length := by simp [idx]

/-- consumed keys are pairwise distinct even when only the child indices are looked at -/
theorem consumedFrom_nodup : ∀ (ars : List Nat) (s : Path), ((consumedFrom s ars).map idx).Nodup := by
  intro ars; induction ars with
  | nil => intro s; simp [consumedFrom]
  | cons a rest ih =>
    intro s
    simp only [consumedFrom, List.map_append, List.map_map]
    rw [List.nodup_append]
    refine ⟨?_, ih _, ?_⟩
    · rw [List.Nodup, List.pairwise_map]
      refine List.Pairwise.imp ?_ (List.nodup_range (n := a - 1))
      intro i j hij h
      simp [idx] at h
      exact hij h
    · intro x hx y hy hxy
      obtain ⟨i, _, rfl⟩ := List.mem_map.mp hx
      obtain ⟨q, hq, rfl⟩ := List.mem_map.mp hy
      have h1 := consumedFrom_length_ge rest _ q hq
      have h2 := congrArg List.length hxy
      simp only [Function.comp, idx_length, List.length_cons] at h2 h1
      omega

/-- no consumed key is the parent of a consumed key, i.e. no consumed key is ever split -/
theorem consumedFrom_not_parent (ars : List Nat) : ∀ p ∈ consumedFrom [] ars, ∀ q ∈ consumedFrom [] ars,
    idx p ≠ idx q.tail := by
  intro p hp q hq h
  obtain ⟨a, i, z, rfl, _⟩ := consumedFrom_shape ars [] p hp
  obtain ⟨a', i', z', rfl, hz'⟩ := consumedFrom_shape ars [] q hq
  simp only [List.append_nil, List.tail_cons, idx, List.map_cons] at h
  have hmem : i + 1 ∈ List.map Prod.snd z' := by rw [← h]; exact List.mem_cons_self
  obtain ⟨t, ht, e⟩ := List.mem_map.mp hmem
  have := hz' t ht
  omega

/-- under a `split` that is injective in (parent, index) and never returns the root, equal keys have
equal child-index paths -/
theorem interp_idx {K : Type} (split : K → Nat → Nat → K) (root : K)
    (hinj : ∀ k a i k' a' i', split k a i = split k' a' i' → k = k' ∧ i = i')
    (hroot : ∀ k a i, split k a i ≠ root) :
    ∀ (p q : Path), interp split root p = interp split root q → idx p = idx q := by
  intro p; induction p with
  | nil =>
    intro q h; cases q with
    | nil => rfl
    | cons t q => exact absurd h.symm (hroot _ _ _)
  | cons s p ih =>
    intro q h; cases q with
    | nil => exact absurd h (hroot _ _ _)
    | cons t q =>
      obtain ⟨h1, h2⟩ := hinj _ _ _ _ _ _ h
      simp only [idx, List.map_cons, h2]
      exact congrArg _ (ih q h1)

theorem nodup_map_of_nodup_map {α β γ : Type} (f : α → β) (g : α → γ) (l : List α)
    (h : (l.map f).Nodup) (hfg : ∀ x y, g x = g y → f x = f y) : (l.map g).Nodup := by
  rw [List.Nodup, List.pairwise_map] at h ⊢
  exact h.imp (fun hne e => hne (hfg _ _ e))

end Train
