import Flowjaxv.Proofs.ArrTheory
import Flowjaxv.Proofs.ArgCheck
import Flowjaxv.Model.ArrGenBij
/-!
# The GENERATED array combinators equal the hand model

`Gen/ArrCombinators.lean` is translated from `flowjax/bijections/concatenate.py` and `utils.py` on every run; its
method bodies call the primitive specs of `Model/ArrJnp.lean`.  This file proves that every generated method of
`Concatenate / Stack / Partial / Reshape / EmbedCondition` equals the corresponding method of the hand model
(`Model/Arr.lean`: `concatenate / stack / partialB / reshape / embed`) — for every rank, every axis (negative ones
included, through `Arr.normAxis`), every number of children and every child behaviour — so that the theorems of
`Proofs/ArrTheory.lean` transfer to what the code says now.  The generated constructors (`Concatenate.init`,
`Stack.init`, `Reshape.init`) are tied to the C13 constructor models (`ArgCheck.concatenateCtor / stackCtor /
reshapeCtor`): whenever those accept, the constructed object denotes a coherent hand-model spec.

If an edit of the source changes a generated body (wrong axis, a dropped log-det, an off-by-one split point), the
proofs below stop compiling.
-/
set_option linter.unusedSectionVars false
set_option linter.unusedVariables false
open Gen Arr ArrComb ArrJnp

namespace ArrGen

theorem natSum_eq_sum (l : List Nat) : natSum l = l.sum := foldl_add_eq_sum l

/-- differences of consecutive split points `lo, l₀, l₁, …, A` -/
def diffs (lo : Nat) (l : List Nat) (A : Nat) : List Nat :=
  List.zipWith (fun hi lo => hi - lo) (l ++ [A]) (lo :: l)

theorem diffs_cons (lo x : Nat) (l : List Nat) (A : Nat) :
    diffs lo (x :: l) A = (x - lo) :: diffs x l A := rfl

/-- the split points `accumulate(sizes[:-1])` cut an axis of length `sum(sizes)` into pieces of the given sizes -/
theorem diffs_accumulate (a : Nat) (rest : List Nat) (lo : Nat) :
    diffs lo ((accumulate (a :: rest).dropLast).map (lo + ·)) (lo + (a :: rest).sum) = a :: rest := by
  induction rest generalizing a lo with
  | nil => simp [ArrJnp.accumulate, diffs]
  | cons b r ih =>
    have h : (a :: b :: r).dropLast = a :: (b :: r).dropLast := rfl
    rw [h, ArrJnp.accumulate, List.map_cons, diffs_cons, List.map_map]
    have hf : ((lo + ·) ∘ (a + ·)) = fun x : Nat => (lo + a) + x := by funext x; simp [Function.comp]; omega
    rw [hf]
    have hA : lo + (a :: b :: r).sum = (lo + a) + (b :: r).sum := by simp; omega
    rw [hA, ih b (lo + a)]
    simp

theorem accumulate_le (l : List Nat) : ∀ i ∈ accumulate l, i ≤ l.sum := by
  induction l with
  | nil => simp [ArrJnp.accumulate]
  | cons a l ih =>
    intro i hi
    simp only [ArrJnp.accumulate, List.mem_cons, List.mem_map] at hi
    rcases hi with rfl | ⟨j, hj, rfl⟩
    · simp
    · have := ih j hj; simp; omega

theorem sum_dropLast_le (l : List Nat) : l.dropLast.sum ≤ l.sum := by
  induction l with
  | nil => simp
  | cons a l ih =>
    cases l with
    | nil => simp
    | cons b r => simp only [List.dropLast_cons_cons, List.sum_cons] at ih ⊢; omega

theorem splitSizes_accumulate {sizes : List Nat} (hne : sizes ≠ []) :
    splitSizes sizes.sum (accumulate sizes.dropLast) = sizes := by
  obtain ⟨a, rest, rfl⟩ := List.exists_cons_of_ne_nil hne
  have hcl : (accumulate (a :: rest).dropLast).map (fun i => min i (a :: rest).sum) = accumulate (a :: rest).dropLast := by
    conv_rhs => rw [← List.map_id (accumulate (a :: rest).dropLast)]
    apply List.map_congr_left
    intro i hi
    exact Nat.min_eq_left (Nat.le_trans (accumulate_le _ i hi) (sum_dropLast_le (a :: rest)))
  have := diffs_accumulate a rest 0
  simp only [Nat.zero_add] at this
  have hid : (fun x : Nat => x) = id := rfl
  rw [hid, List.map_id] at this
  unfold splitSizes
  simp only [hcl]
  exact this

variable {κ C α : Type}

theorem normAxis_eq_some {n : Nat} {a : Int} {k : Nat} :
    Arr.normAxis n a = some k ↔ (-(n : Int) ≤ a ∧ a < n ∧ (k : Int) = if a < 0 then a + n else a) := by
  unfold Arr.normAxis
  by_cases ha : a < 0
  · simp only [ha, if_true]
    split
    · simp only [Option.some.injEq]; constructor <;> intro h <;> omega
    · simp only [reduceCtorEq, false_iff]; omega
  · simp only [ha, if_false]
    split
    · simp only [Option.some.injEq]; constructor <;> intro h <;> omega
    · simp only [reduceCtorEq, false_iff]; omega

theorem normAxis_lt {n : Nat} {a : Int} {k : Nat} (h : Arr.normAxis n a = some k) : k < n := by
  obtain ⟨h1, h2, h3⟩ := normAxis_eq_some.1 h
  split at h3 <;> omega

theorem spec_eta (s : ConcatSpec) : (⟨s.shape, s.axis, s.sizes⟩ : ConcatSpec) = s := rfl

theorem shapeGet_axis {s : ConcatSpec} (hs : s.Coherent) : shapeGet s.shape s.axis = s.sizes.sum := by
  unfold shapeGet
  rw [List.getD_eq_getElem?_getD, List.getElem?_eq_getElem hs.axis_lt]; exact hs.axis_size

theorem shapeGet_childShape {s : ConcatSpec} (hs : s.Coherent) (n : Nat) :
    shapeGet (s.childShape n) s.axis = n := by
  unfold shapeGet ConcatSpec.childShape setAxis
  rw [List.getD_eq_getElem?_getD, List.getElem?_eq_getElem (by simpa using hs.axis_lt)]; simp

/-- `jnp.array_split(x, split_idxs, axis)` hands the children the model's parts -/
theorem arraySplit_eq_parts {s : ConcatSpec} (hs : s.Coherent) (hne : s.sizes ≠ []) {x : Arr κ}
    (hx : x.shape = s.shape) {axis : Int} (hax : Arr.normAxis s.shape.length axis = some s.axis) :
    arraySplit x (ArrJnp.accumulate s.sizes.dropLast) axis = s.parts x.data := by
  unfold arraySplit
  rw [hx, hax]
  simp only
  rw [shapeGet_axis hs, splitSizes_accumulate hne]

/-- children values carrying the children's shapes -/
abbrev ShapesOK (s : ConcatSpec) (ys : List (Arr κ)) : Prop :=
  List.Forall₂ (fun (y : Arr κ) n => y.shape = s.childShape n) ys s.sizes

theorem ShapesOK.map_axis {s : ConcatSpec} (hs : s.Coherent) {ys : List (Arr κ)} {ns : List Nat}
    (hy : List.Forall₂ (fun (y : Arr κ) n => y.shape = s.childShape n) ys ns) :
    ys.map (fun p => shapeGet p.shape s.axis) = ns := by
  induction hy with
  | nil => rfl
  | cons h _ ih => rw [List.map_cons, ih, h, shapeGet_childShape hs]

/-- concatenation along the normalised axis glues children values as the model does -/
theorem concatAt_eq_glue {s : ConcatSpec} (hs : s.Coherent) (hne : s.sizes ≠ []) {ys : List (Arr κ)}
    (hy : ShapesOK s ys) : concatAt s.axis ys = s.glue ys := by
  have hmap := ShapesOK.map_axis hs hy
  unfold ShapesOK at hy
  generalize hns : s.sizes = ns at hy
  cases hy with
  | nil => exact absurd hns hne
  | @cons y0 n0 ys' ns' h0 hrest =>
    unfold concatAt
    simp only [List.headD_cons]
    rw [hmap, natSum_eq_sum, h0]
    have hsh : (s.childShape n0).set s.axis s.sizes.sum = s.shape := by
      unfold ConcatSpec.childShape setAxis
      rw [List.set_set, ← hs.axis_size, List.set_getElem_self]
    rw [hsh]

theorem ShapesOK.head_rank {s : ConcatSpec} (hne : s.sizes ≠ []) {ys : List (Arr κ)} (hy : ShapesOK s ys) :
    (ys.headD ⟨[], []⟩).shape.length = s.shape.length := by
  unfold ShapesOK at hy
  generalize hns : s.sizes = ns at hy
  cases hy with
  | nil => exact absurd hns hne
  | cons h0 _ => rw [List.headD_cons, h0]; simp [ConcatSpec.childShape, setAxis]

/-- `jnp.concatenate(parts, axis)` glues children values as the model does -/
theorem concatenate_eq_glue {s : ConcatSpec} (hs : s.Coherent) (hne : s.sizes ≠ []) {ys : List (Arr κ)}
    (hy : ShapesOK s ys) {axis : Int} (hax : Arr.normAxis s.shape.length axis = some s.axis) :
    ArrJnp.concatenate ys axis = s.glue ys := by
  unfold ArrJnp.concatenate
  rw [hy.head_rank hne, hax]
  exact concatAt_eq_glue hs hne hy

/-! ## agreement of two records on a set, and transfer of lawfulness -/

/-- all four methods agree on `D` -/
structure EqOn {X C L : Type} (g m : Bij X C L) (D : Set X) : Prop where
  fwd : ∀ x ∈ D, ∀ c, g.fwd x c = m.fwd x c
  inv : ∀ x ∈ D, ∀ c, g.inv x c = m.inv x c
  fwdLd : ∀ x ∈ D, ∀ c, g.fwdLd x c = m.fwdLd x c
  invLd : ∀ x ∈ D, ∀ c, g.invLd x c = m.invLd x c

theorem EqOn.lawful {X C L : Type} {g m : Bij X C L} {D : Set X} (h : EqOn g m D) (hm : m.Lawful D D)
    (h1 : ∀ x c, (g.fwdLd x c).1 = g.fwd x c) (h2 : ∀ y c, (g.invLd y c).1 = g.inv y c) : g.Lawful D D where
  maps x hx c := by rw [h.fwd x hx c]; exact hm.maps x hx c
  mapsInv y hy c := by rw [h.inv y hy c]; exact hm.mapsInv y hy c
  left x hx c := by rw [h.fwd x hx c, h.inv _ (hm.maps x hx c) c]; exact hm.left x hx c
  right y hy c := by rw [h.inv y hy c, h.fwd _ (hm.mapsInv y hy c) c]; exact hm.right y hy c
  fwdLd_fst := h1
  invLd_fst := h2

/-! ## Concatenate -/
variable [Add α] [OfNat α 0] [Inhabited κ]

/-- the children as plain records of methods -/
abbrev kids (bs : List (SBij (Arr κ) C α)) : List (Bij (Arr κ) C α) := bs.map SBij.toBij

/-- what a generated `Concatenate` object denotes: the hand-model spec `s` with the same axis (after NumPy's
normalisation of a negative axis) and split points `accumulate(sizes[:-1])` -/
structure ConcatOf (g : Concatenate κ C α) (s : ConcatSpec) : Prop where
  axis : Arr.normAxis s.shape.length g.axis = some s.axis
  idxs : g.split_idxs = ArrJnp.accumulate s.sizes.dropLast
  ne : s.sizes ≠ []

/-- child `j` returns arrays of its own shape from arrays of its own shape (all four methods) — the part of
`ChildrenLawful` that the equality generated = model needs -/
def ChildrenShaped (s : ConcatSpec) (bs : List (Bij (Arr κ) C α)) : Prop :=
  List.Forall₂ (fun (b : Bij (Arr κ) C α) n => ∀ p ∈ WS (s.childShape n), ∀ c,
    (b.fwd p c).shape = s.childShape n ∧ (b.inv p c).shape = s.childShape n
    ∧ (b.fwdLd p c).1.shape = s.childShape n ∧ (b.invLd p c).1.shape = s.childShape n) bs s.sizes

theorem shaped_of_lawful {s : ConcatSpec} {bs : List (Bij (Arr κ) C α)} (h : ChildrenLawful s bs) :
    ChildrenShaped s bs := by
  refine List.forall₂_iff_get.2 ⟨h.1, ?_⟩
  intro j h1 h2 p hp c
  have hl := h.2 j h1 h2
  simp only [List.get_eq_getElem] at hp ⊢
  refine ⟨(hl.maps p hp c).1, (hl.mapsInv p hp c).1, ?_, ?_⟩
  · rw [hl.fwdLd_fst]; exact (hl.maps p hp c).1
  · rw [hl.invLd_fst]; exact (hl.mapsInv p hp c).1

theorem ChildWS.forall₂ {s : ConcatSpec} {ps : List (Arr κ)} (h : s.ChildWS ps) :
    List.Forall₂ (fun (p : Arr κ) n => p ∈ WS (s.childShape n)) ps s.sizes :=
  List.forall₂_iff_get.2 ⟨h.1, fun j h1 h2 => by simpa using h.2 j h1 h2⟩

theorem zip_shapes {s : ConcatSpec} {f : Bij (Arr κ) C α → Arr κ → Arr κ} {bs : List (Bij (Arr κ) C α)}
    {ps : List (Arr κ)} {ns : List Nat}
    (hb : List.Forall₂ (fun b n => ∀ p ∈ WS (s.childShape n), (f b p).shape = s.childShape n) bs ns)
    (hp : List.Forall₂ (fun (p : Arr κ) n => p ∈ WS (s.childShape n)) ps ns) :
    List.Forall₂ (fun (y : Arr κ) n => y.shape = s.childShape n) (List.zipWith f bs ps) ns := by
  induction hb generalizing ps with
  | nil => cases hp; exact .nil
  | cons h _ ih =>
    cases hp with
    | cons hp0 hps => exact .cons (h _ hp0) (ih hps)

section
variable {self : Concatenate κ C α} {s : ConcatSpec}

theorem concat_core (hs : s.Coherent) (ho : ConcatOf self s) {x : Arr κ} (hx : x ∈ WS s.shape)
    (f : Bij (Arr κ) C α → Arr κ → Arr κ)
    (hb : List.Forall₂ (fun b n => ∀ p ∈ WS (s.childShape n), (f b p).shape = s.childShape n) (kids self.bijections) s.sizes) :
    ArrJnp.concatenate (List.zipWith (fun (b : SBij (Arr κ) C α) p => f b.toBij p) self.bijections
        (arraySplit x self.split_idxs self.axis)) self.axis
      = s.glue (List.zipWith f (kids self.bijections) (s.parts x.data)) := by
  rw [ho.idxs, arraySplit_eq_parts hs ho.ne hx.1 ho.axis, ← List.zipWith_map_left]
  exact concatenate_eq_glue hs ho.ne (zip_shapes hb (ChildWS.forall₂ (s.parts_ws hs hx.2))) ho.axis

/-- **generated `Concatenate` = hand model**, all four methods, on arrays of the declared shape -/
theorem concatenate_eqOn (hs : s.Coherent) (ho : ConcatOf self s)
    (hb : ChildrenShaped s (kids self.bijections)) :
    EqOn self.toBij (concatenate s (kids self.bijections)) (WS s.shape) where
  fwd x hx c := concat_core hs ho hx (fun b p => b.fwd p c) (hb.imp fun _ _ h p hp => (h p hp c).1)
  inv x hx c := concat_core hs ho hx (fun b p => b.inv p c) (hb.imp fun _ _ h p hp => (h p hp c).2.1)
  fwdLd x hx c := by
    have h := concat_core hs ho hx (fun b p => (b.fwdLd p c).1) (hb.imp fun _ _ h p hp => (h p hp c).2.2.1)
    have hsp : arraySplit x self.split_idxs self.axis = s.parts x.data := by
      rw [ho.idxs, arraySplit_eq_parts hs ho.ne hx.1 ho.axis]
    simp only [Concatenate.toBij, Concatenate.transform_and_log_det, zipWithStrict, unzipStar, pySum,
      ArrComb.concatenate, List.map_zipWith, h, List.zipWith_map_left]
    rw [hsp]
  invLd x hx c := by
    have h := concat_core hs ho hx (fun b p => (b.invLd p c).1) (hb.imp fun _ _ h p hp => (h p hp c).2.2.2)
    have hsp : arraySplit x self.split_idxs self.axis = s.parts x.data := by
      rw [ho.idxs, arraySplit_eq_parts hs ho.ne hx.1 ho.axis]
    simp only [Concatenate.toBij, Concatenate.inverse_and_log_det, zipWithStrict, unzipStar, pySum,
      ArrComb.concatenate, List.map_zipWith, h, List.zipWith_map_left]
    rw [hsp]

/-- the point returned with the log-det is the plain method's, for EVERY input (children's property lifted) -/
theorem concatenate_fst (self : Concatenate κ C α)
    (hb : ∀ b ∈ self.bijections, (∀ p c, (b.fwdLd p c).1 = b.fwd p c) ∧ (∀ p c, (b.invLd p c).1 = b.inv p c))
    (x : Arr κ) (c : C) :
    (self.transform_and_log_det x c).1 = self.transform x c
      ∧ (self.inverse_and_log_det x c).1 = self.inverse x c := by
  simp only [Concatenate.transform_and_log_det, Concatenate.inverse_and_log_det, Concatenate.transform,
    Concatenate.inverse, zipWithStrict, unzipStar, List.map_zipWith]
  constructor
  · rw [zipWith_congr_mem _ (fun b h p => (hb b h).1 p c)]
  · rw [zipWith_congr_mem _ (fun b h p => (hb b h).2 p c)]

theorem fst_of_lawful {bs : List (SBij (Arr κ) C α)} (hb : ChildrenLawful s (kids bs)) :
    ∀ b ∈ bs, (∀ p c, (b.fwdLd p c).1 = b.fwd p c) ∧ (∀ p c, (b.invLd p c).1 = b.inv p c) := by
  intro b hbm
  obtain ⟨j, hj, rfl⟩ := List.getElem_of_mem hbm
  have h1 : j < (kids bs).length := by simpa using hj
  have := hb.2 j h1 (by rw [← hb.1]; exact h1)
  simp only [List.getElem_map] at this
  exact ⟨this.fwdLd_fst, this.invLd_fst⟩

/-- **the generated `Concatenate` is a lawful bijection of the declared shape** -/
theorem concatenate_gen_lawful (hs : s.Coherent) (ho : ConcatOf self s)
    (hb : ChildrenLawful s (kids self.bijections)) : self.toBij.Lawful (WS s.shape) (WS s.shape) :=
  (concatenate_eqOn hs ho (shaped_of_lawful hb)).lawful (concatenate_lawful hs hb)
    (fun x c => (concatenate_fst self (fst_of_lawful hb) x c).1) (fun y c => (concatenate_fst self (fst_of_lawful hb) y c).2)

/-- **slicewise, in the code's own terms**: splitting the output with the `jnp.array_split` call the code applies to
the input gives, part by part, the children's outputs on the input's parts (both directions) -/
theorem concatenate_gen_slicewise (hs : s.Coherent) (ho : ConcatOf self s)
    (hb : ChildrenLawful s (kids self.bijections)) {x : Arr κ} (hx : x ∈ WS s.shape) (c : C) :
    arraySplit (self.transform x c) self.split_idxs self.axis
        = List.zipWith (fun (b : SBij (Arr κ) C α) p => b.fwd p c) self.bijections (arraySplit x self.split_idxs self.axis)
    ∧ arraySplit (self.inverse x c) self.split_idxs self.axis
        = List.zipWith (fun (b : SBij (Arr κ) C α) p => b.inv p c) self.bijections (arraySplit x self.split_idxs self.axis) := by
  have hl := concatenate_gen_lawful hs ho hb
  have he := concatenate_eqOn hs ho (shaped_of_lawful hb)
  have hsl := concatenate_slicewise hs hb hx c
  have h1 : self.transform x c = (ArrComb.concatenate s (kids self.bijections)).fwd x c := he.fwd x hx c
  have h2 : self.inverse x c = (ArrComb.concatenate s (kids self.bijections)).inv x c := he.inv x hx c
  have hm1 : (self.transform x c).shape = s.shape := (hl.maps x hx c).1
  have hm2 : (self.inverse x c).shape = s.shape := (hl.mapsInv x hx c).1
  rw [ho.idxs, arraySplit_eq_parts hs ho.ne hm1 ho.axis,
    arraySplit_eq_parts hs ho.ne hm2 ho.axis, arraySplit_eq_parts hs ho.ne hx.1 ho.axis,
    h1, h2, hsl.1, hsl.2, List.zipWith_map_left, List.zipWith_map_left]
  exact ⟨rfl, rfl⟩

/-- the returned log-det is Python's `sum` of the children's on the parts the code hands them — every input -/
theorem concatenate_gen_ld (self : Concatenate κ C α) (x : Arr κ) (c : C) :
    (self.transform_and_log_det x c).2
        = pySum (List.zipWith (fun (b : SBij (Arr κ) C α) p => (b.fwdLd p c).2) self.bijections
            (arraySplit x self.split_idxs self.axis))
    ∧ (self.inverse_and_log_det x c).2
        = pySum (List.zipWith (fun (b : SBij (Arr κ) C α) p => (b.invLd p c).2) self.bijections
            (arraySplit x self.split_idxs self.axis)) := by
  simp only [Concatenate.transform_and_log_det, Concatenate.inverse_and_log_det, zipWithStrict, unzipStar,
    List.map_zipWith, and_self]
end

/-! ## Stack -/

theorem zipWith_congr_right {β γ δ : Type} {f g : β → γ → δ} (bs : List β) {xs : List γ}
    (h : ∀ x ∈ xs, ∀ b, f b x = g b x) : List.zipWith f bs xs = List.zipWith g bs xs := by
  induction bs generalizing xs with
  | nil => simp
  | cons b bs ih =>
    cases xs with
    | nil => simp
    | cons x xs =>
      simp only [List.zipWith_cons_cons]
      rw [h x (List.mem_cons_self ..) b, ih (fun x' hx' => h x' (List.mem_cons_of_mem _ hx'))]

theorem mem_zipWith {β γ δ : Type} {f : β → γ → δ} {bs : List β} {xs : List γ} {y : δ}
    (h : y ∈ List.zipWith f bs xs) : ∃ b ∈ bs, ∃ x ∈ xs, y = f b x := by
  induction bs generalizing xs with
  | nil => simp at h
  | cons b bs ih =>
    cases xs with
    | nil => simp at h
    | cons x xs =>
      simp only [List.zipWith_cons_cons, List.mem_cons] at h
      rcases h with rfl | h
      · exact ⟨b, List.mem_cons_self .., x, List.mem_cons_self .., rfl⟩
      · obtain ⟨b', hb', x', hx', rfl⟩ := ih h
        exact ⟨b', List.mem_cons_of_mem _ hb', x', List.mem_cons_of_mem _ hx', rfl⟩

/-- every part carries a child shape -/
theorem parts_shape (s : ConcatSpec) (x : List κ) : ∀ p ∈ s.parts x, ∃ n ∈ s.sizes, p.shape = s.childShape n := by
  intro p hp
  unfold ConcatSpec.parts at hp
  obtain ⟨nv, hnv, rfl⟩ := List.mem_map.1 hp
  exact ⟨nv.1, (List.of_mem_zip hnv).1, rfl⟩

theorem ChildWS.mem {s : ConcatSpec} {ps : List (Arr κ)} (h : s.ChildWS ps) :
    ∀ p ∈ ps, ∃ n ∈ s.sizes, p ∈ WS (s.childShape n) := by
  intro p hp
  obtain ⟨j, hj, rfl⟩ := List.getElem_of_mem hp
  have h2 : j < s.sizes.length := by rw [← h.1]; exact hj
  exact ⟨_, List.getElem_mem h2, h.2 j hj h2⟩

/-- what a generated `Stack` object denotes -/
structure StackOf (g : Stack κ C α) (s : ConcatSpec) : Prop where
  axis : Arr.normAxis s.shape.length g.axis = some s.axis
  pos : 0 < g.bijections.length

/-- every child returns arrays of the child shape from arrays of the child shape (all four methods) -/
def StackShaped (cs : List Nat) (bs : List (Bij (Arr κ) C α)) : Prop :=
  ∀ b ∈ bs, ∀ q ∈ WS cs, ∀ c, (b.fwd q c).shape = cs ∧ (b.inv q c).shape = cs
    ∧ (b.fwdLd q c).1.shape = cs ∧ (b.invLd q c).1.shape = cs

theorem stackShaped_of_lawful {cs : List Nat} {bs : List (Bij (Arr κ) C α)}
    (h : ∀ b ∈ bs, b.Lawful (WS cs) (WS cs)) : StackShaped cs bs := by
  intro b hb q hq c
  have hl := h b hb
  refine ⟨(hl.maps q hq c).1, (hl.mapsInv q hq c).1, ?_, ?_⟩
  · rw [hl.fwdLd_fst]; exact (hl.maps q hq c).1
  · rw [hl.invLd_fst]; exact (hl.mapsInv q hq c).1

section
variable {self : Stack κ C α} {s : ConcatSpec} {cs : List Nat}

theorem stack_child_shape (h : StackCoherent s cs self.bijections.length) :
    s.childShape 1 = cs.insertIdx s.axis 1 ∧ (s.childShape 1).eraseIdx s.axis = cs
      ∧ (s.childShape 1).length = s.shape.length ∧ cs.length + 1 = s.shape.length := by
  have hlt := h.axis_lt
  refine ⟨?_, ?_, by simp [ConcatSpec.childShape, setAxis], ?_⟩
  · rw [h.child_eq, List.insertIdx_eraseIdx_self (Nat.ne_of_lt hlt)]; rfl
  · rw [h.child_eq]; exact List.eraseIdx_set_eq
  · rw [h.child_eq, List.length_eraseIdx_of_lt hlt]; omega

/-- `jnp.split(x, n, axis)` followed by `squeeze(axis)`: the model's parts re-presented on the child shape -/
theorem split_and_squeeze_eq (h : StackCoherent s cs self.bijections.length) (ho : StackOf self s) {x : Arr κ}
    (hx : x.shape = s.shape) :
    self._split_and_squeeze x = (s.parts x.data).map (fun p => ⟨cs, p.data⟩) := by
  have hsz : List.replicate (Int.toNat (self.bijections.length : Int))
      (shapeGet s.shape s.axis / Int.toNat (self.bijections.length : Int)) = s.sizes := by
    rw [shapeGet_axis h.coherent, h.sizes_eq]
    simp [Nat.div_self ho.pos]
  unfold Stack._split_and_squeeze ArrJnp.split
  simp only [hx, ho.axis, hsz]
  apply List.map_congr_left
  intro p hp
  obtain ⟨n, hn, hps⟩ := parts_shape s x.data p hp
  rw [h.sizes_eq, List.mem_replicate] at hn
  rw [hn.2] at hps
  unfold ArrJnp.squeeze
  rw [hps, (stack_child_shape h).2.2.1, ho.axis]
  simp only
  rw [(stack_child_shape h).2.1]

/-- `jnp.stack(ys, axis)` of arrays of the child shape glues them as the model does (each given its singleton axis) -/
theorem stack_eq_glue (h : StackCoherent s cs self.bijections.length) (ho : StackOf self s) {ys : List (Arr κ)}
    (hl : ys.length = self.bijections.length) (hy : ∀ y ∈ ys, y.shape = cs) :
    ArrJnp.stack ys self.axis = s.glue (ys.map (fun y => ⟨s.childShape 1, y.data⟩)) := by
  have hne : s.sizes ≠ [] := by
    rw [h.sizes_eq]; intro h0
    have h1 := congrArg List.length h0; simp only [List.length_replicate, List.length_nil] at h1; have := ho.pos; omega
  have hys : ys ≠ [] := List.ne_nil_of_length_pos (by rw [hl]; exact ho.pos)
  obtain ⟨y0, ys', rfl⟩ := List.exists_cons_of_ne_nil hys
  unfold ArrJnp.stack
  rw [List.headD_cons, hy y0 (List.mem_cons_self ..), (stack_child_shape h).2.2.2, ho.axis]
  simp only
  have hmap : (y0 :: ys').map (expandDims s.axis) = (y0 :: ys').map (fun y => ⟨s.childShape 1, y.data⟩) := by
    apply List.map_congr_left
    intro y hy'
    unfold expandDims
    rw [hy y hy', (stack_child_shape h).1]
  rw [hmap]
  apply concatAt_eq_glue h.coherent hne
  unfold ShapesOK
  rw [h.sizes_eq, ← hl]
  generalize (y0 :: ys') = l
  induction l with
  | nil => exact .nil
  | cons a l ih => exact .cons rfl ih
theorem stack_core (h : StackCoherent s cs self.bijections.length) (ho : StackOf self s) {x : Arr κ}
    (hx : x ∈ WS s.shape) (f : Bij (Arr κ) C α → Arr κ → Arr κ)
    (hb : ∀ b ∈ kids self.bijections, ∀ q ∈ WS cs, (f b q).shape = cs) :
    ArrJnp.stack (List.zipWith (fun (b : SBij (Arr κ) C α) p => f b.toBij p) self.bijections
        (self._split_and_squeeze x)) self.axis
      = s.glue (List.zipWith (fun b (p : Arr κ) => ⟨p.shape, (f b ⟨cs, p.data⟩).data⟩)
          (kids self.bijections) (s.parts x.data)) := by
  have hpw := s.parts_ws h.coherent hx.2
  have hp1 : ∀ p ∈ s.parts x.data, p ∈ WS (s.childShape 1) := by
    intro p hp
    obtain ⟨n, hn, hpn⟩ := ChildWS.mem hpw p hp
    rw [h.sizes_eq, List.mem_replicate] at hn
    rw [hn.2] at hpn; exact hpn
  rw [split_and_squeeze_eq h ho hx.1, List.zipWith_map_right, stack_eq_glue h ho]
  · congr 1
    rw [List.map_zipWith, List.zipWith_map_left]
    apply zipWith_congr_right
    intro p hp b
    rw [(hp1 p hp).1]
  · rw [List.length_zipWith, hpw.1, h.sizes_eq]; simp
  · intro y hy
    obtain ⟨b, hbm, p, hp, rfl⟩ := mem_zipWith hy
    exact hb b.toBij (List.mem_map_of_mem hbm) _ (mk_mem_WS (by rw [(hp1 p hp).2, h.prod_child]))

/-- **generated `Stack` = hand model**, all four methods, on arrays of the declared (stacked) shape -/
theorem stack_eqOn (h : StackCoherent s cs self.bijections.length) (ho : StackOf self s)
    (hb : StackShaped cs (kids self.bijections)) :
    EqOn self.toBij (ArrComb.stack s cs (kids self.bijections)) (WS s.shape) where
  fwd x hx c := by
    have := stack_core h ho hx (fun b p => b.fwd p c) (fun b hbm q hq => (hb b hbm q hq c).1)
    simp only [Stack.toBij, Stack.transform, zipWithStrict, this, stack_eq, ArrComb.concatenate, expandB,
      List.zipWith_map_left]
  inv x hx c := by
    have := stack_core h ho hx (fun b p => b.inv p c) (fun b hbm q hq => (hb b hbm q hq c).2.1)
    simp only [Stack.toBij, Stack.inverse, zipWithStrict, this, stack_eq, ArrComb.concatenate, expandB,
      List.zipWith_map_left]
  fwdLd x hx c := by
    have := stack_core h ho hx (fun b p => (b.fwdLd p c).1) (fun b hbm q hq => (hb b hbm q hq c).2.2.1)
    simp only [Stack.toBij, Stack.transform_and_log_det, zipWithStrict, unzipStar, pySum, List.map_zipWith, this,
      stack_eq, ArrComb.concatenate, expandB, List.zipWith_map_left]
    rw [split_and_squeeze_eq h ho hx.1, List.zipWith_map_right]
  invLd x hx c := by
    have := stack_core h ho hx (fun b p => (b.invLd p c).1) (fun b hbm q hq => (hb b hbm q hq c).2.2.2)
    simp only [Stack.toBij, Stack.inverse_and_log_det, zipWithStrict, unzipStar, pySum, List.map_zipWith, this,
      stack_eq, ArrComb.concatenate, expandB, List.zipWith_map_left]
    rw [split_and_squeeze_eq h ho hx.1, List.zipWith_map_right]

theorem stack_fst (self : Stack κ C α)
    (hb : ∀ b ∈ self.bijections, (∀ p c, (b.fwdLd p c).1 = b.fwd p c) ∧ (∀ p c, (b.invLd p c).1 = b.inv p c))
    (x : Arr κ) (c : C) :
    (self.transform_and_log_det x c).1 = self.transform x c
      ∧ (self.inverse_and_log_det x c).1 = self.inverse x c := by
  simp only [Stack.transform_and_log_det, Stack.inverse_and_log_det, Stack.transform, Stack.inverse,
    zipWithStrict, unzipStar, List.map_zipWith]
  constructor
  · rw [zipWith_congr_mem _ (fun b h p => (hb b h).1 p c)]
  · rw [zipWith_congr_mem _ (fun b h p => (hb b h).2 p c)]

theorem lawful_fst {cs : List Nat} {bs : List (SBij (Arr κ) C α)} (hb : ∀ b ∈ kids bs, b.Lawful (WS cs) (WS cs)) :
    ∀ b ∈ bs, (∀ p c, (b.fwdLd p c).1 = b.fwd p c) ∧ (∀ p c, (b.invLd p c).1 = b.inv p c) :=
  fun b hbm => ⟨(hb b.toBij (List.mem_map_of_mem hbm)).fwdLd_fst, (hb b.toBij (List.mem_map_of_mem hbm)).invLd_fst⟩

/-- **the generated `Stack` is a lawful bijection of the declared (stacked) shape** -/
theorem stack_gen_lawful (h : StackCoherent s cs self.bijections.length) (ho : StackOf self s)
    (hb : ∀ b ∈ kids self.bijections, b.Lawful (WS cs) (WS cs)) : self.toBij.Lawful (WS s.shape) (WS s.shape) :=
  (stack_eqOn h ho (stackShaped_of_lawful hb)).lawful
    (by have := ArrComb.stack_lawful (bs := kids self.bijections) (by simpa using h) hb; exact this)
    (fun x c => (stack_fst self (lawful_fst hb) x c).1) (fun y c => (stack_fst self (lawful_fst hb) y c).2)

/-- **slicewise, in the code's own terms**: `_split_and_squeeze` of the output is, slice by slice, the children
applied to `_split_and_squeeze` of the input (both directions) -/
theorem stack_gen_slicewise (h : StackCoherent s cs self.bijections.length) (ho : StackOf self s)
    (hb : ∀ b ∈ kids self.bijections, b.Lawful (WS cs) (WS cs)) {x : Arr κ} (hx : x ∈ WS s.shape) (c : C) :
    (self._split_and_squeeze (self.transform x c)).map Arr.data
        = List.zipWith (fun (b : SBij (Arr κ) C α) p => (b.fwd p c).data) self.bijections (self._split_and_squeeze x)
    ∧ (self._split_and_squeeze (self.inverse x c)).map Arr.data
        = List.zipWith (fun (b : SBij (Arr κ) C α) p => (b.inv p c).data) self.bijections (self._split_and_squeeze x) := by
  have hl := stack_gen_lawful h ho hb
  have he := stack_eqOn h ho (stackShaped_of_lawful hb)
  have hsl := ArrComb.stack_slicewise (bs := kids self.bijections) (by simpa using h) hb hx c
  have h1 : self.transform x c = (ArrComb.stack s cs (kids self.bijections)).fwd x c := he.fwd x hx c
  have h2 : self.inverse x c = (ArrComb.stack s cs (kids self.bijections)).inv x c := he.inv x hx c
  have hm1 : (self.transform x c).shape = s.shape := (hl.maps x hx c).1
  have hm2 : (self.inverse x c).shape = s.shape := (hl.mapsInv x hx c).1
  rw [split_and_squeeze_eq h ho hm1, split_and_squeeze_eq h ho hm2,
    split_and_squeeze_eq h ho hx.1, List.map_map, List.map_map, List.zipWith_map_right]
  have hd : (Arr.data ∘ fun (p : Arr κ) => (⟨cs, p.data⟩ : Arr κ)) = Arr.data := rfl
  rw [hd, h1, h2, hsl.1, hsl.2, List.zipWith_map_left, List.zipWith_map_left]
  exact ⟨rfl, by rw [List.zipWith_map_right]⟩

theorem stack_gen_ld (self : Stack κ C α) (x : Arr κ) (c : C) :
    (self.transform_and_log_det x c).2
        = pySum (List.zipWith (fun (b : SBij (Arr κ) C α) p => (b.fwdLd p c).2) self.bijections (self._split_and_squeeze x))
    ∧ (self.inverse_and_log_det x c).2
        = pySum (List.zipWith (fun (b : SBij (Arr κ) C α) p => (b.invLd p c).2) self.bijections (self._split_and_squeeze x)) := by
  simp only [Stack.transform_and_log_det, Stack.inverse_and_log_det, zipWithStrict, unzipStar,
    List.map_zipWith, and_self]
end

/-! ## Partial, Reshape, EmbedCondition -/

/-- **generated `Partial` = hand model** on every array carrying the declared shape (`x[idxs]` = gather,
`x.at[idxs].set` = scatter on the resolved positions) -/
theorem partial_eqOn (self : Partial κ C α) :
    EqOn self.toBij (partialB self.shape self.idxs.sub self.idxs.pos self.bijection.toBij) {x | x.shape = self.shape} where
  fwd x hx c := by
    show (⟨x.shape, _⟩ : Arr κ) = ⟨self.shape, _⟩
    rw [hx]; rfl
  inv x hx c := by
    show (⟨x.shape, _⟩ : Arr κ) = ⟨self.shape, _⟩
    rw [hx]; rfl
  fwdLd x hx c := by
    show ((⟨x.shape, _⟩ : Arr κ), _) = ((⟨self.shape, _⟩ : Arr κ), _)
    rw [hx]; rfl
  invLd x hx c := by
    show ((⟨x.shape, _⟩ : Arr κ), _) = ((⟨self.shape, _⟩ : Arr κ), _)
    rw [hx]; rfl

/-- for EVERY input the data (and the log-det) are the hand model's; only the carried shape is the input's -/
theorem partial_data_eq (self : Partial κ C α) (x : Arr κ) (c : C) :
    (self.transform x c).data = ((partialB self.shape self.idxs.sub self.idxs.pos self.bijection.toBij).fwd x c).data
    ∧ (self.inverse x c).data = ((partialB self.shape self.idxs.sub self.idxs.pos self.bijection.toBij).inv x c).data
    ∧ (self.transform x c).shape = x.shape ∧ (self.inverse x c).shape = x.shape := ⟨rfl, rfl, rfl, rfl⟩

/-- how `Reshape`'s methods re-present the condition before handing it to the wrapped bijection -/
def condRe (self : Reshape κ α) (c : Arr κ) : Arr κ :=
  if self.cond_shape.isSome then reshapeOpt c self.bijection.cond_shape else c

/-- **generated `Reshape` = hand model** (point reshaped to the wrapped shape and back; data untouched) composed
with the re-presentation of the condition — as records, every input -/
theorem reshape_eq (self : Reshape κ α) :
    self.toBij = embed (condRe self) (ArrComb.reshape self.shape self.bijection.shape self.bijection.toBij) := rfl

/-- the condition is only re-presented: same data; unconditional ⇒ untouched -/
theorem condRe_data (self : Reshape κ α) (c : Arr κ) :
    (condRe self c).data = c.data ∧ (self.cond_shape = none → condRe self c = c)
    ∧ (∀ s i, self.cond_shape = some s → self.bijection.cond_shape = some i → condRe self c = ⟨i, c.data⟩) := by
  refine ⟨?_, ?_, ?_⟩
  · unfold condRe reshapeOpt ArrJnp.reshape; split <;> [split; skip] <;> rfl
  · intro h; simp [condRe, h]
  · intro s i h1 h2; simp [condRe, h1, h2, reshapeOpt, ArrJnp.reshape]

/-- **generated `EmbedCondition` = hand model** — as records, every input -/
theorem embed_eq {C' : Type} (self : EmbedCondition κ C C' α) :
    self.toBij = embed self.embedding_net self.bijection.toBij := rfl


/-- index form of `ChildrenShaped` (as the hypotheses of `Props/C08.lean` are written) -/
theorem childrenShaped_of_index {s : ConcatSpec} {bs : List (Bij (Arr κ) C α)} (hl : bs.length = s.sizes.length)
    (h : ∀ j (h1 : j < bs.length) (h2 : j < s.sizes.length), ∀ p ∈ WS (s.childShape s.sizes[j]), ∀ c,
      (bs[j].fwd p c).shape = s.childShape s.sizes[j] ∧ (bs[j].inv p c).shape = s.childShape s.sizes[j]
      ∧ (bs[j].fwdLd p c).1.shape = s.childShape s.sizes[j] ∧ (bs[j].invLd p c).1.shape = s.childShape s.sizes[j]) :
    ChildrenShaped s bs :=
  List.forall₂_iff_get.2 ⟨hl, fun j h1 h2 => by simpa using h j h1 h2⟩

/-- NumPy's rule for a negative axis: `axis` and `axis + rank` name the same axis -/
theorem normAxis_neg {n : Nat} {a : Int} (h1 : -(n : Int) ≤ a) (h2 : a < 0) :
    Arr.normAxis n a = Arr.normAxis n (a + n) ∧ Arr.normAxis n a = some (a + n).toNat := by
  have h : Arr.normAxis n a = some (a + n).toNat := normAxis_eq_some.2 ⟨h1, by omega, by rw [if_pos h2]; omega⟩
  refine ⟨?_, h⟩
  rw [h]; symm
  exact normAxis_eq_some.2 ⟨by omega, by omega, by rw [if_neg (by omega)]; omega⟩

/-! ## The generated constructors against the C13 constructor models -/
section ctor
open PyShape

theorem normAxis_of_argcheck {n : Nat} {axis : Int} {k : Nat} (h : ArgCheck.normAxis n axis = .ok k) :
    Arr.normAxis n axis = some k :=
  normAxis_eq_some.2 ((ArgCheck.normAxis_ok_iff n axis k).1 h)

/-- what acceptance by the C13 model of `Concatenate.__init__` means -/
theorem concatenateCtor_elim {shapes : List Shape} {conds : List (Option Shape)} {axis : Int} {sh : Shape}
    {c : Option Shape} (h : ArgCheck.concatenateCtor shapes conds axis = .ok (sh, c)) :
    ∃ s0 rest ax, shapes = s0 :: rest ∧ ArgCheck.normAxis s0.length axis = .ok ax ∧
      (∀ t ∈ shapes, ArgCheck.removeAxis t ax = ArgCheck.removeAxis s0 ax) ∧ (∀ t ∈ shapes, ax < t.length) ∧
      ArgCheck.mergeCondShapes conds = .ok c ∧
      sh = s0.take ax ++ [(shapes.map (fun s => s[ax]?.getD 0)).sum] ++ s0.drop (ax + 1) := by
  cases shapes with
  | nil => simp [ArgCheck.concatenateCtor, ArgCheck.concatenateArgcheck] at h
  | cons s0 rest =>
    simp only [ArgCheck.concatenateCtor, ArgCheck.concatenateArgcheck] at h
    cases hn : ArgCheck.normAxis s0.length axis with
    | error e => simp [hn] at h
    | ok ax =>
      simp only [hn] at h
      by_cases hrm : (s0 :: rest).all (fun s => decide (ArgCheck.removeAxis s ax = ArgCheck.removeAxis s0 ax)) = true
      · simp only [hrm, if_true] at h
        cases hd : ArgCheck.getDims ax (s0 :: rest) with
        | error e => simp [hd] at h
        | ok ds =>
          simp only [hd] at h
          obtain ⟨hall, hds⟩ := (ArgCheck.getDims_ok_iff ax (s0 :: rest) ds).1 hd
          cases hm : ArgCheck.mergeCondShapes conds with
          | error e => simp [hm] at h
          | ok c' =>
            simp only [hm, Except.ok.injEq, Prod.mk.injEq] at h
            refine ⟨s0, rest, ax, rfl, hn, ?_, hall, by rw [h.2], by rw [← h.1, hds]⟩
            intro t ht
            simpa using (List.all_eq_true.1 hrm) t ht
      · simp [hrm] at h

theorem rangeGet_of_argcheck {n : Nat} {axis : Int} {k : Nat} (h : ArgCheck.normAxis n axis = .ok k) :
    rangeGet ((n : Nat) : Int) axis = k := by
  unfold rangeGet
  rw [Int.toNat_natCast, normAxis_of_argcheck h]; rfl

theorem shapeGet_eq (t : List Nat) (k : Nat) : shapeGet t k = t[k]?.getD 0 := List.getD_eq_getElem?_getD ..

/-- a shape that agrees with `s0` off the axis is `s0` with its own entry on the axis -/
theorem eq_set_of_removeAxis {t s0 : Shape} {ax : Nat} (h0 : ax < s0.length) (ht : ax < t.length)
    (h : ArgCheck.removeAxis t ax = ArgCheck.removeAxis s0 ax) (v : Nat) :
    t = (s0.set ax v).set ax (shapeGet t ax) := by
  obtain ⟨hl, hi⟩ := (ArgCheck.removeAxis_eq_iff t s0 ax h0 ht).1 h
  rw [List.set_set]
  apply List.ext_getElem?
  intro i
  by_cases hia : i = ax
  · subst hia
    rw [List.getElem?_set_self (by omega), shapeGet_eq, List.getElem?_eq_getElem ht]; rfl
  · rw [List.getElem?_set_ne (Ne.symm hia)]; exact hi i hia

/-- **the generated `Concatenate.__init__`** on children with declared shapes, whenever the C13 model of the
constructor accepts: declared shape and cond_shape are the C13 ones (hence `jnp.concatenate`'s, by
`C13.concatenate_shape_spec`), and the object denotes a coherent hand-model spec whose child shapes are the
children's declared shapes. -/
theorem concatenate_init_spec (bs : List (SBij (Arr κ) C α)) (axis : Int) {sh : Shape} {c : Option Shape}
    (h : ArgCheck.concatenateCtor (bs.map (·.shape)) (bs.map (·.cond_shape)) axis = .ok (sh, c)) :
    ∃ ax, (Concatenate.init bs axis).shape = sh ∧ (Concatenate.init bs axis).cond_shape = c
      ∧ (Concatenate.init bs axis).bijections = bs ∧ (Concatenate.init bs axis).axis = axis
      ∧ (⟨sh, ax, bs.map (fun b => shapeGet b.shape ax)⟩ : ConcatSpec).Coherent
      ∧ ConcatOf (Concatenate.init bs axis) ⟨sh, ax, bs.map (fun b => shapeGet b.shape ax)⟩
      ∧ ∀ b ∈ bs, b.shape = (⟨sh, ax, bs.map (fun b => shapeGet b.shape ax)⟩ : ConcatSpec).childShape (shapeGet b.shape ax) := by
  obtain ⟨s0, rest, ax, hsh, hn, hrm, hall, hm, hs⟩ := concatenateCtor_elim h
  have hlt : ax < s0.length := ArgCheck.normAxis_lt _ _ _ hn
  have hfirst : first (bs.map (·.shape)) = s0 := by rw [hsh]; rfl
  have hrg : rangeGet (((first (List.map (fun b => b.shape) bs)).length : Nat) : Int) axis = ax := by
    rw [hfirst]; exact rangeGet_of_argcheck hn
  have hsum : natSum (List.map (fun s => shapeGet s ax) (List.map (fun b => b.shape) bs))
      = ((bs.map (·.shape)).map (fun s => s[ax]?.getD 0)).sum := by
    rw [natSum_eq_sum]; congr 1
  have hshape : (Concatenate.init bs axis).shape = sh := by
    show List.take _ (first _) ++ [natSum _] ++ List.drop (_ + 1) (first _) = sh
    rw [hrg, hfirst, hsum, hs]
  have hset : sh = s0.set ax ((bs.map (·.shape)).map (fun s => s[ax]?.getD 0)).sum := by
    rw [hs, ArgCheck.take_cons_drop_eq_set s0 ax _ hlt]
  have hlen : sh.length = s0.length := by rw [hset]; simp
  have hsizes : (bs.map (fun b => shapeGet b.shape ax)).sum = ((bs.map (·.shape)).map (fun s => s[ax]?.getD 0)).sum := by
    rw [List.map_map]; congr 1
  refine ⟨ax, hshape, ?_, rfl, rfl, ⟨by show ax < sh.length; omega, ?_⟩, ⟨?_, ?_, ?_⟩, ?_⟩
  · show ArrJnp.mergeCondShapes _ = c
    unfold ArrJnp.mergeCondShapes; rw [hm]
  · show sh[ax]'(by omega) = (bs.map (fun b => shapeGet b.shape ax)).sum
    rw [hsizes]; simp only [hset]; simp
  · show Arr.normAxis sh.length axis = some ax
    rw [hlen]; exact normAxis_of_argcheck hn
  · show ArrJnp.accumulate (List.map (fun s => shapeGet s _) (List.dropLast (List.map (fun b => b.shape) bs)))
        = ArrJnp.accumulate (bs.map (fun b => shapeGet b.shape ax)).dropLast
    rw [hrg, List.map_dropLast, List.map_map]; rfl
  · show bs.map (fun b => shapeGet b.shape ax) ≠ []
    intro h0
    have : bs = [] := List.map_eq_nil_iff.1 h0
    rw [this] at hsh; simp at hsh
  · intro b hb
    have hbm : b.shape ∈ bs.map (·.shape) := List.mem_map_of_mem hb
    show b.shape = setAxis sh ax (shapeGet b.shape ax)
    unfold setAxis
    rw [hset]
    exact eq_set_of_removeAxis hlt (hall _ hbm) (hrm _ hbm) _

/-- **end to end for `Concatenate`**: children lawful on arrays of their DECLARED shapes, a constructor call the C13
model accepts ⇒ the object built by the generated `__init__` is, through its generated methods, a lawful bijection
on arrays of its declared shape. -/
theorem concatenate_ctor_lawful (bs : List (SBij (Arr κ) C α)) (axis : Int) {sh : Shape} {c : Option Shape}
    (h : ArgCheck.concatenateCtor (bs.map (·.shape)) (bs.map (·.cond_shape)) axis = .ok (sh, c))
    (hb : ∀ b ∈ bs, b.toBij.Lawful (WS b.shape) (WS b.shape)) :
    (Concatenate.init bs axis).toBij.Lawful (WS sh) (WS sh) := by
  obtain ⟨ax, -, -, hbij, -, hcoh, hof, hch⟩ := concatenate_init_spec bs axis h
  refine concatenate_gen_lawful hcoh hof ?_
  rw [hbij]
  refine ⟨by simp [kids], ?_⟩
  intro j h1 h2
  have hj : j < bs.length := by simpa [kids] using h1
  simp only [kids, List.getElem_map]
  rw [← hch bs[j] (List.getElem_mem hj)]
  exact hb _ (List.getElem_mem hj)

/-! ### Stack -/

theorem stackCtor_elim {shapes : List Shape} {conds : List (Option Shape)} {axis : Int} {sh : Shape}
    {c : Option Shape} (h : ArgCheck.stackCtor shapes conds axis = .ok (sh, c)) :
    ∃ s0 rest ax, shapes = s0 :: rest ∧ ArgCheck.normAxis (s0.length + 1) axis = .ok ax ∧
      (∀ t ∈ shapes, t = s0) ∧ ArgCheck.mergeCondShapes conds = .ok c ∧
      sh = s0.take ax ++ [shapes.length] ++ s0.drop ax := by
  cases shapes with
  | nil => simp [ArgCheck.stackCtor, ArgCheck.checkShapesMatch] at h
  | cons s0 rest =>
    simp only [ArgCheck.stackCtor, ArgCheck.checkShapesMatch] at h
    by_cases hall : (s0 :: rest).all (fun s => decide (s = s0)) = true
    · simp only [hall, if_true] at h
      cases hn : ArgCheck.normAxis (s0.length + 1) axis with
      | error e => simp [hn] at h
      | ok ax =>
        simp only [hn] at h
        cases hm : ArgCheck.mergeCondShapes conds with
        | error e => simp [hm] at h
        | ok c' =>
          simp only [hm, Except.ok.injEq, Prod.mk.injEq] at h
          refine ⟨s0, rest, ax, rfl, hn, ?_, by rw [h.2], h.1.symm⟩
          intro t ht
          simpa using (List.all_eq_true.1 hall) t ht
    · simp [hall] at h

/-- **the generated `Stack.__init__`**, whenever the C13 model accepts -/
theorem stack_init_spec (bs : List (SBij (Arr κ) C α)) (axis : Int) {sh : Shape} {c : Option Shape}
    (h : ArgCheck.stackCtor (bs.map (·.shape)) (bs.map (·.cond_shape)) axis = .ok (sh, c)) :
    ∃ ax cs, (Stack.init bs axis).shape = sh ∧ (Stack.init bs axis).cond_shape = c
      ∧ (Stack.init bs axis).bijections = bs ∧ (Stack.init bs axis).axis = axis
      ∧ StackCoherent ⟨sh, ax, List.replicate bs.length 1⟩ cs bs.length
      ∧ StackOf (Stack.init bs axis) ⟨sh, ax, List.replicate bs.length 1⟩
      ∧ ∀ b ∈ bs, b.shape = cs := by
  obtain ⟨s0, rest, ax, hsh, hn, hall, hm, hs⟩ := stackCtor_elim h
  have hle : ax ≤ s0.length := by have := ArgCheck.normAxis_lt _ _ _ hn; omega
  have hfirst : first (bs.map (·.shape)) = s0 := by rw [hsh]; rfl
  have hcast : (((s0.length : Nat) : Int) + 1) = ((s0.length + 1 : Nat) : Int) := by push_cast; rfl
  have hrg : rangeGet ((((first (List.map (fun b => b.shape) bs)).length : Nat) : Int) + 1) axis = ax := by
    rw [hfirst, hcast]; exact rangeGet_of_argcheck hn
  have hlen : (bs.map (·.shape)).length = bs.length := by simp
  have hins : sh = s0.insertIdx ax bs.length := by
    rw [hs, hlen, ArgCheck.insertIdx_eq_take_drop s0 ax _ hle]
  have hshl : sh.length = s0.length + 1 := by rw [hins, List.length_insertIdx_of_le_length hle]
  have hpos : 0 < bs.length := by
    cases bs with
    | nil => simp at hsh
    | cons _ _ => simp
  refine ⟨ax, s0, ?_, ?_, rfl, rfl, ⟨by show ax < sh.length; omega, ?_, rfl, ?_⟩, ⟨?_, hpos⟩, ?_⟩
  · show List.take _ (first _) ++ [List.length bs] ++ List.drop _ (first _) = sh
    rw [hrg, hfirst, hs, hlen]
  · show ArrJnp.mergeCondShapes _ = c
    unfold ArrJnp.mergeCondShapes; rw [hm]
  · show sh[ax]'(by omega) = bs.length
    simp only [hins]; exact List.getElem_insertIdx_self _
  · show s0 = sh.eraseIdx ax
    rw [hins, List.eraseIdx_insertIdx_self]
  · show Arr.normAxis sh.length axis = some ax
    rw [hshl]; exact normAxis_of_argcheck hn
  · intro b hb
    exact hall _ (List.mem_map_of_mem hb)

/-- **end to end for `Stack`** -/
theorem stack_ctor_lawful (bs : List (SBij (Arr κ) C α)) (axis : Int) {sh : Shape} {c : Option Shape}
    (h : ArgCheck.stackCtor (bs.map (·.shape)) (bs.map (·.cond_shape)) axis = .ok (sh, c))
    (hb : ∀ b ∈ bs, b.toBij.Lawful (WS b.shape) (WS b.shape)) :
    (Stack.init bs axis).toBij.Lawful (WS sh) (WS sh) := by
  obtain ⟨ax, cs, -, -, hbij, -, hcoh, hof, hch⟩ := stack_init_spec bs axis h
  refine stack_gen_lawful (cs := cs) (by rw [hbij]; exact hcoh) hof ?_
  rw [hbij]
  intro b hbm
  obtain ⟨b', hb', rfl⟩ := List.mem_map.1 hbm
  have := hb b' hb'
  rwa [hch b' hb'] at this

/-! ### Reshape -/

theorem argcheck_prod_eq (s : Shape) : ArgCheck.prod s = Arr.prod s := by
  rw [Arr.prod_eq]
  induction s with
  | nil => rfl
  | cons d ds ih => simp [ArgCheck.prod, ih]

/-- **the generated `Reshape.__init__`**, whenever the C13 model of `__init__` + `__check_init__` accepts: declared
shape / cond_shape are the C13 ones, the element counts agree, and a conditional `Reshape` wraps a conditional
bijection (the guard under which `condition.reshape(self.bijection.cond_shape)` does not raise). -/
theorem reshape_init_spec (b : SBij (Arr κ) (Arr κ) α) (shape? cond? : Option Shape) {sh : Shape} {c : Option Shape}
    (h : ArgCheck.reshapeCtor b.shape b.cond_shape shape? cond? = .ok (sh, c)) :
    (Reshape.init b shape? cond?).shape = sh ∧ (Reshape.init b shape? cond?).cond_shape = c
      ∧ (Reshape.init b shape? cond?).bijection = b ∧ Arr.prod sh = Arr.prod b.shape
      ∧ (c.isSome → b.cond_shape.isSome) := by
  unfold ArgCheck.reshapeCtor at h
  simp only at h
  split at h
  · simp at h
  · rename_i hck
    simp only [Except.ok.injEq, Prod.mk.injEq] at h
    obtain ⟨h1, h2⟩ := h
    have hsh : (Reshape.init b shape? cond?).shape = sh := by
      rw [← h1]; cases shape? <;> rfl
    have hc : (Reshape.init b shape? cond?).cond_shape = c := by
      rw [← h2]; cases cond? <;> rfl
    refine ⟨hsh, hc, rfl, ?_, ?_⟩
    · unfold ArgCheck.reshapeCheck at hck
      rw [h1, h2] at hck
      split at hck
      · simp at hck
      · split at hck
        · simp at hck
        · rename_i hp; rw [← argcheck_prod_eq, ← argcheck_prod_eq]; exact not_not.1 hp
    · unfold ArgCheck.reshapeCheck at hck
      rw [h1, h2] at hck
      split at hck
      · simp at hck
      · rename_i hg
        intro hcs
        cases hbc : b.cond_shape with
        | none => exact absurd ⟨hbc, by intro h0; rw [h0] at hcs; simp at hcs⟩ hg
        | some _ => rfl

/-- **end to end for `Reshape`** -/
theorem reshape_ctor_lawful (b : SBij (Arr κ) (Arr κ) α) (shape? cond? : Option Shape) {sh : Shape}
    {c : Option Shape} (h : ArgCheck.reshapeCtor b.shape b.cond_shape shape? cond? = .ok (sh, c))
    (hb : b.toBij.Lawful (WS b.shape) (WS b.shape)) :
    (Reshape.init b shape? cond?).toBij.Lawful (WS sh) (WS sh) := by
  obtain ⟨h1, -, h3, h4, -⟩ := reshape_init_spec b shape? cond? h
  rw [reshape_eq, h1, h3]
  exact embed_lawful _ (reshape_lawful hb h4)

end ctor

end ArrGen
