import Mathlib.MeasureTheory.Measure.Prod
import Mathlib.MeasureTheory.Measure.WithDensity
import Mathlib.MeasureTheory.Constructions.Pi
import Mathlib.MeasureTheory.Measure.Lebesgue.Basic
import Mathlib.MeasureTheory.Function.SpecialFunctions.Basic
/-!
# Mass preservation WITHOUT differentiability in the conditioning variables (pure Mathlib)

`Proofs/Mass.lean` derives total-mass / push-forward identities from a (piecewise) Fréchet derivative of the whole
map.  Coupling and autoregressive layers do not need that: for fixed earlier coordinates each transformed coordinate is
a ONE-dimensional bijection, so Tonelli reduces the `n`-dimensional identity to the one-dimensional one and only JOINT
MEASURABILITY in (earlier coordinates, own coordinate) is needed — which a `relu` network (continuous) satisfies.

* `prod_shear` — Tonelli step on a product `B × A`;
* `map_withDensity_transport` — conjugation by a measure-preserving measurable equivalence;
* `coord_shear`, `coord_shear'` — one-coordinate shear on `ℝⁿ`;
* `WPres μ Finv E` — `map Finv (μ.withDensity E) = μ`; `WPres.comp`;
* `ar_wpres` — the composite of the `n` inverse shears of an autoregressive family (`h i w`, `l i w` look at
  coordinates below `i` only) pushes the measure with density `exp (Σ_i l i x (y i))` forward to Lebesgue measure;
* `P_rightInv` — that composite inverts the parallel forward map.
-/
open MeasureTheory Set ENNReal

namespace MassShear

section prod
variable {A B : Type*} [MeasurableSpace A] [MeasurableSpace B]

/-- Tonelli: a fibrewise weighted push-forward identity gives the same identity for the skew map
`(b, a) ↦ (h a b, a)` on the product. -/
theorem prod_shear (μA : Measure A) (μB : Measure B) [SFinite μA] [SFinite μB]
    (h : A → B → B) (e : A → B → ℝ≥0∞)
    (hh : Measurable fun p : B × A => h p.2 p.1) (he : Measurable fun p : B × A => e p.2 p.1)
    (hfib : ∀ a, Measure.map (h a) (μB.withDensity (e a)) = μB) :
    Measure.map (fun p : B × A => (h p.2 p.1, p.2)) ((μB.prod μA).withDensity fun p => e p.2 p.1)
      = μB.prod μA := by
  have hF : Measurable fun p : B × A => (h p.2 p.1, p.2) := hh.prodMk measurable_snd
  ext S hS
  rw [Measure.map_apply hF hS, withDensity_apply _ (hF hS), ← lintegral_indicator (hF hS),
    lintegral_prod_symm' _ ((he.indicator (hF hS))), Measure.prod_apply_symm hS]
  refine lintegral_congr fun a => ?_
  have hha : Measurable (h a) := hh.comp measurable_prodMk_right
  have hSa : MeasurableSet ((fun b => (b, a)) ⁻¹' S) := measurable_prodMk_right hS
  have key : μB ((fun b => (b, a)) ⁻¹' S)
      = ∫⁻ b, ((h a) ⁻¹' ((fun b => (b, a)) ⁻¹' S)).indicator (e a) b ∂μB := by
    conv_lhs => rw [← hfib a]
    rw [Measure.map_apply hha hSa, withDensity_apply _ (hha hSa), ← lintegral_indicator (hha hSa)]
  rw [key]
  refine lintegral_congr fun b => ?_
  simp only [indicator, mem_preimage]; rfl
end prod


section transport
variable {X Y : Type*} [MeasurableSpace X] [MeasurableSpace Y]

/-- conjugating a weighted push-forward identity by a measure-preserving measurable equivalence -/
theorem map_withDensity_transport {μX : Measure X} {μY : Measure Y} (φ : X ≃ᵐ Y)
    (hφ : MeasurePreserving φ μX μY) (G : Y → Y) (EY : Y → ℝ≥0∞) (hG : Measurable G)
    (hEY : Measurable EY) (H : Measure.map G (μY.withDensity EY) = μY)
    (F : X → X) (hF : ∀ x, φ (F x) = G (φ x)) :
    Measurable F ∧ Measure.map F (μX.withDensity (EY ∘ φ)) = μX := by
  have hFe : F = φ.symm ∘ G ∘ φ := by
    funext x; simp only [Function.comp]; rw [← hF x, φ.symm_apply_apply]
  have hFm : Measurable F := by rw [hFe]; exact φ.symm.measurable.comp (hG.comp φ.measurable)
  refine ⟨hFm, ?_⟩
  ext S hS
  have hS' : MeasurableSet (φ.symm ⁻¹' S) := φ.symm.measurable hS
  have hpre : F ⁻¹' S = φ ⁻¹' (G ⁻¹' (φ.symm ⁻¹' S)) := by
    ext x; simp only [mem_preimage]; rw [← hF x, φ.symm_apply_apply]
  rw [Measure.map_apply hFm hS, withDensity_apply _ (hFm hS), hpre]
  simp only [Function.comp]
  rw [hφ.setLIntegral_comp_preimage (hG hS') hEY]
  rw [← withDensity_apply _ (hG hS'), ← Measure.map_apply hG hS', H]
  rw [← hφ.measure_preimage hS'.nullMeasurableSet]
  congr 1
  ext x; simp
end transport


section coord
variable {m : ℕ}

/-- **one-coordinate shear on `ℝ^(m+1)`**: `w ↦ update w i (h w (w i))` where the fibre map `h w` does not look at
coordinate `i` and satisfies the weighted push-forward identity on `ℝ` for every `w`. -/
theorem coord_shear (i : Fin (m + 1)) (h : (Fin (m + 1) → ℝ) → ℝ → ℝ) (e : (Fin (m + 1) → ℝ) → ℝ → ℝ≥0∞)
    (hloc_h : ∀ w t, h (Function.update w i t) = h w) (hloc_e : ∀ w t, e (Function.update w i t) = e w)
    (hh : Measurable fun p : (Fin (m + 1) → ℝ) × ℝ => h p.1 p.2)
    (he : Measurable fun p : (Fin (m + 1) → ℝ) × ℝ => e p.1 p.2)
    (hfib : ∀ w, Measure.map (h w) ((volume : Measure ℝ).withDensity (e w)) = volume) :
    Measurable (fun w : Fin (m + 1) → ℝ => Function.update w i (h w (w i))) ∧
    Measure.map (fun w : Fin (m + 1) → ℝ => Function.update w i (h w (w i)))
      ((volume : Measure (Fin (m + 1) → ℝ)).withDensity fun w => e w (w i))
        = (volume : Measure (Fin (m + 1) → ℝ)) := by
  set φ := MeasurableEquiv.piFinSuccAbove (fun _ : Fin (m + 1) => ℝ) i with hφdef
  have hφ : MeasurePreserving φ volume volume := volume_preserving_piFinSuccAbove (fun _ => ℝ) i
  have hins : Measurable fun p : ℝ × (Fin m → ℝ) => (i.insertNth (0 : ℝ) p.2 : Fin (m + 1) → ℝ) := by
    have : (fun p : ℝ × (Fin m → ℝ) => (i.insertNth (0 : ℝ) p.2 : Fin (m + 1) → ℝ))
        = fun p => φ.symm (0, p.2) := by
      funext p; simp [hφdef, MeasurableEquiv.piFinSuccAbove_symm_apply, Fin.insertNthEquiv]
    rw [this]
    exact φ.symm.measurable.comp (measurable_const.prodMk measurable_snd)
  have hhA : Measurable fun p : ℝ × (Fin m → ℝ) => h (i.insertNth (0 : ℝ) p.2) p.1 :=
    hh.comp (hins.prodMk measurable_fst)
  have heA : Measurable fun p : ℝ × (Fin m → ℝ) => e (i.insertNth (0 : ℝ) p.2) p.1 :=
    he.comp (hins.prodMk measurable_fst)
  have key := prod_shear (volume : Measure (Fin m → ℝ)) (volume : Measure ℝ)
    (fun a => h (i.insertNth (0 : ℝ) a)) (fun a => e (i.insertNth (0 : ℝ) a)) hhA heA (fun a => hfib _)
  have hw : ∀ w : Fin (m + 1) → ℝ, i.insertNth (0 : ℝ) (i.removeNth w) = Function.update w i 0 :=
    fun w => Fin.insertNth_removeNth i 0 w
  have hφw : ∀ w : Fin (m + 1) → ℝ, φ w = (w i, i.removeNth w) := fun w => rfl
  have := map_withDensity_transport φ hφ
    (fun p : ℝ × (Fin m → ℝ) => (h (i.insertNth (0 : ℝ) p.2) p.1, p.2))
    (fun p => e (i.insertNth (0 : ℝ) p.2) p.1) (hhA.prodMk measurable_snd) heA key
    (fun w : Fin (m + 1) → ℝ => Function.update w i (h w (w i))) (by
      intro w
      rw [hφw, hφw]
      simp only [Function.update_self, Fin.removeNth_update, hw, hloc_h])
  refine ⟨this.1, ?_⟩
  have hE : ((fun p : ℝ × (Fin m → ℝ) => e (i.insertNth (0 : ℝ) p.2) p.1) ∘ φ) = fun w => e w (w i) := by
    funext w
    simp only [Function.comp, hφw, hw, hloc_e]
  rw [← hE]
  exact this.2
end coord


section comp
variable {X : Type*} [MeasurableSpace X]

/-- `Finv` pushes the measure with density `E` forward to `μ` itself (the measure-level form of "total mass is preserved") -/
structure WPres (μ : Measure X) (Finv : X → X) (E : X → ℝ≥0∞) : Prop where
  meas : Measurable Finv
  measE : Measurable E
  map_eq : Measure.map Finv (μ.withDensity E) = μ

theorem WPres.id (μ : Measure X) : WPres μ (fun x => x) (fun _ => 1) :=
  ⟨measurable_id, measurable_const, by simp⟩

/-- first `F2`, then `F1`; the densities multiply along the trajectory -/
theorem WPres.comp {μ : Measure X} {F1 F2 : X → X} {E1 E2 : X → ℝ≥0∞} (h1 : WPres μ F1 E1) (h2 : WPres μ F2 E2) :
    WPres μ (fun y => F1 (F2 y)) (fun y => E2 y * E1 (F2 y)) := by
  refine ⟨h1.meas.comp h2.meas, h2.measE.mul (h1.measE.comp h2.meas), ?_⟩
  have step : Measure.map F2 (μ.withDensity fun y => E2 y * E1 (F2 y)) = μ.withDensity E1 := by
    ext S hS
    rw [Measure.map_apply h2.meas hS, withDensity_apply _ (h2.meas hS), withDensity_apply _ hS]
    have : ∫⁻ y in F2 ⁻¹' S, E2 y * E1 (F2 y) ∂μ = ∫⁻ y in F2 ⁻¹' S, E1 (F2 y) ∂(μ.withDensity E2) := by
      have := setLIntegral_withDensity_eq_setLIntegral_mul μ h2.measE (h1.measE.comp h2.meas) (h2.meas hS)
      simp only [Function.comp, Pi.mul_apply] at this
      exact this.symm
    rw [this, ← setLIntegral_map hS h1.measE h2.meas, h2.map_eq]
  have : (fun y => F1 (F2 y)) = F1 ∘ F2 := rfl
  rw [this, ← Measure.map_map h1.meas h2.meas, step, h1.map_eq]
end comp


section ar
variable {n : ℕ}

/-- general-dimension form of `coord_shear` (a coordinate exists, so `n = m + 1`) -/
theorem coord_shear' (i : Fin n) (h : (Fin n → ℝ) → ℝ → ℝ) (e : (Fin n → ℝ) → ℝ → ℝ≥0∞)
    (hloc_h : ∀ w t, h (Function.update w i t) = h w) (hloc_e : ∀ w t, e (Function.update w i t) = e w)
    (hh : Measurable fun p : (Fin n → ℝ) × ℝ => h p.1 p.2)
    (he : Measurable fun p : (Fin n → ℝ) × ℝ => e p.1 p.2)
    (hfib : ∀ w, Measure.map (h w) ((volume : Measure ℝ).withDensity (e w)) = volume) :
    WPres (volume : Measure (Fin n → ℝ)) (fun w => Function.update w i (h w (w i))) (fun w => e w (w i)) := by
  obtain ⟨m, rfl⟩ : ∃ m, n = m + 1 := ⟨n - 1, by have := i.2; omega⟩
  have := coord_shear i h e hloc_h hloc_e hh he hfib
  refine ⟨this.1, ?_, this.2⟩
  exact he.comp (measurable_id.prodMk (measurable_pi_apply i))

/-- `w` and `w'` have the same coordinates below `k` -/
def AgreeBelow (k : ℕ) (w w' : Fin n → ℝ) : Prop := ∀ j : Fin n, j.val < k → w j = w' j

theorem AgreeBelow.update (i : Fin n) (w : Fin n → ℝ) (t : ℝ) : AgreeBelow i.val (Function.update w i t) w := by
  intro j hj
  rw [Function.update_of_ne]
  intro hji; rw [hji] at hj; exact lt_irrefl _ hj

variable (h l : Fin n → (Fin n → ℝ) → ℝ → ℝ)

/-- the `k`-th inverse shear: coordinate `k` is replaced by `h k w (w k)` -/
noncomputable def shInv (k : ℕ) (w : Fin n → ℝ) : Fin n → ℝ :=
  if hk : k < n then Function.update w ⟨k, hk⟩ (h ⟨k, hk⟩ w (w ⟨k, hk⟩)) else w

/-- the density of the `k`-th shear -/
noncomputable def shE (k : ℕ) (w : Fin n → ℝ) : ℝ≥0∞ :=
  if hk : k < n then ENNReal.ofReal (Real.exp (l ⟨k, hk⟩ w (w ⟨k, hk⟩))) else 1

/-- the first `k` inverse shears, coordinate `0` first -/
noncomputable def P : ℕ → (Fin n → ℝ) → (Fin n → ℝ)
  | 0, y => y
  | k + 1, y => shInv h k (P k y)

/-- the accumulated density -/
noncomputable def Dn : ℕ → (Fin n → ℝ) → ℝ≥0∞
  | 0, _ => 1
  | k + 1, y => Dn k y * shE l k (P h k y)

theorem shInv_other (k : ℕ) (w : Fin n → ℝ) (j : Fin n) (hj : j.val ≠ k) : shInv h k w j = w j := by
  unfold shInv
  split
  · rw [Function.update_of_ne]; intro e; apply hj; rw [e]
  · rfl

theorem P_above (y : Fin n → ℝ) (k : ℕ) (j : Fin n) (hj : k ≤ j.val) : P h k y j = y j := by
  induction k with
  | zero => rfl
  | succ k ih =>
    show shInv h k (P h k y) j = y j
    rw [shInv_other h k _ j (by omega), ih (by omega)]

theorem P_stable (y : Fin n → ℝ) (k k' : ℕ) (hkk : k ≤ k') (j : Fin n) (hj : j.val < k) :
    P h k' y j = P h k y j := by
  induction k' with
  | zero => have : k = 0 := by omega
            subst this; rfl
  | succ k' ih =>
    rcases Nat.eq_or_lt_of_le hkk with e | hlt
    · rw [e]
    · show shInv h k' (P h k' y) j = _
      rw [shInv_other h k' _ j (by omega), ih (by omega)]

theorem P_agree (y : Fin n → ℝ) (k k' : ℕ) (hkk : k ≤ k') : AgreeBelow k (P h k y) (P h k' y) :=
  fun j hj => (P_stable h y k k' hkk j hj).symm

variable (hloc_h : ∀ i w w', AgreeBelow (i : Fin n).val w w' → h i w = h i w')
  (hloc_l : ∀ i w w', AgreeBelow (i : Fin n).val w w' → l i w = l i w')
  (hh : ∀ i, Measurable fun p : (Fin n → ℝ) × ℝ => h i p.1 p.2)
  (hl : ∀ i, Measurable fun p : (Fin n → ℝ) × ℝ => l i p.1 p.2)
  (hfib : ∀ i w, Measure.map (h i w)
    ((volume : Measure ℝ).withDensity fun t => ENNReal.ofReal (Real.exp (l i w t))) = volume)

include hloc_h hloc_l hh hl hfib in
theorem shear_wpres (k : ℕ) : WPres (volume : Measure (Fin n → ℝ)) (shInv h k) (shE l k) := by
  by_cases hk : k < n
  · have e1 : shInv h k = fun w => Function.update w ⟨k, hk⟩ (h ⟨k, hk⟩ w (w ⟨k, hk⟩)) := by
      funext w; simp [shInv, hk]
    have e2 : shE l k = fun w => (fun w t => ENNReal.ofReal (Real.exp (l ⟨k, hk⟩ w t))) w (w ⟨k, hk⟩) := by
      funext w; simp [shE, hk]
    rw [e1, e2]
    refine coord_shear' ⟨k, hk⟩ (h ⟨k, hk⟩) (fun w t => ENNReal.ofReal (Real.exp (l ⟨k, hk⟩ w t))) ?_ ?_ (hh _) ?_
      (hfib _)
    · intro w t; exact hloc_h _ _ _ (AgreeBelow.update ⟨k, hk⟩ w t)
    · intro w t; rw [hloc_l _ _ _ (AgreeBelow.update ⟨k, hk⟩ w t)]
    · exact ENNReal.measurable_ofReal.comp (Real.measurable_exp.comp (hl _))
  · have e1 : shInv h k = fun w => w := by funext w; simp [shInv, hk]
    have e2 : shE l k = fun _ => 1 := by funext w; simp [shE, hk]
    rw [e1, e2]; exact WPres.id _

include hloc_h hloc_l hh hl hfib in
theorem P_wpres (k : ℕ) : WPres (volume : Measure (Fin n → ℝ)) (P h k) (Dn h l k) := by
  induction k with
  | zero => exact WPres.id _
  | succ k ih => exact (shear_wpres h l hloc_h hloc_l hh hl hfib k).comp ih

include hloc_l in
theorem Dn_eq (y : Fin n → ℝ) (k : ℕ) (hk : k ≤ n) :
    Dn h l k y = ENNReal.ofReal (Real.exp (∑ i ∈ Finset.range k,
      if hi : i < n then l ⟨i, hi⟩ (P h n y) (y ⟨i, hi⟩) else 0)) := by
  induction k with
  | zero => simp [Dn]
  | succ k ih =>
    have hkn : k < n := by omega
    show Dn h l k y * shE l k (P h k y) = _
    rw [ih (by omega), Finset.sum_range_succ, Real.exp_add, ENNReal.ofReal_mul (Real.exp_pos _).le]
    congr 1
    simp only [shE, hkn, dite_true]
    rw [P_above h y k ⟨k, hkn⟩ (le_refl _), hloc_l ⟨k, hkn⟩ _ _ (P_agree h y k n (by omega))]

include hloc_h hloc_l hh hl hfib in
/-- **autoregressive maps preserve mass**: the composite of the `n` inverse shears pushes the measure with density
`exp (Σ_i l i x (y i))`, `x` the preimage, forward to Lebesgue measure. -/
theorem ar_wpres : WPres (volume : Measure (Fin n → ℝ)) (P h n)
    (fun y => ENNReal.ofReal (Real.exp (∑ i : Fin n, l i (P h n y) (y i)))) := by
  have := P_wpres h l hloc_h hloc_l hh hl hfib n
  have e : Dn h l n = fun y => ENNReal.ofReal (Real.exp (∑ i : Fin n, l i (P h n y) (y i))) := by
    funext y
    rw [Dn_eq h l hloc_l y n le_rfl]
    congr 2
    rw [← Fin.sum_univ_eq_sum_range (fun i => if hi : i < n then l ⟨i, hi⟩ (P h n y) (y ⟨i, hi⟩) else 0) n]
    refine Finset.sum_congr rfl fun i _ => ?_
    simp [i.2]
  rwa [e] at this

include hloc_h in
/-- the composite of the inverse shears inverts the parallel forward map -/
theorem P_rightInv (g : Fin n → (Fin n → ℝ) → ℝ → ℝ)
    (hgh : ∀ i w t, g i w (h i w t) = t) (y : Fin n → ℝ) :
    (fun i => g i (P h n y) (P h n y i)) = y := by
  funext i
  have h1 : P h n y i = P h (i.val + 1) y i := P_stable h y (i.val + 1) n i.2 i (Nat.lt_succ_self _)
  have h2 : P h (i.val + 1) y i = h i (P h i.val y) (y i) := by
    show shInv h i.val (P h i.val y) i = _
    simp only [shInv, i.2, dite_true, Fin.eta, Function.update_self]
    rw [P_above h y i.val i le_rfl]
  rw [h1, h2, hloc_h i _ _ (P_agree h y i.val n i.2.le), hgh]
end ar

end MassShear
