import Flowjaxv.Model.ArgCheck
import Flowjaxv.Gen.ArgCheckGen
/-!
# Lemmas about the argument-check model (core Lean only)

Helper lemmas for `Props/C13.lean`: the wrapper (`_unwrap_check_and_cast`), the distribution vectoriser,
every constructor check, and the agreement of `Concatenate` / `Stack` with the reference shape semantics of
`jnp.concatenate` / `jnp.stack`.
-/
namespace ArgCheck
open PyShape


theorem checkX_ok_iff (shape x : Shape) : checkX shape x = .ok () ↔ x = shape := by
  unfold checkX; split <;> simp_all

theorem checkX_err (shape x : Shape) (h : x ≠ shape) : checkX shape x = .error .valueError := by
  unfold checkX; simp [h]

theorem checkCondition_ok_iff (cs c : Option Shape) :
    checkCondition cs c = .ok () ↔ (cs = none ∨ c = cs) := by
  cases cs <;> cases c <;> simp [checkCondition]

theorem checkCondition_err (cs c : Option Shape) (h : ¬ (cs = none ∨ c = cs)) :
    checkCondition cs c = .error .valueError := by
  cases cs <;> cases c <;> simp_all [checkCondition]

theorem wrapperCheck_ok_iff (shape : Shape) (cs : Option Shape) (x : Shape) (c : Option Shape) :
    wrapperCheck shape cs x c = .ok () ↔ x = shape ∧ (cs = none ∨ c = cs) := by
  unfold wrapperCheck
  by_cases hx : x = shape
  · rw [(checkX_ok_iff shape x).2 hx]; simp [checkCondition_ok_iff, hx]
  · rw [checkX_err shape x hx]; simp [hx]

theorem wrapperCheck_err (shape : Shape) (cs : Option Shape) (x : Shape) (c : Option Shape)
    (h : ¬ (x = shape ∧ (cs = none ∨ c = cs))) : wrapperCheck shape cs x c = .error .valueError := by
  unfold wrapperCheck
  by_cases hx : x = shape
  · rw [(checkX_ok_iff shape x).2 hx]; exact checkCondition_err cs c (by simp_all)
  · rw [checkX_err shape x hx]

/-- generated `_check_x` = hand model -/
theorem gen_checkX_eq (shape : Shape) (cs : Option Shape) (x : Val) :
    Gen.ArgCheckGen.checkX shape cs x = checkXVal shape x := by
  cases x <;> simp [Gen.ArgCheckGen.checkX, checkXVal, Except.bind, Except.map, arraylikeToArray, shapeOf, optShapeEq]

theorem gen_checkCondition_eq (shape : Shape) (cs : Option Shape) (c : Val) :
    Gen.ArgCheckGen.checkCondition shape cs c = checkConditionVal cs c := by
  cases c <;> cases cs <;>
    simp [Gen.ArgCheckGen.checkCondition, checkConditionVal, Except.bind, Except.map, arraylikeToArray, shapeOf,
      optShapeEq, valIsNone, optIsNone]


/-- the wrapper on arbitrary Python arguments: it returns normally iff `x` is an array of exactly the declared
shape and (the bijection is unconditional — then whatever was supplied is dropped and the body receives `None` — or
the condition is an array of exactly `cond_shape`, forwarded unchanged) -/
theorem wrapperCheckVal_ok_iff (shape : Shape) (cs : Option Shape) (x c : Val) (r : Val × Val) :
    wrapperCheckVal shape cs x c = .ok r ↔
      x = .arr shape ∧ ((cs = none ∧ r = (x, .none)) ∨ (∃ s, cs = some s ∧ c = .arr s ∧ r = (x, c))) := by
  obtain ⟨r1, r2⟩ := r
  cases x with
  | none => simp [wrapperCheckVal, checkXVal]
  | notArrayLike => simp [wrapperCheckVal, checkXVal]
  | arr s =>
    by_cases hs : s = shape
    · subst hs
      cases cs with
      | none => simp [wrapperCheckVal, checkXVal, checkConditionVal]; grind
      | some t =>
        cases c with
        | none => simp [wrapperCheckVal, checkXVal, checkConditionVal]
        | notArrayLike => simp [wrapperCheckVal, checkXVal, checkConditionVal]
        | arr k =>
          by_cases hk : k = t
          · subst hk; simp [wrapperCheckVal, checkXVal, checkConditionVal]; grind
          · simp [wrapperCheckVal, checkXVal, checkConditionVal, hk]
    · simp [wrapperCheckVal, checkXVal, hs]

theorem checkXVal_err (shape : Shape) (x : Val) (e : Err) (h : checkXVal shape x = .error e) :
    e = .valueError ∨ e = .typeError := by
  cases x with
  | none => simp [checkXVal] at h; exact Or.inr h.symm
  | notArrayLike => simp [checkXVal] at h; exact Or.inr h.symm
  | arr s =>
    by_cases hs : s = shape
    · simp [checkXVal, hs] at h
    · simp [checkXVal, hs] at h; exact Or.inl h.symm

theorem checkConditionVal_err (cs : Option Shape) (c : Val) (e : Err) (h : checkConditionVal cs c = .error e) :
    e = .valueError ∨ e = .typeError := by
  cases cs with
  | none => simp [checkConditionVal] at h
  | some t =>
    cases c with
    | none => simp [checkConditionVal] at h; exact Or.inl h.symm
    | notArrayLike => simp [checkConditionVal] at h; exact Or.inr h.symm
    | arr k =>
      by_cases hk : k = t
      · simp [checkConditionVal, hk] at h
      · simp [checkConditionVal, hk] at h; exact Or.inl h.symm

/-- the exception class: a non-array `x` is a TypeError, a wrongly shaped `x` a ValueError whatever the condition
(it is checked first); then a non-array condition of a conditional bijection is a TypeError, a missing or wrongly
shaped one a ValueError.  In particular no AttributeError / IndexError escapes. -/
theorem wrapperCheckVal_err (shape : Shape) (cs : Option Shape) (x c : Val) (e : Err)
    (h : wrapperCheckVal shape cs x c = .error e) : e = .valueError ∨ e = .typeError := by
  unfold wrapperCheckVal at h
  split at h
  · rename_i e' he; simp only [Except.error.injEq] at h; subst h; exact checkXVal_err _ _ _ he
  · split at h
    · rename_i e' he; simp only [Except.error.injEq] at h; subst h; exact checkConditionVal_err _ _ _ he
    · simp at h

/-- shape-level and value-level wrappers agree on arrays -/
theorem wrapperCheckVal_arr (shape : Shape) (cs : Option Shape) (x : Shape) (c : Option Shape) :
    (wrapperCheckVal shape cs (.arr x) (match c with | none => .none | some k => .arr k)).map (fun _ => ()) =
      wrapperCheck shape cs x c := by
  by_cases hx : x = shape
  · cases cs with
    | none => cases c <;> simp [wrapperCheckVal, wrapperCheck, checkXVal, checkX, checkConditionVal, checkCondition, hx, Except.map]
    | some t =>
      cases c with
      | none => simp [wrapperCheckVal, wrapperCheck, checkXVal, checkX, checkConditionVal, checkCondition, hx, Except.map]
      | some k =>
        by_cases hk : k = t <;>
          simp [wrapperCheckVal, wrapperCheck, checkXVal, checkX, checkConditionVal, checkCondition, hx, hk, Except.map]
  · cases c <;> simp [wrapperCheckVal, wrapperCheck, checkXVal, checkX, hx, Except.map]

theorem forwardedCondition_spec (cs c : Option Shape) :
    forwardedCondition cs c = if cs = none then none else c := by
  cases cs <;> simp [forwardedCondition]



theorem splitTrailing_core_iff (core arg b : Shape) :
    splitTrailing core arg = some (b, core) ↔ arg = b ++ core := by
  unfold splitTrailing
  constructor
  · intro h
    split at h
    · simp only [Option.some.injEq, Prod.mk.injEq] at h
      rw [← List.take_append_drop (arg.length - core.length) arg, h.1, h.2]
    · simp at h
  · intro h
    subst h
    simp

theorem splitTrailing_some (core arg b t : Shape) (h : splitTrailing core arg = some (b, t)) :
    arg = b ++ t ∧ t.length = core.length := by
  unfold splitTrailing at h
  split at h
  · simp only [Option.some.injEq, Prod.mk.injEq] at h
    refine ⟨?_, ?_⟩
    · rw [← h.1, ← h.2, List.take_append_drop]
    · rw [← h.2, List.length_drop]; omega
  · simp at h

theorem dist_check_iff (shape : Shape) (cs : Option Shape) (x : Shape) (c : Option Shape) (r : Shape) :
    distCheck shape cs x c = .ok r ↔
      ∃ bx, x = bx ++ shape ∧
        ((cs = none ∧ r = bx) ∨ ∃ s bc, cs = some s ∧ c = some (bc ++ s) ∧ broadcast bx bc = some r) := by
  cases cs with
  | none =>
    simp only [distCheck]
    constructor
    · intro h
      split at h
      · simp at h
      · rename_i bx tx hsp
        split at h
        · rename_i ht
          subst ht
          simp only [Except.ok.injEq] at h
          exact ⟨bx, (splitTrailing_core_iff _ _ _).1 hsp, Or.inl ⟨trivial, h.symm⟩⟩
        · simp at h
    · rintro ⟨bx, hx, h⟩
      rcases h with ⟨-, hr⟩ | ⟨s, bc, hs, -⟩
      · rw [(splitTrailing_core_iff shape x bx).2 hx]; simp [hr]
      · simp at hs
  | some s =>
    cases c with
    | none => simp [distCheck]
    | some k =>
      simp only [distCheck]
      constructor
      · intro h
        split at h
        · rename_i bx tx bc tc hx hk
          split at h
          · rename_i ht
            obtain ⟨h1, h2⟩ := ht
            subst h1; subst h2
            split at h
            · rename_i b hb
              simp only [Except.ok.injEq] at h
              subst h
              exact ⟨bx, (splitTrailing_core_iff _ _ _).1 hx,
                Or.inr ⟨tc, bc, rfl, by rw [(splitTrailing_core_iff _ _ _).1 hk], hb⟩⟩
            · simp at h
          · simp at h
        · simp at h
      · rintro ⟨bx, hx, h⟩
        rcases h with ⟨hs, -⟩ | ⟨s', bc, hs, hc, hb⟩
        · simp at hs
        · simp only [Option.some.injEq] at hs hc
          subst hs
          rw [(splitTrailing_core_iff shape x bx).2 hx, (splitTrailing_core_iff s k bc).2 hc]
          simp [hb]

/-- trailing dimensions that do not match are always rejected -/
theorem dist_rejects_trailing_mismatch (shape : Shape) (cs : Option Shape) (x : Shape) (c : Option Shape)
    (h : ¬ shape <:+ x) : ∀ r, distCheck shape cs x c ≠ .ok r := by
  intro r hr
  obtain ⟨bx, hx, -⟩ := (dist_check_iff shape cs x c r).1 hr
  exact h ⟨bx, hx.symm⟩

theorem dist_sample_iff (shape : Shape) (cs : Option Shape) (ss : Shape) (c : Option Shape) (r : Shape) :
    distSampleCheck shape cs ss c = .ok r ↔
      (cs = none ∧ r = ss ++ shape) ∨ ∃ s bc, cs = some s ∧ c = some (bc ++ s) ∧ r = ss ++ bc ++ shape := by
  cases cs with
  | none => simp [distSampleCheck, eq_comm]
  | some s =>
    cases c with
    | none => simp [distSampleCheck]
    | some k =>
      simp only [distSampleCheck]
      constructor
      · intro h
        split at h
        · simp at h
        · rename_i bc tc hk
          split at h
          · rename_i ht; subst ht
            simp only [Except.ok.injEq] at h
            exact Or.inr ⟨tc, bc, rfl, by rw [(splitTrailing_core_iff _ _ _).1 hk], h.symm⟩
          · simp at h
      · rintro (⟨hs, -⟩ | ⟨s', bc, hs, hc, hr⟩)
        · simp at hs
        · simp only [Option.some.injEq] at hs hc
          subst hs
          rw [(splitTrailing_core_iff s k bc).2 hc]; simp [hr]



theorem checkShapesMatch_ok_iff (l : List Shape) :
    checkShapesMatch l = .ok () ↔ ∀ s ∈ l, ∀ t ∈ l, s = t := by
  cases l with
  | nil => simp [checkShapesMatch]
  | cons s0 rest =>
    simp only [checkShapesMatch]
    split
    · rename_i h
      simp only [List.all_eq_true, decide_eq_true_eq] at h
      simp only [true_iff]
      intro s hs t ht
      rw [h s hs, h t ht]
    · rename_i h
      simp only [List.all_eq_true, decide_eq_true_eq] at h
      simp only [reduceCtorEq, false_iff]
      intro hall
      exact h fun s hs => hall s hs s0 (List.mem_cons_self)

theorem checkShapesMatch_err (l : List Shape) (h : checkShapesMatch l ≠ .ok ()) :
    checkShapesMatch l = .error .valueError := by
  cases l with
  | nil => simp [checkShapesMatch] at h
  | cons s0 rest =>
    simp only [checkShapesMatch] at h ⊢
    split <;> simp_all

/-- `merge_cond_shapes`: full input/output specification -/
theorem mergeCondShapes_ok_iff (l : List (Option Shape)) (r : Option Shape) :
    mergeCondShapes l = .ok r ↔
      l ≠ [] ∧ ((r = none ∧ ∀ s ∈ l, s = none) ∨
        ∃ c, r = some c ∧ some c ∈ l ∧ ∀ s ∈ l, s = none ∨ s = some c) := by
  unfold mergeCondShapes
  by_cases hl : l = []
  · subst hl; simp
  · have hlen : ¬ l.length = 0 := by simpa using hl
    simp only [hlen, if_false, ne_eq, hl, not_false_eq_true, true_and]
    by_cases hall : l.all (fun s => s.isNone) = true
    · simp only [hall, if_true]
      simp only [List.all_eq_true, Option.isNone_iff_eq_none] at hall
      constructor
      · intro h; simp only [Except.ok.injEq] at h; exact Or.inl ⟨h.symm, hall⟩
      · rintro (⟨h, -⟩ | ⟨c, -, hc, -⟩)
        · simp [h]
        · have := hall _ hc; simp at this
    · simp only [hall]
      simp only [List.all_eq_true, Option.isNone_iff_eq_none] at hall
      have hmem : ∀ c, c ∈ l.filterMap id ↔ some c ∈ l := by
        intro c; simp [List.mem_filterMap]
      cases hf : l.filterMap id with
      | nil =>
        exfalso; apply hall; intro s hs
        cases s with
        | none => rfl
        | some c => have := (hmem c).2 hs; rw [hf] at this; simp at this
      | cons c cs =>
        simp only [Bool.false_eq_true, if_false]
        have hc : some c ∈ l := (hmem c).1 (by rw [hf]; exact List.mem_cons_self)
        split
        · rename_i heq
          simp only [List.all_eq_true, decide_eq_true_eq] at heq
          constructor
          · intro h
            simp only [Except.ok.injEq] at h
            refine Or.inr ⟨c, h.symm, hc, ?_⟩
            intro s hs
            cases s with
            | none => exact Or.inl rfl
            | some d =>
              have hd : d ∈ c :: cs := by rw [← hf]; exact (hmem d).2 hs
              exact Or.inr (by rw [heq d hd])
          · rintro (⟨-, hn⟩ | ⟨d, hr, hd, hsame⟩)
            · have := hn _ hc; simp at this
            · have := hsame _ hc
              simp only [reduceCtorEq, Option.some.injEq, false_or] at this
              rw [hr, this]
        · rename_i hne
          simp only [List.all_eq_true, decide_eq_true_eq] at hne
          simp only [reduceCtorEq, false_iff]
          rintro (⟨-, hn⟩ | ⟨d, -, hd, hsame⟩)
          · have := hn _ hc; simp at this
          · apply hne
            intro e he
            have he' : some e ∈ l := (hmem e).1 (by rw [hf]; exact he)
            have h1 := hsame _ he'
            have h2 := hsame _ hc
            simp only [reduceCtorEq, Option.some.injEq, false_or] at h1 h2
            rw [h1, h2]

theorem mergeCondShapes_err (l : List (Option Shape)) (e : Err) (h : mergeCondShapes l = .error e) :
    e = .valueError := by
  unfold mergeCondShapes at h
  split at h
  · simp at h; exact h.symm
  · split at h
    · simp at h
    · split at h
      · simp at h
      · split at h <;> simp at h; exact h.symm

theorem normAxis_ok_iff (n : Nat) (a : Int) (k : Nat) :
    normAxis n a = .ok k ↔ (-(n : Int) ≤ a ∧ a < n ∧ (k : Int) = if a < 0 then a + n else a) := by
  unfold normAxis
  split
  · rename_i h
    simp only [Except.ok.injEq]
    constructor
    · intro hk; subst hk; refine ⟨by omega, h.2, ?_⟩; rw [if_neg (by omega)]; omega
    · rintro ⟨-, -, hk⟩; rw [if_neg (by omega)] at hk; omega
  · rename_i h
    split
    · rename_i h2
      simp only [Except.ok.injEq]
      constructor
      · intro hk; subst hk; refine ⟨h2.2, by omega, ?_⟩; rw [if_pos h2.1]; omega
      · rintro ⟨-, -, hk⟩; rw [if_pos h2.1] at hk; omega
    · rename_i h2
      simp only [reduceCtorEq, false_iff]
      rintro ⟨h3, h4, -⟩
      omega

theorem normAxis_err (n : Nat) (a : Int) (e : Err) (h : normAxis n a = .error e) :
    e = .indexError ∧ ¬ (-(n : Int) ≤ a ∧ a < n) := by
  unfold normAxis at h
  split at h
  · simp at h
  · split at h
    · simp at h
    · simp only [Except.error.injEq] at h; exact ⟨h.symm, by omega⟩

theorem normAxis_lt (n : Nat) (a : Int) (k : Nat) (h : normAxis n a = .ok k) : k < n := by
  obtain ⟨h1, h2, h3⟩ := (normAxis_ok_iff n a k).1 h
  split at h3 <;> omega

theorem transformedCheckInit_err_iff (a b : Option Shape) :
    transformedCheckInit a b = .error .valueError ↔ ∃ s t, a = some s ∧ b = some t ∧ s ≠ t := by
  cases a <;> cases b <;> simp [transformedCheckInit]

theorem transformedCheckInit_ok_or (a b : Option Shape) :
    transformedCheckInit a b = .ok () ∨ transformedCheckInit a b = .error .valueError := by
  cases a <;> cases b <;> simp [transformedCheckInit]
  exact Decidable.em _

theorem triangularSquareCheck_ok_iff (arr : Shape) (d : Nat) :
    triangularSquareCheck arr = .ok d ↔ arr = [d, d] := by
  unfold triangularSquareCheck
  split
  · rename_i a b
    split <;> simp_all
    · omega
  · rename_i h
    simp only [reduceCtorEq, false_iff]
    intro h2; exact h d d h2

theorem triangularCtor_ok_iff (loc arr s : Shape) :
    triangularCtor loc arr = .ok s ↔
      ∃ d, arr = [d, d] ∧ s = [d] ∧ (loc = [] ∨ loc = [1] ∨ loc = [d]) := by
  unfold triangularCtor
  split
  · rename_i e he
    simp only [reduceCtorEq, false_iff]
    rintro ⟨d, harr, -, -⟩
    rw [(triangularSquareCheck_ok_iff arr d).2 harr] at he; simp at he
  · rename_i dim hd
    have harr := (triangularSquareCheck_ok_iff arr dim).1 hd
    split
    · rename_i hl
      simp only [Except.ok.injEq]
      constructor
      · intro h; exact ⟨dim, harr, h.symm, hl⟩
      · rintro ⟨d, h1, h2, -⟩
        rw [harr] at h1; simp only [List.cons.injEq, and_true, and_self] at h1; rw [h2, h1]
    · rename_i hl
      simp only [reduceCtorEq, false_iff]
      rintro ⟨d, h1, -, h3⟩
      rw [harr] at h1; simp only [List.cons.injEq, and_true, and_self] at h1; subst h1
      exact hl h3

theorem triangularCtor_err (loc arr : Shape) (e : Err) (h : triangularCtor loc arr = .error e) :
    e = .valueError := by
  unfold triangularCtor at h
  split at h
  · rename_i e' he
    simp only [Except.error.injEq] at h; subst h
    unfold triangularSquareCheck at he
    repeat' split at he
    all_goals simp_all
  · split at h <;> simp_all

theorem scalarUnconditionalCheck_ok_iff (s : Shape) (c : Option Shape) :
    scalarUnconditionalCheck s c = .ok () ↔ s = [] ∧ c = none := by
  unfold scalarUnconditionalCheck
  split <;> simp_all
  · rename_i h; intro hs; exact h.resolve_left (by simp [hs])

theorem reshapeCtor_ok_iff (bshape : Shape) (bcond shape? cond? : Option Shape) (s : Shape) (c : Option Shape) :
    reshapeCtor bshape bcond shape? cond? = .ok (s, c) ↔
      s = shape?.getD bshape ∧ prod s = prod bshape ∧
        ((cond? = none ∧ c = bcond) ∨
          ∃ a b, cond? = some a ∧ bcond = some b ∧ c = some a ∧ prod a = prod b) := by
  cases cond? <;> cases bcond <;> simp [reshapeCtor, reshapeCheck] <;> grind

/-- `Reshape(...)` never fails with a TypeError (the `prod(None)` branch of `__check_init__` is unreachable
from `__init__`): every rejection is a ValueError -/
theorem reshapeCtor_err (bshape : Shape) (bcond shape? cond? : Option Shape) (e : Err)
    (h : reshapeCtor bshape bcond shape? cond? = .error e) : e = .valueError := by
  cases cond? <;> cases bcond <;> simp [reshapeCtor, reshapeCheck] at h <;> grind

theorem partialCheck_ok_iff (shape : Shape) (idx : Idx) (bshape : Shape) :
    partialCheck shape idx bshape = .ok () ↔ indexShape shape idx = .ok bshape := by
  unfold partialCheck
  split
  · rename_i e he; simp [he]
  · rename_i s hs
    rw [hs]
    split <;> simp_all

theorem partialCheck_valueError_iff (shape : Shape) (idx : Idx) (bshape : Shape) :
    partialCheck shape idx bshape = .error .valueError ↔
      (∃ s, indexShape shape idx = .ok s ∧ s ≠ bshape) ∨ indexShape shape idx = .error .valueError := by
  unfold partialCheck
  split
  · rename_i e he; simp [he]
  · rename_i s hs
    rw [hs]
    split <;> simp_all

/-- integer index: any int is accepted on a non-empty leading axis (JAX does not bounds-check static ints) -/
theorem indexShape_int (shape : Shape) (i : Int) (s : Shape) :
    indexShape shape (.int i) = .ok s ↔ ∃ n, 0 < n ∧ shape = n :: s := by
  cases shape with
  | nil => simp [indexShape]
  | cons n rest =>
    cases n with
    | zero => simp [indexShape]; intro x hx h0; omega
    | succ k =>
      simp only [indexShape, Except.ok.injEq, List.cons.injEq]
      constructor
      · intro h; exact ⟨k + 1, by omega, rfl, h⟩
      · rintro ⟨n, -, -, h⟩; exact h

theorem indexShape_slice (shape : Shape) (a b st : Option Int) (s : Shape) :
    indexShape shape (.slice a b st) = .ok s ↔
      ∃ n rest k, shape = n :: rest ∧ sliceLen n a b st = .ok k ∧ s = k :: rest := by
  cases shape with
  | nil => simp [indexShape]
  | cons n rest =>
    simp only [indexShape]
    split
    · rename_i e he; simp [he]
    · rename_i k hk
      constructor
      · intro h; simp only [Except.ok.injEq] at h; exact ⟨n, rest, k, rfl, hk, h.symm⟩
      · rintro ⟨n', rest', k', h1, h2, h3⟩
        simp only [List.cons.injEq] at h1
        obtain ⟨rfl, rfl⟩ := h1
        rw [hk] at h2; simp only [Except.ok.injEq] at h2; subst h2; rw [h3]




theorem removeAxis_getElem? (s : Shape) (ax j : Nat) (h : ax ≤ s.length) :
    (removeAxis s ax)[j]? = if j < ax then s[j]? else s[j + 1]? := by
  unfold removeAxis
  rw [List.getElem?_append, List.length_take, Nat.min_eq_left h]
  split
  · rename_i hj; rw [List.getElem?_take, if_pos hj]
  · rename_i hj
    rw [List.getElem?_drop]
    congr 1; omega

theorem removeAxis_eq_iff (s s0 : Shape) (ax : Nat) (h0 : ax < s0.length) (h : ax < s.length) :
    removeAxis s ax = removeAxis s0 ax ↔ s.length = s0.length ∧ ∀ i, i ≠ ax → s[i]? = s0[i]? := by
  constructor
  · intro heq
    have hp : ∀ j, (if j < ax then s[j]? else s[j + 1]?) = (if j < ax then s0[j]? else s0[j + 1]?) := by
      intro j
      rw [← removeAxis_getElem? s ax j (by omega), ← removeAxis_getElem? s0 ax j (by omega), heq]
    have hi : ∀ i, i ≠ ax → s[i]? = s0[i]? := by
      intro i hi
      by_cases hlt : i < ax
      · have := hp i; rwa [if_pos hlt, if_pos hlt] at this
      · have := hp (i - 1)
        rw [if_neg (by omega), if_neg (by omega)] at this
        rwa [show i - 1 + 1 = i by omega] at this
    refine ⟨?_, hi⟩
    have h1 := hi s.length (by omega)
    have h2 := hi s0.length (by omega)
    rw [List.getElem?_eq_none (Nat.le_refl _)] at h1
    rw [List.getElem?_eq_none (Nat.le_refl _)] at h2
    have h1' := List.getElem?_eq_none_iff.1 h1.symm
    have h2' := List.getElem?_eq_none_iff.1 h2
    omega
  · rintro ⟨-, hi⟩
    apply List.ext_getElem?
    intro j
    rw [removeAxis_getElem? s ax j (by omega), removeAxis_getElem? s0 ax j (by omega)]
    split
    · exact hi j (by omega)
    · exact hi (j + 1) (by omega)

theorem getDims_ok_iff (ax : Nat) (shapes : List Shape) (ds : List Nat) :
    getDims ax shapes = .ok ds ↔
      (∀ s ∈ shapes, ax < s.length) ∧ ds = shapes.map (fun s => s[ax]?.getD 0) := by
  induction shapes generalizing ds with
  | nil => simp [getDims, eq_comm]
  | cons s rest ih =>
    simp only [getDims, getDim]
    cases hs : s[ax]? with
    | none =>
      simp only [reduceCtorEq, false_iff]
      rintro ⟨h, -⟩
      have := h s List.mem_cons_self
      rw [List.getElem?_eq_none_iff] at hs; omega
    | some d =>
      have hlt : ax < s.length := by
        rcases List.getElem?_eq_some_iff.1 hs with ⟨h, -⟩; exact h
      simp only
      cases hr : getDims ax rest with
      | error e =>
        simp only [reduceCtorEq, false_iff]
        rintro ⟨h, -⟩
        have := (ih (rest.map fun s => s[ax]?.getD 0)).2 ⟨fun s hs => h s (List.mem_cons_of_mem _ hs), rfl⟩
        rw [hr] at this; simp at this
      | ok ds' =>
        obtain ⟨h1, h2⟩ := (ih ds').1 hr
        simp only [Except.ok.injEq, List.mem_cons, forall_eq_or_imp, List.map_cons, hs, Option.getD_some]
        constructor
        · intro h; subst h; exact ⟨⟨hlt, h1⟩, by rw [h2]⟩
        · rintro ⟨-, h⟩; rw [h, h2]

theorem getDims_err (ax : Nat) (shapes : List Shape) (e : Err) (h : getDims ax shapes = .error e) :
    e = .indexError := by
  induction shapes with
  | nil => simp [getDims] at h
  | cons s rest ih =>
    simp only [getDims, getDim] at h
    cases hs : s[ax]? with
    | none => rw [hs] at h; simp at h; exact h.symm
    | some d =>
      rw [hs] at h; simp only at h
      cases hr : getDims ax rest with
      | error e' => rw [hr] at h; simp at h; subst h; exact ih hr
      | ok ds => rw [hr] at h; simp at h

theorem take_cons_drop_eq_set (s : Shape) (ax v : Nat) (h : ax < s.length) :
    s.take ax ++ [v] ++ s.drop (ax + 1) = s.set ax v := by
  rw [List.set_eq_take_append_cons_drop, if_pos h]; simp

theorem normIdx_of_normAxis (n : Nat) (axis : Int) (ax : Nat) (h : normAxis n axis = .ok ax) :
    normIdx n axis = ax := by
  obtain ⟨-, -, hax⟩ := (normAxis_ok_iff _ _ _).1 h
  unfold normIdx; rw [← hax]; simp

theorem concatenateCtor_ok_iff (shapes : List Shape) (conds : List (Option Shape)) (axis : Int)
    (s : Shape) (c : Option Shape) :
    concatenateCtor shapes conds axis = .ok (s, c) ↔
      jnpConcatenateShape shapes axis = some s ∧ mergeCondShapes conds = .ok c := by
  cases shapes with
  | nil => simp [concatenateCtor, concatenateArgcheck, jnpConcatenateShape]
  | cons s0 rest =>
    simp only [concatenateCtor, concatenateArgcheck, jnpConcatenateShape]
    cases hn : normAxis s0.length axis with
    | error e =>
      obtain ⟨-, hr⟩ := normAxis_err _ _ _ hn
      simp [hr]
    | ok ax =>
      obtain ⟨hlo, hhi, -⟩ := (normAxis_ok_iff _ _ _).1 hn
      have hax' : normIdx s0.length axis = ax := normIdx_of_normAxis _ _ _ hn
      have hlt : ax < s0.length := normAxis_lt _ _ _ hn
      simp only [hlo, hhi, and_self, if_true, hax']
      -- the two acceptance tests
      have key : ((s0 :: rest).all (fun s => decide (removeAxis s ax = removeAxis s0 ax)) = true ∧
            ∀ s ∈ s0 :: rest, ax < s.length) ↔
          (s0 :: rest).all (fun s => decide (s.length = s0.length) &&
            (List.range s0.length).all (fun i => decide (i = ax) || decide (s[i]? = s0[i]?))) = true := by
        simp only [List.all_eq_true, decide_eq_true_eq, Bool.and_eq_true, Bool.or_eq_true, List.mem_range]
        constructor
        · rintro ⟨h1, h2⟩ t ht
          obtain ⟨hl, hi⟩ := (removeAxis_eq_iff t s0 ax hlt (h2 t ht)).1 (h1 t ht)
          exact ⟨hl, fun i _ => (Decidable.em (i = ax)).imp id (hi i)⟩
        · intro h
          refine ⟨fun t ht => ?_, fun t ht => by rw [(h t ht).1]; exact hlt⟩
          obtain ⟨hl, hi⟩ := h t ht
          refine (removeAxis_eq_iff t s0 ax hlt (by omega)).2 ⟨hl, fun i hne => ?_⟩
          by_cases hil : i < s0.length
          · exact (hi i hil).resolve_left hne
          · rw [List.getElem?_eq_none (by omega), List.getElem?_eq_none (by omega)]
      by_cases hrm : (s0 :: rest).all (fun s => decide (removeAxis s ax = removeAxis s0 ax)) = true
      · simp only [hrm, if_true]
        cases hd : getDims ax (s0 :: rest) with
        | error e =>
          have hnot : ¬ ∀ s ∈ s0 :: rest, ax < s.length := by
            intro hall
            have := (getDims_ok_iff ax (s0 :: rest) _).2 ⟨hall, rfl⟩
            rw [hd] at this; simp at this
          have hf : ¬ ((s0 :: rest).all (fun s => decide (s.length = s0.length) &&
              (List.range s0.length).all (fun i => decide (i = ax) || decide (s[i]? = s0[i]?))) = true) :=
            fun h => hnot (key.2 h).2
          simp [hf]
        | ok ds =>
          obtain ⟨hall, hds⟩ := (getDims_ok_iff ax (s0 :: rest) ds).1 hd
          have ht := key.1 ⟨hrm, hall⟩
          rw [if_pos ht]
          cases hm : mergeCondShapes conds with
          | error e => simp
          | ok c' =>
            simp only [Except.ok.injEq, Prod.mk.injEq, Option.some.injEq]
            rw [take_cons_drop_eq_set s0 ax ds.sum hlt, hds]
      · have hf : ¬ ((s0 :: rest).all (fun s => decide (s.length = s0.length) &&
            (List.range s0.length).all (fun i => decide (i = ax) || decide (s[i]? = s0[i]?))) = true) :=
          fun h => hrm (key.2 h).1
        simp [hrm, hf]

theorem insertIdx_eq_take_drop (s : Shape) (ax v : Nat) (h : ax ≤ s.length) :
    s.insertIdx ax v = s.take ax ++ [v] ++ s.drop ax := by
  induction s generalizing ax with
  | nil =>
    have : ax = 0 := by simpa using h
    subst this; simp
  | cons d ds ih =>
    cases ax with
    | zero => simp
    | succ k =>
      rw [List.insertIdx_succ_cons, ih k (by simpa using h)]
      simp

theorem stackCtor_ok_iff (shapes : List Shape) (conds : List (Option Shape)) (axis : Int)
    (s : Shape) (c : Option Shape) :
    stackCtor shapes conds axis = .ok (s, c) ↔
      jnpStackShape shapes axis = some s ∧ mergeCondShapes conds = .ok c := by
  cases shapes with
  | nil => simp [stackCtor, checkShapesMatch, jnpStackShape]
  | cons s0 rest =>
    simp only [stackCtor, checkShapesMatch, jnpStackShape]
    by_cases hall : (s0 :: rest).all (fun s => decide (s = s0)) = true
    · simp only [hall, if_true]
      cases hn : normAxis (s0.length + 1) axis with
      | error e =>
        obtain ⟨-, hr⟩ := normAxis_err _ _ _ hn
        have hr' : ¬ (-((s0.length : Int) + 1) ≤ axis ∧ axis < (s0.length : Int) + 1) := by
          intro h; exact hr ⟨by omega, by omega⟩
        simp [hr']
      | ok ax =>
        obtain ⟨hlo, hhi, -⟩ := (normAxis_ok_iff _ _ _).1 hn
        have hax' : normIdx (s0.length + 1) axis = ax := normIdx_of_normAxis _ _ _ hn
        have hle : ax ≤ s0.length := by have := normAxis_lt _ _ _ hn; omega
        have hr' : -((s0.length : Int) + 1) ≤ axis ∧ axis < (s0.length : Int) + 1 := ⟨by omega, by omega⟩
        simp only [hr', and_self, if_true, hax']
        rw [insertIdx_eq_take_drop s0 ax _ hle]
        cases hm : mergeCondShapes conds with
        | error e => simp
        | ok c' => simp
    · simp [hall]

/-- condition shapes that `merge_cond_shapes` accepts: at least one entry, and the non-None ones all equal -/
def CondCompatible (conds : List (Option Shape)) : Prop :=
  conds ≠ [] ∧ ∀ a ∈ conds, ∀ b ∈ conds, a = none ∨ b = none ∨ a = b

/-- what `jnp.concatenate` (and the docstring of `Concatenate`) requires: at least one shape, a valid axis, equal
ranks, and equal sizes on every axis other than the concatenation axis -/
def ConcatCompatible (shapes : List Shape) (axis : Int) : Prop :=
  ∃ s0 rest, shapes = s0 :: rest ∧ -(s0.length : Int) ≤ axis ∧ axis < s0.length ∧
    ∀ s ∈ shapes, s.length = s0.length ∧
      ∀ i, i < s0.length → i ≠ normIdx s0.length axis → s[i]? = s0[i]?

/-- what `jnp.stack` (and `Stack`) requires -/
def StackCompatible (shapes : List Shape) (axis : Int) : Prop :=
  ∃ s0 rest, shapes = s0 :: rest ∧ -((s0.length : Int) + 1) ≤ axis ∧ axis < (s0.length : Int) + 1 ∧
    ∀ s ∈ shapes, s = s0


theorem mergeCondShapes_accepts_iff (l : List (Option Shape)) :
    (∃ r, mergeCondShapes l = .ok r) ↔ CondCompatible l := by
  constructor
  · rintro ⟨r, hr⟩
    obtain ⟨hne, h⟩ := (mergeCondShapes_ok_iff l r).1 hr
    refine ⟨hne, fun a ha b hb => ?_⟩
    rcases h with ⟨-, hn⟩ | ⟨c, -, -, hs⟩
    · exact Or.inl (hn a ha)
    · rcases hs a ha with h1 | h1
      · exact Or.inl h1
      · rcases hs b hb with h2 | h2
        · exact Or.inr (Or.inl h2)
        · exact Or.inr (Or.inr (by rw [h1, h2]))
  · rintro ⟨hne, h⟩
    by_cases hall : ∀ s ∈ l, s = none
    · exact ⟨none, (mergeCondShapes_ok_iff l none).2 ⟨hne, Or.inl ⟨rfl, hall⟩⟩⟩
    · have : ∃ s ∈ l, s ≠ none := by
        apply Classical.byContradiction
        intro hc
        apply hall
        intro s hs
        apply Classical.byContradiction
        intro hsn
        exact hc ⟨s, hs, hsn⟩
      obtain ⟨s, hs, hsn⟩ := this
      cases s with
      | none => exact absurd rfl hsn
      | some c =>
        refine ⟨some c, (mergeCondShapes_ok_iff l (some c)).2 ⟨hne, Or.inr ⟨c, rfl, hs, fun t ht => ?_⟩⟩⟩
        rcases h t ht (some c) hs with h1 | h1 | h1
        · exact Or.inl h1
        · simp at h1
        · exact Or.inr h1

theorem jnpConcatenateShape_isSome_iff (shapes : List Shape) (axis : Int) :
    (∃ s, jnpConcatenateShape shapes axis = some s) ↔ ConcatCompatible shapes axis := by
  cases shapes with
  | nil => simp [jnpConcatenateShape, ConcatCompatible]
  | cons s0 rest =>
    simp only [jnpConcatenateShape, ConcatCompatible, List.cons.injEq]
    constructor
    · rintro ⟨s, hs⟩
      split at hs
      · rename_i hr
        split at hs
        · rename_i hall
          simp only [List.all_eq_true, Bool.and_eq_true, decide_eq_true_eq, Bool.or_eq_true, List.mem_range] at hall
          exact ⟨s0, rest, ⟨rfl, rfl⟩, hr.1, hr.2,
            fun t ht => ⟨(hall t ht).1, fun i hi hne => ((hall t ht).2 i hi).resolve_left hne⟩⟩
        · simp at hs
      · simp at hs
    · rintro ⟨s0', rest', ⟨rfl, rfl⟩, hlo, hhi, hall⟩
      rw [if_pos ⟨hlo, hhi⟩, if_pos]
      · exact ⟨_, rfl⟩
      · simp only [List.all_eq_true, Bool.and_eq_true, decide_eq_true_eq, Bool.or_eq_true, List.mem_range]
        intro t ht
        exact ⟨(hall t ht).1, fun i hi => (Decidable.em (i = normIdx s0.length axis)).imp id ((hall t ht).2 i hi)⟩

theorem jnpStackShape_isSome_iff (shapes : List Shape) (axis : Int) :
    (∃ s, jnpStackShape shapes axis = some s) ↔ StackCompatible shapes axis := by
  cases shapes with
  | nil => simp [jnpStackShape, StackCompatible]
  | cons s0 rest =>
    simp only [jnpStackShape, StackCompatible, List.cons.injEq]
    constructor
    · rintro ⟨s, hs⟩
      split at hs
      · rename_i hr
        split at hs
        · rename_i hall
          simp only [List.all_eq_true, decide_eq_true_eq] at hall
          exact ⟨s0, rest, ⟨rfl, rfl⟩, hr.1, hr.2, hall⟩
        · simp at hs
      · simp at hs
    · rintro ⟨s0', rest', ⟨rfl, rfl⟩, hlo, hhi, hall⟩
      rw [if_pos ⟨hlo, hhi⟩, if_pos]
      · exact ⟨_, rfl⟩
      · simpa using hall

theorem chainCtor_ok_iff (shapes : List Shape) (conds : List (Option Shape)) (s : Shape) (c : Option Shape) :
    chainCtor shapes conds = .ok (s, c) ↔
      (∃ rest, shapes = s :: rest ∧ ∀ t ∈ shapes, t = s) ∧ mergeCondShapes conds = .ok c := by
  cases shapes with
  | nil => simp [chainCtor, checkShapesMatch]
  | cons s0 rest =>
    simp only [chainCtor]
    cases hm : checkShapesMatch (s0 :: rest) with
    | error e =>
      have : ¬ ∀ t ∈ s0 :: rest, t = s0 := by
        intro h
        have := (checkShapesMatch_ok_iff (s0 :: rest)).2 (fun a ha b hb => by rw [h a ha, h b hb])
        rw [hm] at this; simp at this
      simp only [reduceCtorEq, List.cons.injEq, false_iff]
      rintro ⟨⟨rest', ⟨rfl, rfl⟩, h⟩, -⟩
      exact this h
    | ok u =>
      have hall := (checkShapesMatch_ok_iff (s0 :: rest)).1 hm
      cases hc : mergeCondShapes conds with
      | error e => simp
      | ok c' =>
        simp only [Except.ok.injEq, Prod.mk.injEq, List.cons.injEq]
        constructor
        · rintro ⟨rfl, rfl⟩
          exact ⟨⟨rest, ⟨rfl, rfl⟩, fun t ht => hall t ht s0 List.mem_cons_self⟩, rfl⟩
        · rintro ⟨⟨rest', ⟨rfl, rfl⟩, -⟩, rfl⟩
          exact ⟨rfl, rfl⟩

theorem adjustBound_range (n : Nat) (neg : Bool) (b : Int) :
    -1 ≤ adjustBound n neg b ∧ adjustBound n neg b ≤ n ∧
      (neg = false → 0 ≤ adjustBound n neg b) ∧ (neg = true → adjustBound n neg b ≤ (n : Int) - 1) := by
  unfold adjustBound
  cases neg <;> simp <;> (repeat' split) <;> omega

theorem sliceStart_range (n : Nat) (neg : Bool) (a : Option Int) :
    (neg = false → 0 ≤ sliceStart n neg a) ∧ (neg = true → sliceStart n neg a ≤ (n : Int) - 1) := by
  cases a with
  | none => cases neg <;> simp [sliceStart]
  | some v => exact ⟨(adjustBound_range n neg v).2.2.1, (adjustBound_range n neg v).2.2.2⟩

theorem sliceStop_range (n : Nat) (neg : Bool) (b : Option Int) :
    -1 ≤ sliceStop n neg b ∧ sliceStop n neg b ≤ n := by
  cases b with
  | none => cases neg <;> simp [sliceStop] <;> omega
  | some v => exact ⟨(adjustBound_range n neg v).1, (adjustBound_range n neg v).2.1⟩

theorem rangeLen_le (lo hi st : Int) (n : Nat) (hst : st ≠ 0)
    (hpos : 0 < st → 0 ≤ lo ∧ hi ≤ n) (hneg : st < 0 → lo ≤ (n : Int) - 1 ∧ -1 ≤ hi) :
    rangeLen lo hi st ≤ n := by
  unfold rangeLen
  split
  · rename_i h
    obtain ⟨h1, h2⟩ := hneg h
    split
    · have hdiv : (lo - hi - 1) / (-st) ≤ lo - hi - 1 := Int.ediv_le_self _ (by omega)
      omega
    · omega
  · rename_i h
    obtain ⟨h1, h2⟩ := hpos (by omega)
    split
    · have hdiv : (hi - lo - 1) / st ≤ hi - lo - 1 := Int.ediv_le_self _ (by omega)
      omega
    · omega

/-- a slice never selects more elements than the axis has -/
theorem sliceLen_le (n : Nat) (a b st : Option Int) (k : Nat) (h : sliceLen n a b st = .ok k) : k ≤ n := by
  unfold sliceLen at h
  split at h
  · simp at h
  · rename_i hst
    simp only [Except.ok.injEq] at h
    subst h
    apply rangeLen_le _ _ _ _ hst
    · intro hp
      have hn : decide (st.getD 1 < 0) = false := by simp; omega
      rw [hn]
      exact ⟨(sliceStart_range n false a).1 rfl, (sliceStop_range n false b).2⟩
    · intro hp
      have hn : decide (st.getD 1 < 0) = true := by simp; omega
      rw [hn]
      exact ⟨(sliceStart_range n true a).2 rfl, (sliceStop_range n true b).1⟩

/-- the default slice `::` (and any `start:stop` with step 1 inside the axis) selects `stop - start` elements -/
theorem sliceLen_unit_step (n : Nat) (lo hi : Nat) (h1 : lo ≤ hi) (h2 : hi ≤ n) :
    sliceLen n (some lo) (some hi) none = .ok (hi - lo) := by
  have ha : adjustBound n false (lo : Int) = lo := by unfold adjustBound; simp; omega
  have hb : adjustBound n false (hi : Int) = hi := by unfold adjustBound; simp; omega
  simp only [sliceLen, Option.getD_none, sliceStart, sliceStop, rangeLen]
  simp [ha, hb]
  omega

/-- The documented compatibility of `Partial(bijection, idxs, shape)` for the modelled index kinds: `idxs` indexes
axis 0 of a `shape` of rank ≥ 1 — an integer inside `[-n, n)`, or a slice with a non-zero step — and the bijection's
shape is the shape of the selected part. -/
def PartialFits (shape : Shape) (idx : Idx) (bshape : Shape) : Prop :=
  match idx with
  | .int i => ∃ n rest, shape = n :: rest ∧ -(n : Int) ≤ i ∧ i < n ∧ bshape = rest
  | .slice a b st => ∃ n rest k, shape = n :: rest ∧ sliceLen n a b st = .ok k ∧ bshape = k :: rest

/-- the index is an integer that is out of range for axis 0 -/
def IntOutOfRange (shape : Shape) (idx : Idx) : Prop :=
  ∃ i n rest, idx = .int i ∧ shape = n :: rest ∧ ¬ (-(n : Int) ≤ i ∧ i < n)

theorem partialCheck_ok_iff_fits (shape : Shape) (idx : Idx) (bshape : Shape) (h : ¬ IntOutOfRange shape idx) :
    partialCheck shape idx bshape = .ok () ↔ PartialFits shape idx bshape := by
  rw [partialCheck_ok_iff]
  cases idx with
  | int i =>
    rw [indexShape_int]
    simp only [PartialFits]
    constructor
    · rintro ⟨n, -, hn⟩
      have : -(n : Int) ≤ i ∧ i < n := Classical.not_not.1 fun hc => h ⟨i, n, bshape, rfl, hn, hc⟩
      exact ⟨n, bshape, hn, this.1, this.2, rfl⟩
    · rintro ⟨n, rest, hs, h1, h2, hb⟩
      exact ⟨n, by omega, by rw [hs, hb]⟩
  | slice a b st =>
    rw [indexShape_slice]
    simp only [PartialFits]

theorem partialCheck_oob_int (n : Nat) (rest : Shape) (i : Int) (hn : 0 < n) :
    partialCheck (n :: rest) (.int i) rest = .ok () := by
  cases n with
  | zero => omega
  | succ k => simp [partialCheck, indexShape]

theorem partialCheck_err (shape : Shape) (idx : Idx) (bshape : Shape) (e : Err)
    (h : partialCheck shape idx bshape = .error e) : e = .valueError ∨ e = .indexError := by
  unfold partialCheck at h
  split at h
  · rename_i e' he
    simp only [Except.error.injEq] at h; subst h
    cases idx with
    | int i =>
      cases shape with
      | nil => simp [indexShape] at he; exact Or.inr he.symm
      | cons n rest =>
        cases n with
        | zero => simp [indexShape] at he; exact Or.inr he.symm
        | succ k => simp [indexShape] at he
    | slice a b st =>
      cases shape with
      | nil => simp [indexShape] at he; exact Or.inr he.symm
      | cons n rest =>
        simp only [indexShape] at he
        split at he
        · rename_i e'' hs
          simp only [Except.error.injEq] at he; subst he
          unfold sliceLen at hs
          split at hs
          · simp at hs; exact Or.inl hs.symm
          · simp at hs
        · simp at he
  · split at h
    · simp at h
    · simp at h; exact Or.inl h.symm

end ArgCheck
