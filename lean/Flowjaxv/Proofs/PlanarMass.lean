import Flowjaxv.Proofs.NetMass
import Flowjaxv.Proofs.Planar
/-!
# C04 in `d` dimensions for Planar layers (the GENERATED `_UnconditionalPlanar` methods, `Gen/Planar.lean`)

* **tanh** — `x ↦ x + û·tanh(w·x + b)` is a bijection of `ℝⁿ` whenever `w·û > −1` (the generated constraint
  `get_act_scale`, `PlanarPf.constraint`): reduction to one real variable along `û` — the scalar map
  `s ↦ s + (w·û)·tanh(s + b)` is strictly increasing (derivative `1 + (w·û)(1 − tanh²) > 0`) and onto (continuous,
  `s − |w·û| ≤ g s ≤ s + |w·û|`), and the map is a translation by a multiple of `û` on every level set of `w·x`.
  The library implements no inverse for this activation; `tanhBij` completes the record with the mathematical inverse
  (`Function.invFun`, never evaluated by `log_prob` in the orientation `planar_flow` builds: `Invert(…)`), so that the generated
  `Transformed` / `Invert` can be instantiated.  Jacobian facts: C02 `planar_tanh_ld`.
* **leaky relu** — piecewise affine with the kink on the hyperplane `w·x + b = 0` (a null set): two pieces, the closed
  half space `{w·x + b ≥ 0}` (slope 1, the kink included — the value the code's log-det uses there) and its open complement
  (slope `s`); lawfulness is C01 `planar_lrelu_lawful`, antisymmetry C02 `planar_ld_antisym`.
-/
set_option linter.unusedSectionVars false
set_option linter.unusedVariables false
open Gen RealInst VecLd Matrix PlanarPf Filter Topology Set MeasureTheory

namespace PlanarMass
variable {n : ℕ} {C : Type}

/-! ## one real variable: `g s = s + a·tanh(s + b)`, `a > −1` -/

theorem g_hasDerivAt (a b s : ℝ) :
    HasDerivAt (fun s : ℝ => s + a * Real.tanh (s + b)) (1 + a * (1 - Real.tanh (s + b) ^ 2)) s := by
  have h1 : HasDerivAt (fun s : ℝ => s + b) 1 s := (hasDerivAt_id s).add_const b
  have h2 := (LogDet.hasDerivAt_tanh (s + b)).comp s h1
  have h3 := (hasDerivAt_id' s).fun_add (h2.const_mul a)
  simpa using h3

theorem g_strictMono {a : ℝ} (ha : -1 < a) (b : ℝ) : StrictMono (fun s : ℝ => s + a * Real.tanh (s + b)) := by
  apply strictMono_of_deriv_pos
  intro s
  rw [(g_hasDerivAt a b s).deriv]
  have hd1 := LogDet.one_sub_tanh_sq_pos (s + b)
  have hd2 : 1 - Real.tanh (s + b) ^ 2 ≤ 1 := by have := sq_nonneg (Real.tanh (s + b)); linarith
  have := ParamsPf.one_add_mul_pos ha hd1 hd2
  linarith [mul_comm a (1 - Real.tanh (s + b) ^ 2)]

theorem abs_mul_tanh_le (a z : ℝ) : |a * Real.tanh z| ≤ |a| := by
  rw [abs_mul]
  have h1 : |Real.tanh z| ≤ 1 := abs_le.mpr ⟨(Real.neg_one_lt_tanh z).le, (Real.tanh_lt_one z).le⟩
  calc |a| * |Real.tanh z| ≤ |a| * 1 := mul_le_mul_of_nonneg_left h1 (abs_nonneg a)
    _ = |a| := mul_one _

theorem g_surjective (a b : ℝ) : Function.Surjective (fun s : ℝ => s + a * Real.tanh (s + b)) := by
  have hcont : Continuous (fun s : ℝ => s + a * Real.tanh (s + b)) :=
    continuous_iff_continuousAt.mpr fun s => (g_hasDerivAt a b s).continuousAt
  apply hcont.surjective
  · apply tendsto_atTop_mono (f := fun s : ℝ => s + -|a|)
    · intro s
      have := abs_le.mp (abs_mul_tanh_le a (s + b))
      show s + -|a| ≤ s + a * Real.tanh (s + b)
      linarith [this.1]
    · exact tendsto_atTop_add_const_right _ _ tendsto_id
  · apply tendsto_atBot_mono (f := fun s : ℝ => s + |a|)
    · intro s
      have := abs_le.mp (abs_mul_tanh_le a (s + b))
      show s + a * Real.tanh (s + b) ≤ s + |a|
      linarith [this.2]
    · exact tendsto_atBot_add_const_right _ _ tendsto_id

/-! ## `x ↦ x + û·tanh(w·x + b)` is a bijection of `ℝⁿ` -/

theorem fwdV_tanh_injective (w û : Fin n → ℝ) (hc : -1 < w ⬝ᵥ û) (b : ℝ) :
    Function.Injective (fwdV Real.tanh w û b) := by
  intro x y hxy
  have hdot : w ⬝ᵥ fwdV Real.tanh w û b x = w ⬝ᵥ fwdV Real.tanh w û b y := by rw [hxy]
  rw [dot_fwdV, dot_fwdV] at hdot
  have hs : w ⬝ᵥ x = w ⬝ᵥ y := (g_strictMono hc b).injective hdot
  funext i
  have hi := congrFun hxy i
  simp only [fwdV, hs] at hi
  linarith

theorem fwdV_tanh_surjective (w û : Fin n → ℝ) (b : ℝ) : Function.Surjective (fwdV Real.tanh w û b) := by
  intro y
  obtain ⟨s, hs⟩ := g_surjective (w ⬝ᵥ û) b (w ⬝ᵥ y)
  have hs' : s + (w ⬝ᵥ û) * Real.tanh (s + b) = w ⬝ᵥ y := hs
  refine ⟨fun i => y i - û i * Real.tanh (s + b), ?_⟩
  have hdot : w ⬝ᵥ (fun i => y i - û i * Real.tanh (s + b)) = s := by
    have : w ⬝ᵥ (fun i => y i - û i * Real.tanh (s + b)) = w ⬝ᵥ y - (w ⬝ᵥ û) * Real.tanh (s + b) := by
      simp [dotProduct, mul_sub, Finset.sum_sub_distrib, Finset.sum_mul, mul_assoc]
    rw [this]; linarith
  funext i
  simp only [fwdV, hdot]
  ring

theorem fwdV_tanh_bijective (w û : Fin n → ℝ) (hc : -1 < w ⬝ᵥ û) (b : ℝ) :
    Function.Bijective (fwdV Real.tanh w û b) :=
  ⟨fwdV_tanh_injective w û hc b, fwdV_tanh_surjective w û b⟩

/-- the GENERATED `transform_tanh` (with the generated constraint `get_act_scale`) read in coordinates is a bijection of `ℝⁿ`,
every `w ≠ 0`, unconstrained `u`, bias -/
theorem transform_tanh_bijective {p : UnconditionalPlanar ℝ} (h : WF p n) :
    Function.Bijective (coordMap n p.transform_tanh) := by
  obtain ⟨hw, hu⟩ := vec h
  have hcm : coordMap n p.transform_tanh = fwdV Real.tanh (toVec n p.weight) (toVec n p.get_act_scale) p.bias :=
    coordMap_eq (fun v => transform_tanh_ofFn hw hu v)
  rw [hcm]
  exact fwdV_tanh_bijective _ _ (constraint h) _

/-! ## the record of methods for `activation = "tanh"` -/

/-- `transform` / `transform_and_log_det`: the GENERATED methods read in coordinates.  `inverse` / `inverse_and_log_det`: the
library raises `NotImplementedError`; the record is completed with the mathematical inverse and the convention
`inverse_and_log_det y = (x, −transform_and_log_det(x)[1])`, `x = inverse y`, that the library uses for its other bijections without
analytic inverse.  In `Invert(·)` — what `planar_flow(invert=True)` builds — `log_prob` touches the two generated methods only. -/
noncomputable def tanhBij (n : ℕ) (p : UnconditionalPlanar ℝ) : Bij (Fin n → ℝ) C ℝ where
  fwd x _ := coordMap n p.transform_tanh x
  inv y _ := Function.invFun (coordMap n p.transform_tanh) y
  fwdLd x _ := (toVec n (p.transform_and_log_det_tanh (List.ofFn x)).1, (p.transform_and_log_det_tanh (List.ofFn x)).2)
  invLd y _ := (Function.invFun (coordMap n p.transform_tanh) y,
    -(p.transform_and_log_det_tanh (List.ofFn (Function.invFun (coordMap n p.transform_tanh) y))).2)

theorem tanhBij_lawful {p : UnconditionalPlanar ℝ} (h : WF p n) : (tanhBij n p : Bij (Fin n → ℝ) C ℝ).Lawful univ univ := by
  have hb := transform_tanh_bijective h
  refine ⟨fun _ _ _ => trivial, fun _ _ _ => trivial, ?_, ?_, ?_, fun _ _ => rfl⟩
  · intro x _ c
    exact Function.leftInverse_invFun hb.1 x
  · intro y _ c
    exact Function.rightInverse_invFun hb.2 y
  · intro x c
    show toVec n (p.transform_and_log_det_tanh (List.ofFn x)).1 = coordMap n p.transform_tanh x
    rw [(tanh_ld h x).2.2.2.2]
    rfl

/-- the Jacobian of the generated forward map at `v` (C02 `planar_tanh_ld`) -/
noncomputable def tanhJac (n : ℕ) (p : UnconditionalPlanar ℝ) (v : Fin n → ℝ) : (Fin n → ℝ) →L[ℝ] (Fin n → ℝ) :=
  matCLM (jac (toVec n p.get_act_scale) ((1 - Real.tanh (toVec n p.weight ⬝ᵥ v + p.bias) ^ 2) • toVec n p.weight))

theorem tanh_jac {p : UnconditionalPlanar ℝ} (h : WF p n) (c : C) (v : Fin n → ℝ) :
    HasFDerivAt (fun x => (tanhBij n p : Bij (Fin n → ℝ) C ℝ).fwd x c) (tanhJac n p v) v ∧
    (tanhJac n p v).det ≠ 0 ∧
    ((tanhBij n p : Bij (Fin n → ℝ) C ℝ).fwdLd v c).2 = Real.log |(tanhJac n p v).det| := by
  obtain ⟨h1, _, h3, h4, _⟩ := tanh_ld h v
  refine ⟨h1, ?_, ?_⟩
  · unfold tanhJac; rw [matCLM_det]; exact h3.ne'
  · unfold tanhJac; rw [matCLM_det]; exact h4

/-- `Transformed(base, Planar(tanh))`: needs the (unimplemented) inverse to evaluate `log_prob` -/
theorem tanh_fwdJacN {p : UnconditionalPlanar ℝ} (h : WF p n) (c : C) :
    Mass.FwdJacN (tanhBij n p : Bij (Fin n → ℝ) C ℝ) c :=
  Mass.FwdJacN.of_fwdLd (tanhBij_lawful h) (tanhJac n p)
    (Mass.PiecewiseFDeriv.of_hasFDerivAt fun v => (tanh_jac h c v).1) (fun v => (tanh_jac h c v).2)
    (fun x => by
      show -(p.transform_and_log_det_tanh (List.ofFn (Function.invFun (coordMap n p.transform_tanh)
        (coordMap n p.transform_tanh x)))).2 = -(p.transform_and_log_det_tanh (List.ofFn x)).2
      rw [Function.leftInverse_invFun (transform_tanh_bijective h).1 x])

/-- **`Transformed(base, Invert(Planar(tanh)))`** — what `planar_flow` builds by default; `log_prob` is
`base.log_prob(transform x) + transform_and_log_det(x)[1]`, generated code only -/
theorem tanh_invert_invJacN {p : UnconditionalPlanar ℝ} (h : WF p n) (c : C) :
    Mass.InvJacN (Gen.Invert.mk (tanhBij n p : Bij (Fin n → ℝ) C ℝ)).toBij c :=
  Mass.InvJacN.invert (tanhBij_lawful h) (tanhJac n p)
    (Mass.PiecewiseFDeriv.of_hasFDerivAt fun v => (tanh_jac h c v).1) (fun v => (tanh_jac h c v).2)

/-! ## leaky relu: two affine pieces, kink on a hyperplane -/

theorem lrelu_lift_lawful {p : UnconditionalPlanar ℝ} (h : WF p n) {s : ℝ} (hs0 : 0 < s) (hs1 : s ≤ 1) :
    (NetMass.liftBij n (Planar.lreluBij p s : Bij (List ℝ) C ℝ)).Lawful univ univ := by
  have hL := lrelu_lawful (C := C) h hs0 hs1
  exact NetMass.liftBij_lawful n _ _ _ hL (fun x hx => hx) (fun x hx => hx)
    (fun x c hx => hL.maps x hx c) (fun x c hx => hL.mapsInv x hx c)

theorem lrelu_lift_fwd {p : UnconditionalPlanar ℝ} (h : WF p n) (s : ℝ) (c : C) :
    (fun x => (NetMass.liftBij n (Planar.lreluBij p s : Bij (List ℝ) C ℝ)).fwd x c)
      = fwdV (fun z => Jnp.leakyRelu z s) (toVec n p.weight) (toVec n p.get_act_scale) p.bias := by
  obtain ⟨hw, hu⟩ := vec h
  funext x i
  show MasksPf.nth (p.transform_lrelu s (List.ofFn x)) i = _
  rw [transform_lrelu_ofFn hw hu, NetMass.nth_ofFn]

/-- the Jacobian on the piece containing `v`: slope `1` on `{w·v + b ≥ 0}` (kink included), `s` on `{w·v + b < 0}` -/
noncomputable def lreluJac (n : ℕ) (p : UnconditionalPlanar ℝ) (s : ℝ) (v : Fin n → ℝ) : (Fin n → ℝ) →L[ℝ] (Fin n → ℝ) :=
  matCLM (jac (toVec n p.get_act_scale) (slope s (toVec n p.weight ⬝ᵥ v + p.bias) • toVec n p.weight))

theorem measurableSet_halfspace (w : Fin n → ℝ) (b : ℝ) : MeasurableSet {x : Fin n → ℝ | 0 ≤ w ⬝ᵥ x + b} := by
  have hcont : Continuous fun x : Fin n → ℝ => w ⬝ᵥ x + b := ((dotL w).continuous).add continuous_const
  exact (isClosed_le continuous_const hcont).measurableSet

theorem lrelu_piecewise (w û : Fin n → ℝ) (b s : ℝ) :
    Mass.PiecewiseFDeriv (fwdV (fun z => Jnp.leakyRelu z s) w û b)
      (fun v => matCLM (jac û (slope s (w ⬝ᵥ v + b) • w))) := by
  refine Mass.PiecewiseFDeriv.of_two (measurableSet_halfspace w b) ?_ ?_
  · intro x hx
    have hx' : ¬ (w ⬝ᵥ x + b < 0) := not_lt.mpr hx
    have hd : HasFDerivAt (fwdV (fun z => z) w û b) (matCLM (jac û ((1 : ℝ) • w))) x :=
      fwdV_hasFDerivAt w û b x (hasDerivAt_id _)
    have hsl : slope s (w ⬝ᵥ x + b) = 1 := by simp [PlanarPf.slope, hx']
    rw [hsl]
    refine hd.hasFDerivWithinAt.congr (fun y hy => ?_) ?_
    · funext i
      have hy' : ¬ (w ⬝ᵥ y + b < 0) := not_lt.mpr hy
      simp [fwdV, Jnp.leakyRelu, hy']
    · funext i
      simp [fwdV, Jnp.leakyRelu, hx']
  · intro x hx
    have hx' : w ⬝ᵥ x + b < 0 := not_le.mp hx
    have hd : HasFDerivAt (fwdV (fun z => s * z) w û b) (matCLM (jac û (s • w))) x :=
      fwdV_hasFDerivAt w û b x (by simpa using (hasDerivAt_id (w ⬝ᵥ x + b)).const_mul s)
    have hsl : slope s (w ⬝ᵥ x + b) = s := by simp [PlanarPf.slope, hx']
    rw [hsl]
    refine hd.hasFDerivWithinAt.congr (fun y hy => ?_) ?_
    · funext i
      have hy' : w ⬝ᵥ y + b < 0 := not_le.mp hy
      simp [fwdV, Jnp.leakyRelu, hy']
    · funext i
      simp [fwdV, Jnp.leakyRelu, hx']

theorem lrelu_jac {p : UnconditionalPlanar ℝ} (h : WF p n) {s : ℝ} (hs0 : 0 < s) (hs1 : s ≤ 1) (c : C) :
    Mass.PiecewiseFDeriv (fun x => (NetMass.liftBij n (Planar.lreluBij p s : Bij (List ℝ) C ℝ)).fwd x c) (lreluJac n p s) ∧
    ∀ v, (lreluJac n p s v).det ≠ 0 ∧
      ((NetMass.liftBij n (Planar.lreluBij p s : Bij (List ℝ) C ℝ)).fwdLd v c).2 = Real.log |(lreluJac n p s v).det| := by
  obtain ⟨hw, hu⟩ := vec h
  refine ⟨by rw [lrelu_lift_fwd h s c]; exact lrelu_piecewise _ _ _ _, fun v => ?_⟩
  have hpos := ParamsPf.one_add_mul_pos (constraint h) (slope_pos hs0 (toVec n p.weight ⬝ᵥ v + p.bias))
    (slope_le_one hs1 _)
  unfold lreluJac
  rw [matCLM_det, jac_det]
  refine ⟨by rw [smul_dotProduct, smul_eq_mul]; exact hpos.ne', ?_⟩
  show ((Planar.lreluBij p s : Bij (List ℝ) C ℝ).fwdLd (List.ofFn v) c).2 = _
  simp only [Planar.lreluBij, tld_lrelu_ofFn hw hu hs0]
  rw [dotProduct_comm]

/-- **`Mass.FwdJacN` for the leaky-relu planar layer** (`Transformed(base, Planar(negative_slope = s))`) -/
theorem lrelu_fwdJacN {p : UnconditionalPlanar ℝ} (h : WF p n) {s : ℝ} (hs0 : 0 < s) (hs1 : s ≤ 1) (c : C) :
    Mass.FwdJacN (NetMass.liftBij n (Planar.lreluBij p s : Bij (List ℝ) C ℝ)) c := by
  obtain ⟨hpw, hj⟩ := lrelu_jac h hs0 hs1 c
  refine Mass.FwdJacN.of_fwdLd (lrelu_lift_lawful h hs0 hs1) (lreluJac n p s) hpw hj ?_
  intro x
  have hL := lrelu_lawful (C := C) h hs0 hs1
  have hanti := lrelu_ld_antisym (C := C) h hs0 hs1 (List.ofFn x) (by simp) c
  have hof : List.ofFn ((NetMass.liftBij n (Planar.lreluBij p s : Bij (List ℝ) C ℝ)).fwd x c)
      = (Planar.lreluBij p s : Bij (List ℝ) C ℝ).fwd (List.ofFn x) c :=
    NetMass.ofFn_nth _ n (hL.maps (List.ofFn x) (by simp) c)
  show ((Planar.lreluBij p s : Bij (List ℝ) C ℝ).invLd
      (List.ofFn ((NetMass.liftBij n (Planar.lreluBij p s : Bij (List ℝ) C ℝ)).fwd x c)) c).2 = _
  rw [hof, hanti]
  rfl

/-- **`Mass.InvJacN` for `Invert(Planar(negative_slope = s))`** (`planar_flow(negative_slope = s)`, default `invert=True`) -/
theorem lrelu_invert_invJacN {p : UnconditionalPlanar ℝ} (h : WF p n) {s : ℝ} (hs0 : 0 < s) (hs1 : s ≤ 1) (c : C) :
    Mass.InvJacN (Gen.Invert.mk (NetMass.liftBij n (Planar.lreluBij p s : Bij (List ℝ) C ℝ))).toBij c := by
  obtain ⟨hpw, hj⟩ := lrelu_jac h hs0 hs1 c
  exact Mass.InvJacN.invert (lrelu_lift_lawful h hs0 hs1) (lreluJac n p s) hpw hj

/-! ## the layer predicate used by the stack theorems -/

/-- `b` is a planar layer on `ℝⁿ` (tanh or leaky relu with slope in `(0, 1]`, either orientation) with `w ≠ 0` -/
def IsPlanarLayer (C : Type) (n : ℕ) (b : Bij (Fin n → ℝ) C ℝ) : Prop :=
  ∃ p : UnconditionalPlanar ℝ, WF p n ∧
    (b = (Gen.Invert.mk (tanhBij n p)).toBij ∨ b = tanhBij n p ∨
     ∃ s : ℝ, 0 < s ∧ s ≤ 1 ∧ (b = (Gen.Invert.mk (NetMass.liftBij n (Planar.lreluBij p s))).toBij ∨
       b = NetMass.liftBij n (Planar.lreluBij p s)))

theorem IsPlanarLayer.layer {b : Bij (Fin n → ℝ) C ℝ} (h : IsPlanarLayer C n b) (c : C) :
    Mass.InvJacN b c ∨ Mass.FwdJacN b c := by
  obtain ⟨p, hwf, hb⟩ := h
  rcases hb with rfl | rfl | ⟨s, hs0, hs1, rfl | rfl⟩
  · exact Or.inl (tanh_invert_invJacN hwf c)
  · exact Or.inr (tanh_fwdJacN hwf c)
  · exact Or.inl (lrelu_invert_invJacN hwf hs0 hs1 c)
  · exact Or.inr (lrelu_fwdJacN hwf hs0 hs1 c)

end PlanarMass
