import Flowjaxv.Proofs.MassFlow
import Flowjaxv.Proofs.DistTheory
/-!
# The two layer facts are closed under the generated `Chain` and `Invert`

`Mass.Layer μ b c` is the pair of layer facts (`MassOK`, `LawOK`) every stack theorem of C04 consumes; `Mass.BiLayer μ b c` says
that `b` AND the generated `Invert(b)` supply them (both orientations).

* `MassOK.comp2`, `LawOK.comp2` — "first `a`, then `b`": if the inverse of `g` is `a⁻¹ ∘ b⁻¹` and the inverse log-dets add along
  the trajectory, `g` inherits the layer facts — for EVERY integrand / base density, so nothing about measurability of the
  composite has to be re-proved;
* `Layer.chain` — the generated `Chain` of any list of layers;
* `invert_chain_*` — the generated `Invert(Chain[b₁,…,b_k])` computes the same three methods as `Chain[Invert b_k,…,Invert b₁]`;
* `BiLayer.chain`, `BiLayer.invert` — both orientations, any list, any nesting.
-/
set_option linter.unusedSectionVars false
set_option linter.unusedVariables false
open Gen Set MeasureTheory

namespace Mass
section
variable {X C : Type} [MeasurableSpace X]

/-- both layer facts at condition `c` -/
def Layer (μ : Measure X) (b : Bij X C ℝ) (c : C) : Prop := MassOK μ b c ∧ LawOK μ b c

/-- both layer facts for `b` and for the generated `Invert(b)` -/
def BiLayer (μ : Measure X) (b : Bij X C ℝ) (c : C) : Prop := Layer μ b c ∧ Layer μ (Invert.mk b).toBij c

/-- the layer facts only look at `transform`, `inverse`, `inverse_and_log_det` at the condition -/
theorem Layer.congr {μ : Measure X} {a b : Bij X C ℝ} {c : C} (h : Layer μ a c)
    (hfwd : ∀ x, b.fwd x c = a.fwd x c) (hinv : ∀ y, b.inv y c = a.inv y c) (hld : ∀ y, b.invLd y c = a.invLd y c) :
    Layer μ b c := by
  have e1 : (fun x => b.fwd x c) = fun x => a.fwd x c := funext hfwd
  refine ⟨⟨fun y => by rw [hld, hinv]; exact h.1.invLd_fst y, fun p => ?_⟩,
    ⟨fun y => by rw [hld, hinv]; exact h.2.invLd_fst y, by rw [e1]; exact h.2.fwd_meas, fun p => ?_⟩⟩
  · simp only [hinv, hld]; exact h.1.mass p
  · simp only [hinv, hld, e1]; exact h.2.law p

/-- first `a`, then `b` -/
theorem MassOK.comp2 {μ : Measure X} {a b g : Bij X C ℝ} {c : C} (ha : MassOK μ a c) (hb : MassOK μ b c)
    (hfst : ∀ y, (g.invLd y c).1 = g.inv y c)
    (hinv : ∀ y, g.inv y c = a.inv (b.inv y c) c)
    (hld : ∀ y, (g.invLd y c).2 = (b.invLd y c).2 + (a.invLd (b.inv y c) c).2) : MassOK μ g c := by
  refine ⟨hfst, fun p => ?_⟩
  rw [← ha.mass p, ← hb.mass (fun z => p (a.inv z c) * Real.exp (a.invLd z c).2)]
  congr 1; funext y
  rw [hinv, hld, Real.exp_add]; ring

theorem LawOK.comp2 {μ : Measure X} {a b g : Bij X C ℝ} {c : C} (ha : LawOK μ a c) (hb : LawOK μ b c)
    (hfst : ∀ y, (g.invLd y c).1 = g.inv y c)
    (hfwd : ∀ x, g.fwd x c = b.fwd (a.fwd x c) c)
    (hinv : ∀ y, g.inv y c = a.inv (b.inv y c) c)
    (hld : ∀ y, (g.invLd y c).2 = (b.invLd y c).2 + (a.invLd (b.inv y c) c).2) : LawOK μ g c := by
  have e : (fun x => g.fwd x c) = (fun x => b.fwd x c) ∘ (fun x => a.fwd x c) := funext hfwd
  refine ⟨hfst, by rw [e]; exact hb.fwd_meas.comp ha.fwd_meas, fun p => ?_⟩
  rw [e, ← Measure.map_map hb.fwd_meas ha.fwd_meas, ha.law p,
    hb.law (fun z => p (a.inv z c) * Real.exp (a.invLd z c).2)]
  congr 1; funext y
  rw [hinv, hld, Real.exp_add]; congr 1; ring

theorem Layer.comp2 {μ : Measure X} {a b g : Bij X C ℝ} {c : C} (ha : Layer μ a c) (hb : Layer μ b c)
    (hfst : ∀ y, (g.invLd y c).1 = g.inv y c)
    (hfwd : ∀ x, g.fwd x c = b.fwd (a.fwd x c) c)
    (hinv : ∀ y, g.inv y c = a.inv (b.inv y c) c)
    (hld : ∀ y, (g.invLd y c).2 = (b.invLd y c).2 + (a.invLd (b.inv y c) c).2) : Layer μ g c :=
  ⟨ha.1.comp2 hb.1 hfst hinv hld, ha.2.comp2 hb.2 hfst hfwd hinv hld⟩

/-- the identity -/
theorem Layer.chain_nil (μ : Measure X) (c : C) : Layer μ (Chain.mk ([] : List (Bij X C ℝ))).toBij c := by
  refine ⟨⟨fun _ => rfl, fun p => ?_⟩, ⟨fun _ => rfl, measurable_id, fun p => ?_⟩⟩
  · simp [Chain.toBij, Chain.ild_nil]
  · have e : (fun x => (Chain.mk ([] : List (Bij X C ℝ))).toBij.fwd x c) = id := rfl
    rw [e, Measure.map_id]
    simp [Chain.toBij, Chain.ild_nil]

omit [MeasurableSpace X] in
theorem Chain.ild_single (b : Bij X C ℝ) (y : X) (c : C) :
    (Chain.mk [b]).inverse_and_log_det y c = ((b.invLd y c).1, (b.invLd y c).2) := by
  simp [Chain.inverse_and_log_det, Jnp.sumElem]

omit [MeasurableSpace X] in
theorem Chain.tld_single (b : Bij X C ℝ) (x : X) (c : C) :
    (Chain.mk [b]).transform_and_log_det x c = ((b.fwdLd x c).1, (b.fwdLd x c).2) := by
  simp [Chain.transform_and_log_det, Jnp.sumElem]

omit [MeasurableSpace X] in
/-- the three methods of `Chain(bs ++ [b])` the layer facts look at, in terms of `Chain(bs)` and `b` -/
theorem Chain.snoc_facts (bs : List (Bij X C ℝ)) (b : Bij X C ℝ) (c : C)
    (hb : ∀ y, (b.invLd y c).1 = b.inv y c) :
    (∀ x, (Chain.mk (bs ++ [b])).toBij.fwd x c = b.fwd ((Chain.mk bs).toBij.fwd x c) c) ∧
    (∀ y, (Chain.mk (bs ++ [b])).toBij.inv y c = (Chain.mk bs).toBij.inv (b.inv y c) c) ∧
    (∀ y, ((Chain.mk (bs ++ [b])).toBij.invLd y c).2
      = (b.invLd y c).2 + ((Chain.mk bs).toBij.invLd (b.inv y c) c).2) := by
  refine ⟨fun x => ?_, fun y => ?_, fun y => ?_⟩
  · simp [Chain.toBij, Chain.transform_append]
  · simp [Chain.toBij, Chain.inverse_append]
  · simp only [Chain.toBij]
    rw [Chain.ild_append, Chain.ild_single, hb]

/-- **the generated `Chain` of any list of layers supplies the layer facts** -/
theorem Layer.chain {μ : Measure X} {c : C} (bs : List (Bij X C ℝ)) (h : ∀ b ∈ bs, Layer μ b c) :
    Layer μ (Chain.mk bs).toBij c := by
  induction bs using List.reverseRecOn with
  | nil => exact Layer.chain_nil μ c
  | append_singleton bs b ih =>
    have hb := h b (by simp)
    have ih' := ih (fun b' hb' => h b' (List.mem_append_left _ hb'))
    obtain ⟨h1, h2, h3⟩ := Chain.snoc_facts bs b c hb.1.invLd_fst
    refine Layer.comp2 ih' hb (fun y => ?_) h1 h2 h3
    exact Chain.ild_fst (bs ++ [b]) c (fun b' hb' y => (h b' hb').1.invLd_fst y) y

/-- `Invert(b)` as a record -/
def invB (b : Bij X C ℝ) : Bij X C ℝ := (Invert.mk b).toBij

omit [MeasurableSpace X] in
/-- `Invert(Chain[b₁,…,b_k])` computes the same methods as `Chain[Invert b_k,…,Invert b₁]` -/
theorem invert_chain_equiv (bs : List (Bij X C ℝ)) :
    (Invert.mk (Chain.mk bs).toBij).toBij.Equiv (Chain.mk (bs.reverse.map invB)).toBij := by
  refine ⟨fun x c => ?_, fun y c => ?_, fun x c => ?_, fun y c => ?_⟩
  · simp only [Invert.toBij, Invert.transform, Chain.toBij, Chain.inverse, Chain.transform, List.foldl_map]
    rfl
  · simp only [Invert.toBij, Invert.inverse, Chain.toBij, Chain.inverse, Chain.transform,
      List.map_reverse, List.reverse_reverse, List.foldl_map]
    rfl
  · simp only [Invert.toBij, Invert.transform_and_log_det, Chain.toBij, Chain.inverse_and_log_det,
      Chain.transform_and_log_det, List.foldl_map]
    rfl
  · simp only [Invert.toBij, Invert.inverse_and_log_det, Chain.toBij, Chain.inverse_and_log_det,
      Chain.transform_and_log_det, List.foldl_map, List.map_reverse, List.reverse_reverse, List.foldl_map]
    rfl

theorem BiLayer.invert {μ : Measure X} {b : Bij X C ℝ} {c : C} (h : BiLayer μ b c) : BiLayer μ (Invert.mk b).toBij c :=
  ⟨h.2, h.1.congr (fun _ => rfl) (fun _ => rfl) (fun _ => rfl)⟩

/-- **both orientations of the generated `Chain` of any list of layers that have both orientations** -/
theorem BiLayer.chain {μ : Measure X} {c : C} (bs : List (Bij X C ℝ)) (h : ∀ b ∈ bs, BiLayer μ b c) :
    BiLayer μ (Chain.mk bs).toBij c := by
  refine ⟨Layer.chain bs (fun b hb => (h b hb).1), ?_⟩
  have h2 : Layer μ (Chain.mk (bs.reverse.map invB)).toBij c := by
    refine Layer.chain _ fun b' hb' => ?_
    obtain ⟨b, hb, rfl⟩ := List.mem_map.mp hb'
    exact (h b (List.mem_reverse.mp hb)).2
  have e := invert_chain_equiv bs
  exact h2.congr (fun x => e.fwd x c) (fun y => e.inv y c) (fun y => e.invLd y c)

/-- both values of the factories' `invert` flag -/
theorem BiLayer.orient {μ : Measure X} {b : Bij X C ℝ} {c : C} (h : BiLayer μ b c) (invert : Bool) :
    BiLayer μ (if invert then (Invert.mk b).toBij else b) c := by
  cases invert
  · simpa using h
  · simpa using h.invert

end
end Mass
