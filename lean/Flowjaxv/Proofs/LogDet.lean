import Mathlib.Analysis.Calculus.Deriv.Inverse
import Mathlib.Analysis.Calculus.Deriv.Slope
import Mathlib.Analysis.Calculus.Deriv.Pi
import Mathlib.Analysis.SpecialFunctions.ExpDeriv
import Mathlib.Analysis.SpecialFunctions.Log.Deriv
import Mathlib.Topology.Order.IntermediateValue
import Mathlib.LinearAlgebra.Matrix.Determinant.Basic
import Mathlib.LinearAlgebra.Matrix.ToLin
import Mathlib.LinearAlgebra.Determinant
import Mathlib.Topology.Algebra.Module.FiniteDimension
import Mathlib.Analysis.Calculus.FDeriv.Prod
import Mathlib.Algebra.Order.BigOperators.Ring.Finset
import Mathlib.Algebra.BigOperators.Fin
import Flowjaxv.Proofs.Leaves
/-!
# Log-determinants (C02)

The oracle is Mathlib's derivative: `HasDerivAt` of the *generated forward map*.  Nothing in the
definitions below mentions the hand-written log-det formulas of the library; those only appear
through the generated `transform_and_log_det` / `inverse_and_log_det` whose second component
is compared with `Real.log |d|`.
-/
open Gen RealInst Set Filter Topology

namespace Bij
variable {C : Type}

/-- The log-det returned with the forward map is `log |d|` where `d` is *the* derivative (Mathlib's
`HasDerivAt`, unique) of the forward map the bijection actually computes, and `d ≠ 0`. -/
def LdCorrect (b : Bij ℝ C ℝ) (D : Set ℝ) : Prop :=
  ∀ x ∈ D, ∀ c, ∃ d, HasDerivAt (fun x => b.fwd x c) d x ∧ d ≠ 0 ∧ (b.fwdLd x c).2 = Real.log |d|

/-- `LdCorrect` with the derivative named: `d x` is the derivative at `x`. -/
def LdCorrectWith (b : Bij ℝ C ℝ) (D : Set ℝ) (d : ℝ → ℝ) : Prop :=
  ∀ x ∈ D, ∀ c, HasDerivAt (fun x => b.fwd x c) (d x) x ∧ d x ≠ 0 ∧ (b.fwdLd x c).2 = Real.log |d x|

theorem LdCorrectWith.ldCorrect {b : Bij ℝ C ℝ} {D : Set ℝ} {d : ℝ → ℝ} (h : b.LdCorrectWith D d) :
    b.LdCorrect D := fun x hx c => ⟨d x, h x hx c⟩

theorem LdCorrect.mono {b : Bij ℝ C ℝ} {D D' : Set ℝ} (h : b.LdCorrect D) (hs : D' ⊆ D) :
    b.LdCorrect D' := fun x hx c => h x (hs hx) c

theorem LdAntisym.mono {X L : Type} [Neg L] {b : Bij X C L} {D D' : Set X} (h : b.LdAntisym D)
    (hs : D' ⊆ D) : b.LdAntisym D' := fun x hx c => h x (hs hx) c

end Bij

namespace LogDet
variable {C : Type}

/-! ### Calculus facts -/

/-- Mathlib has no `hasDerivAt_tanh`; from `sinh/cosh` by the quotient rule. -/
theorem hasDerivAt_tanh (x : ℝ) : HasDerivAt Real.tanh (1 - Real.tanh x ^ 2) x := by
  have hc : Real.cosh x ≠ 0 := (Real.cosh_pos x).ne'
  have h := (Real.hasDerivAt_sinh x).div (Real.hasDerivAt_cosh x) hc
  have e : Real.sinh / Real.cosh = Real.tanh := by
    funext y; rw [Pi.div_apply, Real.tanh_eq_sinh_div_cosh]
  rw [e] at h
  have e2 : 1 - Real.tanh x ^ 2
      = (Real.cosh x * Real.cosh x - Real.sinh x * Real.sinh x) / Real.cosh x ^ 2 := by
    rw [Real.tanh_eq_sinh_div_cosh]; field_simp
  rw [e2]; exact h

theorem one_sub_tanh_sq (x : ℝ) : 1 - Real.tanh x ^ 2 = 1 / Real.cosh x ^ 2 := by
  have hc : Real.cosh x ≠ 0 := (Real.cosh_pos x).ne'
  rw [Real.tanh_eq_sinh_div_cosh]; field_simp
  nlinarith [Real.cosh_sq x]

theorem one_sub_tanh_sq_pos (x : ℝ) : 0 < 1 - Real.tanh x ^ 2 := by
  rw [one_sub_tanh_sq]; have := Real.cosh_pos x; positivity

/-- the library's `_tanh_log_grad` (generated) is `log (1 - tanh² x)` -/
theorem tanhLogGrad_eq (x : ℝ) : tanhLogGrad x = Real.log (1 - Real.tanh x ^ 2) := by
  have hc := Real.cosh_pos x
  have hcosh : Real.cosh x = Real.exp x * (1 + Real.exp (-2 * x)) / 2 := by
    rw [Real.cosh_eq, mul_add, mul_one, ← Real.exp_add]; congr 2; ring_nf
  have h1 : 0 < 1 + Real.exp (-2 * x) := by linarith [Real.exp_pos (-2 * x)]
  have hl : Real.log (Real.cosh x) = x + Real.log (1 + Real.exp (-2 * x)) - Real.log 2 := by
    rw [hcosh, Real.log_div (by positivity) (by norm_num), Real.log_mul (Real.exp_pos x).ne' h1.ne',
      Real.log_exp]
  rw [one_sub_tanh_sq, Real.log_div one_ne_zero (by positivity), Real.log_one, Real.log_pow, hl]
  simp only [tanhLogGrad, softplus_eq, log_eq]
  push_cast; ring

/-- `d/dx log(1+eˣ) = eˣ/(1+eˣ)` (the sigmoid) -/
theorem hasDerivAt_softplus (x : ℝ) :
    HasDerivAt (fun x => Real.log (1 + Real.exp x)) (Real.exp x / (1 + Real.exp x)) x := by
  have hpos : 0 < 1 + Real.exp x := by linarith [Real.exp_pos x]
  have h := ((Real.hasDerivAt_exp x).const_add 1).log hpos.ne'
  exact h

theorem sigmoid_pos (x : ℝ) : 0 < Real.exp x / (1 + Real.exp x) := by
  have := Real.exp_pos x; positivity

theorem sigmoid_eq (x : ℝ) : Real.exp x / (1 + Real.exp x) = 1 / (1 + Real.exp (-x)) := by
  rw [Real.exp_neg]; have := Real.exp_pos x; field_simp; ring

/-- `-softplus(-x) = log (sigmoid x)` -/
theorem neg_softplus_neg (x : ℝ) :
    -Real.log (1 + Real.exp (-x)) = Real.log (Real.exp x / (1 + Real.exp x)) := by
  have hpos : 0 < 1 + Real.exp x := by linarith [Real.exp_pos x]
  rw [sigmoid_eq, Real.log_div one_ne_zero (by linarith [Real.exp_pos (-x)]), Real.log_one]; ring

/-! ### Leaves: `LdCorrectWith` with the derivative named -/

theorem affine_ld (p : Affine ℝ) (h : p.scale ≠ 0) :
    (p.toBij : Bij ℝ C ℝ).LdCorrectWith univ (fun _ => p.scale) := by
  intro x _ c
  refine ⟨?_, h, by simp [Affine.toBij, Affine.transform_and_log_det]⟩
  -- robust to the order in which the source writes the sum / product
  have key : ∀ y, (p.toBij : Bij ℝ C ℝ).fwd y c = y * p.scale + p.loc := by
    intro y; simp only [Affine.toBij, Affine.transform] <;> ring
  have hd : HasDerivAt (fun y : ℝ => y * p.scale + p.loc) p.scale x := by
    simpa using ((hasDerivAt_id x).mul_const p.scale).add_const p.loc
  exact hd.congr_of_eventuallyEq (Filter.Eventually.of_forall key)

theorem loc_ld (p : Loc ℝ) : (p.toBij : Bij ℝ C ℝ).LdCorrectWith univ (fun _ => 1) := by
  intro x _ c
  refine ⟨?_, one_ne_zero, by simp [Loc.toBij, Loc.transform_and_log_det]⟩
  have key : ∀ y, (p.toBij : Bij ℝ C ℝ).fwd y c = y + p.loc := by
    intro y; simp only [Loc.toBij, Loc.transform] <;> ring
  have hd : HasDerivAt (fun y : ℝ => y + p.loc) 1 x := by simpa using (hasDerivAt_id x).add_const p.loc
  exact hd.congr_of_eventuallyEq (Filter.Eventually.of_forall key)

theorem scale_ld (p : Scale ℝ) (h : p.scale ≠ 0) :
    (p.toBij : Bij ℝ C ℝ).LdCorrectWith univ (fun _ => p.scale) := by
  intro x _ c
  refine ⟨?_, h, by simp [Scale.toBij, Scale.transform_and_log_det]⟩
  have key : ∀ y, (p.toBij : Bij ℝ C ℝ).fwd y c = y * p.scale := by
    intro y; simp only [Scale.toBij, Scale.transform] <;> ring
  have hd : HasDerivAt (fun y : ℝ => y * p.scale) p.scale x := by simpa using (hasDerivAt_id x).mul_const p.scale
  exact hd.congr_of_eventuallyEq (Filter.Eventually.of_forall key)

theorem exp_ld : (Exp.toBij : Bij ℝ C ℝ).LdCorrectWith univ Real.exp := by
  intro x _ c
  refine ⟨Real.hasDerivAt_exp x, (Real.exp_pos x).ne', ?_⟩
  simp [Exp.toBij, Exp.transform_and_log_det, abs_of_pos (Real.exp_pos x)]

theorem softplus_ld :
    (SoftPlus.toBij : Bij ℝ C ℝ).LdCorrectWith univ (fun x => 1 / (1 + Real.exp (-x))) := by
  intro x _ c
  simp only [← sigmoid_eq]
  refine ⟨hasDerivAt_softplus x, (sigmoid_pos x).ne', ?_⟩
  simp only [SoftPlus.toBij, SoftPlus.transform_and_log_det, softplus_eq, sumElem_eq,
    abs_of_pos (sigmoid_pos x)]
  exact neg_softplus_neg x

theorem tanh_ld : (Tanh.toBij : Bij ℝ C ℝ).LdCorrectWith univ (fun x => 1 - Real.tanh x ^ 2) := by
  intro x _ c
  refine ⟨hasDerivAt_tanh x, (one_sub_tanh_sq_pos x).ne', ?_⟩
  simp only [Tanh.toBij, Tanh.transform_and_log_det, sumElem_eq, abs_of_pos (one_sub_tanh_sq_pos x)]
  exact tanhLogGrad_eq x

/-! ### LeakyTanh: both pieces and the switch points `|x| = max_val` -/

/-- the constructor matches the slope: `linear_grad = exp (tanhLogGrad m) = 1 - tanh² m` -/
theorem leaky_linear_grad_eq (m : ℝ) : (LeakyTanh.init m).linear_grad = 1 - Real.tanh m ^ 2 := by
  simp only [LeakyTanh.init, exp_eq]
  rw [tanhLogGrad_eq, Real.exp_log (one_sub_tanh_sq_pos m)]

/-- what the constructor establishes, now including the matched slope -/
structure LeakyWF2 (p : LeakyTanh ℝ) : Prop extends Leaves.LeakyWF p where
  slope : p.linear_grad = 1 - Real.tanh p.max_val ^ 2

theorem leaky_init_wf2 {m : ℝ} (hm : 0 < m) : LeakyWF2 (LeakyTanh.init m) :=
  ⟨Leaves.leaky_init_wf hm, leaky_linear_grad_eq m⟩

/-- derivative of the generated `LeakyTanh.transform` -/
noncomputable def leakyDeriv (p : LeakyTanh ℝ) (x : ℝ) : ℝ :=
  if p.max_val ≤ |x| then p.linear_grad else 1 - Real.tanh x ^ 2

theorem leaky_tr_pos {p : LeakyTanh ℝ} (h : Leaves.LeakyWF p) {x : ℝ} (hx : p.max_val ≤ x) :
    p.transform x = p.linear_grad * x + p.intercept := by
  have hxp : 0 < x := lt_of_lt_of_le h.m_pos hx
  have : p.max_val ≤ |x| := by rwa [abs_of_pos hxp]
  rw [Leaves.leaky_transform_def]; simp [this, jsign_pos hxp]

theorem leaky_tr_neg {p : LeakyTanh ℝ} (h : Leaves.LeakyWF p) {x : ℝ} (hx : x ≤ -p.max_val) :
    p.transform x = p.linear_grad * x - p.intercept := by
  have hxn : x < 0 := by linarith [h.m_pos]
  have : p.max_val ≤ |x| := by rw [abs_of_neg hxn]; linarith
  rw [Leaves.leaky_transform_def]; simp [this, jsign_neg hxn]; ring

theorem leaky_tr_mid {p : LeakyTanh ℝ} {x : ℝ} (hx : |x| < p.max_val) :
    p.transform x = Real.tanh x := by
  rw [Leaves.leaky_transform_def]; simp [not_le.mpr hx]

/-- on `(-m, m]` the map is `tanh` — at `m` because the value is matched -/
theorem leaky_tr_Ioc {p : LeakyTanh ℝ} (h : Leaves.LeakyWF p) {x : ℝ} (hx : x ∈ Ioc (-p.max_val) p.max_val) :
    p.transform x = Real.tanh x := by
  rcases eq_or_lt_of_le hx.2 with he | hl
  · rw [leaky_tr_pos h he.ge, h.icpt, he]; ring
  · exact leaky_tr_mid (abs_lt.mpr ⟨hx.1, hl⟩)

theorem leaky_tr_Ico {p : LeakyTanh ℝ} (h : Leaves.LeakyWF p) {x : ℝ} (hx : x ∈ Ico (-p.max_val) p.max_val) :
    p.transform x = Real.tanh x := by
  rcases eq_or_lt_of_le hx.1 with he | hl
  · rw [leaky_tr_neg h he.ge, h.icpt, ← he, Real.tanh_neg]; ring
  · exact leaky_tr_mid (abs_lt.mpr ⟨hl, hx.2⟩)

theorem leaky_hasDerivAt {p : LeakyTanh ℝ} (h : LeakyWF2 p) (x : ℝ) :
    HasDerivAt p.transform (leakyDeriv p x) x := by
  have hw := h.toLeakyWF
  have hm := hw.m_pos
  have hlinp : ∀ y, HasDerivAt (fun x => p.linear_grad * x + p.intercept) p.linear_grad y := fun y => by
    simpa using ((hasDerivAt_id y).const_mul p.linear_grad).add_const p.intercept
  have hlinn : ∀ y, HasDerivAt (fun x => p.linear_grad * x - p.intercept) p.linear_grad y := fun y => by
    simpa using ((hasDerivAt_id y).const_mul p.linear_grad).sub_const p.intercept
  unfold leakyDeriv
  by_cases hx : p.max_val ≤ |x|
  · rw [if_pos hx]
    rcases le_abs.mp hx with hxp | hxn
    · rcases eq_or_lt_of_le hxp with he | hl
      · -- switch point x = m: tanh on (-m, m], linear on [m, ∞), equal value and slope
        have hs : Ioc (-p.max_val) p.max_val ∪ Ici p.max_val ∈ 𝓝 x := by
          rw [Ioc_union_Ici_eq_Ioi (by linarith)]; exact Ioi_mem_nhds (by linarith)
        have h1 : HasDerivWithinAt p.transform p.linear_grad (Ioc (-p.max_val) p.max_val) x := by
          rw [← he]
          have := (hasDerivAt_tanh p.max_val).hasDerivWithinAt (s := Ioc (-p.max_val) p.max_val)
          rw [← h.slope] at this
          exact this.congr (fun y hy => leaky_tr_Ioc hw hy) (leaky_tr_Ioc hw ⟨by linarith, le_refl _⟩)
        have h2 : HasDerivWithinAt p.transform p.linear_grad (Ici p.max_val) x :=
          ((hlinp x).hasDerivWithinAt).congr (fun y hy => leaky_tr_pos hw hy) (leaky_tr_pos hw hxp)
        exact (h1.union h2).hasDerivAt hs
      · have : p.transform =ᶠ[𝓝 x] fun x => p.linear_grad * x + p.intercept := by
          filter_upwards [Ioi_mem_nhds hl] with y hy using leaky_tr_pos hw (le_of_lt hy)
        exact (hlinp x).congr_of_eventuallyEq this
    · have hxn' : x ≤ -p.max_val := by linarith
      rcases eq_or_lt_of_le hxn' with he | hl
      · -- switch point x = -m
        have hs : Iic (-p.max_val) ∪ Ico (-p.max_val) p.max_val ∈ 𝓝 x := by
          rw [Iic_union_Ico_eq_Iio (by linarith)]; exact Iio_mem_nhds (by linarith)
        have h1 : HasDerivWithinAt p.transform p.linear_grad (Ico (-p.max_val) p.max_val) x := by
          have := (hasDerivAt_tanh x).hasDerivWithinAt (s := Ico (-p.max_val) p.max_val)
          rw [he, Real.tanh_neg, neg_sq, ← h.slope] at this
          rw [he]
          exact this.congr (fun y hy => leaky_tr_Ico hw hy) (leaky_tr_Ico hw ⟨le_refl _, by linarith⟩)
        have h2 : HasDerivWithinAt p.transform p.linear_grad (Iic (-p.max_val)) x :=
          ((hlinn x).hasDerivWithinAt).congr (fun y hy => leaky_tr_neg hw hy) (leaky_tr_neg hw hxn')
        exact (h2.union h1).hasDerivAt hs
      · have : p.transform =ᶠ[𝓝 x] fun x => p.linear_grad * x - p.intercept := by
          filter_upwards [Iio_mem_nhds hl] with y hy using leaky_tr_neg hw (le_of_lt hy)
        exact (hlinn x).congr_of_eventuallyEq this
  · rw [if_neg hx]
    have hlt := abs_lt.mp (not_le.mp hx)
    have : p.transform =ᶠ[𝓝 x] Real.tanh := by
      filter_upwards [Ioo_mem_nhds hlt.1 hlt.2] with y hy using leaky_tr_mid (abs_lt.mpr hy)
    exact (hasDerivAt_tanh x).congr_of_eventuallyEq this

theorem leakyDeriv_pos {p : LeakyTanh ℝ} (h : Leaves.LeakyWF p) (x : ℝ) : 0 < leakyDeriv p x := by
  unfold leakyDeriv; split
  · exact h.g_pos
  · exact one_sub_tanh_sq_pos x

theorem leakytanh_ld_wf {p : LeakyTanh ℝ} (h : LeakyWF2 p) :
    (p.toBij : Bij ℝ C ℝ).LdCorrectWith univ (leakyDeriv p) := by
  intro x _ c
  refine ⟨leaky_hasDerivAt h x, (leakyDeriv_pos h.toLeakyWF x).ne', ?_⟩
  rw [abs_of_pos (leakyDeriv_pos h.toLeakyWF x)]
  simp only [LeakyTanh.toBij, LeakyTanh.transform_and_log_det, leakyDeriv, jabs_eq, ge_iff_le,
    sumElem_eq, log_eq]
  by_cases hx : p.max_val ≤ |x|
  · simp [hx]
  · simp [hx, tanhLogGrad_eq]

theorem leakytanh_ld {m : ℝ} (hm : 0 < m) :
    ((LeakyTanh.init m).toBij : Bij ℝ C ℝ).LdCorrectWith univ (leakyDeriv (LeakyTanh.init m)) :=
  leakytanh_ld_wf (leaky_init_wf2 hm)

/-- `leakytanh_ld` with the derivative spelled out in terms of `m` only -/
theorem leakytanh_ld' {m : ℝ} (hm : 0 < m) :
    ((LeakyTanh.init m).toBij : Bij ℝ C ℝ).LdCorrectWith univ
      (fun x => if m ≤ |x| then 1 - Real.tanh m ^ 2 else 1 - Real.tanh x ^ 2) := by
  have h := leakytanh_ld (C := C) hm
  have e : leakyDeriv (LeakyTanh.init m)
      = fun x => if m ≤ |x| then 1 - Real.tanh m ^ 2 else 1 - Real.tanh x ^ 2 := by
    funext x; unfold leakyDeriv; rw [leaky_linear_grad_eq]; rfl
  rwa [e] at h

/-! ### Leaves: the log-det returned with the inverse is minus the forward one at the preimage -/

theorem affine_ld_antisym (p : Affine ℝ) : (p.toBij : Bij ℝ C ℝ).LdAntisym univ := fun _ _ _ => rfl
theorem loc_ld_antisym (p : Loc ℝ) : (p.toBij : Bij ℝ C ℝ).LdAntisym univ := by
  intro x _ c; simp [Loc.toBij, Loc.inverse_and_log_det, Loc.transform_and_log_det]
theorem scale_ld_antisym (p : Scale ℝ) : (p.toBij : Bij ℝ C ℝ).LdAntisym univ := fun _ _ _ => rfl

theorem exp_ld_antisym : (Exp.toBij : Bij ℝ C ℝ).LdAntisym univ := by
  intro x _ c
  simp [Exp.toBij, Exp.inverse_and_log_det, Exp.transform_and_log_det, Exp.transform]

theorem softplus_ld_antisym : (SoftPlus.toBij : Bij ℝ C ℝ).LdAntisym univ := by
  intro x _ c
  simp only [SoftPlus.toBij, SoftPlus.inverse_and_log_det, SoftPlus.transform_and_log_det]
  rw [Leaves.softplus_inv_softplus x]; simp

theorem tanh_ld_antisym : (Tanh.toBij : Bij ℝ C ℝ).LdAntisym univ := by
  intro x _ c
  simp [Tanh.toBij, Tanh.inverse_and_log_det, Tanh.transform_and_log_det, Tanh.transform,
    Real.artanh_tanh]

theorem leakytanh_ld_antisym_wf {p : LeakyTanh ℝ} (h : Leaves.LeakyWF p) :
    (p.toBij : Bij ℝ C ℝ).LdAntisym univ := by
  intro x _ c
  have hag := Leaves.leaky_branch_agree h x
  have hl := Leaves.leaky_left h x
  simp only [LeakyTanh.toBij, LeakyTanh.inverse_and_log_det, LeakyTanh.transform_and_log_det,
    jabs_eq, ge_iff_le, sumElem_eq, tanh_eq, hl]
  by_cases hx : p.max_val ≤ |x|
  · simp [hx, hag.mp hx]
  · have : ¬ Real.tanh p.max_val ≤ |p.transform x| := fun hh => hx (hag.mpr hh)
    simp [hx, this]

theorem leakytanh_ld_antisym {m : ℝ} (hm : 0 < m) :
    ((LeakyTanh.init m).toBij : Bij ℝ C ℝ).LdAntisym univ :=
  leakytanh_ld_antisym_wf (Leaves.leaky_init_wf hm)

/-! ### Chain -/
section chain
variable {X : Type}

/-- Typed chain `b₀ : D → M₁`, `b₁ : M₁ → M₂`, …, `→ E` in which every child is lawful on its own
stage and satisfies `P` on its own stage. -/
inductive ChainAll (P : Bij X C ℝ → Set X → Prop) : List (Bij X C ℝ) → Set X → Set X → Prop
  | nil (D : Set X) : ChainAll P [] D D
  | cons {b : Bij X C ℝ} {bs : List (Bij X C ℝ)} {D M E : Set X} :
      b.Lawful D M → P b D → ChainAll P bs M E → ChainAll P (b :: bs) D E

theorem ChainAll.lawful {P : Bij X C ℝ → Set X → Prop} {bs : List (Bij X C ℝ)} {D E : Set X}
    (h : ChainAll P bs D E) : ChainLawful bs D E := by
  induction h with
  | nil D => exact .nil D
  | cons hb _ _ ih => exact .cons hb ih

private def stepF (c : C) (st : X × ℝ) (b : Bij X C ℝ) : X × ℝ :=
  ((b.fwdLd st.1 c).1, st.2 + (b.fwdLd st.1 c).2)

private theorem fold_acc (c : C) (bs : List (Bij X C ℝ)) (x : X) (a : ℝ) :
    List.foldl (stepF c) (x, a) bs
      = ((List.foldl (stepF c) (x, 0) bs).1, a + (List.foldl (stepF c) (x, 0) bs).2) := by
  induction bs generalizing x a with
  | nil => simp
  | cons b bs ih =>
    simp only [List.foldl_cons, stepF]
    rw [ih _ (a + _), ih _ (0 + _)]
    simp only [Prod.mk.injEq, true_and]; ring

private theorem tld_eq_fold (bs : List (Bij X C ℝ)) (x : X) (c : C) :
    (Chain.mk bs).transform_and_log_det x c = List.foldl (stepF c) (x, 0) bs := by
  simp only [Chain.transform_and_log_det, sumElem_eq]
  rfl

theorem Chain.tld_nil (x : X) (c : C) :
    (Chain.mk ([] : List (Bij X C ℝ))).transform_and_log_det x c = (x, 0) := rfl

theorem ChainAll.imp {P Q : Bij X C ℝ → Set X → Prop} (hPQ : ∀ b D, P b D → Q b D)
    {bs : List (Bij X C ℝ)} {D E : Set X} (h : ChainAll P bs D E) : ChainAll Q bs D E := by
  induction h with
  | nil D => exact .nil D
  | cons hb hP _ ih => exact .cons hb (hPQ _ _ hP) ih

/-- the generated accumulation loop, one step unrolled: log-dets add up along the chain and each
child is evaluated at the point its predecessor returned -/
theorem Chain.tld_cons (b : Bij X C ℝ) (bs : List (Bij X C ℝ)) (x : X) (c : C) :
    (Chain.mk (b :: bs)).transform_and_log_det x c
      = (((Chain.mk bs).transform_and_log_det (b.fwdLd x c).1 c).1,
         (b.fwdLd x c).2 + ((Chain.mk bs).transform_and_log_det (b.fwdLd x c).1 c).2) := by
  rw [tld_eq_fold, tld_eq_fold, List.foldl_cons, stepF, fold_acc]
  simp

theorem Chain.ild_nil (y : X) (c : C) :
    (Chain.mk ([] : List (Bij X C ℝ))).inverse_and_log_det y c = (y, 0) := rfl

theorem Chain.ild_cons (b : Bij X C ℝ) (bs : List (Bij X C ℝ)) (y : X) (c : C) :
    (Chain.mk (b :: bs)).inverse_and_log_det y c
      = ((b.invLd ((Chain.mk bs).inverse_and_log_det y c).1 c).1,
         ((Chain.mk bs).inverse_and_log_det y c).2
           + (b.invLd ((Chain.mk bs).inverse_and_log_det y c).1 c).2) := by
  simp only [Chain.inverse_and_log_det, List.reverse_cons, List.foldl_append, List.foldl_cons,
    List.foldl_nil, sumElem_eq]

/-- **Chain rule for the generated `Chain`**: any length (children may themselves be chains or
inverts, so any tree). -/
theorem chain_ld {bs : List (Bij ℝ C ℝ)} {D E : Set ℝ} (h : ChainAll Bij.LdCorrect bs D E) :
    (Chain.mk bs).toBij.LdCorrect D := by
  induction h with
  | nil D =>
    intro x _ c
    refine ⟨1, ?_, one_ne_zero, ?_⟩
    · simpa [Chain.toBij] using hasDerivAt_id' x
    · simp [Chain.toBij, Chain.tld_nil]
  | @cons b bs D M E hb hP hbs ih =>
    intro x hx c
    obtain ⟨d1, hd1, hne1, hl1⟩ := hP x hx c
    obtain ⟨d2, hd2, hne2, hl2⟩ := ih (b.fwd x c) (hb.maps x hx c) c
    refine ⟨d2 * d1, ?_, mul_ne_zero hne2 hne1, ?_⟩
    · simp only [Chain.toBij, Chain.transform_cons]
      simp only [Chain.toBij] at hd2
      exact HasDerivAt.comp x hd2 hd1
    · simp only [Chain.toBij] at hl2 ⊢
      rw [Chain.tld_cons, hb.fwdLd_fst, hl1, hl2, abs_mul,
        Real.log_mul (abs_ne_zero.mpr hne2) (abs_ne_zero.mpr hne1)]
      ring

/-- the inverse pass of the generated `Chain` returns minus the forward log-det at the preimage -/
theorem chain_ld_antisym {bs : List (Bij X C ℝ)} {D E : Set X} (h : ChainAll Bij.LdAntisym bs D E) :
    (Chain.mk bs).toBij.LdAntisym D := by
  induction h with
  | nil D => intro x _ c; simp [Chain.toBij, Chain.tld_nil, Chain.ild_nil]
  | @cons b bs D M E hb hP hbs ih =>
    intro x hx c
    have hL := Gen.chain_lawful hbs.lawful
    have hy := hb.maps x hx c
    have ih' := ih (b.fwd x c) hy c
    simp only [Chain.toBij] at ih' hL ⊢
    rw [Chain.transform_cons, Chain.ild_cons, Chain.tld_cons, hb.fwdLd_fst]
    have h1 : ((Chain.mk bs).inverse_and_log_det ((Chain.mk bs).transform (b.fwd x c) c) c).1
        = b.fwd x c := by
      have := hL.invLd_fst ((Chain.mk bs).transform (b.fwd x c) c) c
      rw [this]
      exact hL.left _ hy c
    rw [h1, ih', hP x hx c]
    ring

end chain

/-! ### Invert -/

/-- One-dimensional inverse function theorem, the part Mathlib's `HasDerivAt.of_local_left_inverse`
asks for as hypotheses: if `f` has a non-zero derivative at `x`, is continuous on a neighbourhood
`s` of `x`, and `g` undoes `f` on `s`, then `g` is continuous at `f x` and `f ∘ g = id` near `f x`. -/
theorem local_inverse_aux {f g : ℝ → ℝ} {x d : ℝ} {s : Set ℝ} (hs : s ∈ 𝓝 x)
    (hd : HasDerivAt f d x) (hne : d ≠ 0) (hc : ContinuousOn f s) (hl : ∀ x' ∈ s, g (f x') = x') :
    ContinuousAt g (f x) ∧ ∀ᶠ y in 𝓝 (f x), f (g y) = y := by
  have hsl : ∀ᶠ x' in 𝓝[≠] x, 0 < slope f x x' * d := by
    have h1 := (hasDerivAt_iff_tendsto_slope.mp hd).mul_const d
    exact h1.eventually_const_lt (mul_self_pos.mpr hne)
  rw [eventually_nhdsWithin_iff] at hsl
  obtain ⟨ε, hε, hball⟩ := Metric.eventually_nhds_iff.mp (hsl.and hs)
  have key : ∀ h, 0 < h → h < ε →
      ∀ᶠ y in 𝓝 (f x), ∃ x' ∈ Icc (x - h) (x + h), x' ∈ s ∧ f x' = y := by
    intro h h0 hε'
    have hsub : Icc (x - h) (x + h) ⊆ s := fun x' hx' =>
      (hball (y := x') (by
        rw [Real.dist_eq]; exact abs_lt.mpr ⟨by linarith [hx'.1], by linarith [hx'.2]⟩)).2
    have hA : 0 < (f (x + h) - f x) * d := by
      have := (hball (y := x + h) (by
        rw [Real.dist_eq]; exact abs_lt.mpr ⟨by linarith, by linarith⟩)).1 (by simp [h0.ne'])
      rw [slope_def_field, show x + h - x = h by ring] at this
      have h2 : 0 < ((f (x + h) - f x) / h * d) * h := mul_pos this h0
      have e2 : ((f (x + h) - f x) / h * d) * h = (f (x + h) - f x) * d := by field_simp
      linarith
    have hB : (f (x - h) - f x) * d < 0 := by
      have := (hball (y := x - h) (by
        rw [Real.dist_eq]; exact abs_lt.mpr ⟨by linarith, by linarith⟩)).1 (by simp [h0.ne'])
      rw [slope_def_field, show x - h - x = -h by ring] at this
      have h2 : 0 < ((f (x - h) - f x) / (-h) * d) * h := mul_pos this h0
      have e2 : ((f (x - h) - f x) / (-h) * d) * h = -((f (x - h) - f x) * d) := by field_simp
      linarith
    have hmem : uIcc (f (x - h)) (f (x + h)) ∈ 𝓝 (f x) := by
      rcases lt_or_gt_of_ne hne with hneg | hpos
      · have hA' : f (x + h) - f x < 0 := by nlinarith
        have hB' : 0 < f (x - h) - f x := by nlinarith
        rw [uIcc_of_ge (by linarith)]; exact Icc_mem_nhds (by linarith) (by linarith)
      · have hA' : 0 < f (x + h) - f x := by nlinarith
        have hB' : f (x - h) - f x < 0 := by nlinarith
        rw [uIcc_of_le (by linarith)]; exact Icc_mem_nhds (by linarith) (by linarith)
    have hle : x - h ≤ x + h := by linarith
    have hiv := intermediate_value_uIcc (a := x - h) (b := x + h) (f := f)
      (hc.mono (by rw [uIcc_of_le hle]; exact hsub))
    filter_upwards [hmem] with y hy
    obtain ⟨x', hx', rfl⟩ := hiv hy
    rw [uIcc_of_le hle] at hx'
    exact ⟨x', hx', hsub hx', rfl⟩
  have hx : x ∈ s := mem_of_mem_nhds hs
  constructor
  · rw [ContinuousAt, Metric.tendsto_nhds]
    intro δ hδ
    have hm : 0 < min δ ε / 2 := by positivity
    have hm1 : min δ ε / 2 < ε := by linarith [min_le_right δ ε]
    have hm2 : min δ ε / 2 < δ := by linarith [min_le_left δ ε]
    filter_upwards [key _ hm hm1] with y hy
    obtain ⟨x', hx', hxs, hy⟩ := hy
    rw [← hy, hl x' hxs, hl x hx, Real.dist_eq]
    exact abs_lt.mpr ⟨by linarith [hx'.1], by linarith [hx'.2]⟩
  · filter_upwards [key (ε / 2) (by positivity) (by linarith)] with y hy
    obtain ⟨x', _, hxs, hy⟩ := hy
    rw [← hy, hl x' hxs]

/-- **Invert**: if `b : D ↔ E` is lawful with `D` open and its forward log-det is correct and
antisymmetric, then the generated `Invert b` (forward = `b.inv`, log-det = the one `b` returns with
its inverse) has a correct log-det on `E`: the derivative of the inverse exists (inverse function
theorem) and is `1/d`. -/
theorem invert_ld {b : Bij ℝ C ℝ} {D E : Set ℝ} (hD : IsOpen D) (hL : b.Lawful D E)
    (hC : b.LdCorrect D) (hA : b.LdAntisym D) : (Invert.mk b).toBij.LdCorrect E := by
  intro y hy c
  have hx : b.inv y c ∈ D := hL.mapsInv y hy c
  have hfx : b.fwd (b.inv y c) c = y := hL.right y hy c
  obtain ⟨d, hd, hne, hl⟩ := hC _ hx c
  have hcont : ContinuousOn (fun x => b.fwd x c) D := fun x' hx' => by
    obtain ⟨d', hd', -⟩ := hC x' hx' c
    exact hd'.continuousAt.continuousWithinAt
  obtain ⟨hg, hr⟩ := local_inverse_aux (g := fun y => b.inv y c) (hD.mem_nhds hx) hd hne hcont
    (fun x' hx' => hL.left x' hx' c)
  simp only [hfx] at hg hr
  refine ⟨d⁻¹, ?_, inv_ne_zero hne, ?_⟩
  · exact HasDerivAt.of_local_left_inverse hg hd hne hr
  · have := hA _ hx c
    rw [hfx] at this
    simp only [Invert.toBij, Invert.transform_and_log_det]
    rw [this, hl, abs_inv, Real.log_inv]

theorem invert_ld_antisym {X : Type} {b : Bij X C ℝ} {D E : Set X} (hL : b.Lawful D E)
    (hA : b.LdAntisym D) : (Invert.mk b).toBij.LdAntisym E := by
  intro y hy c
  have := hA _ (hL.mapsInv y hy c) c
  rw [hL.right y hy c] at this
  simp only [Invert.toBij, Invert.transform, Invert.inverse_and_log_det, Invert.transform_and_log_det]
  rw [this]; ring

/-! ### Elementwise lifting: diagonal Jacobian -/

/-- the log-det the lifting returns is the sum of the children's log-dets (`.sum()` in the code) -/
theorem elementwise_ld_sum (bs : List (Bij ℝ C ℝ)) (xs : List ℝ) (c : C) :
    ((Bij.elementwise bs).fwdLd xs c).2 = (List.zipWith (fun b x => (b.fwdLd x c).2) bs xs).sum := by
  simp only [Bij.elementwise]
  rw [List.sum_eq_foldl]

theorem elementwise_inv_ld_sum (bs : List (Bij ℝ C ℝ)) (ys : List ℝ) (c : C) :
    ((Bij.elementwise bs).invLd ys c).2 = (List.zipWith (fun b y => (b.invLd y c).2) bs ys).sum := by
  simp only [Bij.elementwise]
  rw [List.sum_eq_foldl]

/-- log |det| of a diagonal matrix with non-zero entries is the sum of the logs -/
theorem diag_logdet {n : ℕ} (d : Fin n → ℝ) (h : ∀ i, d i ≠ 0) :
    Real.log |(Matrix.diagonal d).det| = ∑ i, Real.log |d i| := by
  rw [Matrix.det_diagonal, Finset.abs_prod, Real.log_prod (fun i _ => abs_ne_zero.mpr (h i))]

theorem zipWith_ofFn {β γ δ : Type} {n : ℕ} (f : β → γ → δ) (a : Fin n → β) (b : Fin n → γ) :
    List.zipWith f (List.ofFn a) (List.ofFn b) = List.ofFn (fun i => f (a i) (b i)) := by
  apply List.ext_getElem <;> simp

/-- coordinates of the lifted forward map: output `i` is child `i` applied to input `i` -/
theorem elementwise_fwd_ofFn {n : ℕ} (fs : Fin n → Bij ℝ C ℝ) (w : Fin n → ℝ) (c : C) :
    (Bij.elementwise (List.ofFn fs)).fwd (List.ofFn w) c = List.ofFn (fun i => (fs i).fwd (w i) c) := by
  simp only [Bij.elementwise]; exact zipWith_ofFn _ fs w

theorem elementwise_fwdLd_fst {n : ℕ} (fs : Fin n → Bij ℝ C ℝ) (w : Fin n → ℝ) (c : C)
    (h : ∀ i x, ((fs i).fwdLd x c).1 = (fs i).fwd x c) :
    ((Bij.elementwise (List.ofFn fs)).fwdLd (List.ofFn w) c).1
      = (Bij.elementwise (List.ofFn fs)).fwd (List.ofFn w) c := by
  simp only [Bij.elementwise, zipWith_ofFn, h]

/-- **Elementwise lifting of `n` scalar bijections** (every length-`n` list is `List.ofFn` of its
entries): if each child's derivative at its own coordinate is `d i ≠ 0` and the child's returned
log-det is `log |d i|`, then the lifted forward map — in coordinates `w ↦ (i ↦ (fs i).fwd (w i))`
by `elementwise_fwd_ofFn` — has Fréchet derivative `J = diag d` at `v`, `det J ≠ 0`, and the
log-det the lifting returns is `log |det J|`. -/
theorem elementwise_ld {n : ℕ} (fs : Fin n → Bij ℝ C ℝ) (v : Fin n → ℝ) (c : C) (d : Fin n → ℝ)
    (hd : ∀ i, HasDerivAt (fun t => (fs i).fwd t c) (d i) (v i)) (hne : ∀ i, d i ≠ 0)
    (hl : ∀ i, ((fs i).fwdLd (v i) c).2 = Real.log |d i|) :
    ∃ J : (Fin n → ℝ) →L[ℝ] (Fin n → ℝ),
      HasFDerivAt (fun (w : Fin n → ℝ) (i : Fin n) => (fs i).fwd (w i) c) J v ∧
      J = LinearMap.toContinuousLinearMap (Matrix.toLin' (Matrix.diagonal d)) ∧
      J.det ≠ 0 ∧
      ((Bij.elementwise (List.ofFn fs)).fwdLd (List.ofFn v) c).2 = Real.log |J.det| := by
  have hdet : (LinearMap.toContinuousLinearMap (Matrix.toLin' (Matrix.diagonal d))).det
      = ∏ i, d i := by
    rw [LinearMap.det_toContinuousLinearMap, LinearMap.det_toLin', Matrix.det_diagonal]
  refine ⟨_, ?_, rfl, ?_, ?_⟩
  · rw [hasFDerivAt_pi']
    intro i
    have h1 : HasFDerivAt (fun w : Fin n → ℝ => w i) (ContinuousLinearMap.proj (R := ℝ) i) v :=
      (ContinuousLinearMap.proj (R := ℝ) (φ := fun _ : Fin n => ℝ) i).hasFDerivAt
    have h2 := (hd i).comp_hasFDerivAt v h1
    have e : (ContinuousLinearMap.proj (R := ℝ) (φ := fun _ : Fin n => ℝ) i).comp
        (LinearMap.toContinuousLinearMap (Matrix.toLin' (Matrix.diagonal d)))
        = d i • ContinuousLinearMap.proj (R := ℝ) (φ := fun _ : Fin n => ℝ) i := by
      ext w
      simp [Matrix.toLin'_apply, Matrix.mulVec_diagonal]
    rw [e]; exact h2
  · rw [hdet]; exact Finset.prod_ne_zero_iff.mpr (fun i _ => hne i)
  · rw [hdet, elementwise_ld_sum, zipWith_ofFn, List.sum_ofFn, Finset.abs_prod,
      Real.log_prod (fun i _ => abs_ne_zero.mpr (hne i))]
    exact Finset.sum_congr rfl (fun i _ => hl i)

/-- the lifted inverse returns minus the lifted forward log-det at the preimage when every child does -/
theorem elementwise_ld_antisym {n : ℕ} (fs : Fin n → Bij ℝ C ℝ) (v : Fin n → ℝ) (c : C)
    (h : ∀ i, ((fs i).invLd ((fs i).fwd (v i) c) c).2 = -((fs i).fwdLd (v i) c).2) :
    ((Bij.elementwise (List.ofFn fs)).invLd ((Bij.elementwise (List.ofFn fs)).fwd (List.ofFn v) c) c).2
      = -((Bij.elementwise (List.ofFn fs)).fwdLd (List.ofFn v) c).2 := by
  rw [elementwise_fwd_ofFn, elementwise_ld_sum, elementwise_inv_ld_sum, zipWith_ofFn, zipWith_ofFn,
    List.sum_ofFn, List.sum_ofFn, ← Finset.sum_neg_distrib]
  exact Finset.sum_congr rfl (fun i _ => h i)

end LogDet
