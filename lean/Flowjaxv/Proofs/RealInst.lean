import Mathlib.Analysis.SpecialFunctions.Log.Basic
import Mathlib.Analysis.SpecialFunctions.Sqrt
import Mathlib.Analysis.SpecialFunctions.Artanh
import Mathlib.Analysis.SpecialFunctions.Trigonometric.DerivHyp
import Flowjaxv.Prelude.Jnp
/-!
# The `ℝ` instance of the scalar interface and basic facts about the primitive specs
-/

noncomputable instance : Transc ℝ where
  exp := Real.exp
  log := Real.log
  tanh := Real.tanh
  artanh := Real.artanh
  sqrt := Real.sqrt
  softplus x := Real.log (1 + Real.exp x)
  expm1 x := Real.exp x - 1

namespace RealInst

@[simp] theorem exp_eq (x : ℝ) : (Transc.exp x : ℝ) = Real.exp x := rfl
@[simp] theorem log_eq (x : ℝ) : (Transc.log x : ℝ) = Real.log x := rfl
@[simp] theorem tanh_eq (x : ℝ) : (Transc.tanh x : ℝ) = Real.tanh x := rfl
@[simp] theorem artanh_eq (x : ℝ) : (Transc.artanh x : ℝ) = Real.artanh x := rfl
@[simp] theorem sqrt_eq (x : ℝ) : (Transc.sqrt x : ℝ) = Real.sqrt x := rfl
@[simp] theorem softplus_eq (x : ℝ) : (Transc.softplus x : ℝ) = Real.log (1 + Real.exp x) := rfl
@[simp] theorem expm1_eq (x : ℝ) : (Transc.expm1 x : ℝ) = Real.exp x - 1 := rfl

@[simp] theorem jabs_eq (x : ℝ) : Jnp.abs x = |x| := by
  unfold Jnp.abs
  split
  · rename_i h; rw [abs_of_neg h]
  · rename_i h; rw [abs_of_nonneg (not_lt.mp h)]

theorem jsign_pos {x : ℝ} (h : 0 < x) : Jnp.sign x = 1 := by
  unfold Jnp.sign; simp [not_lt.mpr h.le, h]
theorem jsign_neg {x : ℝ} (h : x < 0) : Jnp.sign x = -1 := by
  unfold Jnp.sign; simp [h]
@[simp] theorem jsign_zero : Jnp.sign (0 : ℝ) = 0 := by
  unfold Jnp.sign; simp

@[simp] theorem where_true {β : Type} (a b : β) : Jnp.where true a b = a := rfl
@[simp] theorem where_false {β : Type} (a b : β) : Jnp.where false a b = b := rfl
@[simp] theorem sumElem_eq (x : ℝ) : Jnp.sumElem x = x := rfl

end RealInst
