import Flowjaxv.Proofs.AdTheory
import Flowjaxv.Model.AdVec
/-!
# Arrays of reverse-mode expressions: evaluation and safety of the `Ad.Vec` combinators, any length
-/
set_option linter.unusedSimpArgs false
set_option linter.unusedVariables false
noncomputable section
open Classical Ad EF AdT

namespace AdV

/-- the expressions evaluate, in order, to the finite reals `rs` -/
def EvalsTo (env : Env EF) (es : List (Expr EF)) (rs : List ℝ) : Prop :=
  List.Forall₂ (fun e r => e.eval env = fin r) es rs

def SafeVec (env : Env EF) (es : List (Expr EF)) : Prop := ∀ e ∈ es, Safe env e

theorem EvalsTo.length_eq {env : Env EF} {es : List (Expr EF)} {rs : List ℝ} (h : EvalsTo env es rs) : es.length = rs.length :=
  List.Forall₂.length_eq h

theorem evalsTo_zip {env : Env EF} {op : Expr EF → Expr EF → Expr EF} {f : ℝ → ℝ → ℝ}
    (hop : ∀ a b x y, a.eval env = fin x → b.eval env = fin y → (op a b).eval env = fin (f x y)) :
    ∀ {as bs : List (Expr EF)} {xs ys : List ℝ}, EvalsTo env as xs → EvalsTo env bs ys →
      EvalsTo env (Vec.zip op as bs) (List.zipWith f xs ys)
  | _, _, _, _, .nil, _ => by simp [Vec.zip, EvalsTo]
  | _, _, _, _, .cons _ _, .nil => by simp [Vec.zip, EvalsTo]
  | _, _, _, _, .cons ha hta, .cons hb htb => by
      simp only [Vec.zip, List.zipWith_cons_cons]
      exact List.Forall₂.cons (hop _ _ _ _ ha hb) (evalsTo_zip hop hta htb)

theorem evalsTo_map {env env' : Env EF} {g : Expr EF → Expr EF} {f : ℝ → ℝ}
    (hg : ∀ a x, a.eval env' = fin x → (g a).eval env = fin (f x)) :
    ∀ {as : List (Expr EF)} {xs : List ℝ}, EvalsTo env' as xs → EvalsTo env (as.map g) (xs.map f)
  | _, _, .nil => by simp [EvalsTo]
  | _, _, .cons ha hta => List.Forall₂.cons (hg _ _ ha) (evalsTo_map hg hta)

theorem evalsTo_mapE {env env' : Env EF} {g : Expr EF → Expr EF}
    (hg : ∀ a x, a.eval env' = fin x → (g a).eval env = fin x) {as : List (Expr EF)} {xs : List ℝ}
    (h : EvalsTo env' as xs) : EvalsTo env (Vec.mapE g as) xs := by
  have := evalsTo_map (f := id) hg h
  simpa [Vec.mapE] using this

theorem foldl_add_eval {env : Env EF} : ∀ {es : List (Expr EF)} {rs : List ℝ} (acc : Expr EF) (a : ℝ),
    acc.eval env = fin a → EvalsTo env es rs → (es.foldl Expr.add acc).eval env = fin (a + rs.sum)
  | _, _, acc, a, hacc, .nil => by simpa using hacc
  | _, _, acc, a, hacc, .cons (a := e) (b := r) he hte => by
      simp only [List.foldl_cons, List.sum_cons]
      rw [foldl_add_eval (Expr.add acc e) (a + r) (by simp [Expr.eval, hacc, he]) hte]
      congr 1; ring

theorem sum_eval {env : Env EF} {es : List (Expr EF)} {rs : List ℝ} (h : EvalsTo env es rs) :
    (Vec.sum es).eval env = fin rs.sum := by
  cases h with
  | nil => simp [Vec.sum, Expr.eval]
  | cons he hte => simp only [Vec.sum, List.sum_cons]; exact foldl_add_eval _ _ he hte

theorem dot_eval {env : Env EF} {as bs : List (Expr EF)} {xs ys : List ℝ} (ha : EvalsTo env as xs) (hb : EvalsTo env bs ys) :
    (Vec.dot as bs).eval env = fin (List.zipWith (· * ·) xs ys).sum :=
  sum_eval (evalsTo_zip (f := (· * ·)) (fun a b x y hx hy => by simp [Expr.eval, hx, hy]) ha hb)

/-! ### safety -/
theorem safeVec_zip {env : Env EF} {op : Expr EF → Expr EF → Expr EF}
    (hop : ∀ a b, Safe env a → Safe env b → Safe env (op a b)) :
    ∀ {as bs : List (Expr EF)}, SafeVec env as → SafeVec env bs → SafeVec env (Vec.zip op as bs)
  | [], _, _, _ => by simp [Vec.zip, SafeVec]
  | _ :: _, [], _, _ => by simp [Vec.zip, SafeVec]
  | a :: as, b :: bs, ha, hb => by
      intro e he
      simp only [Vec.zip, List.zipWith_cons_cons, List.mem_cons] at he
      rcases he with rfl | he
      · exact hop _ _ (ha _ (List.mem_cons_self ..)) (hb _ (List.mem_cons_self ..))
      · exact safeVec_zip hop (fun e he => ha e (List.mem_cons_of_mem _ he)) (fun e he => hb e (List.mem_cons_of_mem _ he)) e he

theorem safeVec_map {env env' : Env EF} {g : Expr EF → Expr EF} (hg : ∀ a, Safe env' a → Safe env (g a))
    {as : List (Expr EF)} (h : SafeVec env' as) : SafeVec env (as.map g) := by
  intro e he
  obtain ⟨a, ha, rfl⟩ := List.mem_map.mp he
  exact hg a (h a ha)

theorem foldl_add_safe {env : Env EF} : ∀ {es : List (Expr EF)} (acc : Expr EF),
    Safe env acc → SafeVec env es → Safe env (es.foldl Expr.add acc)
  | [], _, hacc, _ => hacc
  | e :: es, acc, hacc, h =>
      foldl_add_safe (Expr.add acc e) ⟨hacc, h e (List.mem_cons_self ..)⟩ (fun e' he' => h e' (List.mem_cons_of_mem _ he'))

theorem sum_safe {env : Env EF} {es : List (Expr EF)} (h : SafeVec env es) : Safe env (Vec.sum es) := by
  cases es with
  | nil => simp [Vec.sum, Safe]
  | cons e es => exact foldl_add_safe e (h e (List.mem_cons_self ..)) (fun e' he' => h e' (List.mem_cons_of_mem _ he'))

theorem dot_safe {env : Env EF} {as bs : List (Expr EF)} (ha : SafeVec env as) (hb : SafeVec env bs) : Safe env (Vec.dot as bs) :=
  sum_safe (safeVec_zip (op := Expr.mul) (fun _ _ h1 h2 => ⟨h1, h2⟩) ha hb)

/-! ### a vector parameter read element by element -/
theorem resolveIdx_of_lt {len i : Nat} (h : i < len) : resolveIdx len (Int.ofNat i) = i := by
  unfold resolveIdx
  simp only [Int.ofNat_eq_natCast]
  have h1 : ¬ ((i : Int) < 0) := by omega
  have h2 : ¬ ((i : Int) ≥ (len : Int)) := by omega
  simp [h1, h2]

theorem get_eval {env : Env EF} {j : Nat} {ws : List ℝ} (hv : env.v j = ws.map fin) {i : Nat} (hi : i < ws.length) :
    (Expr.get j (fun _ => Int.ofNat i)).eval env = fin (ws[i]) := by
  simp only [Expr.eval, hv, List.length_map, resolveIdx_of_lt hi]
  rw [List.getD_eq_getElem?_getD, List.getElem?_map, List.getElem?_eq_getElem hi]; rfl

theorem ofVec_evalsTo {env : Env EF} {j d : Nat} {ws : List ℝ} (hv : env.v j = ws.map fin) (hd : ws.length = d) :
    EvalsTo env (Vec.ofVec j d) ws := by
  subst hd
  unfold EvalsTo Vec.ofVec
  rw [List.forall₂_iff_get]
  refine ⟨by simp, fun i h1 h2 => ?_⟩
  simp only [List.get_eq_getElem, List.getElem_map, List.getElem_range]
  exact get_eval hv h2

theorem ofVec_safe {env : Env EF} {j d : Nat} {ws : List ℝ} (hv : env.v j = ws.map fin) : SafeVec env (Vec.ofVec j d) := by
  intro e he
  obtain ⟨i, _, rfl⟩ := List.mem_map.mp he
  intro x hx
  rw [hv] at hx
  obtain ⟨r, _, rfl⟩ := List.mem_map.mp hx
  trivial

end AdV
end
