import Mathlib.Data.Set.Basic
import Mathlib.Tactic
import Flowjaxv.Model.ToBij
/-!
# Generic theory of `Bij` records: lawfulness and how the generated combinators preserve it
-/
set_option linter.unusedSectionVars false
open Gen

namespace Bij
variable {X C L : Type}

/-- C01 for one bijection: `fwd : D → E` and `inv : E → D` are mutually inverse, and the
point returned by the `…_and_log_det` variants equals the plain method's. -/
structure Lawful (b : Bij X C L) (D E : Set X) : Prop where
  maps : ∀ x ∈ D, ∀ c, b.fwd x c ∈ E
  mapsInv : ∀ y ∈ E, ∀ c, b.inv y c ∈ D
  left : ∀ x ∈ D, ∀ c, b.inv (b.fwd x c) c = x
  right : ∀ y ∈ E, ∀ c, b.fwd (b.inv y c) c = y
  fwdLd_fst : ∀ x c, (b.fwdLd x c).1 = b.fwd x c
  invLd_fst : ∀ y c, (b.invLd y c).1 = b.inv y c

/-- the log-det returned with the inverse is minus the forward one at the preimage -/
def LdAntisym [Neg L] (b : Bij X C L) (D : Set X) : Prop :=
  ∀ x ∈ D, ∀ c, (b.invLd (b.fwd x c) c).2 = -(b.fwdLd x c).2

theorem id_lawful [OfNat L 0] (D : Set X) : (Bij.id : Bij X C L).Lawful D D :=
  ⟨fun _ h _ => h, fun _ h _ => h, fun _ _ _ => rfl, fun _ _ _ => rfl, fun _ _ => rfl, fun _ _ => rfl⟩

end Bij

namespace Gen
variable {X C : Type}

/-! ### Chain: unfolding lemmas (hold at every scalar type with `0 + a = a`-free statements) -/
section chain
variable {α : Type} [Add α] [Neg α] [OfNat α 0]

@[simp] theorem Chain.transform_nil (x : X) (c : C) : (Chain.mk ([] : List (Bij X C α))).transform x c = x := rfl
@[simp] theorem Chain.transform_cons (b : Bij X C α) (bs : List (Bij X C α)) (x : X) (c : C) :
    (Chain.mk (b :: bs)).transform x c = (Chain.mk bs).transform (b.fwd x c) c := by
  simp [Chain.transform]

theorem Chain.transform_append (as bs : List (Bij X C α)) (x : X) (c : C) :
    (Chain.mk (as ++ bs)).transform x c = (Chain.mk bs).transform ((Chain.mk as).transform x c) c := by
  simp [Chain.transform]

@[simp] theorem Chain.inverse_nil (y : X) (c : C) : (Chain.mk ([] : List (Bij X C α))).inverse y c = y := rfl
@[simp] theorem Chain.inverse_cons (b : Bij X C α) (bs : List (Bij X C α)) (y : X) (c : C) :
    (Chain.mk (b :: bs)).inverse y c = b.inv ((Chain.mk bs).inverse y c) c := by
  simp [Chain.inverse, List.foldl_append]

theorem Chain.inverse_append (as bs : List (Bij X C α)) (y : X) (c : C) :
    (Chain.mk (as ++ bs)).inverse y c = (Chain.mk as).inverse ((Chain.mk bs).inverse y c) c := by
  simp [Chain.inverse, List.foldl_append]

end chain

/-- Typed composability of a list of bijections: `b₀ : D → M₁`, `b₁ : M₁ → M₂`, … , `→ E`. -/
inductive ChainLawful {α : Type} : List (Bij X C α) → Set X → Set X → Prop
  | nil (D : Set X) : ChainLawful [] D D
  | cons {b : Bij X C α} {bs : List (Bij X C α)} {D M E : Set X} :
      b.Lawful D M → ChainLawful bs M E → ChainLawful (b :: bs) D E

section chainR
variable {α : Type} [Add α] [Neg α] [OfNat α 0]

private theorem tld_fold_fst (bs : List (Bij X C α)) (c : C)
    (h : ∀ b ∈ bs, ∀ x, (b.fwdLd x c).1 = b.fwd x c) (x : X) (acc : α) :
    (List.foldl (fun (st : X × α) (b : Bij X C α) =>
        ((b.fwdLd st.1 c).1, st.2 + Jnp.sumElem (b.fwdLd st.1 c).2)) (x, acc) bs).1
      = List.foldl (fun x (b : Bij X C α) => b.fwd x c) x bs := by
  induction bs generalizing x acc with
  | nil => rfl
  | cons b bs ih =>
    simp only [List.foldl_cons]
    rw [ih (fun b' hb' => h b' (List.mem_cons_of_mem _ hb'))]
    rw [h b (List.mem_cons_self ..)]

theorem Chain.tld_fst (bs : List (Bij X C α)) (c : C)
    (h : ∀ b ∈ bs, ∀ x, (b.fwdLd x c).1 = b.fwd x c) (x : X) :
    ((Chain.mk bs).transform_and_log_det x c).1 = (Chain.mk bs).transform x c := by
  have := tld_fold_fst bs c h x (0 : α)
  simpa [Chain.transform_and_log_det, Chain.transform] using this

private theorem ild_fold_fst (bs : List (Bij X C α)) (c : C)
    (h : ∀ b ∈ bs, ∀ y, (b.invLd y c).1 = b.inv y c) (y : X) (acc : α) :
    (List.foldl (fun (st : X × α) (b : Bij X C α) =>
        ((b.invLd st.1 c).1, st.2 + Jnp.sumElem (b.invLd st.1 c).2)) (y, acc) bs).1
      = List.foldl (fun y (b : Bij X C α) => b.inv y c) y bs := by
  induction bs generalizing y acc with
  | nil => rfl
  | cons b bs ih =>
    simp only [List.foldl_cons]
    rw [ih (fun b' hb' => h b' (List.mem_cons_of_mem _ hb'))]
    rw [h b (List.mem_cons_self ..)]

theorem Chain.ild_fst (bs : List (Bij X C α)) (c : C)
    (h : ∀ b ∈ bs, ∀ y, (b.invLd y c).1 = b.inv y c) (y : X) :
    ((Chain.mk bs).inverse_and_log_det y c).1 = (Chain.mk bs).inverse y c := by
  have := ild_fold_fst bs.reverse c (fun b hb => h b (List.mem_reverse.mp hb)) y (0 : α)
  simpa [Chain.inverse_and_log_det, Chain.inverse] using this

theorem ChainLawful.mem_fst {bs : List (Bij X C α)} {D E : Set X} (h : ChainLawful bs D E) :
    ∀ b ∈ bs, (∀ x c, (b.fwdLd x c).1 = b.fwd x c) ∧ (∀ y c, (b.invLd y c).1 = b.inv y c) := by
  induction h with
  | nil => intro b hb; cases hb
  | cons hb _ ih =>
    intro b' hb'
    rcases List.mem_cons.mp hb' with rfl | h'
    · exact ⟨hb.fwdLd_fst, hb.invLd_fst⟩
    · exact ih b' h'

/-- **Chain preserves lawfulness**, for every length and therefore (children may themselves be
`Chain.toBij`, `Invert.toBij`, …) for every expression tree of any depth. -/
theorem chain_lawful {bs : List (Bij X C α)} {D E : Set X} (h : ChainLawful bs D E) :
    (Chain.mk bs).toBij.Lawful D E := by
  have hfst := h.mem_fst
  refine ⟨?_, ?_, ?_, ?_, ?_, ?_⟩
  · induction h with
    | nil => intro x hx c; simpa [Chain.toBij] using hx
    | cons hb _ ih =>
      intro x hx c
      simp only [Chain.toBij, Chain.transform_cons]
      exact ih (fun b' hb' => hfst b' (List.mem_cons_of_mem _ hb')) _ (hb.maps x hx c) c
  · induction h with
    | nil => intro y hy c; simpa [Chain.toBij] using hy
    | cons hb _ ih =>
      intro y hy c
      simp only [Chain.toBij, Chain.inverse_cons]
      exact hb.mapsInv _ (ih (fun b' hb' => hfst b' (List.mem_cons_of_mem _ hb')) y hy c) c
  · induction h with
    | nil => intro x _ c; simp [Chain.toBij]
    | cons hb hbs ih =>
      intro x hx c
      simp only [Chain.toBij, Chain.transform_cons, Chain.inverse_cons]
      have := ih (fun b' hb' => hfst b' (List.mem_cons_of_mem _ hb')) _ (hb.maps x hx c) c
      simp only [Chain.toBij] at this
      rw [this, hb.left x hx c]
  · induction h with
    | nil => intro y _ c; simp [Chain.toBij]
    | cons hb hbs ih =>
      intro y hy c
      simp only [Chain.toBij, Chain.transform_cons, Chain.inverse_cons]
      have hmem : (Chain.mk _).inverse y c ∈ _ :=
        (chain_lawful_mapsInv_aux hbs) y hy c
      rw [hb.right _ hmem c]
      have := ih (fun b' hb' => hfst b' (List.mem_cons_of_mem _ hb')) y hy c
      simpa [Chain.toBij] using this
  · intro x c
    exact Chain.tld_fst bs c (fun b hb x => (hfst b hb).1 x c) x
  · intro y c
    exact Chain.ild_fst bs c (fun b hb y => (hfst b hb).2 y c) y
where
  chain_lawful_mapsInv_aux {bs : List (Bij X C α)} {D E : Set X} (h : ChainLawful bs D E) :
      ∀ y ∈ E, ∀ c, (Chain.mk bs).inverse y c ∈ D := by
    induction h with
    | nil => intro y hy c; simpa using hy
    | cons hb _ ih =>
      intro y hy c
      simp only [Chain.inverse_cons]
      exact hb.mapsInv _ (ih y hy c) c

/-- **Invert swaps the two directions.** -/
theorem invert_lawful {b : Bij X C α} {D E : Set X} (h : b.Lawful D E) :
    (Invert.mk b).toBij.Lawful E D :=
  ⟨h.mapsInv, h.maps, h.right, h.left, h.invLd_fst, h.fwdLd_fst⟩

end chainR
end Gen
