import Flowjaxv.Proofs.MergeGen
/-!
# WHEN the regenerated `merge_chains` / `merge_transforms` return (`Gen/MergeGen.lean`)

Their only exceptions are those of the regenerated constructors (`Proofs/MergeGen.lean`).  Here: `Chain(bs)` accepts iff C13's
conditions hold on the members' declared shapes; `merge_chains` of ANY object built by the constructors (every nesting depth)
returns, with the same declared `shape` / `cond_shape`; `merge_transforms` of any nested distribution built by the constructors
whose bijections declare one common shape returns (the shape hypothesis is forced: `Transformed` never compares
`bijection.shape` with anything, `Chain.__init__` does).
-/
set_option linter.unusedSectionVars false
open Mw GenMerge PyShape PyCtor Gen

namespace MergeGen
variable {X C K α : Type}

/-- `Chain(bs)` returns `c` exactly when the regenerated `Chain.__init__` accepts the members' declared shapes: at least one
member, all shapes equal to `c.shape`, `merge_cond_shapes` of the condition shapes is `c.cond_shape` (C13) -/
theorem mkChain_ok_iff (bs : List (B X C α)) (c : ChainObj X C α) :
    Mw.mkChain bs = .ok c ↔
      c.bijections = bs ∧ (∃ rest, bs.map B.shape = c.shape :: rest ∧ ∀ t ∈ bs.map B.shape, t = c.shape) ∧
      ArgCheck.mergeCondShapes (bs.map B.cond_shape) = .ok c.cond_shape := by
  have h := CtorsGen.gen_chain_ctor_eq (bs.map B.toSB)
  simp only [List.map_map] at h
  have h1 : ((fun x : SB => x.shape) ∘ B.toSB : B X C α → Shape) = B.shape := rfl
  have h2 : ((fun x : SB => x.cond_shape) ∘ B.toSB : B X C α → Option Shape) = B.cond_shape := rfl
  rw [h1, h2] at h
  rw [← ArgCheck.chainCtor_ok_iff, ← h]
  unfold Mw.mkChain
  obtain ⟨cb, cs, cc⟩ := c
  cases GenCtors.Chain.init (bs.map B.toSB) with
  | error e => simp [Except.map]
  | ok f =>
    simp only [Except.map, Except.ok.injEq, ChainObj.mk.injEq, Prod.mk.injEq]
    constructor
    · rintro ⟨rfl, rfl, rfl⟩; exact ⟨rfl, rfl, rfl⟩
    · rintro ⟨rfl, rfl, rfl⟩; exact ⟨rfl, rfl, rfl⟩

/-- **when `merge_chains` returns**: iff the full flattening is non-empty, its members' declared shapes agree and their
condition shapes are compatible -/
theorem mergeChains_accepts_iff (c : ChainObj X C α) :
    (∃ c', Chain.mergeChains c = .ok c') ↔
      (∃ s rest, (B.flatL c.bijections).map B.shape = s :: rest ∧ ∀ t ∈ (B.flatL c.bijections).map B.shape, t = s) ∧
      ArgCheck.CondCompatible ((B.flatL c.bijections).map B.cond_shape) := by
  rw [mergeChains_eq, ← ArgCheck.mergeCondShapes_accepts_iff]
  constructor
  · rintro ⟨c', h⟩
    obtain ⟨-, ⟨rest, h1, h2⟩, h3⟩ := (mkChain_ok_iff _ _).1 h
    exact ⟨⟨_, rest, h1, h2⟩, _, h3⟩
  · rintro ⟨⟨s, rest, h1, h2⟩, r, h3⟩
    exact ⟨⟨_, s, r⟩, (mkChain_ok_iff _ _).2 ⟨rfl, ⟨rest, h1, h2⟩, h3⟩⟩

/-! ## objects built by the constructors -/

/-- `merge_cond_shapes l` returns `r` (C13's input/output specification) -/
def Merges (l : List (Option Shape)) (r : Option Shape) : Prop :=
  l ≠ [] ∧ ((r = none ∧ ∀ s ∈ l, s = none) ∨ ∃ c, r = some c ∧ some c ∈ l ∧ ∀ s ∈ l, s = none ∨ s = some c)

theorem merges_iff (l : List (Option Shape)) (r : Option Shape) : ArgCheck.mergeCondShapes l = .ok r ↔ Merges l r :=
  ArgCheck.mergeCondShapes_ok_iff l r

mutual
/-- every `Chain` node inside the object carries the fields `Chain.__init__` computes from its members -/
def WF : B X C α → Prop
  | .leaf .. => True
  | .chain bs s c => WFL bs ∧ bs ≠ [] ∧ (∀ b ∈ bs, b.shape = s) ∧ Merges (bs.map B.cond_shape) c
def WFL : List (B X C α) → Prop
  | [] => True
  | b :: bs => WF b ∧ WFL bs
end

theorem WFL_iff (l : List (B X C α)) : WFL l ↔ ∀ b ∈ l, WF b := by
  induction l with
  | nil => simp [WFL]
  | cons b bs ih => simp [WFL, ih]

/-- an object returned by the regenerated `Chain(...)` on well-formed members is well-formed -/
theorem WF_of_mkChain {bs : List (B X C α)} {c : ChainObj X C α} (h : Mw.mkChain bs = .ok c) (hbs : WFL bs) : WF c.toB := by
  obtain ⟨hb, ⟨rest, h1, h2⟩, h3⟩ := (mkChain_ok_iff _ _).1 h
  have hne : bs ≠ [] := by rintro rfl; simp at h1
  refine ⟨hb ▸ hbs, hb ▸ hne, ?_, ?_⟩
  · intro b hbm; rw [hb] at hbm; exact h2 _ (List.mem_map_of_mem hbm)
  · rw [hb]; exact (merges_iff _ _).1 h3

theorem mem_flatL {x : B X C α} {l : List (B X C α)} : x ∈ B.flatL l ↔ ∃ b ∈ l, x ∈ B.flat b := by
  induction l with
  | nil => simp [B.flatL]
  | cons b bs ih => simp [B.flatL, ih]

/-- what the flattening of a well-formed object looks like: non-empty, the object's shape everywhere, condition shapes merging to
the object's -/
def FlatOK (b : B X C α) : Prop :=
  B.flat b ≠ [] ∧ (∀ x ∈ B.flat b, x.shape = b.shape) ∧ Merges ((B.flat b).map B.cond_shape) b.cond_shape

theorem merges_none_all {l : List (Option Shape)} (h : Merges l none) : ∀ s ∈ l, s = none := by
  rcases h.2 with ⟨-, h⟩ | ⟨c, hc, -, -⟩
  · exact h
  · cases hc

theorem merges_some {l : List (Option Shape)} {v : Shape} (h : Merges l (some v)) :
    some v ∈ l ∧ ∀ s ∈ l, s = none ∨ s = some v := by
  rcases h.2 with ⟨hc, -⟩ | ⟨c, hc, h1, h2⟩
  · cases hc
  · cases hc; exact ⟨h1, h2⟩

/-- flattening one level of members that are themselves `FlatOK` (associativity of `merge_cond_shapes` under concatenation) -/
theorem flatOK_combine (bs : List (B X C α)) (s : Shape) (c : Option Shape) (hP : ∀ b ∈ bs, FlatOK b) (hne : bs ≠ [])
    (hs : ∀ b ∈ bs, b.shape = s) (hm : Merges (bs.map B.cond_shape) c) :
    B.flatL bs ≠ [] ∧ (∀ x ∈ B.flatL bs, x.shape = s) ∧ Merges ((B.flatL bs).map B.cond_shape) c := by
  have hne' : B.flatL bs ≠ [] := by
    obtain ⟨b0, hb0⟩ := List.exists_mem_of_ne_nil bs hne
    obtain ⟨x, hx⟩ := List.exists_mem_of_ne_nil _ (hP b0 hb0).1
    exact List.ne_nil_of_mem (mem_flatL.2 ⟨b0, hb0, hx⟩)
  refine ⟨hne', ?_, ?_⟩
  · intro x hx
    obtain ⟨b, hb, hxb⟩ := mem_flatL.1 hx
    rw [(hP b hb).2.1 x hxb, hs b hb]
  · refine ⟨by simpa using hne', ?_⟩
    cases c with
    | none =>
      refine Or.inl ⟨rfl, ?_⟩
      intro y hy
      obtain ⟨x, hx, rfl⟩ := List.mem_map.1 hy
      obtain ⟨b, hb, hxb⟩ := mem_flatL.1 hx
      have hbn : b.cond_shape = none := merges_none_all hm _ (List.mem_map_of_mem hb)
      have := (hP b hb).2.2
      rw [hbn] at this
      exact merges_none_all this _ (List.mem_map_of_mem hxb)
    | some v =>
      obtain ⟨hv, hall⟩ := merges_some hm
      refine Or.inr ⟨v, rfl, ?_, ?_⟩
      · obtain ⟨b0, hb0, hb0v⟩ := List.mem_map.1 hv
        have := (hP b0 hb0).2.2
        rw [hb0v] at this
        obtain ⟨x, hx, hxv⟩ := List.mem_map.1 (merges_some this).1
        exact List.mem_map.2 ⟨x, mem_flatL.2 ⟨b0, hb0, hx⟩, hxv⟩
      · intro y hy
        obtain ⟨x, hx, rfl⟩ := List.mem_map.1 hy
        obtain ⟨b, hb, hxb⟩ := mem_flatL.1 hx
        have hbP := (hP b hb).2.2
        rcases hall _ (List.mem_map_of_mem hb) with hbn | hbv
        · rw [hbn] at hbP
          exact Or.inl (merges_none_all hbP _ (List.mem_map_of_mem hxb))
        · rw [hbv] at hbP
          exact (merges_some hbP).2 _ (List.mem_map_of_mem hxb)

mutual
theorem flat_wf : ∀ b : B X C α, WF b → FlatOK b
  | .leaf b s c, _ => by
    refine ⟨by simp [B.flat], by simp [B.flat, B.shape], ?_⟩
    refine ⟨by simp [B.flat], ?_⟩
    cases c with
    | none => exact Or.inl ⟨rfl, by simp [B.flat, B.cond_shape]⟩
    | some v => exact Or.inr ⟨v, rfl, by simp [B.flat, B.cond_shape], by simp [B.flat, B.cond_shape]⟩
  | .chain bs s c, h => by
    obtain ⟨hl, hne, hs, hm⟩ := h
    exact flatOK_combine bs s c (flatL_wf bs hl) hne hs hm
theorem flatL_wf : ∀ l : List (B X C α), WFL l → ∀ b ∈ l, FlatOK b
  | [], _ => by simp
  | b :: bs, h => by
    intro x hx
    rcases List.mem_cons.1 hx with hxb | hx
    · rw [hxb]; exact flat_wf b h.1
    · exact flatL_wf bs h.2 x hx
end

/-- **`merge_chains` of any chain built by the constructors returns** (every nesting depth), and the result declares the same
`shape` and `cond_shape` -/
theorem mergeChains_wf (c : ChainObj X C α) (h : WF c.toB) :
    ∃ c', Chain.mergeChains c = .ok c' ∧ c'.shape = c.shape ∧ c'.cond_shape = c.cond_shape := by
  obtain ⟨hne, hs, hm⟩ := flat_wf _ h
  refine ⟨⟨B.flatL c.bijections, c.shape, c.cond_shape⟩, ?_, rfl, rfl⟩
  rw [mergeChains_eq]
  refine (mkChain_ok_iff _ _).2 ⟨rfl, ?_, (merges_iff _ _).2 hm⟩
  have hs' : ∀ t ∈ (B.flatL c.bijections).map B.shape, t = c.shape := by
    intro t ht
    obtain ⟨x, hx, rfl⟩ := List.mem_map.1 ht
    exact hs x hx
  cases hf : B.flatL c.bijections with
  | nil => exact absurd hf hne
  | cons x xs =>
    rw [hf] at hs'
    exact ⟨xs.map B.shape, by simp [hs' x.shape (by simp)], hs'⟩

/-! ## nested distributions built by the constructors -/

/-- the declared `cond_shape` of the innermost (non-transformed) distribution -/
def rootCond : D X C K α → Option Shape
  | .base _ _ c => c
  | .transformed d _ => rootCond d

/-- every `Transformed` node passed `__check_init__`, every bijection is well-formed -/
def WFD : D X C K α → Prop
  | .base .. => True
  | .transformed d b => WFD d ∧ WF b ∧ ∃ t, Mw.mkTransformed d b = .ok t

/-- `merge_cond_shapes` of two compatible optional shapes -/
def join (cd x : Option Shape) : Option Shape :=
  match cd with
  | none => x
  | some a => some a

theorem merges_snoc {l : List (Option Shape)} {cd x : Option Shape} (h : Merges l cd)
    (hc : cd = none ∨ x = none ∨ cd = x) : Merges (l ++ [x]) (join cd x) := by
  refine ⟨by simp, ?_⟩
  cases cd with
  | none =>
    have hall := merges_none_all h
    cases x with
    | none => exact Or.inl ⟨rfl, by intro s hs; rcases List.mem_append.1 hs with hs | hs; exact hall s hs; simpa using hs⟩
    | some v =>
      refine Or.inr ⟨v, rfl, by simp, ?_⟩
      intro s hs
      rcases List.mem_append.1 hs with hs | hs
      · exact Or.inl (hall s hs)
      · right; simpa using hs
  | some a =>
    obtain ⟨ha, hall⟩ := merges_some h
    refine Or.inr ⟨a, rfl, List.mem_append_left _ ha, ?_⟩
    intro s hs
    rcases List.mem_append.1 hs with hs | hs
    · exact hall s hs
    · have hsx : s = x := by simpa using hs
      rcases hc with hc | hc | hc
      · cases hc
      · left; rw [hsx, hc]
      · right; rw [hsx, ← hc]

theorem merges_compat {l : List (Option Shape)} {r : Option Shape} (h : Merges l r) :
    ∀ a ∈ l, ∀ b ∈ l, a = none ∨ b = none ∨ a = b := by
  intro a ha b hb
  cases r with
  | none => exact Or.inl (merges_none_all h a ha)
  | some v =>
    have hall := (merges_some h).2
    rcases hall a ha with h1 | h1
    · exact Or.inl h1
    · rcases hall b hb with h2 | h2
      · exact Or.inr (Or.inl h2)
      · exact Or.inr (Or.inr (h1.trans h2.symm))

/-- `Transformed(d, b)` returns iff `d.cond_shape` does and `__check_init__` finds the two condition shapes compatible -/
theorem mkTransformed_ok_iff (d : D X C K α) (b : B X C α) :
    (∃ t, Mw.mkTransformed d b = .ok t) ↔
      ∃ cd, D.cond_shape d = .ok cd ∧ (cd = none ∨ b.cond_shape = none ∨ cd = b.cond_shape) := by
  unfold Mw.mkTransformed
  cases hcd : D.cond_shape d with
  | error e => simp
  | ok cd =>
    simp only [CtorsGen.gen_transformed_check_eq, B.toSB, ArgCheck.transformedCheckInit]
    cases cd with
    | none => simp
    | some a =>
      cases hb : b.cond_shape with
      | none => simp
      | some a' =>
        by_cases haa : a = a'
        · subst haa; simp
        · simp [haa]

theorem root_cond_shape (d : D X C K α) : D.cond_shape d.root = .ok (rootCond d) := by
  induction d with
  | base d s c => rfl
  | transformed d b ih => simpa [D.root, rootCond] using ih

theorem wfd_bijs (d : D X C K α) (h : WFD d) : ∀ b ∈ d.bijs, WF b := by
  induction d with
  | base d s c => simp [D.bijs]
  | transformed d b ih =>
    intro x hx
    rcases List.mem_append.1 hx with hx | hx
    · exact ih h.1 x hx
    · have : x = b := by simpa using hx
      rw [this]; exact h.2.1

/-- the `cond_shape` of a nested distribution built by the constructors never raises: it is the `merge_cond_shapes` of the root's
and all the bijections' condition shapes -/
theorem condShape_wfd (d : D X C K α) (h : WFD d) :
    ∃ r, D.cond_shape d = .ok r ∧ Merges (rootCond d :: d.bijs.map B.cond_shape) r := by
  induction d with
  | base d s c =>
    refine ⟨c, rfl, by simp, ?_⟩
    cases c with
    | none => exact Or.inl ⟨rfl, by simp [rootCond, D.bijs]⟩
    | some v => exact Or.inr ⟨v, rfl, by simp [rootCond, D.bijs], by simp [rootCond, D.bijs]⟩
  | transformed d b ih =>
    obtain ⟨cd, hcd, hM⟩ := ih h.1
    obtain ⟨cd', hcd', hcompat⟩ := (mkTransformed_ok_iff d b).1 h.2.2
    have : cd' = cd := by rw [hcd] at hcd'; cases hcd'; rfl
    subst this
    refine ⟨join cd' b.cond_shape, ?_, ?_⟩
    · simp only [D.cond_shape, hcd, mergeCond_pair]
      cases cd' with
      | none => cases hb : b.cond_shape <;> simp [join, Mw.liftPy]
      | some a =>
        cases hb : b.cond_shape with
        | none => simp [join, Mw.liftPy]
        | some a' =>
          rw [hb] at hcompat
          have haa : a = a' := by simpa using hcompat
          subst haa; simp [join, Mw.liftPy]
    · have := merges_snoc hM hcompat
      simpa [rootCond, D.bijs, List.map_append] using this

/-- **`merge_transforms` of any nested distribution built by the constructors whose bijections declare one common shape returns**
(every nesting depth, nested chains inside the bijections included).  The shape hypothesis is forced by the code: `Transformed`
never compares `bijection.shape` with `base_dist.shape`, `Chain.__init__` does. -/
theorem mergeTransforms_wf (t : TObj X C K α) (h : WFD t.toD) (s : Shape) (hs : ∀ b ∈ t.toD.bijs, b.shape = s) :
    ∃ m, Transformed.mergeTransforms t = .ok m := by
  rw [mergeTransforms_eq]
  by_cases hT : t.base_dist.isTransformed = true
  swap
  · exact ⟨t, by simp [hT]⟩
  simp only [hT, Bool.not_true, Bool.false_eq_true, if_false]
  obtain ⟨r, -, hM⟩ := condShape_wfd _ h
  have hne : t.toD.bijs ≠ [] := by simp [TObj.toD, D.bijs]
  have hcompat := merges_compat hM
  have hcc : ArgCheck.CondCompatible (t.toD.bijs.map B.cond_shape) :=
    ⟨by simpa using hne, fun a ha b hb => hcompat a (List.mem_cons_of_mem _ ha) b (List.mem_cons_of_mem _ hb)⟩
  obtain ⟨r2, hr2⟩ := (ArgCheck.mergeCondShapes_accepts_iff _).2 hcc
  have hmk : Mw.mkChain t.toD.bijs = .ok ⟨t.toD.bijs, s, r2⟩ := by
    refine (mkChain_ok_iff _ _).2 ⟨rfl, ?_, hr2⟩
    have hs' : ∀ x ∈ t.toD.bijs.map B.shape, x = s := by
      intro x hx
      obtain ⟨b, hb, rfl⟩ := List.mem_map.1 hx
      exact hs b hb
    cases hf : t.toD.bijs with
    | nil => exact absurd hf hne
    | cons x xs =>
      rw [hf] at hs'
      exact ⟨xs.map B.shape, by simp [hs' x.shape (by simp)], hs'⟩
  have hwf : WF (ChainObj.toB ⟨t.toD.bijs, s, r2⟩) :=
    ⟨(WFL_iff _).2 (wfd_bijs _ h), hne, hs, (merges_iff _ _).1 hr2⟩
  obtain ⟨c', hc', hsh, hcs⟩ := mergeChains_wf _ hwf
  have hroot : ∃ m, Mw.mkTransformed t.base_dist.root c'.toB = .ok m := by
    refine (mkTransformed_ok_iff _ _).2 ⟨rootCond t.base_dist, root_cond_shape _, ?_⟩
    show rootCond t.base_dist = none ∨ c'.cond_shape = none ∨ rootCond t.base_dist = c'.cond_shape
    rw [hcs]
    show rootCond t.base_dist = none ∨ r2 = none ∨ rootCond t.base_dist = r2
    cases r2 with
    | none => exact Or.inr (Or.inl rfl)
    | some v =>
      have hv := (merges_some ((merges_iff _ _).1 hr2)).1
      have h1 : rootCond t.toD ∈ rootCond t.toD :: t.toD.bijs.map B.cond_shape := List.mem_cons_self ..
      rcases hcompat _ h1 _ (List.mem_cons_of_mem _ hv) with h2 | h2 | h2
      · exact Or.inl h2
      · cases h2
      · exact Or.inr (Or.inr h2)
  obtain ⟨m, hm⟩ := hroot
  exact ⟨m, by simp only [hmk, Except.bind, hc', hm]⟩

end MergeGen
