import Flowjaxv.Proofs.DistTheory
import Flowjaxv.Proofs.CtorsGen
import Flowjaxv.Model.ArrExt
import Flowjaxv.Gen.MergeGen
/-!
# The REGENERATED `merge_transforms`, `shape` / `cond_shape` of `AbstractTransformed`, and `Chain.__getitem__ / __len__ /
__iter__ / merge_chains` (`Gen/MergeGen.lean`) are the hand models, for every nesting depth

`Gen/MergeGen.lean` is translated on every run from `distributions.py` / `chain.py` (`tools/py2lean/py2meth.py`, sheet
`targets_merge.py`) over the meanings of `Model/MergeWorld.lean`.  Here: the two `while` loops never run out of fuel and compute
the full flattening / the outermost-first list of bijections; generated `merge_chains` = the regenerated constructor on the full
flattening; generated `merge_transforms` = `Transformed(root, Chain(flattened innermost-first bijections))`, which is the hand
`mergeTransforms`, hence (`merge_transforms_sem`) the same three methods as the nested distribution; `__getitem__` on ints
(negative included) and slices; `cond_shape` = the regenerated `merge_cond_shapes` of the two sides.
-/
set_option linter.unusedSectionVars false
open Mw GenMerge PyShape PyCtor Gen

namespace MergeGen
variable {X C K α : Type}

/-! ## `merge_chains`: the loop -/

/-- one pass of the `for b in bijections` loop of `merge_chains` on one member -/
def passB : B X C α → List (B X C α)
  | .chain bs _ _ => bs
  | .leaf b s c => [.leaf b s c]

theorem foldlM_append_ok {β γ : Type} {f : List β → γ → M (List β)} (g : γ → List β)
    (h : ∀ s x, f s x = .ok (s ++ g x)) (s : List β) (l : List γ) :
    Mw.foldlM f s l = .ok (s ++ l.flatMap g) := by
  induction l generalizing s with
  | nil => simp [Mw.foldlM]
  | cons x xs ih => simp [Mw.foldlM, h, ih]

theorem depthL_append (l₁ l₂ : List (B X C α)) : B.depthL (l₁ ++ l₂) = max (B.depthL l₁) (B.depthL l₂) := by
  induction l₁ with
  | nil => simp [B.depthL]
  | cons b bs ih => simp [B.depthL, ih, Nat.max_assoc]

theorem depthL_passB (b : B X C α) : B.depthL (passB b) = b.depth - 1 := by
  cases b <;> simp [passB, B.depthL, B.depth]

theorem depthL_pass (l : List (B X C α)) : B.depthL (l.flatMap passB) = B.depthL l - 1 := by
  induction l with
  | nil => simp [B.depthL]
  | cons b bs ih => simp only [List.flatMap_cons, depthL_append, depthL_passB, ih, B.depthL]; omega

theorem any_isChain (l : List (B X C α)) : l.any B.isChain = decide (0 < B.depthL l) := by
  induction l with
  | nil => simp [B.depthL]
  | cons b bs ih =>
    cases b with
    | leaf b s c => simp [B.depthL, B.depth, B.isChain, ih]
    | chain cs s c =>
      have : 0 < max (B.depthL cs + 1) (B.depthL bs) := by omega
      simp [B.depthL, B.depth, B.isChain, this]

theorem flatL_append (l₁ l₂ : List (B X C α)) : B.flatL (l₁ ++ l₂) = B.flatL l₁ ++ B.flatL l₂ := by
  induction l₁ with
  | nil => simp [B.flatL]
  | cons b bs ih => simp [B.flatL, ih]

theorem flatL_passB (b : B X C α) : B.flatL (passB b) = b.flat := by
  cases b <;> simp [passB, B.flatL, B.flat]

theorem flatL_pass (l : List (B X C α)) : B.flatL (l.flatMap passB) = B.flatL l := by
  induction l with
  | nil => simp [B.flatL]
  | cons b bs ih => simp [flatL_append, flatL_passB, ih, B.flatL]

theorem flatL_of_depth_zero (l : List (B X C α)) (h : B.depthL l = 0) : B.flatL l = l := by
  induction l with
  | nil => simp [B.flatL]
  | cons b bs ih =>
    cases b with
    | leaf b s c => simp [B.depthL, B.depth] at h; simp [B.flatL, B.flat, ih h]
    | chain cs s c => simp [B.depthL, B.depth] at h

/-- the `while any(isinstance(b, Chain) …)` loop: with at least `depth` units of fuel it ends with the FULL flattening -/
theorem whileFuel_flat {cond : List (B X C α) → Bool} {body : List (B X C α) → M (List (B X C α))}
    (hc : ∀ l, cond l = l.any B.isChain) (hb : ∀ l, body l = .ok (l.flatMap passB))
    (n : Nat) (l : List (B X C α)) (hn : B.depthL l ≤ n) :
    Mw.whileFuel cond body n l = .ok (B.flatL l) := by
  induction n generalizing l with
  | zero =>
    have h0 : B.depthL l = 0 := by omega
    simp [Mw.whileFuel, hc, any_isChain, h0, flatL_of_depth_zero]
  | succ n ih =>
    by_cases h0 : B.depthL l = 0
    · simp [Mw.whileFuel, hc, any_isChain, h0, flatL_of_depth_zero]
    · have hpos : 0 < B.depthL l := by omega
      simp only [Mw.whileFuel, hc, any_isChain, hpos, decide_true, if_true, hb]
      rw [ih _ (by rw [depthL_pass]; omega), flatL_pass]

/-- **generated `merge_chains` = the regenerated constructor applied to the full flattening** (every nesting depth; in
particular the loop never runs out of fuel, and the only exception is the constructor's) -/
theorem mergeChains_eq (c : ChainObj X C α) :
    Chain.mergeChains c = Mw.mkChain (B.flatL c.bijections) := by
  unfold Chain.mergeChains Mw.pyWhile
  simp only []
  rw [whileFuel_flat]
  · rfl
  · intro l; simp [List.any_map]
  · intro l
    rw [foldlM_append_ok passB]
    · simp [Except.bind]
    · intro s x; cases x <;> rfl
  · exact Nat.le_succ _

theorem mkChain_ok {bs : List (B X C α)} {c : ChainObj X C α} (h : Mw.mkChain bs = .ok c) : c.bijections = bs := by
  unfold Mw.mkChain at h
  split at h
  · cases h; rfl
  · cases h

/-! ## `merge_transforms`: the loop -/

/-- the `while isinstance(base_dist, AbstractTransformed)` loop: with at least `depth` units of fuel it ends at the root with
the bijections appended outermost first -/
theorem whileFuel_collect {cond : List (B X C α) × D X C K α → Bool}
    {body : List (B X C α) × D X C K α → M (List (B X C α) × D X C K α)}
    (hc : ∀ s, cond s = s.2.isTransformed)
    (hb : ∀ bs d b, body (bs, .transformed d b) = .ok (bs ++ [b], d))
    (n : Nat) (bs : List (B X C α)) (d : D X C K α) (hn : d.depth ≤ n) :
    Mw.whileFuel cond body n (bs, d) = .ok (bs ++ d.bijs.reverse, d.root) := by
  induction n generalizing bs d with
  | zero =>
    cases d with
    | base d s c => simp [Mw.whileFuel, hc, D.isTransformed, D.bijs, D.root]
    | transformed d b => simp [D.depth] at hn
  | succ n ih =>
    cases d with
    | base d s c => simp [Mw.whileFuel, hc, D.isTransformed, D.bijs, D.root]
    | transformed d b =>
      simp only [Mw.whileFuel, hc, D.isTransformed, if_true, hb]
      rw [ih _ _ (by simp [D.depth] at hn; omega)]
      simp [D.bijs, D.root]

/-- **generated `merge_transforms`, exactly**: unchanged when the base is not transformed; otherwise the regenerated
constructors applied to the root distribution and the `merge_chains` of the chain of all bijections, innermost first
(every nesting depth; the loop never runs out of fuel; the only exceptions are the constructors') -/
theorem mergeTransforms_eq (t : TObj X C K α) :
    Transformed.mergeTransforms t =
      if !t.base_dist.isTransformed then .ok t else
        (Mw.mkChain t.toD.bijs).bind fun c =>
          (Chain.mergeChains c).bind fun c' => Mw.mkTransformed t.base_dist.root c'.toB := by
  unfold Transformed.mergeTransforms Mw.pyWhile
  split
  · rfl
  · simp only []
    rw [whileFuel_collect]
    · simp [Except.bind, TObj.toD, D.bijs]
    · intro s; rfl
    · intro bs d b; rfl
    · exact Nat.le_succ _

/-! ## `__getitem__`, `__len__`, `__iter__` -/

theorem getitem_int (c : ChainObj X C α) (i : Int) : Chain.getitem c (.int i) = Mw.idxI c.bijections i := rfl

theorem getitem_slice (c : ChainObj X C α) (s : Slice) :
    Chain.getitem c (.slice s) = (Mw.sliceGet c.bijections s).bind fun l => (Mw.mkChain l).bind fun c' => .ok c'.toB := rfl

theorem getitem_other (c : ChainObj X C α) : Chain.getitem c .other = .error (.py .typeError) := rfl

theorem idxI_nonneg {β : Type} (l : List β) (i : Nat) (h : i < l.length) : Mw.idxI l (i : Int) = .ok l[i] := by
  simp [Mw.idxI, PyCtor.rangeGet, ArgCheck.normAxis, h]

theorem idxI_neg {β : Type} (l : List β) (k : Nat) (h0 : 0 < k) (h : k ≤ l.length) :
    Mw.idxI l (-(k : Int)) = .ok (l[l.length - k]'(by omega)) := by
  have h1 : ¬ (0 ≤ -(k : Int) ∧ -(k : Int) < (l.length : Int)) := by omega
  have h2 : -(k : Int) < 0 ∧ -(l.length : Int) ≤ -(k : Int) := by omega
  have h3 : ((l.length : Int) + -(k : Int)).toNat = l.length - k := by omega
  have h4 : l.length - k < l.length := by omega
  unfold Mw.idxI PyCtor.rangeGet ArgCheck.normAxis
  rw [if_neg h1, if_pos h2]
  simp only [h3]
  simp [h4]

theorem idxI_out {β : Type} (l : List β) (i : Int) (h : i < -(l.length : Int) ∨ (l.length : Int) ≤ i) :
    Mw.idxI l i = .error (.py .indexError) := by
  have h1 : ¬ (0 ≤ i ∧ i < (l.length : Int)) := by omega
  have h2 : ¬ (i < 0 ∧ -(l.length : Int) ≤ i) := by omega
  simp [Mw.idxI, PyCtor.rangeGet, ArgCheck.normAxis, h1, h2]

/-- `t[a:b]` / `t[a:]` / `t[:b]` / `t[:]` (step `None` or `1`): Python's clamped bounds, negative ones counted from the end -/
theorem sliceGet_step1 {β : Type} (l : List β) (a b : Option Int) (k : Option Int) (hk : k = none ∨ k = some 1) :
    Mw.sliceGet l ⟨a, b, k⟩ = .ok ((l.take (sliceHi l.length b)).drop (sliceLo l.length a)) := by
  rcases hk with rfl | rfl
  · rfl
  · rfl

theorem sliceGet_step0 {β : Type} (l : List β) (a b : Option Int) :
    Mw.sliceGet l ⟨a, b, some 0⟩ = .error (.py .valueError) := rfl

/-! ## what the objects compute: flattening and merging never change a method (ℝ) -/
section sem
variable {X C K : Type}

/-- two bijection records with pointwise equal methods are equal -/
theorem equiv_eq {a b : Bij X C ℝ} (h : a.Equiv b) : a = b := by
  obtain ⟨af, ai, afl, ail⟩ := a
  obtain ⟨bf, bi, bfl, bil⟩ := b
  have h1 : af = bf := funext fun x => funext fun c => h.fwd x c
  have h2 : ai = bi := funext fun x => funext fun c => h.inv x c
  have h3 : afl = bfl := funext fun x => funext fun c => h.fwdLd x c
  have h4 : ail = bil := funext fun x => funext fun c => h.invLd x c
  subst h1 h2 h3 h4; rfl

theorem toBijs_eq_map (l : List (B X C ℝ)) : B.toBijs l = l.map B.toBij := by
  induction l with
  | nil => rfl
  | cons b bs ih => simp [B.toBijs, ih]

theorem chain_single (b : Bij X C ℝ) : (Chain.mk [b]).toBij = b := by
  apply equiv_eq
  refine ⟨fun x c => ?_, fun x c => ?_, fun x c => ?_, fun x c => ?_⟩ <;>
    simp [Chain.toBij, Chain.transform, Chain.inverse, Chain.transform_and_log_det, Chain.inverse_and_log_det, Jnp.sumElem]

theorem chain_append_eq (as bs : List (Bij X C ℝ)) :
    (Chain.mk (as ++ bs)).toBij = (Chain.mk [(Chain.mk as).toBij, (Chain.mk bs).toBij]).toBij := by
  have h := equiv_eq (Gen.merge_chains_step [Item.chain as, Item.chain bs])
  simpa [Item.toBij, Item.flat] using h.symm

theorem chain_cons_eq (b : Bij X C ℝ) (bs : List (Bij X C ℝ)) :
    (Chain.mk [b, (Chain.mk bs).toBij]).toBij = (Chain.mk (b :: bs)).toBij := by
  have h := equiv_eq (Gen.merge_chains_step [Item.plain b, Item.chain bs])
  simpa [Item.toBij, Item.flat] using h

mutual
/-- a bijection object computes what the generated `Chain` of its leaves computes (all four methods), any nesting depth -/
theorem flat_eq : ∀ b : B X C ℝ, (Chain.mk ((B.flat b).map B.toBij)).toBij = b.toBij
  | .leaf b s c => by simp [B.flat, B.toBij, chain_single]
  | .chain bs s c => by rw [B.flat, B.toBij, toBijs_eq_map]; exact flatL_eq bs
/-- **flattening never changes a method**: the generated `Chain` of the fully flattened list = the generated `Chain` of the
(arbitrarily nested) list — `merge_chains_step` lifted to every depth -/
theorem flatL_eq : ∀ l : List (B X C ℝ), (Chain.mk ((B.flatL l).map B.toBij)).toBij = (Chain.mk (l.map B.toBij)).toBij
  | [] => by simp [B.flatL]
  | b :: bs => by
    rw [B.flatL, List.map_append, chain_append_eq, flat_eq b, flatL_eq bs, List.map_cons, chain_cons_eq]
end

mutual
theorem depth_flat : ∀ b : B X C α, B.depthL (B.flat b) = 0
  | .leaf b s c => by simp [B.flat, B.depthL, B.depth]
  | .chain bs s c => by rw [B.flat]; exact depthL_flatL bs
/-- the full flattening contains no `Chain` -/
theorem depthL_flatL : ∀ l : List (B X C α), B.depthL (B.flatL l) = 0
  | [] => by simp [B.flatL, B.depthL]
  | b :: bs => by rw [B.flatL, depthL_append, depth_flat b, depthL_flatL bs]; rfl
end

/-- **generated `merge_chains`, semantics**: whenever it returns, the result's members are the full flattening (no `Chain`
among them) and it computes the same four methods as the original chain -/
theorem mergeChains_sem (c c' : ChainObj X C ℝ) (h : Chain.mergeChains c = .ok c') :
    c'.bijections = B.flatL c.bijections ∧ c'.bijections.any B.isChain = false ∧ c'.toB.toBij = c.toB.toBij := by
  rw [mergeChains_eq] at h
  have hb := mkChain_ok h
  refine ⟨hb, ?_, ?_⟩
  · rw [hb, any_isChain, depthL_flatL]; rfl
  · simp only [ChainObj.toB, B.toBij, toBijs_eq_map, hb]
    exact flatL_eq _

theorem root_not_transformed (d : D X C K α) : d.root.isTransformed = false := by
  induction d with
  | base d s c => rfl
  | transformed d b ih => simpa [D.root] using ih

/-- a distribution object computes the nested transformed distribution over its root with its bijections, innermost first -/
theorem toDistn_eq_nest (d : D X C K ℝ) : d.toDistn = nestTransformed d.root.toDistn (d.bijs.map B.toBij) := by
  induction d with
  | base d s c => simp [D.toDistn, D.root, D.bijs, nestTransformed]
  | transformed d b ih => simp [D.toDistn, D.root, D.bijs, nestTransformed, List.foldl_append, ih]

theorem mkTransformed_ok {d : D X C K α} {b : B X C α} {m : TObj X C K α} (h : Mw.mkTransformed d b = .ok m) : m = ⟨d, b⟩ := by
  unfold Mw.mkTransformed at h
  split at h
  · cases h
  · split at h
    · cases h; rfl
    · cases h

/-- **generated `merge_transforms` = the hand model `mergeTransforms`**: whenever it returns `m`, the base of `m` is the root
(not an `AbstractTransformed`) and `m` computes `mergeTransforms root [b₁, …, bₙ]` — the generated `AbstractTransformed` methods
over the generated `Chain` of the bijections, innermost first — for every nesting depth and every (nested-chain) bijections -/
theorem mergeTransforms_model (t m : TObj X C K ℝ) (h : Transformed.mergeTransforms t = .ok m) :
    m.base_dist = t.toD.root ∧ m.base_dist.isTransformed = false ∧
    m.toD.toDistn = mergeTransforms t.toD.root.toDistn (t.toD.bijs.map B.toBij) := by
  rw [mergeTransforms_eq] at h
  obtain ⟨bd, bij⟩ := t
  cases bd with
  | base d s c =>
    simp only [D.isTransformed, Bool.not_false, if_true] at h
    cases h
    refine ⟨rfl, rfl, ?_⟩
    simp [TObj.toD, D.toDistn, D.root, D.bijs, mergeTransforms, chain_single]
  | transformed d b =>
    simp only [D.isTransformed, Bool.not_true, Bool.false_eq_true, if_false] at h
    cases h1 : Mw.mkChain (TObj.toD ⟨D.transformed d b, bij⟩).bijs with
    | error e => rw [h1] at h; cases h
    | ok c =>
      rw [h1] at h
      have hc := mkChain_ok h1
      simp only [Except.bind] at h
      cases h2 : Chain.mergeChains c with
      | error e => rw [h2] at h; cases h
      | ok c' =>
        rw [h2] at h
        simp only at h
        have hm := mkTransformed_ok h
        obtain ⟨hb, -, hsem⟩ := mergeChains_sem c c' h2
        subst hm
        refine ⟨rfl, root_not_transformed _, ?_⟩
        show (Transformed.mk (D.root (D.transformed d b)).toDistn c'.toB.toBij).toDist = _
        rw [hsem]
        simp only [ChainObj.toB, B.toBij, toBijs_eq_map, hc, mergeTransforms]
        rfl

/-- **generated `merge_transforms` never changes the distribution**: the same `_log_prob`, `_sample`, `_sample_and_log_prob`
(evaluated through the generated `AbstractTransformed` methods and the generated `Chain`) as the nested distribution -/
theorem mergeTransforms_sem (t m : TObj X C K ℝ) (h : Transformed.mergeTransforms t = .ok m) :
    t.toD.toDistn.Equiv m.toD.toDistn := by
  rw [(mergeTransforms_model t m h).2.2, toDistn_eq_nest]
  exact Gen.merge_transforms_sem _ _

/-! ## `__getitem__` semantics -/

theorem map_take_drop {β γ : Type} (f : β → γ) (l : List β) (i j : Nat) :
    ((l.take j).drop i).map f = ((l.map f).take j).drop i := by
  simp [List.map_drop, List.map_take]

/-- **generated `Chain.__getitem__` on a slice** (step `None` / `1`; clamped, negative bounds from the end): whenever it returns,
the result is the `Chain` of the Python-sliced tuple and computes the generated `Chain` of that sub-list — `chain_getitem_sem`'s
`getSlice` of the generated `Chain` -/
theorem getitem_slice_sem (c : ChainObj X C ℝ) (a b k : Option Int) (hk : k = none ∨ k = some 1) (r : B X C ℝ)
    (h : Chain.getitem c (.slice ⟨a, b, k⟩) = .ok r) :
    (∃ s cs, r = .chain ((c.bijections.take (sliceHi c.bijections.length b)).drop (sliceLo c.bijections.length a)) s cs) ∧
    r.toBij = ((Chain.mk (c.bijections.map B.toBij)).getSlice (sliceLo c.bijections.length a) (sliceHi c.bijections.length b)).toBij := by
  rw [getitem_slice, sliceGet_step1 _ _ _ _ hk] at h
  simp only [Except.bind] at h
  cases h1 : Mw.mkChain (List.drop (sliceLo c.bijections.length a) (List.take (sliceHi c.bijections.length b) c.bijections)) with
  | error e => rw [h1] at h; cases h
  | ok c' =>
    rw [h1] at h
    cases h
    have hb := mkChain_ok h1
    refine ⟨⟨c'.shape, c'.cond_shape, by simp [ChainObj.toB, hb]⟩, ?_⟩
    simp only [ChainObj.toB, B.toBij, toBijs_eq_map, hb, Chain.getSlice, map_take_drop]

/-! ## `shape` / `cond_shape` -/

/-- the generated `shape` property is one step of the world's attribute dispatch -/
theorem shape_dispatch (t : TObj X C K α) : Transformed.shape t = t.toD.shape := rfl

/-- the generated `cond_shape` property: the regenerated `merge_cond_shapes` of `(bijection.cond_shape, base_dist.cond_shape)` -/
theorem condShape_eq (t : TObj X C K α) :
    Transformed.condShape t =
      (t.base_dist.cond_shape).bind fun cd => Mw.liftPy (GenCtors.mergeCondShapes [t.bijection.cond_shape, cd]) := rfl

/-- … and one step of the world's attribute dispatch (so nested transformed distributions use it at every level) -/
theorem condShape_dispatch (t : TObj X C K α) : Transformed.condShape t = t.toD.cond_shape := by
  rw [condShape_eq]
  simp only [TObj.toD, D.cond_shape]
  cases t.base_dist.cond_shape <;> rfl

/-- `merge_cond_shapes` of two optional shapes, all cases: `None` is the unit, equal shapes merge, different shapes raise;
the scalar condition shape `()` is a shape like any other (NOT falsy) -/
theorem mergeCond_pair (a b : Option Shape) :
    GenCtors.mergeCondShapes [a, b] =
      match a, b with
      | none, none => .ok none
      | some s, none => .ok (some s)
      | none, some s => .ok (some s)
      | some s, some s' => if s = s' then .ok (some s) else .error .valueError := by
  cases a with
  | none => cases b <;> simp [GenCtors.mergeCondShapes, PyCtor.allM, PyCtor.idx, Except.bind]
  | some s =>
    cases b with
    | none => simp [GenCtors.mergeCondShapes, PyCtor.allM, PyCtor.idx, Except.bind]
    | some s' =>
      by_cases hs : s = s'
      · subst hs; simp [GenCtors.mergeCondShapes, PyCtor.allM, PyCtor.idx, Except.bind]
      · have hs' : ¬ s' = s := fun h => hs h.symm
        simp [GenCtors.mergeCondShapes, PyCtor.allM, PyCtor.idx, Except.bind, hs, hs']

end sem

/-! ## concrete objects over ℤ for the non-vacuity instances (non-commuting bijections, nested chains) -/
namespace Inst
/-- base over ℤ: `log_prob x = x²`, the sample is the key -/
def base : Distn Int Unit Int Int := ⟨fun x _ => x * x, fun k _ => k, fun k _ => (k, k * k)⟩
def shift (a ld : Int) : B Int Unit Int :=
  .leaf ⟨fun x _ => x + a, fun y _ => y - a, fun x _ => (x + a, ld), fun y _ => (y - a, -ld)⟩ [] none
def neg (ld : Int) : B Int Unit Int := .leaf ⟨fun x _ => -x, fun y _ => -y, fun x _ => (-x, ld), fun y _ => (-y, -ld)⟩ [] none
def dbl (ld : Int) : B Int Unit Int :=
  .leaf ⟨fun x _ => 2 * x, fun y _ => y / 2, fun x _ => (2 * x, ld), fun y _ => (y / 2, -ld)⟩ [] none
/-- `Chain([shift 3, Chain([neg, Chain([dbl])])])` -/
def nestedChain : ChainObj Int Unit Int := ⟨[shift 3 100, .chain [neg 1000, .chain [dbl 10000] [] none] [] none], [], none⟩
/-- `Transformed(Transformed(Transformed(base, shift 1), dbl), nestedChain)`: three levels, `x ↦ 2(x+1)` then `x ↦ 2·(−(x+3))` -/
def t3 : TObj Int Unit Int Int := ⟨.transformed (.transformed (.base base [] none) (shift 1 1)) (dbl 10), nestedChain.toB⟩

/-- what `merge_transforms()` returns, observed: log_prob at 20, sample / sample_and_log_prob for key 5, the number of members of
the merged chain, whether the merged base is transformed, whether a member is a `Chain` -/
def summary (t : TObj Int Unit Int Int) : Option (Int × Int × (Int × Int) × Nat × Bool × Bool) :=
  match Transformed.mergeTransforms t with
  | .ok m => some ((m.toD.toDistn).logProb 20 (), (m.toD.toDistn).sample 5 (), (m.toD.toDistn).sampleLp 5 (),
      (match m.bijection with | .chain l _ _ => l.length | _ => 0), m.base_dist.isTransformed,
      (match m.bijection with | .chain l _ _ => l.any B.isChain | _ => true))
  | .error _ => none

/-- what `merge_chains()` returns, observed: number of members, whether one is a `Chain`, transform / inverse at 5 -/
def chainSummary (c : ChainObj Int Unit Int) : Option (Nat × Bool × Int × Int) :=
  match Chain.mergeChains c with
  | .ok c' => some (c'.bijections.length, c'.bijections.any B.isChain, c'.toB.toBij.fwd 5 (), c'.toB.toBij.inv 5 ())
  | .error _ => none

/-- `chain[i]` / `chain[a:b:k]` observed through `transform(5)` (and the number of members of a slice) -/
def getSummary (c : ChainObj Int Unit Int) (i : Idx) : Except E (Nat × Int) :=
  (Chain.getitem c i).map fun r => ((match r with | .chain l _ _ => l.length | _ => 0), r.toBij.fwd 5 ())

/-- flat chain `[shift 3, neg, dbl, shift 1]` -/
def flat4 : ChainObj Int Unit Int := ⟨[shift 3 100, neg 1000, dbl 10000, shift 1 1], [], none⟩
end Inst

end MergeGen
