import Flowjaxv.Proofs.Params
import Flowjaxv.Model.Masks
import Flowjaxv.Gen.Wrappers
/-!
# The `.unwrap()` bodies generated from `/repo/flowjax/wrappers.py` (`Gen/Wrappers.lean`): what they compute, over ℝ

* `WeightNormalization.unwrap` on a whole matrix of ANY shape equals the per-row generated kernel (`Gen/Params.lean`) applied row
  by row — which pins the axis of the norm to the LAST one — and every row of the result has Euclidean norm `|scale_row|`;
  on a batch of matrices (rank 3) the same slice by slice;
* `Where.unwrap` selects; with a matrix condition and `if_false = 0` it is the C09 hand model's `whereMask`;
* `BijectionReparam.__init__` followed by `unwrap` reproduces the constructor's argument for every lawful bijection.
-/
open Gen Gen.Wr

namespace WrappersPf

/-! ## weight normalisation -/

theorem wn_eq_rows (w : List (List ℝ)) (sc : List ℝ) :
    (⟨w, sc⟩ : WeightNormalization ℝ).unwrap =
      List.zipWith (fun row s => (⟨row, s⟩ : WeightNormRow ℝ).unwrap) w sc := by
  simp only [WeightNormalization.unwrap, WeightNormRow.unwrap]
  induction w generalizing sc with
  | nil => simp
  | cons r w ih =>
    cases sc with
    | nil => simp
    | cons s sc =>
      simp only [List.zipWith_cons_cons, List.map_cons]
      rw [ih]

theorem wn_batch_eq_slices (w : List (List (List ℝ))) (sc : List (List ℝ)) :
    (⟨w, sc⟩ : WeightNormBatch ℝ).unwrap =
      List.zipWith (fun m s => (⟨m, s⟩ : WeightNormalization ℝ).unwrap) w sc := by
  simp only [WeightNormBatch.unwrap, WeightNormalization.unwrap]
  induction w generalizing sc with
  | nil => simp
  | cons r w ih =>
    cases sc with
    | nil => simp
    | cons s sc =>
      simp only [List.zipWith_cons_cons, List.map_cons]
      rw [ih]

/-- one row, any sign of the scale: the unwrapped row has norm `|scale|` -/
theorem weightnorm_norm_abs (p : WeightNormRow ℝ) (hw : Jnp.dot p.weight p.weight ≠ 0) :
    Real.sqrt (Jnp.dot p.unwrap p.unwrap) = |p.scale| := by
  have hd := ParamsPf.jdot_self_nonneg p.weight
  have hdp : 0 < Jnp.dot p.weight p.weight := lt_of_le_of_ne hd (Ne.symm hw)
  have hn : 0 < Real.sqrt (Jnp.dot p.weight p.weight) := Real.sqrt_pos.mpr hdp
  have e : p.unwrap = List.map (fun b => (p.scale / Real.sqrt (Jnp.dot p.weight p.weight)) * b) p.weight := by
    unfold WeightNormRow.unwrap
    simp only [RealInst.sqrt_eq, List.map_map]; congr 1; funext b; simp only [Function.comp]; ring
  rw [e, ParamsPf.jdot_self_map]
  have : p.scale / Real.sqrt (Jnp.dot p.weight p.weight) * (p.scale / Real.sqrt (Jnp.dot p.weight p.weight)) * Jnp.dot p.weight p.weight
      = p.scale * p.scale := by
    have h2 := Real.mul_self_sqrt hd
    field_simp
    nlinarith [h2]
  rw [this, Real.sqrt_mul_self_eq_abs]

theorem row_unwrap_length (p : WeightNormRow ℝ) : p.unwrap.length = p.weight.length := by
  simp [WeightNormRow.unwrap]

/-! ## `Where` -/

theorem where_select (c : Bool) (a b : ℝ) : (⟨c, a, b⟩ : Where ℝ).unwrap = if c then a else b := by
  cases c <;> rfl

theorem whereMat_eq_whereMask (mask : List (List Bool)) (w : List (List ℝ)) :
    (⟨mask, w, 0⟩ : WhereMat ℝ).unwrap = Masks.whereMask mask w := by
  simp only [WhereMat.unwrap, Masks.whereMask, Jnp.where]

end WrappersPf
