import Flowjaxv.Driver.Losses
import Flowjaxv.Gen.LossesGen
/-!
Driver ops that run the GENERATED losses (`Gen/LossesGen.lean`, C17) at `Float` in concrete worlds.  Same line formats and
answers as the hand-model ops of `Driver/Losses.lean` (`mle`, `elbo`, `cidx`, `contrastive`):

  gmle <lps>                      → generated `MaximumLikelihoodLoss.__call__`
  gelbo <stl> <slp_lps> <slp_targets> <lp_lps> <s_targets>   → generated `ElboLoss.__call__` on `ElboLoss.init target n stl`
  gcidx <batch> <n> <π_0> …       → rows of the generated `_get_contrastive_idxs` (`NONE` when it raises)
  gcontrastive <b> <bc> <n> <prior> <π_0> … <LP_0> …         → generated `ContrastiveLoss.__call__`, `NONE` when it raises

World: parameters / static / wrapped distribution are `Unit`, a key is a batch index (`jr.split(key, n)[i] = i`), the
distribution's methods are lookup tables, `jr.choice(keyᵢ, candidates, …, replace=False)` draws the given permutation `π_i`.
-/
namespace Drv
open Losses GenLosses

def lossWorld {X C : Type} (d : Distn X C Nat Float) (c0 : C) (π : Nat → List Nat) : Lw.World X C Nat Unit Unit Unit Float :=
  { combine := fun _ _ => (), unwrap := id, methods := fun _ => d, split := fun _ _ i => i, noCond := c0,
    choicePerm := fun k _ => π k, choiceRepl := fun _ a n => a.take n }

def gmle : Handler
  | [lps] => do
      let lps ← parseFs lps
      let d : Distn Nat Unit Nat Float := ⟨fun i _ => lps.getD i nanF, fun k _ => k, fun k _ => (k, nanF)⟩
      let n := lps.length
      pure (showF (mleCall (lossWorld d () fun _ => []) () () (List.range n) (List.replicate n ())))
  | _ => .error "bad gmle op"

def gelbo : Handler
  | [stl, slpLps, slpTg, lpLps, sTg] => do
      let stl ← parseBool stl
      let slpLps ← parseFs slpLps
      let slpTg ← parseFs slpTg
      let lpLps ← parseFs lpLps
      let sTg ← parseFs sTg
      let n := slpLps.length
      if slpTg.length ≠ n ∨ lpLps.length ≠ n ∨ sTg.length ≠ n then throw "gelbo: lengths differ"
      let d : Distn (Nat × Bool) Unit Nat Float :=
        ⟨fun x _ => lpLps.getD x.1 nanF, fun k _ => (k, true), fun k _ => ((k, false), slpLps.getD k nanF)⟩
      let target : Nat × Bool → Float := fun x => if x.2 then sTg.getD x.1 nanF else slpTg.getD x.1 nanF
      pure (showF (elboCall (lossWorld d () fun _ => []) (ElboLoss.init target n stl) () () 0))
  | _ => .error "bad gelbo op"

def gcidx : Handler
  | batch :: n :: rows => do
      let batch ← parseNat batch
      let n ← parseNat n
      let rows ← rows.mapM parseNats
      if rows.length ≠ batch then throw "gcidx: need one permutation per row"
      let π : Nat → List Nat := fun i => rows.getD i []
      if !(admissibleB batch π) then throw "gcidx: not a permutation of the candidates"
      let d : Distn Nat Unit Nat Float := ⟨fun _ _ => nanF, fun k _ => k, fun k _ => (k, nanF)⟩
      match getContrastiveIdxs (lossWorld d () π) 0 batch n with
      | some r => pure (" ".intercalate (r.map showNats))
      | none => pure "NONE"
  | _ => .error "bad gcidx op"

def gcontrastive : Handler
  | b :: bc :: n :: prior :: rest => do
      let b ← parseNat b
      let bc ← parseNat bc
      let n ← parseNat n
      let prior ← parseFs prior
      if rest.length ≠ b + bc then throw "gcontrastive: need b permutations and bc log-prob rows"
      let perms ← (rest.take b).mapM parseNats
      let lp ← (rest.drop b).mapM parseFs
      if prior.length ≠ b then throw "gcontrastive: prior length"
      if lp.any (fun r => r.length ≠ b) then throw "gcontrastive: log-prob row length"
      let π : Nat → List Nat := fun i => perms.getD i []
      if !(admissibleB b π) then throw "gcontrastive: not a permutation of the candidates"
      let d : Distn Nat Nat Nat Float :=
        ⟨fun j i => (lp.getD i []).getD j nanF, fun k _ => k, fun k _ => (k, nanF)⟩
      match contrastiveCall (lossWorld d 0 π) (ContrastiveLoss.init (fun j => prior.getD j nanF) n) () ()
          (List.range b) (List.range bc) 0 with
      | some v => pure (showF v)
      | none => pure "NONE"
  | _ => .error "bad gcontrastive op"

end Drv
