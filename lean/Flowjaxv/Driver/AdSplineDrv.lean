import Flowjaxv.Driver.Util
import Flowjaxv.Model.AdSpline
/-!
Driver op for the coupling / masked-autoregressive layers with the rational-quadratic-spline transformer at IEEE `Float`
(`Model/AdSpline.lean`):

  adspline <coupling_t|coupling_i|maf_t> <relu|tanh> <u> <x> <cond|-> <K> <lo> <hi> <softmax_adjust> <min_derivative> <init>
           (<W> <mask|-> <b>)+
     → for every output (point elements, then log-det): `<value> - <d/dx> <d/dcond> <d/dW0> <d/db0> …` separated by ` | `

Vector 0 = x, vector 1 = condition, layer `l` has weights (row-major) in vector `2+2l` and bias in vector `3+2l`.
-/
namespace Drv
open Ad

def runVecV (e : VExpr Float) (env : Env Float) (lens : List Nat) : String :=
  let g := e.vjp env 1
  let dv := lens.zipIdx.map (fun (len, j) => (List.range len).map (fun p => Grad.total g (Key.v j p)))
  s!"{showF (e.eval env)} - " ++ " ".intercalate (dv.map showFs)

private def netRowsS (l nin nout : Nat) (mask : List Float) : Net.Rows Float :=
  (List.range nout).map (fun i =>
    ((List.range nin).map (fun j =>
        let w : Expr Float := Expr.get (2 + 2 * l) (fun _ => Int.ofNat (i * nin + j))
        if mask.isEmpty then w else Net.masked (mask.getD (i * nin + j) 0 != 0) w),
     Expr.get (3 + 2 * l) (fun _ => Int.ofNat i)))

private def parseLayersS : Nat → Nat → List String → Except String (List (Net.Rows Float) × List (List Float))
  | _, _, [] => pure ([], [])
  | l, nin, w :: m :: b :: rest => do
      let w ← parseFs w
      let m ← parseFs m
      let b ← parseFs b
      if w.length != nin * b.length then throw s!"layer {l}: weight size {w.length} != {nin} x {b.length}"
      let (rs, vs) ← parseLayersS (l + 1) b.length rest
      pure (netRowsS l nin b.length m :: rs, w :: b :: vs)
  | _, _, _ => throw "layers come as <weights> <mask> <bias> triples"

def adspline : Handler
  | kind :: act :: u :: x :: cond :: K :: lo :: hi :: adj :: md :: init :: layers => do
      let u ← parseNat u
      let x ← parseFs x
      let cond ← parseFs cond
      let K ← parseNat K
      let cfg : Net.SplineCfg Float := { K := K, lo := ← parseF lo, hi := ← parseF hi, adj := ← parseF adj, md := ← parseF md, init := ← parseFs init }
      let act ← match act with
        | "relu" => pure Prim.relu | "tanh" => pure Prim.tanh | _ => throw "activation"
      let nin := (if kind == "maf_t" then x.length else u) + cond.length
      let (rows, vecs) ← parseLayersS 0 nin layers
      let some last := rows.getLast? | throw "no layers"
      let net := Net.mlp act rows.dropLast last
      let xe : List (Expr Float) := Vec.ofVec 0 x.length
      let ce : List (Expr Float) := Vec.ofVec 1 cond.length
      let P := 3 * K + 2
      let (ys, ld) ← match kind with
        | "coupling_t" => pure (Net.couplingV u P net (Net.splineTld cfg) xe ce)
        | "coupling_i" => pure (Net.couplingV u P net (Net.splineIld cfg) xe ce)
        | "maf_t" => pure (Net.autoregV P net (Net.splineTld cfg) xe ce)
        | _ => throw "kind"
      let allv := x :: cond :: vecs
      let env : Env Float := { s := fun _ => 0, v := fun j => allv.getD j [] }
      pure (" | ".intercalate ((ys ++ [ld]).map (fun e => runVecV e env (allv.map List.length))))
  | _ => .error "bad adspline op"

end Drv
