import Flowjaxv.Driver.Tree
import Flowjaxv.Gen.MergeGen
/-!
Driver ops running the GENERATED `merge_transforms`, `shape` / `cond_shape` of `AbstractTransformed` and
`Chain.__getitem__ / __len__ / __iter__ / merge_chains` (`Gen/MergeGen.lean`) on objects of `Model/MergeWorld.lean` built
through the regenerated constructors (`Mw.mkChain`, `Mw.mkTransformed`).

bijection objects, prefix notation:  `C n obj×n` (a `Chain`) | `LF <N|S> expr` (a leaf: cond_shape None / `()`; `expr` as in `tree`)
  mgmt <N|S|CN> <depth> obj×depth <what…>   nested `Transformed(…Transformed(base, obj₁)…, obj_depth)`; base = StandardNormal with cond_shape
                                            None (`N`), a conditional normal `x - c` with cond_shape `()` (`CN`); what =
       struct | cs | shape | lp x c | s z c | slp z c | nlp x c | ns z c | nslp z c | leaf i x c
  mgch obj <what…>   obj a `Chain`; what = len | iter | mc m x c | mcs | mcleaf i x c | geti i m x c | gets a b k m x c | geto
-/
namespace Drv
open Gen Mw GenMerge

abbrev MB := Mw.B Float Float Float
abbrev MD := Mw.D Float Float Float Float

def showME {τ : Type} (r : Mw.M τ) (f : τ → Except String String) : Except String String :=
  match r with
  | .ok x => f x
  | .error e => pure s!"EXC:{e.name}"

partial def parseB : List String → Except String (Mw.M MB × List String)
  | "LF" :: cs :: r => do
      let (b, r) ← parseTree r
      let c ← match cs with
        | "N" => pure none
        | "S" => pure (some [])
        | _ => .error "cond_shape token"
      pure (.ok (.leaf b [] c), r)
  | "C" :: n :: r => do
      let n ← parseNat n
      let rec go (k : Nat) (r : List String) (acc : Mw.M (List MB)) : Except String (Mw.M (List MB) × List String) :=
        match k with
        | 0 => pure (acc.map List.reverse, r)
        | k + 1 => do
            let (b, r) ← parseB r
            go k r (acc.bind fun l => b.map (· :: l))
      let (bs, r) ← go n r (.ok [])
      pure (bs.bind fun l => (Mw.mkChain l).map ChainObj.toB, r)
  | t :: _ => .error s!"bad object token {t}"
  | [] => .error "unexpected end of object"

private partial def parseBs (k : Nat) (r : List String) (acc : List (Mw.M MB)) : Except String (List (Mw.M MB) × List String) :=
  match k with
  | 0 => pure (acc.reverse, r)
  | k + 1 => do
      let (b, r) ← parseB r
      parseBs k r (b :: acc)

def mgCondNormalBase : Distn Float Float Float Float :=
  (Gen.DistCore.mk (fun k c => k + c) (fun x c => Stats.normLogpdf (x - c))).toDist

def showOptShapeM : Option (List Nat) → String
  | none => "N"
  | some s => "S" ++ showNats s

def mgDistOps (d : Distn Float Float Float Float) (what : String) (a c : Float) : Except String String :=
  match what with
  | "lp" => pure (showF (d.logProb a c))
  | "s" => pure (showF (d.sample a c))
  | "slp" => let r := d.sampleLp a c; pure s!"{showF r.1} {showF r.2}"
  | _ => .error "what"

def mgmt : Handler
  | base :: n :: toks => do
      let (bs, rest) ← parseBs (← parseNat n) toks []
      let b0 : MD ← match base with
        | "N" => pure (.base stdNormalBase [] none)
        | "S" => pure (.base stdNormalBase [] (some []))
        | "CN" => pure (.base mgCondNormalBase [] (some []))
        | _ => .error "base"
      -- the nested object, built innermost first through the regenerated constructors
      let nested : Mw.M MD := bs.foldl (fun d b => d.bind fun d => b.bind fun b => (Mw.mkTransformed d b).map TObj.toD) (.ok b0)
      let tobj : Mw.M (Mw.TObj Float Float Float Float) := nested.bind fun d =>
        match d with
        | .transformed bd bj => .ok ⟨bd, bj⟩
        | .base .. => .error (.py .typeError)
      match rest with
      | ["struct"] => showME (tobj.bind Transformed.mergeTransforms) fun m => do
          let members : List MB := (match m.bijection with
            | .chain l _ _ => l
            | _ => [])
          let cs : String := (match m.toD.cond_shape with
            | .ok c => showOptShapeM c
            | .error e => e.name)
          pure s!"{showBool m.base_dist.isTransformed} {showBool m.bijection.isChain} {members.length} {showBool (members.any B.isChain)} {showNats m.toD.shape} {cs}"
      | ["cs"] => showME (tobj.bind Transformed.condShape) fun c => pure (showOptShapeM c)
      | ["shape"] => showME tobj fun t => pure (showNats (Transformed.shape t))
      | ["leaf", i, x, c] => showME (tobj.bind Transformed.mergeTransforms) fun m => do
          match m.bijection with
          | .chain l _ _ =>
              match l[← parseNat i]? with
              | some b => pure (showF (b.toBij.fwd (← parseF x) (← parseF c)))
              | none => .error "leaf index"
          | b => pure (showF (b.toBij.fwd (← parseF x) (← parseF c)))
      | [what, a, c] =>
          if what.startsWith "n" then
            showME tobj fun t => do mgDistOps t.toD.toDistn (what.drop 1).toString (← parseF a) (← parseF c)
          else
            showME (tobj.bind Transformed.mergeTransforms) fun m => do mgDistOps m.toD.toDistn what (← parseF a) (← parseF c)
      | _ => .error "bad mgmt query"
  | _ => .error "bad mgmt op"

def parseOptIntN (s : String) : Except String (Option Int) :=
  if s == "N" then pure none else do pure (some (← parseInt s))

def mgch : Handler
  | toks => do
      let (b, rest) ← parseB toks
      let cobj : Mw.M (Mw.ChainObj Float Float Float) := b.bind fun b =>
        match b with
        | .chain l s c => .ok ⟨l, s, c⟩
        | .leaf .. => .error (.py .typeError)
      match rest with
      | ["len"] => showME cobj fun c => pure (toString (Chain.len c))
      | ["iter"] => showME cobj fun c => pure (toString (Chain.iter c).length)
      | ["mcs"] => showME (cobj.bind Chain.mergeChains) fun c => do
          pure s!"{c.bijections.length} {showBool (c.bijections.any B.isChain)} {showNats c.shape} {showOptShapeM c.cond_shape}"
      | ["mc", m, x, c] => showME (cobj.bind Chain.mergeChains) fun r => do
          applyM r.toB.toBij m (← parseF x) showF (← parseF c)
      | ["mcleaf", i, x, c] => showME (cobj.bind Chain.mergeChains) fun r => do
          match r.bijections[← parseNat i]? with
          | some b => pure (showF (b.toBij.fwd (← parseF x) (← parseF c)))
          | none => .error "leaf index"
      | ["geti", i, m, x, c] => do
          let i ← parseInt i
          showME (cobj.bind fun co => Chain.getitem co (.int i)) fun r => do
            applyM r.toBij m (← parseF x) showF (← parseF c)
      | ["gets", a, b, k, m, x, c] => do
          let s : Mw.Slice := ⟨← parseOptIntN a, ← parseOptIntN b, ← parseOptIntN k⟩
          showME (cobj.bind fun co => Chain.getitem co (.slice s)) fun r => do
            let v ← applyM r.toBij m (← parseF x) showF (← parseF c)
            let n : Nat := (match r with
              | .chain l _ _ => l.length
              | _ => 0)
            pure s!"{n} {showOptShapeM r.cond_shape} {v}"
      | ["geto"] => showME (cobj.bind fun co => Chain.getitem co .other) fun _ => pure "value"
      | _ => .error "bad mgch query"

end Drv
