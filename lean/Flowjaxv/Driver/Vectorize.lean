import Flowjaxv.Driver.Util
import Flowjaxv.Model.Vectorize
/-!
Driver ops for the batching model (`Model/Vectorize.lean`).  A shape is a comma-separated int list
(`-` = `()`); `none` stands for Python `None`.
  sig <in shapes…> -> <out shapes…>                      → the ufunc signature string
  parsesig <signature>                                    → `<in shapes…> -> <out shapes…>` or `none`
  bshape <shape…>                                         → broadcast shape or `ValueError`
  leadshape <full> <core>                                 → leading shape or `none`
  outshape <method> <event> <cond|none> <sample_shape> <x batch> <cond batch|none>
  outshapef <method> <event> <cond|none> <sample_shape> <x full shape> <cond full shape|none>
                                                          → output shape(s) or `ValueError` / `TypeError`
  keyshape <cond|none> <sample_shape> <cond full shape|none> → `<key_shape> <key_size>`
  pair <leading shape…> <flat index>                      → flat index into each argument, or `ValueError`
  checkshapes <declared> <element shape>                  → 1/0
methods: log_prob | sample | sample_and_log_prob
-/
namespace Drv
open Vec

def parseShapeV (s : String) : Except String Shape := parseNats s
def parseOptShapeV (s : String) : Except String (Option Shape) :=
  if s == "none" then pure none else do pure (some (← parseShapeV s))
def showShapes (ss : List Shape) : String := " ".intercalate (ss.map showNats)

def parseMethod : String → Except String Method
  | "log_prob" => pure .logProb
  | "sample" => pure .sample
  | "sample_and_log_prob" => pure .sampleLp
  | m => .error s!"bad method {m}"

def splitAtArrow : List String → List String → Except String (List String × List String)
  | _, [] => .error "missing ->"
  | acc, a :: r => if a == "->" then pure (acc.reverse, r) else splitAtArrow (a :: acc) r

def sig : Handler := fun args => do
  let (l, r) ← splitAtArrow [] args
  let ins ← l.mapM parseShapeV
  let outs ← r.mapM parseShapeV
  pure (ufuncSignature ins outs)

def parsesig : Handler
  | [s] =>
    match parseSignature s with
    | some (a, b) => pure s!"{showShapes a} -> {showShapes b}"
    | none => pure "none"
  | _ => .error "bad parsesig op"

def bshape : Handler := fun args => do
  let ss ← args.mapM parseShapeV
  match broadcastShapes ss with
  | some s => pure (showNats s)
  | none => pure "ValueError"

def leadshape : Handler
  | [f, c] => do
    match leadingShape (← parseShapeV f) (← parseShapeV c) with
    | some s => pure (showNats s)
    | none => pure "none"
  | _ => .error "bad leadshape op"

def showOut : Except PyErr (List Shape) → String
  | .ok ss => showShapes ss
  | .error e => e.name

def outshapeGen (full : Bool) : Handler
  | [m, ev, cs, ss, xb, cb] => do
    let m ← parseMethod m
    let ev ← parseShapeV ev
    let cs ← parseOptShapeV cs
    let ss ← parseShapeV ss
    let xb ← parseShapeV xb
    let cb ← parseOptShapeV cb
    let x := if full then xb else xb ++ ev
    let c := if full then cb else cb.map (· ++ cs.getD [])
    pure (showOut (outShape m ev cs ss x c))
  | _ => .error "bad outshape op"

def outshape : Handler := outshapeGen false
def outshapef : Handler := outshapeGen true

def keyshape : Handler
  | [cs, ss, c] => do
    let ks := keyShape (← parseShapeV ss) (← parseOptShapeV cs) (← parseOptShapeV c)
    pure s!"{showNats ks} {keySize ks}"
  | _ => .error "bad keyshape op"

def pair : Handler := fun args => do
  match args.reverse with
  | k :: rev =>
    let k ← parseNat k
    let leads ← rev.reverse.mapM parseShapeV
    match pairFlat leads k with
    | some (_, idx) => pure (showNats idx)
    | none => pure "ValueError"
  | [] => .error "bad pair op"

def checkshapes : Handler
  | [d, e] => do pure (showBool (checkShapes (← parseShapeV d) (← parseShapeV e)))
  | _ => .error "bad checkshapes op"

end Drv
