import Flowjaxv.Driver.Util
import Flowjaxv.Gen.Trace
/-!
Driver ops for the C14 table:
  tracesafe <Class|-> <method>   → `1`/`0` per matching table row (space separated), `NONE` if no row
  tracetable                     → number of methods and number of unsafe ones
  fieldkind <Class> <field>      → array | static | module | NONE, and the markedStatic flag
-/
namespace Drv
open Trace GenTrace

def tracesafe : Handler
  | [cls, name] =>
      let c := if cls == "-" then "" else cls
      let rows := methods.filter (fun m => m.cls == c && m.name == name)
      if rows.isEmpty then pure "NONE" else pure (" ".intercalate (rows.map (fun m => showBool m.traceSafe)))
  | _ => .error "bad tracesafe op"

def tracetable : Handler
  | [] => pure s!"{methods.length} {(methods.filter (fun m => !m.traceSafe)).length}"
  | _ => .error "bad tracetable op"

def fieldkind : Handler
  | [cls, name] =>
      match fields.find? (fun f => f.cls == cls && f.name == name) with
      | none => pure "NONE"
      | some f =>
          let k := match f.kind with | .array => "array" | .static => "static" | .module => "module"
          pure s!"{k} {showBool f.markedStatic}"
  | _ => .error "bad fieldkind op"

end Drv
