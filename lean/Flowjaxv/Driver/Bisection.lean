import Flowjaxv.Driver.Util
import Flowjaxv.Model.Bisection
/-!
Driver ops for the bisection model (`Model/Bisection.lean` over the generated `Gen/Bisection.lean`),
run at exact `Rat` (`R`, numbers as `p/q`) or at `Float` (`F`, numbers as IEEE-754 bit patterns).

  bis   <R|F> <lower> <upper> <tol> <max_iter> <fuel> <fn…>
        → `ok <root> <adapt_iterations> <iterations> <lo0> <hi0> <lo1> <hi1> <adapt eval points> <bisect eval points>`
          (lo0,hi0) = adapted bracket, (lo1,hi1) = final bracket, eval points = comma lists in call order
        → `nofuel` when a loop did not return within `fuel`, `valueerror` when `_bisection_search` raises
  adapt <R|F> <lower> <upper> <fuel> <fn…>
        → `ok <lo> <hi> <iteration> <eval points>` | `nofuel`
  ar    <R|F> <lower> <upper> <tol> <max_iter> <fuel> <n> <fn_0…> … <fn_{n-1}…> <L row-major n·n> <M row-major n·n>
        autoregressive_fn(x)[i] = fn_i(x[i]) + Σ_{j<i} (L[i][j]·x[j] + M[i][j]·|x[j]|)
        → `ok <roots> <adapt_iterations per coordinate> <iterations per coordinate>` | `nofuel` | `valueerror`
  archeck <R|F> <lower> <upper> <tol> <max_iter>     → `1` iff `AutoregressiveBisectionInverter.__check_init__` accepts

`fn` (prefix tokens): `lin a b` ↦ a·x+b | `pw x0 a1 a2 c` ↦ c + (x<x0 ? a1 : a2)·(x−x0) |
`cubic a b c` ↦ a·(x·x·x)+b·x+c | `sinh a b` ↦ a·sinh x + b | `tanh a b` ↦ a·tanh x + b   (last two: `F` only)
-/
namespace Drv
open Gen Model

section generic
variable {α : Type} [Add α] [Sub α] [Mul α] [Div α] [Neg α] [LT α] [LE α] [BEq α]
  [OfNat α 0] [OfNat α 1] [OfNat α 2] [OfNat α 4] [OfScientific α]
  [DecidableLT α] [DecidableLE α] [Transc α] [Inhabited α]

/-- scalar reader / printer for one numeric mode -/
structure NumIO (α : Type) where
  parse : String → Except String α
  render : α → String
  transc : Bool

inductive FnE (α : Type) where
  | lin (a b : α)
  | pw (x0 a1 a2 c : α)
  | cubic (a b c : α)
  | sinh (a b : α)
  | tanh (a b : α)

def FnE.eval : FnE α → α → α
  | .lin a b, x => a * x + b
  | .pw x0 a1 a2 c, x => Jnp.where (decide (x < x0)) (a1 * (x - x0) + c) (a2 * (x - x0) + c)
  | .cubic a b c, x => a * (x * x * x) + b * x + c
  | .sinh a b, x => a * ((Transc.exp x - Transc.exp (-x)) / 2) + b
  | .tanh a b, x => a * Transc.tanh x + b

def parseFn (io : NumIO α) : List String → Except String (FnE α × List String)
  | "lin" :: a :: b :: r => do pure (.lin (← io.parse a) (← io.parse b), r)
  | "pw" :: x0 :: a1 :: a2 :: c :: r => do
      pure (.pw (← io.parse x0) (← io.parse a1) (← io.parse a2) (← io.parse c), r)
  | "cubic" :: a :: b :: c :: r => do pure (.cubic (← io.parse a) (← io.parse b) (← io.parse c), r)
  | "sinh" :: a :: b :: r => do
      if !io.transc then .error "sinh needs F"
      pure (.sinh (← io.parse a) (← io.parse b), r)
  | "tanh" :: a :: b :: r => do
      if !io.transc then .error "tanh needs F"
      pure (.tanh (← io.parse a) (← io.parse b), r)
  | t :: _ => .error s!"bad fn token {t}"
  | [] => .error "missing fn"

def renderList (io : NumIO α) (xs : List α) : String :=
  if xs.isEmpty then "-" else ",".intercalate (xs.map io.render)

/-- evaluation points of the adaptation: `func(lower)`, `func(upper)`, then both updated ends per iteration -/
def adaptEvalPoints (func : α → α) (lower upper : α) (fuel : Nat) : List α :=
  let tr := whileTrace adaptCond (adaptBody func (2 : α)) fuel (adaptInit func lower upper)
  (tr.map (fun s => [s.lower, s.upper])).flatten

/-- evaluation points of the bisection loop: the midpoint of every state on which the condition held -/
def bisectEvalPoints (func : α → α) (tol : α) (max_iter : Int) (fuel : Nat) (lo hi : α) : List α :=
  let tr := whileTrace (bisCond tol max_iter) (bisBody func) fuel (lo, hi, (0 : Int))
  (tr.filter (bisCond tol max_iter)).map (fun s => (s.1 + s.2.1) / 2)

def runBis (io : NumIO α) : List String → Except String String
  | lower :: upper :: tol :: mi :: fuel :: fn => do
      let lower ← io.parse lower
      let upper ← io.parse upper
      let tol ← io.parse tol
      let mi ← parseInt mi
      let fuel ← parseNat fuel
      let (fe, rest) ← parseFn io fn
      if !rest.isEmpty then .error "trailing tokens"
      if !searchArgsOk tol mi then return "valueerror"
      let func := fe.eval
      match adaptInterval func lower upper fuel, bisectionSearch func lower upper tol mi fuel with
      | some (lo0, hi0, _), some (root, ai, it) =>
        match bisectLoop func tol mi fuel lo0 hi0 with
        | some (lo1, hi1, _) =>
          let ae := adaptEvalPoints func lower upper fuel
          let be := bisectEvalPoints func tol mi fuel lo0 hi0
          pure s!"ok {io.render root} {ai} {it} {io.render lo0} {io.render hi0} {io.render lo1} {io.render hi1} {renderList io ae} {renderList io be}"
        | none => pure "nofuel"
      | _, _ => pure "nofuel"
  | _ => .error "bad bis op"

def runAdapt (io : NumIO α) : List String → Except String String
  | lower :: upper :: fuel :: fn => do
      let lower ← io.parse lower
      let upper ← io.parse upper
      let fuel ← parseNat fuel
      let (fe, rest) ← parseFn io fn
      if !rest.isEmpty then .error "trailing tokens"
      match adaptInterval fe.eval lower upper fuel with
      | some (lo, hi, it) =>
        pure s!"ok {io.render lo} {io.render hi} {it} {renderList io (adaptEvalPoints fe.eval lower upper fuel)}"
      | none => pure "nofuel"
  | _ => .error "bad adapt op"

def parseFns (io : NumIO α) : Nat → List String → List (FnE α) → Except String (List (FnE α) × List String)
  | 0, r, acc => pure (acc.reverse, r)
  | k + 1, r, acc => do
      let (f, r) ← parseFn io r
      parseFns io k r (f :: acc)

/-- row `i` of a row-major `n·n` matrix -/
def row (m : List α) (n i : Nat) : List α := (m.drop (i * n)).take n

/-- autoregressive_fn(x)[i] = fn_i(x[i]) + Σ_{j<i} (L[i][j]·x[j] + M[i][j]·|x[j]|), accumulated left to right -/
def arFn (fns : List (FnE α)) (l m : List α) (n : Nat) (x : List α) : List α :=
  (List.range n).map fun i =>
    let own := match fns[i]? with
      | some f => f.eval (x.getD i default)
      | none => default
    let li := row l n i
    let mi := row m n i
    (List.range i).foldl (fun acc j =>
      acc + (li.getD j default * x.getD j default + mi.getD j default * Jnp.abs (x.getD j default))) own

/-- the scan, also collecting the per-coordinate `(adapt_iterations, iterations)` that the real code discards -/
def arCounts (fn : List α → List α) (lower upper tol : α) (max_iter : Int) (fuel : Nat) :
    Nat → Nat → List α → List (Int × Int)
  | 0, _, _ => []
  | k + 1, i, y =>
    match bisectionSearch (scalarFn fn y i) lower upper tol max_iter fuel with
    | none => []
    | some (root, ai, it) => (ai, it) :: arCounts fn lower upper tol max_iter fuel k (i + 1) (y.set i root)

def runAr (io : NumIO α) : List String → Except String String
  | lower :: upper :: tol :: mi :: fuel :: n :: rest => do
      let lower ← io.parse lower
      let upper ← io.parse upper
      let tol ← io.parse tol
      let mi ← parseInt mi
      let fuel ← parseNat fuel
      let n ← parseNat n
      let (fns, rest) ← parseFns io n rest []
      match rest with
      | [l, m] =>
        let l ← (splitList l).mapM io.parse
        let m ← (splitList m).mapM io.parse
        if l.length != n * n || m.length != n * n then .error "matrix size"
        if !searchArgsOk tol mi then return "valueerror"
        let fn := arFn fns l m n
        match autoregressiveBisection fn lower upper tol n mi fuel with
        | some roots =>
          let cs := arCounts fn lower upper tol mi fuel n 0 (List.replicate n ((upper + lower) / 2))
          pure s!"ok {renderList io roots} {showInts (cs.map (·.1))} {showInts (cs.map (·.2))}"
        | none => pure "nofuel"
      | _ => .error "bad ar matrices"
  | _ => .error "bad ar op"

def runArCheck (io : NumIO α) : List String → Except String String
  | [lower, upper, tol, mi] => do
      pure (showBool (inverterArgsOk (← io.parse lower) (← io.parse upper) (← io.parse tol) (← parseInt mi)))
  | _ => .error "bad archeck op"

end generic

def ratIO : NumIO Rat := { parse := parseRat, render := showRat, transc := false }
def floatIO : NumIO Float := { parse := parseF, render := showF, transc := true }

def withMode (fR : List String → Except String String) (fF : List String → Except String String) : Handler
  | "R" :: args => fR args
  | "F" :: args => fF args
  | _ => .error "mode must be R or F"

def bis : Handler := withMode (runBis ratIO) (runBis floatIO)
def adapt : Handler := withMode (runAdapt ratIO) (runAdapt floatIO)
def ar : Handler := withMode (runAr ratIO) (runAr floatIO)
def archeck : Handler := withMode (runArCheck ratIO) (runArCheck floatIO)

end Drv
