import Flowjaxv.Driver.BnafLd
import Flowjaxv.Gen.BnafGen
/-!
Driver ops running the GENERATED `BlockAutoregressiveNetwork` (`Gen/BnafGen.lean`) at `Float`, beside the hand model's ops of
`Driver/BnafLd.lean` (same fields, same output format):

  gbnafld  … as `bnafld`  -> generated `transform_and_log_det`      gbnafild … as `bnafild` -> generated `inverse_and_log_det`
  gbnaft   … as `bnafld`  -> generated `transform` (point only)     gbnaflj  … as `bnaflj`  -> generated closure `linear_to_log_block_diagonal`
  gactlj <n> <bd> <h>     -> generated `_activation_and_log_jacobian_3d(h)`: `<activated h> <flat log_det_3d>` (activation `A z = (z, z)`,
                             so the second component is `h` itself: pass the log-abs-grads as `h`)

Every layer is built by the GENERATED `block_autoregressive_linear` in a world whose `eqx.nn.Linear` arrays / raw weight-norm scale
are the op's fields, then unwrapped (`Bw.LinearW.unwrap`: generated masks + generated `.unwrap()` bodies); the second component of
the pair is the generated closure.  `ERR` when the generated code raises (`none`).
-/
namespace Drv
open Masks Gen

def genLayer (L : BnafLayer Float) : Bw.Linear Float × (Bw.Linear Float → Bw.Blocks Float) :=
  let W : Bw.World Unit Float := { linearInit := fun _ _ _ => ⟨L.weight, L.bias⟩, wnScaleRaw := fun _ => L.scaleRaw }
  let r := GenBnaf.blockAutoregressiveLinear W () L.n (L.b0, L.b1)
  (r.1.unwrap, r.2)

def mkGenNet (dim bd : Nat) (layers : List (Bw.Linear Float × (Bw.Linear Float → Bw.Blocks Float)))
    (cl : Option (Bw.CondLinear Float)) (A : Float → Float × Float) (inv : List Float → Option (List Float) → List Float) :
    Bw.Net Float where
  shape := [dim]
  block_dim := bd
  layers := layers
  cond_linear := cl
  activation := ⟨fun z => (A z).1, A⟩
  inverter := inv

def gbnafCore (mode : Nat) : Handler
  | act :: dim :: cond :: depth :: bd :: x :: cnd :: cmat :: rest => do
      let A ← parseActLd act
      let dim ← parseNat dim; let c ← parseCond cond; let depth ← parseNat depth; let bd ← parseNat bd
      let x ← parseFs x; let cnd ← parseFs cnd; let cflat ← parseFs cmat
      if x.length ≠ dim then .error "x shape"
      if cnd.length ≠ c.getD 0 then .error "condition shape"
      let shapes := bnafBlockShapes depth bd
      let layers ← parseBnafLayers dim shapes rest
      let out0 := match shapes with | (b0, _) :: _ => b0 * dim | [] => 0
      let cl : Option (Bw.CondLinear Float) := c.map fun cd => ⟨toMat out0 cd cflat⟩
      let N : Bw.Net Float := mkGenNet dim bd (layers.map genLayer) cl A (fun _ _ => x)
      let condition : Option (List Float) := c.map fun _ => cnd
      match mode with
      | 0 => match GenBnaf.transformAndLogDet N x condition with
             | some r => pure s!"{showFs r.1} {showE r.2}"
             | none => .error "generated transform_and_log_det raised"
      | 1 => match GenBnaf.inverseAndLogDet N [] condition with
             | some r => pure s!"{showFs r.1} {showE r.2}"
             | none => .error "generated inverse_and_log_det raised"
      | _ => match GenBnaf.transform N x condition with
             | some r => pure (showFs r)
             | none => .error "generated transform raised"
  | _ => .error "bad gbnaf op"

def gbnafld : Handler := gbnafCore 0
def gbnafild : Handler := gbnafCore 1
def gbnaft : Handler := gbnafCore 2

def gbnaflj : Handler
  | [b0, b1, n, w, b, s] => do
      let b0 ← parseNat b0; let b1 ← parseNat b1; let n ← parseNat n
      let ls ← parseBnafLayers n [(b0, b1)] [w, b, s]
      match ls with
      | [L] => let p := genLayer L; pure (showEs ((p.2 p.1).flatten.flatten))
      | _ => .error "gbnaflj layer"
  | _ => .error "bad gbnaflj op"

def gactlj : Handler
  | [n, bd, lag] => do
      let n ← parseNat n; let bd ← parseNat bd; let lag ← parseFs lag
      if lag.length ≠ n * bd then .error "log_abs_grads size"
      let N : Bw.Net Float := mkGenNet n bd [] none (fun z => (z, z)) (fun y _ => y)
      match GenBnaf.activationAndLogJacobian3d N lag with
      | some r => pure (showEs (r.2.flatten.flatten))
      | none => .error "generated _activation_and_log_jacobian_3d raised"
  | _ => .error "bad gactlj op"

end Drv
