import Flowjaxv.Driver.BnafGen
import Flowjaxv.Gen.BnafInitGen
/-!
Driver op running the GENERATED `BlockAutoregressiveNetwork.__init__` (`Gen/BnafInitGen.lean`) at `Float`:

  gbnafinit <dim> <cond_dim | -1> <depth> <block_dim> <activation>
     activation: `none` | `callable` | `bij:<shape>:<cond_shape | N>` (shapes comma-separated, `-` = `()`)
  -> `OK <n layers> <shape> <cond_shape | N> <depth> <block_dim> <layers> <cond_linear> <activation shape>:<activation cond_shape | N>`
        layers: `;`-joined `<weight rows>x<weight cols>x<bias len>/<closure blocks>x<closure rows>x<closure cols>` of every layer — the
        UNWRAPPED weight of the layer the generated `block_autoregressive_linear` built and the shape of what its closure
        `linear_to_log_block_diagonal` returns on it (= `(n_blocks, *block_shape)`); cond_linear: `N` or `<rows>x<cols>`
     `RAISE valueError` / `RAISE indexError` when the generated constructor raises.

The world allocates arrays of the declared shapes filled with `0.5` (`eqx.nn.Linear(in, out)`: weight `(out, in)`, bias `(out,)`; one raw
weight-norm scale per row; `use_bias=False`: weight `(out, in)`); keys are `Nat`s split arithmetically.
-/
namespace Drv

def nestRows : Bw.WNest Float → Nat
  | .raw w => w.length
  | .whereZ _ t _ => nestRows t
  | .whereN _ t _ => nestRows t
  | .reparam t _ => nestRows t
  | .weightNorm t _ => nestRows t

def initWorld : Bw.World Nat Float where
  linearInit := fun _ i o => ⟨List.replicate o (List.replicate i 0.5), List.replicate o 0.5⟩
  wnScaleRaw := fun t => List.replicate (nestRows t) 0.5

def initWorld2 : Bw.InitWorld Nat Float where
  keys := ⟨fun k n i => k * (n + 1) + i + 1⟩
  condLinearInit := fun _ i o => ⟨List.replicate o (List.replicate i 0.5)⟩
  defaultInverter := fun y _ => y

def showOptShapeB : Option (List Nat) → String
  | none => "N"
  | some s => showNats s

def parseOptShapeB (s : String) : Except String (Option (List Nat)) :=
  if s = "N" then pure none else do pure (some (← parseNats s))

def parseActArg (s : String) : Except String (Option (Bw.ActArg Float)) :=
  match s.splitOn ":" with
  | ["none"] => pure none
  | ["callable"] => pure (some (.callable ⟨Float.tanh, fun z => 1 - Float.tanh z * Float.tanh z⟩))
  | ["bij", sh, cs] => do
      let sh ← parseNats sh
      let cs ← parseOptShapeB cs
      pure (some (.bijection ⟨sh, cs, ⟨Float.tanh, fun z => (Float.tanh z, 0)⟩⟩))
  | _ => .error s!"bad activation '{s}'"

def matDimsB (m : List (List Float)) : String := s!"{m.length}x{(m.headD []).length}"

def gbnafinit : Handler
  | [dim, cond, depth, bd, act] => do
      let dim ← parseNat dim; let c ← parseCond cond; let depth ← parseNat depth; let bd ← parseNat bd
      let act ← parseActArg act
      match GenBnafInit.init initWorld initWorld2 7 dim c depth bd act none with
      | .error .valueError => pure "RAISE valueError"
      | .error .indexError => pure "RAISE indexError"
      | .ok N =>
        let layers := N.layers.map fun p =>
          let lin := p.1.unwrap
          let blk := p.2 lin
          s!"{matDimsB lin.weight}x{lin.bias.length}/{blk.length}x{(blk.headD []).length}x{((blk.headD []).headD []).length}"
        let cl := match N.cond_linear with | none => "N" | some C => matDimsB C.weight
        pure s!"OK {N.layers.length} {showNats N.shape} {showOptShapeB N.cond_shape} {N.depth} {N.block_dim} {";".intercalate layers} {cl} {showNats N.activation.shape}:{showOptShapeB N.activation.cond_shape}"
  | _ => .error "bad gbnafinit op"

end Drv
