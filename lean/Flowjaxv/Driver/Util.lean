/-!
# Line-protocol helpers for the model driver (Mathlib-free)

One operation per input line, fields separated by single spaces.  Floats travel as the
decimal value of their IEEE-754 bit pattern (`f64` ↔ `UInt64`), vectors as
comma-separated lists (`-` is the empty list), integers in decimal, rationals as `p/q`.
-/
namespace Drv

def parseF (s : String) : Except String Float :=
  match s.toNat? with
  | some n => .ok (Float.ofBits n.toUInt64)
  | none => .error s!"bad float bits '{s}'"

def showF (x : Float) : String := toString x.toBits.toNat

def splitList (s : String) : List String :=
  if s == "-" then [] else s.splitOn ","

def parseFs (s : String) : Except String (List Float) := (splitList s).mapM parseF
def showFs (xs : List Float) : String :=
  if xs.isEmpty then "-" else ",".intercalate (xs.map showF)

def parseInt (s : String) : Except String Int :=
  match s.toInt? with
  | some n => .ok n
  | none => .error s!"bad int '{s}'"

def parseNat (s : String) : Except String Nat :=
  match s.toNat? with
  | some n => .ok n
  | none => .error s!"bad nat '{s}'"

def parseInts (s : String) : Except String (List Int) := (splitList s).mapM parseInt
def parseNats (s : String) : Except String (List Nat) := (splitList s).mapM parseNat
def showInts (xs : List Int) : String :=
  if xs.isEmpty then "-" else ",".intercalate (xs.map toString)
def showNats (xs : List Nat) : String :=
  if xs.isEmpty then "-" else ",".intercalate (xs.map toString)

def parseRat (s : String) : Except String Rat :=
  match s.splitOn "/" with
  | [p] => do let n ← parseInt p; pure (n : Rat)
  | [p, q] => do
      let n ← parseInt p
      let d ← parseNat q
      if d == 0 then .error "zero denominator" else pure ((n : Rat) / (d : Rat))
  | _ => .error s!"bad rat '{s}'"

def showRat (r : Rat) : String := s!"{r.num}/{r.den}"

def parseBool (s : String) : Except String Bool :=
  if s == "1" then .ok true else if s == "0" then .ok false else .error s!"bad bool '{s}'"
def showBool (b : Bool) : String := if b then "1" else "0"

abbrev Handler := List String → Except String String

end Drv
