import Flowjaxv.Driver.Util
import Flowjaxv.Gen.LeavesAst
import Flowjaxv.Model.AdFamilies
import Flowjaxv.Gen.VecAst
import Flowjaxv.Model.AdNet
/-!
Driver op for the reverse-mode model at IEEE `Float`:

  ad <Class> <method> <x> <scalar params> <vec0> <vec1> <vec2>
     → for each output component: `<value> <d/dx> <d/dscalars> <d/dvec0> <d/dvec1> <d/dvec2>` (components separated by ` | `)

Scalar parameter `i` is variable `i+1` of the generated AST, vector `j` is vector id `j`.
-/
namespace Drv
open Ad GenAst

private def runOne (e : Expr Float) (x : Float) (ss : List Float) (vs : List (List Float)) : String :=
  let env : Env Float :=
    { s := fun i => if i = 0 then x else ss.getD (i - 1) 0, v := fun j => vs.getD j [] }
  let val := e.eval env
  let g := e.vjp env 1
  let dx := Grad.total g (Key.s 0)
  let ds := (List.range ss.length).map (fun i => Grad.total g (Key.s (i + 1)))
  let dv := (List.range vs.length).map (fun j =>
    (List.range (vs.getD j []).length).map (fun p => Grad.total g (Key.v j p)))
  s!"{showF val} {showF dx} {showFs ds} " ++ " ".intercalate (dv.map showFs)

private def kernel (cls m : String) : Except String (List (Expr Float)) :=
  let x : Expr Float := Expr.var 0
  let one (e : Expr Float) := pure [e]
  let two (p : Expr Float × Expr Float) := pure [p.1, p.2]
  match cls, m with
  | "Affine", "t" => one (Affine.transform.ast x) | "Affine", "i" => one (Affine.inverse.ast x)
  | "Affine", "tl" => two (Affine.transform_and_log_det.ast x) | "Affine", "il" => two (Affine.inverse_and_log_det.ast x)
  | "Loc", "t" => one (Loc.transform.ast x) | "Loc", "i" => one (Loc.inverse.ast x)
  | "Loc", "tl" => two (Loc.transform_and_log_det.ast x) | "Loc", "il" => two (Loc.inverse_and_log_det.ast x)
  | "Scale", "t" => one (Scale.transform.ast x) | "Scale", "i" => one (Scale.inverse.ast x)
  | "Scale", "tl" => two (Scale.transform_and_log_det.ast x) | "Scale", "il" => two (Scale.inverse_and_log_det.ast x)
  | "Exp", "t" => one (Exp.transform.ast x) | "Exp", "i" => one (Exp.inverse.ast x)
  | "Exp", "tl" => two (Exp.transform_and_log_det.ast x) | "Exp", "il" => two (Exp.inverse_and_log_det.ast x)
  | "SoftPlus", "t" => one (SoftPlus.transform.ast x) | "SoftPlus", "i" => one (SoftPlus.inverse.ast x)
  | "SoftPlus", "tl" => two (SoftPlus.transform_and_log_det.ast x) | "SoftPlus", "il" => two (SoftPlus.inverse_and_log_det.ast x)
  | "Tanh", "t" => one (Tanh.transform.ast x) | "Tanh", "i" => one (Tanh.inverse.ast x)
  | "Tanh", "tl" => two (Tanh.transform_and_log_det.ast x) | "Tanh", "il" => two (Tanh.inverse_and_log_det.ast x)
  | "LeakyTanh", "t" => one (LeakyTanh.transform.ast x) | "LeakyTanh", "i" => one (LeakyTanh.inverse.ast x)
  | "LeakyTanh", "tl" => two (LeakyTanh.transform_and_log_det.ast x)
  | "LeakyTanh", "il" => two (LeakyTanh.inverse_and_log_det.ast x)
  | "RQS", "t" => one (RationalQuadraticSpline.transform.ast x) | "RQS", "i" => one (RationalQuadraticSpline.inverse.ast x)
  | "RQS", "d" => one (RationalQuadraticSpline.derivative.ast x)
  | "RQS", "tl" => two (RationalQuadraticSpline.transform_and_log_det.ast x)
  | "RQS", "il" => two (RationalQuadraticSpline.inverse_and_log_det.ast x)
  | _, _ => .error s!"unknown kernel {cls} {m}"

def ad : Handler
  | cls :: m :: x :: ss :: vs => do
      let es ← kernel cls m
      let x ← parseF x
      let ss ← parseFs ss
      let vs ← vs.mapM parseFs
      pure (" | ".intercalate (es.map (fun e => runOne e x ss vs)))
  | _ => .error "bad ad op"

/-- `adfam <Family> <pub|priv> <x> <loc> <raw scale> <raw df>` → `<value> <d/dx> <d/dloc> <d/draw scale> <d/draw df>`:
the family's private `_log_prob` (or public `log_prob`) AST of `Model/AdFamilies.lean`, value and adjoints w.r.t. the
input and the trainable leaves (ids 11, 12, 13). -/
def adfam : Handler
  | [fam, mode, x, loc, raw, rawdf] => do
      let x ← parseF x
      let loc ← parseF loc
      let raw ← parseF raw
      let rawdf ← parseF rawdf
      let some f := (AdFam.family fam : Option (Expr Float → Expr Float)) | .error s!"unknown family {fam}"
      let lp := f (Expr.var 0)
      let e ← match mode with
        | "priv" => pure lp
        | "pub" => pure (AdFam.pub lp)
        | _ => .error "mode"
      let env : Env Float :=
        { s := fun i => if i = 0 then x else if i = 11 then loc else if i = 12 then raw else if i = 13 then rawdf else 0,
          v := fun _ => [] }
      let g := e.vjp env 1
      let d (i : Nat) := Grad.total g (Key.s i)
      pure s!"{showF (e.eval env)} {showF (d 0)} {showF (d 11)} {showF (d 12)} {showF (d 13)}"
  | _ => .error "bad adfam op"

/-- value and adjoints of one output expression w.r.t. the scalars `1..ns` and every element of the vectors `0..nv-1` -/
def runVec (e : Expr Float) (env : Env Float) (ns : Nat) (lens : List Nat) : String :=
  let g := e.vjp env 1
  let ds := (List.range ns).map (fun i => Grad.total g (Key.s (i + 1)))
  let dv := lens.zipIdx.map (fun (len, j) => (List.range len).map (fun p => Grad.total g (Key.v j p)))
  s!"{showF (e.eval env)} {showFs ds} " ++ " ".intercalate (dv.map showFs)

/-- `adplanar <tanh|lrelu> <tl|il> <x> <weight> <act_scale> <bias> <negative_slope>` → for every output (the `d` elements of the
point, then the log-det): `<value> <d/dbias,d/dslope> <d/dweight> <d/dact_scale> <d/dx>`, outputs separated by ` | ` -/
def adplanar : Handler
  | [act, m, x, w, u, b, slope] => do
      let x ← parseFs x
      let w ← parseFs w
      let u ← parseFs u
      let b ← parseF b
      let slope ← parseF slope
      let d := w.length
      let xe : List (Expr Float) := Vec.ofVec 2 d
      let (ys, ld) ← match act, m with
        | "tanh", "tl" => pure (UnconditionalPlanar.transform_and_log_det_tanh.ast d xe)
        | "lrelu", "tl" => pure (UnconditionalPlanar.transform_and_log_det_lrelu.ast d xe)
        | "lrelu", "il" => pure (UnconditionalPlanar.inverse_and_log_det_lrelu.ast d xe)
        | _, _ => .error "unknown planar kernel"
      let env : Env Float := { s := fun i => if i = 1 then b else if i = 2 then slope else 0,
                               v := fun j => if j = 0 then w else if j = 1 then u else if j = 2 then x else [] }
      pure (" | ".intercalate ((ys ++ [ld]).map (fun e => runVec e env 2 [d, d, d])))
  | _ => .error "bad adplanar op"

/-- `admix <raw log-weights> <component log-probs>` → `<value> - <d/draw weights> <d/dcomponent log-probs>`: the generated
`VmapMixture._log_prob` over the generated stored-weights lambda (`log_softmax`), adjoints w.r.t. both vectors -/
def admix : Handler
  | [ws, lps] => do
      let ws ← parseFs ws
      let lps ← parseFs lps
      let k := ws.length
      let e : Expr Float := VmapMixture.log_prob.ast (VmapMixture.log_normalized_weights.ast (Vec.ofVec 0 k)) (Vec.ofVec 1 k)
      let env : Env Float := { s := fun _ => 0, v := fun j => if j = 0 then ws else if j = 1 then lps else [] }
      pure (runVec e env 0 [k, k])
  | _ => .error "bad admix op"

/-- rows of layer `l` (weights = vector `1+2l` row-major, bias = vector `2+2l`); `mask = []` means unmasked -/
private def netRows (l nin nout : Nat) (mask : List Float) : Net.Rows Float :=
  (List.range nout).map (fun i =>
    ((List.range nin).map (fun j =>
        let w : Expr Float := Expr.get (1 + 2 * l) (fun _ => Int.ofNat (i * nin + j))
        if mask.isEmpty then w else Net.masked (mask.getD (i * nin + j) 0 != 0) w),
     Expr.get (2 + 2 * l) (fun _ => Int.ofNat i)))

private def parseLayers : Nat → Nat → List String → Except String (List (Net.Rows Float) × List (List Float))
  | _, _, [] => pure ([], [])
  | l, nin, w :: m :: b :: rest => do
      let w ← parseFs w
      let m ← parseFs m
      let b ← parseFs b
      if w.length != nin * b.length then throw s!"layer {l}: weight size {w.length} != {nin} x {b.length}"
      let (rs, vs) ← parseLayers (l + 1) b.length rest
      pure (netRows l nin b.length m :: rs, w :: b :: vs)
  | _, _, _ => throw "layers come as <weights> <mask> <bias> triples"

/-- `adnet <coupling_t|coupling_i|maf_t> <relu|tanh> <u> <x> <min_scale> <init_loc> <init_raw> (<W> <mask|-> <b>)+`
→ for every output (point elements, then log-det): `<value> - <d/dx> <d/dW0> <d/db0> …` separated by ` | `
(`Model/AdNet.lean`: conditioner MLP + generated Affine transformer with `softplus + min_scale` scale). -/
def adnet : Handler
  | kind :: act :: u :: x :: ms :: il :: ir :: layers => do
      let u ← parseNat u
      let x ← parseFs x
      let ms ← parseF ms
      let il ← parseF il
      let ir ← parseF ir
      let act ← match act with
        | "relu" => pure Prim.relu | "tanh" => pure Prim.tanh | _ => throw "activation"
      let nin := if kind == "maf_t" then x.length else u
      let (rows, vecs) ← parseLayers 0 nin layers
      let some last := rows.getLast? | throw "no layers"
      let net := Net.mlp act rows.dropLast last
      let c (v : Float) : Expr Float := Expr.const v
      let xe : List (Expr Float) := Vec.ofVec 0 x.length
      let (ys, ld) ← match kind with
        | "coupling_t" => pure (Net.coupling u net (Net.affineTld (c ms) · · (c il) (c ir) ·) xe)
        | "coupling_i" => pure (Net.coupling u net (Net.affineIld (c ms) · · (c il) (c ir) ·) xe)
        | "maf_t" => pure (Net.autoreg net (Net.affineTld (c ms) · · (c il) (c ir) ·) xe)
        | _ => throw "kind"
      let allv := x :: vecs
      let env : Env Float := { s := fun _ => 0, v := fun j => allv.getD j [] }
      pure (" | ".intercalate ((ys ++ [ld]).map (fun e => runVec e env 0 (allv.map List.length))))
  | _ => .error "bad adnet op"

end Drv
