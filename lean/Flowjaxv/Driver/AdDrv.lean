import Flowjaxv.Driver.Util
import Flowjaxv.Gen.LeavesAst
/-!
Driver op for the reverse-mode model at IEEE `Float`:

  ad <Class> <method> <x> <scalar params> <vec0> <vec1> <vec2>
     → for each output component: `<value> <d/dx> <d/dscalars> <d/dvec0> <d/dvec1> <d/dvec2>` (components separated by ` | `)

Scalar parameter `i` is variable `i+1` of the generated AST, vector `j` is vector id `j`.
-/
namespace Drv
open Ad GenAst

private def runOne (e : Expr Float) (x : Float) (ss : List Float) (vs : List (List Float)) : String :=
  let env : Env Float :=
    { s := fun i => if i = 0 then x else ss.getD (i - 1) 0, v := fun j => vs.getD j [] }
  let val := e.eval env
  let g := e.vjp env 1
  let dx := Grad.total g (Key.s 0)
  let ds := (List.range ss.length).map (fun i => Grad.total g (Key.s (i + 1)))
  let dv := (List.range vs.length).map (fun j =>
    (List.range (vs.getD j []).length).map (fun p => Grad.total g (Key.v j p)))
  s!"{showF val} {showF dx} {showFs ds} " ++ " ".intercalate (dv.map showFs)

private def kernel (cls m : String) : Except String (List (Expr Float)) :=
  let x : Expr Float := Expr.var 0
  let one (e : Expr Float) := pure [e]
  let two (p : Expr Float × Expr Float) := pure [p.1, p.2]
  match cls, m with
  | "Affine", "t" => one (Affine.transform.ast x) | "Affine", "i" => one (Affine.inverse.ast x)
  | "Affine", "tl" => two (Affine.transform_and_log_det.ast x) | "Affine", "il" => two (Affine.inverse_and_log_det.ast x)
  | "Loc", "t" => one (Loc.transform.ast x) | "Loc", "i" => one (Loc.inverse.ast x)
  | "Loc", "tl" => two (Loc.transform_and_log_det.ast x) | "Loc", "il" => two (Loc.inverse_and_log_det.ast x)
  | "Scale", "t" => one (Scale.transform.ast x) | "Scale", "i" => one (Scale.inverse.ast x)
  | "Scale", "tl" => two (Scale.transform_and_log_det.ast x) | "Scale", "il" => two (Scale.inverse_and_log_det.ast x)
  | "Exp", "t" => one (Exp.transform.ast x) | "Exp", "i" => one (Exp.inverse.ast x)
  | "Exp", "tl" => two (Exp.transform_and_log_det.ast x) | "Exp", "il" => two (Exp.inverse_and_log_det.ast x)
  | "SoftPlus", "t" => one (SoftPlus.transform.ast x) | "SoftPlus", "i" => one (SoftPlus.inverse.ast x)
  | "SoftPlus", "tl" => two (SoftPlus.transform_and_log_det.ast x) | "SoftPlus", "il" => two (SoftPlus.inverse_and_log_det.ast x)
  | "Tanh", "t" => one (Tanh.transform.ast x) | "Tanh", "i" => one (Tanh.inverse.ast x)
  | "Tanh", "tl" => two (Tanh.transform_and_log_det.ast x) | "Tanh", "il" => two (Tanh.inverse_and_log_det.ast x)
  | "LeakyTanh", "t" => one (LeakyTanh.transform.ast x) | "LeakyTanh", "i" => one (LeakyTanh.inverse.ast x)
  | "LeakyTanh", "tl" => two (LeakyTanh.transform_and_log_det.ast x)
  | "LeakyTanh", "il" => two (LeakyTanh.inverse_and_log_det.ast x)
  | "RQS", "t" => one (RationalQuadraticSpline.transform.ast x) | "RQS", "i" => one (RationalQuadraticSpline.inverse.ast x)
  | "RQS", "d" => one (RationalQuadraticSpline.derivative.ast x)
  | "RQS", "tl" => two (RationalQuadraticSpline.transform_and_log_det.ast x)
  | "RQS", "il" => two (RationalQuadraticSpline.inverse_and_log_det.ast x)
  | _, _ => .error s!"unknown kernel {cls} {m}"

def ad : Handler
  | cls :: m :: x :: ss :: vs => do
      let es ← kernel cls m
      let x ← parseF x
      let ss ← parseFs ss
      let vs ← vs.mapM parseFs
      pure (" | ".intercalate (es.map (fun e => runOne e x ss vs)))
  | _ => .error "bad ad op"

end Drv
