import Flowjaxv.Driver.Masks
import Flowjaxv.Driver.Params
import Flowjaxv.Model.Flows
import Flowjaxv.Model.Bisection
import Flowjaxv.Prelude.Stats
/-!
Driver ops for the premade flows (`Model/Flows.lean` over the GENERATED `Gen/Flows.lean`), instantiated at `Float`.
The layer models are the existing ones (`couplingBij`, `mafBij`, the generated planar methods, `bnafTransform`,
`Tri.TriAffine`, the generated spline / LeakyTanh); this file only parses the UNSTACKED per-layer parameters of a real
flow and hands them to the generated factory body.

  flow adp <dim> <perm> <xs>             generated `_add_default_permute` applied to the identity: `<fwd xs> <inv xs>`
  flow minscale <m> <raw>                generated `_affine_with_min_scale(m)`, trainable entry := raw: unwrapped scale
  flow minscaleinit <m>                  `<stored raw value> <unwrapped scale> <default min_scale of the signature>`
  flow tfinit                            `init` of the default transformer: `[loc, scale.arr]`
  flow run <kind> <m> <invert 0|1> <dim> <cond_dim|-1> <x> <cond> <n> <header…> <layer fields…>×n
      m ∈ t | tl | i | il (methods of `flow.bijection`)  |  lp (`_log_prob(x)`, standard normal base)
          | s | slp (`_sample`, `_sample_and_log_prob`; `<x>` is the base sample)
      kind / header / per-layer fields (perm = `-` when `dim ≤ 2`):
        coupling <act> <width> <depth> <TF>                 <perm> (<W flat> <b>)×(depth+1)
        maf      <act> <width> <depth> <TF>                 <perm> (<W flat> <b>)×(depth+1)
        planar   <slope | tanh>                             <perm> P <params>  |  <perm> M <act> <width> <depth> (<W flat> <b>)×(depth+1)
        bnaf     <act | leaky:max_val> <depth> <block_dim> <lower> <upper> <tol> <max_iter> <fuel>
                                                            <perm> <C flat | -> (<W flat> <b> <scale_raw>)×(#layers)      (t, i only)
        trispline <tanh_max_val>                            <perm> <C flat | -> <lo> <hi> (<xs> <ys> <ds>)×dim <A flat> <loc>
        gentrispline <tanh_max_val> <knots>                 <perm> <weights flat (what `init(lt_key, (dim, dim))` returns)> <C flat | ->
                                                            (the GENERATED `triangular_spline_flow.make_layer`: layer as constructed)
      TF = AFF <init> | AFFM <min_scale> <init> | AFF0 <init> | RQS <knots> <lo> <hi> <softmax_adjust> <min_derivative> <init>
-/
namespace Drv
open Gen Masks Flows

private def takeN (k : Nat) (l : List String) : Except String (List String × List String) :=
  if l.length < k then .error "too few fields" else .ok (l.take k, l.drop k)

private def parsePerm (s : String) : Except String (List Nat) := parseNats s

/-- activations of `parseAct`, plus `leaky:<max_val bits>` = the GENERATED `LeakyTanh(max_val).transform` (BNAF's default) -/
private def parseActL (s : String) : Except String (Float → Float) :=
  match s.splitOn ":" with
  | ["leaky", m] => do
      let p : LeakyTanh Float := LeakyTanh.init (← parseF m)
      pure p.transform
  | _ => parseAct s

/-- (number of parameters per transformed coordinate, transformer family, remaining tokens) -/
private def parseTF : List String → Except String (Nat × (List Float → Bij Float Unit Float) × List String)
  | "AFF" :: init :: r => do pure (2, affineFamily (defaultAffine (α := Float)) (← parseFs init), r)
  | "AFFM" :: m :: init :: r => do pure (2, affineFamily (affine_with_min_scale (← parseF m)) (← parseFs init), r)
  | "AFF0" :: init :: r => do pure (2, affineFamily (affineDefault (α := Float)) (← parseFs init), r)
  | "RQS" :: k :: lo :: hi :: adj :: md :: init :: r => do
      let k ← parseNat k
      let cfg : RqsCfg Float := ⟨k, (← parseF lo, ← parseF hi), ← parseF adj, ← parseF md⟩
      pure (3 * k + 2, rqsFamily cfg (← parseFs init), r)
  | _ => .error "bad transformer spec"

/-- a plain `eqx.nn.MLP` with layer sizes `dims` from `2·(#dims − 1)` tokens -/
private def parseMlp (actf : Float → Float) (dims : List Nat) (toks : List String) :
    Except String ((List Float → List Float) × List String) := do
  let (mine, rest) ← takeN (2 * (dims.length - 1)) toks
  let (ws, bs) ← parseLayers dims mine
  let masks := (dims.zip dims.tail).map fun (a, b) => List.replicate b (List.replicate a true)
  pure (mlpForward actf (mkLayers masks ws bs), rest)

private def parseLayersN {κ : Type} (one : List String → Except String (κ × List String)) :
    Nat → List String → Except String (List κ × List String)
  | 0, r => pure ([], r)
  | k + 1, r => do
      let (a, r) ← one r
      let (as, r) ← parseLayersN one k r
      pure (a :: as, r)

private def keyOf {κ : Type} (dflt : κ) (ls : List κ) : Nat → κ := fun i => ls.getD i dflt

/-- standard normal base on vectors whose "key" is the base sample itself -/
def stdNormalVec : VDist (List Float) Float :=
  (Gen.DistCore.mk (fun k _ => k) (fun x _ => Jnp.sum (x.map Stats.normLogpdf))).toDist

private def runFlow (m : String) (b : VBij Float) (d : VDist (List Float) Float) (x c : List Float) (fwdOnly := false) :
    Except String String :=
  match m with
  | "t" => pure (showFs (b.fwd x c))
  | "tl" => let r := b.fwdLd x c; pure s!"{showFs r.1} {showF r.2}"
  | "i" => if fwdOnly then pure "NOTIMPL" else pure (showFs (b.inv x c))
  | "il" => if fwdOnly then pure "NOTIMPL" else let r := b.invLd x c; pure s!"{showFs r.1} {showF r.2}"
  | "lp" => pure (showF (d.logProb x c))
  | "s" => pure (showFs (d.sample x c))
  | "slp" => let r := d.sampleLp x c; pure s!"{showFs r.1} {showF r.2}"
  | _ => .error "method"

private def rowsOf (rows cols : Nat) (flat : List Float) : List (List Float) := toMat rows cols flat

def flow : Handler
  | ["adp", dim, perm, xs] => do
      let b : VBij Float := add_default_permute Bij.id (← parseNat dim) (← parsePerm perm)
      let xs ← parseFs xs
      pure s!"{showFs (b.fwd xs [])} {showFs (b.inv xs [])}"
  | ["minscale", m, raw] => do
      let p : AffineP Float := affine_with_min_scale (← parseF m)
      pure (showF ({ p.scale with arr := ← parseF raw } : Params.BijectionReparam Float).unwrap)
  | ["minscaleinit", m] => do
      let p : AffineP Float := affine_with_min_scale (← parseF m)
      pure s!"{showF p.scale.arr} {showF p.unwrap.scale} {showF (affine_with_min_scale.min_scale_default : Float)}"
  | ["tfinit"] => pure (showFs (defaultTransformerInit (α := Float)))
  | "run" :: kind :: m :: invert :: dim :: cdim :: x :: cond :: n :: rest => do
      let invert ← parseBool invert
      let dim ← parseNat dim
      let cd ← parseCond cdim
      let x ← parseFs x
      let c ← parseFs cond
      let n ← parseNat n
      if x.length ≠ dim then .error "x shape"
      if c.length ≠ cd.getD 0 then .error "condition shape"
      match kind with
      | "coupling" =>
          match rest with
          | act :: width :: depth :: r => do
              let actf ← parseAct act; let w ← parseNat width; let depth ← parseNat depth
              let (np, tf, r) ← parseTF r
              let d := dim / 2
              let dims := (d + cd.getD 0) :: (List.replicate depth w ++ [(dim - d) * np])
              let one : List String → Except String (((List Float → List Float) × List Nat) × List String)
                | perm :: r => do
                    let (f, r) ← parseMlp actf dims r
                    pure ((f, ← parsePerm perm), r)
                | _ => .error "layer fields"
              let (ls, r) ← parseLayersN one n r
              if !r.isEmpty then .error "trailing tokens"
              let key := keyOf ((fun _ => []), []) ls
              runFlow m (couplingFlowBij tf dim key n invert) (couplingFlow tf dim key n invert stdNormalVec) x c
          | _ => .error "coupling header"
      | "maf" =>
          match rest with
          | act :: width :: depth :: r => do
              let actf ← parseAct act; let w ← parseNat width; let depth ← parseNat depth
              let (np, tf, r) ← parseTF r
              let dims := (dim + cd.getD 0) :: (List.replicate depth w ++ [dim * np])
              let one : List String → Except String ((MafNet Float × List Nat) × List String)
                | perm :: r => do
                    let (mine, r) ← takeN (2 * (depth + 1)) r
                    let (ws, bs) ← parseLayers dims mine
                    let N : MafNet Float := { dim := dim, condDim := cd, width := w, depth := depth, numParams := np,
                                              weights := ws, biases := bs, act := actf }
                    pure ((N, ← parsePerm perm), r)
                | _ => .error "layer fields"
              let (ls, r) ← parseLayersN one n r
              if !r.isEmpty then .error "trailing tokens"
              let dflt : MafNet Float := { dim := dim, condDim := cd, width := w, depth := depth, numParams := np,
                                           weights := [], biases := [], act := actf }
              let key := keyOf (dflt, []) ls
              runFlow m (mafFlowBij tf dim key n invert) (mafFlow tf dim key n invert stdNormalVec) x c
          | _ => .error "maf header"
      | "planar" =>
          match rest with
          | slope :: r => do
              let one : List String → Except String (((List Float → List Float) × List Nat) × List String)
                | perm :: "P" :: params :: r => do
                    let ps ← parseFs params
                    pure (((fun _ => ps), ← parsePerm perm), r)
                | perm :: "M" :: act :: width :: depth :: r => do
                    let actf ← parseAct act; let w ← parseNat width; let depth ← parseNat depth
                    let dims := (cd.getD 0) :: (List.replicate depth w ++ [2 * dim + 1])
                    let (f, r) ← parseMlp actf dims r
                    pure ((f, ← parsePerm perm), r)
                | _ => .error "layer fields"
              let (ls, r) ← parseLayersN one n r
              if !r.isEmpty then .error "trailing tokens"
              let key := keyOf ((fun _ => []), []) ls
              if slope == "tanh" then
                -- forward methods only: the placeholders of the inverse fields are never evaluated — an op that would reach
                -- them is answered `NOTIMPL` (the library raises NotImplementedError there)
                let scanB : VBij Float :=
                  ⟨planarTanhFlowFwd dim key n, fun y _ => y, planarTanhFlowFwdLd dim key n, fun y _ => (y, 0)⟩
                let b := if invert then invertOf scanB else scanB
                let ok := if invert then ["i", "il", "lp"] else ["t", "tl", "s", "slp"]
                if ok.contains m then runFlow m b (transformedOf stdNormalVec b) x c else pure "NOTIMPL"
              else
                let s ← parseF slope
                runFlow m (planarFlowBij dim s key n invert) (planarFlow dim s key n invert stdNormalVec) x c
          | _ => .error "planar header"
      | "bnaf" =>
          match rest with
          | act :: depth :: bd :: lower :: upper :: tol :: mi :: fuel :: r => do
              let actf ← parseActL act; let depth ← parseNat depth; let bd ← parseNat bd
              let lower ← parseF lower; let upper ← parseF upper; let tol ← parseF tol
              let mi ← parseInt mi; let fuel ← parseNat fuel
              let shapes := bnafBlockShapes depth bd
              let out0 := match shapes with | (b0, _) :: _ => b0 * dim | [] => 0
              let one : List String → Except String ((BnafNet Float × List Nat) × List String)
                | perm :: cmat :: r => do
                    let (mine, r) ← takeN (3 * shapes.length) r
                    let layers ← parseBnafLayers dim shapes mine
                    let cflat ← parseFs cmat
                    let cl : Option (List (List Float)) := cd.map fun k => toMat out0 k cflat
                    pure ((⟨layers, cl, fun _ _ => 0.0 / 0.0⟩, ← parsePerm perm), r)
                | _ => .error "layer fields"
              let (ls, r) ← parseLayersN one n r
              if !r.isEmpty then .error "trailing tokens"
              let key := keyOf (⟨[], none, fun _ _ => 0.0 / 0.0⟩, []) ls
              let inverter : (List Float → List Float → List Float) → List Float → List Float → List Float :=
                fun T y c =>
                  (Model.autoregressiveBisection (fun x => List.zipWith (· - ·) (T x c) y) lower upper tol dim mi fuel).getD []
              let b := bnafFlowBij dim actf inverter key n invert
              match m with
              | "t" => pure (showFs (b.fwd x c))
              | "i" => pure (showFs (b.inv x c))
              | _ => .error "bnaf: only t / i (the log-det accumulation is not modelled)"
          | _ => .error "bnaf header"
      | "trispline" =>
          match rest with
          | mv :: r => do
              let mv ← parseF mv
              let one : List String → Except String ((TriSplineNet Float × List Nat) × List String)
                | perm :: cmat :: lo :: hi :: r => do
                    let lo ← parseF lo; let hi ← parseF hi
                    let (sp, r) ← takeN (3 * dim) r
                    let rec splines : List String → Except String (List (RationalQuadraticSpline Float))
                      | xs :: ys :: ds :: t => do
                          let s : RationalQuadraticSpline Float :=
                            { interval := (lo, hi), x_pos := ← parseFs xs, y_pos := ← parseFs ys, derivatives := ← parseFs ds }
                          pure (s :: (← splines t))
                      | [] => pure []
                      | _ => .error "spline fields"
                    let sps ← splines sp
                    match r with
                    | a :: loc :: r => do
                        let tri : Tri.TriAffine Float :=
                          { triangular := rowsOf dim dim (← parseFs a), loc := ← parseFs loc, lower := true }
                        let cflat ← parseFs cmat
                        let cl : Option (List (List Float)) := cd.map fun k => toMat dim k cflat
                        pure ((⟨sps, tri, cl⟩, ← parsePerm perm), r)
                    | _ => .error "triangular fields"
                | _ => .error "layer fields"
              let (ls, r) ← parseLayersN one n r
              if !r.isEmpty then .error "trailing tokens"
              let key := keyOf (⟨[], ⟨[], [], true⟩, none⟩, []) ls
              runFlow m (triSplineFlowBij dim mv key n invert) (triSplineFlow dim mv key n invert stdNormalVec) x c
          | _ => .error "trispline header"
      | "gentrispline" =>
          -- the GENERATED `triangular_spline_flow.make_layer` / `get_splines` (layer as constructed from its keys)
          match rest with
          | mv :: knots :: r => do
              let mv ← parseF mv
              let knots ← parseNat knots
              let one : List String → Except String (TriSplineKey Float × List String)
                | perm :: w :: cmat :: r => do
                    let cflat ← parseFs cmat
                    pure ((rowsOf dim dim (← parseFs w), ← parsePerm perm, toMat dim (cd.getD 0) cflat), r)
                | _ => .error "layer fields"
              let (ls, r) ← parseLayersN one n r
              if !r.isEmpty then .error "trailing tokens"
              let key := keyOf (([], [], []) : TriSplineKey Float) ls
              runFlow m (genTriSplineFlowBij dim mv knots cd key n invert)
                (genTriSplineFlow dim mv knots cd key n invert stdNormalVec) x c
          | _ => .error "gentrispline header"
      | _ => .error s!"unknown flow kind {kind}"
  | _ => .error "bad flow op"

end Drv
