import Flowjaxv.Driver.Bisection
import Flowjaxv.Gen.BisectionGen
/-!
Driver ops running the GENERATED whole functions of `Gen/BisectionGen.lean` (regenerated from `flowjax/bisection_search.py`),
at exact `Rat` (`R`) or `Float` (`F`), beside the hand-model ops `bis` / `ar` / `archeck` of `Driver/Bisection.lean`
(same argument syntax, same function families).

  gbis <R|F> <lower> <upper> <tol> <max_iter> <fuel> <fn…>
        → `ok <root> <adapt_iterations> <iterations> <lo0> <hi0> <adapt_iterations of the adaptation alone>`
          root / counts from generated `_bisection_search`, (lo0, hi0) from generated `_adapt_interval_to_include_root`
        → `valueerror` | `nofuel`
  gar   <R|F> <lower> <upper> <tol> <max_iter> <fuel> <n> <fn_0…> … <L> <M>
        → `ok <roots>` from generated `_autoregressive_bisection_search` | `valueerror` | `nofuel`
  ginv  <R|F> <lower> <upper> <tol> <max_iter> <fuel> <n> <fn_0…> … <L> <M> <y>
        generated `AutoregressiveBisectionInverter.__check_init__` then `.__call__(bijection, y, None)` with
        `bijection.transform = arFn …`, `bijection.shape = (n,)`
        → `ok <roots>` | `valueerror` (either the constructor guard or `_bisection_search`'s) | `nofuel`
  garcheck <R|F> <lower> <upper> <tol> <max_iter>   → `1` iff generated `__check_init__` returns
-/
namespace Drv
open Gen Model

section generic
variable {α : Type} [Add α] [Sub α] [Mul α] [Div α] [Neg α] [LT α] [LE α] [BEq α]
  [OfNat α 0] [OfNat α 1] [OfNat α 2] [OfNat α 4] [OfScientific α]
  [DecidableLT α] [DecidableLE α] [Transc α] [Inhabited α]

def resLine {β : Type} (r : Bw.Res β) (f : β → String) : String :=
  match r with
  | .ok v => f v
  | .valueError => "valueerror"
  | .noFuel => "nofuel"

def runGBis (io : NumIO α) : List String → Except String String
  | lower :: upper :: tol :: mi :: fuel :: fn => do
      let lower ← io.parse lower
      let upper ← io.parse upper
      let tol ← io.parse tol
      let mi ← parseInt mi
      let fuel ← parseNat fuel
      let (fe, rest) ← parseFn io fn
      if !rest.isEmpty then .error "trailing tokens"
      let func := fe.eval
      pure <| resLine (GenBis.bisectionSearch fuel func lower upper tol mi) fun (root, ai, it) =>
        resLine (GenBis.adaptInterval fuel func lower upper (2 : α)) fun (lo0, hi0, ai0) =>
          s!"ok {io.render root} {ai} {it} {io.render lo0} {io.render hi0} {ai0}"
  | _ => .error "bad gbis op"

def parseArArgs (io : NumIO α) : List String → Except String (α × α × α × Int × Nat × Nat × (List α → List α) × List String)
  | lower :: upper :: tol :: mi :: fuel :: n :: rest => do
      let lower ← io.parse lower
      let upper ← io.parse upper
      let tol ← io.parse tol
      let mi ← parseInt mi
      let fuel ← parseNat fuel
      let n ← parseNat n
      let (fns, rest) ← parseFns io n rest []
      match rest with
      | l :: m :: rest =>
        let l ← (splitList l).mapM io.parse
        let m ← (splitList m).mapM io.parse
        if l.length != n * n || m.length != n * n then .error "matrix size"
        pure (lower, upper, tol, mi, fuel, n, arFn fns l m n, rest)
      | _ => .error "bad ar matrices"
  | _ => .error "bad ar op"

def runGAr (io : NumIO α) (args : List String) : Except String String := do
  let (lower, upper, tol, mi, fuel, n, fn, rest) ← parseArArgs io args
  if !rest.isEmpty then .error "trailing tokens"
  pure <| resLine (GenBis.autoregressiveBisectionSearch fuel fn lower upper tol n mi) fun roots => s!"ok {renderList io roots}"

def runGInv (io : NumIO α) (args : List String) : Except String String := do
  let (lower, upper, tol, mi, fuel, n, fn, rest) ← parseArArgs io args
  match rest with
  | [y] =>
    let y ← (splitList y).mapM io.parse
    let self : Bw.Inverter α := ⟨lower, upper, tol, mi⟩
    let bij : Bw.Bijection α Unit := ⟨fun x _ => fn x, [n]⟩
    pure <| resLine (GenBis.Inverter.checkInit fuel self) fun _ =>
      resLine (GenBis.Inverter.call fuel self bij y ()) fun roots => s!"ok {renderList io roots}"
  | _ => .error "bad ginv op"

def runGArCheck (io : NumIO α) : List String → Except String String
  | [lower, upper, tol, mi] => do
      let self : Bw.Inverter α := ⟨← io.parse lower, ← io.parse upper, ← io.parse tol, ← parseInt mi⟩
      pure (match GenBis.Inverter.checkInit 0 self with
        | .ok _ => "1"
        | _ => "0")
  | _ => .error "bad garcheck op"

end generic

def gbis : Handler := withMode (runGBis ratIO) (runGBis floatIO)
def gar : Handler := withMode (runGAr ratIO) (runGAr floatIO)
def ginv : Handler := withMode (runGInv ratIO) (runGInv floatIO)
def garcheck : Handler := withMode (runGArCheck ratIO) (runGArCheck floatIO)

end Drv
