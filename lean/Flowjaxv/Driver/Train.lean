import Flowjaxv.Driver.Util
import Flowjaxv.Model.Train
/-!
Driver ops for `Model/Train.lean` (C15 / C16).

  cfruit <ints>                                   -> `<argmin> <count_fruitless>`
  fit <maxEpochs> <maxPatience> <rb> <val> <trn>  -> `<epochs> <returned> <#train> <#val> <val…> <trn…>`
  vi <steps> <rb> <script>                        -> `<steps> <returned> <#losses> <losses…>`
  vipost <steps> <rb> <script>                    -> same, for the pre-0ab1adc behaviour
  nval <n> <val_prop bits>                        -> `round(val_prop * n)` (half to even, float product)
  addbatch <b> <n>                                -> batches of `0..n-1` (`|`-separated) or NONE (b' = 0)
  fitdata <n> <b> <nVal> <epochs> <π₀> <π_0> <σ_0> <π_1> <σ_1> …
        explicit permutations in program order (split, then per epoch train shuffle, val shuffle);
        missing permutations default to the identity (used to obtain the key schedule first).
        -> `NONE` | `OK split=<key> train=<ints> val=<ints> {E tk=<key> vk=<key> to=<ints> vo=<ints> T=<key>:<ints>;… V=<key>:<ints>;…}`
  keys are printed root-first: `r/2.0/3.1` = `split(split(root,2)[0],3)[1]`.

Scripts are read cyclically-free: index `e` beyond the script reads 0 (never happens when
`maxEpochs ≤ len`; the harness keeps to that).
-/
namespace Drv
open Train

def showKey (p : Path) : String :=
  "/".intercalate ("r" :: p.reverse.map (fun s => s!"{s.1}.{s.2}"))

def showCalls (cs : List (Call Nat)) : String :=
  if cs.isEmpty then "-" else ";".intercalate (cs.map (fun c => s!"{showKey c.key}:{showNats c.rows}"))

def script (l : List Int) : Nat → Int := fun e => l.getD e 0

def cfruit : Handler
  | [ls] => do
      let l ← parseInts ls
      if l.isEmpty then .error "empty list (jnp.argmin raises)" else
      pure s!"{argmin l} {countFruitless l}"
  | _ => .error "cfruit <ints>"

def fit : Handler
  | [me, mp, rb, vs, ts] => do
      let v ← parseInts vs
      let t ← parseInts ts
      let r := fitToData (script t) (script v) (← parseNat me) (← parseNat mp) (← parseBool rb)
      pure s!"{r.epochs} {r.returned} {r.train.length} {r.val.length} {showInts r.val} {showInts r.train}"
  | _ => .error "fit <maxEpochs> <maxPatience> <rb> <val> <trn>"

def viShow (r : ViResult) : String := s!"{r.steps} {r.returned} {r.losses.length} {showInts r.losses}"

def vi : Handler
  | [st, rb, ls] => do
      pure (viShow (fitToVariationalTarget (script (← parseInts ls)) (← parseNat st) (← parseBool rb)))
  | _ => .error "vi <steps> <rb> <script>"

def vipost : Handler
  | [st, rb, ls] => do
      pure (viShow (fitToVariationalTargetPostUpdate (script (← parseInts ls)) (← parseNat st) (← parseBool rb)))
  | _ => .error "vipost <steps> <rb> <script>"

def nval : Handler
  | [n, vp] => do
      let n ← parseNat n
      let vp ← parseF vp
      pure (toString (roundHalfEven (vp * n.toFloat)))
  | _ => .error "nval <n> <val_prop>"

def addbatch : Handler
  | [b, n] => do
      let b ← parseNat b
      let n ← parseNat n
      if min b n == 0 then pure "NONE" else
      pure ("|".intercalate ((addBatch b (List.range n)).map showNats))
  | _ => .error "addbatch <b> <n>"

def showEpoch (e : Epoch Nat) : String :=
  s!"E tk={showKey e.trainShuffleKey} vk={showKey e.valShuffleKey} to={showNats e.trainOrder} vo={showNats e.valOrder} T={showCalls e.trainCalls} V={showCalls e.valCalls}"

def fitdata : Handler
  | n :: b :: nv :: ep :: perms => do
      let n ← parseNat n
      let b ← parseNat b
      let nv ← parseNat nv
      let ep ← parseNat ep
      let ps ← perms.mapM parseNats
      let ident : Path → Nat → List Nat := fun _ m => List.range m
      -- the key schedule does not depend on the permutations: read the shuffle keys off an identity run
      match fitData ident nv b ep (List.range n) with
      | none => pure "NONE"
      | some r0 =>
        let shuffleKeys := r0.splitKey :: r0.epochs.flatMap (fun e => [e.trainShuffleKey, e.valShuffleKey])
        let table := shuffleKeys.zip ps
        let perm : Path → Nat → List Nat := fun p m =>
          match table.lookup p with
          | some π => π
          | none => List.range m
        match fitData perm nv b ep (List.range n) with
        | none => pure "NONE"
        | some r =>
          pure (" ".intercalate
            (s!"OK split={showKey r.splitKey} train={showNats r.train} val={showNats r.val}" :: r.epochs.map showEpoch))
  | _ => .error "fitdata <n> <b> <nVal> <epochs> <perms…>"

end Drv
