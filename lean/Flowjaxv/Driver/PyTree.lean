import Flowjaxv.Driver.Util
import Flowjaxv.Model.Tree
import Flowjaxv.Model.UnwrapKnot
/-!
Driver op for the pytree / wrapper model (`Model/Tree.lean`, property C12):

  pytree unwrap <tree>            skeleton of `unwrap t` | tags applied (in order) | tags applied by a
                                  second pass | unwrap (unwrap t) == unwrap t | batch dims of computed arrays
  pytree part <tree>              ids of params-half arrays | ids of static-half arrays | non-array leaf ids
                                  in the params half | … in the static half | num_params | combine == t
  pytree ctor <v> <tree>          array leaves `id:data` of `constructor(v)` (ERR on a wrong length)
  pytree upd <tree u> <tree p>    array leaves of `apply_updates(p, u)` (ERR when it raises)
  pytree slice <i> <tree>         skeleton + leaves of the `i`-th slice of a vmapped-built tree
  pytree gunwrap <tree>           the GENERATED `unwrap` (`Gen/UnwrapGen.lean` through `Model/UnwrapKnot.lean`): skeleton | idempotent |
                                  no wrappers | batch dims of computed arrays | == hand `unwrap` (structure and data) | same with
                                  3 more units of fuel | generated `recursive_unwrap` of the root (when a wrapper) == hand
  pytree gpart <tree>             the GENERATED partition statement of `fit_to_data`: the fields of `part` | `fit_to_variational_target`'s
                                  gives the same halves | == hand `partP` / `partS`
  pytree gnt <tree>               the GENERATED `non_trainable`: skeleton | ids of the params half of the generated partition of it |
                                  ids of its static half | == hand `nonTrainableT`

`tree` in prefix notation, one token per field:
  N | A id ix arr | S id | C n tree×n | W kind tag batch n tree×n     kind ∈ NT BR WH WN LA, batch = int list
  arr := D floats | B n arr×n
The `.unwrap()` bodies are symbolic here (`drvF`): computing wrappers return a fresh array named
`1000 + tag` (a `Lambda` whose function leaf is `S 9001` returns a pair, `S 9002` its first positional
argument unchanged), so that structure, order of application and data flow of untouched leaves are
what is compared with the real `unwrap`.
-/
namespace Drv
open PyTree

abbrev PT := Tree Float

partial def parseArr : List String → Except String (Arr Float × List String)
  | "D" :: d :: r => do pure (.base (← parseFs d), r)
  | "B" :: n :: r => do
      let n ← parseNat n
      let rec go (k : Nat) (r : List String) (acc : List (Arr Float)) : Except String (List (Arr Float) × List String) :=
        match k with
        | 0 => pure (acc.reverse, r)
        | k + 1 => do
            let (a, r) ← parseArr r
            go k r (a :: acc)
      let (xs, r) ← go n r []
      pure (.batch xs, r)
  | t :: _ => .error s!"bad array token {t}"
  | [] => .error "unexpected end of array"

def parseKind : String → Except String Kind
  | "NT" => pure .nonTrainable
  | "BR" => pure .reparam
  | "WH" => pure .whereK
  | "WN" => pure .weightNorm
  | "LA" => pure .lambda
  | s => .error s!"bad kind {s}"

def showKind : Kind → String
  | .nonTrainable => "NT" | .reparam => "BR" | .whereK => "WH" | .weightNorm => "WN" | .lambda => "LA"

partial def parsePT : List String → Except String (PT × List String)
  | "N" :: r => pure (.none, r)
  | "A" :: id :: ix :: r => do
      let (a, r) ← parseArr r
      pure (.arr (← parseNat id) (← parseBool ix) a, r)
  | "S" :: id :: r => do pure (.static (← parseNat id), r)
  | "C" :: n :: r => do
      let (cs, r) ← parseMany (← parseNat n) r []
      pure (.node cs, r)
  | "W" :: k :: tag :: b :: n :: r => do
      let (cs, r) ← parseMany (← parseNat n) r []
      pure (.wrap (← parseKind k) (← parseNat tag) (← parseNats b) cs, r)
  | t :: _ => .error s!"bad pytree token {t}"
  | [] => .error "unexpected end of pytree"
where
  parseMany (k : Nat) (r : List String) (acc : List PT) : Except String (List PT × List String) :=
    match k with
    | 0 => pure (acc.reverse, r)
    | k + 1 => do
        let (c, r) ← parsePT r
        parseMany k r (c :: acc)

/-- symbolic `.unwrap()` bodies (see the header) -/
def drvF : WrapFn Float := fun k tag cs =>
  match k, cs with
  | .lambda, [.static 9001, _, _] => .node [.arr (1000 + tag) true (.base []), .arr (2000 + tag) true (.base [])]
  | .lambda, [.static 9002, .node (a :: _), _] => a
  | _, _ => .arr (1000 + tag) true (.base [])

mutual
partial def showArr : Arr Float → String
  | .base d => s!"D{showFs d}"
  | .batch xs => "B[" ++ " ".intercalate (xs.map showArr) ++ "]"
end

partial def batchDims : Arr Float → List Nat
  | .base _ => []
  | .batch xs => xs.length :: (match xs with | x :: _ => batchDims x | [] => [])

/-- skeleton: original arrays by id, computed ones as `A*` -/
partial def skel : PT → String
  | .none => "N"
  | .arr id _ _ => if id < 1000 then s!"A{id}" else "A*"
  | .static id => s!"S{id}"
  | .node cs => "C[" ++ " ".intercalate (cs.map skel) ++ "]"
  | .wrap k _ _ cs => s!"W{showKind k}[" ++ " ".intercalate (cs.map skel) ++ "]"

/-- full canonical string (structure and data) -/
partial def full : PT → String
  | .none => "N"
  | .arr id ix a => s!"A{id}:{showBool ix}:{showArr a}"
  | .static id => s!"S{id}"
  | .node cs => "C[" ++ " ".intercalate (cs.map full) ++ "]"
  | .wrap k tag b cs => s!"W{showKind k}:{tag}:{showNats b}[" ++ " ".intercalate (cs.map full) ++ "]"

def showLeaves (ls : List (Leaf Float)) : String :=
  if ls.isEmpty then "-" else ";".intercalate (ls.map fun l => s!"{l.1}:{showFs l.2.2.flat}")

def leafIds (ls : List (Leaf Float)) : String := showNats (ls.map (·.1))

def computedDims (t : PT) : String :=
  let ds := (leaves t).filter (fun l => l.1 ≥ 1000) |>.map fun l => showNats (batchDims l.2.2)
  if ds.isEmpty then "-" else ";".intercalate ds

/-- elementwise float addition of the data, keeping the first argument's shape -/
partial def addArr : Arr Float → Arr Float → Arr Float
  | .base d, u => .base (List.zipWith (· + ·) d u.flat)
  | .batch xs, .batch us => .batch (List.zipWith addArr xs us)
  | a, _ => a

def pytree : Handler
  | "unwrap" :: toks => do
      let (t, rest) ← parsePT toks
      if !rest.isEmpty then .error "trailing tokens"
      let r := unwrapM drvF t []
      let r2 := unwrapM drvF r.1 []
      let idem := full r2.1 == full r.1 && full (unwrap drvF t) == full r.1
      pure s!"{skel r.1} | {showNats r.2} | {showNats r2.2} | {showBool idem} | {showBool (noWrap r.1)} | {computedDims r.1}"
  | "part" :: toks => do
      let (t, rest) ← parsePT toks
      if !rest.isEmpty then .error "trailing tokens"
      let p := partP t
      let s := partS t
      pure s!"{leafIds (leaves p)} | {leafIds (leaves s)} | {showNats (statics p)} | {showNats (statics s)} | {numParams t} | {showBool (full (combine p s) == full t)} | {skel p} | {skel s}"
  | "ctor" :: v :: toks => do
      let (t, rest) ← parsePT toks
      if !rest.isEmpty then .error "trailing tokens"
      match constructor (· + ·) t (← parseFs v) with
      | some t' => pure s!"{showLeaves (leaves t')} | {skel t'}"
      | none => .error "size"
  | "upd" :: toks => do
      let (u, rest) ← parsePT toks
      let (p, rest) ← parsePT rest
      if !rest.isEmpty then .error "trailing tokens"
      match applyU addArr u p with
      | some p' => pure s!"{showLeaves (leaves p')} | {skel p'}"
      | none => .error "raises"
  | "gunwrap" :: toks => do
      let (t, rest) ← parsePT toks
      if !rest.isEmpty then .error "trailing tokens"
      let r := genUnwrap drvF t
      let r2 := genUnwrap drvF r
      let hand := unwrap drvF t
      let fuel := full (unwrapFuel drvF (wdepth t + 3) t) == full r
      let rec_ := match t with
        | .wrap _ _ _ _ => full (genRecursiveUnwrap drvF t) == full hand
        | _ => true
      pure s!"{skel r} | {showBool (full r2 == full r)} | {showBool (noWrap r)} | {computedDims r} | {showBool (full r == full hand)} | {showBool fuel} | {showBool rec_}"
  | "gpart" :: toks => do
      let (t, rest) ← parsePT toks
      if !rest.isEmpty then .error "trailing tokens"
      let g := GenUnwrap.fitToDataPartition t
      let v := GenUnwrap.fitToVariationalTargetPartition t
      let p := g.1
      let s := g.2
      let same := full v.1 == full p && full v.2 == full s
      let hand := full (partP t) == full p && full (partS t) == full s
      pure s!"{leafIds (leaves p)} | {leafIds (leaves s)} | {showNats (statics p)} | {showNats (statics s)} | {(ravel p).length} | {showBool (full (combine p s) == full t)} | {skel p} | {skel s} | {showBool same} | {showBool hand}"
  | "gnt" :: toks => do
      let (t, rest) ← parsePT toks
      if !rest.isEmpty then .error "trailing tokens"
      let r := GenUnwrap.nonTrainable t
      let g := GenUnwrap.fitToDataPartition r
      pure s!"{skel r} | {leafIds (leaves g.1)} | {leafIds (leaves g.2)} | {showBool (full r == full (nonTrainableT t))}"
  | "slice" :: i :: toks => do
      let (t, rest) ← parsePT toks
      if !rest.isEmpty then .error "trailing tokens"
      let t' := sliceT (← parseNat i) t
      pure s!"{showLeaves (leaves t')} | {skel t'}"
  | _ => .error "bad pytree op"

end Drv
