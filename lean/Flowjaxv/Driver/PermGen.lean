import Flowjaxv.Driver.Util
import Flowjaxv.Gen.PermGen
/-!
Driver ops running the GENERATED `Permute` (`Gen/PermGen.lean`).

  gpermute <m> <shape> <perm ints> <x floats>   `Permute(perm.reshape(shape)).<m>(x.reshape(shape))`, m ∈ t | i | tl | il ->
                                                `<result shape> <data>[ <log-det>]` or `REJ <exception class>`
  gpermctor <shape> <perm ints>                 the generated `__init__`: `OK <shape> <permutation tuple> <inverse_permutation tuple>`
                                                (a tuple: the index arrays' data joined by `;`, `E` = empty tuple) or `REJ <class>`
-/
namespace Drv
open PermPrims Gen.PermGen

private def showTup (t : List IArr) : String :=
  if t.isEmpty then "E" else ";".intercalate (t.map fun a => showInts a.data)

private def showFA (a : FArr Float) : String := s!"{showNats a.shape} {showFs a.data}"

def gpermute : Handler
  | [m, shape, perm, x] => do
      let shape ← parseNats shape
      match Permute.init ⟨shape, ← parseInts perm⟩ with
      | .error e => pure s!"REJ {e.name}"
      | .ok s =>
        let x : FArr Float := ⟨shape, ← parseFs x⟩
        match m with
        | "t" => pure (showFA (s.transform x))
        | "i" => pure (showFA (s.inverse x))
        | "tl" => let r := s.transform_and_log_det x; pure s!"{showFA r.1} {showF r.2}"
        | "il" => let r := s.inverse_and_log_det x; pure s!"{showFA r.1} {showF r.2}"
        | _ => .error "bad method"
  | _ => .error "gpermute m shape perm x"

def gpermctor : Handler
  | [shape, perm] => do
      match Permute.init ⟨← parseNats shape, ← parseInts perm⟩ with
      | .error e => pure s!"REJ {e.name}"
      | .ok s => pure s!"OK {showNats s.shape} {showTup s.permutation} {showTup s.inverse_permutation}"
  | _ => .error "gpermctor shape perm"

end Drv
