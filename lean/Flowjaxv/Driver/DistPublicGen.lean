import Flowjaxv.Driver.Vectorize
import Flowjaxv.Gen.DistPublicGen
/-!
Driver ops that run the GENERATED public wrappers of `AbstractDistribution` (`Gen/DistPublicGen.lean`, C06) on shape-level
worlds.  Same conventions as `Driver/Vectorize.lean` (a shape is a comma-separated int list, `-` = `()`, `none` = `None`).

  gsig <in shapes…> -> <out shapes…>           → the generated `_get_ufunc_signature`
  goutshapef <method> <event> <cond|none> <sample_shape> <x full shape> <cond full shape|none>
                                                → output shape(s) of the generated public method, or `ValueError` / `TypeError`
  gkeyshape <cond|none> <sample_shape> <cond full shape|none>
                                                → `<key_shape> <key_size>` from the array the generated `_get_sample_keys` returns
  gpairs <method> <event> <cond|none> <sample_shape> <x full shape> <cond full shape|none>
                                                → for every output element in row-major order: the flat index (within its leading
                                                  shape) of the element of each argument the private method was called on —
                                                  `x` (or the key) and, for a conditional distribution, the condition

World: an element of `x` / of the condition is its flat index within the array's leading shape, a key is `(n, j)` for
`jr.split(key, n)[j]`, the private methods return the pair of the indices they were called on.
-/
namespace Drv
open Vec Pw GenDist

abbrev GK := Nat × Nat

def condCode : CondVal Nat → Nat
  | .elem c => c
  | .raw _ => 0

def shapeWorld : World (Nat × Nat) Nat GK (Nat × Nat) :=
  ⟨id, fun _ n j => (n, j), fun _ => false, (0, 0), id⟩

def shapeDist (ev : Shape) (cs : Option Shape) : DistObj (Nat × Nat) Nat GK (Nat × Nat) :=
  ⟨ev, cs, fun x c => (x.1, condCode c), fun k c => (k.2, condCode c), fun k c => ((k.2, condCode c), (k.2, condCode c))⟩

/-- an array of the given full shape whose element at a leading multi-index is that index's flat position -/
def idxArr (full : Shape) (ncore : Nat) : Arr Nat := ⟨full, fun i => flatIndex (full.take (full.length - ncore)) i⟩

/-- run the generated public method: the batched result's loop shape, the output shapes and the element pairs -/
def runGen (m : Method) (ev : Shape) (cs : Option Shape) (ss xfull : Shape) (cfull : Option Shape) :
    Except PyErr (Shape × List Shape × (List Nat → Nat × Nat)) :=
  let d := shapeDist ev cs
  let x : Arr (Nat × Nat) := ⟨xfull, fun i => (flatIndex (xfull.take (xfull.length - ev.length)) i, 0)⟩
  let c : Option (Arr Nat) := cfull.map fun cf => idxArr cf (cs.getD []).length
  match m with
  | .logProb => (logProb shapeWorld d x c).map fun b => (b.loop, [b.loop], b.elem)
  | .sample => (GenDist.sample shapeWorld d (0, 0) ss c).map fun b => (b.loop, [b.loop ++ ev], b.elem)
  | .sampleLp => (sampleAndLogProb shapeWorld d (0, 0) ss c).map fun b => (b.loop, [b.loop ++ ev, b.loop], fun i => (b.elem i).2)

def gsig : Handler := fun args => do
  let (l, r) ← splitAtArrow [] args
  let ins ← l.mapM parseShapeV
  let outs ← r.mapM parseShapeV
  pure (String.ofList (getUfuncSignature ins outs))

def parseGenCase : List String → Except String (Method × Shape × Option Shape × Shape × Shape × Option Shape)
  | [m, ev, cs, ss, xf, cf] => do
    pure (← parseMethod m, ← parseShapeV ev, ← parseOptShapeV cs, ← parseShapeV ss, ← parseShapeV xf, ← parseOptShapeV cf)
  | _ => .error "need <method> <event> <cond|none> <sample_shape> <x full> <cond full|none>"

def goutshapef : Handler := fun args => do
  let (m, ev, cs, ss, xf, cf) ← parseGenCase args
  pure (showOut ((runGen m ev cs ss xf cf).map (·.2.1)))

def gpairs : Handler := fun args => do
  let (m, ev, cs, ss, xf, cf) ← parseGenCase args
  match runGen m ev cs ss xf cf with
  | .error e => pure e.name
  | .ok (loop, _, elem) =>
    let one := fun k => let p := elem (unflatten loop k); if cs.isSome then showNats [p.1, p.2] else showNats [p.1]
    pure (" ".intercalate ((List.range (sprod loop)).map one))

def gkeyshape : Handler
  | [cs, ss, c] => do
    let cs ← parseOptShapeV cs
    let ss ← parseShapeV ss
    let c ← parseOptShapeV c
    match getSampleKeys shapeWorld (shapeDist [] cs) (0, 0) ss (c.map fun cf => idxArr cf (cs.getD []).length) with
    | .error e => pure e.name
    | .ok keys =>
      let ks := keys.shape.dropLast
      -- the number of keys split off: recorded in every key; with no key at all the reshape accepted `n * 2 = 0`
      let n := if sprod ks = 0 then 0 else (keys.slice (unflatten ks 0)).1
      pure s!"{showNats ks} {n}"
  | _ => .error "bad gkeyshape op"

end Drv
