import Flowjaxv.Driver.ArrTree
/-!
Driver op for the GENERATED `Vmap` (`Gen/JaxTransforms.lean`) with an ARRAY condition and every `in_axes_condition`:

  jaxtrvmap <m> <cax|N> <mapped:0|1> <n> <xshape> <xdata> <condshape> <conddata> <cshape> <w> <b> <EW expr>×n
      → `<shape> <data> [<logdet>] <declared shape>`
  The wrapped bijection (slice `i` of it when `mapped = 1`; all `n` expressions equal when `0`) is
  `Chain([<EW expr i>, AdditiveCondition(c ↦ tanh(w·c + b), cshape, cshape)])`: elementwise leaves of shape `cshape`
  followed by `x + tanh(w·c + b)` with the condition an array of shape `cshape`.  `cax` is `Vmap`'s `in_axes_condition`
  (`N` = None: the condition, of shape `cshape`, is broadcast; otherwise the condition carries the vmapped axis there).
  (The GENERATED `Scan` is run by `atree … GSCAN …` and, on real premade flows, by the `flow` op: `Flows.scanOf` is the generated `Scan`.)
-/
namespace Drv
open Gen

/-- `AdditiveCondition(c ↦ tanh(w·c + b), shape, shape)` on arrays (generated scalar `AdditiveCondition`, element by element) -/
private def addCondArr (w b : Float) : Bij (Arr Float) (Arr Float) Float :=
  let el (c : Float) : AdditiveCondition Float Float := { module := fun c' => Float.tanh (w * c' + b) }
  { fwd := fun x c => ⟨x.shape, List.zipWith (fun xi ci => (el ci).transform xi ci) x.data c.data⟩
    inv := fun y c => ⟨y.shape, List.zipWith (fun yi ci => (el ci).inverse yi ci) y.data c.data⟩
    fwdLd := fun x c => (⟨x.shape, List.zipWith (fun xi ci => (el ci).transform xi ci) x.data c.data⟩, 0)
    invLd := fun y c => (⟨y.shape, List.zipWith (fun yi ci => (el ci).inverse yi ci) y.data c.data⟩, 0) }

private def ignoreCond (b : AB) : Bij (Arr Float) (Arr Float) Float :=
  ⟨fun x _ => b.fwd x 0, fun y _ => b.inv y 0, fun x _ => b.fwdLd x 0, fun y _ => b.invLd y 0⟩

def jaxtrvmap : Handler
  | m :: cax :: mapped :: n :: xshape :: xdata :: condshape :: conddata :: cshape :: w :: b :: toks => do
      let n ← parseNat n
      let cshape ← parseNats cshape
      let w ← parseF w
      let b ← parseF b
      let (ns, rest) ← parseATrees true (List.replicate n cshape) n toks []
      if !rest.isEmpty then .error "trailing tokens"
      let kid (a : ANode) : SBij (Arr Float) (Arr Float) Float :=
        SBij.ofBij (Chain.mk [ignoreCond a.bij, addCondArr w b]).toBij cshape (some cshape)
      let some n0 := ns.head? | .error "no children"
      let cax : Option Int ← if cax == "N" then pure none else do pure (some (← parseInt cax))
      let g : JaxTr.Vmap Float Float :=
        { bijection := ⟨kid n0, ns.map kid⟩, in_axes := (if mapped == "1" then some ⟨⟩ else none, 0, cax),
          axis_size := n, cond_shape := none }
      let x : Arr Float := ⟨← parseNats xshape, ← parseFs xdata⟩
      let c : Arr Float := ⟨← parseNats condshape, ← parseFs conddata⟩
      let sh (a : Arr Float) : String := s!"{showNats a.shape} {showFs a.data}"
      let decl := showNats (GenJaxTr.Vmap.shape g)
      match m with
      | "t" => pure s!"{sh (g.toBij.fwd x c)} {decl}"
      | "i" => pure s!"{sh (g.toBij.inv x c)} {decl}"
      | "tl" => let r := g.toBij.fwdLd x c; pure s!"{sh r.1} {showF r.2} {decl}"
      | "il" => let r := g.toBij.invLd x c; pure s!"{sh r.1} {showF r.2} {decl}"
      | _ => .error "method"
  | _ => .error "bad jaxtrvmap op"

end Drv
