import Flowjaxv.Driver.Util
import Flowjaxv.Driver.PyTree
import Flowjaxv.Model.WrapGen
import Flowjaxv.Model.ToBij
/-!
Driver ops for the `.unwrap()` bodies GENERATED from `flowjax/wrappers.py` (`Gen/Wrappers.lean`), instantiated at `Float`:

  gwrap wn <rows> <cols> <weight flat> <scale (rows)>              `WeightNormalization.unwrap` on a matrix, flat row-major
  gwrap wn3 <b> <rows> <cols> <weight flat> <scale (b·rows)>       … on a rank-3 batch of matrices
  gwrap where <cond 0/1 list> <if_true> <if_false>                 `Where.unwrap` per element (equal lengths)
  gwrap wheremat <rows> <cols> <mask 0/1 list> <w flat> <if_false> `Where.unwrap` with a matrix condition and a scalar `if_false`
  gwrap reparam <softplus|exp> <v list>                            `BijectionReparam.__init__` per element then `unwrap`: `<raw> <unwrapped>`
  gwrap unwrapraw <softplus|exp> <raw list>                        `BijectionReparam.unwrap` of stored raw values
  gwrap tree <tree>                                                `unwrap` of a pytree (notation of `pytree`, arrays fully nested: rows are `D`,
                                                                   higher axes `B`; a bijection child is `S 9101` = SoftPlus, `S 9102` = Exp;
                                                                   a `Lambda` returns the tuple of its children) with `PyTree.genWrapFn`;
                                                                   prints the array leaves `id:flat data` of the result in order and `noWrap`
-/
namespace Drv
open PyTree Gen.Wr

private def chunks (n : Nat) (k : Nat) (flat : List Float) : List (List Float) :=
  (List.range n).map fun i => (flat.drop (i * k)).take k

def bijTable (id : Nat) : Bij Float Unit Float :=
  if id == 9102 then Gen.Exp.toBij else Gen.SoftPlus.toBij

def parseBijName : String → Except String (Bij Float Unit Float)
  | "softplus" => pure Gen.SoftPlus.toBij
  | "exp" => pure Gen.Exp.toBij
  | s => .error s!"bad bijection {s}"

def gwrap : Handler
  | ["wn", r, c, w, s] => do
      let r ← parseNat r; let c ← parseNat c; let w ← parseFs w; let s ← parseFs s
      if w.length ≠ r * c then .error "weight size"
      if s.length ≠ r then .error "scale size"
      pure (showFs (WeightNormalization.unwrap ⟨chunks r c w, s⟩).flatten)
  | ["wn3", b, r, c, w, s] => do
      let b ← parseNat b; let r ← parseNat r; let c ← parseNat c; let w ← parseFs w; let s ← parseFs s
      if w.length ≠ b * r * c then .error "weight size"
      if s.length ≠ b * r then .error "scale size"
      let W := (chunks b (r * c) w).map (chunks r c)
      pure (showFs (WeightNormBatch.unwrap ⟨W, chunks b r s⟩).flatten.flatten)
  | ["where", c, a, b] => do
      let c ← parseNats c; let a ← parseFs a; let b ← parseFs b
      if c.length ≠ a.length ∨ a.length ≠ b.length then .error "lengths"
      pure (showFs (List.zipWith (fun c (p : Float × Float) => (⟨c != 0, p.1, p.2⟩ : Where Float).unwrap) c (List.zip a b)))
  | ["wheremat", r, c, m, w, v] => do
      let r ← parseNat r; let c ← parseNat c; let m ← parseNats m; let w ← parseFs w; let v ← parseF v
      if w.length ≠ r * c ∨ m.length ≠ r * c then .error "sizes"
      let mask := (List.range r).map fun i => ((m.drop (i * c)).take c).map (· != 0)
      pure (showFs (WhereMat.unwrap ⟨mask, chunks r c w, v⟩).flatten)
  | ["reparam", b, v] => do
      let b ← parseBijName b; let v ← parseFs v
      let ps := v.map fun x => BijectionReparam.init x b
      pure s!"{showFs (ps.map (·.arr))} {showFs (ps.map (·.unwrap))}"
  | ["unwrapraw", b, v] => do
      let b ← parseBijName b; let v ← parseFs v
      pure (showFs (v.map fun x => (⟨x, b⟩ : BijectionReparam Float Float).unwrap))
  | "tree" :: toks => do
      let (t, rest) ← parsePT toks
      if !rest.isEmpty then .error "trailing tokens"
      let u := unwrap (genWrapFn bijTable fun _ cs => .node cs) t
      pure s!"{showLeaves (leaves u)} | {showBool (noWrap u)}"
  | _ => .error "bad gwrap op"

end Drv
