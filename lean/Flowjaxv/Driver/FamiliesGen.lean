import Flowjaxv.Driver.Util
import Flowjaxv.Model.FamiliesGenSem
import Flowjaxv.Driver.Params
/-!
Driver ops running the GENERATED constructors / accessors of `Gen/FamiliesGen.lean` at `Float` (C05 / C11):

  gfam <Name> (<shape> <data>)×k <xs>
        `GenFam.<Name>.init` on k parameter arrays (shape as a comma list, `-` = `()`; data row-major), then on the object:
        `OK <declared shape>|<stored leaves…>|<accessor values…>|<_log_prob xs> <public>` — leaves and accessors `;`-separated, each
        `<shape>:<data>`; `REJ` = the generated constructor raises.
        leaves    loc-scale families, Uniform: `bijection.loc`, raw `bijection.scale.arr`; LogNormal: the same of `bijection[0]`
                  then `bijection[1].shape`; Exponential: raw `bijection.scale.arr`; StudentT: raw `base_dist.df.arr`,
                  `bijection.loc`, raw `bijection.scale.arr`
        accessors `loc scale` | Uniform `minval maxval` | Exponential `rate` | StudentT `df loc scale` | LogNormal none
  gbij Affine <shape> <data> <shape> <data> <xs> | gbij Scale <shape> <data> <xs> | gbij Loc <shape> <data> <xs>
        the generated bijection constructor: `OK <shape>|<leaves>|<transform xs>|<log det>`
  gmix <ws> <lps>
        the generated `VmapMixture.__init__` on weights `ws` over components whose `_log_prob` values at the point are `lps`, then the
        generated `_log_prob` on the unwrapped object: `OK <stored raw leaf (Lambda args)>|<unwrapped log_normalized_weights>|<_log_prob> <public>`
  gmixs <ws> <component> <d> <per-component samples, flattened component-major>
        the generated `_sample` with key = (categorical draw `component`, key2) over components whose `_sample(key2)` are the given
        vectors: `OK <sample>`; `NONE` = no component (indexing an empty axis raises)
  gmvn <n> <loc> <chol flat row-major> <x>
        `GenFam.MultivariateNormal.init` with `cholesky := fun _ => chol`: `OK <declared shape>|<loc accessor>|<covariance accessor flat>|<_log_prob x> <public>`
-/
namespace Drv
open Gen Fw

private def parseArr (sh d : String) : Except String (NArr Float) := do
  let s ← parseNats sh
  let v ← parseFs d
  if v.length != Vec.sprod s then .error s!"array data length {v.length} for shape {s}" else pure ⟨s, v⟩

private def showArr (a : NArr Float) : String := s!"{showNats a.shape}:{showFs a.data}"

private def lpOut (d : Distn (List Float) Unit (List Float) Float) (xs : List Float) : String :=
  let lp := d.logProb xs ()
  s!"{showF lp} {showF (Families.publicLp lp)}"

private def locScaleOut (d : Fw.Transformed StdBase (AffineObj Float)) (accs : List String) (xs : List Float) : String :=
  let leaves := [showArr d.bijection.loc, showArr d.bijection.scale.arr]
  s!"OK {showNats d.base_dist.shape}|{";".intercalate leaves}|{";".intercalate accs}|{lpOut (locScaleDist d) xs}"

private def optOut {τ : Type} (o : Option τ) (f : τ → String) : String :=
  match o with
  | none => "REJ"
  | some d => f d

def gfam : Handler
  | [name, s1, d1, xs] => do
      let a ← parseArr s1 d1
      let xs ← parseFs xs
      match name with
      | "Exponential" =>
          let d := GenFam.Exponential.init a
          pure s!"OK {showNats d.base_dist.shape}|{showArr d.bijection.scale.arr}|{showArr (GenFam.exponentialRate d)}|{lpOut (exponentialDist d) xs}"
      | _ => .error s!"bad 1-parameter family {name}"
  | [name, s1, d1, s2, d2, xs] => do
      let a ← parseArr s1 d1
      let b ← parseArr s2 d2
      let xs ← parseFs xs
      let ls (o : Option (Fw.Transformed StdBase (AffineObj Float))) : String :=
        optOut o fun d => locScaleOut d [showArr (GenFam.locScaleLoc d), showArr (GenFam.locScaleScale d)] xs
      match name with
      | "Normal" => pure (ls (GenFam.Normal.init a b))
      | "Gumbel" => pure (ls (GenFam.Gumbel.init a b))
      | "Cauchy" => pure (ls (GenFam.Cauchy.init a b))
      | "Laplace" => pure (ls (GenFam.Laplace.init a b))
      | "Logistic" => pure (ls (GenFam.Logistic.init a b))
      | "Uniform" =>
          pure (optOut (GenFam.Uniform.init a b) fun d =>
            locScaleOut d [showArr (GenFam.uniformMinval d), optOut (GenFam.uniformMaxval d) showArr] xs)
      | "LogNormal" =>
          pure (optOut (GenFam.LogNormal.init a b) fun d =>
            let leaves := d.bijection.bijections.map fun
              | .affine o => s!"{showArr o.loc};{showArr o.scale.arr}"
              | .exp e => s!"{showNats e.shape}:-"
              | .scale o => showArr o.scale.arr
              | .loc o => showArr o.loc
            s!"OK {showNats d.base_dist.shape}|{";".intercalate leaves}|-|{lpOut (logNormalDist d) xs}")
      | _ => .error s!"bad 2-parameter family {name}"
  | [name, s1, d1, s2, d2, s3, d3, xs] => do
      let a ← parseArr s1 d1
      let b ← parseArr s2 d2
      let c ← parseArr s3 d3
      let xs ← parseFs xs
      match name with
      | "StudentT" =>
          pure (optOut (GenFam.StudentT.init a b c) fun d =>
            let leaves := [showArr d.base_dist.df.arr, showArr d.bijection.loc, showArr d.bijection.scale.arr]
            let accs := [showArr (GenFam.studentTDf d), showArr (GenFam.locScaleLoc d), showArr (GenFam.locScaleScale d)]
            s!"OK {showNats d.base_dist.shape}|{";".intercalate leaves}|{";".intercalate accs}|{lpOut (studentTDist d) xs}")
      | _ => .error s!"bad 3-parameter family {name}"
  | _ => .error "bad gfam op"

private def bijOut (shape : List Nat) (leaves : List String) (b : Bij (List Float) Unit Float) (xs : List Float) : String :=
  let r := b.fwdLd xs ()
  s!"OK {showNats shape}|{";".intercalate leaves}|{showFs r.1}|{showF r.2}"

def gbij : Handler
  | ["Affine", s1, d1, s2, d2, xs] => do
      let a ← parseArr s1 d1
      let b ← parseArr s2 d2
      let xs ← parseFs xs
      pure (optOut (GenFam.Affine.init a b) fun o => bijOut o.shape [showArr o.loc, showArr o.scale.arr] o.toBij xs)
  | ["Scale", s1, d1, xs] => do
      let a ← parseArr s1 d1
      let xs ← parseFs xs
      let o := GenFam.Scale.init a
      pure (bijOut o.shape [showArr o.scale.arr] o.toBij xs)
  | ["Loc", s1, d1, xs] => do
      let a ← parseArr s1 d1
      let xs ← parseFs xs
      let o := GenFam.Loc.init a
      pure (bijOut o.shape [showArr o.loc] o.toBij xs)
  | _ => .error "bad gbij op"

def gmix : Handler
  | [ws, lps] => do
      let ws ← parseFs ws
      let lps ← parseFs lps
      let dist : VDist Float Float Float := ⟨[], none, lps.map fun lp => ⟨fun _ _ => lp, fun k _ => k, fun k _ => (k, lp)⟩⟩
      pure (optOut (GenFam.VmapMixture.init dist ⟨[ws.length], ws⟩) fun m =>
        let lp := GenFam.mixtureLogProb m.unwrap 0.0 none
        s!"OK {showFs m.log_normalized_weights.args}|{showFs m.unwrap.log_normalized_weights}|{showF lp} {showF (Families.publicLp lp)}")
  | _ => .error "bad gmix op"

def gmixs : Handler
  | [ws, comp, d, samples] => do
      let ws ← parseFs ws
      let comp ← parseNat comp
      let d ← parseNat d
      let samples ← parseFs samples
      let k := if d = 0 then 0 else samples.length / d
      let vecs := (List.range k).map fun i => (samples.drop (i * d)).take d
      let dist : VDist (List Float) Unit Float := ⟨[d], none, vecs.map fun v => ⟨fun _ _ => 0.0, fun _ _ => v, fun _ _ => (v, 0.0)⟩⟩
      pure (optOut (GenFam.VmapMixture.init dist ⟨[ws.length], ws⟩) fun m =>
        match GenFam.mixtureSample m.unwrap (comp, ()) none with
        | none => "NONE"
        | some v => s!"OK {showFs v}")
  | _ => .error "bad gmixs op"

private def chunk (n : Nat) (xs : List Float) : List (List Float) :=
  (List.range n).map fun i => (xs.drop (i * n)).take n

def gmvn : Handler
  | [n, loc, chol, x] => do
      let n ← parseNat n
      let loc ← parseFs loc
      let chol ← parseFs chol
      let x ← parseFs x
      if chol.length != n * n then .error "bad cholesky factor size" else
      let L := chunk n chol
      pure (optOut (GenFam.MultivariateNormal.init (fun _ => L) loc L) fun d =>
        s!"OK {showNats d.base_dist.shape}|{showFs (GenFam.mvnLoc d)}|{showFs (GenFam.mvnCovariance d).flatten}|{lpOut (mvnDist d) x}")
  | _ => .error "bad gmvn op"

end Drv
