import Flowjaxv.Driver.Tree
import Flowjaxv.Model.Arr
/-!
Driver op for expression trees of ARRAY bijections (C08):

  atree <m> <cond> <shape> <data> <expr…>      → `<data> [<logdet>]`

expr (prefix; shapes / sizes / positions are comma-separated ints, `-` = empty):
  EW <n> <scalar tree>×n              elementwise leaf (shape taken from the input)
  CAT <shape> <axis> <sizes> <k> expr×k   Concatenate (axis already normalised by the harness? NO: raw axis, may be negative)
  STK <shape> <axis> <childshape> <k> expr×k   Stack (raw axis, may be negative; normalised against rank+1... see below)
  PAR <shape> <sub> <pos> expr        Partial with idxs resolved to flat positions
  RSH <shape> <inner> expr            Reshape
  EMB <w> <b> expr                    EmbedCondition with net c = tanh(w·c+b)
  CH <k> expr×k | INV expr            generated Chain / Invert over arrays
-/
namespace Drv
open Gen ArrComb

abbrev AB := Bij (Arr Float) Float Float

private def parseShape (s : String) : Except String (List Nat) := parseNats s

mutual
partial def parseATree : List String → Except String (AB × List String)
  | "EW" :: n :: r => do
      let (bs, r) ← parseScalars (← parseNat n) r []
      pure (ArrComb.elementwise bs, r)
  | "CAT" :: shape :: axis :: sizes :: k :: r => do
      let shape ← parseShape shape
      let axis ← parseInt axis
      let some ax := Arr.normAxis shape.length axis | .error "axis out of range"
      let (bs, r) ← parseATrees (← parseNat k) r []
      pure (ArrComb.concatenate ⟨shape, ax, ← parseNats sizes⟩ bs, r)
  | "STK" :: shape :: axis :: childShape :: k :: r => do
      let shape ← parseShape shape
      let axis ← parseInt axis
      let some ax := Arr.normAxis shape.length axis | .error "axis out of range"
      let k ← parseNat k
      let (bs, r) ← parseATrees k r []
      pure (ArrComb.stack ⟨shape, ax, List.replicate k 1⟩ (← parseShape childShape) bs, r)
  | "PAR" :: shape :: sub :: pos :: r => do
      let (b, r) ← parseATree r
      pure (ArrComb.partialB (← parseShape shape) (← parseShape sub) (← parseNats pos) b, r)
  | "RSH" :: shape :: inner :: r => do
      let (b, r) ← parseATree r
      pure (ArrComb.reshape (← parseShape shape) (← parseShape inner) b, r)
  | "EMB" :: w :: b0 :: r => do
      let w ← parseF w
      let b0 ← parseF b0
      let (b, r) ← parseATree r
      pure (ArrComb.embed (fun c => Float.tanh (w * c + b0)) b, r)
  | "CH" :: k :: r => do
      let (bs, r) ← parseATrees (← parseNat k) r []
      pure ((Chain.mk bs).toBij, r)
  | "INV" :: r => do
      let (b, r) ← parseATree r
      pure ((Invert.mk b).toBij, r)
  | t :: _ => .error s!"bad atree token {t}"
  | [] => .error "unexpected end of atree"

partial def parseATrees (k : Nat) (r : List String) (acc : List AB) : Except String (List AB × List String) :=
  match k with
  | 0 => pure (acc.reverse, r)
  | k + 1 => do
      let (b, r) ← parseATree r
      parseATrees k r (b :: acc)

partial def parseScalars (k : Nat) (r : List String) (acc : List SB) : Except String (List SB × List String) :=
  match k with
  | 0 => pure (acc.reverse, r)
  | k + 1 => do
      let (b, r) ← parseTree r
      parseScalars k r (b :: acc)
end

def atree : Handler
  | m :: cond :: shape :: data :: toks => do
      let (b, rest) ← parseATree toks
      if !rest.isEmpty then .error "trailing tokens"
      let x : Arr Float := ⟨← parseShape shape, ← parseFs data⟩
      applyM b m x (fun a => s!"{showNats a.shape} {showFs a.data}") (← parseF cond)
  | _ => .error "bad atree op"

end Drv
