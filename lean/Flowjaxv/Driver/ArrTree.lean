import Flowjaxv.Driver.Tree
import Flowjaxv.Model.Arr
import Flowjaxv.Model.ArrGenBij
import Flowjaxv.Model.JaxTrBij
import Flowjaxv.Model.ArrExt
/-!
Driver ops for expression trees of ARRAY bijections (C08):

  atree  <m> <cond> <shape> <data> <expr…>   → `<shape> <data> <logdet|-> <declared shape> <declared cond: 0|1>`
      Concatenate / Stack / Partial / Reshape / EmbedCondition are the definitions GENERATED from the source
      (`Gen/ArrCombinators.lean`), built through the generated constructors (`Concatenate.init`, `Stack.init`,
      `Reshape.init`, `EmbedCondition.init`); the constructor calls are cross-checked against the C13 constructor
      models (`ERR ctor …` on disagreement or rejection).
  atreeh <m> <cond> <shape> <data> <expr…>   → `<shape> <data> [<logdet>]`
      the same trees through the HAND model (`Model/Arr.lean`).
  jnpprim <prim> …                           → the primitive specs of `Model/ArrJnp.lean` on their own (see below)

expr (prefix; shapes / sizes / positions are comma-separated ints, `-` = empty):
  EW <n> <scalar tree>×n              elementwise leaf
  CAT <shape> <axis> <sizes> <k> expr×k   Concatenate (raw axis, may be negative)
  STK <shape> <axis> <childshape> <k> expr×k   Stack (raw axis, may be negative)
  PAR <shape> <sub> <pos> expr        Partial with idxs resolved to flat positions
  RSH <shape> <inner> expr            Reshape
  EMB <w> <b> expr                    EmbedCondition with net c = tanh(w·c+b)
  CH <k> expr×k | INV expr            generated Chain / Invert over arrays
  GSCAN <k> expr×k                    Scan over the stacked module whose slices are the k children: `atree` runs the methods
                                      GENERATED from jax_transforms.py (`Gen/JaxTransforms.lean`), `atreeh` the hand model `ArrComb.scan`
  GVMAP <cshape> <mapped:0|1> <k> expr×k   Vmap (node shape k :: cshape) of the per-slice children (all equal when the parameters are
                                      broadcast, `mapped = 0`): generated `Vmap` methods / hand model `ArrComb.vmap`
Every node gets its declared shape top-down (root: the op's `<shape>`; children of CAT: the shape with the child's size
on the axis; of STK: `<childshape>`; of PAR: `<sub>`; of RSH: `<inner>`).
-/
namespace Drv
open Gen ArrComb

abbrev AB := Bij (Arr Float) Float Float

private def parseShape (s : String) : Except String (List Nat) := parseNats s

/-- a parsed node: its methods, its declared shape and cond_shape (`some []` = conditional on a scalar) -/
structure ANode where
  bij : AB
  shape : List Nat
  cond : Option (List Nat)

def ANode.sb (n : ANode) : SBij (Arr Float) Float Float := SBij.ofBij n.bij n.shape n.cond

private def anyCond (ns : List ANode) : Option (List Nat) := if ns.any (fun n => n.cond.isSome) then some [] else none

/-- scalar condition ↔ 0-d array condition (for the generated `Reshape`, which reshapes its condition) -/
private def liftCond (n : ANode) : SBij (Arr Float) (Arr Float) Float :=
  { fwd := fun x c => n.bij.fwd x (c.data.headD 0), inv := fun y c => n.bij.inv y (c.data.headD 0),
    fwdLd := fun x c => n.bij.fwdLd x (c.data.headD 0), invLd := fun y c => n.bij.invLd y (c.data.headD 0),
    shape := n.shape, cond_shape := n.cond }
private def lowerCond (b : Bij (Arr Float) (Arr Float) Float) : AB :=
  ⟨fun x c => b.fwd x ⟨[], [c]⟩, fun y c => b.inv y ⟨[], [c]⟩, fun x c => b.fwdLd x ⟨[], [c]⟩, fun y c => b.invLd y ⟨[], [c]⟩⟩

private def showErr (e : PyShape.Err) : String := e.name

mutual
partial def parseATree (gen : Bool) (shape : List Nat) : List String → Except String (ANode × List String)
  | "EW" :: n :: r => do
      let (bs, r') ← parseScalars (← parseNat n) r []
      let used := r.take (r.length - r'.length)
      pure (⟨ArrComb.elementwise bs, shape, if used.contains "AC" then some [] else none⟩, r')
  | "CAT" :: cshape :: axis :: sizes :: k :: r => do
      let cshape ← parseShape cshape
      let axis ← parseInt axis
      let sizes ← parseNats sizes
      let some ax := Arr.normAxis cshape.length axis | .error "axis out of range"
      let (ns, r) ← parseATrees gen (sizes.map (fun n => cshape.set ax n)) (← parseNat k) r []
      if gen then
        let kids := ns.map ANode.sb
        match ArgCheck.concatenateCtor (ns.map (·.shape)) (ns.map (·.cond)) axis with
        | .error e => .error s!"ctor Concatenate rejected by the C13 model: {showErr e}"
        | .ok (sh, c) =>
          let g := Concatenate.init kids axis
          if g.shape ≠ sh ∨ g.cond_shape ≠ c then .error s!"ctor Concatenate: generated {g.shape} vs C13 {sh}"
          else pure (⟨g.toBij, g.shape, g.cond_shape⟩, r)
      else pure (⟨ArrComb.concatenate ⟨cshape, ax, sizes⟩ (ns.map (·.bij)), cshape, anyCond ns⟩, r)
  | "STK" :: sshape :: axis :: childShape :: k :: r => do
      let sshape ← parseShape sshape
      let axis ← parseInt axis
      let some ax := Arr.normAxis sshape.length axis | .error "axis out of range"
      let k ← parseNat k
      let childShape ← parseShape childShape
      let (ns, r) ← parseATrees gen (List.replicate k childShape) k r []
      if gen then
        let kids := ns.map ANode.sb
        match ArgCheck.stackCtor (ns.map (·.shape)) (ns.map (·.cond)) axis with
        | .error e => .error s!"ctor Stack rejected by the C13 model: {showErr e}"
        | .ok (sh, c) =>
          let g := Stack.init kids axis
          if g.shape ≠ sh ∨ g.cond_shape ≠ c then .error s!"ctor Stack: generated {g.shape} vs C13 {sh}"
          else pure (⟨g.toBij, g.shape, g.cond_shape⟩, r)
      else pure (⟨ArrComb.stack ⟨sshape, ax, List.replicate k 1⟩ childShape (ns.map (·.bij)), sshape, anyCond ns⟩, r)
  | "PAR" :: pshape :: sub :: pos :: r => do
      let pshape ← parseShape pshape
      let sub ← parseShape sub
      let pos ← parseNats pos
      let (n, r) ← parseATree gen sub r
      if gen then
        let g : Partial Float Float Float := ⟨n.sb, ⟨sub, pos⟩, pshape⟩
        pure (⟨g.toBij, g.shape, g.cond_shape_prop⟩, r)
      else pure (⟨ArrComb.partialB pshape sub pos n.bij, pshape, n.cond⟩, r)
  | "RSH" :: rshape :: inner :: r => do
      let rshape ← parseShape rshape
      let inner ← parseShape inner
      let (n, r) ← parseATree gen inner r
      if gen then
        match ArgCheck.reshapeCtor n.shape n.cond (some rshape) none with
        | .error e => .error s!"ctor Reshape rejected by the C13 model: {showErr e}"
        | .ok (sh, c) =>
          let g := Reshape.init (liftCond n) (some rshape) none
          if g.shape ≠ sh ∨ g.cond_shape ≠ c then .error s!"ctor Reshape: generated {g.shape} vs C13 {sh}"
          else pure (⟨lowerCond g.toBij, g.shape, g.cond_shape⟩, r)
      else pure (⟨ArrComb.reshape rshape inner n.bij, rshape, n.cond⟩, r)
  | "EMB" :: w :: b0 :: r => do
      let w ← parseF w
      let b0 ← parseF b0
      let (n, r) ← parseATree gen shape r
      if gen then
        let g : EmbedCondition Float Float Float Float := EmbedCondition.init n.sb (fun c => Float.tanh (w * c + b0)) []
        pure (⟨g.toBij, g.shape_prop, some g.cond_shape⟩, r)
      else pure (⟨ArrComb.embed (fun c => Float.tanh (w * c + b0)) n.bij, n.shape, some []⟩, r)
  | "CH" :: k :: r => do
      let k ← parseNat k
      let (ns, r) ← parseATrees gen (List.replicate k shape) k r []
      pure (⟨(Chain.mk (ns.map (·.bij))).toBij, shape, anyCond ns⟩, r)
  | "INV" :: r => do
      let (n, r) ← parseATree gen shape r
      pure (⟨(Invert.mk n.bij).toBij, n.shape, n.cond⟩, r)
  | "GSCAN" :: k :: r => do
      let k ← parseNat k
      let (ns, r) ← parseATrees gen (List.replicate k shape) k r []
      if gen then
        let g := JaxTr.scanOfLayers (ns.map (·.bij)) shape (anyCond ns)
        pure (⟨g.toBij, GenJaxTr.Scan.shape g, GenJaxTr.Scan.cond_shape g⟩, r)
      else pure (⟨ArrComb.scan (ns.map (·.bij)), shape, anyCond ns⟩, r)
  | "GVMAP" :: cshape :: mapped :: k :: r => do
      let cshape ← parseShape cshape
      let k ← parseNat k
      let (ns, r) ← parseATrees gen (List.replicate k cshape) k r []
      if gen then
        let some n0 := ns.head? | .error "GVMAP without children"
        let g : JaxTr.Vmap Float Float :=
          { bijection := ⟨liftCond n0, ns.map liftCond⟩, in_axes := (if mapped == "1" then some ⟨⟩ else none, 0, none),
            axis_size := k, cond_shape := anyCond ns }
        pure (⟨lowerCond g.toBij, GenJaxTr.Vmap.shape g, g.cond_shape⟩, r)
      else pure (⟨ArrComb.vmap cshape (ns.map (·.bij)), k :: cshape, anyCond ns⟩, r)
  | t :: _ => .error s!"bad atree token {t}"
  | [] => .error "unexpected end of atree"

partial def parseATrees (gen : Bool) (shapes : List (List Nat)) (k : Nat) (r : List String) (acc : List ANode) :
    Except String (List ANode × List String) :=
  match k, shapes with
  | 0, _ => pure (acc.reverse, r)
  | k + 1, sh :: shapes => do
      let (b, r) ← parseATree gen sh r
      parseATrees gen shapes k r (b :: acc)
  | _ + 1, [] => .error "more children than sizes"

partial def parseScalars (k : Nat) (r : List String) (acc : List SB) : Except String (List SB × List String) :=
  match k with
  | 0 => pure (acc.reverse, r)
  | k + 1 => do
      let (b, r) ← parseTree r
      parseScalars k r (b :: acc)
end

private def showArr (a : Arr Float) : String := s!"{showNats a.shape} {showFs a.data}"

/-- generated definitions -/
def atree : Handler
  | m :: cond :: shape :: data :: toks => do
      let shape ← parseShape shape
      let (n, rest) ← parseATree true shape toks
      if !rest.isEmpty then .error "trailing tokens"
      let x : Arr Float := ⟨shape, ← parseFs data⟩
      let c ← parseF cond
      let decl := s!"{showNats n.shape} {if n.cond.isSome then 1 else 0}"
      match m with
      | "t" => pure s!"{showArr (n.bij.fwd x c)} - {decl}"
      | "i" => pure s!"{showArr (n.bij.inv x c)} - {decl}"
      | "tl" => let r := n.bij.fwdLd x c; pure s!"{showArr r.1} {showF r.2} {decl}"
      | "il" => let r := n.bij.invLd x c; pure s!"{showArr r.1} {showF r.2} {decl}"
      | _ => .error "method"
  | _ => .error "bad atree op"

/-- hand model -/
def atreeh : Handler
  | m :: cond :: shape :: data :: toks => do
      let shape ← parseShape shape
      let (n, rest) ← parseATree false shape toks
      if !rest.isEmpty then .error "trailing tokens"
      let x : Arr Float := ⟨shape, ← parseFs data⟩
      applyM n.bij m x showArr (← parseF cond)
  | _ => .error "bad atreeh op"

/-! `jnpprim`: the primitive specs on integer-valued arrays (data travel as floats)
  jnpprim asplit <shape> <data> <idxs> <axis>      jnp.array_split(x, idxs, axis)
  jnpprim split  <shape> <data> <n> <axis>         jnp.split(x, n, axis)
  jnpprim squeeze <shape> <data> <axis>
  jnpprim concat <axis> <k> (<shape> <data>)×k     jnp.concatenate
  jnpprim stack  <axis> <k> (<shape> <data>)×k     jnp.stack
  jnpprim accumulate <ints>                        tuple(itertools.accumulate(ints))
  jnpprim range <n> <i>                            range(n)[i]
output: arrays as `<shape> <data>` joined by ` ; ` -/
private def parseArrs : Nat → List String → Except String (List (Arr Float))
  | 0, [] => pure []
  | 0, _ => .error "trailing tokens"
  | k + 1, sh :: d :: r => do
      let a : Arr Float := ⟨← parseShape sh, ← parseFs d⟩
      pure (a :: (← parseArrs k r))
  | _, _ => .error "missing arrays"

private def showArrs (l : List (Arr Float)) : String := " ; ".intercalate (l.map showArr)

def jnpprim : Handler
  | ["asplit", sh, d, idxs, axis] => do
      let x : Arr Float := ⟨← parseShape sh, ← parseFs d⟩
      let axis ← parseInt axis
      if (Arr.normAxis x.shape.length axis).isNone then .error "axis"
      pure (showArrs (ArrJnp.arraySplit x (← parseNats idxs) axis))
  | ["split", sh, d, n, axis] => do
      let x : Arr Float := ⟨← parseShape sh, ← parseFs d⟩
      let axis ← parseInt axis
      let n ← parseNat n
      match Arr.normAxis x.shape.length axis with
      | none => .error "axis"
      | some k =>
        if n = 0 then .error "sections" else
        if ArrJnp.shapeGet x.shape k % n ≠ 0 then .error "division" else
        pure (showArrs (ArrJnp.split x n axis))
  | ["squeeze", sh, d, axis] => do
      let x : Arr Float := ⟨← parseShape sh, ← parseFs d⟩
      let axis ← parseInt axis
      match Arr.normAxis x.shape.length axis with
      | none => .error "axis"
      | some k => if ArrJnp.shapeGet x.shape k ≠ 1 then .error "not 1" else pure (showArr (ArrJnp.squeeze x axis))
  | "concat" :: axis :: k :: r => do
      let ps ← parseArrs (← parseNat k) r
      let axis ← parseInt axis
      if ps.isEmpty ∨ (Arr.normAxis (ps.headD ⟨[], []⟩).shape.length axis).isNone then .error "guard"
      pure (showArr (ArrJnp.concatenate ps axis))
  | "stack" :: axis :: k :: r => do
      let ps ← parseArrs (← parseNat k) r
      let axis ← parseInt axis
      if ps.isEmpty ∨ (Arr.normAxis ((ps.headD ⟨[], []⟩).shape.length + 1) axis).isNone then .error "guard"
      pure (showArr (ArrJnp.stack ps axis))
  | ["accumulate", l] => do pure (showNats (ArrJnp.accumulate (← parseNats l)))
  | ["range", n, i] => do
      let n ← parseNat n
      let i ← parseInt i
      if (Arr.normAxis n i).isNone then .error "IndexError" else pure (toString (ArrJnp.rangeGet n i))
  | _ => .error "bad jnpprim op"

end Drv
