import Flowjaxv.Driver.ArgCheck
import Flowjaxv.Model.ArgCheckExt
import Flowjaxv.Gen.CtorsGen
/-!
Driver ops for the constructors / argument checks REGENERATED from the source (`Gen/CtorsGen.lean`, C13) and for the
hand models of `Model/ArgCheckExt.lean`.  Registered as ONE op `gc`; the first field selects the sub-op.
Encodings as in `Driver/ArgCheck.lean`; additionally an `in_axes` is `N` (None) or `u:<0|1>:<axes>` (contains an
unwrappable?, one optional axis per array leaf, `|`-separated, `N` = not mapped, `E` = no leaves), a list of leaf
shapes is `|`-separated (`E` = none), an optional int / nat is the number or `N`.

  gc match   shapes                       regenerated check_shapes_match
  gc merge   conds                        regenerated merge_cond_shapes          -> ok <shape?>
  gc chain   shapes conds                 regenerated Chain.__init__             -> ok <shape> <cond?>
  gc argcheck shapes axis                 regenerated Concatenate._argcheck_shapes
  gc concat  shapes conds axis            regenerated Concatenate.__init__       -> ok <shape> <cond?> <split_idxs> <axis>
  gc stack   shapes conds axis            regenerated Stack.__init__             -> ok <shape> <cond?> <axis>
  gc partial shape idx bshape             regenerated Partial(…) (dataclass init + __check_init__)
  gc reshape bshape bcond? shape? cond?   regenerated Reshape(…) (__init__ + __check_init__) -> ok <shape> <cond?>
  gc transformed basecond? bijcond?       regenerated AbstractTransformed.__check_init__
  gc embed   bshape bcond? raw            regenerated EmbedCondition.__init__ + shape        -> ok <shape> <cond?>
  gc wrap    bshape bcond?                regenerated Invert/Scan shape+cond_shape, Partial.cond_shape -> ok <shape> <cond?> …
  gc vmap    bshape bcond? leaves in_axes axis_size? cond_ax?   regenerated Vmap.__init__ + shape -> ok <shape> <cond?>
  gc hembed / hvmap                       the hand models `embedCtor` / `vmapCtor` (same arguments)
-/
namespace Drv
open PyShape ArgCheck PyCtor

def zipSB (ss : List Shape) (cs : List (Option Shape)) : Except String (List SB) :=
  if ss.length == cs.length then pure (List.zipWith SB.mk ss cs) else .error "shapes / conds differ in length"

def parseOptNat (s : String) : Except String (Option Nat) :=
  if s == "N" then pure none else do pure (some (← parseNat s))

def parseInAxes (s : String) : Except String (Option InAxes) :=
  if s == "N" then pure none else
  match s.splitOn ":" with
  | ["u", u, axes] => do
      let u ← parseBool u
      let ax ← parseListOf parseOptInt axes
      pure (some ⟨ax, u⟩)
  | _ => .error s!"bad in_axes '{s}'"

def gcVmapArgs : List String → Except String (VB × Option InAxes × Option Nat × Option Int)
  | [s, c, l, ia, n, ca] => do
      pure (⟨← parseShape s, ← parseOptShape c, ← parseListOf parseShape l⟩, ← parseInAxes ia, ← parseOptNat n, ← parseOptInt ca)
  | _ => .error "vmap bshape bcond leaves in_axes axis_size cond_ax"

def gc : Handler
  | "match" :: [ss] => do pure (verdict (GenCtors.checkShapesMatch (← parseListOf parseShape ss)) fun _ => "")
  | "merge" :: [cs] => do pure (verdict (GenCtors.mergeCondShapes (← parseListOf parseOptShape cs)) showOptShape)
  | "chain" :: [ss, cs] => do
      let bs ← zipSB (← parseListOf parseShape ss) (← parseListOf parseOptShape cs)
      pure (verdict (GenCtors.Chain.init bs) fun r => showPair (r.shape, r.cond_shape))
  | "argcheck" :: [ss, a] => do
      pure (verdict (GenCtors.Concatenate.argcheckShapes (← parseInt a) (← parseListOf parseShape ss)) fun _ => "")
  | "concat" :: [ss, cs, a] => do
      let bs ← zipSB (← parseListOf parseShape ss) (← parseListOf parseOptShape cs)
      pure (verdict (GenCtors.Concatenate.init bs (← parseInt a)) fun r =>
        s!"{showPair (r.shape, r.cond_shape)} {showNats r.split_idxs} {r.axis}")
  | "stack" :: [ss, cs, a] => do
      let bs ← zipSB (← parseListOf parseShape ss) (← parseListOf parseOptShape cs)
      pure (verdict (GenCtors.Stack.init bs (← parseInt a)) fun r => s!"{showPair (r.shape, r.cond_shape)} {r.axis}")
  | "partial" :: [s, i, b] => do
      pure (verdict (GenCtors.Partial.ctor ⟨← parseShape b, none⟩ (← parseIdx i) (← parseShape s)) fun _ => "")
  | "reshape" :: [b, bc, s, c] => do
      pure (verdict (GenCtors.Reshape.ctor ⟨← parseShape b, ← parseOptShape bc⟩ (← parseOptShape s) (← parseOptShape c))
        fun r => showPair (r.shape, r.cond_shape))
  | "transformed" :: [a, b] => do
      pure (verdict (GenCtors.Transformed.checkInit ⟨[], ← parseOptShape a⟩ ⟨[], ← parseOptShape b⟩) fun _ => "")
  | "embed" :: [b, bc, raw] => do
      let r := (GenCtors.EmbedCondition.init ⟨← parseShape b, ← parseOptShape bc⟩ (← parseShape raw)).bind
        fun r => (GenCtors.EmbedCondition.shape r.bijection).map fun s => (s, some r.cond_shape)
      pure (verdict r showPair)
  | "hembed" :: [b, _, raw] => do pure (verdict (embedCtor (← parseShape b) (← parseShape raw)) showPair)
  | "wrap" :: [b, bc] => do
      let sb : SB := ⟨← parseShape b, ← parseOptShape bc⟩
      let r : Except Err String := do
        let s1 ← GenCtors.Invert.shape sb
        let c1 ← GenCtors.Invert.condShape sb
        let s2 ← GenCtors.Scan.shape sb
        let c2 ← GenCtors.Scan.condShape sb
        let c3 ← GenCtors.Partial.condShape sb
        pure s!"{showPair (s1, c1)} {showPair (s2, c2)} {showOptShape c3}"
      pure (verdict r id)
  | "vmap" :: args => do
      let (b, ia, n, ca) ← gcVmapArgs args
      let r := (GenCtors.Vmap.init b ia n ca).bind
        fun r => (GenCtors.Vmap.shape r.axis_size r.bijection).map fun s => (s, r.cond_shape)
      pure (verdict r showPair)
  | "hvmap" :: args => do
      let (b, ia, n, ca) ← gcVmapArgs args
      pure (verdict (vmapCtor b ia n ca) showPair)
  | sub :: _ => .error s!"unknown gc sub-op {sub}"
  | [] => .error "gc <sub-op> …"

end Drv
