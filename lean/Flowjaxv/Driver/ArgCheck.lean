import Flowjaxv.Driver.Util
import Flowjaxv.Model.ArgCheck
import Flowjaxv.Gen.ArgCheckGen
/-!
Driver ops for the argument-check model (`Model/ArgCheck.lean`) and the generated inner checks
(`Gen/ArgCheckGen.lean`).

Encodings: a shape is a comma-separated list of naturals, `-` = `()`; an optional shape is a shape or `N`;
a Python argument (`Val`) is a shape (array of that shape), `N` (None) or `L` (a list: not array-like);
a list of (optional) shapes is one field with `|` between the elements, `E` = the empty list;
an index is `i:<int>` or `s:<start|N>:<stop|N>:<step|N>`.
Output: `ok[ <result>…]` or the exception class name.

(registered as ONE op `ac`; the first field selects the sub-op: `ac wrap …`, `ac dist …`, …)

  ac_wrap      shape cshape? x:Val cond:Val            model wrapper -> ok <x as cast> <condition as forwarded>
  ac_wrapgen   shape cshape? x:Val cond:Val            generated `_check_x` then `_check_condition`
  ac_dist      shape cshape? xshape cond?              -> ok <batch shape>
  ac_sample    shape cshape? sampleshape cond?         -> ok <result shape>
  ac_match     shapes                                  check_shapes_match
  ac_merge     conds                                   merge_cond_shapes -> ok <shape?>
  ac_chain     shapes conds                            -> ok <shape> <cond?>
  ac_concat    shapes conds axis                       -> ok <shape> <cond?>
  ac_stack     shapes conds axis                       -> ok <shape> <cond?>
  ac_refconcat shapes axis                             reference jnp.concatenate shape -> ok <shape> | none
  ac_refstack  shapes axis                             reference jnp.stack shape -> ok <shape> | none
  ac_partial   shape idx bshape
  ac_index     shape idx                               -> ok <shape>
  ac_reshape   bshape bcond? shape? cond?              -> ok <shape> <cond?>
  ac_transformed basecond? bijcond?
  ac_tri       locshape arrshape                       -> ok <shape>
  ac_scalar    shape cond?
  ac_mro       class                                   -> comma-separated names | none
  ac_resolve   class method                            -> <defining class|none> <wrapped 0/1>
  ac_classes                                           -> comma-separated names of the bijection table
-/
namespace Drv
open PyShape ArgCheck

def parseShape (s : String) : Except String Shape := parseNats s

def parseOptShape (s : String) : Except String (Option Shape) :=
  if s == "N" then pure none else do pure (some (← parseShape s))

def parseVal (s : String) : Except String Val :=
  if s == "N" then pure .none else if s == "L" then pure .notArrayLike else do pure (.arr (← parseShape s))

def parseListOf {α} (p : String → Except String α) (s : String) : Except String (List α) :=
  if s == "E" then pure [] else (s.splitOn "|").mapM p

def parseOptInt (s : String) : Except String (Option Int) :=
  if s == "N" then pure none else do pure (some (← parseInt s))

def parseIdx (s : String) : Except String Idx :=
  match s.splitOn ":" with
  | ["i", i] => do pure (.int (← parseInt i))
  | ["s", a, b, c] => do pure (.slice (← parseOptInt a) (← parseOptInt b) (← parseOptInt c))
  | _ => .error s!"bad index '{s}'"

def showOptShape : Option Shape → String
  | none => "N"
  | some s => showNats s

def verdict {α} (r : Except Err α) (sh : α → String) : String :=
  match r with
  | .ok a => let t := sh a; if t.isEmpty then "ok" else s!"ok {t}"
  | .error e => e.name

def showPair (p : Shape × Option Shape) : String := s!"{showNats p.1} {showOptShape p.2}"

def showVal : Val → String
  | .none => "N"
  | .notArrayLike => "L"
  | .arr s => showNats s

/-- what the method body receives: `<x> <condition>` -/
def showVals (p : Val × Val) : String := s!"{showVal p.1} {showVal p.2}"

def ac_wrap : Handler
  | [s, c, x, k] => do
      pure (verdict (wrapperCheckVal (← parseShape s) (← parseOptShape c) (← parseVal x) (← parseVal k)) showVals)
  | _ => .error "ac_wrap shape cshape x cond"

def ac_wrapgen : Handler
  | [s, c, x, k] => do
      let s ← parseShape s
      let c ← parseOptShape c
      let x ← parseVal x
      let k ← parseVal k
      let r : Except Err (Val × Val) :=
        match Gen.ArgCheckGen.checkX s c x with
        | .error e => .error e
        | .ok x' => match Gen.ArgCheckGen.checkCondition s c k with
            | .error e => .error e
            | .ok k' => .ok (x', k')
      pure (verdict r showVals)
  | _ => .error "ac_wrapgen shape cshape x cond"

def ac_dist : Handler
  | [s, c, x, k] => do
      pure (verdict (distCheck (← parseShape s) (← parseOptShape c) (← parseShape x) (← parseOptShape k)) showNats)
  | _ => .error "ac_dist shape cshape x cond"

def ac_sample : Handler
  | [s, c, x, k] => do
      pure (verdict (distSampleCheck (← parseShape s) (← parseOptShape c) (← parseShape x) (← parseOptShape k)) showNats)
  | _ => .error "ac_sample shape cshape sampleshape cond"

def ac_match : Handler
  | [ss] => do pure (verdict (checkShapesMatch (← parseListOf parseShape ss)) fun _ => "")
  | _ => .error "ac_match shapes"

def ac_merge : Handler
  | [cs] => do pure (verdict (mergeCondShapes (← parseListOf parseOptShape cs)) showOptShape)
  | _ => .error "ac_merge conds"

def ac_chain : Handler
  | [ss, cs] => do
      pure (verdict (chainCtor (← parseListOf parseShape ss) (← parseListOf parseOptShape cs)) showPair)
  | _ => .error "ac_chain shapes conds"

def ac_concat : Handler
  | [ss, cs, a] => do
      pure (verdict (concatenateCtor (← parseListOf parseShape ss) (← parseListOf parseOptShape cs) (← parseInt a)) showPair)
  | _ => .error "ac_concat shapes conds axis"

def ac_stack : Handler
  | [ss, cs, a] => do
      pure (verdict (stackCtor (← parseListOf parseShape ss) (← parseListOf parseOptShape cs) (← parseInt a)) showPair)
  | _ => .error "ac_stack shapes conds axis"

def showRef : Option Shape → String
  | none => "none"
  | some s => s!"ok {showNats s}"

def ac_refconcat : Handler
  | [ss, a] => do pure (showRef (jnpConcatenateShape (← parseListOf parseShape ss) (← parseInt a)))
  | _ => .error "ac_refconcat shapes axis"

def ac_refstack : Handler
  | [ss, a] => do pure (showRef (jnpStackShape (← parseListOf parseShape ss) (← parseInt a)))
  | _ => .error "ac_refstack shapes axis"

def ac_partial : Handler
  | [s, i, b] => do pure (verdict (partialCheck (← parseShape s) (← parseIdx i) (← parseShape b)) fun _ => "")
  | _ => .error "ac_partial shape idx bshape"

def ac_index : Handler
  | [s, i] => do pure (verdict (indexShape (← parseShape s) (← parseIdx i)) showNats)
  | _ => .error "ac_index shape idx"

def ac_reshape : Handler
  | [b, bc, s, c] => do
      pure (verdict (reshapeCtor (← parseShape b) (← parseOptShape bc) (← parseOptShape s) (← parseOptShape c)) showPair)
  | _ => .error "ac_reshape bshape bcond shape cond"

def ac_transformed : Handler
  | [a, b] => do pure (verdict (transformedCheckInit (← parseOptShape a) (← parseOptShape b)) fun _ => "")
  | _ => .error "ac_transformed basecond bijcond"

def ac_tri : Handler
  | [l, a] => do pure (verdict (triangularCtor (← parseShape l) (← parseShape a)) showNats)
  | _ => .error "ac_tri loc arr"

def ac_scalar : Handler
  | [s, c] => do pure (verdict (scalarUnconditionalCheck (← parseShape s) (← parseOptShape c)) fun _ => "")
  | _ => .error "ac_scalar shape cond"

def ac_mro : Handler
  | [c] => pure (match mro fullTable c with
      | none => "none"
      | some l => ",".intercalate l)
  | _ => .error "ac_mro class"

def ac_resolve : Handler
  | [c, m] =>
      let d := match resolveAttr fullTable c m with
        | none => "none"
        | some r => r.name
      pure s!"{d} {showBool (resolvedIsWrapped fullTable c m)}"
  | _ => .error "ac_resolve class method"

def ac_classes : Handler
  | [] => pure (",".intercalate (Gen.Structure.bijectionTable.map (·.name)))
  | _ => .error "ac_classes"

/-- single entry point registered in `Driver.lean`: `ac <sub-op> <fields…>` -/
def ac : Handler
  | sub :: args =>
      match sub with
      | "wrap" => ac_wrap args
      | "wrapgen" => ac_wrapgen args
      | "dist" => ac_dist args
      | "sample" => ac_sample args
      | "match" => ac_match args
      | "merge" => ac_merge args
      | "chain" => ac_chain args
      | "concat" => ac_concat args
      | "stack" => ac_stack args
      | "refconcat" => ac_refconcat args
      | "refstack" => ac_refstack args
      | "partial" => ac_partial args
      | "index" => ac_index args
      | "reshape" => ac_reshape args
      | "transformed" => ac_transformed args
      | "tri" => ac_tri args
      | "scalar" => ac_scalar args
      | "mro" => ac_mro args
      | "resolve" => ac_resolve args
      | "classes" => ac_classes args
      | _ => .error s!"unknown ac sub-op {sub}"
  | [] => .error "ac <sub-op> …"

end Drv
