import Flowjaxv.Driver.Flows
import Flowjaxv.Model.NetGenBij
/-!
Driver ops running the GENERATED methods of `Coupling` / `MaskedAutoregressive` (`Gen/NetGen.lean`, packaged by
`Model/NetGenBij.lean`) at `Float`, beside the hand models `Masks.couplingBij` / `Masks.mafBij` on the same parsed object.

  gnet coupling <act> <d> <dim> <cond_dim|-1> <width> <depth> <x> <y> <cond|-> <TF> (<W_l flat> <b_l>)×(depth+1)
  gnet maf      <act> <dim> <cond_dim|-1> <width> <depth> <x> <y> <cond|-> <TF> (<W_l flat> <b_l>)×(depth+1)
      -> eight fields: GENERATED `transform_and_log_det(x)` (point, log-det), GENERATED `inverse_and_log_det(y)` (point, log-det),
         then the same four of the hand model;  `condition=None` iff `cond_dim = -1`
  gnet couplingt / maft …same fields…
      -> GENERATED `transform(x)` and `inverse(y)` (the plain methods): two fields
  gnet cinit <transformer.shape> <transformer.cond_shape|none> <d> <dim> <cond_dim|-1> <width> <depth>
  gnet minit <transformer.shape> <transformer.cond_shape|none> <dim> <cond_dim|-1> <width> <depth>
      -> GENERATED `__init__` fragment: `ValueError` | `<shape> <cond_shape|none> [<untransformed_dim> <dim>]`
  gnet idx <xs> <i>            `Nw.idx xs i`       (traced `x[i]`: clamped)
  gnet atset <ys> <i> <v>      `Nw.atSet (Nw.atIdx (Nw.at_ ys) i) v`   (`y.at[i].set(v)`: dropped out of range)
      TF = AFF <init> | AFFM <min_scale> <init> | AFF0 <init> | RQS <knots> <lo> <hi> <softmax_adjust> <min_derivative> <init>
-/
namespace Drv
open Gen Masks Flows

/-- (number of parameters per transformed coordinate, transformer family, remaining tokens) — as `Driver/Flows.lean` -/
private def parseTFn : List String → Except String (Nat × (List Float → Bij Float Unit Float) × List String)
  | "AFF" :: init :: r => do pure (2, affineFamily (defaultAffine (α := Float)) (← parseFs init), r)
  | "AFFM" :: m :: init :: r => do pure (2, affineFamily (affine_with_min_scale (← parseF m)) (← parseFs init), r)
  | "AFF0" :: init :: r => do pure (2, affineFamily (affineDefault (α := Float)) (← parseFs init), r)
  | "RQS" :: k :: lo :: hi :: adj :: md :: init :: r => do
      let k ← parseNat k
      let cfg : RqsCfg Float := ⟨k, (← parseF lo, ← parseF hi), ← parseF adj, ← parseF md⟩
      pure (3 * k + 2, rqsFamily cfg (← parseFs init), r)
  | _ => .error "bad transformer spec"

private def four (b : Bij (List Float) (Option (List Float)) Float) (x y : List Float) (c : Option (List Float)) : String :=
  let f := b.fwdLd x c
  let i := b.invLd y c
  s!"{showFs f.1} {showF f.2} {showFs i.1} {showF i.2}"

private def two (b : Bij (List Float) (Option (List Float)) Float) (x y : List Float) (c : Option (List Float)) : String :=
  s!"{showFs (b.fwd x c)} {showFs (b.inv y c)}"

def gnet : Handler
  | ["cinit", tshape, tcond, d, dim, cond, w, dep] => do
      let tc ← (if tcond == "none" then pure none else do pure (some (← parseNats tcond)) : Except String (Option (List Nat)))
      let t : Nw.TSpec := ⟨← parseNats tshape, tc⟩
      match GenNet.Coupling.initShapes t (← parseNat d) (← parseNat dim) (← parseCond cond) (← parseNat w) (← parseNat dep) with
      | none => pure "ValueError"
      | some (sh, csh, d', dim') =>
          pure s!"{showNats sh} {match csh with | none => "none" | some l => showNats l} {d'} {dim'}"
  | ["minit", tshape, tcond, dim, cond, w, dep] => do
      let tc ← (if tcond == "none" then pure none else do pure (some (← parseNats tcond)) : Except String (Option (List Nat)))
      let t : Nw.TSpec := ⟨← parseNats tshape, tc⟩
      match GenNet.Maf.initShapes t (← parseNat dim) (← parseCond cond) (← parseNat w) (← parseNat dep) with
      | none => pure "ValueError"
      | some (sh, csh) => pure s!"{showNats sh} {match csh with | none => "none" | some l => showNats l}"
  | ["idx", xs, i] => do pure (showF (Nw.idx (← parseFs xs) (← parseNat i)))
  | ["atset", ys, i, v] => do pure (showFs (Nw.atSet (Nw.atIdx (Nw.at_ (← parseFs ys)) (← parseNat i)) (← parseF v)))
  | kind :: act :: rest0 => do
      let actf ← parseAct act
      let isC := kind == "coupling" || kind == "couplingt"
      let isM := kind == "maf" || kind == "maft"
      if !(isC || isM) then .error "bad gnet kind"
      let (d, rest1) ← (if isC then match rest0 with
          | d :: r => do pure (← parseNat d, r)
          | _ => .error "coupling fields"
        else pure (0, rest0) : Except String (Nat × List String))
      match rest1 with
      | dim :: cond :: width :: depth :: x :: y :: cnd :: r => do
          let dim ← parseNat dim; let cd ← parseCond cond; let w ← parseNat width; let depth ← parseNat depth
          let x ← parseFs x; let y ← parseFs y; let cnd ← parseFs cnd
          if x.length ≠ dim || y.length ≠ dim then .error "x/y shape"
          if cnd.length ≠ cd.getD 0 then .error "condition shape"
          let c : Option (List Float) := cd.map fun _ => cnd
          let (np, tf, r) ← parseTFn r
          if isC then
            let dims := (d + cd.getD 0) :: (List.replicate depth w ++ [(dim - d) * np])
            let (ws, bs) ← parseLayers dims r
            let masks := (dims.zip dims.tail).map fun (a, b) => List.replicate b (List.replicate a true)
            let conditioner := mlpForward actf (mkLayers masks ws bs)
            let g := GenNet.Coupling.toBij (Nw.CouplingObj.mk' d dim cd conditioner tf)
            if kind == "couplingt" then pure (two g x y c)
            else pure s!"{four g x y c} {four (GenNet.optCond (couplingBij d conditioner tf)) x y c}"
          else
            let dims := (dim + cd.getD 0) :: (List.replicate depth w ++ [dim * np])
            let (ws, bs) ← parseLayers dims r
            let N : MafNet Float := { dim := dim, condDim := cd, width := w, depth := depth, numParams := np,
                                      weights := ws, biases := bs, act := actf }
            let g := GenNet.Maf.toBij (Nw.MafObj.ofNet N tf)
            if kind == "maft" then pure (two g x y c)
            else pure s!"{four g x y c} {four (GenNet.optCond (mafBij N tf)) x y c}"
      | _ => .error "bad gnet fields"
  | _ => .error "bad gnet op"

end Drv
