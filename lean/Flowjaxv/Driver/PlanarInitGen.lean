import Flowjaxv.Driver.Util
import Flowjaxv.Gen.PlanarInitGen
/-!
Driver op running the GENERATED `_UnconditionalPlanar.__init__` (`Gen/PlanarInitGen.lean`) at `Float`:

  guplanarinit <weight> <act_scale> <bias> <negative_slope | N> <probe points>
  -> `OK <activation string> <shape> <weight> <_act_scale> <bias> <activation_fn at the probe points>` | `RAISE valueError`
-/
namespace Drv

def guplanarinit : Handler
  | [w, u, b, ns, pts] => do
      let w ← parseFs w; let u ← parseFs u; let b ← parseF b; let pts ← parseFs pts
      let ns ← if ns = "N" then pure none else do pure (some (← parseF ns))
      match GenPlanarInit.init w u b ns with
      | .error .valueError => pure "RAISE valueError"
      | .ok o => pure s!"OK {String.ofList o.activation} {showNats o.shape} {showFs o.weight} {showFs o._act_scale} {showF o.bias} {showFs (pts.map o.activation_fn)}"
  | _ => .error "bad guplanarinit op"

end Drv
