import Flowjaxv.Driver.Util
import Flowjaxv.Driver.Params
import Flowjaxv.Model.Planar
import Flowjaxv.Model.Triangular
/-!
Driver ops for Planar (generated methods) and TriangularAffine (hand model), instantiated at `Float`.
`<m>` is one of `t tl i il` (transform, transform_and_log_det, inverse, inverse_and_log_det); the output is
`<vector>` or `<vector> <log-det>`.

  planar lrelu <m> <w> <u> <bias> <negative_slope> <x>     generated `_UnconditionalPlanar` methods, activation = leaky_relu
  planar tanh <m> <w> <u> <bias> <x>                       … activation = tanh (`i`, `il`: `NOTIMPL`, the library raises)
  planar get <dim> <params>                                `Planar.get_planar`: `<w> <u> <bias>`
  planar plrelu <m> <dim> <params> <negative_slope> <x>    the generated methods on `get_planar`'s record
  planar ptanh <m> <dim> <params> <x>
  triaff mat <m> <lower> <n> <A flat row-major> <loc> <x>  `TriangularAffine` with `triangular` = A
  triaff raw <m> <lower> <n> <rawdiag> <arr flat> <loc> <x>   … with `triangular = _to_triangular(softplus rawdiag, arr)`
  triaff init <m> <lower> <n> <arr flat> <loc> <x>         … as constructed from `arr` (`REJ` when the constructor raises)
-/
namespace Drv
open Gen

private def rowsOf (n : Nat) (flat : List Float) : List (List Float) :=
  (List.range n).map (fun i => (flat.drop (i * n)).take n)

private def showVL (r : List Float × Float) : String := s!"{showFs r.1} {showF r.2}"

private def runLrelu (m : String) (p : UnconditionalPlanar Float) (s : Float) (x : List Float) : Except String String :=
  match m with
  | "t" => pure (showFs (p.transform_lrelu s x))
  | "tl" => pure (showVL (p.transform_and_log_det_lrelu s x))
  | "i" => pure (showFs (p.inverse_lrelu s x))
  | "il" => pure (showVL (p.inverse_and_log_det_lrelu s x))
  | _ => .error "bad method"

private def runTanh (m : String) (p : UnconditionalPlanar Float) (x : List Float) : Except String String :=
  match m with
  | "t" => pure (showFs (p.transform_tanh x))
  | "tl" => pure (showVL (p.transform_and_log_det_tanh x))
  | "i" => pure "NOTIMPL"
  | "il" => pure "NOTIMPL"
  | _ => .error "bad method"

def planar : Handler
  | ["lrelu", m, w, u, b, s, x] => do
      runLrelu m { weight := ← parseFs w, _act_scale := ← parseFs u, bias := ← parseF b } (← parseF s) (← parseFs x)
  | ["tanh", m, w, u, b, x] => do
      runTanh m { weight := ← parseFs w, _act_scale := ← parseFs u, bias := ← parseF b } (← parseFs x)
  | ["get", dim, params] => do
      let p : UnconditionalPlanar Float := Planar.getPlanar (← parseNat dim) (← parseFs params)
      pure s!"{showFs p.weight} {showFs p._act_scale} {showF p.bias}"
  | ["plrelu", m, dim, params, s, x] => do
      runLrelu m (Planar.getPlanar (← parseNat dim) (← parseFs params)) (← parseF s) (← parseFs x)
  | ["ptanh", m, dim, params, x] => do
      runTanh m (Planar.getPlanar (← parseNat dim) (← parseFs params)) (← parseFs x)
  | _ => .error "bad planar op"

private def runTri (m : String) (t : Tri.TriAffine Float) (x : List Float) : Except String String :=
  match m with
  | "t" => pure (showFs (t.transform x))
  | "tl" => pure (showVL (t.transform_and_log_det x))
  | "i" => pure (showFs (t.inverse x))
  | "il" => pure (showVL (t.inverse_and_log_det x))
  | _ => .error "bad method"

def triaff : Handler
  | ["mat", m, lower, n, flat, loc, x] => do
      runTri m { triangular := rowsOf (← parseNat n) (← parseFs flat), loc := ← parseFs loc, lower := ← parseBool lower } (← parseFs x)
  | ["raw", m, lower, n, raw, flat, loc, x] => do
      runTri m (Tri.ofRaw (← parseBool lower) (← parseFs raw) (rowsOf (← parseNat n) (← parseFs flat)) (← parseFs loc)) (← parseFs x)
  | ["init", m, lower, n, flat, loc, x] => do
      match Tri.init (← parseBool lower) (rowsOf (← parseNat n) (← parseFs flat)) (← parseFs loc) with
      | none => pure "REJ"
      | some t => runTri m t (← parseFs x)
  | _ => .error "bad triaff op"

end Drv
