import Flowjaxv.Driver.Util
import Flowjaxv.Model.Masks
import Flowjaxv.Gen.MasksGen
/-!
Driver ops for the C09 model (`Model/Masks.lean`).  Boolean matrices are printed row by row as 0/1
strings separated by `/` (`-` = no rows; an empty row prints as `e`), several matrices separated by `|`.

  jmod <a> <b>
  rankmask <in_ranks> <out_ranks> <eq 0|1>
  blockdiag <b0> <b1> <n>
  blocktril <b0> <b1> <n> <k>
  mafranks <dim> <cond_dim | -1> <width> <num_params>            -> in|hidden|out
  mafmasks <dim> <cond_dim | -1> <width> <depth> <num_params>    -> mask_0|…|mask_depth
  mafdeps  <dim> <cond_dim | -1> <width> <depth> <num_params>    -> Boolean product of the masks (params × inputs)
  bnafdeps <dim> <depth> <block_dim>                              -> tril product|diag product|condition used 0/1
  mafnet <act> <dim> <cond_dim|-1> <width> <depth> <num_params> <x> <cond> <init> (<W_l flat> <b_l>)×(depth+1)
        -> <flat params> <Affine-transformed y (num_params = 2, `init` = ravelled initial Affine leaves)>
  coupling <act> <d> <dim> <cond_dim|-1> <width> <depth> <x> <cond> <init> (<W_l flat> <b_l>)×(depth+1)   (Affine transformer)
  bnaf <act> <dim> <cond_dim|-1> <depth> <block_dim> <x> <cond> <C flat | -> (<W_l flat> <b_l> <scale_raw_l>)×(#layers)
  act ∈ relu | tanh | softplus | id

The same five structural ops evaluated on the definitions GENERATED from the source (`Gen/MasksGen.lean`):
  gimod (= jmod on `JnpMask.imod`) / grankmask / gblockdiag / gblocktril / gmafranks   (same fields)
  gmafmasks <dim> <cond_dim | -1> <width> <depth> <num_params>   -> mask_0|…|mask_depth  (generated rank assignment fed to the
        generated `masked_autoregressive_mlp` on an MLP with `depth + 1` layers; also checks `if_true` = the layer's own weight)
-/
namespace Drv
open Masks

def showRow (r : List Bool) : String :=
  if r.isEmpty then "e" else String.join (r.map fun b => if b then "1" else "0")
def showMask (m : Mask) : String := if m.isEmpty then "-" else "/".intercalate (m.map showRow)

def toMat (rows cols : Nat) (flat : List Float) : List (List Float) :=
  (List.range rows).map fun i => (flat.drop (i * cols)).take cols

def parseAct (s : String) : Except String (Float → Float) :=
  match s with
  | "relu" => .ok fun x => if x > 0 then x else 0
  | "tanh" => .ok Float.tanh
  | "softplus" => .ok Float.softplusStable
  | "id" => .ok id
  | _ => .error s!"bad activation {s}"

def parseCond (s : String) : Except String (Option Nat) := do
  let c ← parseInt s
  pure (if c < 0 then none else some c.toNat)

def jmodOp : Handler
  | [a, b] => do pure (toString (jmod (← parseInt a) (← parseInt b)))
  | _ => .error "bad jmod op"

def rankmask : Handler
  | [i, o, e] => do pure (showMask (rankBasedMask (← parseInts i) (← parseInts o) (← parseBool e)))
  | _ => .error "bad rankmask op"

def blockdiag : Handler
  | [b0, b1, n] => do pure (showMask (blockDiagMask (← parseNat b0) (← parseNat b1) (← parseNat n)))
  | _ => .error "bad blockdiag op"

def blocktril : Handler
  | [b0, b1, n, k] => do
      pure (showMask (blockTrilMask (← parseNat b0) (← parseNat b1) (← parseNat n) (← parseInt k)))
  | _ => .error "bad blocktril op"

def mafranks : Handler
  | [dim, cond, width, np] => do
      let dim ← parseNat dim; let c ← parseCond cond; let w ← parseNat width; let np ← parseNat np
      pure s!"{showInts (mafInRanks dim c)}|{showInts (mafHiddenRanks dim w c)}|{showInts (mafOutRanks dim np)}"
  | _ => .error "bad mafranks op"

def mafmasks : Handler
  | [dim, cond, width, depth, np] => do
      let dim ← parseNat dim; let c ← parseCond cond; let w ← parseNat width
      let depth ← parseNat depth; let np ← parseNat np
      let ms := mlpMasks (mafInRanks dim c) (mafHiddenRanks dim w c) (mafOutRanks dim np) depth
      pure ("|".intercalate (ms.map showMask))
  | _ => .error "bad mafmasks op"

def gimod : Handler
  | [a, b] => do pure (toString (JnpMask.imod (← parseInt a) (← parseInt b)))
  | _ => .error "bad gimod op"

def grankmask : Handler
  | [i, o, e] => do pure (showMask (Gen.rankBasedMask (← parseInts i) (← parseInts o) (← parseBool e)))
  | _ => .error "bad grankmask op"

def gblockdiag : Handler
  | [b0, b1, n] => do pure (showMask (Gen.blockDiagMask (← parseNat b0, ← parseNat b1) (← parseNat n)))
  | _ => .error "bad gblockdiag op"

def gblocktril : Handler
  | [b0, b1, n, k] => do
      pure (showMask (Gen.blockTrilMask (← parseNat b0, ← parseNat b1) (← parseNat n) (← parseInt k)))
  | _ => .error "bad gblocktril op"

def gmafranks : Handler
  | [dim, cond, width, np] => do
      let dim ← parseNat dim; let c ← parseCond cond; let w ← parseNat width; let np ← parseNat np
      let rk := Gen.mafRanks np dim c w
      pure s!"{showInts rk.1}|{showInts rk.2.1}|{showInts rk.2.2}"
  | _ => .error "bad gmafranks op"

def gmafmasks : Handler
  | [dim, cond, width, depth, np] => do
      let dim ← parseNat dim; let c ← parseCond cond; let w ← parseNat width
      let depth ← parseNat depth; let np ← parseNat np
      let rk := Gen.mafRanks np dim c w
      -- an `eqx.nn.MLP` with `depth + 1` linear layers; the weight leaf of layer `l` is named `l`
      let mlp : JnpMask.MLP Nat := { depth := depth, layers := (List.range (depth + 1)).map fun l => ⟨l⟩ }
      let out := Gen.maskedAutoregressiveMlp mlp rk.1 rk.2.1 rk.2.2
      if out.layers.map (fun L => L.weight.if_true) ≠ List.range (depth + 1) then .error "if_true is not the layer's own weight"
      if out.depth ≠ depth then .error "depth changed"
      pure ("|".intercalate (out.layers.map fun L => showMask L.weight.cond))
  | _ => .error "bad gmafmasks op"

/-- `mafdeps <dim> <cond_dim|-1> <width> <depth> <num_params>`: Boolean product of the layer masks
(rows = flat transformer parameters, columns = network inputs `x ++ condition`). -/
def mafdeps : Handler
  | [dim, cond, width, depth, np] => do
      let dim ← parseNat dim; let c ← parseCond cond; let w ← parseNat width
      let depth ← parseNat depth; let np ← parseNat np
      let ms := mlpMasks (mafInRanks dim c) (mafHiddenRanks dim w c) (mafOutRanks dim np) depth
      pure (showMask (reachMask (dim + c.getD 0) ms))
  | _ => .error "bad mafdeps op"

/-- `bnafdeps <dim> <depth> <block_dim>`: Boolean product of the block-lower-triangular masks of the layer stack
(the x-dependency pattern) and of the block-diagonal masks (where the positive entries are). -/
def bnafdeps : Handler
  | [dim, depth, bd] => do
      let dim ← parseNat dim; let depth ← parseNat depth; let bd ← parseNat bd
      let shapes := bnafBlockShapes depth bd
      let tril := shapes.map fun (b0, b1) => blockTrilMask b0 b1 dim 0
      let diag := shapes.map fun (b0, b1) => blockDiagMask b0 b1 dim
      pure s!"{showMask (reachMask dim tril)}|{showMask (reachMask dim diag)}|{if shapes.length > 1 then 1 else 0}"
  | _ => .error "bad bnafdeps op"

/-- parse `(W flat, b)` pairs for layer sizes `dims = [n_0, …, n_L]` -/
def parseLayers : List Nat → List String → Except String (List (List (List Float)) × List (List Float))
  | nin :: nout :: dims, w :: b :: rest => do
      let wf ← parseFs w
      let bf ← parseFs b
      if wf.length ≠ nin * nout then .error s!"weight size {wf.length} ≠ {nout}x{nin}"
      if bf.length ≠ nout then .error s!"bias size {bf.length} ≠ {nout}"
      let (ws, bs) ← parseLayers (nout :: dims) rest
      pure (toMat nout nin wf :: ws, bf :: bs)
  | [_], [] => pure ([], [])
  | _, _ => .error "layer count / field count mismatch"

/-- `Affine` transformer built by `get_ravelled_pytree_constructor`: leaves `(loc, raw scale) = params + init`,
`y = x * softplus(raw scale) + loc`. -/
def affineT (init : List Float) (ps : List Float) (x : Float) : Float :=
  match List.zipWith (· + ·) ps init with
  | [loc, raw] => x * Float.softplusStable raw + loc
  | _ => 0.0 / 0.0

def mafnet : Handler
  | act :: dim :: cond :: width :: depth :: np :: x :: cnd :: init :: rest => do
      let act ← parseAct act
      let dim ← parseNat dim; let c ← parseCond cond; let w ← parseNat width
      let depth ← parseNat depth; let np ← parseNat np
      let x ← parseFs x; let cnd ← parseFs cnd; let init ← parseFs init
      if x.length ≠ dim then .error "x shape"
      if cnd.length ≠ c.getD 0 then .error "condition shape"
      let nin := dim + c.getD 0
      let dims := nin :: (List.replicate depth w ++ [dim * np])
      let (ws, bs) ← parseLayers dims rest
      let N : MafNet Float := { dim := dim, condDim := c, width := w, depth := depth, numParams := np,
                                weights := ws, biases := bs, act := act }
      pure s!"{showFs (N.flatParams x cnd)} {showFs (N.transform (affineT init) x cnd)}"
  | _ => .error "bad mafnet op"

def coupling : Handler
  | act :: d :: dim :: cond :: width :: depth :: x :: cnd :: init :: rest => do
      let actf ← parseAct act
      let d ← parseNat d; let dim ← parseNat dim; let c ← parseCond cond; let w ← parseNat width
      let depth ← parseNat depth
      let x ← parseFs x; let cnd ← parseFs cnd; let init ← parseFs init
      if x.length ≠ dim then .error "x shape"
      if cnd.length ≠ c.getD 0 then .error "condition shape"
      let nin := d + c.getD 0
      let dims := nin :: (List.replicate depth w ++ [(dim - d) * 2])
      let (ws, bs) ← parseLayers dims rest
      -- the conditioner is a plain `eqx.nn.MLP`: every mask entry true
      let masks := (dims.zip dims.tail).map fun (a, b) => List.replicate b (List.replicate a true)
      let conditioner := mlpForward actf (mkLayers masks ws bs)
      pure (showFs (couplingTransform d conditioner (affineT init) x cnd))
  | _ => .error "bad coupling op"

def parseBnafLayers : Nat → List (Nat × Nat) → List String → Except String (List (BnafLayer Float))
  | n, (b0, b1) :: shapes, w :: b :: s :: rest => do
      let wf ← parseFs w; let bf ← parseFs b; let sf ← parseFs s
      if wf.length ≠ (b0 * n) * (b1 * n) then .error "bnaf weight size"
      if bf.length ≠ b0 * n then .error "bnaf bias size"
      if sf.length ≠ b0 * n then .error "bnaf scale size"
      let ls ← parseBnafLayers n shapes rest
      pure ({ b0 := b0, b1 := b1, n := n, weight := toMat (b0 * n) (b1 * n) wf, bias := bf, scaleRaw := sf } :: ls)
  | _, [], [] => pure []
  | _, _, _ => .error "bnaf layer count / field count mismatch"

def bnaf : Handler
  | act :: dim :: cond :: depth :: bd :: x :: cnd :: cmat :: rest => do
      let actf ← parseAct act
      let dim ← parseNat dim; let c ← parseCond cond; let depth ← parseNat depth; let bd ← parseNat bd
      let x ← parseFs x; let cnd ← parseFs cnd; let cflat ← parseFs cmat
      if x.length ≠ dim then .error "x shape"
      let shapes := bnafBlockShapes depth bd
      let layers ← parseBnafLayers dim shapes rest
      let out0 := match shapes with | (b0, _) :: _ => b0 * dim | [] => 0
      let cl : Option (List (List Float)) := c.map fun cd => toMat out0 cd cflat
      pure (showFs (bnafTransform actf layers cl x cnd))
  | _ => .error "bad bnaf op"

end Drv
