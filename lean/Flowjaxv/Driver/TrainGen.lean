import Flowjaxv.Driver.Util
import Flowjaxv.Driver.Train
import Flowjaxv.Gen.TrainGen
/-!
Driver ops that run the GENERATED training loops (`Gen/TrainGen.lean`, C15 / C16) in concrete worlds.

  gcfruit <ints>                                   -> `<argmin> <count_fruitless> <raises>` (generated `count_fruitless`, `…_raises`)
  gaddbatch <b> <n>                                -> batches of `0..n-1` by the generated `_add_batch` (`|`-separated) or NONE (`…_raises`)
  gbatches <b> <n>                                 -> `<raises> <batches of x> / <batches of c>` for `get_batches((x, c), b)`, `x = 0..n-1`, `c = x + 1000`
  gsplit <n> <val_prop bits> [<π>]                 -> `<raises> <train x> <val x> <train c> <val c>` by the generated `train_val_split`
  gfit <maxEpochs> <maxPatience> <rb> <val> <trn> <n> <b> <val_prop bits>
        generated `fit_to_data` on `x = 0..n-1` in the COUNTING world (parameters = number of updates; the loss of a call is a table
        lookup at the parameters, as in `tools/props/c16.py`)  -> `<epochs> <returned updates> <#train> <#val> <val…> <trn…>`
  gvi <steps> <rb> <script>                        -> `<#losses> <returned updates> <losses…>` (generated `fit_to_variational_target`)
  gfitdata <n> <b> <val_prop bits> <epochs> <cond> <π₀> <π_0> <σ_0> …
        generated `fit_to_data` in the RECORDING world: every loss value is an injective code of the call that produced it
        (train/validation, parameter version, key path, the rows of every array), `sum` concatenates codes, `/` keeps them; so the
        returned loss lists spell out every call the generated loops make.  -> `OK <returned updates> <train codes> <val codes>`
-/
namespace Drv
open Train

def gcfruit : Handler
  | [ls] => do
      let l ← parseInts ls
      pure s!"{Py.argmin l} {GenTrain.countFruitless l} {showBool (GenTrain.countFruitless_raises l)}"
  | _ => .error "gcfruit <ints>"

def gaddbatch : Handler
  | [b, n] => do
      let b ← parseInt b
      let n ← parseNat n
      if GenTrain.addBatch_raises (List.range n) b then pure "NONE" else
      pure ("|".intercalate ((GenTrain.addBatch (List.range n) b).map showNats))
  | _ => .error "gaddbatch <b> <n>"

def showBatches (bs : List (List Nat)) : String := if bs.isEmpty then "-" else "|".intercalate (bs.map showNats)

def gbatches : Handler
  | [b, n] => do
      let b ← parseInt b
      let n ← parseNat n
      let arrays := [List.range n, (List.range n).map (· + 1000)]
      let r := GenTrain.getBatches arrays b
      pure s!"{showBool (GenTrain.getBatches_raises arrays b || arrays.any (fun a => GenTrain.addBatch_raises a b))} {" / ".intercalate (r.map showBatches)}"
  | _ => .error "gbatches <b> <n>"

/-- a world whose only meaningful field is the permutation -/
def permWorld (perm : Path → Nat → List Nat) : World Nat Nat Unit Unit Unit :=
  { perm := perm, valueAndGrad := fun _ _ => (0, ()), lossFn := fun _ _ => 0, optInit := fun _ => (),
    optUpdate := fun _ _ _ => ((), ()), applyUpdates := fun p _ => p + 1, lsum := fun _ => 0, ldiv := fun l _ => l }

def gsplit : Handler
  | n :: vp :: rest => do
      let n ← parseNat n
      let vp ← parseF vp
      let ps ← rest.mapM parseNats
      let perm : Path → Nat → List Nat := fun _ m => match ps with | π :: _ => π | [] => List.range m
      let arrays := [List.range n, (List.range n).map (· + 1000)]
      let r := GenTrain.trainValSplit (permWorld perm) [] arrays vp
      let g := fun (l : List (List Nat)) (i : Nat) => showNats (l.getD i [])
      pure s!"{showBool (GenTrain.trainValSplit_raises ([] : Path) arrays vp)} {g r.1 0} {g r.2 0} {g r.1 1} {g r.2 1}"
  | _ => .error "gsplit <n> <val_prop> [<perm>]"

/-- the counting world of `tools/props/c16.py`: parameters = number of updates; the loss of a `step` at parameters `p` is the
train script at epoch `p / nbT`, the loss of a validation call at parameters `p` is the validation script at epoch `p / nbT − 1` -/
def countWorld (trn val : Nat → Int) (nbT : Nat) : World Nat Nat Unit Unit Unit :=
  { perm := fun _ m => List.range m, valueAndGrad := fun p _ => (trn (p / nbT), ()), lossFn := fun p _ => val (p / nbT - 1),
    optInit := fun _ => (), optUpdate := fun _ _ _ => ((), ()), applyUpdates := fun p _ => p + 1,
    lsum := fun l => l.foldl (· + ·) 0, ldiv := fun l k => l / k }

def gfit : Handler
  | [me, mp, rb, vs, ts, n, b, vp] => do
      let v ← parseInts vs
      let t ← parseInts ts
      let n ← parseNat n
      let b ← parseInt b
      let vp ← parseF vp
      -- number of train batches per epoch, from the generated split and batching
      let sp := GenTrain.trainValSplit (permWorld (fun _ m => List.range m)) (child [] 2 1) [List.range n] vp
      let nbT := (Py.zipStar (GenTrain.getBatches sp.1 b)).length
      let r := GenTrain.fitToData (countWorld (script t) (script v) nbT) [] 0 (List.range n) none (← parseInt me) (← parseInt mp) b vp (← parseBool rb)
      pure s!"{r.2.2.length} {r.1} {r.2.1.length} {r.2.2.length} {showInts r.2.2} {showInts r.2.1}"
  | _ => .error "gfit <maxEpochs> <maxPatience> <rb> <val> <trn> <n> <b> <val_prop>"

def viWorld (loss : Nat → Int) : World Nat Nat Unit Unit Unit :=
  { perm := fun _ m => List.range m, valueAndGrad := fun p _ => (loss p, ()), lossFn := fun p _ => loss p,
    optInit := fun _ => (), optUpdate := fun _ _ _ => ((), ()), applyUpdates := fun p _ => p + 1,
    lsum := fun l => l.foldl (· + ·) 0, ldiv := fun l k => l / k }

def gvi : Handler
  | [st, rb, ls] => do
      let r := GenTrain.fitToVariationalTarget (α := Nat) (viWorld (script (← parseInts ls))) [] 0 (← parseInt st) (← parseBool rb)
      pure s!"{r.2.length} {r.1} {r.2.length} {showInts r.2}"
  | _ => .error "gvi <steps> <rb> <script>"

/-! ### the recording world -/

def encBase : Nat := 1048576

/-- injective code of a list of numbers `< encBase - 1` -/
def encDigits (ds : List Nat) : Nat := ds.foldr (fun a acc => (a + 1) + encBase * acc) 0

def digitsOf (n : Nat) : List Nat :=
  if _h : n = 0 then [] else (n % encBase - 1) :: digitsOf (n / encBase)
termination_by n
decreasing_by simp only [encBase]; omega

def flatPath (p : Path) : List Nat := p.reverse.flatMap (fun s => [s.1, s.2])

/-- `[tag, params, 2·|key|, key…, #arrays, |a₀|, a₀…, |a₁|, a₁…]` -/
def encCall (tag params : Nat) (args : LossArgs Nat) : Int :=
  let key := args.key.getD []
  ((encDigits ([tag, params, 2 * key.length] ++ flatPath key ++ [args.arrays.length]
    ++ args.arrays.flatMap (fun a => a.length :: a)) : Nat) : Int)

def recWorld (perm : Path → Nat → List Nat) : World Nat Nat Unit Unit Unit :=
  { perm := perm, valueAndGrad := fun p a => (encCall 1 p a, ()), lossFn := fun p a => encCall 0 p a,
    optInit := fun _ => (), optUpdate := fun _ _ _ => ((), ()), applyUpdates := fun p _ => p + 1,
    lsum := fun l => ((encDigits (l.flatMap (fun c => (digitsOf c.toNat).length :: digitsOf c.toNat)) : Nat) : Int),
    ldiv := fun l _ => l }

def gfitdata : Handler
  | n :: b :: vp :: ep :: cond :: perms => do
      let n ← parseNat n
      let b ← parseNat b
      let vp ← parseF vp
      let ep ← parseNat ep
      let cond ← parseBool cond
      let ps ← perms.mapM parseNats
      -- the keys the permutations belong to, in program order: read off the hand model's schedule (identity run)
      let nv := roundHalfEven (vp * n.toFloat)
      let keys : List Path := match fitData (fun _ m => List.range m) nv b ep (List.range n) with
        | none => [child [] 2 1]
        | some r0 => r0.splitKey :: r0.epochs.flatMap (fun e => [e.trainShuffleKey, e.valShuffleKey])
      let table := keys.zip ps
      let perm : Path → Nat → List Nat := fun p m => match table.lookup p with | some π => π | none => List.range m
      let x := List.range n
      let c := if cond then some (x.map (· + 1000)) else none
      let r := GenTrain.fitToData (recWorld perm) [] 0 x c (ep : Int) ((ep : Int) + 1) (b : Int) vp false
      pure s!"OK {r.1} {showInts r.2.1} {showInts r.2.2}"
  | _ => .error "gfitdata <n> <b> <val_prop> <epochs> <cond> <perms…>"

end Drv
