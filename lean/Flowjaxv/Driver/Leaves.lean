import Flowjaxv.Driver.Util
import Flowjaxv.Gen.Leaves
/-! Driver ops for the generated leaf kernels, instantiated at `Float`. -/
namespace Drv
open Gen

private def out1 (y : Float) : String := showF y
private def out2 (p : Float × Float) : String := s!"{showF p.1} {showF p.2}"

/-- `leaf <class> <method> <params…> <x>`; method ∈ t | tl | i | il (| d for the spline). -/
def leaf : Handler
  | ["Affine", m, loc, scale, x] => do
      let p : Affine Float := { loc := ← parseF loc, scale := ← parseF scale }
      let x ← parseF x
      match m with
      | "t" => pure (out1 (p.transform x)) | "tl" => pure (out2 (p.transform_and_log_det x))
      | "i" => pure (out1 (p.inverse x)) | "il" => pure (out2 (p.inverse_and_log_det x))
      | _ => .error "method"
  | ["Loc", m, loc, x] => do
      let p : Loc Float := { loc := ← parseF loc }
      let x ← parseF x
      match m with
      | "t" => pure (out1 (p.transform x)) | "tl" => pure (out2 (p.transform_and_log_det x))
      | "i" => pure (out1 (p.inverse x)) | "il" => pure (out2 (p.inverse_and_log_det x))
      | _ => .error "method"
  | ["Scale", m, scale, x] => do
      let p : Scale Float := { scale := ← parseF scale }
      let x ← parseF x
      match m with
      | "t" => pure (out1 (p.transform x)) | "tl" => pure (out2 (p.transform_and_log_det x))
      | "i" => pure (out1 (p.inverse x)) | "il" => pure (out2 (p.inverse_and_log_det x))
      | _ => .error "method"
  | ["Exp", m, x] => do
      let p : NoParams Float := {}
      let x ← parseF x
      match m with
      | "t" => pure (out1 (Exp.transform p x)) | "tl" => pure (out2 (Exp.transform_and_log_det p x))
      | "i" => pure (out1 (Exp.inverse p x)) | "il" => pure (out2 (Exp.inverse_and_log_det p x))
      | _ => .error "method"
  | ["SoftPlus", m, x] => do
      let p : NoParams Float := {}
      let x ← parseF x
      match m with
      | "t" => pure (out1 (SoftPlus.transform p x)) | "tl" => pure (out2 (SoftPlus.transform_and_log_det p x))
      | "i" => pure (out1 (SoftPlus.inverse p x)) | "il" => pure (out2 (SoftPlus.inverse_and_log_det p x))
      | _ => .error "method"
  | ["Tanh", m, x] => do
      let p : NoParams Float := {}
      let x ← parseF x
      match m with
      | "t" => pure (out1 (Tanh.transform p x)) | "tl" => pure (out2 (Tanh.transform_and_log_det p x))
      | "i" => pure (out1 (Tanh.inverse p x)) | "il" => pure (out2 (Tanh.inverse_and_log_det p x))
      | _ => .error "method"
  | ["LeakyTanh", m, maxVal, x] => do
      let p : LeakyTanh Float := LeakyTanh.init (← parseF maxVal)
      let x ← parseF x
      match m with
      | "t" => pure (out1 (p.transform x)) | "tl" => pure (out2 (p.transform_and_log_det x))
      | "i" => pure (out1 (p.inverse x)) | "il" => pure (out2 (p.inverse_and_log_det x))
      | "init" => pure s!"{showF p.max_val} {showF p.intercept} {showF p.linear_grad}"
      | _ => .error "method"
  | ["RQS", m, lo, hi, xs, ys, ds, x] => do
      let p : RationalQuadraticSpline Float :=
        { interval := (← parseF lo, ← parseF hi), x_pos := ← parseFs xs, y_pos := ← parseFs ys,
          derivatives := ← parseFs ds }
      let x ← parseF x
      match m with
      | "t" => pure (out1 (p.transform x)) | "tl" => pure (out2 (p.transform_and_log_det x))
      | "i" => pure (out1 (p.inverse x)) | "il" => pure (out2 (p.inverse_and_log_det x))
      | "d" => pure (out1 (p.derivative x))
      | _ => .error "method"
  | _ => .error "bad leaf op"

end Drv
