import Flowjaxv.Driver.Util
import Flowjaxv.Model.Losses
/-!
Driver ops for the loss models (`Model/Losses.lean`) at `Float`.  The abstract `Distn` is
instantiated with lookup tables: points / keys / conditions are batch indices.

  mle <lps>                                  → `mleLoss` with `log_prob(x[i], c[i]) = lps[i]`
  elbo <stl 0|1> <slp_lps> <slp_targets> <lp_lps> <s_targets>
        `sample_and_log_prob` path: log-probs `slp_lps`, target at its samples `slp_targets`;
        `sample` path: `log_prob` at those samples `lp_lps`, target at them `s_targets`   → `elboLoss`
  cidx <batch> <n> <π_0> … <π_{batch-1}>     → the rows of `contrastiveIdxs`, `ERR` if some `π_i` is not a
                                               permutation of `choices batch i`
  contrastive <b> <bc> <n> <prior (b)> <π_0> … <π_{b-1}> <LP_0> … <LP_{bc-1}>
        `LP_i[j] = log_prob(x[j], c[i])`, `prior[j] = prior.log_prob(x[j])`; `bc` = batch size of the
        condition                              → `contrastiveLoss`, `NONE` when the model raises
-/
namespace Drv
open Losses

def nanF : Float := 0.0 / 0.0

def mle : Handler
  | [lps] => do
      let lps ← parseFs lps
      let d : Distn Nat Unit Nat Float := ⟨fun i _ => lps.getD i nanF, fun k _ => k, fun k _ => (k, nanF)⟩
      let n := lps.length
      pure (showF (mleLoss d (List.range n) (List.replicate n ())))
  | _ => .error "bad mle op"

def elbo : Handler
  | [stl, slpLps, slpTg, lpLps, sTg] => do
      let stl ← parseBool stl
      let slpLps ← parseFs slpLps
      let slpTg ← parseFs slpTg
      let lpLps ← parseFs lpLps
      let sTg ← parseFs sTg
      let n := slpLps.length
      if slpTg.length ≠ n ∨ lpLps.length ≠ n ∨ sTg.length ≠ n then throw "elbo: lengths differ"
      -- a point is (index of the key, which path produced it)
      let d : Distn (Nat × Bool) Unit Nat Float :=
        ⟨fun x _ => lpLps.getD x.1 nanF, fun k _ => (k, true), fun k _ => ((k, false), slpLps.getD k nanF)⟩
      let target : Nat × Bool → Float := fun x => if x.2 then sTg.getD x.1 nanF else slpTg.getD x.1 nanF
      pure (showF (elboLoss d target stl (List.range n) ()))
  | _ => .error "bad elbo op"

def cidx : Handler
  | batch :: n :: rows => do
      let batch ← parseNat batch
      let n ← parseNat n
      let rows ← rows.mapM parseNats
      if rows.length ≠ batch then throw "cidx: need one permutation per row"
      let π : Nat → List Nat := fun i => rows.getD i []
      if !(admissibleB batch π) then throw "cidx: not a permutation of the candidates"
      pure (" ".intercalate ((contrastiveIdxs batch n π).map showNats))
  | _ => .error "bad cidx op"

def contrastive : Handler
  | b :: bc :: n :: prior :: rest => do
      let b ← parseNat b
      let bc ← parseNat bc
      let n ← parseNat n
      let prior ← parseFs prior
      if rest.length ≠ b + bc then throw "contrastive: need b permutations and bc log-prob rows"
      let perms ← (rest.take b).mapM parseNats
      let lp ← (rest.drop b).mapM parseFs
      if prior.length ≠ b then throw "contrastive: prior length"
      if lp.any (fun r => r.length ≠ b) then throw "contrastive: log-prob row length"
      let π : Nat → List Nat := fun i => perms.getD i []
      if !(admissibleB b π) then throw "contrastive: not a permutation of the candidates"
      let d : Distn Nat Nat Nat Float :=
        ⟨fun j i => (lp.getD i []).getD j nanF, fun k _ => k, fun k _ => (k, nanF)⟩
      match contrastiveLoss d (fun j => prior.getD j nanF) n (List.range b) (List.range bc) π with
      | some v => pure (showF v)
      | none => pure "NONE"
  | _ => .error "bad contrastive op"

end Drv
