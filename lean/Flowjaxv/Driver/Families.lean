import Flowjaxv.Driver.Util
import Flowjaxv.Model.Families
/-!
Driver ops for the parametric families (C05), all at `Float`:

  family   <Name> <params…> <x>        one-element `_log_prob` and public `log_prob` (NaN → −inf): `<private> <public>`
  familyv  <Name> <param lists…> <xs>  the lifting to n independent dimensions (parameters already broadcast, flattened)
  familys  <Name> <params…> <z>        `_sample` and `_sample_and_log_prob` for base sample z: `<s> <s'> <lp>`
  accessor <Name> <params…>            the accessors' values
  mixture  <lps> <ws>                  `VmapMixture._log_prob` from the component log-probs: `<private> <public>`
  mixweights <ws>                      `log_normalized_weights`

Names / parameters: Normal loc scale | LogNormal loc scale | Uniform minval maxval | Gumbel loc scale |
Cauchy loc scale | Laplace loc scale | Logistic loc scale | Exponential rate | StudentT df loc scale.
`REJ` = the constructor's `eqx.error_if` guard rejects the parameters.
-/
namespace Drv
open Gen Families

/-- `none` = rejected by the constructor's guard -/
def famComp (name : String) (ps : List Float) : Except String (Option (Comp Float)) :=
  match name, ps with
  | "Normal", [l, s] => pure (some (normalComp l s))
  | "LogNormal", [l, s] => pure (some (logNormalComp l s))
  | "Uniform", [a, b] => pure (if uniformValid a b then some (uniformComp a b) else none)
  | "Gumbel", [l, s] => pure (some (gumbelComp l s))
  | "Cauchy", [l, s] => pure (some (cauchyComp l s))
  | "Laplace", [l, s] => pure (some (laplaceComp l s))
  | "Logistic", [l, s] => pure (some (logisticComp l s))
  | "Exponential", [r] => pure (some (exponentialComp r))
  | "StudentT", [df, l, s] => pure (if studentValid df then some (studentTComp df l s) else none)
  | _, _ => .error s!"bad family {name} / arity {ps.length}"

/-- the scalar family exactly as the theorems of `Props/C05.lean` name it -/
def famDist (name : String) (ps : List Float) : Except String (Option (Distn Float Unit Float Float)) :=
  match name, ps with
  | "Normal", [l, s] => pure (some (normal l s))
  | "LogNormal", [l, s] => pure (some (logNormal l s))
  | "Uniform", [a, b] => pure (if uniformValid a b then some (uniform a b) else none)
  | "Gumbel", [l, s] => pure (some (gumbel l s))
  | "Cauchy", [l, s] => pure (some (cauchy l s))
  | "Laplace", [l, s] => pure (some (laplace l s))
  | "Logistic", [l, s] => pure (some (logistic l s))
  | "Exponential", [r] => pure (some (exponential r))
  | "StudentT", [df, l, s] => pure (if studentValid df then some (studentT df l s) else none)
  | _, _ => .error s!"bad family {name} / arity {ps.length}"

private def splitLast : List String → Except String (List String × String)
  | [] => .error "missing argument"
  | [x] => pure ([], x)
  | a :: r => do let (i, l) ← splitLast r; pure (a :: i, l)

def family : Handler
  | name :: rest => do
      let (ps, x) ← splitLast rest
      let ps ← ps.mapM parseF
      let x ← parseF x
      match ← famDist name ps with
      | none => pure "REJ"
      | some d =>
        let lp := d.logProb x ()
        pure s!"{showF lp} {showF (nanToNegInf lp)}"
  | _ => .error "bad family op"

def familys : Handler
  | name :: rest => do
      let (ps, z) ← splitLast rest
      let ps ← ps.mapM parseF
      let z ← parseF z
      match ← famDist name ps with
      | none => pure "REJ"
      | some d =>
        let r := d.sampleLp z ()
        pure s!"{showF (d.sample z ())} {showF r.1} {showF r.2}"
  | _ => .error "bad familys op"

/-- transpose parameter lists into per-dimension parameter tuples -/
private def columns (pss : List (List Float)) (n : Nat) : List (List Float) :=
  (List.range n).map (fun i => pss.map (fun ps => ps.getD i 0))

def familyv : Handler
  | name :: rest => do
      let (pss, xs) ← splitLast rest
      let pss ← pss.mapM parseFs
      let xs ← parseFs xs
      if pss.any (fun ps => ps.length != xs.length) then .error "parameter lists must be broadcast to the point's size"
      let comps ← (columns pss xs.length).mapM (famComp name)
      if comps.any Option.isNone then pure "REJ" else
      let lp := (lifted (comps.filterMap id)).logProb xs ()
      pure s!"{showF lp} {showF (nanToNegInf lp)}"
  | _ => .error "bad familyv op"

def accessor : Handler
  | ["Uniform", a, b] => do
      let a ← parseF a; let b ← parseF b
      if !uniformValid a b then pure "REJ" else
      pure s!"{showF (accMinval a b)} {showF (accMaxval a b)}"
  | ["Exponential", r] => do pure (showF (accRate (← parseF r)))
  | ["StudentT", df, l, s] => do
      let df ← parseF df; let l ← parseF l; let s ← parseF s
      if !studentValid df then pure "REJ" else
      pure s!"{showF (accDf df)} {showF (accLoc l s)} {showF (accScale l s)}"
  | [name, l, s] =>
      if ["Normal", "Gumbel", "Cauchy", "Laplace", "Logistic"].contains name then do
        let l ← parseF l; let s ← parseF s
        pure s!"{showF (accLoc l s)} {showF (accScale l s)}"
      else .error s!"no accessors for {name}"
  | _ => .error "bad accessor op"

def mixture : Handler
  | [lps, ws] => do
      let lps ← parseFs lps
      let ws ← parseFs ws
      if lps.length != ws.length then .error "one weight per component"
      if !weightsValid ws then pure "REJ" else
      let lp := mixtureLogProb lps ws
      pure s!"{showF lp} {showF (nanToNegInf lp)}"
  | _ => .error "bad mixture op"

def mixweights : Handler
  | [ws] => do
      let ws ← parseFs ws
      if !weightsValid ws then pure "REJ" else pure (showFs (logNormWeights ws))
  | _ => .error "bad mixweights op"

end Drv
