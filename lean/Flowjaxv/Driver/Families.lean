import Flowjaxv.Driver.Util
import Flowjaxv.Model.Families
/-!
Driver ops for the parametric families (C05), all at `Float`:

  family   <Name> <params…> <x>        one-element `_log_prob` and public `log_prob` (NaN → −inf): `<private> <public>`
  familyv  <Name> <param lists…> <xs>  the lifting to n independent dimensions (parameters already broadcast, flattened)
  familys  <Name> <params…> <z>        `_sample` and `_sample_and_log_prob` for base sample z: `<s> <s'> <lp>`
  accessor <Name> <params…>            the accessors' values
  mixture  <lps> <ws>                  `VmapMixture._log_prob` from the component log-probs: `<private> <public>`
  mixweights <ws>                      `log_normalized_weights`
  mixsample <Name> <k> <d> <ws> <param lists…> <component> <z>
                                       `VmapMixture._sample` / `_sample_and_log_prob` of `k` components of family
                                       `Name` with `d` dimensions each (`d = 0`: scalar components); every parameter
                                       list is flattened component-major (`k·max(d,1)` entries); the key is the
                                       categorical draw `component` and the selected component's base sample `z`:
                                       `<sample> <sample'> <lp>`
  mvn lp  <n> <loc> <chol flat row-major> <x>   `MultivariateNormal` with `chol = cholesky(covariance)`: `<private> <public>`
  mvn s   <n> <loc> <chol flat> <z>             `_sample`, `_sample_and_log_prob` for base sample z: `<s> <s'> <lp>`
  mvn acc <n> <loc> <chol flat>                 accessors `<loc> <covariance flat row-major>`

Names / parameters: Normal loc scale | LogNormal loc scale | Uniform minval maxval | Gumbel loc scale |
Cauchy loc scale | Laplace loc scale | Logistic loc scale | Exponential rate | StudentT df loc scale.
`REJ` = the constructor's `eqx.error_if` guard rejects the parameters.
-/
namespace Drv
open Gen Families

/-- `none` = rejected by the constructor's guard -/
def famComp (name : String) (ps : List Float) : Except String (Option (Comp Float)) :=
  match name, ps with
  | "Normal", [l, s] => pure (some (normalComp l s))
  | "LogNormal", [l, s] => pure (some (logNormalComp l s))
  | "Uniform", [a, b] => pure (if uniformValid a b then some (uniformComp a b) else none)
  | "Gumbel", [l, s] => pure (some (gumbelComp l s))
  | "Cauchy", [l, s] => pure (some (cauchyComp l s))
  | "Laplace", [l, s] => pure (some (laplaceComp l s))
  | "Logistic", [l, s] => pure (some (logisticComp l s))
  | "Exponential", [r] => pure (some (exponentialComp r))
  | "StudentT", [df, l, s] => pure (if studentValid df then some (studentTComp df l s) else none)
  | _, _ => .error s!"bad family {name} / arity {ps.length}"

/-- the scalar family exactly as the theorems of `Props/C05.lean` name it -/
def famDist (name : String) (ps : List Float) : Except String (Option (Distn Float Unit Float Float)) :=
  match name, ps with
  | "Normal", [l, s] => pure (some (normal l s))
  | "LogNormal", [l, s] => pure (some (logNormal l s))
  | "Uniform", [a, b] => pure (if uniformValid a b then some (uniform a b) else none)
  | "Gumbel", [l, s] => pure (some (gumbel l s))
  | "Cauchy", [l, s] => pure (some (cauchy l s))
  | "Laplace", [l, s] => pure (some (laplace l s))
  | "Logistic", [l, s] => pure (some (logistic l s))
  | "Exponential", [r] => pure (some (exponential r))
  | "StudentT", [df, l, s] => pure (if studentValid df then some (studentT df l s) else none)
  | _, _ => .error s!"bad family {name} / arity {ps.length}"

private def splitLast : List String → Except String (List String × String)
  | [] => .error "missing argument"
  | [x] => pure ([], x)
  | a :: r => do let (i, l) ← splitLast r; pure (a :: i, l)

def family : Handler
  | name :: rest => do
      let (ps, x) ← splitLast rest
      let ps ← ps.mapM parseF
      let x ← parseF x
      match ← famDist name ps with
      | none => pure "REJ"
      | some d =>
        let lp := d.logProb x ()
        pure s!"{showF lp} {showF (publicLp lp)}"
  | _ => .error "bad family op"

def familys : Handler
  | name :: rest => do
      let (ps, z) ← splitLast rest
      let ps ← ps.mapM parseF
      let z ← parseF z
      match ← famDist name ps with
      | none => pure "REJ"
      | some d =>
        let r := d.sampleLp z ()
        pure s!"{showF (d.sample z ())} {showF r.1} {showF r.2}"
  | _ => .error "bad familys op"

/-- transpose parameter lists into per-dimension parameter tuples -/
private def columns (pss : List (List Float)) (n : Nat) : List (List Float) :=
  (List.range n).map (fun i => pss.map (fun ps => ps.getD i 0))

def familyv : Handler
  | name :: rest => do
      let (pss, xs) ← splitLast rest
      let pss ← pss.mapM parseFs
      let xs ← parseFs xs
      if pss.any (fun ps => ps.length != xs.length) then .error "parameter lists must be broadcast to the point's size"
      let comps ← (columns pss xs.length).mapM (famComp name)
      if comps.any Option.isNone then pure "REJ" else
      let lp := (lifted (comps.filterMap id)).logProb xs ()
      pure s!"{showF lp} {showF (publicLp lp)}"
  | _ => .error "bad familyv op"

def accessor : Handler
  | ["Uniform", a, b] => do
      let a ← parseF a; let b ← parseF b
      if !uniformValid a b then pure "REJ" else
      pure s!"{showF (accMinval a b)} {showF (accMaxval a b)}"
  | ["Exponential", r] => do pure (showF (accRate (← parseF r)))
  | ["StudentT", df, l, s] => do
      let df ← parseF df; let l ← parseF l; let s ← parseF s
      if !studentValid df then pure "REJ" else
      pure s!"{showF (accDf df)} {showF (accLoc l s)} {showF (accScale l s)}"
  | [name, l, s] =>
      if ["Normal", "Gumbel", "Cauchy", "Laplace", "Logistic"].contains name then do
        let l ← parseF l; let s ← parseF s
        pure s!"{showF (accLoc l s)} {showF (accScale l s)}"
      else .error s!"no accessors for {name}"
  | _ => .error "bad accessor op"

def mixture : Handler
  | [lps, ws] => do
      let lps ← parseFs lps
      let ws ← parseFs ws
      if lps.length != ws.length then .error "one weight per component"
      if !weightsValid ws then pure "REJ" else
      let lp := mixtureLogProb lps ws
      pure s!"{showF lp} {showF (publicLp lp)}"
  | _ => .error "bad mixture op"

def mixweights : Handler
  | [ws] => do
      let ws ← parseFs ws
      if !weightsValid ws then pure "REJ" else pure (showFs (logNormWeights ws))
  | _ => .error "bad mixweights op"

private def rowsOfF (n : Nat) (flat : List Float) : List (List Float) :=
  (List.range n).map (fun i => (flat.drop (i * n)).take n)

def mvnOp : Handler
  | ["lp", n, loc, flat, x] => do
      let n ← parseNat n
      let flat ← parseFs flat
      if flat.length != n * n then .error "chol must have n*n entries"
      match mvn (← parseFs loc) (rowsOfF n flat) with
      | none => pure "REJ"
      | some d =>
        let lp := d.logProb (← parseFs x) ()
        pure s!"{showF lp} {showF (publicLp lp)}"
  | ["s", n, loc, flat, z] => do
      let n ← parseNat n
      let flat ← parseFs flat
      if flat.length != n * n then .error "chol must have n*n entries"
      match mvn (← parseFs loc) (rowsOfF n flat) with
      | none => pure "REJ"
      | some d =>
        let z ← parseFs z
        let r := d.sampleLp z ()
        pure s!"{showFs (d.sample z ())} {showFs r.1} {showF r.2}"
  | ["acc", n, loc, flat] => do
      let n ← parseNat n
      let flat ← parseFs flat
      if flat.length != n * n then .error "chol must have n*n entries"
      let loc ← parseFs loc
      match mvnLoc loc (rowsOfF n flat), mvnCovariance loc (rowsOfF n flat) with
      | some l, some c => pure s!"{showFs l} {showFs c.flatten}"
      | _, _ => pure "REJ"
  | _ => .error "bad mvn op"

/-- component `j`'s slice of a component-major flat parameter list -/
private def compSlice (ps : List Float) (m j : Nat) : List Float := (ps.drop (j * m)).take m

def mixsample : Handler
  | name :: k :: d :: ws :: rest => do
      let k ← parseNat k
      let d ← parseNat d
      let ws ← parseFs ws
      let (rest, z) ← splitLast rest
      let (pss, comp) ← splitLast rest
      let pss ← pss.mapM parseFs
      let comp ← parseNat comp
      let z ← parseFs z
      let m := if d == 0 then 1 else d
      if ws.length != k then .error "one weight per component"
      if pss.any (fun ps => ps.length != k * m) then .error "parameter lists must have k*max(d,1) entries"
      if z.length != m then .error "base sample must have max(d,1) entries"
      if !weightsValid ws then pure "REJ" else
      let comps ← (List.range k).mapM (fun j =>
        (columns (pss.map (fun ps => compSlice ps m j)) m).mapM (famComp name))
      if comps.any (fun cs => cs.any Option.isNone) then pure "REJ" else
      let dists : List (Distn (List Float) Unit (List Float) Float) :=
        comps.map (fun cs => lifted (cs.filterMap id))
      let mix := vmapMixture dists ws
      let r := mix.sampleLp (comp, z) ()
      pure s!"{showFs (mix.sample (comp, z) ())} {showFs r.1} {showF r.2}"
  | _ => .error "bad mixsample op"

end Drv
