import Flowjaxv.Driver.Util
import Flowjaxv.Model.ToBij
import Flowjaxv.Model.ToDist
import Flowjaxv.Gen.Misc
import Flowjaxv.Prelude.Stats
/-!
Driver ops for expression trees of scalar bijections built from the generated leaves and the
generated `Chain` / `Invert`:

  tree <m> <x> <expr…>          m ∈ t|tl|i|il, scalar point
  vtree <m> <n> <xs> <expr…>×n  the elementwise lifting of n scalar trees to a length-n vector

`expr` is prefix notation, one token per field:
  A loc scale | L loc | S scale | E | P | T | K max_val | Q lo hi xs ys ds | I expr | C n expr×n | ID
-/
namespace Drv
open Gen

/-- scalar bijections conditioned on one float (unconditional leaves ignore it) -/
abbrev SB := Bij Float Float Float

partial def parseTree : List String → Except String (SB × List String)
  | "A" :: loc :: scale :: r => do
      pure ((Affine.mk (← parseF loc) (← parseF scale)).toBij, r)
  | "L" :: loc :: r => do pure ((Loc.mk (← parseF loc)).toBij, r)
  | "S" :: scale :: r => do pure ((Scale.mk (← parseF scale)).toBij, r)
  | "E" :: r => pure (Exp.toBij, r)
  | "P" :: r => pure (SoftPlus.toBij, r)
  | "T" :: r => pure (Tanh.toBij, r)
  | "ID" :: r => pure (Bij.id, r)
  | "AC" :: w :: b :: r => do
      let w ← parseF w
      let b ← parseF b
      let p : AdditiveCondition Float Float := { module := fun c => Float.tanh (w * c + b) }
      pure (⟨p.transform, p.inverse, p.transform_and_log_det, p.inverse_and_log_det⟩, r)
  | "K" :: m :: r => do pure ((LeakyTanh.init (← parseF m)).toBij, r)
  | "Q" :: lo :: hi :: xs :: ys :: ds :: r => do
      let p : RationalQuadraticSpline Float :=
        { interval := (← parseF lo, ← parseF hi), x_pos := ← parseFs xs, y_pos := ← parseFs ys,
          derivatives := ← parseFs ds }
      pure (p.toBij, r)
  | "I" :: r => do
      let (b, r) ← parseTree r
      pure ((Invert.mk b).toBij, r)
  | "C" :: n :: r => do
      let n ← parseNat n
      let rec go (k : Nat) (r : List String) (acc : List SB) : Except String (List SB × List String) :=
        match k with
        | 0 => pure (acc.reverse, r)
        | k + 1 => do
            let (b, r) ← parseTree r
            go k r (b :: acc)
      let (bs, r) ← go n r []
      pure ((Chain.mk bs).toBij, r)
  | t :: _ => .error s!"bad tree token {t}"
  | [] => .error "unexpected end of tree"

def applyM (b : Bij X Float Float) (m : String) (x : X) (sh : X → String) (cond : Float := 0) :
    Except String String :=
  match m with
  | "t" => pure (sh (b.fwd x cond))
  | "i" => pure (sh (b.inv x cond))
  | "tl" => let r := b.fwdLd x cond; pure s!"{sh r.1} {showF r.2}"
  | "il" => let r := b.invLd x cond; pure s!"{sh r.1} {showF r.2}"
  | _ => .error "method"

def tree : Handler
  | m :: x :: toks => do
      let (b, rest) ← parseTree toks
      if !rest.isEmpty then .error "trailing tokens"
      applyM b m (← parseF x) showF
  | _ => .error "bad tree op"

def vtree : Handler
  | m :: n :: xs :: toks => do
      let n ← parseNat n
      let rec go (k : Nat) (r : List String) (acc : List SB) : Except String (List SB × List String) :=
        match k with
        | 0 => pure (acc.reverse, r)
        | k + 1 => do
            let (b, r) ← parseTree r
            go k r (b :: acc)
      let (bs, rest) ← go n toks []
      if !rest.isEmpty then .error "trailing tokens"
      applyM (Bij.elementwise bs) m (← parseFs xs) showFs
  | _ => .error "bad vtree op"

/-- `ctree <m> <cond> <x> <expr…>`: as `tree`, with a scalar condition (leaf `AC w b` = AdditiveCondition with
`module c = tanh(w·c+b)`). -/
def ctree : Handler
  | m :: cond :: x :: toks => do
      let (b, rest) ← parseTree toks
      if !rest.isEmpty then .error "trailing tokens"
      applyM b m (← parseF x) showF (← parseF cond)
  | _ => .error "bad ctree op"

private partial def parseTrees (k : Nat) (r : List String) (acc : List SB) : Except String (List SB × List String) :=
  match k with
  | 0 => pure (acc.reverse, r)
  | k + 1 => do
      let (b, r) ← parseTree r
      parseTrees k r (b :: acc)

/-- standard normal base whose "key" is the base sample itself -/
def stdNormalBase : Distn Float Float Float Float :=
  (Gen.DistCore.mk (fun k _ => k) (fun x _ => Stats.normLogpdf x)).toDist

/-- `tdist <nest|merge> <lp|s|slp> <cond> <arg> <n> <expr…>×n` — nested transformed distributions over a standard
normal base (`nest`), or their `merge_transforms` form (`merge`); `arg` is the point (lp) or the base sample (s, slp). -/
def tdist : Handler
  | form :: what :: cond :: arg :: n :: toks => do
      let (bs, rest) ← parseTrees (← parseNat n) toks []
      if !rest.isEmpty then .error "trailing tokens"
      let d ← match form with
        | "nest" => pure (nestTransformed stdNormalBase bs)
        | "merge" => pure (mergeTransforms stdNormalBase bs)
        | _ => .error "form"
      let c ← parseF cond
      let a ← parseF arg
      match what with
      | "lp" => pure (showF (d.logProb a c))
      | "s" => pure (showF (d.sample a c))
      | "slp" => let r := d.sampleLp a c; pure s!"{showF r.1} {showF r.2}"
      | _ => .error "what"
  | _ => .error "bad tdist op"

end Drv
