import Flowjaxv.Driver.Masks
import Flowjaxv.Model.NetInverse
import Flowjaxv.Model.Bisection
/-!
Driver ops for `Model/NetInverse.lean` (inverse passes and `…_and_log_det` of the network bijections), at `Float`.

  mafbij <act> <dim> <cond_dim|-1> <width> <depth> <num_params=2> <x> <y> <cond> <init> (<W_l flat> <b_l>)×(depth+1)
        -> <transform_and_log_det(x)[0]> <…[1]> <inverse_and_log_det(y)[0]> <…[1]>          (Affine transformer)
  couplingbij <act> <d> <dim> <cond_dim|-1> <width> <depth> <x> <y> <cond> <init> (<W_l flat> <b_l>)×(depth+1)
        -> the same four fields for `Coupling`
  bnafinv <act> <dim> <cond_dim|-1> <depth> <block_dim> <y> <cond> <C flat | -> <lower> <upper> <tol> <max_iter> <fuel>
          (<W_l flat> <b_l> <scale_raw_l>)×(#layers)
        -> `AutoregressiveBisectionInverter(lower, upper, tol, max_iter)(bnaf, y, cond)` | nofuel | valueerror
-/
namespace Drv
open Masks Model

/-- the `Affine` transformer `get_ravelled_pytree_constructor` builds, as a scalar `Bij`: leaves
`(loc, raw scale) = params + init`, `scale = softplus(raw)`. -/
def affineBij (init ps : List Float) : Bij Float Unit Float :=
  match List.zipWith (· + ·) ps init with
  | [loc, raw] =>
    let s := Float.softplusStable raw
    ⟨fun x _ => x * s + loc, fun y _ => (y - loc) / s,
     fun x _ => (x * s + loc, Float.log (Float.abs s)), fun y _ => ((y - loc) / s, -(Float.log (Float.abs s)))⟩
  | _ => ⟨fun _ _ => 0.0 / 0.0, fun _ _ => 0.0 / 0.0, fun _ _ => (0.0 / 0.0, 0.0 / 0.0), fun _ _ => (0.0 / 0.0, 0.0 / 0.0)⟩

def mafbij : Handler
  | act :: dim :: cond :: width :: depth :: np :: x :: y :: cnd :: init :: rest => do
      let act ← parseAct act
      let dim ← parseNat dim; let c ← parseCond cond; let w ← parseNat width
      let depth ← parseNat depth; let np ← parseNat np
      let x ← parseFs x; let y ← parseFs y; let cnd ← parseFs cnd; let init ← parseFs init
      if x.length ≠ dim || y.length ≠ dim then .error "x/y shape"
      if cnd.length ≠ c.getD 0 then .error "condition shape"
      let nin := dim + c.getD 0
      let dims := nin :: (List.replicate depth w ++ [dim * np])
      let (ws, bs) ← parseLayers dims rest
      let N : MafNet Float := { dim := dim, condDim := c, width := w, depth := depth, numParams := np,
                                weights := ws, biases := bs, act := act }
      let b := mafBij N (affineBij init)
      let f := b.fwdLd x cnd
      let i := b.invLd y cnd
      pure s!"{showFs f.1} {showF f.2} {showFs i.1} {showF i.2}"
  | _ => .error "bad mafbij op"

def couplingbij : Handler
  | act :: d :: dim :: cond :: width :: depth :: x :: y :: cnd :: init :: rest => do
      let actf ← parseAct act
      let d ← parseNat d; let dim ← parseNat dim; let c ← parseCond cond; let w ← parseNat width
      let depth ← parseNat depth
      let x ← parseFs x; let y ← parseFs y; let cnd ← parseFs cnd; let init ← parseFs init
      if x.length ≠ dim || y.length ≠ dim then .error "x/y shape"
      if cnd.length ≠ c.getD 0 then .error "condition shape"
      let nin := d + c.getD 0
      let dims := nin :: (List.replicate depth w ++ [(dim - d) * 2])
      let (ws, bs) ← parseLayers dims rest
      let masks := (dims.zip dims.tail).map fun (a, b) => List.replicate b (List.replicate a true)
      let conditioner := mlpForward actf (mkLayers masks ws bs)
      let b := couplingBij d conditioner (affineBij init)
      let f := b.fwdLd x cnd
      let i := b.invLd y cnd
      pure s!"{showFs f.1} {showF f.2} {showFs i.1} {showF i.2}"
  | _ => .error "bad couplingbij op"

def bnafinv : Handler
  | act :: dim :: cond :: depth :: bd :: y :: cnd :: cmat :: lower :: upper :: tol :: mi :: fuel :: rest => do
      let actf ← parseAct act
      let dim ← parseNat dim; let c ← parseCond cond; let depth ← parseNat depth; let bd ← parseNat bd
      let y ← parseFs y; let cnd ← parseFs cnd; let cflat ← parseFs cmat
      let lower ← parseF lower; let upper ← parseF upper; let tol ← parseF tol
      let mi ← parseInt mi; let fuel ← parseNat fuel
      if y.length ≠ dim then .error "y shape"
      let shapes := bnafBlockShapes depth bd
      let layers ← parseBnafLayers dim shapes rest
      let out0 := match shapes with | (b0, _) :: _ => b0 * dim | [] => 0
      let cl : Option (List (List Float)) := c.map fun cd => toMat out0 cd cflat
      if !inverterArgsOk lower upper tol mi then return "valueerror"
      match autoregressiveBisection (bnafInvFn actf layers cl cnd y) lower upper tol dim mi fuel with
      | some r => pure (showFs r)
      | none => pure "nofuel"
  | _ => .error "bad bnafinv op"

end Drv
