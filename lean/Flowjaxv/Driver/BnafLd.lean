import Flowjaxv.Driver.Masks
import Flowjaxv.Model.BnafLd
import Flowjaxv.Gen.Leaves
/-!
Driver ops for `Model/BnafLd.lean` (`BlockAutoregressiveNetwork.transform_and_log_det` as the code computes it), at `Float`.

  bnafld <act> <dim> <cond_dim|-1> <depth> <block_dim> <x> <cond> <C flat | -> (<W_l flat> <b_l> <scale_raw_l>)×(#layers)
        -> <y> <log_det>                                      (`transform_and_log_det(x, cond)`)
  bnafild <act> … same fields, `<x>` being what the real inverter returned …
        -> <x> <-log_det>                                      (`inverse_and_log_det` with `inverter := fun _ _ => x`)
  bnaflj <b0> <b1> <n> <W flat> <b> <scale_raw>   -> flat `linear_to_log_block_diagonal(linear)` (shape (n, b0, b1))
  actlj <n> <bd> <log_abs_grads>                  -> flat log part of `_activation_and_log_jacobian_3d` (shape (n, bd, bd))
  lmme <n> <k> <m> <x flat> <y flat>              -> flat `logmatmulexp(x, y)`  (an `-inf` input entry is read as `none`)

`<act>`: `K:<max_val bits>` = `LeakyTanh(max_val)` (generated `transform_and_log_det`), `T` = `Tanh()` (generated),
`ctanh` = `_CallableToBijection(jnp.tanh)`: `(tanh z, log|1 - tanh² z|)`, `cmix` = `_CallableToBijection(lambda z: z + tanh(z)/2)`,
`ccube` = `_CallableToBijection(lambda z: z**3)` (a bijection of ℝ with `act'(0) = 0`: the excluded point of `bnaf_logdet`).
A log-domain `none` is printed as `-inf`.
-/
namespace Drv
open Masks Gen

def ninf : Float := Float.log 0
def showE (e : Jnp.Ext Float) : String := showF (e.getD ninf)
def showEs (es : List (Jnp.Ext Float)) : String := showFs (es.map fun e => e.getD ninf)
def toExt (x : Float) : Jnp.Ext Float := if x == ninf then none else some x

def parseActLd (s : String) : Except String (Float → Float × Float) :=
  match s.splitOn ":" with
  | ["K", m] => do
      let p : LeakyTanh Float := LeakyTanh.init (← parseF m)
      pure fun z => LeakyTanh.transform_and_log_det p z
  | ["T"] => pure fun z => Tanh.transform_and_log_det ⟨⟩ z
  | ["ctanh"] => pure fun z => let y := Float.tanh z; (y, Float.log (Float.abs (1 - y * y)))
  | ["cmix"] => pure fun z => let y := Float.tanh z; (z + y / 2, Float.log (Float.abs (1 + (1 - y * y) / 2)))
  | ["ccube"] => pure fun z => (z * z * z, Float.log (Float.abs (3 * (z * z))))
  | _ => .error s!"bad activation {s}"

def bnafldCore (neg : Bool) : Handler
  | act :: dim :: cond :: depth :: bd :: x :: cnd :: cmat :: rest => do
      let A ← parseActLd act
      let dim ← parseNat dim; let c ← parseCond cond; let depth ← parseNat depth; let bd ← parseNat bd
      let x ← parseFs x; let cnd ← parseFs cnd; let cflat ← parseFs cmat
      if x.length ≠ dim then .error "x shape"
      if cnd.length ≠ c.getD 0 then .error "condition shape"
      let shapes := bnafBlockShapes depth bd
      let layers ← parseBnafLayers dim shapes rest
      let out0 := match shapes with | (b0, _) :: _ => b0 * dim | [] => 0
      let cl : Option (List (List Float)) := c.map fun cd => toMat out0 cd cflat
      if neg then
        let r := bnafInverseAndLogDet A dim bd layers cl (fun _ _ => x) [] cnd
        pure s!"{showFs r.1} {showE r.2}"
      else
        let r := bnafTransformAndLogDet A dim bd layers cl x cnd
        pure s!"{showFs r.1} {showE r.2}"
  | _ => .error "bad bnafld op"

def bnafld : Handler := bnafldCore false
def bnafild : Handler := bnafldCore true

def bnaflj : Handler
  | [b0, b1, n, w, b, s] => do
      let b0 ← parseNat b0; let b1 ← parseNat b1; let n ← parseNat n
      let ls ← parseBnafLayers n [(b0, b1)] [w, b, s]
      match ls with
      | [L] => pure (showEs (L.logJac.flatten.flatten))
      | _ => .error "bnaflj layer"
  | _ => .error "bad bnaflj op"

def actlj : Handler
  | [n, bd, lag] => do
      let n ← parseNat n; let bd ← parseNat bd; let lag ← parseFs lag
      if lag.length ≠ n * bd then .error "log_abs_grads size"
      pure (showEs ((actLogJac n bd lag).flatten.flatten))
  | _ => .error "bad actlj op"

def lmme : Handler
  | [n, k, m, x, y] => do
      let n ← parseNat n; let k ← parseNat k; let m ← parseNat m
      let x ← parseFs x; let y ← parseFs y
      if x.length ≠ n * k || y.length ≠ k * m then .error "lmme sizes"
      let xm := (toMat n k x).map (·.map toExt)
      let ym := (toMat k m y).map (·.map toExt)
      pure (showEs (logmatmulexp xm ym).flatten)
  | _ => .error "bad lmme op"

end Drv
