import Flowjaxv.Driver.Util
import Flowjaxv.Model.TriangularGen
/-!
Driver ops running the GENERATED `TriangularAffine` (`Gen/TriangularGen.lean`) at `Float`.

  gtriaff mat <m> <lower> <n> <A flat row-major> <loc> <x>     the generated methods on `{triangular := A, loc, lower}`
  gtriaff raw <m> <lower> <n> <rawdiag> <arr flat> <loc> <x>   … on `TriGen.unwrap (TriGen.ofRaw …)` (generated `_to_triangular`, `BijectionReparam.unwrap`)
  gtriaff init <m> <lower> <n> <arr flat> <loc> <x>            … on `TriGen.unwrap` of the generated `__init__`'s result (`REJ <Exc>` when it raises)
  gtriaff ctor <lower> <rank> <dims> <flat> <loc>              the generated `__init__` on an array of rank 0 … 3:
                                                               `OK <shape> <loc> <unwrapped triangular flat>` or `REJ <Exc>`
-/
namespace Drv
open Gen

private def rowsOfG (rows cols : Nat) (flat : List Float) : List (List Float) :=
  (List.range rows).map (fun i => (flat.drop (i * cols)).take cols)

private def showVLG (r : List Float × Float) : String := s!"{showFs r.1} {showF r.2}"

private def runTriG (m : String) (t : TriangularAffine Float) (x : List Float) : Except String String :=
  match m with
  | "t" => pure (showFs (t.transform x))
  | "tl" => pure (showVLG (t.transform_and_log_det x))
  | "i" => pure (showFs (t.inverse x))
  | "il" => pure (showVLG (t.inverse_and_log_det x))
  | _ => .error "bad method"

private def ndOf (rank : Nat) (dims : List Nat) (flat : List Float) : Except String (TriPrims.NdArr Float) :=
  match rank, dims with
  | 0, [] => pure (.scalar (flat.headD 0))
  | 1, [_] => pure (.vec flat)
  | 2, [r, c] => pure (.mat (rowsOfG r c flat))
  | 3, [a, r, c] => pure (.cube ((List.range a).map fun k => rowsOfG r c (flat.drop (k * r * c))))
  | _, _ => .error "bad rank / dims"

def gtriaff : Handler
  | ["mat", m, lower, n, flat, loc, x] => do
      let n ← parseNat n
      runTriG m { triangular := rowsOfG n n (← parseFs flat), loc := ← parseFs loc, lower := ← parseBool lower } (← parseFs x)
  | ["raw", m, lower, n, raw, flat, loc, x] => do
      let n ← parseNat n
      runTriG m (TriGen.unwrap (TriGen.ofRaw (← parseBool lower) (← parseFs raw) (rowsOfG n n (← parseFs flat)) (← parseFs loc)))
        (← parseFs x)
  | ["init", m, lower, n, flat, loc, x] => do
      let n ← parseNat n
      match TriangularAffine.init (← parseFs loc) (.mat (rowsOfG n n (← parseFs flat))) (← parseBool lower) with
      | .error e => pure s!"REJ {e.name}"
      | .ok s => runTriG m (TriGen.unwrap s) (← parseFs x)
  | ["ctor", lower, rank, dims, flat, loc] => do
      let a ← ndOf (← parseNat rank) (← parseNats dims) (← parseFs flat)
      match TriangularAffine.init (← parseFs loc) a (← parseBool lower) with
      | .error e => pure s!"REJ {e.name}"
      | .ok s => pure s!"OK {showNats s.shape} {showFs s.loc} {showFs (TriGen.unwrap s).triangular.flatten}"
  | _ => .error "bad gtriaff op"

end Drv
