import Flowjaxv.Driver.Util
import Flowjaxv.Model.Params
/-!
Driver ops for the constrained parameterisations (C11), instantiated at `Float`:

  par knots <arr> <lo> <hi> <softmax_adjust>     generated `_real_to_increasing_on_interval`
  par derivs <min_derivative> <arr>              generated derivative lambda
  par derivinit <min_derivative>                 generated initial raw derivative value
  par planar <w> <u>                             generated `get_act_scale`
  par wn <w> <scale>                             generated `WeightNormalization.unwrap`, one row
  par wnraw <w> <raw>                            … with scale = BijectionReparam(SoftPlus).unwrap of the raw scale parameter
  par wninit <w>                                 generated `scale_init`, then raw = SoftPlus⁻¹, then unwrapped scale
  par mixw <v>                                   generated `log_softmax` lambda
  par mixinit <weights>                          … applied to the generated initial value `log(weights)`
  par sp <raw>                                   BijectionReparam(SoftPlus).unwrap
  par spinit <v>                                 `<rejects> <raw> <unwrapped>`
  par minscale <min_scale> <raw> | par minscaleinit <min_scale>
  par tri <lower> <n> <rawdiag> <arr flat>       `_to_triangular` with the SoftPlus diagonal, flat row-major
  par triinit <lower> <n> <arr flat>             constructor: `REJ` or the flat unwrapped matrix
  par uniform <lo> <hi>                          `<rejects> <loc> <maxval>`
  par exprate <rate>                             `<scale> <rate read back>`
  par anynonpos <xs> | par studentt <dfs> | par perm <ints>     the guards, 1 = raises
-/
namespace Drv
open Gen Params

instance : NatCast Float := ⟨Float.ofNat⟩

private def rows (n : Nat) (flat : List Float) : List (List Float) :=
  (List.range n).map (fun i => (flat.drop (i * n)).take n)

def par : Handler
  | ["knots", arr, lo, hi, adj] => do
      pure (showFs (realToIncreasingOnInterval (← parseFs arr) (← parseF lo, ← parseF hi) (← parseF adj)))
  | ["derivs", d, arr] => do pure (showFs (rqsDerivatives (← parseF d) (← parseFs arr)))
  | ["derivinit", d] => do pure (showF (rqsDerivativeInit (← parseF d)))
  | ["planar", w, u] => do
      let p : UnconditionalPlanar Float := { weight := ← parseFs w, _act_scale := ← parseFs u, bias := 0 }
      pure (showFs p.get_act_scale)
  | ["wn", w, s] => do
      let p : WeightNormRow Float := { weight := ← parseFs w, scale := ← parseF s }
      pure (showFs p.unwrap)
  | ["wnraw", w, raw] => do
      let p : WeightNormRow Float := { weight := ← parseFs w, scale := (softplusRaw (← parseF raw)).unwrap }
      pure (showFs p.unwrap)
  | ["wninit", w] => do
      let s0 : Float := weightNormScaleInit (← parseFs w)
      let r := softplusInit s0
      pure s!"{showF s0} {showF r.arr} {showF r.unwrap}"
  | ["mixw", v] => do pure (showFs (mixtureLogNormalizedWeights (← parseFs v)))
  | ["mixinit", w] => do
      let raw : List Float := mixtureRawInit (← parseFs w)
      pure s!"{showFs raw} {showFs (mixtureLogNormalizedWeights raw)}"
  | ["sp", raw] => do pure (showF (softplusRaw (← parseF raw)).unwrap)
  | ["spinit", v] => do
      let v ← parseF v
      let r := softplusInit v
      pure s!"{showBool (softplusRejects v)} {showF r.arr} {showF r.unwrap}"
  | ["minscale", m, raw] => do pure (showF (minScaleOfRaw (← parseF m) (← parseF raw)))
  | ["minscaleinit", m] => do
      let m ← parseF m
      let r := BijectionReparam.init (minScaleBij m) (1 : Float)
      pure s!"{showF r.arr} {showF r.unwrap}"
  | ["tri", lower, n, raw, flat] => do
      let m := triangularOfRaw (← parseBool lower) (← parseFs raw) (rows (← parseNat n) (← parseFs flat))
      pure (showFs m.flatten)
  | ["triinit", lower, n, flat] => do
      match triangularInit (← parseBool lower) (rows (← parseNat n) (← parseFs flat)) with
      | none => pure "REJ"
      | some m => pure (showFs m.flatten)
  | ["uniform", lo, hi] => do
      let lo ← parseF lo
      let hi ← parseF hi
      let a := uniformInit lo hi
      pure s!"{showBool (uniformRejects [(lo, hi)])} {showF a.loc} {showF (uniformMaxval a)}"
  | ["exprate", r] => do
      let s := exponentialInit (← parseF r)
      pure s!"{showF s.scale} {showF (exponentialRate s)}"
  | ["anynonpos", xs] => do pure (showBool (anyNonPositive (← parseFs xs)))
  | ["studentt", xs] => do pure (showBool (studentTRejects (← parseFs xs)))
  | ["perm", p] => do pure (showBool (permuteRejects (← parseInts p)))
  | _ => .error "bad par op"

end Drv
