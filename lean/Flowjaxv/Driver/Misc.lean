import Flowjaxv.Driver.Util
import Flowjaxv.Model.Ctors
import Flowjaxv.Model.Perm
import Flowjaxv.Gen.Misc
/-!
Driver ops: constructor wiring, Permute, Flip, AdditiveCondition.
  ctor Affine <loc> <scale> | ctor Scale <scale>          → unwrapped fields
  permute <dir f|i> <perm ints> <xs>                       → flat result
  permvalid <perm ints>                                     → 1/0
  flip <m> <xs>     addcond <m> <x> <fc>   (fc = value of f(condition))
-/
namespace Drv
open Gen

def ctor : Handler
  | ["Affine", loc, scale] => do
      let p : Affine Float := Ctors.affine (← parseF loc) (← parseF scale)
      pure s!"{showF p.loc} {showF p.scale}"
  | ["Scale", s] => do
      let p : Scale Float := Ctors.scale (← parseF s)
      pure (showF p.scale)
  | _ => .error "bad ctor op"

def permute : Handler
  | [dir, perm, xs] => do
      let perm ← parseNats perm
      let xs ← parseFs xs
      match dir with
      | "f" => pure (showFs (PermModel.fwd perm xs))
      | "i" => pure (showFs (PermModel.inv perm xs))
      | _ => .error "dir"
  | _ => .error "bad permute op"

def permvalid : Handler
  | [perm] => do pure (showBool (PermModel.valid (← parseNats perm)))
  | _ => .error "bad permvalid op"

def flip : Handler
  | [m, xs] => do
      let xs ← parseFs xs
      match m with
      | "t" => pure (showFs (Flip.transform xs))
      | "i" => pure (showFs (Flip.inverse xs))
      | "tl" => let r := Flip.transform_and_log_det xs; pure s!"{showFs r.1} {showF r.2}"
      | "il" => let r := Flip.inverse_and_log_det xs; pure s!"{showFs r.1} {showF r.2}"
      | _ => .error "method"
  | _ => .error "bad flip op"

def addcond : Handler
  | [m, x, fc] => do
      let x ← parseF x
      let fc ← parseF fc
      let p : AdditiveCondition Unit Float := { module := fun _ => fc }
      match m with
      | "t" => pure (showF (p.transform x ()))
      | "i" => pure (showF (p.inverse x ()))
      | "tl" => let r := p.transform_and_log_det x (); pure s!"{showF r.1} {showF r.2}"
      | "il" => let r := p.inverse_and_log_det x (); pure s!"{showF r.1} {showF r.2}"
      | _ => .error "method"
  | _ => .error "bad addcond op"

end Drv
