import Flowjaxv.Driver.AdDrv
import Flowjaxv.Model.AdMvn
/-!
  admvn <lp|il|tl> <x> <loc> <raw diag> <arr row-major>
     → for every output (`lp`: the log-density; `il`/`tl`: the point elements, then the log-det):
       `<value> - <d/dx> <d/dloc> <d/draw diag> <d/darr>` separated by ` | `
-/
namespace Drv
open Ad

def admvn : Handler
  | [m, x, loc, raw, arr] => do
      let x ← parseFs x
      let loc ← parseFs loc
      let raw ← parseFs raw
      let arr ← parseFs arr
      let n := x.length
      let es : List (Expr Float) ← match m with
        | "lp" => pure [AdMvn.logProb n]
        | "il" => pure ((AdMvn.ild n).1 ++ [(AdMvn.ild n).2])
        | "tl" => pure ((AdMvn.tld n).1 ++ [(AdMvn.tld n).2])
        | _ => throw "mode"
      let allv := [x, loc, raw, arr]
      let env : Env Float := { s := fun _ => 0, v := fun j => allv.getD j [] }
      pure (" | ".intercalate (es.map (fun e => runVec e env 0 (allv.map List.length))))
  | _ => .error "bad admvn op"

end Drv
