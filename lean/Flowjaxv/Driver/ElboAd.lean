import Flowjaxv.Driver.Util
import Flowjaxv.Model.ElboAd
/-!
Driver op for the reverse-mode model of `ElboLoss` (`Model/ElboAd.lean`) at IEEE `Float`:

  stlgrad <layers> <d> <n> <theta> <eps> <a> <m> <kappa>

* `layers` ∈ {A,E,T,S}* : the elementwise chain applied to `StandardNormal((d,))` (`A` = `Affine(loc, scale)` with
  `scale = softplus(raw)`, `E` = `Exp`, `T` = `Tanh`, `S` = `SoftPlus`), the same chain in each of the `d` dimensions;
* `theta` : the trainable leaves, per affine layer (in chain order) `loc[0..d)` then `raw[0..d)`;
* `eps`   : the `n·d` base samples, sample-major;  `a`, `m` (length `d`), `kappa`: the target
  `−½ Σ aⱼ(xⱼ−mⱼ)² + κ Σ xⱼxⱼ₊₁`.

Output (`|`-separated): `vPlain vStl vFwd | gPlain | gStl | gFwd | gPath | gScore` — the value of the loss
`mean_s [log q(x_s) − target(x_s)]` in the three forms (log q by `log_prob` of the sample / the same with
`stop_gradient(params)` / by `sample_and_log_prob`), the adjoint of every leaf for each (reverse pass, cotangent 1),
and the path-derivative and score-term adjoints as DEFINED in the model (`Elbo.pathGrad`, `Elbo.scoreGrad`,
cotangent `1/n` per sample, summed).
-/
namespace Drv
open Ad ElboAd

private def parseLayers (s : String) : Except String (List Char) :=
  if s == "-" then pure [] else
    s.toList.mapM fun c => if c ∈ ['A', 'E', 'T', 'S'] then pure c else throw s!"bad layer {c}"

/-- layer list of dimension `j`; affine layer number `a` owns the leaves `300 + 8a + j`, `400 + 8a + j` -/
private def mkLayers (cs : List Char) (j : Nat) : List Layer :=
  (cs.foldl (fun (acc : List Layer × Nat) c =>
    match c with
    | 'A' => (acc.1 ++ [Layer.affine (300 + 8 * acc.2 + j) (400 + 8 * acc.2 + j)], acc.2 + 1)
    | 'E' => (acc.1 ++ [Layer.exp], acc.2)
    | 'T' => (acc.1 ++ [Layer.tanh], acc.2)
    | _ => (acc.1 ++ [Layer.softplus], acc.2)) ([], 0)).1

def stlgrad : Handler
  | [layers, d, n, theta, eps, a, m, kappa] => do
      let cs ← parseLayers layers
      let d ← parseNat d
      let n ← parseNat n
      let theta ← parseFs theta
      let eps ← parseFs eps
      let a ← parseFs a
      let m ← parseFs m
      let kappa ← parseF kappa
      let nAff := (cs.filter (· == 'A')).length
      if d == 0 ∨ d > 8 ∨ n == 0 ∨ n > 16 then throw "stlgrad: need 1 ≤ d ≤ 8, 1 ≤ n ≤ 16"
      if theta.length ≠ 2 * nAff * d ∨ eps.length ≠ n * d ∨ a.length ≠ d ∨ m.length ≠ d then throw "stlgrad: lengths"
      -- leaf ids in the order of `theta`
      let ids : List Nat := (List.range nAff).flatMap fun l =>
        (List.range d).map (fun j => 300 + 8 * l + j) ++ (List.range d).map (fun j => 400 + 8 * l + j)
      let tbl := ids.zip theta
      let env : Env Float :=
        { s := fun i =>
            if 100 ≤ i ∧ i < 100 + 8 * 16 then eps.getD (((i - 100) / 8) * d + (i - 100) % 8) 0
            else match tbl.lookup i with | some v => v | none => 0
          v := fun _ => [] }
      let xIds := (List.range d).map (200 + ·)
      let tg : Expr Float := quadTarget a m kappa xIds
      let flow (s : Nat) : Flow Float :=
        { d := d, layers := mkLayers cs, epsId := fun j => 100 + 8 * s + j, xId := fun j => 200 + j,
          log2pi := Float.log (2 * 3.141592653589793) }
      let Es := (List.range n).map fun s => (flow s).elbo tg
      if !(Es.all Elbo.wf) then throw "stlgrad: ill-formed"
      let lossP := meanE (Es.map (·.integrand false))
      let lossS := meanE (Es.map (·.integrand true))
      let lossF := meanE ((List.range n).map fun s => (flow s).integrandFwd tg)
      let grad (e : Expr Float) : List Float :=
        let g := e.vjp env 1
        ids.map fun i => Grad.total g (Key.s i)
      let ct : Float := 1 / Float.ofNat n
      let acc (f : Elbo Float → Grad Float) : List Float :=
        ids.map fun i => Es.foldr (fun E r => Grad.total (f E) (Key.s i) + r) 0
      let gPath := acc fun E => E.pathGrad env ct
      let gScore := acc fun E => E.scoreGrad env ct
      pure (s!"{showF (lossP.eval env)} {showF (lossS.eval env)} {showF (lossF.eval env)} | {showFs (grad lossP)} | " ++
            s!"{showFs (grad lossS)} | {showFs (grad lossF)} | {showFs gPath} | {showFs gScore}")
  | _ => .error "bad stlgrad op"

end Drv
