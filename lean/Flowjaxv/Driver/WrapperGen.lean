import Flowjaxv.Driver.ArgCheck
import Flowjaxv.Gen.WrapperGen
/-!
Driver ops running the GENERATED wrapper as a whole (`Gen/WrapperGen.lean`).

  gwrapper <shape> <cshape?> <x:Val> <cond:Val|D>      `_unwrap_check_and_cast(method)(bijection, x, condition)` with a method that records
                                                    its arguments (`D` = condition omitted: the signature default) ->
                                                    `ok <x as received> <condition as received>` / exception class; the bijection the
                                                    method receives must be the declared record (else `badself`)
  ginitsub <plain names> <abstract names>              `__init_subclass__` on a class body defining these names (comma-separated, `-` = none)
                                                    -> the names bound to a wrapped object afterwards, in dictionary order (`-` = none)
-/
namespace Drv
open PyShape ArgCheck

private def parseNames (s : String) : List String := if s == "-" then [] else s.splitOn ","

def gwrapper : Handler
  | [s, c, x, k] => do
      let s ← parseShape s
      let c ← parseOptShape c
      let x ← parseVal x
      let k ← if k == "D" then pure Gen.WrapperGen.wrapperConditionDefault else parseVal k
      let r := Gen.WrapperGen.unwrapCheckAndCast (fun b x' k' => (Except.ok (b, x', k') : Except Err (PyCtor.SB × Val × Val))) ⟨s, c⟩ x k
      match r with
      | .error e => pure e.name
      | .ok (b, x', k') => if b = ⟨s, c⟩ then pure s!"ok {showVals (x', k')}" else pure "badself"
  | _ => .error "gwrapper shape cshape x cond"

def ginitsub : Handler
  | [plain, abstr] => do
      let cls : PyCls.Cls := (parseNames plain).map (fun n => (n, PyCls.Obj.plain n)) ++ (parseNames abstr).map (fun n => (n, PyCls.Obj.abstract n))
      let out := (Gen.WrapperGen.initSubclass cls).filter (fun p => p.2.isWrapped)
      let names := out.map (·.1)
      pure (if names.isEmpty then "-" else ",".intercalate names)
  | _ => .error "ginitsub plain abstract"

end Drv
