/-!
# Shapes, Python argument values and exception classes (Mathlib-free)

The vocabulary the generated argument checks (`Gen/ArgCheckGen.lean`) and the hand-written
argument-check model (`Model/ArgCheck.lean`) are written in.
-/
-- results of checks are compared in `decide`d instances
deriving instance DecidableEq for Except

namespace PyShape

/-- an array shape / a Python tuple of ints -/
abbrev Shape := List Nat

/-- the exception classes the checks distinguish -/
inductive Err where
  | valueError | typeError | indexError | attributeError
  deriving DecidableEq, Repr

def Err.name : Err → String
  | .valueError => "ValueError"
  | .typeError => "TypeError"
  | .indexError => "IndexError"
  | .attributeError => "AttributeError"

/-- What a caller can pass for `x` / `condition`: `None`, something array-like (a jax / numpy array or a
Python scalar — only its shape matters), or something that is not `ArrayLike` (a list, a tuple, a string). -/
inductive Val where
  | none
  | arr (s : Shape)
  | notArrayLike
  deriving DecidableEq, Repr

/-- `v.shape` (`None` and lists have no such attribute) -/
def shapeOf : Val → Except Err Shape
  | .arr s => .ok s
  | _ => .error .attributeError

/-- `flowjax.utils.arraylike_to_array`: `isinstance(arr, ArrayLike)` or `TypeError`; shape preserved -/
def arraylikeToArray : Val → Except Err Val
  | .arr s => .ok (.arr s)
  | _ => .error .typeError

def valIsNone : Val → Bool
  | .none => true
  | _ => false

def optIsNone : Option Shape → Bool
  | .none => true
  | _ => false

/-- tuple (or `None`) equality -/
def optShapeEq (a b : Option Shape) : Bool := decide (a = b)

end PyShape
