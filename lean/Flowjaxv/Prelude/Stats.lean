import Flowjaxv.Prelude.Jnp
/-!
# Textbook log-densities that `jax.scipy.stats.*.logpdf` implement (specs; trusted + differential-tested)
-/
class HasPi (α : Type) where
  pi : α

instance : HasPi Float := ⟨3.141592653589793⟩

namespace Stats
variable {α : Type} [Add α] [Sub α] [Mul α] [Div α] [Neg α] [LT α] [LE α]
  [OfNat α 0] [OfNat α 1] [OfNat α 2] [DecidableLT α] [DecidableLE α] [Transc α] [HasPi α]

/-- `jstats.norm.logpdf x` (loc 0, scale 1): `−x²/2 − log √(2π)` -/
def normLogpdf (x : α) : α := -(x * x) / 2 - Transc.log (Transc.sqrt (2 * HasPi.pi))
/-- `jstats.uniform.logpdf x` on [0,1]: `log 1` inside, `log 0` (= −∞ in IEEE) outside -/
def uniformLogpdf (x : α) : α := Transc.log (if x < 0 then 0 else if 1 < x then 0 else 1)
/-- `jstats.cauchy.logpdf x`: `−log π − log(1+x²)` -/
def cauchyLogpdf (x : α) : α := -(Transc.log HasPi.pi) - Transc.log (1 + x * x)
/-- `jstats.laplace.logpdf x`: `−|x| − log 2` -/
def laplaceLogpdf (x : α) : α := -(Jnp.abs x) - Transc.log 2
/-- `jstats.expon.logpdf x`: `−x` for `x ≥ 0`, `log 0` otherwise -/
def exponLogpdf (x : α) : α := -x + Transc.log (if x < 0 then 0 else 1)
/-- `jstats.logistic.logpdf x`: `−x − 2·log(1+e^{−x})` -/
def logisticLogpdf (x : α) : α := -x - 2 * Transc.softplus (-x)
end Stats

/-- `log Γ` (for the Student-t normaliser) -/
class HasLgamma (α : Type) where
  lgamma : α → α

/-- Lanczos approximation (g = 7, n = 9), |rel. error| ≲ 1e-14 for x > 0. -/
def Float.lgammaLanczos (x : Float) : Float :=
  let coef : List Float := [0.99999999999980993, 676.5203681218851, -1259.1392167224028,
    771.32342877765313, -176.61502916214059, 12.507343278686905, -0.13857109526572012,
    9.9843695780195716e-6, 1.5056327351493116e-7]
  if x < 0.5 then
    -- reflection
    let y := 1 - x
    let t := y - 1 + 7.5
    let a := (coef.zipIdx.foldl (fun (acc : Float) (ci : Float × Nat) =>
      if ci.2 == 0 then acc + ci.1 else acc + ci.1 / (y - 1 + ci.2.toFloat)) 0)
    let lg := 0.5 * Float.log (2 * 3.141592653589793) + (y - 1 + 0.5) * Float.log t - t + Float.log a
    Float.log (3.141592653589793 / Float.abs (Float.sin (3.141592653589793 * x))) - lg
  else
    let t := x - 1 + 7.5
    let a := (coef.zipIdx.foldl (fun (acc : Float) (ci : Float × Nat) =>
      if ci.2 == 0 then acc + ci.1 else acc + ci.1 / (x - 1 + ci.2.toFloat)) 0)
    0.5 * Float.log (2 * 3.141592653589793) + (x - 1 + 0.5) * Float.log t - t + Float.log a

instance : HasLgamma Float := ⟨Float.lgammaLanczos⟩

namespace Stats
variable {α : Type} [Add α] [Sub α] [Mul α] [Div α] [Neg α] [LT α] [LE α]
  [OfNat α 0] [OfNat α 1] [OfNat α 2] [DecidableLT α] [DecidableLE α] [Transc α] [HasPi α] [HasLgamma α]
/-- `jstats.t.logpdf x df`: `lnΓ((ν+1)/2) − lnΓ(ν/2) − ½ log(νπ) − (ν+1)/2 · log(1 + x²/ν)` -/
def tLogpdf (x df : α) : α :=
  HasLgamma.lgamma ((df + 1) / 2) - HasLgamma.lgamma (df / 2) - Transc.log (df * HasPi.pi) / 2
    - (df + 1) / 2 * Transc.log (1 + x * x / df)
end Stats
