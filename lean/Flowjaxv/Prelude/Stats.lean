import Flowjaxv.Prelude.Jnp
/-!
# Textbook log-densities that `jax.scipy.stats.*.logpdf` implement (specs; trusted + differential-tested)
-/
class HasPi (α : Type) where
  pi : α

instance : HasPi Float := ⟨3.141592653589793⟩

namespace Stats
variable {α : Type} [Add α] [Sub α] [Mul α] [Div α] [Neg α] [LT α] [LE α]
  [OfNat α 0] [OfNat α 1] [OfNat α 2] [DecidableLT α] [DecidableLE α] [Transc α] [HasPi α]

/-- `jstats.norm.logpdf x` (loc 0, scale 1): `−x²/2 − log √(2π)` -/
def normLogpdf (x : α) : α := -(x * x) / 2 - Transc.log (Transc.sqrt (2 * HasPi.pi))
/-- `jstats.uniform.logpdf x` on [0,1]: `log 1` inside, `log 0` (= −∞ in IEEE) outside -/
def uniformLogpdf (x : α) : α := Transc.log (if x < 0 then 0 else if 1 < x then 0 else 1)
/-- `jstats.cauchy.logpdf x`: `−log π − log(1+x²)` -/
def cauchyLogpdf (x : α) : α := -(Transc.log HasPi.pi) - Transc.log (1 + x * x)
/-- `jstats.laplace.logpdf x`: `−|x| − log 2` -/
def laplaceLogpdf (x : α) : α := -(Jnp.abs x) - Transc.log 2
/-- `jstats.expon.logpdf x`: `−x` for `x ≥ 0`, `log 0` otherwise -/
def exponLogpdf (x : α) : α := -x + Transc.log (if x < 0 then 0 else 1)
/-- `jstats.logistic.logpdf x`: `−x − 2·log(1+e^{−x})` -/
def logisticLogpdf (x : α) : α := -x - 2 * Transc.softplus (-x)
end Stats
