/-!
# Specifications of the integer / Boolean-array primitives used by `flowjax/masks.py` and the rank assignment of
# `MaskedAutoregressive.__init__` / `masked_autoregressive_mlp`  (targets of `tools/py2lean/py2mask.py`)

Core Lean only, executable.  1-d integer arrays are `List Int`, Boolean matrices lists of rows.  Each definition is the
list meaning of ONE `jnp` / Python / Equinox primitive — nothing here knows about flowjax.  They are part of the trusted
base and are differential-tested on every run through the C09 correspondence (`tools/props/c09.py`, ops `g…`).
-/
namespace JnpMask

/-- `arr % n` = `jnp.remainder` on integers: Python's sign convention (the result has the sign of the divisor) and
`x % 0 = 0` (what XLA returns; Python's own `int % 0` raises and is never translated to this). -/
def imod (a b : Int) : Int := if b = 0 then 0 else Int.fmod a b

/-- `jnp.arange(n)` for a non-negative Python int -/
def arange (n : Nat) : List Int := (List.range n).map Int.ofNat

/-- `jnp.ones(n, int)` -/
def ones (n : Nat) : List Int := List.replicate n 1

/-- `jnp.hstack((a, b))` of two 1-d arrays -/
def hstack (a b : List Int) : List Int := a ++ b

/-- `jnp.repeat(xs, n)`: every element `n` times, in order -/
def «repeat» (xs : List Int) (n : Nat) : List Int := xs.flatMap fun a => List.replicate n a

/-- `op(col[:, None], row)`: NumPy broadcasting of a `(b, 1)` column against a `(a,)` row gives the `(b, a)` matrix
`[r][c] ↦ op col[r] row[c]` -/
def outer (op : Int → Int → Bool) (col row : List Int) : List (List Bool) :=
  col.map fun o => row.map fun i => op o i

/-- `jnp.zeros((rows, cols), bool)` -/
def zeros (rows cols : Nat) : List (List Bool) := List.replicate rows (List.replicate cols false)

/-- one bound of a Python slice over an axis of length `len` (`slice.indices`): `None` ↦ the default end, a negative
bound wraps once and is clamped at `0`, a non-negative one is clamped at `len` -/
def sliceBound (len dflt : Nat) : Option Int → Nat
  | none => dflt
  | some s => if s < 0 then (s + (len : Int)).toNat else min s.toNat len

/-- `m.at[r0:r1, c0:c1].set(v)` on a Boolean matrix, static (Python int or `None`) slice bounds -/
def atSetSlice2 (m : List (List Bool)) (r : Option Int × Option Int) (c : Option Int × Option Int) (v : Bool) :
    List (List Bool) :=
  let rlo := sliceBound m.length 0 r.1
  let rhi := sliceBound m.length m.length r.2
  m.mapIdx fun i row =>
    if rlo ≤ i ∧ i < rhi then
      let clo := sliceBound row.length 0 c.1
      let chi := sliceBound row.length row.length c.2
      row.mapIdx fun j x => if clo ≤ j ∧ j < chi then v else x
    else row

/-- a Boolean array of shape `(n, rows, cols)` — `mats` has `n` entries, each `rows` lists of length `cols`
(the shape is carried explicitly so that zero-row blocks keep their column count) -/
structure Stack3 where
  rows : Nat
  cols : Nat
  mats : List (List (List Bool))

/-- `jnp.ones((n, b0, b1), bool)` -/
def ones3 (n b0 b1 : Nat) : Stack3 :=
  { rows := b0, cols := b1, mats := List.replicate n (List.replicate b0 (List.replicate b1 true)) }

/-- `jax.scipy.linalg.block_diag(*a)` for a 3-d array `a` (iteration over axis 0 yields equally shaped blocks): block `k` occupies
rows `k·rows …`, columns `k·cols …`; everything else is `False` -/
def blockDiag (s : Stack3) : List (List Bool) :=
  let n := s.mats.length
  s.mats.zipIdx.flatMap fun mk =>
    mk.1.map fun row => List.replicate (mk.2 * s.cols) false ++ row ++ List.replicate ((n - 1 - mk.2) * s.cols) false

/-- Python `enumerate(xs)` -/
def enumerate {β : Type} (xs : List β) : List (Nat × β) := xs.zipIdx.map fun p => (p.2, p.1)

/-- Python `xs[i]` on a list with `0 ≤ i` (out of range raises `IndexError`; statements carry `i < len xs`) -/
def listGet {β : Type} [Inhabited β] (xs : List β) (i : Nat) : β := xs.getD i default

/-- Python `xs * n` on a list -/
def listMul {β : Type} (xs : List β) (n : Nat) : List β := (List.replicate n xs).flatten

/-! ### the two Equinox objects `masked_autoregressive_mlp` edits with `eqx.tree_at`, seen through the fields it touches -/

/-- an `eqx.nn.Linear`, seen through its `weight` leaf (the only field `tree_at` replaces; `ω` is whatever sits there) -/
structure Linear (ω : Type) where
  weight : ω

/-- `flowjax.wrappers.Where(cond, if_true, 0)` with a Boolean-matrix condition -/
structure WhereZ (ω : Type) where
  cond : List (List Bool)
  if_true : ω

/-- an `eqx.nn.MLP`, seen through `depth` and `layers` (`eqx.nn.MLP(in, out, width, depth)` allocates `depth + 1` linear
layers — a hypothesis of the statements, checked on every real object by the correspondence) -/
structure MLP (ω : Type) where
  depth : Nat
  layers : List (Linear ω)

end JnpMask
