import Flowjaxv.Prelude.Scalar
/-!
# Specifications of the JAX / NumPy / Python primitives the translator maps to

Each definition states the *list / real-number meaning* of one primitive.  They are
part of the trusted base and are differential-tested against the real primitives by
`tools/corr/prims.py` (validation, not proof).
-/

namespace Jnp
variable {α : Type} [Add α] [Sub α] [Mul α] [Div α] [Neg α] [LT α] [LE α]
  [OfNat α 0] [OfNat α 1] [DecidableLT α] [DecidableLE α]

/-- `jnp.where c a b` on scalars. -/
@[inline] def «where» {β : Type} (c : Bool) (a b : β) : β := if c then a else b
@[inline] def logicalAnd (a b : Bool) : Bool := a && b
def abs (x : α) : α := if x < 0 then -x else x
/-- `jnp.sign`: -1, 0, 1 (NaN is outside the model). -/
def sign (x : α) : α := if x < 0 then -1 else if 0 < x then 1 else 0
def clip (x lo hi : α) : α := if x < lo then lo else if hi < x then hi else x
def maximum (a b : α) : α := if a < b then b else a
def minimum (a b : α) : α := if b < a then b else a

/-- `jnp.searchsorted xs v` (side = 'left') for sorted `xs`: number of elements `< v`. -/
def searchsorted (xs : List α) (v : α) : Int :=
  ((xs.filter (fun a => decide (a < v))).length : Int)

/-- JAX `x[i]` for a traced integer `i`: a negative index wraps once, then the index
is clamped into range. -/
def getItem [Inhabited α] (xs : List α) (i : Int) : α :=
  let n : Int := xs.length
  let j := if i < 0 then i + n else i
  let j := if j < 0 then 0 else if j ≥ n then n - 1 else j
  xs.getD j.toNat default

/-- `.sum()` of a scalar-lifted (elementwise) expression: the lifting adds the terms. -/
@[inline] def sumElem (x : α) : α := x

def sum (xs : List α) : α := xs.foldl (· + ·) 0
def dot (xs ys : List α) : α := sum (List.zipWith (· * ·) xs ys)
def cumsum (xs : List α) : List α :=
  (xs.foldl (fun (acc : List α × α) x => (acc.1 ++ [acc.2 + x], acc.2 + x)) ([], 0)).1

/-- `jax.nn.leaky_relu x negative_slope` -/
def leakyRelu (x slope : α) : α := if x < 0 then slope * x else x

end Jnp

namespace Jnp
/-- `jnp.clip` on (traced) integers. -/
def clipInt (k lo hi : Int) : Int := if k < lo then lo else if hi < k then hi else k
end Jnp
/-! ### Vector primitives used by the parameterisations (C11) -/
namespace Jnp
section VecParams
variable {α : Type} [Add α] [Sub α] [Div α] [OfNat α 0] [Transc α]

/-- `jax.nn.softmax xs` on a 1-d array: `exp xᵢ / Σⱼ exp xⱼ` (JAX subtracts `max xs` from every
entry first, which does not change the real value). -/
def softmax (xs : List α) : List α :=
  let es := xs.map (fun x => Transc.exp x)
  es.map (fun e => e / sum es)

/-- `jax.nn.log_softmax xs` on a 1-d array: `xᵢ − log Σⱼ exp xⱼ`. -/
def logSoftmax (xs : List α) : List α :=
  xs.map (fun x => x - Transc.log (sum (xs.map (fun y => Transc.exp y))))

/-- `xs.at[i].set(v)` for a static index `0 ≤ i` (an out-of-range update is dropped, as in JAX). -/
def setItem (xs : List α) (i : Nat) (v : α) : List α := xs.set i v

/-- `jnp.pad(xs, pad_width=1, constant_values=(a, b))` on a 1-d array. -/
def pad1 (xs : List α) (c : α × α) : List α := c.1 :: (xs ++ [c.2])

end VecParams
end Jnp
