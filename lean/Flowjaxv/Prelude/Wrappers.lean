import Flowjaxv.Prelude.Jnp
/-!
# Primitive specs used by the generated `.unwrap()` bodies of `flowjax/wrappers.py` (`Gen/Wrappers.lean`, translator `py2nd.py`)

Mathlib-free, executable.  Nothing here knows about flowjax.
-/
namespace Wrappers

section
variable {α : Type} [Add α] [Mul α] [OfNat α 0] [Transc α]

/-- `jnp.linalg.norm(x, axis=-2, keepdims=True)` of a matrix (list of rows): the Euclidean norm of every COLUMN (the number of
columns is read off the first row) -/
def normCols (x : List (List α)) : List α :=
  (List.range (x.headD []).length).map fun j =>
    Transc.sqrt (Jnp.dot (x.map fun row => row.getD j 0) (x.map fun row => row.getD j 0))
end

/-- `eqx.partition(·, eqx.is_array_like)` and `eqx.combine` on some type of pytrees -/
structure EqxPartition (τ : Type) where
  partition : τ → τ × τ
  combine : τ → τ → τ

/-- what Equinox documents: `combine(*partition(t, f)) = t` -/
def EqxPartition.Lawful {τ : Type} (P : EqxPartition τ) : Prop :=
  ∀ t, P.combine (P.partition t).1 (P.partition t).2 = t

end Wrappers
