import Flowjaxv.Prelude.Jnp
/-!
# Log-domain values with `-inf`, and the matrix primitives `logmatmulexp` uses

`BlockAutoregressiveNetwork._activation_and_log_jacobian_3d` fills a matrix with `-jnp.inf` and `logmatmulexp`
computes with it (`amax`, `x - shift`, `exp`, `matmul`, `log`, `+ shift`).  `ℝ` has no `-inf`, so a log-domain
entry is an `Option α`: `none` is `-inf`, `some a` is the float/real `a`.  The operations below are the IEEE
meaning of the corresponding `jnp` primitive on such values:

* `max(-inf, b) = b`;  `-inf - s = -inf`;  `exp(-inf) = 0`;  `a + -inf = -inf`;
* `a - (-inf)` (`= +inf`, resp. `nan` for `-inf - -inf`) cannot be produced by `x - amax(x)` unless a whole row /
  column is `-inf`; the value is written `1/0`, `0/0` (what IEEE gives at `Float`); statements over `ℝ` carry the
  guard "every row / column has a finite entry".

At `Float` a `some (-inf)` (from `log 0` after underflow) behaves exactly like `none` in every operation below, so the
encoding is faithful there; the driver prints `none` as `-inf`.

Matrices are lists of rows.  `keepdims=True` reductions are returned as the list of reduced values (one per row for
`axis=-1`, one per column for `axis=-2`); `subCol/addCol`, `subRow/addRow` are the broadcasts against them.
Validated against the real `logmatmulexp` (with `-inf` entries) by `tools/props/bnafld.py` (op `lmme`).
-/

namespace Jnp
abbrev Ext (α : Type) := Option α

namespace Ext
section
variable {α : Type} [Add α] [Sub α] [Mul α] [Div α] [LT α] [DecidableLT α] [OfNat α 0] [OfNat α 1] [Transc α]

/-- `jnp.maximum` on log-domain values -/
def max : Ext α → Ext α → Ext α
  | none, b => b
  | a, none => a
  | some a, some b => some (if a < b then b else a)

/-- `jnp.amax` of one row / column (`-inf` is the identity of `max`) -/
def amax (xs : List (Ext α)) : Ext α := xs.foldl max none

def sub : Ext α → Ext α → Ext α
  | some a, some s => some (a - s)
  | none, some _ => none
  | some _, none => some (1 / 0)
  | none, none => some (0 / 0)

/-- `a + b`.  `finite + -inf = -inf`, but IEEE gives `nan + -inf = nan` and `+inf + -inf = nan`: a non-finite `a` is
recognised by `a - a ≠ 0` (`a - a` is `0` for every real and every finite float, `nan` otherwise) and propagated as that `nan`. -/
def add [BEq α] : Ext α → Ext α → Ext α
  | some a, some b => some (a + b)
  | some a, none => if a - a == 0 then none else some (a - a)
  | none, some b => if b - b == 0 then none else some (b - b)
  | none, none => none

/-- unary minus: `-(-inf) = +inf` (`1/0` at `Float`; statements over `ℝ` are about `some` values) -/
def neg [Neg α] : Ext α → Ext α
  | some a => some (-a)
  | none => some (1 / 0)

/-- `jnp.exp` of a log-domain value: `exp(-inf) = 0` -/
def exp : Ext α → α
  | none => 0
  | some a => Transc.exp a

/-- `jnp.log` (IEEE `log 0 = -inf` is `some (-inf)` at `Float`; over `ℝ` statements require a positive argument) -/
def log (a : α) : Ext α := some (Transc.log a)

/-- `jnp.amax(x, -1, keepdims=True)` -/
def amaxRows (x : List (List (Ext α))) : List (Ext α) := x.map amax

/-- `jnp.amax(x, -2, keepdims=True)`; the number of columns is read off the first row -/
def amaxCols (x : List (List (Ext α))) : List (Ext α) :=
  (List.range (x.headD []).length).map fun j => amax (x.map fun row => row.getD j none)

/-- `x - s` with `s` of shape `(rows, 1)` -/
def subCol (x : List (List (Ext α))) (s : List (Ext α)) : List (List (Ext α)) :=
  List.zipWith (fun row si => row.map fun a => sub a si) x s
/-- `x - s` with `s` of shape `(1, cols)` -/
def subRow (x : List (List (Ext α))) (s : List (Ext α)) : List (List (Ext α)) :=
  x.map fun row => List.zipWith sub row s
def addCol [BEq α] (x : List (List (Ext α))) (s : List (Ext α)) : List (List (Ext α)) :=
  List.zipWith (fun row si => row.map fun a => add a si) x s
def addRow [BEq α] (x : List (List (Ext α))) (s : List (Ext α)) : List (List (Ext α)) :=
  x.map fun row => List.zipWith add row s

def expM (x : List (List (Ext α))) : List (List α) := x.map fun row => row.map exp
def logM (x : List (List α)) : List (List (Ext α)) := x.map fun row => row.map log

end
end Ext

section
variable {α : Type} [Add α] [Mul α] [OfNat α 0]
/-- `jnp.matmul` of an `n × k` by a `k × m` matrix (`m` read off the first row of `b`) -/
def matmul (a b : List (List α)) : List (List α) :=
  a.map fun row => (List.range (b.headD []).length).map fun j => dot row (b.map fun brow => brow.getD j 0)
end

end Jnp
