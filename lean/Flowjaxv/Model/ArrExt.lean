import Flowjaxv.Model.Arr
import Flowjaxv.Model.ToBij
/-!
# Scan and Vmap over arrays, through their defining equivalences (hand model, Mathlib-free)

`Scan(layers)` is the generated `Chain` of the unstacked layers; `Vmap(b, …)` is `Stack` along a
new leading axis of the per-slice bijections.  The tie of these two definitions to `lax.scan` /
`eqx.filter_vmap` is the correspondence harness (`tools/props/c08.py`, kinds `SCAN` / `VMAP`,
which emits exactly `CH …` and `STK <k::cshape> 0 <cshape> k …`).
-/
namespace ArrComb
open Gen
variable {α C L : Type} [Add L] [OfNat L 0]

/-- `Scan(layers)`: the layers applied one after the other -/
def scan [Neg L] (layers : List (Bij (Arr α) C L)) : Bij (Arr α) C L := (Chain.mk layers).toBij

/-- `Vmap(...)` with per-slice bijections `bs` (equal to each other for broadcast parameters) of
shape `cshape`: shape `bs.length :: cshape`, slice `i` along axis 0 goes through `bs[i]` -/
def vmap (cshape : List Nat) (bs : List (Bij (Arr α) C L)) : Bij (Arr α) C L :=
  stack ⟨bs.length :: cshape, 0, List.replicate bs.length 1⟩ cshape bs

end ArrComb

/-! ## `Chain.__len__`, `Chain.__getitem__` (hand model of three one-line methods)

`__len__` is `len(self.bijections)`; `c[i]` with an int returns `self.bijections[i]` itself;
`c[i:j]` returns `Chain(self.bijections[i:j])`.  Bounds are the already-normalised non-negative
ones (Python's slice normalisation clips to the length, as `take`/`drop` do). -/
namespace Gen
variable {X C α : Type}

def Chain.len (c : Chain X C α) : Nat := c.bijections.length

def Chain.getIdx (c : Chain X C α) (i : Nat) : Option (Bij X C α) := c.bijections[i]?

def Chain.getSlice (c : Chain X C α) (i j : Nat) : Chain X C α := ⟨(c.bijections.take j).drop i⟩

end Gen
