import Flowjaxv.Gen.Bisection
/-!
# Hand model of the JAX combinators around the generated bisection kernels (Mathlib-free, executable)

Everything that is arithmetic — every loop condition, loop body, prologue and epilogue of
`flowjax/bisection_search.py` — is the GENERATED definition from `Gen/Bisection.lean`
(`adaptInit`, `adaptCond`, `adaptBody`, `adaptExit`, `bisCond`, `bisBody`, `bisExit`).
Hand-written here (and tied to the real code by the correspondence of `tools/props/c10.py`):

* `whileFuel`            — `lax.while_loop cond body init` as fuel-indexed iteration (`none` = fuel ran out),
* `whileTrace`           — the states `whileFuel` passes through (for the driver's evaluation-point trace),
* `adaptInterval`        — `_adapt_interval_to_include_root` = adaptInit → while adaptCond/adaptBody(expand_factor = 2) → adaptExit,
* `bisectionSearch`      — `_bisection_search` = adaptInterval → while bisCond/bisBody from `(lower, upper, 0)` → `(bisExit, adapt_iterations, iterations)`,
* `searchArgsOk`, `inverterArgsOk` — the `raise ValueError` guards of `_bisection_search` / `AutoregressiveBisectionInverter.__check_init__`,
* `autoregressiveScan`, `autoregressiveBisection` — `_autoregressive_bisection_search`: `lax.scan` with carry `(y, i)`,
* `inverterCall`         — `AutoregressiveBisectionInverter.__call__`: the search applied to `x ↦ bijection.transform(x, condition) − y`.

The WHOLE functions are also regenerated from the source (`Gen/BisectionGen.lean`, over `Model/BisectWorld.lean`) and proved equal to
the definitions of this file in `Proofs/BisectionGen.lean`.
-/
namespace Model
open Gen
variable {α : Type} [Add α] [Sub α] [Mul α] [Div α] [Neg α] [LT α] [LE α] [BEq α]
  [OfNat α 0] [OfNat α 1] [OfNat α 2] [OfNat α 4] [OfScientific α]
  [DecidableLT α] [DecidableLE α] [Transc α] [Inhabited α]

/-- `lax.while_loop cond body s`: at most `fuel` body evaluations; `none` when the condition is
still true after `fuel` of them. -/
def whileFuel {σ : Type} (cond : σ → Bool) (body : σ → σ) : Nat → σ → Option σ
  | 0, s => if cond s then none else some s
  | n + 1, s => if cond s then whileFuel cond body n (body s) else some s

/-- The states on which `cond` is evaluated by `whileFuel cond body fuel s` (the initial state first). -/
def whileTrace {σ : Type} (cond : σ → Bool) (body : σ → σ) : Nat → σ → List σ
  | 0, s => [s]
  | n + 1, s => if cond s then s :: whileTrace cond body n (body s) else [s]

/-- `_adapt_interval_to_include_root(func, lower=…, upper=…)` with the default `expand_factor = 2.0`;
returns `(lower, upper, iteration)`. -/
def adaptInterval (func : α → α) (lower upper : α) (fuel : Nat) : Option (α × α × Int) :=
  (whileFuel adaptCond (adaptBody func (2 : α)) fuel (adaptInit func lower upper)).map adaptExit

/-- the two `raise ValueError` guards at the top of `_bisection_search` -/
def searchArgsOk (tol : α) (max_iter : Int) : Bool :=
  !(decide (max_iter < 0)) && !(decide (tol ≤ 0))

/-- `AutoregressiveBisectionInverter.__check_init__` (raises unless this holds) -/
def inverterArgsOk (lower upper tol : α) (max_iter : Int) : Bool :=
  decide (lower < upper) && !(decide (tol ≤ 0)) && !(decide (max_iter < 0))

/-- the bisection `while_loop` of `_bisection_search` started from the adapted bracket `(lo, hi, 0)` -/
def bisectLoop (func : α → α) (tol : α) (max_iter : Int) (fuel : Nat) (lo hi : α) : Option (α × α × Int) :=
  whileFuel (bisCond tol max_iter) (bisBody func) fuel (lo, hi, 0)

/-- `_bisection_search(func, lower=…, upper=…, tol=…, max_iter=…)` (arguments satisfying
`searchArgsOk`); returns `(root, adapt_iterations, iterations)`. -/
def bisectionSearch (func : α → α) (lower upper tol : α) (max_iter : Int) (fuel : Nat) :
    Option (α × Int × Int) :=
  match adaptInterval func lower upper fuel with
  | none => none
  | some (lo, hi, adaptIters) =>
    -- the generated prologue: initial loop state and the values of `tol`, `max_iter` the loop condition closes over
    let ((lo₀, hi₀, _), tol₀, max_iter₀) := bisInit (fun _ _ => (lo, hi, adaptIters)) lower upper tol max_iter
    match bisectLoop func tol₀ max_iter₀ fuel lo₀ hi₀ with
    | none => none
    | some (lo', hi', iters) => some (bisExit lo' hi', adaptIters, iters)

/-- `scalar_fn` of `scan_fn`: `x ↦ autoregressive_fn(y.at[i].set(x))[i]` -/
def scalarFn (fn : List α → List α) (y : List α) (i : Nat) (x : α) : α :=
  Jnp.getItem (fn (y.set i x)) (i : Int)

/-- `lax.scan(scan_fn, (y, i), xs=None, length=k)` where `scan_fn` solves coordinate `i` with `solve`
applied to `scalar_fn` and writes the root into `y[i]`. -/
def autoregressiveScan (solve : (α → α) → Option α) (fn : List α → List α) :
    Nat → Nat → List α → Option (List α)
  | 0, _, y => some y
  | k + 1, i, y =>
    match solve (scalarFn fn y i) with
    | none => none
    | some root => autoregressiveScan solve fn k (i + 1) (y.set i root)

/-- the scalar solver used by `_autoregressive_bisection_search`: `root, *_ = _bisection_search(…)` -/
def bisectionSolver (lower upper tol : α) (max_iter : Int) (fuel : Nat) (g : α → α) : Option α :=
  (bisectionSearch g lower upper tol max_iter fuel).map (·.1)

/-- `_autoregressive_bisection_search(fn, lower=…, upper=…, tol=…, length=…, max_iter=…)` -/
def autoregressiveBisection (fn : List α → List α) (lower upper tol : α) (length : Nat)
    (max_iter : Int) (fuel : Nat) : Option (List α) :=
  autoregressiveScan (bisectionSolver lower upper tol max_iter fuel) fn length 0 (arInit lower upper length).1

/-- `AutoregressiveBisectionInverter.__call__(bijection, y, condition)`, `transform = bijection.transform(·, condition)`,
`n = bijection.shape[0]`, the four fields of the inverter -/
def inverterCall (transform : List α → List α) (y : List α) (lower upper tol : α) (n : Nat) (max_iter : Int) (fuel : Nat) :
    Option (List α) :=
  autoregressiveBisection (fun x => List.zipWith (· - ·) (transform x) y) lower upper tol n max_iter fuel

end Model
