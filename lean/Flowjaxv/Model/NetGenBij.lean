import Flowjaxv.Gen.NetGen
/-!
# The GENERATED methods of `Coupling` / `MaskedAutoregressive` packaged as `Bij` records

Nothing is modelled here: the four fields are the four definitions of `Gen/NetGen.lean` (regenerated from
`flowjax/bijections/coupling.py` / `masked_autoregressive.py` on every run).  The condition type is `Option (List α)`
(`condition=None` is `none`).  Mathlib-free and executable (the driver runs these records at `Float`).
-/
namespace GenNet
variable {α : Type} [Add α] [Mul α] [Neg α] [OfNat α 0] [Inhabited α]

/-- the four generated public methods of `Coupling` -/
def Coupling.toBij (self : Nw.CouplingObj α) : Bij (List α) (Option (List α)) α where
  fwd := Coupling.transform self
  inv := Coupling.inverse self
  fwdLd := Coupling.transformAndLogDet self
  invLd := Coupling.inverseAndLogDet self

/-- the four generated public methods of `MaskedAutoregressive` -/
def Maf.toBij (self : Nw.MafObj α) : Bij (List α) (Option (List α)) α where
  fwd := Maf.transform self
  inv := Maf.inverse self
  fwdLd := Maf.transformAndLogDet self
  invLd := Maf.inverseAndLogDet self

/-- a hand-model bijection (condition = a list, `[]` for `None`) seen with the optional condition of the generated code -/
def optCond {X L : Type} (b : Bij X (List α) L) : Bij X (Option (List α)) L where
  fwd x c := b.fwd x (c.getD [])
  inv y c := b.inv y (c.getD [])
  fwdLd x c := b.fwdLd x (c.getD [])
  invLd y c := b.invLd y (c.getD [])

end GenNet
