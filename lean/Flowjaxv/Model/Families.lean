import Flowjaxv.Gen.Dist
import Flowjaxv.Model.ToDist
import Flowjaxv.Model.Ctors
/-!
# The provided parametric families, wired exactly as their constructors wire them (C05)

Hand-written glue, Mathlib-free and executable; every numeric piece is a GENERATED definition:

* the base log-densities are `Gen.Standard….logProb` (`Gen/Dist.lean`),
* the bijections are the generated `Affine` / `Scale` / `Exp` / `Chain` with the constructor's
  softplus reparameterisation (`Ctors.affine`, `Ctors.scale`, through the generated `SoftPlus`),
* the density is the generated `AbstractTransformed._log_prob` (`Transformed.logProb`).

What is hand-written (and therefore tied by the correspondence in `tools/props/c05.py`) is only
*which* pieces each constructor plugs together, the elementwise lifting to `n` independent
dimensions, the accessors, and the mixture (`jax.nn.log_softmax`, `jax.scipy.special.logsumexp`).

A distribution's "key" in the model is the base sample itself (the PRNG is JAX's).
-/
open Gen

namespace Families
variable {α : Type} [Add α] [Sub α] [Mul α] [Div α] [Neg α] [LT α] [LE α] [BEq α]
  [OfNat α 0] [OfNat α 1] [OfNat α 2] [OfNat α 4] [OfScientific α]
  [DecidableLT α] [DecidableLE α] [Transc α] [Inhabited α] [HasPi α] [HasLgamma α]

/-- a standard (parameter-free) base distribution with one-element log-density `lp` -/
def stdDist (lp : α → α) : Distn α Unit α α :=
  (DistCore.mk (fun k _ => k) (fun x _ => lp x)).toDist

/-- one dimension of a family: the standard base's one-element log-density and the scalar
bijection the constructor builds for that element -/
abbrev Comp (α : Type) := (α → α) × Bij α Unit α

/-- the one-element distribution: `Transformed(base, bijection)` -/
def oneDim (p : Comp α) : Distn α Unit α α :=
  (Transformed.mk (stdDist p.1) p.2).toDist

/-- `AbstractLocScaleDistribution`: `Transformed(base, Affine(loc, scale))`, one element -/
def locScaleComp (lp : α → α) (loc scale : α) : Comp α := (lp, (Ctors.affine loc scale).toBij)
def locScale (lp : α → α) (loc scale : α) : Distn α Unit α α := oneDim (locScaleComp lp loc scale)

/-- the `df` that `unwrap(_StandardStudentT(df))` holds: `BijectionReparam(df, SoftPlus())` -/
def studentDf (df : α) : α := Ctors.softplusUnwrap (Ctors.softplusRaw df)

/-- `Normal(loc, scale)` -/
def normalComp (loc scale : α) : Comp α := locScaleComp StandardNormal.logProb loc scale
/-- `LogNormal(loc, scale)`: `Chain([Affine(loc, scale), Exp()])` over a standard normal -/
def logNormalComp (loc scale : α) : Comp α :=
  (StandardNormal.logProb, (Chain.mk [(Ctors.affine loc scale).toBij, Exp.toBij]).toBij)
/-- `Uniform(minval, maxval)`: `Affine(loc = minval, scale = maxval − minval)` over U[0,1] -/
def uniformComp (minval maxval : α) : Comp α :=
  (StandardUniform.logProb, (Ctors.affine minval (maxval - minval)).toBij)
/-- `Gumbel(loc, scale)` -/
def gumbelComp (loc scale : α) : Comp α := locScaleComp StandardGumbel.logProb loc scale
/-- `Cauchy(loc, scale)` -/
def cauchyComp (loc scale : α) : Comp α := locScaleComp StandardCauchy.logProb loc scale
/-- `Laplace(loc, scale)` -/
def laplaceComp (loc scale : α) : Comp α := locScaleComp StandardLaplace.logProb loc scale
/-- `Logistic(loc, scale)` -/
def logisticComp (loc scale : α) : Comp α := locScaleComp StandardLogistic.logProb loc scale
/-- `Exponential(rate)`: `Scale(1 / rate)` over the standard exponential -/
def exponentialComp (rate : α) : Comp α :=
  (StandardExponential.logProb, (Ctors.scale (1 / rate)).toBij)
/-- `StudentT(df, loc, scale)` -/
def studentTComp (df loc scale : α) : Comp α :=
  locScaleComp (StdStudentT.mk (studentDf df)).logProb loc scale

def normal (loc scale : α) : Distn α Unit α α := locScale StandardNormal.logProb loc scale
def logNormal (loc scale : α) : Distn α Unit α α := oneDim (logNormalComp loc scale)
def uniform (minval maxval : α) : Distn α Unit α α := oneDim (uniformComp minval maxval)
def gumbel (loc scale : α) : Distn α Unit α α := locScale StandardGumbel.logProb loc scale
def cauchy (loc scale : α) : Distn α Unit α α := locScale StandardCauchy.logProb loc scale
def laplace (loc scale : α) : Distn α Unit α α := locScale StandardLaplace.logProb loc scale
def logistic (loc scale : α) : Distn α Unit α α := locScale StandardLogistic.logProb loc scale
def exponential (rate : α) : Distn α Unit α α := oneDim (exponentialComp rate)
def studentT (df loc scale : α) : Distn α Unit α α :=
  locScale (StdStudentT.mk (studentDf df)).logProb loc scale

/-! ### constructor guards (`eqx.error_if`) -/
/-- `Uniform.__init__` raises when `maxval <= minval` -/
def uniformValid (minval maxval : α) : Bool := !(decide (maxval ≤ minval))
/-- `_StandardStudentT.__init__` raises when `df <= 0` -/
def studentValid (df : α) : Bool := !(decide (df ≤ 0))
/-- `VmapMixture.__init__` raises when some `weights <= 0` -/
def weightsValid (ws : List α) : Bool := ws.all (fun w => !(decide (w ≤ 0)))

/-! ### accessors (properties of the real classes) -/
/-- `AbstractLocScaleDistribution.loc` = `bijection.loc` -/
def accLoc (loc scale : α) : α := (Ctors.affine loc scale).loc
/-- `AbstractLocScaleDistribution.scale` = `unwrap(bijection.scale)` -/
def accScale (loc scale : α) : α := (Ctors.affine loc scale).scale
/-- `StudentT.df` = `unwrap(base_dist.df)` -/
def accDf (df : α) : α := studentDf df
/-- `Exponential.rate` = `1 / unwrap(bijection.scale)` -/
def accRate (rate : α) : α := 1 / (Ctors.scale (1 / rate)).scale
/-- `Uniform.minval` = `bijection.loc` -/
def accMinval (minval maxval : α) : α := (Ctors.affine minval (maxval - minval)).loc
/-- `Uniform.maxval` = `bijection.loc + unwrap(bijection.scale)` -/
def accMaxval (minval maxval : α) : α :=
  (Ctors.affine minval (maxval - minval)).loc + (Ctors.affine minval (maxval - minval)).scale

/-! ### `n` independent dimensions

After the constructor's `broadcast_arrays`, a family of shape `(n,)` (any shape, flattened) is the
standard base of that shape — whose `_log_prob` is `logpdf(x).sum()` — under the elementwise
bijection.  `comps` lists, per dimension, the base's one-element log-density and the scalar
bijection. -/
/-- `_Standard…(shape)._log_prob`: the `.sum()` over the elements -/
def stdVec (lps : List (α → α)) : Distn (List α) Unit (List α) α :=
  (DistCore.mk (fun k _ => k) (fun xs _ => Jnp.sum (List.zipWith (fun lp x => lp x) lps xs))).toDist

/-- the lifted distribution -/
def lifted (comps : List (Comp α)) : Distn (List α) Unit (List α) α :=
  (Transformed.mk (stdVec (comps.map Prod.fst)) (Bij.elementwise (comps.map Prod.snd))).toDist

/-! ### mixtures (`VmapMixture`) -/
/-- maximum of a list (`0` for the empty list, which never occurs: at least one component) -/
def listMax : List α → α
  | [] => 0
  | x :: xs => xs.foldl Jnp.maximum x

/-- `jax.scipy.special.logsumexp`: `amax + log Σ exp(aᵢ − amax)` where a non-finite `amax` is
replaced by `0`.  "`m` is finite" is written `m − m ≤ 0` (true for every finite float and every
real; false for `±inf`/NaN because `inf − inf` is NaN). -/
def logsumexp (xs : List α) : α :=
  let m := listMax xs
  let m := if m - m ≤ 0 then m else 0
  m + Transc.log (Jnp.sum (xs.map (fun x => Transc.exp (x - m))))

/-- `jax.nn.log_softmax v = v − logsumexp v` -/
def logSoftmax (v : List α) : List α :=
  let l := logsumexp v
  v.map (fun x => x - l)

/-- `VmapMixture.log_normalized_weights` after unwrap: `log_softmax(log weights)` -/
def logNormWeights (ws : List α) : List α := logSoftmax (ws.map Transc.log)

/-- `VmapMixture._log_prob`: `logsumexp(log_probs + log_normalized_weights)` -/
def mixtureLogProb (lps ws : List α) : α :=
  logsumexp (List.zipWith (· + ·) lps (logNormWeights ws))

end Families

/-- The last line of the public `log_prob`: `jnp.where(jnp.isnan(lps), -jnp.inf, lps)`.
Float only: `ℝ` has no NaN (over `ℝ` the theorems are stated on the support, where the private
`_log_prob` is finite; outside the support the behaviour is covered by the correspondence). -/
def Families.nanToNegInf (x : Float) : Float := if x.isNaN then -(1.0 / 0.0) else x
