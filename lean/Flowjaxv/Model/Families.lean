import Flowjaxv.Gen.Dist
import Flowjaxv.Model.ToDist
import Flowjaxv.Model.Ctors
import Flowjaxv.Model.Triangular
/-!
# The provided parametric families, wired exactly as their constructors wire them (C05)

Hand-written glue, Mathlib-free and executable; every numeric piece is a GENERATED definition:

* the base log-densities are `Gen.Standard….logProb` (`Gen/Dist.lean`),
* the bijections are the generated `Affine` / `Scale` / `Exp` / `Chain` with the constructor's
  softplus reparameterisation (`Ctors.affine`, `Ctors.scale`, through the generated `SoftPlus`),
* the density is the generated `AbstractTransformed._log_prob` (`Transformed.logProb`).

What is hand-written (and therefore tied by the correspondence in `tools/props/c05.py`) is only
*which* pieces each constructor plugs together, the elementwise lifting to `n` independent
dimensions, the accessors, and the mixture (`jax.nn.log_softmax`, `jax.scipy.special.logsumexp`).

`MultivariateNormal(loc, covariance)` is `Transformed(StandardNormal((dim,)), TriangularAffine(loc,
linalg.cholesky(covariance)))`: the Cholesky factorisation is a numerical primitive, so the model takes the
factor `chol` (lower triangular, positive diagonal, `chol cholᵀ = covariance`) as its parameter and wires the
hand model of `TriangularAffine` (`Model/Triangular.lean`, constructor `Tri.init`: SoftPlus-reparameterised
diagonal, `_to_triangular`) under the generated `Transformed`.  The correspondence feeds the model with
`jnp.linalg.cholesky(covariance)` and compares with the real `MultivariateNormal(loc, covariance)`.

A distribution's "key" in the model is the base sample itself (the PRNG is JAX's): what `jr.normal`,
`jr.uniform`, `jr.gumbel`, `jr.cauchy`, `jr.t`, `jr.laplace`, `jr.exponential`, `jr.logistic` and
`jr.categorical` return is a trusted primitive (every `_Standard…._sample` is exactly one such call).
-/
open Gen

namespace Families
variable {α : Type} [Add α] [Sub α] [Mul α] [Div α] [Neg α] [LT α] [LE α] [BEq α]
  [OfNat α 0] [OfNat α 1] [OfNat α 2] [OfNat α 4] [OfScientific α]
  [DecidableLT α] [DecidableLE α] [Transc α] [Inhabited α] [HasPi α] [HasLgamma α]

/-- a standard (parameter-free) base distribution with one-element log-density `lp` -/
def stdDist (lp : α → α) : Distn α Unit α α :=
  (DistCore.mk (fun k _ => k) (fun x _ => lp x)).toDist

/-- one dimension of a family: the standard base's one-element log-density and the scalar
bijection the constructor builds for that element -/
abbrev Comp (α : Type) := (α → α) × Bij α Unit α

/-- the one-element distribution: `Transformed(base, bijection)` -/
def oneDim (p : Comp α) : Distn α Unit α α :=
  (Transformed.mk (stdDist p.1) p.2).toDist

/-- `AbstractLocScaleDistribution`: `Transformed(base, Affine(loc, scale))`, one element -/
def locScaleComp (lp : α → α) (loc scale : α) : Comp α := (lp, (Ctors.affine loc scale).toBij)
def locScale (lp : α → α) (loc scale : α) : Distn α Unit α α := oneDim (locScaleComp lp loc scale)

/-- the `df` that `unwrap(_StandardStudentT(df))` holds: `BijectionReparam(df, SoftPlus())` -/
def studentDf (df : α) : α := Ctors.softplusUnwrap (Ctors.softplusRaw df)

/-- `Normal(loc, scale)` -/
def normalComp (loc scale : α) : Comp α := locScaleComp StandardNormal.logProb loc scale
/-- `LogNormal(loc, scale)`: `Chain([Affine(loc, scale), Exp()])` over a standard normal -/
def logNormalComp (loc scale : α) : Comp α :=
  (StandardNormal.logProb, (Chain.mk [(Ctors.affine loc scale).toBij, Exp.toBij]).toBij)
/-- `Uniform(minval, maxval)`: `Affine(loc = minval, scale = maxval − minval)` over U[0,1] -/
def uniformComp (minval maxval : α) : Comp α :=
  (StandardUniform.logProb, (Ctors.affine minval (maxval - minval)).toBij)
/-- `Gumbel(loc, scale)` -/
def gumbelComp (loc scale : α) : Comp α := locScaleComp StandardGumbel.logProb loc scale
/-- `Cauchy(loc, scale)` -/
def cauchyComp (loc scale : α) : Comp α := locScaleComp StandardCauchy.logProb loc scale
/-- `Laplace(loc, scale)` -/
def laplaceComp (loc scale : α) : Comp α := locScaleComp StandardLaplace.logProb loc scale
/-- `Logistic(loc, scale)` -/
def logisticComp (loc scale : α) : Comp α := locScaleComp StandardLogistic.logProb loc scale
/-- `Exponential(rate)`: `Scale(1 / rate)` over the standard exponential -/
def exponentialComp (rate : α) : Comp α :=
  (StandardExponential.logProb, (Ctors.scale (1 / rate)).toBij)
/-- `StudentT(df, loc, scale)` -/
def studentTComp (df loc scale : α) : Comp α :=
  locScaleComp (StdStudentT.mk (studentDf df)).logProb loc scale

def normal (loc scale : α) : Distn α Unit α α := locScale StandardNormal.logProb loc scale
def logNormal (loc scale : α) : Distn α Unit α α := oneDim (logNormalComp loc scale)
def uniform (minval maxval : α) : Distn α Unit α α := oneDim (uniformComp minval maxval)
def gumbel (loc scale : α) : Distn α Unit α α := locScale StandardGumbel.logProb loc scale
def cauchy (loc scale : α) : Distn α Unit α α := locScale StandardCauchy.logProb loc scale
def laplace (loc scale : α) : Distn α Unit α α := locScale StandardLaplace.logProb loc scale
def logistic (loc scale : α) : Distn α Unit α α := locScale StandardLogistic.logProb loc scale
def exponential (rate : α) : Distn α Unit α α := oneDim (exponentialComp rate)
def studentT (df loc scale : α) : Distn α Unit α α :=
  locScale (StdStudentT.mk (studentDf df)).logProb loc scale

/-! ### constructor guards (`eqx.error_if`) -/
/-- `Uniform.__init__` raises when `maxval <= minval` -/
def uniformValid (minval maxval : α) : Bool := !(decide (maxval ≤ minval))
/-- `_StandardStudentT.__init__` raises when `df <= 0` -/
def studentValid (df : α) : Bool := !(decide (df ≤ 0))
/-- `VmapMixture.__init__` raises when some `weights <= 0` -/
def weightsValid (ws : List α) : Bool := ws.all (fun w => !(decide (w ≤ 0)))

/-! ### accessors (properties of the real classes) -/
/-- `AbstractLocScaleDistribution.loc` = `bijection.loc` -/
def accLoc (loc scale : α) : α := (Ctors.affine loc scale).loc
/-- `AbstractLocScaleDistribution.scale` = `unwrap(bijection.scale)` -/
def accScale (loc scale : α) : α := (Ctors.affine loc scale).scale
/-- `StudentT.df` = `unwrap(base_dist.df)` -/
def accDf (df : α) : α := studentDf df
/-- `Exponential.rate` = `1 / unwrap(bijection.scale)` -/
def accRate (rate : α) : α := 1 / (Ctors.scale (1 / rate)).scale
/-- `Uniform.minval` = `bijection.loc` -/
def accMinval (minval maxval : α) : α := (Ctors.affine minval (maxval - minval)).loc
/-- `Uniform.maxval` = `bijection.loc + unwrap(bijection.scale)` -/
def accMaxval (minval maxval : α) : α :=
  (Ctors.affine minval (maxval - minval)).loc + (Ctors.affine minval (maxval - minval)).scale

/-! ### `n` independent dimensions

After the constructor's `broadcast_arrays`, a family of shape `(n,)` (any shape, flattened) is the
standard base of that shape — whose `_log_prob` is `logpdf(x).sum()` — under the elementwise
bijection.  `comps` lists, per dimension, the base's one-element log-density and the scalar
bijection. -/
/-- `_Standard…(shape)._log_prob`: the `.sum()` over the elements -/
def stdVec (lps : List (α → α)) : Distn (List α) Unit (List α) α :=
  (DistCore.mk (fun k _ => k) (fun xs _ => Jnp.sum (List.zipWith (fun lp x => lp x) lps xs))).toDist

/-- the lifted distribution -/
def lifted (comps : List (Comp α)) : Distn (List α) Unit (List α) α :=
  (Transformed.mk (stdVec (comps.map Prod.fst)) (Bij.elementwise (comps.map Prod.snd))).toDist

/-! ### `MultivariateNormal` -/
/-- `StandardNormal((n,))`: `_log_prob x = jstats.norm.logpdf(x).sum()`, `_sample = jr.normal(key, (n,))` -/
def stdNormalVec (n : Nat) : Distn (List α) Unit (List α) α :=
  stdVec (List.replicate n StandardNormal.logProb)

/-- `jnp.broadcast_to(loc, (dim,))` for a `loc` of one entry (shape `()` or `(1,)`) or of `dim` entries -/
def broadcastLoc (loc : List α) (n : Nat) : List α :=
  match loc with
  | [l] => List.replicate n l
  | _ => loc

/-- `A @ A.T` for a list-of-rows matrix -/
def matMulT (A : List (List α)) : List (List α) := A.map (fun ri => A.map (fun rj => Jnp.dot ri rj))

/-- the unwrapped `MultivariateNormal.bijection` for the Cholesky factor `chol`:
`TriangularAffine(loc, chol)` (`lower=True`).  `none` = the constructor raises (`chol` not square,
a diagonal entry rejected by the SoftPlus reparameterisation, `loc` not broadcastable to `(dim,)`). -/
def mvnBijection (loc : List α) (chol : List (List α)) : Option (Tri.TriAffine α) :=
  let loc' := broadcastLoc loc chol.length
  if loc'.length != chol.length then none else Tri.init true chol loc'

/-- `MultivariateNormal(loc, covariance)` given `chol = linalg.cholesky(covariance)` -/
def mvn (loc : List α) (chol : List (List α)) : Option (Distn (List α) Unit (List α) α) :=
  (mvnBijection loc chol).map (fun t => (Transformed.mk (stdNormalVec chol.length) t.toBij).toDist)

/-- `MultivariateNormal.loc` = `bijection.loc` -/
def mvnLoc (loc : List α) (chol : List (List α)) : Option (List α) :=
  (mvnBijection loc chol).map (fun t => t.loc)

/-- `MultivariateNormal.covariance` = `cholesky @ cholesky.T`, `cholesky = unwrap(bijection.triangular)` -/
def mvnCovariance (loc : List α) (chol : List (List α)) : Option (List (List α)) :=
  (mvnBijection loc chol).map (fun t => matMulT t.triangular)

/-! ### mixtures (`VmapMixture`) -/
/-- maximum of a list (`0` for the empty list, which never occurs: at least one component) -/
def listMax : List α → α
  | [] => 0
  | x :: xs => xs.foldl Jnp.maximum x

/-- `jax.scipy.special.logsumexp`: `amax + log Σ exp(aᵢ − amax)` where a non-finite `amax` is
replaced by `0`.  "`m` is finite" is written `m − m ≤ 0` (true for every finite float and every
real; false for `±inf`/NaN because `inf − inf` is NaN). -/
def logsumexp (xs : List α) : α :=
  let m := listMax xs
  let m := if m - m ≤ 0 then m else 0
  m + Transc.log (Jnp.sum (xs.map (fun x => Transc.exp (x - m))))

/-- `jax.nn.log_softmax v = v − logsumexp v` -/
def logSoftmax (v : List α) : List α :=
  let l := logsumexp v
  v.map (fun x => x - l)

/-- `VmapMixture.log_normalized_weights` after unwrap: `log_softmax(log weights)` -/
def logNormWeights (ws : List α) : List α := logSoftmax (ws.map Transc.log)

/-- `VmapMixture._log_prob`: `logsumexp(log_probs + log_normalized_weights)` -/
def mixtureLogProb (lps ws : List α) : α :=
  logsumexp (List.zipWith (· + ·) lps (logNormWeights ws))

/-- `VmapMixture._sample`: `key1, key2 = jr.split(key)`, `component = jr.categorical(key1,
log_normalized_weights)`, every array leaf of the vmapped `dist` is indexed by `component`
(`tree_map(leaf[component])` — a traced index: JAX clamps it into range) and that component's `_sample(key2)`
is returned.  The model's key is the pair (categorical draw, second key).  `none` for zero components
(`leaf[component]` on an empty leading axis raises). -/
def mixtureTake {β : Type} (comps : List β) (component : Nat) : Option β :=
  comps[min component (comps.length - 1)]?

def mixtureSample {X C K : Type} (comps : List (Distn X C K α)) (key : Nat × K) (c : C) : Option X :=
  (mixtureTake comps key.1).map (fun d => d.sample key.2 c)

/-- the whole `VmapMixture` after unwrapping, for components whose points are `X`:
`_log_prob` = `logsumexp(vmap(_log_prob)(x) + log_normalized_weights)`, `_sample` as above (`default` is
never returned when there is at least one component), `_sample_and_log_prob` is the inherited default
`x = _sample(key); (x, _log_prob(x))` (the GENERATED `DistCore.defaultSampleLp`). -/
def vmapMixture {X C K : Type} [Inhabited X] (comps : List (Distn X C K α)) (ws : List α) :
    Distn X C (Nat × K) α :=
  (DistCore.mk (fun key c => (mixtureSample comps key c).getD default)
    (fun x c => mixtureLogProb (comps.map (fun d => d.logProb x c)) ws)).toDist

/-- The last line of the public `log_prob`, `jnp.where(jnp.isnan(lps), -jnp.inf, lps)`, for any scalar
type with IEEE comparison (`x == x` is false exactly for NaN); `-(1 / 0)` is `-inf`.
Run at `Float`, proved at `EF` (`Proofs/FamiliesEF.lean`). -/
def publicLp (x : α) : α := if x == x then x else -(1 / 0)

end Families
