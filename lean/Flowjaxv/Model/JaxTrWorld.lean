import Flowjaxv.Model.ArrJnp
/-!
# The world of `flowjax/bijections/jax_transforms.py` (hand-written, Mathlib-free, executable)

`Gen/JaxTransforms.lean` is GENERATED from `jax_transforms.py` on every run (translator `tools/py2lean/py2meth.py`,
sheet `tools/py2lean/targets_jaxtr.py`): the four methods of `Scan` with their nested `step` closures, `_filter_scan`
with its nested `_scan_fn`, `Vmap.vmap`, the four methods of `Vmap` with their nested `_transform…` closures and the
`shape` / `cond_shape` properties.  The generated text refers to the JAX / Equinox calls through the names defined here.
THIS FILE IS THE TRUSTED MEANING of those calls (compared with the real `Scan` / `Vmap` by `tools/props/c08.py`, driver
ops `jaxtr…`); nothing of flowjax's own code is written here.

* **A stacked module** (`JaxTr.Stacked β`: a module whose array leaves carry an extra leading axis, as made by
  `eqx.filter_vmap(constructor)(params)`) IS the list of its slices — the unstacked layer records `β` (`Bij` records as
  elsewhere) — plus the static data every slice shares (`shape`, `cond_shape`).
* `eqx.partition(xs, filter_spec=eqx.is_array)` = (the array leaves, the rest).  The array leaves keep the leading axis:
  `JaxTr.Leaves β` is the list of their slices; slice `i`, recombined with the static part (`eqx.combine`), is layer `i`.
* `jax.lax.scan(f, init, xs, reverse=r)` (JAX's documented reference semantics): `carry = init; for x in xs: carry, y =
  f(carry, x); ys.append(y)`, the loop running over the leading axis of `xs` — from the LAST slice to the first when
  `reverse=True`, with `ys` stacked in the order of `xs` in both cases — returning `(carry, stack(ys))`.
* `eqx.filter_vmap(f, in_axes=(a_b, a_x, a_c), axis_size=n)(bijection, x, condition)` = `f` applied, for `i < n`, to
  (slice `i` of the bijection's mapped leaves, or the bijection itself when `a_b` is `None`; slice `i` of `x` along
  axis `a_x`; slice `i` of `condition` along `a_c`, or the condition itself when `a_c` is `None`), the results stacked
  along a new leading axis (every output leaf: the point array by `jnp.stack(·, 0)`, the scalar log-dets into a vector).
-/

namespace JaxTr

/-! ## stacked modules, `eqx.partition` / `eqx.combine` -/

/-- a module whose array leaves have an additional leading axis = the list of its slices (+ the shared static data) -/
structure Stacked (β : Type) where
  layers : List β
  shape : List Nat
  cond_shape : Option (List Nat)

/-- one slice (along the leading axis) of the array leaves of a stacked module; with the static part it determines
the layer `layer` -/
structure LeafSlice (β : Type) where
  layer : β

/-- the array leaves of a stacked module (leading axis kept): the list of their slices -/
structure Leaves (β : Type) where
  slices : List (LeafSlice β)

/-- everything of a module that is not an array (`shape`, `cond_shape`, activation functions, …) -/
structure Static (β : Type) where
  shape : List Nat
  cond_shape : Option (List Nat)

/-- `eqx.partition(xs, filter_spec=eqx.is_array)` -/
def partition {β : Type} (xs : Stacked β) : Leaves β × Static β :=
  (⟨xs.layers.map LeafSlice.mk⟩, ⟨xs.shape, xs.cond_shape⟩)

/-- `eqx.combine(x, static)` for a slice `x` of the array leaves: the unstacked layer -/
def combine {β : Type} (x : LeafSlice β) (_static : Static β) : β := x.layer

/-! ## `jax.lax.scan` -/

/-- the reference loop of `lax.scan` over a Python list of slices -/
def scanList {γ ξ υ : Type} (f : γ → ξ → γ × υ) (init : γ) : List ξ → γ × List υ
  | [] => (init, [])
  | x :: xs =>
    let r := f init x
    let rest := scanList f r.1 xs
    (rest.1, r.2 :: rest.2)

/-- `jax.lax.scan(f, init, xs, reverse=reverse)`: with `reverse=True` the loop runs from the last slice to the first;
`ys` is stacked in the order of `xs` either way -/
def laxScan {γ β υ : Type} (f : γ → LeafSlice β → γ × υ) (init : γ) (xs : Leaves β) (reverse : Bool) : γ × List υ :=
  if reverse then
    let r := scanList f init xs.slices.reverse
    (r.1, r.2.reverse)
  else scanList f init xs.slices

/-- the class `Scan` (a dataclass: its only field) -/
structure Scan (X C α : Type) where
  bijection : Stacked (Bij X C α)

/-! ## `eqx.filter_vmap` -/

/-- a bijection as an argument of `filter_vmap`: `whole` is the module itself (what every call sees when its `in_axes`
entry is `None`), `slices` the module with its MAPPED leaves sliced at `i` (what call `i` sees otherwise; the length is the
`axis_size` that `Vmap.__init__` infers from the mapped leaves) -/
structure VModule (β : Type) where
  whole : β
  slices : List β

/-- the `in_axes` entry for the bijection, resolved: present = some leaves are mapped -/
structure ParamAxes where
  deriving Repr, DecidableEq

/-- `x` unstacked along `axis` into `n` slices (`jnp.split` + `squeeze`, as `Stack._split_and_squeeze` does) -/
def unstack {κ : Type} (x : Arr κ) (n : Nat) (axis : Int) : List (Arr κ) :=
  (ArrJnp.split x (n : Int) axis).map (fun a => ArrJnp.squeeze a axis)

/-- the `n` per-call values of an argument with an optional mapped axis -/
def mapArg {κ : Type} (ax : Option Int) (x : Arr κ) (n : Nat) : List (Arr κ) :=
  match ax with
  | none => List.replicate n x
  | some a => unstack x n a

/-- the `n` per-call bijections -/
def mapModule {β : Type} (ax : Option ParamAxes) (m : VModule β) (n : Nat) : List β :=
  match ax with
  | none => List.replicate n m.whole
  | some _ => m.slices

def zipWith3 {β γ δ ρ : Type} (f : β → γ → δ → ρ) : List β → List γ → List δ → List ρ
  | b :: bs, x :: xs, c :: cs => f b x c :: zipWith3 f bs xs cs
  | _, _, _ => []

/-- the per-call results of `eqx.filter_vmap(f, in_axes=in_axes, axis_size=n)(bijection, x, condition)`.
GUARD: the mapped axes exist and have length `n` (JAX raises otherwise). -/
def vmapCalls {β κ ρ : Type} (f : β → Arr κ → Arr κ → ρ) (in_axes : Option ParamAxes × Nat × Option Int) (n : Nat)
    (m : VModule β) (x c : Arr κ) : List ρ :=
  zipWith3 f (mapModule in_axes.1 m n) (unstack x n (in_axes.2.1 : Int)) (mapArg in_axes.2.2 c n)

/-- `eqx.filter_vmap(f, in_axes=…, axis_size=n)` for an array-valued `f`: outputs stacked along a new leading axis -/
def filterVmapArr {β κ : Type} (f : β → Arr κ → Arr κ → Arr κ) (in_axes : Option ParamAxes × Nat × Option Int) (n : Nat) :
    VModule β → Arr κ → Arr κ → Arr κ :=
  fun m x c => ArrJnp.stack (vmapCalls f in_axes n m x c) 0

/-- the same for an `f` returning (array, scalar): each output leaf stacked — the scalars into a vector -/
def filterVmapArrLd {β κ α : Type} (f : β → Arr κ → Arr κ → Arr κ × α) (in_axes : Option ParamAxes × Nat × Option Int) (n : Nat) :
    VModule β → Arr κ → Arr κ → Arr κ × List α :=
  fun m x c =>
    let r := vmapCalls f in_axes n m x c
    (ArrJnp.stack (r.map Prod.fst) 0, r.map Prod.snd)

/-- `jnp.sum` of a vector -/
def jnpSum {α : Type} [Add α] [OfNat α 0] (l : List α) : α := l.foldl (· + ·) 0

/-- the class `Vmap`: the attributes `Vmap.__init__` sets (`cond_shape` is C13's) -/
structure Vmap (κ α : Type) where
  bijection : VModule (SBij (Arr κ) (Arr κ) α)
  in_axes : Option ParamAxes × Nat × Option Int
  axis_size : Nat
  cond_shape : Option (List Nat)

end JaxTr
