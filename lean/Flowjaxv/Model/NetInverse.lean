import Flowjaxv.Model.Masks
import Flowjaxv.Model.Bij
/-!
# Inverse passes and `…_and_log_det` methods of the NETWORK bijections (hand-written model)

Mathlib-free and executable; extends `Model/Masks.lean` (nothing there is changed).  Every definition cites
the source lines it models.

* `couplingInverse`  — `Coupling.inverse` (coupling.py:96-102): the SAME conditioner applied to the unchanged
  first block, the transformer's inverse on the rest.
* `MafNet.invStep`, `MafNet.inverse` — `MaskedAutoregressive.inv_scan_fn` / `.inverse`
  (masked_autoregressive.py:103-118): `len(y)` passes; pass `rank` recomputes ALL transformer parameters from
  the current vector, inverts EVERY coordinate and keeps only coordinate `rank`.
* `vmapLd` — `Vmap(transformer).transform_and_log_det`: per-coordinate values and the SUM of the per-coordinate
  log-dets.
* `couplingBij`, `mafBij` — the four public methods packaged as `Bij` records, for a scalar transformer family
  `tf : List α → Bij α Unit α` (row of parameters ↦ scalar bijection; this is `transformer_constructor`).
* `bnafInvFn` — the function `AutoregressiveBisectionInverter.__call__` hands to the scan:
  `fn(x) = bijection.transform(x, condition) - y` (bisection_search.py:47-49).
-/

namespace Masks

section scalar
variable {α : Type} [Add α] [Mul α] [OfNat α 0]

/-- `Coupling.inverse`: `x_cond, y_trans = y[:d], y[d:]`; `params = reshape(conditioner(x_cond (++ condition)), (dim-d, -1))`;
`hstack((x_cond, Tinv(params, y_trans)))`. -/
def couplingInverse (d : Nat) (conditioner : List α → List α) (Tinv : List α → α → α)
    (y cond : List α) : List α :=
  let xCond := y.take d
  let yTrans := y.drop d
  let ps := reshapeRows (y.length - d) (conditioner (xCond ++ cond))
  xCond ++ List.zipWith Tinv ps yTrans

namespace MafNet

/-- `inv_scan_fn((y, rank), _)`: `params = mlp(y (++ condition))`; `x = Vmap(transformer(params)).inverse(y)`;
`x = y.at[rank].set(x[rank])`.  (`rank < len y` always holds inside the scan; past the end JAX drops the update.) -/
def invStep (N : MafNet α) (Tinv : List α → α → α) (cond : List α) (y : List α) (rank : Nat) : List α :=
  match (List.zipWith Tinv (N.params y cond) y)[rank]? with
  | some v => y.set rank v
  | none => y

/-- `MaskedAutoregressive.inverse`: `lax.scan(inv_scan_fn, (y, 0), None, length=len(y))`. -/
def inverse (N : MafNet α) (Tinv : List α → α → α) (y cond : List α) : List α :=
  (List.range y.length).foldl (N.invStep Tinv cond) y

end MafNet

/-- `Vmap(transformer).transform_and_log_det(x)` for per-coordinate scalar bijections `bs`: the values and the SUM
of the per-coordinate log-dets (`Vmap` sums the vmapped log-dets). -/
def vmapFwdLd (bs : List (Bij α Unit α)) (x : List α) : List α × α :=
  (List.zipWith (fun b t => (b.fwdLd t ()).1) bs x, Jnp.sum (List.zipWith (fun b t => (b.fwdLd t ()).2) bs x))

def vmapInvLd (bs : List (Bij α Unit α)) (y : List α) : List α × α :=
  (List.zipWith (fun b t => (b.invLd t ()).1) bs y, Jnp.sum (List.zipWith (fun b t => (b.invLd t ()).2) bs y))

/-- the four methods of `Coupling` (coupling.py:79-111) for a transformer family `tf` -/
def couplingBij (d : Nat) (conditioner : List α → List α) (tf : List α → Bij α Unit α) :
    Bij (List α) (List α) α where
  fwd x c := couplingTransform d conditioner (fun ps t => (tf ps).fwd t ()) x c
  inv y c := couplingInverse d conditioner (fun ps t => (tf ps).inv t ()) y c
  fwdLd x c :=
    let r := vmapFwdLd ((reshapeRows (x.length - d) (conditioner (x.take d ++ c))).map tf) (x.drop d)
    (x.take d ++ r.1, r.2)
  invLd y c :=
    let r := vmapInvLd ((reshapeRows (y.length - d) (conditioner (y.take d ++ c))).map tf) (y.drop d)
    (y.take d ++ r.1, r.2)

end scalar

section maf
variable {α : Type} [Add α] [Mul α] [Neg α] [OfNat α 0]

/-- the four methods of `MaskedAutoregressive` (masked_autoregressive.py:91-123); `inverse_and_log_det` is
`x = inverse(y); (x, -transform_and_log_det(x)[1])`. -/
def mafBij (N : MafNet α) (tf : List α → Bij α Unit α) : Bij (List α) (List α) α where
  fwd x c := N.transform (fun ps t => (tf ps).fwd t ()) x c
  inv y c := N.inverse (fun ps t => (tf ps).inv t ()) y c
  fwdLd x c := vmapFwdLd ((N.params x c).map tf) x
  invLd y c :=
    let x := N.inverse (fun ps t => (tf ps).inv t ()) y c
    (x, -(vmapFwdLd ((N.params x c).map tf) x).2)

end maf

section bnaf
variable {α : Type} [Add α] [Sub α] [Mul α] [Div α] [OfNat α 0] [Transc α]

/-- `fn(x) = bijection.transform(x, condition) - y` of `AutoregressiveBisectionInverter.__call__` -/
def bnafInvFn (act : α → α) (layers : List (BnafLayer α)) (condLinear : Option (List (List α)))
    (cond y x : List α) : List α :=
  List.zipWith (· - ·) (bnafTransform act layers condLinear x cond) y

end bnaf

end Masks
