import Flowjaxv.Prelude.Scalar
import Flowjaxv.Model.Dist
/-!
# The three training losses of `flowjax/train/losses.py` (hand model, Mathlib-free, executable)

The distribution is the abstract record `Distn` (its three unbatched methods, after `unwrap`).
Batches are lists (`x[i]` = `xs[i]`, `condition[i]` = `cs[i]`; for an unconditional
distribution `C = Unit`).  All definitions are generic in the scalar: run at `Float` by
`Driver/Losses.lean`, reasoned about at `ℝ` in `Proofs/Losses.lean` / `Props/C17.lean`.

What is *not* modelled HERE: `stop_gradient` (the value of `stop_gradient p` is `p`; only autodiff sees
it — the gradient clause of C17 lives in the reverse-mode model `Model/ElboAd.lean`), and `jr.choice`'s actual PRNG: the
choice without replacement is "the first `n` entries of some permutation of the candidates", the
permutation being an explicit argument.
-/
namespace Losses
section
variable {X C K α : Type} [Add α] [Sub α] [Div α] [Neg α] [LT α] [DecidableLT α]
  [OfNat α 0] [OfNat α 1] [Transc α]

/-- `jnp.sum` of a 1-d array -/
def sum (xs : List α) : α := xs.foldr (· + ·) 0

/-- the length of a list as a scalar (`1 + 1 + … + 1`) -/
def count {β : Type} (xs : List β) : α := xs.foldr (fun _ a => a + 1) 0

/-- `arr.mean()` of a 1-d array: `sum / size` (`0/0` for the empty batch: NaN at `Float`, as in JAX) -/
def mean (xs : List α) : α := sum xs / count xs

/-- `MaximumLikelihoodLoss.__call__`: `-dist.log_prob(x, condition).mean()`. -/
def mleLoss (d : Distn X C K α) (xs : List X) (cs : List C) : α :=
  -(mean (List.zipWith d.logProb xs cs))

/-- `ElboLoss.__call__`.  `keys` = the per-sample keys that the public `sample(key, (n,))` /
`sample_and_log_prob(key, (n,))` derive from the given key (`jr.split(key, n)` for both).
* `stl = false`: `samples, log_probs = dist.sample_and_log_prob(key, (n,))`
* `stl = true` : `samples = dist.sample(key, (n,))`; `log_probs = dist.log_prob(samples)`
  (evaluated with `stop_gradient(params)`, which has the same value).
Result `(log_probs - vmap(target)(samples)).mean()`. -/
def elboLoss (d : Distn X C K α) (target : X → α) (stl : Bool) (keys : List K) (c : C) : α :=
  let sl : List X × List α :=
    if stl then
      let samples := keys.map (fun k => d.sample k c)
      (samples, samples.map (fun x => d.logProb x c))
    else (keys.map (fun k => d.sampleLp k c)).unzip
  mean (List.zipWith (fun lp x => lp - target x) sl.2 sl.1)

/-! ### contrastive indices -/

/-- `jnp.delete(jnp.arange(batch), i)` -/
def choices (batch i : Nat) : List Nat := (List.range batch).eraseIdx i

/-- `_get_contrastive_idxs(key, batch, n)`: row `i` = `jr.choice(keyᵢ, choices batch i, (n,), replace=False)`
= the first `n` entries of the permutation `π i` of the candidates. -/
def contrastiveIdxs (batch n : Nat) (π : Nat → List Nat) : List (List Nat) :=
  (List.range batch).map fun i => (π i).take n

/-- executable admissibility test of a permutation family (used by the driver) -/
def admissibleB (batch : Nat) (π : Nat → List Nat) : Bool :=
  (List.range batch).all fun i => (π i).isPerm (choices batch i)

/-! ### contrastive loss -/

/-- `jnp.max` of a non-empty 1-d array -/
def maxL : List α → α
  | [] => 0
  | x :: xs => xs.foldl (fun a b => if a < b then b else a) x

/-- `jax.scipy.special.logsumexp` (finite entries): `max + log Σ exp(xᵢ - max)` -/
def lse (xs : List α) : α :=
  let m := maxL xs
  m + Transc.log (sum (xs.map fun x => Transc.exp (x - m)))

/-- one row: `normalizer = logsumexp(append(contrastive_logits, positive_logit))`,
`-(positive_logit - normalizer)` -/
def rowTerm (pos : α) (con : List α) : α := -(pos - lse (con ++ [pos]))

/-- `dist.log_prob(x, c) - prior.log_prob(x)` -/
def logit (d : Distn X C K α) (prior : X → α) (x : X) (c : C) : α := d.logProb x c - prior x

/-- `x[idxs]` with every index required to be in range -/
def gather (xs : List X) : List Nat → Option (List X)
  | [] => some []
  | j :: js =>
    match xs[j]?, gather xs js with
    | some x, some r => some (x :: r)
    | _, _ => none

/-- all-or-nothing -/
def sequence {β : Type} : List (Option β) → Option (List β)
  | [] => some []
  | o :: os =>
    match o, sequence os with
    | some x, some r => some (x :: r)
    | _, _ => none

/-- `single_x_loss(x_i, condition_i, contrastive_idxs)` -/
def rowLoss (d : Distn X C K α) (prior : X → α) (xs : List X) (xi : X) (ci : C) (idxs : List Nat) : Option α :=
  (gather xs idxs).map fun con =>
    rowTerm (logit d prior xi ci) (con.map fun xj => logit d prior xj ci)

/-- `ContrastiveLoss.__call__`.  `none` = the call raises: the explicit guard
`x.shape[0] <= n_contrastive → ValueError`, and `filter_vmap`'s requirement that `x` and
`condition` have the same leading size. -/
def contrastiveLoss (d : Distn X C K α) (prior : X → α) (n : Nat) (xs : List X) (cs : List C)
    (π : Nat → List Nat) : Option α :=
  if xs.length ≤ n then none
  else if cs.length ≠ xs.length then none
  else
    (sequence ((xs.zip (cs.zip (contrastiveIdxs xs.length n π))).map
        fun r => rowLoss d prior xs r.1 r.2.1 r.2.2)).map mean

end
end Losses
