import Flowjaxv.Model.Bij
import Flowjaxv.Gen.Leaves
import Flowjaxv.Gen.Combinators
/-!
# Packaging the generated methods as `Bij` records, and the elementwise lifting

Hand-written glue (Mathlib-free, executable).  The four fields are exactly the four
generated methods of the class; nothing is recomputed here.
-/
open Gen

section
variable {α C : Type} [Add α] [Sub α] [Mul α] [Div α] [Neg α] [LT α] [LE α] [BEq α]
  [OfNat α 0] [OfNat α 1] [OfNat α 2] [OfNat α 4] [OfScientific α]
  [DecidableLT α] [DecidableLE α] [Transc α] [Inhabited α]

def Gen.Affine.toBij (p : Affine α) : Bij α C α :=
  ⟨fun x _ => p.transform x, fun y _ => p.inverse y,
   fun x _ => p.transform_and_log_det x, fun y _ => p.inverse_and_log_det y⟩
def Gen.Loc.toBij (p : Loc α) : Bij α C α :=
  ⟨fun x _ => p.transform x, fun y _ => p.inverse y,
   fun x _ => p.transform_and_log_det x, fun y _ => p.inverse_and_log_det y⟩
def Gen.Scale.toBij (p : Scale α) : Bij α C α :=
  ⟨fun x _ => p.transform x, fun y _ => p.inverse y,
   fun x _ => p.transform_and_log_det x, fun y _ => p.inverse_and_log_det y⟩
def Gen.Exp.toBij : Bij α C α :=
  ⟨fun x _ => Exp.transform {} x, fun y _ => Exp.inverse {} y,
   fun x _ => Exp.transform_and_log_det {} x, fun y _ => Exp.inverse_and_log_det {} y⟩
def Gen.SoftPlus.toBij : Bij α C α :=
  ⟨fun x _ => SoftPlus.transform {} x, fun y _ => SoftPlus.inverse {} y,
   fun x _ => SoftPlus.transform_and_log_det {} x, fun y _ => SoftPlus.inverse_and_log_det {} y⟩
def Gen.Tanh.toBij : Bij α C α :=
  ⟨fun x _ => Tanh.transform {} x, fun y _ => Tanh.inverse {} y,
   fun x _ => Tanh.transform_and_log_det {} x, fun y _ => Tanh.inverse_and_log_det {} y⟩
def Gen.LeakyTanh.toBij (p : LeakyTanh α) : Bij α C α :=
  ⟨fun x _ => p.transform x, fun y _ => p.inverse y,
   fun x _ => p.transform_and_log_det x, fun y _ => p.inverse_and_log_det y⟩
def Gen.RationalQuadraticSpline.toBij (p : RationalQuadraticSpline α) : Bij α C α :=
  ⟨fun x _ => p.transform x, fun y _ => p.inverse y,
   fun x _ => p.transform_and_log_det x, fun y _ => p.inverse_and_log_det y⟩
end

section
variable {X C α : Type} [Add α] [Neg α] [OfNat α 0]

def Gen.Chain.toBij (c : Chain X C α) : Bij X C α :=
  ⟨c.transform, c.inverse, c.transform_and_log_det, c.inverse_and_log_det⟩
def Gen.Invert.toBij (c : Invert X C α) : Bij X C α :=
  ⟨c.transform, c.inverse, c.transform_and_log_det, c.inverse_and_log_det⟩

/-- The identity bijection (`flowjax.bijections.Identity`). -/
def Bij.id : Bij X C α := ⟨fun x _ => x, fun y _ => y, fun x _ => (x, 0), fun y _ => (y, 0)⟩

/-- Elementwise lifting: what an elementwise flowjax bijection of shape `(n,)` (or any
shape, flattened) does after the constructor's `broadcast_arrays` — element `i` goes through
scalar bijection `i`, and `.sum()` adds the per-element log-dets. -/
def Bij.elementwise (bs : List (Bij α C α)) : Bij (List α) C α where
  fwd xs c := List.zipWith (fun b x => b.fwd x c) bs xs
  inv ys c := List.zipWith (fun b y => b.inv y c) bs ys
  fwdLd xs c :=
    (List.zipWith (fun b x => (b.fwdLd x c).1) bs xs,
     (List.zipWith (fun b x => (b.fwdLd x c).2) bs xs).foldl (· + ·) 0)
  invLd ys c :=
    (List.zipWith (fun b y => (b.invLd y c).1) bs ys,
     (List.zipWith (fun b y => (b.invLd y c).2) bs ys).foldl (· + ·) 0)
end
