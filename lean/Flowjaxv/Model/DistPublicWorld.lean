import Flowjaxv.Model.Vectorize
/-!
# Primitives the GENERATED public wrappers of `AbstractDistribution` (`Gen/DistPublicGen.lean`) are written in

Core Lean only.  `tools/py2lean/py2meth.py` translates `AbstractDistribution.log_prob / sample / sample_and_log_prob / ndim /
cond_ndim / _vectorize (with `_check_shapes`) / _get_sample_keys` (`flowjax/distributions.py`) and `_get_ufunc_signature`
(`flowjax/utils.py`) statement by statement (typing sheet `tools/py2lean/targets_dist_public.py`); every library call it meets is
mapped to one of the functions below.  This file is the hand-written part of that tie: the *meaning of the library calls*.
`jnp.vectorize` itself stays a hand-modelled primitive (it is JAX's): `jnpVectorize` below is `Vec.vectorizeLoop` /
`Vec.vectorize1/2` of `Model/Vectorize.lean` with the pieces the source supplies — the signature STRING, the `excluded` set and
the shape-checking wrapper — left as arguments.  `jr.split` is the abstract `World.split`.

* an array is a `Vec.Arr` (full shape + the element at each leading multi-index); a key array has core shape `(2,)`;
* `condition : Option (Arr C)` (`None` or an array); what a private method receives as its condition is a `CondVal`: one
  element of the condition array (`elem`) when the condition is vectorised over, the caller's object itself (`raw`) when
  argument 1 is in `excluded` (unconditional distributions);
* a bound private method is its `__name__`, the shapes of what it returns for unbatched arguments (the documented contract of
  `_log_prob` / `_sample` / `_sample_and_log_prob`: `()`, `self.shape`, `(self.shape, ())` — `jnp.vectorize` checks the declared
  output core dimensions against them) and the function;
* strings are `List Char`.
-/
namespace Pw
open Vec

/-- what a private method receives as `condition` -/
inductive CondVal (C : Type) where
  | elem : C → CondVal C
  | raw : Option (Arr C) → CondVal C

/-- `self._log_prob` etc. as a value: `method.__name__`, the shapes of its results, the function -/
structure BoundMethod (A C R : Type) where
  name : Method
  outShapes : List Shape
  call : A → CondVal C → R

/-- a distribution object: the attributes and private methods the public wrappers use -/
structure DistObj (X C K L : Type) where
  shape : Shape
  cond_shape : Option Shape
  logProb : X → CondVal C → L
  sample : K → CondVal C → X
  sampleLp : K → CondVal C → X × L

/-- the library objects the wrappers only hand on -/
structure World (X C K L : Type) where
  /-- `flowjax.wrappers.unwrap` -/
  unwrap : DistObj X C K L → DistObj X C K L
  /-- `jr.split(key, n)[j]` -/
  split : K → Nat → Nat → K
  /-- `jnp.isnan` of one element -/
  isnan : L → Bool
  /-- `jnp.inf` -/
  inf : L
  /-- unary minus -/
  neg : L → L

variable {X C K L A R : Type}

def mLogProb (d : DistObj X C K L) : BoundMethod X C L := ⟨.logProb, [[]], d.logProb⟩
def mSample (d : DistObj X C K L) : BoundMethod K C X := ⟨.sample, [d.shape], d.sample⟩
def mSampleLp (d : DistObj X C K L) : BoundMethod K C (X × L) := ⟨.sampleLp, [d.shape, []], d.sampleLp⟩

/-! ### argument casting -/

/-- `arraylike_to_array(x, …)` of an array (the `dtype=float` cast does not change shapes or the element view) -/
def toArray (x : Arr X) : Except PyErr (Arr X) := .ok x

/-- `arraylike_to_array(condition, …)`: `None` is not array-like (TypeError) -/
def toArrayOpt (c : Option (Arr C)) : Except PyErr (Option (Arr C)) :=
  match c with
  | none => .error .typeError
  | some a => .ok (some a)

/-- `condition.shape`.  On `None` Python raises AttributeError; `Vec.PyErr` has no such class and the point is unreachable through
the public methods (they convert the condition first, raising TypeError), so it is reported as `typeError` here. -/
def shapeOfOpt (c : Option (Arr C)) : Except PyErr Shape :=
  match c with
  | none => .error .typeError
  | some a => .ok a.shape

/-! ### Python ints, slices -/

/-- `-n` of a Python int that is a length -/
def negNat (n : Nat) : Int := -(n : Int)
/-- `k or None` (`0` is falsy) -/
def orNone (k : Int) : Option Int := if k = 0 then none else some k
/-- `seq[:stop]` -/
def sliceTo (s : Shape) (stop : Option Int) : Shape := s.take (pySliceStop s.length stop)

/-! ### keys -/

/-- `jr.split(key, n)`: an `(n, 2)` key array -/
def jrSplit (W : World X C K L) (key : K) (n : Nat) : Arr K := ⟨[n, 2], fun i => W.split key n (i.headD 0)⟩

/-- `jnp.reshape(keys, (*key_shape, 2))` of a key array `(n, 2)`: TypeError unless the sizes agree; row-major; the last axis
(the two words of a key) is kept, so the element at leading multi-index `i` is key number `flatIndex key_shape i` -/
def reshapeKeys (a : Arr K) (shp : Shape) : Except PyErr (Arr K) :=
  if sprod a.shape = sprod shp then .ok ⟨shp, fun i => a.slice [flatIndex shp.dropLast i]⟩ else .error .typeError

/-! ### the NaN → −inf line -/

/-- `jnp.isnan(lps)` -/
def isnanB (W : World X C K L) (b : Batched L) : Batched Bool := ⟨b.loop, fun i => W.isnan (b.elem i)⟩
/-- `jnp.where(mask, scalar, arr)` -/
def whereB (m : Batched Bool) (s : L) (b : Batched L) : Batched L := ⟨b.loop, fun i => if m.elem i then s else b.elem i⟩

/-! ### `_check_shapes` -/

/-- a positional argument of the wrapper, known by its `.shape` -/
structure Shaped where
  shape : Shape

/-- `inspect.signature(method).bind(*args, **kwargs)` + `.arguments.items()`: the positional arguments in order, each with its
parameter name (used only in the error message: not modelled) -/
def bindArgs (args : List Shaped) : List (List Char × Shaped) := args.map fun a => ([], a)

/-- `_check_shapes(method)`: the wrapper's raise condition and the wrapped method -/
structure Checked (A C R : Type) where
  raises : List Shaped → Bool
  method : BoundMethod A C R

/-! ### `jnp.vectorize(pyfunc, signature=…, excluded=…)` -/

/-- what `jnp.vectorize(...)` returns, applied to the two positional arguments flowjax passes -/
abbrev VCall (A C R : Type) := Arr A → Option (Arr C) → Except PyErr (Batched R)

/-- `_parse_gufunc_signature` on a string given as characters, core dimension names read as the numerals they are -/
def parseSig (sig : List Char) : Option (List Shape × List Shape) :=
  match parseSignatureChars sig with
  | none => none
  | some (a, b) =>
    match a.mapM (·.mapM nameToNat), b.mapM (·.mapM nameToNat) with
    | some x, some y => some (x, y)
    | _, _ => none

/-- `Vec.vectorizeLoop` with the per-element check (step 4) supplied by the caller: `pyfunc` = the wrapper of `_check_shapes` -/
def vectorizeLoopWith (raises : List Shaped → Bool) (inCore argShapes : List Shape) : Except PyErr (List Shape × Shape) :=
  match splitAll inCore argShapes with
  | none => .error .valueError
  | some parts =>
    match dimsAll [] inCore parts with
    | none => .error .valueError
    | some _ =>
      match broadcastShapes (parts.map (·.1)) with
      | none => .error .valueError
      | some loop =>
        if raises (parts.map fun p => ⟨p.2⟩) then .error .valueError else .ok (parts.map (·.1), loop)

/-- `jnp.vectorize(checked, signature=sig, excluded=ex)(a, c)`: the signature string is parsed back; an excluded argument 1 is
handed to every call unchanged, otherwise the condition must be an array and is vectorised over; the declared output core
shapes must be those the method returns.  Every rejection is a ValueError except a `None` that is vectorised over (TypeError). -/
def jnpVectorize (f : Checked A C R) (sig : List Char) (excluded : List Nat) : VCall A C R := fun a c =>
  match parseSig sig with
  | none => .error .valueError
  | some (ins, outs) =>
    if excluded = [1] then
      match vectorizeLoopWith f.raises ins [a.shape] with
      | .ok ([la], loop) =>
        if outs = f.method.outShapes then .ok ⟨loop, fun i => f.method.call (a.slice (bIndex la i)) (.raw c)⟩
        else .error .valueError
      | .ok _ => .error .valueError
      | .error e => .error e
    else if excluded = [] then
      match c with
      | none => .error .typeError
      | some c =>
        match vectorizeLoopWith f.raises ins [a.shape, c.shape] with
        | .ok ([la, lb], loop) =>
          if outs = f.method.outShapes then
            .ok ⟨loop, fun i => f.method.call (a.slice (bIndex la i)) (.elem (c.slice (bIndex lb i)))⟩
          else .error .valueError
        | .ok _ => .error .valueError
        | .error e => .error e
    else .error .valueError

end Pw
