import Flowjaxv.Gen.BnafGen
/-!
# Primitives the GENERATED `BlockAutoregressiveNetwork.__init__` (`Gen/BnafInitGen.lean`) is written in

Core Lean only, executable.  `tools/py2lean/py2meth.py` (a `Ctor` item, typing sheet `tools/py2lean/targets_bnafinit.py`) translates
`BlockAutoregressiveNetwork.__init__` statement by statement; every library call it meets is mapped to one of the functions below
(or to the GENERATED `GenBnaf.blockAutoregressiveLinear` of `Gen/BnafGen.lean`).  This file is the hand-written part of that tie —
the meaning of the library calls and of the argument kinds, nothing about the network:

* `jax.random.split(key, num)` is `num` keys, its `i`-th one an ARBITRARY function `split key num i` of the world (`KeySplit`);
  `jr.split(key)` is `num = 2` unpacked into a pair;
* the `activation` argument is `None`, an `AbstractBijection` (the record `ScalarBij` of its declared `shape`, `cond_shape` and the
  two methods the network calls) or any other object, which is then taken to be a callable (`ActArg.callable`; `DFn`: value and
  derivative, as in `Model/BnafWorld.lean`) — `isinstance(activation, AbstractBijection)` is the `match` on that sum;
* `LeakyTanh(3)` is the record of the GENERATED `LeakyTanh.__init__ / transform / transform_and_log_det` (`Gen/Leaves.lean`), declared
  `shape = ()`, `cond_shape = None`; `_CallableToBijection(fn)` the record of the GENERATED `_CallableToBijection.transform /
  transform_and_log_det` (`Gen/BnafGen.lean`) with the class's `ClassVar`s `shape = ()`, `cond_shape = None`
  (its `__init__` guard `callable(fn)` is outside the typed model: a `DFn` is callable);
* `inverter`: a function of `(y, condition)` (it has closed over the bijection, as in `BnafWorld`); the default
  `AutoregressiveBisectionInverter()` is a value of the world;
* `[x] * n` for a Python int `n` (`n ≤ 0` gives `[]`), `zip(a, b, strict=True)` (`ValueError` unless the lengths agree),
  `xs[0]` (`IndexError` on an empty list);
* `linear.out_features` of the `eqx.nn.Linear` `block_autoregressive_linear` returns: the static field Equinox sets to the
  `out_features` argument; the world's `Linear` does not store statics, it is read off as the length of the bias — equal to the
  argument in every world that allocates arrays of the declared shapes (`World.Shaped`, the hypothesis of the constructor theorems);
* `eqx.nn.Linear(in, out, use_bias=False, key=k)` allocates a weight whose VALUE is the world's (`InitWorld.condLinearInit`).
-/
namespace Bw

/-- the Python exceptions the constructor can raise -/
inductive PyErr where
  | valueError
  | indexError
  deriving DecidableEq, Repr

/-- `jax.random.split(key, num)[i]` -/
structure KeySplit (K : Type) where
  split : K → Nat → Nat → K

/-- `random.split(key, num)`: an array of `num` keys -/
def KeySplit.splitN {K : Type} (S : KeySplit K) (key : K) (num : Nat) : List K := (List.range num).map (S.split key num)

/-- `jr.split(key)` (`num = 2`), unpacked into two names -/
def KeySplit.split2 {K : Type} (S : KeySplit K) (key : K) : K × K := (S.split key 2 0, S.split key 2 1)

/-- `[x, …] * n` for a Python int `n` -/
def listRepeat {β : Type} (xs : List β) (n : Int) : List β := (List.replicate n.toNat xs).flatten

/-- `zip(a, b, strict=True)` consumed by a `for`: `ValueError` unless the lengths agree -/
def zipStrict {β γ : Type} (a : List β) (b : List γ) : Except PyErr (List (β × γ)) :=
  if a.length = b.length then .ok (a.zip b) else .error .valueError

/-- `xs[0]` -/
def head0 {β : Type} (xs : List β) : Except PyErr β :=
  match xs with
  | x :: _ => .ok x
  | [] => .error .indexError

section
variable {α : Type} [Add α] [Sub α] [Mul α] [Div α] [Neg α] [LT α] [LE α] [BEq α]
  [OfNat α 0] [OfNat α 1] [OfNat α 2] [OfNat α 4] [OfScientific α]
  [DecidableLT α] [DecidableLE α] [Transc α] [Inhabited α]

/-- a scalar `AbstractBijection` as the constructor sees it: declared shapes + the two methods the network calls -/
structure ScalarBij (α : Type) where
  shape : List Nat
  cond_shape : Option (List Nat)
  methods : ActBij α

/-- the `activation` argument when it is not `None` -/
inductive ActArg (α : Type) where
  /-- `isinstance(activation, AbstractBijection)` -/
  | bijection (b : ScalarBij α)
  /-- anything else: handed to `_CallableToBijection` -/
  | callable (fn : DFn α)

/-- `LeakyTanh(max_val)`: the generated constructor and methods of `Gen/Leaves.lean` -/
def leakyTanh (max_val : α) : ScalarBij α where
  shape := []
  cond_shape := none
  methods := ⟨Gen.LeakyTanh.transform (Gen.LeakyTanh.init max_val), fun z => Gen.LeakyTanh.transform_and_log_det (Gen.LeakyTanh.init max_val) z⟩

/-- `_CallableToBijection(fn)`: `shape: ClassVar = ()`, `cond_shape: ClassVar = None`, the generated methods of `Gen/BnafGen.lean` -/
def callableToBijection (fn : DFn α) : ScalarBij α where
  shape := []
  cond_shape := none
  methods := ⟨GenBnaf.callableTransform ⟨fn⟩, GenBnaf.callableTransformAndLogDet ⟨fn⟩⟩

/-- `linear.out_features` (see the header) -/
def LinearW.outFeatures (l : LinearW α) : Nat := l.bias.length

/-- what the constructor needs beyond `World`: key splitting, the bias-free `cond_linear` weight, the default inverter -/
structure InitWorld (K α : Type) where
  keys : KeySplit K
  /-- `eqx.nn.Linear(in_features, out_features, use_bias=False, key=key)` -/
  condLinearInit : K → Nat → Nat → CondLinear α
  /-- `AutoregressiveBisectionInverter()` (closed over the bijection) -/
  defaultInverter : List α → Option (List α) → List α

/-- the attributes `BlockAutoregressiveNetwork.__init__` assigns (the wrapped object: `layers` still hold the weight nests) -/
structure NetW (α : Type) where
  shape : List Nat
  cond_shape : Option (List Nat)
  depth : Nat
  layers : List (LinearW α × (Linear α → Blocks α))
  cond_linear : Option (CondLinear α)
  block_dim : Nat
  activation : ScalarBij α
  inverter : List α → Option (List α) → List α

/-- `unwrap(self)`: what the methods of `Gen/BnafGen.lean` see -/
def NetW.unwrap (N : NetW α) : Net α where
  shape := N.shape
  block_dim := N.block_dim
  layers := N.layers.map fun p => (p.1.unwrap, p.2)
  cond_linear := N.cond_linear
  activation := N.activation.methods
  inverter := N.inverter

end
end Bw
