import Flowjaxv.Prelude.Jnp
import Flowjaxv.Prelude.Scalar
/-!
# Primitives the GENERATED `_UnconditionalPlanar.__init__` (`Gen/PlanarInitGen.lean`) is written in

Core Lean only.  `tools/py2lean/py2meth.py` (a `Ctor` item in statements mode, sheet `tools/py2lean/targets_planarinit.py`) translates
`_UnconditionalPlanar.__init__` statement by statement.  Hand-written here: the record of the attributes it sets (`activation` is the
Python string, `activation_fn` a function value), the exception type, and — in the sheet — the meaning of `jnp.tanh` (`Transc.tanh`),
`partial(nn.leaky_relu, negative_slope=s)` (`fun z => Jnp.leakyRelu z s`, the primitive `Gen/Planar.lean` uses) and `weight.shape` of a
1-d array (`(len,)`).
-/
namespace Pw

inductive PyErr where
  | valueError
  deriving DecidableEq, Repr

/-- the attributes `_UnconditionalPlanar.__init__` assigns -/
structure UPlanar (α : Type) where
  weight : List α
  bias : α
  shape : List Nat
  negative_slope : Option α
  _act_scale : List α
  activation : List Char
  activation_fn : α → α

end Pw
