import Flowjaxv.Model.Losses
/-!
# Primitives the GENERATED losses (`Gen/LossesGen.lean`) are written in

Core Lean only.  `tools/py2lean/py2meth.py` translates `flowjax/train/losses.py` statement by statement (typing sheet
`tools/py2lean/targets_losses.py`); every library call it meets is mapped to one of the functions below.  This file is the
hand-written part of that tie: the *meaning of the library calls* — nothing about the losses themselves.

* a batch (an array with a leading batch axis) is the list of its rows; a condition that is `None` is a batch of `W.noCond`s for
  the batched call and `W.noCond` for the samplers (what the private methods of an unconditional distribution receive);
* `eqx.combine`, `unwrap` and the distribution's three private methods are fields of `World` (`methods d` = the private methods
  of `unwrap(d)`: every public method starts with `self = unwrap(self)`).  The public methods are the batched forms that C06
  proves about the batching layer: `log_prob(x, c)` of two batches pairs row `i` with row `i` (`C06.paired_same_index`), a single
  condition is broadcast, `sample(key, (n,))` / `sample_and_log_prob(key, (n,))` call the private method once per key of
  `jr.split(key, n)` (`C06.batched_eq_elementwise_sample_unconditional`);
* `stop_gradient(p)` has the VALUE `p` (only autodiff sees it: the gradient clause of C17 is `Model/ElboAd.lean`);
* **`jr.choice(key, a, (n,), replace=False)`** is the first `n` entries of `W.choicePerm key a`; the ONE guarantee the property
  needs from JAX is that `W.choicePerm key a` is a permutation of `a` (`Lw.World.ChoiceIsPerm`, a hypothesis of the theorems that
  use it — JAX implements `choice(replace=False)` without weights as `permutation(key, a)[:n]`); it raises when `n > len(a)`.
  With `replace=True` the draw is `W.choiceRepl key a n`, about which nothing is assumed.
-/
namespace Lw
open Losses

/-- the library objects the losses only hand on -/
structure World (X C K P S D α : Type) where
  /-- `eqx.combine(params, static)` -/
  combine : P → S → D
  /-- `flowjax.wrappers.unwrap` -/
  unwrap : D → D
  /-- the three private methods of `unwrap(d)` -/
  methods : D → Distn X C K α
  /-- `jr.split(key, n)[i]` -/
  split : K → Nat → Nat → K
  /-- what the private methods receive for `condition=None` -/
  noCond : C
  /-- the permutation of the candidates behind `jr.choice(key, a, shape, replace=False)` -/
  choicePerm : K → List Nat → List Nat
  /-- `jr.choice(key, a, (n,), replace=True)` -/
  choiceRepl : K → List Nat → Nat → List Nat

/-- the guarantee taken from JAX: sampling without replacement draws from a permutation of the candidates -/
def World.ChoiceIsPerm {X C K P S D α : Type} (W : World X C K P S D α) : Prop :=
  ∀ k a, (W.choicePerm k a).Perm a

section
variable {X C K P S D α : Type} [Add α] [Sub α] [Div α] [Neg α] [LT α] [DecidableLT α]
  [OfNat α 0] [OfNat α 1] [Transc α]

/-- `jax.lax.stop_gradient` at the level of values -/
def stopGradient (p : P) : P := p

/-- `math.prod` of a shape -/
def prod : List Nat → Nat
  | [] => 1
  | d :: ds => d * prod ds

/-- `jr.split(key, n)` -/
def keys (W : World X C K P S D α) (key : K) (n : Nat) : List K := (List.range n).map (W.split key n)

/-- `dist.log_prob(x, condition)` on a single point -/
def logProb11 (W : World X C K P S D α) (d : D) (x : X) (c : C) : α := (W.methods d).logProb x c
/-- `dist.log_prob(x, condition)`, both batched -/
def logProbBB (W : World X C K P S D α) (d : D) (xs : List X) (cs : List C) : List α :=
  List.zipWith (W.methods d).logProb xs cs
/-- `dist.log_prob(x, condition)`, `x` batched, one condition (broadcast) -/
def logProbB1 (W : World X C K P S D α) (d : D) (xs : List X) (c : C) : List α :=
  xs.map fun x => (W.methods d).logProb x c
/-- `dist.log_prob(x)` of a batch, no condition -/
def logProbB (W : World X C K P S D α) (d : D) (xs : List X) : List α := logProbB1 W d xs W.noCond
/-- `dist.sample(key, sample_shape)` (the batch flattened row-major) -/
def sample (W : World X C K P S D α) (d : D) (key : K) (shape : List Nat) : List X :=
  (keys W key (prod shape)).map fun k => (W.methods d).sample k W.noCond
/-- `dist.sample_and_log_prob(key, sample_shape)` -/
def sampleLp (W : World X C K P S D α) (d : D) (key : K) (shape : List Nat) : List X × List α :=
  ((keys W key (prod shape)).map fun k => (W.methods d).sampleLp k W.noCond).unzip

/-- `a - b` of two 1-d arrays -/
def subV (a b : List α) : List α := List.zipWith (· - ·) a b
/-- `jnp.append(a, v)` -/
def append (a : List α) (v : α) : List α := a ++ [v]
/-- `jnp.arange(n)` -/
def arange (n : Nat) : List Nat := List.range n
/-- `jnp.delete(a, i, assume_unique_indices=True)` for one index -/
def delete (a : List Nat) (i : Nat) : List Nat := a.eraseIdx i

/-- `jr.choice(key, a, shape, replace=…)` for a 1-d `a` without weights; `none` = ValueError ("cannot take a larger sample than
population when `replace=False`") -/
def choice (W : World X C K P S D α) (key : K) (a : List Nat) (shape : List Nat) (replace : Bool) : Option (List Nat) :=
  if replace then some (W.choiceRepl key a (prod shape))
  else if prod shape ≤ a.length then some ((W.choicePerm key a).take (prod shape)) else none

/-- `eqx.filter_vmap(f)(a, b)` over two arrays: `none` when the leading sizes differ or some call raises -/
def vmap2 {A B R : Type} (f : A → B → Option R) (as : List A) (bs : List B) : Option (List R) :=
  if bs.length ≠ as.length then none else sequence ((as.zip bs).map fun r => f r.1 r.2)

/-- `eqx.filter_vmap(f)(a, b, e)` over three arrays -/
def vmap3 {A B E R : Type} (f : A → B → E → Option R) (as : List A) (bs : List B) (es : List E) : Option (List R) :=
  if bs.length ≠ as.length ∨ es.length ≠ as.length then none
  else sequence ((as.zip (bs.zip es)).map fun r => f r.1 r.2.1 r.2.2)

end
end Lw
